#!/usr/bin/env python3
"""prints the prompt for a mutant-writing sub-agent: property text only + its scratch worktree"""
import json,sys
pid, wt = sys.argv[1], sys.argv[2]
n = sys.argv[3] if len(sys.argv)>3 else "2"
hint = sys.argv[4] if len(sys.argv)>4 else ""
p=[json.loads(l) for l in open('/verif/properties.jsonl') if json.loads(l)['id']==pid][0]
print(f"""You are helping to evaluate a verification effort by writing realistic *seeded defects* for a Go code base. Work ONLY inside the git worktree {wt} (a checkout of filecoin-project/go-f3: Go implementation of Filecoin Fast Finality — GossipPBFT consensus, finality certificates, cert store/exchange, WAL, simulator). Do NOT read or write anything under /verif or /repo, and do not look for other worktrees. The sandbox is offline; use `export GOPROXY=off` for go commands (do not set GOFLAGS, GOSUMDB or GOTOOLCHAIN; never run go mod tidy / go get).

The semantic property under study:

TITLE: {p['title']}
STATEMENT: {p['statement']}
QUANTIFIED OVER: {p['quantifier']['text']}
CODE ANCHORS (where the behaviour lives): {', '.join(p['anchors']['files'])}

Task: produce {n} DIFFERENT changes (different mechanisms, ideally different functions/files) to the go-f3 sources, each of which
  (1) BREAKS the property above for some input / schedule / history,
  (2) still compiles (`go build ./...` and `go vet` not required) and leaves the EXISTING test suite passing — at minimum `go test -vet=off -count=1` of every package you touched and of the packages that import it most directly (e.g. for gpbft changes: ./gpbft/... ./sim/... ./emulator/... ./certs/... and the root package tests you can afford; the root package and ./test/... take several minutes and contain one timing-flaky test `TestF3StopStartCatchup`, which you may ignore),
  (3) needs something SPECIFIC to manifest — a particular interleaving or message order, a crash/fault at a particular point, a multi-step sequence of operations, an unusual but legal input (boundary value, rare configuration), or two cooperating edits that each look fine alone — i.e. NOT something ordinary use or a casual smoke test would expose at once, and not a change that makes everything fail,
  (4) looks like a plausible programming mistake or a plausible "optimisation"/refactor (no comments saying it is a bug, no dead giveaway names). {hint}

For EACH change deliver, in a directory {wt}/_mutants/<k>/ (k = 1..{n}):
  * patch.diff — `git diff` of the source change only (apply it on a clean tree with `git apply`); must not include the demonstration;
  * a demonstration: a Go test file (say where it must be placed, e.g. gpbft/zz_demo_test.go; it may be an in-package test using unexported identifiers) or a small program, that FAILS (deterministically, or with overwhelming probability within a few seconds) when the change is applied and PASSES on the clean tree. Put it at {wt}/_mutants/<k>/demo_test.go (plus a line in notes.md with the destination path and the exact `go test -run ...` command);
  * notes.md — what the change does, why it breaks the property, exactly what is needed for it to manifest, which existing tests you ran (commands + result) with the change applied, and the demonstration's output with and without the change.
Verify all of this yourself: clean tree → demo passes; apply patch → demo fails, existing tests of the touched packages still pass. Leave the worktree CLEAN of the change at the end (git checkout -- . ; the _mutants directory stays, untracked). Keep CPU use moderate (`go test -p 4`), the machine is shared.

Final answer: for each change a 5-line summary (file/function, mechanism, what it needs to manifest, tests run, demo command and outcome).""")
