#!/usr/bin/env python3
"""prints the DESIGN.md catch table (markdown) from /verif/seeded/*/meta.json"""
import json,glob,re
rows=[]
for f in sorted(glob.glob('/verif/seeded/*/meta.json')):
    m=json.load(open(f))
    cr=m['confirmed_by_me']['checks_run']
    def short(v):
        v=v.strip()
        if v.lower().startswith('initially missed'): tag='caught after strengthening'
        elif v.lower().startswith('missed'): tag='MISSED'
        elif v.lower().startswith('caught'): tag='caught'
        elif v.lower().startswith('held') or v.lower().startswith('not caught') or v.lower().startswith('not applicable'): tag='held'
        else: tag=v[:30]
        return tag
    own=m['property']
    cells=[]
    for k,v in cr.items():
        cells.append(f"{k.split()[0]}{' (thorough)' if 'thorough' in k else ''}: {short(v)}")
    needs=m['needs_to_manifest']
    rows.append((m['id'],own,needs,"; ".join(cells)))
print("| seeded change | breaks | needs to manifest | checks (quick tier) |")
print("|---|---|---|---|")
for r in rows:
    print(f"| `{r[0]}` | {r[1]} | {r[2][:150]} | {r[3]} |")
