#!/bin/bash
# usage: tools/allquick.sh [seed] [tier] [ids...] — runs every check serially, prints one line per property with exit code and wall time
SEED=${1:-1}; TIER=${2:-quick}; shift 2
IDS="$@"; [ -z "$IDS" ] && IDS="C01 C02 C03 C04 C05 C06 C07 C08 C09 C10 C11 C12 C13 C14 C15 C16 C17 C18 C19 C20"
cd /verif; mkdir -p .out/allquick
for P in $IDS; do
  s=$(date +%s)
  VERIF_SEED=$SEED ./check $P $TIER > .out/allquick/$P.$SEED.$TIER.log 2>&1; rc=$?
  e=$(date +%s)
  echo "$P seed=$SEED tier=$TIER rc=$rc wall=$((e-s))s $(grep -E 'VIOLATION|INCONCLUSIVE|KNOWN-FINDING' .out/allquick/$P.$SEED.$TIER.log | head -3 | tr '\n' ' ')"
done
