#!/usr/bin/env python3
"""tools/keep_mutant.py <seeded-id> <mutant-dir> <property> <demo-dest> <demo-run-regex> <needs> <caught-by-json> [note]"""
import sys, os, shutil, json
sid, md, prop, dest, run, needs, caught = sys.argv[1:8]
note = sys.argv[8] if len(sys.argv) > 8 else ""
d = f"/verif/seeded/{sid}"
os.makedirs(d, exist_ok=True)
shutil.copy(os.path.join(md, "patch.diff"), os.path.join(d, "patch.diff"))
shutil.copy(os.path.join(md, "demo_test.go"), os.path.join(d, "demo_test.go"))
if os.path.exists(os.path.join(md, "notes.md")):
    shutil.copy(os.path.join(md, "notes.md"), os.path.join(d, "author_notes.md"))
meta = {
 "id": sid, "property": prop,
 "needs_to_manifest": needs,
 "demonstration": {"file": "demo_test.go", "place_at": dest, "command": f"GOPROXY=off go test -vet=off -count=1 -run '{run}' ./{os.path.dirname(dest)}/"},
 "confirmed_by_me": {
   "how": "tools/try_mutant.sh in a scratch worktree of /repo HEAD: demo passes on the clean tree, fails with patch.diff applied; existing tests of the touched packages pass with the patch",
   "checks_run": json.loads(caught),
 },
 "note": note,
}
json.dump(meta, open(os.path.join(d, "meta.json"), "w"), indent=1)
print("kept", d)
