#!/bin/bash
# Runs the repository's pinned test suite with the `verif` guard OFF (no tags, no overlay)
# and compares the passing set with /root/.vp/BASELINE.json (stable_pass).
# usage: tools/baseline_off.sh [repo-dir]   exit 0 iff every stable_pass test passed.
REPO=${1:-/repo}
OUT=${VERIF_BASELINE_OUT:-/verif/.out/baseline}
mkdir -p "$OUT"
export GOPROXY=off
unset GOSUMDB
cd "$REPO" || exit 2
go test -json -vet=off -count=1 -timeout 25m ./... > "$OUT/gotest.json" 2> "$OUT/gotest.err"
python3 - "$OUT/gotest.json" <<'PY'
import json,sys
passed,failed=set(),set()
for line in open(sys.argv[1],errors='replace'):
    line=line.strip()
    if not line.startswith('{'): continue
    try: ev=json.loads(line)
    except Exception: continue
    a=ev.get('Action'); t=ev.get('Test'); pkg=ev.get('Package','')
    if t is None or a not in ('pass','fail'): continue
    (passed if a=='pass' else failed).add(pkg+'::'+t)
passed-=failed
base=set(json.load(open('/root/.vp/BASELINE.json'))['stable_pass'])
missing=sorted(base-passed)
print(f"baseline: {len(base)} stable tests; passed now: {len(passed & base)}; missing/failing: {len(missing)}; failed(any): {len(failed)}")
# timing-dependent integration tests can fail under load: retry each missing top-level test alone, up to twice
import subprocess, re
still=[]
tops={}
for m in missing:
    pkg,t=m.split('::',1)
    tops.setdefault((pkg,t.split('/')[0]),[]).append(m)
for (pkg,top),ms in sorted(tops.items()):
    ok=False
    for attempt in range(2):
        r=subprocess.run(['go','test','-vet=off','-count=1','-timeout','25m','-run','^'+re.escape(top)+'$',pkg],stdout=subprocess.PIPE,stderr=subprocess.STDOUT,text=True)
        print(f"  retry {attempt+1} of {pkg}::{top}: {'ok' if r.returncode==0 else 'FAIL'}")
        if r.returncode==0:
            ok=True; break
    if not ok: still+=ms
for m in still[:50]: print("  NOT PASSING:", m)
sys.exit(1 if still else 0)
PY
