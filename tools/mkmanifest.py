#!/usr/bin/env python3
"""Regenerates MANIFEST.json from tools/manifest_src.json (+ validates against the schema)."""
import json, sys, os
ROOT = os.path.dirname(os.path.dirname(os.path.abspath(__file__)))
src = json.load(open(os.path.join(ROOT, "tools", "manifest_src.json")))
props = [json.loads(l) for l in open(os.path.join(ROOT, "properties.jsonl"))]
ids = [p["id"] for p in props]
checks = []
for pid in ids:
    c = src["checks"].get(pid)
    if not c:
        continue
    checks.append({
        "property_id": pid,
        "quick_cmd": f"./check {pid} quick",
        "thorough_cmd": f"./check {pid} thorough",
        "evidence_file": f"/verif/evidence/{pid}.json",
        "replay_cmd_template": f"./check {pid} quick --replay {{path}}",
        "engine": c.get("engine", "harness"),
        "level_claimed": {"category": c["level"], "text": c["text"], "design_ref": c.get("design_ref", f"DESIGN.md §4 {pid}")},
        "level_note": c["note"],
        "technique": c["technique"],
    })
na = [{"property_id": pid, "reason": src["not_applicable"][pid]} for pid in ids if pid not in src["checks"]]
m = {
    "version": 1,
    "setup_cmd": src["setup_cmd"],
    "hooks": src["hooks"],
    "engines": src["engines"],
    "checks": checks,
    "notes": src["notes"],
    "not_applicable": na,
}
json.dump(m, open(os.path.join(ROOT, "MANIFEST.json"), "w"), indent=1)
try:
    import jsonschema
    jsonschema.validate(m, json.load(open("/root/.vp/MANIFEST.schema.json")))
    print("MANIFEST.json valid;", len(checks), "checks;", len(na), "not_applicable")
except ImportError:
    print("jsonschema not importable here; wrote MANIFEST.json unvalidated")
