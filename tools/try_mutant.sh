#!/bin/bash
# usage: tools/try_mutant.sh <mutant-dir> <demo-dest-relative-path> <go-test-run-regex> "<pkgs for existing tests>" <PROP> [tier] [more PROPs...]
# Confirms a seeded defect (demo passes clean / fails patched, existing tests pass patched) and runs our check(s) on it.
MD=$1; DEST=$2; RUN=$3; PKGS=$4; shift 4
TIER=quick
WT=/tmp/mt-$$
export GOPROXY=off
git -C /repo worktree add -q $WT HEAD || exit 2
cleanup() { git -C /repo worktree remove --force $WT; H=$(python3 -c "import hashlib;print(hashlib.sha1(b'$WT').hexdigest()[:10])"); rm -rf /verif/.alt/$H; }
trap cleanup EXIT
cd $WT
DEMOPKG=./$(dirname $DEST)
cp $MD/demo_test.go $DEST
echo "== demo on clean tree"; go test -vet=off -count=1 -run "$RUN" $DEMOPKG > /tmp/mt-$$.clean 2>&1; echo "SUMMARY demo-clean rc=$? (want 0)"; tail -3 /tmp/mt-$$.clean
if ! git apply $MD/patch.diff; then echo "PATCH DOES NOT APPLY"; exit 3; fi
echo "== demo on patched tree"; go test -vet=off -count=1 -run "$RUN" $DEMOPKG > /tmp/mt-$$.pat 2>&1; echo "SUMMARY demo-patched rc=$? (want non-0)"; grep -m3 -E "^\s+(---|.*_test.go:)|Error:|FAIL" /tmp/mt-$$.pat; rm -f /tmp/mt-$$.clean /tmp/mt-$$.pat
rm -f $DEST
echo "== existing tests on patched tree: $PKGS"; go test -p 6 -vet=off -count=1 $PKGS > /tmp/mt-$$.ex 2>&1; echo "SUMMARY existing-tests-patched rc=$? (want 0)"; grep -v "no test files" /tmp/mt-$$.ex | tail -8; rm -f /tmp/mt-$$.ex
cd /verif
for P in "$@"; do
  if [ "$P" = thorough ] || [ "$P" = quick ]; then TIER=$P; continue; fi
  echo "== our check $P $TIER on patched tree"
  VERIF_REPO=$WT ./check $P $TIER 2>&1 | grep -E "VIOLATION-SIGNATURE|RESULT|INCONCL|KNOWN" | head -12
done
