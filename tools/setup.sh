#!/bin/bash
# setup_cmd: offline; warms the Go build cache for the harness (non-race and race) against /repo.
cd /verif/harness || exit 1
export GOPROXY=off GOFLAGS=-mod=mod
unset GOSUMDB
python3 - <<'PY'
import json,os,sys
sys.path.insert(0,'/verif')
import importlib.machinery, importlib.util
l=importlib.machinery.SourceFileLoader('check','/verif/check'); spec=importlib.util.spec_from_loader('check',l); m=importlib.util.module_from_spec(spec); l.exec_module(m)
m.ensure_gosum(); print(m.make_overlay())
PY
go build ./... 2>&1 | tail -5
pkgs=$(go list ./... | grep -E '/c[0-9]+$')
go test -tags verif -overlay /verif/.overlay.json -vet=off -count=1 -run '^$' $pkgs 2>&1 | tail -30
racepkgs=$(python3 -c "
import json
c=json.load(open('/verif/checks.json'))
s=set()
for p in c['properties'].values():
    for part in p['parts']:
        if part.get('race'): s.add(part['pkg'])
print(' '.join(sorted(s)))")
if [ -n "$racepkgs" ]; then go test -race -tags verif -overlay /verif/.overlay.json -vet=off -count=1 -run '^$' $racepkgs 2>&1 | tail -30; fi
exit 0
