//go:build verif

package gpbft

// Accessors for the /verif harness. Expose only; no behaviour.

func VerifHasWeakQuorum(part, whole int64) bool { return hasWeakQuorum(part, whole) }

// VerifQuorumState wraps the unexported tally so the harness can feed votes of
// known weight and read the verdicts the instance logic relies on.
type VerifQuorumState struct{ q *quorumState }

func VerifNewQuorumState(pt *PowerTable) *VerifQuorumState {
	return &VerifQuorumState{q: newQuorumState(pt)}
}

func (v *VerifQuorumState) Receive(sender ActorID, value *ECChain, sig []byte) {
	v.q.Receive(sender, value, sig)
}
func (v *VerifQuorumState) ReceiveEachPrefix(sender ActorID, value *ECChain) {
	v.q.ReceiveEachPrefix(sender, value)
}
func (v *VerifQuorumState) HasStrongQuorumFor(key ECChainKey) bool { return v.q.HasStrongQuorumFor(key) }
func (v *VerifQuorumState) CouldReachStrongQuorumFor(key ECChainKey, withAdversary bool) bool {
	return v.q.CouldReachStrongQuorumFor(key, withAdversary)
}
func (v *VerifQuorumState) ReceivedFromWeakQuorum() bool   { return v.q.ReceivedFromWeakQuorum() }
func (v *VerifQuorumState) ReceivedFromStrongQuorum() bool { return v.q.ReceivedFromStrongQuorum() }
func (v *VerifQuorumState) FindStrongQuorumFor(key ECChainKey) ([]int, [][]byte, bool) {
	r, ok := v.q.FindStrongQuorumFor(key)
	return r.Signers, r.Signatures, ok
}
func (v *VerifQuorumState) FindStrongQuorumValue() (*ECChain, bool) {
	return v.q.FindStrongQuorumValue()
}
