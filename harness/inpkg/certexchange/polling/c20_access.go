//go:build verif

package polling

// Accessors for the /verif C20 check (polling cadence). Expose only; no behaviour.
//
// What is exposed and why:
//   - VerifC20Init / VerifC20PeerSeen: put a Subscriber into the state Start leaves it in
//     (clock, peer tracker, poller) WITHOUT launching the run loop or peer discovery, so that
//     single polling rounds can be executed deterministically from one goroutine. The three
//     assignments are the same constructor calls Start makes; no logic is reproduced.
//   - VerifC20CatchUp / VerifC20Poll: the two calls `run` makes per timer tick, returning the
//     progress values they compute.
//   - VerifC20NextInstance / VerifC20Round: read-only views of poller.NextInstance and of the
//     peer tracker's round counter (incremented once per `poll`), used to attribute requests
//     observed at the servers to polling rounds. Only read while the subscriber goroutine is
//     blocked inside a request (happens-before through the stream).
//   - VerifC20Predictor: a handle on the real (unexported) predictor so the harness can ask the
//     real code which interval it predicts for a given progress sequence.

import (
	"context"
	"time"

	"github.com/filecoin-project/go-f3/internal/clock"
	"github.com/libp2p/go-libp2p/core/peer"
)

func VerifC20Init(ctx context.Context, s *Subscriber) error {
	s.clock = clock.GetClock(ctx)
	s.peerTracker = newPeerTracker(s.clock)
	var err error
	s.poller, err = NewPoller(ctx, &s.Client, s.Store, s.SignatureVerifier)
	return err
}

func VerifC20PeerSeen(s *Subscriber, p peer.ID) { s.peerTracker.peerSeen(p) }

func VerifC20CatchUp(ctx context.Context, s *Subscriber) (uint64, error) {
	return s.poller.CatchUp(ctx)
}

func VerifC20Poll(ctx context.Context, s *Subscriber) (progress uint64, newCert bool, err error) {
	return s.poll(ctx)
}

func VerifC20NextInstance(s *Subscriber) uint64 { return s.poller.NextInstance }

func VerifC20Round(s *Subscriber) int { return s.peerTracker.currentRound }

type VerifC20Predictor struct{ p *predictor }

func VerifC20NewPredictor(minInterval, initialInterval, maxInterval time.Duration) *VerifC20Predictor {
	return &VerifC20Predictor{p: newPredictor(minInterval, initialInterval, maxInterval)}
}

func (v *VerifC20Predictor) Update(progress uint64) time.Duration { return v.p.update(progress) }
func (v *VerifC20Predictor) Interval() time.Duration              { return v.p.interval }
