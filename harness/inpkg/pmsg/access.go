//go:build verif

package pmsg

import "github.com/filecoin-project/go-f3/gpbft"

// VerifInferJustificationVoteValue exposes the production completion step that
// re-attaches the chain to a partial message's justification.
func VerifInferJustificationVoteValue(pgmsg *gpbft.PartialGMessage) { inferJustificationVoteValue(pgmsg) }
