//go:build verif

package pmsg

import (
	"github.com/filecoin-project/go-f3/chainexchange"
	"github.com/filecoin-project/go-f3/gpbft"
)

// Accessors for the /verif harness (property C13, part "manager"). Expose only; no behaviour.

// VerifQueues is a snapshot of the occupancy and capacity of the manager's input queues.
type VerifQueues struct {
	PartialLen, PartialCap       int
	DiscoveredLen, DiscoveredCap int
	RemovalLen, RemovalCap       int
	BroadcastLen, BroadcastCap   int
}

// VerifQueues reads len/cap of the four input channels (safe for concurrent use).
func (pmm *PartialMessageManager) VerifQueues() VerifQueues {
	return VerifQueues{
		PartialLen: len(pmm.pendingPartialMessages), PartialCap: cap(pmm.pendingPartialMessages),
		DiscoveredLen: len(pmm.pendingDiscoveredChains), DiscoveredCap: cap(pmm.pendingDiscoveredChains),
		RemovalLen: len(pmm.pendingInstanceRemoval), RemovalCap: cap(pmm.pendingInstanceRemoval),
		BroadcastLen: len(pmm.pendingChainBroadcasts), BroadcastCap: cap(pmm.pendingChainBroadcasts),
	}
}

// VerifPeekBuffered looks at the per-instance buffer without touching recency
// (lru.Cache.Peek, which takes the cache's own lock). It must only be called
// while the event loop is idle: the outer map is owned by the loop goroutine.
// length is -1 when the instance has no buffer.
func (pmm *PartialMessageManager) VerifPeekBuffered(instance uint64, sender gpbft.ActorID, round uint64, phase gpbft.Phase) (msg gpbft.PartiallyValidatedMessage, found bool, length int) {
	buffer, ok := pmm.pmByInstance[instance]
	if !ok {
		return nil, false, -1
	}
	key := partialMessageKey{sender: sender, instant: gpbft.Instant{ID: instance, Round: round, Phase: phase}}
	msg, found = buffer.Peek(key)
	return msg, found, buffer.Len()
}

// VerifChainex returns the chain exchange the manager owns.
func (pmm *PartialMessageManager) VerifChainex() *chainexchange.PubSubChainExchange {
	return pmm.chainex
}
