//go:build verif

package certstore

// Accessors injected by the /verif harness (overlay, build tag "verif") for the
// C09 check. They only expose the unexported power-table checkpoint frequency
// of an open store (the same field certstore's own tests lower to 5); no
// behaviour of the package is changed.

// VerifC09SetPowerTableFrequency sets how often (every f instances) Put writes
// a power-table checkpoint and GetPowerTable looks for one.
func VerifC09SetPowerTableFrequency(cs *Store, f uint64) { cs.powerTableFrequency = f }

// VerifC09PowerTableFrequency returns the current checkpoint frequency.
func VerifC09PowerTableFrequency(cs *Store) uint64 { return cs.powerTableFrequency }
