//go:build verif

package certstore

import (
	"context"

	"github.com/filecoin-project/go-f3/manifest"
	"github.com/ipfs/go-datastore"
)

// Accessor injected by the /verif harness (overlay, build tag "verif") for the
// C17 check. It only exposes the package's own unexported testing entry point
// of the snapshot importer (the one Test_SnapshotExportImportRoundTrip uses to
// lower the power-table checkpoint frequency of the store being imported); no
// behaviour of the package is changed. ImportSnapshotToDatastore is this very
// function with frequency 0 (= keep the built-in 1440).

// VerifC17ImportWithFrequency imports a snapshot into ds writing (and checking)
// power-table checkpoints every f instances instead of every 1440.
func VerifC17ImportWithFrequency(ctx context.Context, snapshot SnapshotReader, ds datastore.Batching, m *manifest.Manifest, f uint64) error {
	return importSnapshotToDatastoreWithTestingPowerTableFrequency(ctx, snapshot, ds, m, f)
}
