//go:build verif

package chainexchange

import (
	"context"
	"time"

	"github.com/filecoin-project/go-f3/gpbft"
	pubsub "github.com/libp2p/go-libp2p-pubsub"
	"github.com/libp2p/go-libp2p/core/peer"
)

// Accessors for the /verif harness (property C18). Expose only; no behaviour.

// VerifValidate calls the topic validator exactly as pubsub would.
func (p *PubSubChainExchange) VerifValidate(ctx context.Context, from peer.ID, msg *pubsub.Message) pubsub.ValidationResult {
	return p.validatePubSubMessage(ctx, from, msg)
}

// VerifFeedValidated hands an already validated pubsub message (ValidatorData
// set by the validator) to the function the subscription goroutine calls for
// every message it reads, synchronously on the caller's goroutine.
func (p *PubSubChainExchange) VerifFeedValidated(ctx context.Context, msg *pubsub.Message) bool {
	cmsg, ok := msg.ValidatorData.(Message)
	if !ok {
		return false
	}
	p.cacheAsDiscoveredChain(ctx, cmsg)
	return true
}

// VerifPeek is a read-only look at the two caches of an instance (no recency
// update, no cache creation).
func (p *PubSubChainExchange) VerifPeek(instance uint64, key gpbft.ECChainKey) (inWanted, placeholder, inDiscovered bool) {
	p.mu.Lock()
	w := p.chainsWanted[instance]
	d := p.chainsDiscovered[instance]
	p.mu.Unlock()
	if w != nil {
		if portion, ok := w.Peek(key); ok {
			inWanted = true
			placeholder = portion.IsPlaceholder()
		}
	}
	if d != nil {
		inDiscovered = d.Contains(key)
	}
	return
}

// VerifCacheLens returns the current number of entries in the two caches of an
// instance (-1 when the cache does not exist).
func (p *PubSubChainExchange) VerifCacheLens(instance uint64) (wanted, discovered int) {
	p.mu.Lock()
	w := p.chainsWanted[instance]
	d := p.chainsDiscovered[instance]
	p.mu.Unlock()
	wanted, discovered = -1, -1
	if w != nil {
		wanted = w.Len()
	}
	if d != nil {
		discovered = d.Len()
	}
	return
}

// VerifEncode encodes a message with the exchange's configured wire encoding.
func (p *PubSubChainExchange) VerifEncode(m *Message) ([]byte, error) { return p.encoding.Encode(m) }

// VerifTopicPublish publishes raw bytes on the exchange's own topic handle (the
// local-publication path of pubsub: topic validator, then every subscription).
func (p *PubSubChainExchange) VerifTopicPublish(ctx context.Context, data []byte) error {
	p.mu.Lock()
	t := p.topic
	p.mu.Unlock()
	return t.Publish(ctx, data)
}

// VerifConfig returns the effective limits.
func (p *PubSubChainExchange) VerifConfig() (maxWanted, maxDiscovered int, lookahead uint64, maxAge time.Duration) {
	return p.maxWantedChainsPerInstance, p.maxDiscoveredChainsPerInstance, p.maxInstanceLookahead, p.maxTimestampAge
}
