//go:build verif

package f3

// Accessor injected by the /verif harness (overlay, build tag "verif"); used by
// the C15 check and reusable by C19. It only EXPOSES the unexported production
// component `gpbftInputs` (consensus_inputs.go) -- the object gpbftHost delegates
// GetProposal / GetCommittee to (host.go: `inputs: newInputs(m, cs, ec, verifier,
// clock.GetClock(ctx))`). No behaviour of the package is changed; with the tag
// off this file is not compiled.

import (
	"github.com/filecoin-project/go-f3/certstore"
	"github.com/filecoin-project/go-f3/ec"
	"github.com/filecoin-project/go-f3/gpbft"
	"github.com/filecoin-project/go-f3/internal/clock"
	"github.com/filecoin-project/go-f3/manifest"
)

// VerifInputs is what the production consensus-inputs component offers to GPBFT.
type VerifInputs interface {
	gpbft.ProposalProvider  // GetProposal(ctx, instance) (*SupplementalData, *ECChain, error)
	gpbft.CommitteeProvider // GetCommittee(ctx, instance) (*Committee, error)
}

// VerifNewInputs builds the production gpbftInputs exactly the way newRunner
// does, over the given manifest, certificate store, EC backend, signature
// verifier and clock. Every call returns a fresh object (cold power-table-CID
// cache). The returned value is NOT safe for concurrent use beyond what
// gpbftInputs itself guarantees.
func VerifNewInputs(m manifest.Manifest, cs *certstore.Store, backend ec.Backend,
	verifier gpbft.Verifier, clk clock.Clock) VerifInputs {
	in := newInputs(m, cs, backend, verifier, clk)
	return &in
}
