//go:build verif

package f3

// Accessor for the C11 check (/verif/harness/c11/prod): exposes the node's
// production WAL instantiation writeaheadlog.WriteAheadLog[walEntry] exactly as
// f3.go opens it. Expose-only, no behaviour.

import (
	"github.com/filecoin-project/go-f3/gpbft"
	"github.com/filecoin-project/go-f3/internal/writeaheadlog"
)

type VerifC11WAL struct {
	w *writeaheadlog.WriteAheadLog[walEntry, *walEntry]
}

func VerifC11OpenWAL(dir string) (*VerifC11WAL, error) {
	w, err := writeaheadlog.Open[walEntry](dir)
	if err != nil {
		return nil, err
	}
	return &VerifC11WAL{w: w}, nil
}

func (v *VerifC11WAL) Append(m *gpbft.GMessage) error { return v.w.Append(walEntry{Message: m}) }

func (v *VerifC11WAL) All() ([]*gpbft.GMessage, []uint64, error) {
	all, err := v.w.All()
	if err != nil {
		return nil, nil, err
	}
	msgs := make([]*gpbft.GMessage, len(all))
	epochs := make([]uint64, len(all))
	for i := range all {
		msgs[i] = all[i].Message
		epochs[i] = all[i].WALEpoch()
	}
	return msgs, epochs, nil
}

func (v *VerifC11WAL) Purge(keepEpoch uint64) error { return v.w.Purge(keepEpoch) }
func (v *VerifC11WAL) Rotate() error                { return v.w.Rotate() }
func (v *VerifC11WAL) Close() error                 { return v.w.Close() }
