//go:build verif

package f3

// Accessor for the C12 check (/verif/harness/c12): exposes the unexported
// self-equivocation filter exactly as host.go constructs and drives it, and
// the production WAL reader (writeaheadlog.Open[walEntry] + All) exactly as
// f3.go / host.go open and replay it. Expose-only, no behaviour.

import (
	"github.com/filecoin-project/go-f3/gpbft"
	"github.com/filecoin-project/go-f3/internal/writeaheadlog"
	"github.com/libp2p/go-libp2p/core/peer"
)

// VerifC12Filter wraps one production equivocationFilter value.
type VerifC12Filter struct {
	f equivocationFilter
}

// VerifC12NewFilter is newEquivocationFilter (host.go: newRunner).
func VerifC12NewFilter(local peer.ID) *VerifC12Filter {
	return &VerifC12Filter{f: newEquivocationFilter(local)}
}

// ProcessBroadcast is the gate of BroadcastMessage / rebroadcastMessage and
// of the WAL replay loop of newRunner.
func (v *VerifC12Filter) ProcessBroadcast(m *gpbft.GMessage) bool {
	return v.f.ProcessBroadcast(m)
}

// ProcessReceive is the (currently unused in this tree) receive-side hook.
func (v *VerifC12Filter) ProcessReceive(from peer.ID, m *gpbft.GMessage) {
	v.f.ProcessReceive(from, m)
}

// CurrentInstance exposes the filter's notion of the newest instance.
func (v *VerifC12Filter) CurrentInstance() uint64 {
	v.f.lk.Lock()
	defer v.f.lk.Unlock()
	return v.f.currentInstance
}

// VerifC12ReadWAL opens dir with the node's production WAL instantiation and
// returns every entry in replay order (what newRunner feeds to the filter).
// It never appends, so it does not create files in dir.
func VerifC12ReadWAL(dir string) ([]*gpbft.GMessage, error) {
	w, err := writeaheadlog.Open[walEntry](dir)
	if err != nil {
		return nil, err
	}
	all, err := w.All()
	if err != nil {
		return nil, err
	}
	msgs := make([]*gpbft.GMessage, len(all))
	for i := range all {
		msgs[i] = all[i].Message
	}
	return msgs, w.Close()
}
