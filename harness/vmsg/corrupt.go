package vmsg

import (
	"fmt"
	"math"

	"github.com/filecoin-project/go-f3/gpbft"
	"github.com/filecoin-project/go-f3/verifh/vfix"
	"github.com/filecoin-project/go-f3/verifh/vsig"
	"github.com/ipfs/go-cid"
)

// Clone makes a deep-enough copy of a message (payload, justification and chains are copied).
func Clone(m *gpbft.GMessage) *gpbft.GMessage {
	c := *m
	c.Signature = append([]byte{}, m.Signature...)
	c.Ticket = append([]byte{}, m.Ticket...)
	if len(m.Ticket) == 0 {
		c.Ticket = nil
	}
	c.Vote.Value = cloneChain(m.Vote.Value)
	if m.Justification != nil {
		j := *m.Justification
		j.Signature = append([]byte{}, j.Signature...)
		j.Vote.Value = cloneChain(m.Justification.Vote.Value)
		c.Justification = &j
	}
	return &c
}

func cloneChain(c *gpbft.ECChain) *gpbft.ECChain {
	if c == nil {
		return nil
	}
	out := &gpbft.ECChain{}
	for _, ts := range c.TipSets {
		t := *ts
		t.Key = append([]byte{}, ts.Key...)
		out.TipSets = append(out.TipSets, &t)
	}
	return out
}

const NumOps = 36

// Corrupt applies corruption/recombination operator op to a copy of m. It returns nil when the
// operator does not apply. The reference computes the verdict from the result; the label is only a description.
func (e *Env) Corrupt(m *gpbft.GMessage, op int) (*gpbft.GMessage, string) {
	c := Clone(m)
	inst := c.Vote.Instance
	com := e.Coms[inst]
	if com == nil {
		return nil, ""
	}
	sIdx, known := com.PT.Lookup[c.Sender]
	if !known {
		return nil, ""
	}
	resign := func() { c.Signature = e.Sign(com, sIdx, c.Vote) }
	reticket := func() {
		if c.Vote.Phase == gpbft.CONVERGE_PHASE {
			c.Ticket = e.Ticket(com, sIdx, c.Vote.Instance, c.Vote.Round)
		}
	}
	other := func() int {
		o := e.SenderIdx(com)
		for o == sIdx {
			o = e.SenderIdx(com)
		}
		return o
	}
	dust := len(com.PT.Entries) - 1 // smallest power sorts last
	vals := e.Values[inst]
	otherValue := func() *gpbft.ECChain {
		for tries := 0; tries < 20; tries++ {
			v := vals[e.Rng.Intn(len(vals))]
			if !chainsEqual(v, c.Vote.Value) {
				return cloneChain(v)
			}
		}
		return nil
	}
	switch op {
	case 0:
		c.Sender = e.NonMember
		return c, "sender absent from committee"
	case 1:
		c.Sender = com.PT.Entries[dust].ID
		sIdx = dust
		resign()
		reticket()
		return c, "sender with zero scaled power (re-signed by it)"
	case 2:
		c.Sender = com.PT.Entries[other()].ID
		return c, "sender swapped without re-signing"
	case 3:
		sIdx = other()
		c.Sender = com.PT.Entries[sIdx].ID
		resign()
		reticket()
		return c, "sender swapped with re-signing (valid twin)"
	case 4:
		if c.Vote.Value.IsZero() {
			return nil, ""
		}
		c.Vote.Value.TipSets[len(c.Vote.Value.TipSets)-1].Key = nil
		resign()
		return c, "value with an empty tipset key"
	case 5:
		if c.Vote.Value.Len() < 2 {
			return nil, ""
		}
		c.Vote.Value.TipSets[1].Epoch = c.Vote.Value.TipSets[0].Epoch
		resign()
		return c, "value with non-increasing epochs"
	case 6:
		if c.Vote.Value.IsZero() {
			return nil, ""
		}
		for c.Vote.Value.Len() <= 128 {
			h := c.Vote.Value.Head()
			c.Vote.Value.TipSets = append(c.Vote.Value.TipSets, vfix.Tip(h.Epoch+1, "long", h.PowerTable))
		}
		resign()
		return c, "value longer than the maximum"
	case 7:
		if c.Vote.Value.IsZero() {
			return nil, ""
		}
		c.Vote.Value.Head().PowerTable = cid.Undef
		resign()
		return c, "value with undefined power-table CID"
	case 8:
		c.Vote.Round++
		return c, "round+1 without re-signing"
	case 9:
		c.Vote.Round++
		resign()
		reticket()
		return c, "round+1 re-signed (justification left in place)"
	case 10:
		c.Vote.Phase = []gpbft.Phase{gpbft.QUALITY_PHASE, gpbft.CONVERGE_PHASE, gpbft.PREPARE_PHASE, gpbft.COMMIT_PHASE, gpbft.DECIDE_PHASE, gpbft.INITIAL_PHASE, gpbft.TERMINATED_PHASE, 9}[e.Rng.Intn(8)]
		resign()
		reticket()
		return c, "phase changed and re-signed"
	case 11:
		c.Vote.Instance++
		return c, "instance+1 without re-signing"
	case 12:
		c.Vote.Instance++
		if nc := e.Coms[c.Vote.Instance]; nc != nil {
			if i2, ok := nc.PT.Lookup[c.Sender]; ok {
				c.Signature = e.Sign(nc, i2, c.Vote)
				if c.Vote.Phase == gpbft.CONVERGE_PHASE {
					c.Ticket = e.Ticket(nc, i2, c.Vote.Instance, c.Vote.Round)
				}
			}
		}
		return c, "instance+1 re-signed with that instance's key (justification left in place)"
	case 13:
		c.Vote.SupplementalData.Commitments[3] ^= 0x40
		return c, "supplemental data changed without re-signing"
	case 14:
		c.Vote.SupplementalData.Commitments[5] ^= 0x01
		resign()
		return c, "supplemental data changed and re-signed (justification left in place)"
	case 15:
		if c.Vote.Phase != gpbft.CONVERGE_PHASE {
			return nil, ""
		}
		c.Ticket = nil
		return c, "ticket missing"
	case 16:
		if c.Vote.Phase != gpbft.CONVERGE_PHASE {
			return nil, ""
		}
		c.Ticket = e.Ticket(com, sIdx, c.Vote.Instance, c.Vote.Round+1)
		return c, "ticket of another round"
	case 17:
		if c.Vote.Phase != gpbft.CONVERGE_PHASE {
			return nil, ""
		}
		c.Ticket = e.Ticket(com, other(), c.Vote.Instance, c.Vote.Round)
		return c, "ticket of another signer"
	case 18:
		c.Signature[e.Rng.Intn(len(c.Signature))] ^= 0x10
		return c, "signature bit flip"
	case 19:
		ov := otherValue()
		if ov == nil {
			return nil, ""
		}
		p := c.Vote
		p.Value = ov
		c.Signature = e.Sign(com, sIdx, p)
		return c, "signature over another value"
	case 20:
		if c.Justification == nil {
			return nil, ""
		}
		c.Justification = nil
		return c, "justification removed"
	case 21:
		if c.Justification != nil {
			return nil, ""
		}
		sd := e.Supp[inst]
		c.Justification = e.Justify(com, gpbft.Payload{Instance: inst, Round: c.Vote.Round, Phase: gpbft.PREPARE_PHASE, SupplementalData: sd, Value: c.Vote.Value}, e.Quorum(com))
		return c, "justification added where none is allowed"
	case 22:
		if c.Justification == nil {
			return nil, ""
		}
		p := c.Justification.Vote
		p.Round += 1 + uint64(e.Rng.Intn(3))
		c.Justification = e.Justify(com, p, e.Quorum(com))
		return c, "justification of another round (valid aggregate)"
	case 23:
		if c.Justification == nil {
			return nil, ""
		}
		p := c.Justification.Vote
		p.Phase = []gpbft.Phase{gpbft.QUALITY_PHASE, gpbft.CONVERGE_PHASE, gpbft.PREPARE_PHASE, gpbft.COMMIT_PHASE, gpbft.DECIDE_PHASE}[e.Rng.Intn(5)]
		c.Justification = e.Justify(com, p, e.Quorum(com))
		return c, "justification of another phase (valid aggregate)"
	case 24:
		if c.Justification == nil {
			return nil, ""
		}
		p := c.Justification.Vote
		ov := otherValue()
		if ov == nil || e.Rng.Intn(4) == 0 {
			ov = &gpbft.ECChain{}
		}
		p.Value = ov
		c.Justification = e.Justify(com, p, e.Quorum(com))
		return c, "justification for a different value (valid aggregate)"
	case 25:
		if c.Justification == nil {
			return nil, ""
		}
		p := c.Justification.Vote
		p.SupplementalData.Commitments[0] ^= 1
		c.Justification = e.Justify(com, p, e.Quorum(com))
		return c, "justification with other supplemental data (valid aggregate)"
	case 26:
		if c.Justification == nil {
			return nil, ""
		}
		q := e.Quorum(com)
		if len(q) < 2 {
			return nil, ""
		}
		// drop the weakest member of a minimal quorum: one step below two thirds
		sc, _ := com.Scaled()
		w := 0
		for i := range q {
			if sc[q[i]] < sc[q[w]] {
				w = i
			}
		}
		q = append(append([]int{}, q[:w]...), q[w+1:]...)
		c.Justification = e.Justify(com, c.Justification.Vote, q)
		return c, "justification signer set below strong quorum (valid aggregate of the subset)"
	case 27:
		if c.Justification == nil {
			return nil, ""
		}
		q := append(e.Quorum(com), dust)
		c.Justification = e.Justify(com, c.Justification.Vote, q)
		return c, "justification including a zero-power signer"
	case 28:
		if c.Justification == nil {
			return nil, ""
		}
		q := e.Quorum(com)
		j := e.Justify(com, c.Justification.Vote, q)
		j.Signers = vfix.Bitfield(append(q, len(com.PT.Entries)+1+e.Rng.Intn(5)))
		c.Justification = j
		return c, "justification with an out-of-range signer index"
	case 29:
		if c.Justification == nil {
			return nil, ""
		}
		p := c.Justification.Vote
		p.Round += 7
		oj := e.Justify(com, p, e.Quorum(com))
		c.Justification.Signature = oj.Signature
		return c, "justification carrying the aggregate of another payload"
	case 30:
		if c.Justification == nil {
			return nil, ""
		}
		q1 := e.Quorum(com)
		q2 := e.Quorum(com)
		j := e.Justify(com, c.Justification.Vote, q1)
		j.Signers = vfix.Bitfield(q2)
		c.Justification = j
		if signersKey(q1) == signersKey(q2) {
			return c, "justification re-aggregated by another quorum (valid twin)"
		}
		return c, "justification aggregate of one quorum listed with another signer set"
	case 31:
		c.Vote.Value = &gpbft.ECChain{}
		resign()
		return c, "value replaced by bottom and re-signed"
	case 32:
		c.Vote.Round = math.MaxUint64
		resign()
		reticket()
		return c, "round 2^64-1 re-signed (justification left in place)"
	case 33:
		c.Vote.Round = 0
		resign()
		reticket()
		return c, "round 0 re-signed (justification left in place)"
	case 34:
		// valid aggregate of a different quorum for the same payload: a valid twin
		if c.Justification == nil {
			return nil, ""
		}
		c.Justification = e.Justify(com, c.Justification.Vote, e.Quorum(com))
		return c, "justification re-aggregated by another strong quorum (valid twin)"
	case 35:
		// signature by the right key over the right payload but of another network
		c.Signature = vsig.RawSign(com.PT.Entries[sIdx].PubKey, c.Vote.MarshalForSigning("other-net"))
		return c, "signature for another network name"
	}
	return nil, fmt.Sprint("unknown op ", op)
}

// BaseCorpus produces valid base messages around the given progress instant.
func (e *Env) BaseCorpus(cur gpbft.Instant, n int) []*gpbft.GMessage {
	var insts []uint64
	for k := range e.Coms {
		insts = append(insts, k)
	}
	rounds := []uint64{0, 0, 1, 1, 2, 3, 5, cur.Round, cur.Round + 1, 1 << 32, math.MaxUint64 - 1, math.MaxUint64}
	if cur.Round > 0 {
		rounds = append(rounds, cur.Round-1)
	}
	phases := []gpbft.Phase{gpbft.QUALITY_PHASE, gpbft.CONVERGE_PHASE, gpbft.PREPARE_PHASE, gpbft.COMMIT_PHASE, gpbft.DECIDE_PHASE}
	var out []*gpbft.GMessage
	for len(out) < n {
		inst := insts[e.Rng.Intn(len(insts))]
		if e.Rng.Intn(3) == 0 {
			inst = cur.ID
		}
		if e.Coms[inst] == nil {
			continue
		}
		ph := phases[e.Rng.Intn(len(phases))]
		r := rounds[e.Rng.Intn(len(rounds))]
		vals := e.Values[inst]
		v := vals[e.Rng.Intn(len(vals))]
		switch ph {
		case gpbft.QUALITY_PHASE, gpbft.DECIDE_PHASE:
			r = 0
		case gpbft.CONVERGE_PHASE:
			if r == 0 {
				r = 1
			}
		case gpbft.COMMIT_PHASE:
			if e.Rng.Intn(3) == 0 {
				v = nil
			}
		}
		jr := []uint64{0, 1, 2, 7, math.MaxUint64}[e.Rng.Intn(5)]
		out = append(out, e.ValidMessage(inst, r, ph, v, e.SenderIdx(e.Coms[inst]), e.Rng.Intn(2), jr))
	}
	return out
}
