// Package vmsg is the message factory and the independent reference validator
// (E2(a) of DESIGN.md) used by C05 and C13.
//
// The reference never re-derives signing bytes: every signature, ticket and
// aggregate the factory creates is registered with the *semantic* content it
// was created over (provenance). A signature is valid for a message iff some
// provenance entry equals the message's fields. This makes the oracle
// independent of the marshalling code under test.
package vmsg

import (
	"bytes"
	"context"
	"fmt"
	"math/big"
	"math/rand"
	"sort"
	"time"

	"github.com/filecoin-project/go-f3/gpbft"
	"github.com/filecoin-project/go-f3/verifh/vfix"
	"github.com/filecoin-project/go-f3/verifh/vsig"
	"github.com/ipfs/go-cid"
)

type Verdict int

const (
	Valid Verdict = iota
	Invalid
	Unspecified // the property/protocol text does not settle it: not judged
)

func (v Verdict) String() string { return [...]string{"valid", "invalid", "unspecified"}[v] }

type payloadProv struct {
	key   string // pubkey
	p     gpbft.Payload
	chain []gpbft.TipSet
}

type aggProv struct {
	inst    uint64
	p       gpbft.Payload
	chain   []gpbft.TipSet
	signers string // sorted indices joined
}

type ticketProv struct {
	key         string
	beacon      string
	inst, round uint64
}

// Env is the universe of one case: committees per instance, values, provenance.
type Env struct {
	Rng      *rand.Rand
	Coms     map[uint64]*vfix.Committee
	Supp     map[uint64]gpbft.SupplementalData
	Values   map[uint64][]*gpbft.ECChain // per instance: base chain, prefixes, full input, alt fork, ...
	Input    map[uint64]*gpbft.ECChain
	Lookback uint64
	Self     gpbft.ActorID // the participant under test (small member)
	NonMember gpbft.ActorID

	sigs    map[string][]payloadProv
	aggs    map[string][]aggProv
	tickets map[string][]ticketProv
	PTCid   cid.Cid
}

func snapshot(c *gpbft.ECChain) []gpbft.TipSet {
	if c.IsZero() {
		return nil
	}
	out := make([]gpbft.TipSet, len(c.TipSets))
	for i, ts := range c.TipSets {
		out[i] = *ts
		out[i].Key = append([]byte{}, ts.Key...)
	}
	return out
}

func sameChain(a []gpbft.TipSet, c *gpbft.ECChain) bool {
	if c.IsZero() {
		return len(a) == 0
	}
	if len(a) != len(c.TipSets) {
		return false
	}
	for i := range a {
		b := c.TipSets[i]
		if b == nil || a[i].Epoch != b.Epoch || !bytes.Equal(a[i].Key, b.Key) || a[i].PowerTable != b.PowerTable || a[i].Commitments != b.Commitments {
			return false
		}
	}
	return true
}

func samePayload(a gpbft.Payload, ac []gpbft.TipSet, b *gpbft.Payload) bool {
	return a.Instance == b.Instance && a.Round == b.Round && a.Phase == b.Phase &&
		a.SupplementalData.Commitments == b.SupplementalData.Commitments && a.SupplementalData.PowerTable == b.SupplementalData.PowerTable &&
		sameChain(ac, b.Value)
}

// NewEnv builds committees for instances [first, first+n) and values per instance.
func NewEnv(rng *rand.Rand, first uint64, n int, lookback uint64) *Env {
	e := &Env{Rng: rng, Coms: map[uint64]*vfix.Committee{}, Supp: map[uint64]gpbft.SupplementalData{}, Values: map[uint64][]*gpbft.ECChain{},
		Input: map[uint64]*gpbft.ECChain{}, Lookback: lookback, sigs: map[string][]payloadProv{}, aggs: map[string][]aggProv{}, tickets: map[string][]ticketProv{}}
	// committee: 5-7 members; member 0 = self (small), one dust member (zero scaled power)
	m := 5 + rng.Intn(3)
	ids := make([]gpbft.ActorID, m)
	pw := make([]*big.Int, m)
	for i := range ids {
		ids[i] = gpbft.ActorID(200 + i*3)
		pw[i] = big.NewInt(int64(100 + rng.Intn(100)))
	}
	pw[0] = big.NewInt(int64(5 + rng.Intn(20)))
	// dust: 65535*p/total must floor to 0  => p*65535 < total
	pw[m-1] = big.NewInt(0)
	e.Self = ids[0]
	e.NonMember = 9999
	shape := rng.Intn(3)
	if shape == 1 { // a whale just under two thirds
		var rest int64
		for i := 2; i < m-1; i++ {
			rest += pw[i].Int64()
		}
		pw[1] = big.NewInt(2*(rest+pw[0].Int64()) - 3)
	}
	for i := range pw {
		pw[i] = new(big.Int).Lsh(pw[i], 24)
	}
	pw[m-1] = big.NewInt(1 + int64(rng.Intn(3)))
	// static: every instance has the same committee keys (hence the same power-table CID and
	// supplemental data), as on a network whose power table does not change: signatures and
	// aggregates of one instance then differ from those of another only through the instance number
	static := rng.Intn(3) == 0
	for k := 0; k < n; k++ {
		inst := first + uint64(k)
		universe := uint32(7000 + k)
		if static {
			universe = 7000
		}
		com, err := vfix.NewCommittee(universe, ids, pw, []byte(fmt.Sprintf("beacon-%d", inst)))
		if err != nil {
			panic(err)
		}
		e.Coms[inst] = com
	}
	e.PTCid = e.Coms[first].CID
	for k := 0; k < n; k++ {
		inst := first + uint64(k)
		e.Supp[inst] = gpbft.SupplementalData{PowerTable: e.Coms[inst].CID}
		l := 1 + rng.Intn(5)
		in := vfix.Chain(int64(100*(k+1)), l, fmt.Sprintf("in%d", inst), e.PTCid)
		e.Input[inst] = in
		vals := []*gpbft.ECChain{in.BaseChain(), in}
		for j := 1; j < l; j++ {
			vals = append(vals, in.Prefix(j))
		}
		// alternative fork with the same base
		alt := in.BaseChain().Extend([]byte(fmt.Sprintf("alt-key-%d-aaaaaaaaaaaaaaaaaaaaaaaaaaaaaa", inst)))
		alt.TipSets[1].PowerTable = e.PTCid
		vals = append(vals, alt)
		e.Values[inst] = vals
	}
	return e
}

func signersKey(idxs []int) string {
	s := append([]int{}, idxs...)
	sort.Ints(s)
	return fmt.Sprint(s)
}

// Sign creates a vote signature of table entry idx over p and registers its provenance.
func (e *Env) Sign(com *vfix.Committee, idx int, p gpbft.Payload) []byte {
	key := com.PT.Entries[idx].PubKey
	sig := vsig.RawSign(key, p.MarshalForSigning(vfix.NN))
	e.sigs[string(sig)] = append(e.sigs[string(sig)], payloadProv{key: string(key), p: p, chain: snapshot(p.Value)})
	return sig
}

// Ticket creates the VRF ticket of entry idx for (instance, round) through the production builder.
func (e *Env) Ticket(com *vfix.Committee, idx int, inst, round uint64) []byte {
	ent := com.PT.Entries[idx]
	mb := &gpbft.MessageBuilder{NetworkName: vfix.NN, PowerTable: com.PT, Payload: gpbft.Payload{Instance: inst, Round: round, Phase: gpbft.CONVERGE_PHASE}, BeaconForTicket: com.Beacon}
	sb, err := mb.PrepareSigningInputs(ent.ID)
	if err != nil {
		// zero-power member: no production path; fabricate bytes (will be unknown to provenance for the right key)
		return vsig.RawSign(ent.PubKey, []byte(fmt.Sprintf("vrf-%d-%d", inst, round)))
	}
	t := vsig.RawSign(ent.PubKey, sb.VRFToSign)
	e.tickets[string(t)] = append(e.tickets[string(t)], ticketProv{key: string(ent.PubKey), beacon: string(com.Beacon), inst: inst, round: round})
	return t
}

// Justify aggregates signatures of the given table indices over p.
func (e *Env) Justify(com *vfix.Committee, p gpbft.Payload, idxs []int) *gpbft.Justification {
	j := com.Justify(p, idxs)
	e.aggs[string(j.Signature)] = append(e.aggs[string(j.Signature)], aggProv{inst: p.Instance, p: p, chain: snapshot(p.Value), signers: signersKey(idxs)})
	return j
}

// Quorum returns a random strong-quorum subset of table indices (non-zero power), by independent arithmetic.
func (e *Env) Quorum(com *vfix.Committee) []int {
	sc, T := com.Scaled()
	perm := e.Rng.Perm(len(sc))
	var idxs []int
	var sum int64
	for _, i := range perm {
		if sc[i] == 0 {
			continue
		}
		idxs = append(idxs, i)
		sum += sc[i]
		if 3*sum >= 2*T {
			break
		}
	}
	sort.Ints(idxs)
	return idxs
}

// IdxOf returns the table index of an actor.
func IdxOf(com *vfix.Committee, id gpbft.ActorID) int { return com.PT.Lookup[id] }

// SenderIdx picks a random sender with non-zero scaled power, not self.
func (e *Env) SenderIdx(com *vfix.Committee) int {
	sc, _ := com.Scaled()
	for {
		i := e.Rng.Intn(len(sc))
		if sc[i] > 0 && com.PT.Entries[i].ID != e.Self {
			return i
		}
	}
}

// ValidMessage builds a valid message of the given shape. justKind selects the
// justification for CONVERGE/PREPARE(r>0): 0 = PREPARE(r-1,value), 1 = COMMIT(r-1,bottom).
func (e *Env) ValidMessage(inst, round uint64, phase gpbft.Phase, value *gpbft.ECChain, sender int, justKind int, justRound uint64) *gpbft.GMessage {
	com := e.Coms[inst]
	sd := e.Supp[inst]
	p := gpbft.Payload{Instance: inst, Round: round, Phase: phase, SupplementalData: sd, Value: value}
	if p.Value == nil {
		p.Value = &gpbft.ECChain{}
	}
	var j *gpbft.Justification
	q := e.Quorum(com)
	switch phase {
	case gpbft.CONVERGE_PHASE, gpbft.PREPARE_PHASE:
		if round > 0 {
			if justKind == 0 {
				j = e.Justify(com, gpbft.Payload{Instance: inst, Round: round - 1, Phase: gpbft.PREPARE_PHASE, SupplementalData: sd, Value: p.Value}, q)
			} else {
				j = e.Justify(com, gpbft.Payload{Instance: inst, Round: round - 1, Phase: gpbft.COMMIT_PHASE, SupplementalData: sd, Value: &gpbft.ECChain{}}, q)
			}
		}
	case gpbft.COMMIT_PHASE:
		if !p.Value.IsZero() {
			j = e.Justify(com, gpbft.Payload{Instance: inst, Round: round, Phase: gpbft.PREPARE_PHASE, SupplementalData: sd, Value: p.Value}, q)
		}
	case gpbft.DECIDE_PHASE:
		j = e.Justify(com, gpbft.Payload{Instance: inst, Round: justRound, Phase: gpbft.COMMIT_PHASE, SupplementalData: sd, Value: p.Value}, q)
	}
	m := &gpbft.GMessage{Sender: com.PT.Entries[sender].ID, Vote: p, Signature: e.Sign(com, sender, p), Justification: j}
	if phase == gpbft.CONVERGE_PHASE {
		m.Ticket = e.Ticket(com, sender, inst, round)
	}
	return m
}

// ---------------- reference validity ----------------

func chainWellFormed(c *gpbft.ECChain) bool {
	if c.IsZero() {
		return true
	}
	if len(c.TipSets) > 128 {
		return false
	}
	last := int64(-1)
	for _, ts := range c.TipSets {
		if ts == nil || len(ts.Key) == 0 || len(ts.Key) > 760 || !ts.PowerTable.Defined() || ts.PowerTable.ByteLen() > 38 {
			return false
		}
		if ts.Epoch <= last {
			return false
		}
		last = ts.Epoch
	}
	return true
}

func chainsEqual(a, b *gpbft.ECChain) bool { return sameChain(snapshot(a), b) }

func (e *Env) sigOK(key gpbft.PubKey, p *gpbft.Payload, sig []byte) bool {
	for _, pr := range e.sigs[string(sig)] {
		if pr.key == string(key) && samePayload(pr.p, pr.chain, p) {
			return true
		}
	}
	return false
}

// RefValid is the reference validity verdict (independent of relevance).
func (e *Env) RefValid(m *gpbft.GMessage) (Verdict, string) {
	if m == nil {
		return Invalid, "nil message"
	}
	com := e.Coms[m.Vote.Instance]
	if com == nil {
		return Unspecified, "no committee known to the reference"
	}
	sc, T := com.Scaled()
	idx, ok := com.PT.Lookup[m.Sender]
	if !ok || sc[idx] == 0 {
		return Invalid, "sender not in committee or zero scaled power"
	}
	key := com.PT.Entries[idx].PubKey
	v := m.Vote.Value
	if !chainWellFormed(v) {
		return Invalid, "malformed value"
	}
	bottom := v.IsZero()
	switch m.Vote.Phase {
	case gpbft.QUALITY_PHASE:
		if m.Vote.Round != 0 || bottom {
			return Invalid, "QUALITY round/value constraint"
		}
	case gpbft.CONVERGE_PHASE:
		if m.Vote.Round == 0 || bottom {
			return Invalid, "CONVERGE round/value constraint"
		}
		okT := false
		for _, tp := range e.tickets[string(m.Ticket)] {
			if tp.key == string(key) && tp.beacon == string(com.Beacon) && tp.inst == m.Vote.Instance && tp.round == m.Vote.Round {
				okT = true
			}
		}
		if !okT {
			return Invalid, "ticket does not verify"
		}
	case gpbft.DECIDE_PHASE:
		if m.Vote.Round != 0 || bottom {
			return Invalid, "DECIDE round/value constraint"
		}
	case gpbft.PREPARE_PHASE:
		if bottom {
			return Unspecified, "PREPARE for bottom (never sent by honest participants; rules silent)"
		}
	case gpbft.COMMIT_PHASE:
	default:
		return Invalid, "unknown phase"
	}
	if len(m.Ticket) != 0 && m.Vote.Phase != gpbft.CONVERGE_PHASE {
		return Unspecified, "ticket on a non-CONVERGE message"
	}
	if !e.sigOK(key, &m.Vote, m.Signature) {
		return Invalid, "signature does not verify over the exact payload"
	}
	needs := !(m.Vote.Phase == gpbft.QUALITY_PHASE || (m.Vote.Phase == gpbft.PREPARE_PHASE && m.Vote.Round == 0) || (m.Vote.Phase == gpbft.COMMIT_PHASE && bottom))
	j := m.Justification
	if !needs {
		if j != nil {
			return Invalid, "justification present where none is allowed"
		}
		return Valid, ""
	}
	if j == nil {
		return Invalid, "justification missing"
	}
	if j.Vote.Instance != m.Vote.Instance {
		return Invalid, "justification instance"
	}
	if j.Vote.SupplementalData.Commitments != m.Vote.SupplementalData.Commitments || j.Vote.SupplementalData.PowerTable != m.Vote.SupplementalData.PowerTable {
		return Invalid, "justification supplemental data"
	}
	if !chainWellFormed(j.Vote.Value) {
		return Invalid, "justification value malformed"
	}
	type exp struct {
		phase    gpbft.Phase
		round    uint64
		anyRound bool
		bottom   bool
	}
	var allowed []exp
	switch m.Vote.Phase {
	case gpbft.CONVERGE_PHASE, gpbft.PREPARE_PHASE:
		allowed = []exp{{gpbft.COMMIT_PHASE, m.Vote.Round - 1, false, true}, {gpbft.PREPARE_PHASE, m.Vote.Round - 1, false, false}}
	case gpbft.COMMIT_PHASE:
		allowed = []exp{{gpbft.PREPARE_PHASE, m.Vote.Round, false, false}}
	case gpbft.DECIDE_PHASE:
		allowed = []exp{{gpbft.COMMIT_PHASE, 0, true, false}}
	}
	matched := false
	for _, a := range allowed {
		if j.Vote.Phase != a.phase {
			continue
		}
		if !a.anyRound && j.Vote.Round != a.round {
			return Invalid, "justification round"
		}
		if a.bottom {
			if !j.Vote.Value.IsZero() {
				return Invalid, "justification value must be bottom"
			}
		} else if !chainsEqual(j.Vote.Value, v) {
			return Invalid, "justification value differs from vote value"
		}
		matched = true
	}
	if !matched {
		return Invalid, "justification phase not admissible"
	}
	// signers
	cnt, err := j.Signers.Count()
	if err != nil {
		return Invalid, "signers undecodable"
	}
	all, err := j.Signers.All(cnt + 1)
	if err != nil {
		return Invalid, "signers undecodable"
	}
	var sum int64
	idxs := make([]int, 0, len(all))
	for _, ix := range all {
		if ix >= uint64(len(sc)) || sc[ix] == 0 {
			return Invalid, "signer out of range or zero power"
		}
		sum += sc[ix]
		idxs = append(idxs, int(ix))
	}
	if 3*sum < 2*T {
		return Invalid, "justification below strong quorum"
	}
	okA := false
	for _, ap := range e.aggs[string(j.Signature)] {
		if ap.inst == m.Vote.Instance && ap.signers == signersKey(idxs) && samePayload(ap.p, ap.chain, &j.Vote) {
			okA = true
		}
	}
	if !okA {
		return Invalid, "aggregate does not verify over the justification payload for these signers"
	}
	return Valid, ""
}

// Relevance classes per the validator's documented behaviour.
const (
	RelRelevant    = "relevant"
	RelTooOld      = "too-old"
	RelNotRelevant = "not-relevant"
	RelNoCommittee = "no-committee"
)

// RefRelevance mirrors the documented relevance rule (instance window, DECIDE of the previous
// instance, current/previous round, DECIDE-only once deciding).
func RefRelevance(cur gpbft.Instant, lookback uint64, m *gpbft.GMessage) string {
	in := m.Vote.Instance
	switch {
	case in >= cur.ID+lookback:
		return RelNoCommittee
	case in > cur.ID:
		return RelRelevant
	case in+1 == cur.ID && m.Vote.Phase == gpbft.DECIDE_PHASE:
		return RelRelevant
	case in == cur.ID:
		if cur.Phase == gpbft.DECIDE_PHASE && m.Vote.Phase != gpbft.DECIDE_PHASE {
			return RelNotRelevant
		}
		if m.Vote.Phase == gpbft.QUALITY_PHASE || m.Vote.Phase == gpbft.DECIDE_PHASE || m.Vote.Round >= cur.Round || m.Vote.Round+1 == cur.Round {
			return RelRelevant
		}
		return RelNotRelevant
	default:
		return RelTooOld
	}
}

// ---------------- driving a participant to a progress state ----------------

type Driven struct {
	P    *gpbft.Participant
	Host *vfix.StaticHost
	Env  *Env
	Opts []gpbft.Option
}

// NewDriven creates a participant (identity Env.Self) over the env's committees.
func NewDriven(e *Env, opts ...gpbft.Option) *Driven {
	h := vfix.NewStaticHost()
	for k, c := range e.Coms {
		h.Committees[k] = c
		h.Proposals[k] = e.Input[k]
		h.Supp[k] = e.Supp[k]
	}
	all := append([]gpbft.Option{gpbft.WithCommitteeLookback(e.Lookback), gpbft.WithDelta(time.Second), gpbft.WithDeltaBackOffExponent(1.0),
		gpbft.WithRebroadcastBackoff(1.3, 0, time.Second, 10*time.Second)}, opts...)
	p, err := gpbft.NewParticipant(h, all...)
	if err != nil {
		panic(err)
	}
	return &Driven{P: p, Host: h, Env: e, Opts: opts}
}

func (d *Driven) feed(m *gpbft.GMessage) error {
	vm, err := d.P.ValidateMessage(context.Background(), m)
	if err != nil {
		return fmt.Errorf("driver message rejected: %w", err)
	}
	return d.P.ReceiveMessage(context.Background(), vm)
}

// others returns a strong-quorum set of sender indices not containing self.
func (d *Driven) others(com *vfix.Committee) []int {
	sc, T := com.Scaled()
	var idxs []int
	var sum int64
	for i := range sc {
		if sc[i] == 0 || com.PT.Entries[i].ID == d.Env.Self {
			continue
		}
		idxs = append(idxs, i)
		sum += sc[i]
		if 3*sum >= 2*T {
			return idxs
		}
	}
	panic("fixture committee cannot form a quorum without self")
}

// DriveTo moves the participant to (inst, round, phase) using validly signed messages of the other members.
func (d *Driven) DriveTo(target gpbft.Instant) error {
	e := d.Env
	ctx := context.Background()
	if err := d.P.StartInstanceAt(target.ID, d.Host.Now); err != nil {
		return err
	}
	if target.Phase == gpbft.INITIAL_PHASE {
		return nil
	}
	if err := d.P.ReceiveAlarm(ctx); err != nil {
		return err
	}
	com := e.Coms[target.ID]
	in := e.Input[target.ID]
	at := func() gpbft.Instant { return d.P.Progress().Instant }
	reached := func() bool { c := at(); return c.ID == target.ID && c.Round == target.Round && c.Phase == target.Phase }
	if reached() {
		return nil
	}
	// QUALITY -> PREPARE(0)
	for _, s := range d.others(com) {
		if err := d.feed(e.ValidMessage(target.ID, 0, gpbft.QUALITY_PHASE, in, s, 0, 0)); err != nil {
			return err
		}
	}
	if at().Phase != gpbft.PREPARE_PHASE {
		return fmt.Errorf("driver: expected PREPARE(0), at %v", at())
	}
	round := uint64(0)
	for !reached() {
		c := at()
		switch {
		case c.Phase == gpbft.PREPARE_PHASE && (target.Round > round || target.Phase == gpbft.COMMIT_PHASE || target.Phase == gpbft.DECIDE_PHASE):
			// PREPARE(round) -> COMMIT(round): strong quorum of PREPARE for the input
			for _, s := range d.others(com) {
				jk := 1
				if err := d.feed(e.ValidMessage(target.ID, round, gpbft.PREPARE_PHASE, in, s, jk, 0)); err != nil {
					return err
				}
			}
			if at().Phase != gpbft.COMMIT_PHASE {
				return fmt.Errorf("driver: expected COMMIT(%d), at %v", round, at())
			}
		case c.Phase == gpbft.COMMIT_PHASE && target.Round == round && target.Phase == gpbft.DECIDE_PHASE:
			for _, s := range d.others(com) {
				if err := d.feed(e.ValidMessage(target.ID, round, gpbft.COMMIT_PHASE, in, s, 0, 0)); err != nil {
					return err
				}
			}
			if at().Phase != gpbft.DECIDE_PHASE {
				return fmt.Errorf("driver: expected DECIDE, at %v", at())
			}
		case c.Phase == gpbft.COMMIT_PHASE && target.Round > round:
			// COMMIT(round) for bottom from a quorum -> CONVERGE(round+1)
			for _, s := range d.others(com) {
				if err := d.feed(e.ValidMessage(target.ID, round, gpbft.COMMIT_PHASE, nil, s, 0, 0)); err != nil {
					return err
				}
			}
			round++
			if c2 := at(); c2.Round != round || c2.Phase != gpbft.CONVERGE_PHASE {
				return fmt.Errorf("driver: expected CONVERGE(%d), at %v", round, c2)
			}
			if reached() {
				return nil
			}
			// CONVERGE -> PREPARE by timeout
			d.Host.Now = d.Host.Now.Add(time.Hour)
			if err := d.P.ReceiveAlarm(ctx); err != nil {
				return err
			}
			if at().Phase != gpbft.PREPARE_PHASE {
				return fmt.Errorf("driver: expected PREPARE(%d), at %v", round, at())
			}
		default:
			return fmt.Errorf("driver: cannot reach %v from %v", target, c)
		}
	}
	return nil
}
