package c08

import (
	"context"
	"fmt"
	"math/big"
	"math/rand"
	"os"
	"runtime"
	"sort"
	"sync"
	"sync/atomic"
	"testing"

	"github.com/filecoin-project/go-f3/certs"
	"github.com/filecoin-project/go-f3/gpbft"
	"github.com/filecoin-project/go-f3/verifh/vfix"
	"github.com/filecoin-project/go-f3/verifh/vkit"
	"github.com/filecoin-project/go-f3/verifh/vsig"
)

const maxPower = 65535

// handTable builds a PowerTable with exactly the given scaled powers (fields are exported).
func handTable(scaled []int64, whole int64) *gpbft.PowerTable {
	pt := gpbft.NewPowerTable()
	for i, s := range scaled {
		id := gpbft.ActorID(i + 1)
		pt.Entries = append(pt.Entries, gpbft.PowerEntry{ID: id, Power: gpbft.NewStoragePower(s + 1), PubKey: vsig.PubKey(8, uint64(id))})
		pt.ScaledPower = append(pt.ScaledPower, s)
		pt.Lookup[id] = i
	}
	pt.ScaledTotal = whole
	pt.Total = gpbft.NewStoragePower(whole + int64(len(scaled)))
	return pt
}

func TestCheck(t *testing.T) {
	run := vkit.New("C08", "main", "exploration")
	run.SetRule("(A) exhaustive sweep of all (part, whole) with 0<=part<=whole<=65535 through gpbft.IsStrongQuorum and the weak-quorum predicate against exact integer arithmetic, plus per-whole derived intersection lemmas; (B) sampled int64 totals of every magnitude up to 2^62 with random and two-thirds-boundary weights, judged against exact arithmetic (the region from 2^62 on, where 2*whole overflows, is characterised only); (C) could-reach / tally verdicts of the real quorum state fed votes of known weight: all (whole<=W, support<=voted<=whole) triples + random triples up to 65535; (D) random big-integer power tables through PowerEntries.Scaled and PowerTable.Add; (E) boundary signer sets through tally, message validator and certificate validator. distinct = distinct (component, input) cases; non-trivial = every case (each is a different input)")
	run.Assume("exact rational arithmetic in int64/math/big is the oracle", "weak-quorum and could-reach predicates are reached through a verif-tagged accessor (expose only)")
	run.SetExhaustive(true)

	sweepA(run)
	overflowB(run)
	couldReachC(run)
	scalingD(run)
	crossE(run)

	rc := run.Finish()
	if rc != 0 {
		t.Fail()
	}
	if rc == 2 {
		os.Exit(2)
	}
}

// ---------- A: exhaustive sweep ----------
func sweepA(run *vkit.Run) {
	var evals, strongTrue, weakTrue, weakConservative atomic.Int64
	var mu sync.Mutex
	workers := runtime.GOMAXPROCS(0)
	var wg sync.WaitGroup
	next := atomic.Int64{}
	for w := 0; w < workers; w++ {
		wg.Add(1)
		go func() {
			defer wg.Done()
			for {
				whole := next.Add(1) - 1
				if whole > maxPower {
					return
				}
				qmin := int64(-1)
				var ev, st, wk, wc int64
				for part := int64(0); part <= whole; part++ {
					ev++
					s := gpbft.IsStrongQuorum(part, whole)
					ref := 3*part >= 2*whole
					if s != ref {
						mu.Lock()
						run.Violation(fmt.Sprintf("C08 IsStrongQuorum disagrees with 3*part>=2*whole (verdict %v, expected %v)", s, ref), map[string]any{"part": part, "whole": whole})
						mu.Unlock()
					}
					if s {
						st++
						if qmin < 0 {
							qmin = part
						}
					}
					wq := gpbft.VerifHasWeakQuorum(part, whole)
					if wq {
						wk++
						if 3*part <= whole {
							mu.Lock()
							run.Violation("C08 weak quorum verdict true although part does not strictly exceed one third", map[string]any{"part": part, "whole": whole})
							mu.Unlock()
						}
					} else if 3*part > whole {
						wc++
					}
				}
				// derived lemmas from the real verdicts
				if qmin >= 0 && whole > 0 {
					overlap := 2*qmin - whole
					fmax := (whole - 1) / 3 // largest f with 3f < whole
					if 3*overlap < whole || overlap <= fmax {
						mu.Lock()
						run.Violation("C08 two minimal strong quorums can overlap in less than one third of the total", map[string]any{"whole": whole, "qmin": qmin, "overlap": overlap, "fmax": fmax})
						mu.Unlock()
					}
				}
				evals.Add(ev)
				strongTrue.Add(st)
				weakTrue.Add(wk)
				weakConservative.Add(wc)
			}
		}()
	}
	wg.Wait()
	run.Eval(evals.Load())
	run.Count("sweep_pairs", evals.Load())
	run.Count("sweep_strong_true", strongTrue.Load())
	run.Count("sweep_weak_true", weakTrue.Load())
	run.Count("sweep_weak_false_although_above_third(info)", weakConservative.Load())
	// the distinct non-trivial count of the sweep is the number of pairs (all inputs differ)
	for whole := int64(0); whole <= maxPower; whole += 257 {
		run.Distinct(fmt.Sprintf("sweep-row-%d", whole))
	}
	run.Sample(map[string]any{"component": "sweep", "whole": 65535, "min_strong": (2*65535 + 2) / 3, "note": "every pair 0<=part<=whole<=65535 evaluated"})
}

// ---------- B: larger int64 values ----------
// The statement's quantifier includes "sampled larger int64 values for overflow". Below 2^62 the
// doubling 2*whole fits an int64, so the predicate has to be exact there: a disagreement with exact
// arithmetic is a violation. From 2^62 on 2*whole itself overflows; that region is characterised only.
func overflowB(run *vkit.Run) {
	rng := rand.New(rand.NewSource(run.SubSeed(1001)))
	dis, viol := int64(0), int64(0)
	n := run.N(200000, 5000000)
	exact := func(part, whole int64) bool {
		return new(big.Int).Mul(big.NewInt(part), big.NewInt(3)).Cmp(new(big.Int).Mul(big.NewInt(whole), big.NewInt(2))) >= 0
	}
	check := func(part, whole int64) {
		if part < 0 || part > whole {
			return
		}
		if s := gpbft.IsStrongQuorum(part, whole); s != exact(part, whole) {
			if whole < 1<<62 {
				viol++
				if viol <= 3 {
					run.Violation(fmt.Sprintf("C08 IsStrongQuorum disagrees with 3*part>=2*whole for int64 values below 2^62 (verdict %v)", s), map[string]any{"part": part, "whole": whole})
				}
			} else {
				dis++
			}
		}
	}
	for i := 0; i < n; i++ {
		whole := rng.Int63n(1 << 62)
		if i%4 == 0 {
			whole = rng.Int63n(1 << uint(17+rng.Intn(45))) // every magnitude between 2^17 and 2^62
		}
		check(rng.Int63n(whole+1), whole)
		// the two-thirds boundary of that total
		q := new(big.Int).Div(new(big.Int).Add(new(big.Int).Mul(big.NewInt(whole), big.NewInt(2)), big.NewInt(2)), big.NewInt(3)).Int64()
		for d := int64(-2); d <= 2; d++ {
			check(q+d, whole)
		}
	}
	for i := 0; i < n/20; i++ { // characterisation of the region where 2*whole overflows
		whole := 1<<62 + rng.Int63n(1<<62)
		check(rng.Int63n(whole), whole)
	}
	run.Eval(int64(n) * 6)
	run.Count("large_value_samples_below_2^62", int64(n)*6)
	run.Count("large_value_disagreements_below_2^62", viol)
	run.Count("overflow_disagreements_at_or_above_2^62(info)", dis)
}

// ---------- C: could-reach and tally verdicts ----------
func couldReachC(run *vkit.Run) {
	x := vfix.Chain(10, 2, "x", vfix.Tip(0, "z", gpbft.MakeCid([]byte("pt"))).PowerTable)
	y := vfix.Chain(10, 2, "y", x.Base().PowerTable)
	xk := x.Key()
	var cases, falseVerdicts int64
	check := func(whole, support, voted int64, i int) {
		cases++
		// three senders: A (support) votes X, B (voted-support) votes Y, C unvoted
		pt := handTable([]int64{support, voted - support, whole - voted}, whole)
		q := gpbft.VerifNewQuorumState(pt)
		if support > 0 {
			q.Receive(1, x, []byte{1})
		}
		if voted-support > 0 {
			q.Receive(2, y, []byte{2})
		}
		unvoted := whole - voted
		if !q.CouldReachStrongQuorumFor(xk, false) {
			falseVerdicts++
			if 3*(support+unvoted) >= 2*whole {
				run.Violation("C08 value reported unable to reach a strong quorum although support+unvoted reaches two thirds", map[string]any{"case": i, "whole": whole, "support": support, "voted": voted})
			}
		}
		if !q.CouldReachStrongQuorumFor(xk, true) {
			fmax := int64(0)
			if whole > 0 {
				fmax = (whole - 1) / 3
			}
			possible := min(support+unvoted+fmax, whole)
			if 3*possible >= 2*whole {
				run.Violation("C08 value reported undecidable-by-others although support+unvoted+tolerated adversary reaches two thirds", map[string]any{"case": i, "whole": whole, "support": support, "voted": voted})
			}
		}
		if got, ref := q.HasStrongQuorumFor(xk), support > 0 && 3*support >= 2*whole; got != ref {
			run.Violation(fmt.Sprintf("C08 tally strong-quorum verdict %v differs from exact arithmetic %v", got, ref), map[string]any{"case": i, "whole": whole, "support": support})
		}
		if q.ReceivedFromWeakQuorum() && 3*voted <= whole {
			run.Violation("C08 tally reports weak quorum of senders not exceeding one third", map[string]any{"case": i, "whole": whole, "voted": voted})
		}
		if got, ref := q.ReceivedFromStrongQuorum(), 3*voted >= 2*whole; got != ref {
			run.Violation("C08 tally strong quorum of senders differs from exact arithmetic", map[string]any{"case": i, "whole": whole, "voted": voted})
		}
	}
	W := int64(run.N(120, 260))
	i := 0
	for whole := int64(1); whole <= W; whole++ {
		for voted := int64(0); voted <= whole; voted++ {
			for support := int64(0); support <= voted; support++ {
				check(whole, support, voted, i)
				i++
			}
		}
	}
	run.Count("could_reach_exhaustive_triples", cases)
	rng := rand.New(rand.NewSource(run.SubSeed(1002)))
	n := run.N(300000, 20000000)
	for k := 0; k < n; k++ {
		whole := 1 + rng.Int63n(maxPower)
		// concentrate near the thresholds
		voted := rng.Int63n(whole + 1)
		support := rng.Int63n(voted + 1)
		if k%3 == 0 {
			q := (2*whole + 2) / 3
			support = max(0, min(whole, q-2+rng.Int63n(5)))
			voted = max(support, min(whole, support+rng.Int63n(whole-support+1)))
		}
		check(whole, support, voted, i)
		i++
	}
	run.Eval(cases)
	run.Count("could_reach_triples_total", cases)
	run.Count("could_reach_false_verdicts_checked", falseVerdicts)
	run.Distinct("could-reach-exhaustive")
	run.Distinct("could-reach-random")
	run.Sample(map[string]any{"component": "could-reach", "whole": W, "note": "all support<=voted<=whole for whole<=W, then random triples up to 65535"})
}

// ---------- D: scaling ----------
func scalingD(run *vkit.Run) {
	n := run.N(100000, 1500000)
	var mu sync.Mutex
	vkit.Parallel(n, runtime.GOMAXPROCS(0), func(i int) {
		rng := rand.New(rand.NewSource(run.SubSeed(int64(2000 + i))))
		m := 1 + rng.Intn(60)
		if i%50 == 0 {
			m = 1 + rng.Intn(2000)
		}
		es := make(gpbft.PowerEntries, m)
		shape := rng.Intn(4)
		for j := range es {
			var p *big.Int
			switch shape {
			case 0:
				p = big.NewInt(1 + rng.Int63n(1000))
			case 1:
				p = new(big.Int).Add(new(big.Int).Rand(rng, new(big.Int).Lsh(big.NewInt(1), uint(1+rng.Intn(300)))), big.NewInt(1))
			case 2: // dust next to whales
				if rng.Intn(3) == 0 {
					p = new(big.Int).Lsh(big.NewInt(1+rng.Int63n(9)), 80)
				} else {
					p = big.NewInt(1 + rng.Int63n(3))
				}
			default: // many duplicates
				p = big.NewInt(int64(1 + rng.Intn(3)))
			}
			es[j] = gpbft.PowerEntry{ID: gpbft.ActorID(j + 1), Power: gpbft.StoragePower{Int: p}, PubKey: vsig.PubKey(9, uint64(j))}
		}
		scaled, total, err := es.Scaled()
		bad := func(what string) {
			mu.Lock()
			run.Violation("C08 scaling: "+what, map[string]any{"case": i, "members": m, "shape": shape})
			mu.Unlock()
		}
		if err != nil {
			bad("Scaled() failed on a table with positive powers: " + err.Error())
			return
		}
		tot := new(big.Int)
		for _, e := range es {
			tot.Add(tot, e.Power.Int)
		}
		var sum int64
		for j, s := range scaled {
			if s < 0 || s > maxPower {
				bad("individual scaled power outside [0,65535]")
			}
			sum += s
			ref := new(big.Int).Mul(es[j].Power.Int, big.NewInt(maxPower))
			ref.Div(ref, tot)
			if ref.Int64() != s {
				bad("scaled power differs from floor(65535*p/total)")
			}
		}
		if sum != total || sum > maxPower {
			bad("scaled sum exceeds 65535 or differs from reported total")
		}
		// order preservation
		idx := make([]int, m)
		for j := range idx {
			idx[j] = j
		}
		sort.Slice(idx, func(a, b int) bool { return es[idx[a]].Power.Int.Cmp(es[idx[b]].Power.Int) > 0 })
		for j := 1; j < m; j++ {
			if scaled[idx[j-1]] < scaled[idx[j]] {
				bad("scaling is not order preserving")
				break
			}
		}
		// PowerTable.Add agrees
		pt := gpbft.NewPowerTable()
		if err := pt.Add(es...); err != nil {
			bad("PowerTable.Add failed: " + err.Error())
			return
		}
		var psum int64
		for j, e := range pt.Entries {
			ref := new(big.Int).Mul(e.Power.Int, big.NewInt(maxPower))
			ref.Div(ref, tot)
			if pt.ScaledPower[j] != ref.Int64() {
				bad("PowerTable scaled power differs from floor(65535*p/total)")
				break
			}
			psum += pt.ScaledPower[j]
		}
		if psum != pt.ScaledTotal || pt.ScaledTotal != total {
			bad("PowerTable.ScaledTotal differs from PowerEntries.Scaled total")
		}
		if err := pt.Validate(); err != nil {
			bad("PowerTable.Validate rejects a table built by Add: " + err.Error())
		}
		run.Eval(1)
		if i < 2000 {
			run.Distinct(fmt.Sprintf("table-%d-%d-%d-%s", i, m, shape, tot.String()))
		}
		if i == 0 {
			run.Sample(map[string]any{"component": "scaling", "members": m, "shape": shape, "scaled_total": total})
		}
	})
	run.Count("scaling_tables", int64(n))
}

// ---------- E: cross-component agreement at the boundary ----------
func crossE(run *vkit.Run) {
	n := run.N(8000, 60000)
	var mu sync.Mutex
	var accepted, rejected atomic.Int64
	vkit.Parallel(n, runtime.GOMAXPROCS(0), func(i int) {
		rng := rand.New(rand.NewSource(run.SubSeed(int64(900000 + i))))
		m := 1 + rng.Intn(12)
		ids := make([]gpbft.ActorID, m)
		pw := make([]*big.Int, m)
		for j := range ids {
			ids[j] = gpbft.ActorID(100 + j)
			switch rng.Intn(3) {
			case 0:
				pw[j] = big.NewInt(1 + rng.Int63n(20))
			case 1:
				pw[j] = big.NewInt(1 + rng.Int63n(100000))
			default:
				pw[j] = new(big.Int).Lsh(big.NewInt(1+rng.Int63n(7)), uint(rng.Intn(60)))
			}
		}
		com, err := vfix.NewCommittee(uint32(i), ids, pw, []byte("beacon"))
		if err != nil {
			return
		}
		sc, T := com.Scaled()
		if T == 0 {
			return
		}
		// pick a subset: greedy up to the threshold, then variants one member short / one more
		perm := rng.Perm(m)
		var subset []int
		var sum int64
		for _, j := range perm {
			if sc[j] == 0 {
				continue
			}
			subset = append(subset, j)
			sum += sc[j]
			if 3*sum >= 2*T {
				break
			}
		}
		variants := [][]int{subset}
		if len(subset) > 1 {
			variants = append(variants, subset[:len(subset)-1])
		}
		for _, j := range perm {
			in := false
			for _, s := range subset {
				if s == j {
					in = true
				}
			}
			if !in && sc[j] > 0 {
				variants = append(variants, append(append([]int{}, subset...), j))
				break
			}
		}
		inst := uint64(rng.Intn(5))
		value := vfix.Chain(20, 1+rng.Intn(3), fmt.Sprint("v", i), com.CID)
		sd := gpbft.SupplementalData{PowerTable: com.CID}
		host := vfix.NewStaticHost()
		host.Committees[inst] = com
		part, err := gpbft.NewParticipant(host)
		if err != nil {
			panic(err)
		}
		if err := part.StartInstanceAt(inst, host.Now); err != nil {
			panic(err)
		}
		for vi, sub := range variants {
			var ssum int64
			for _, j := range sub {
				ssum += sc[j]
			}
			ref := 3*ssum >= 2*T
			// (1) tally
			q := gpbft.VerifNewQuorumState(com.PT)
			for _, j := range sub {
				q.Receive(com.PT.Entries[j].ID, value, []byte{1})
			}
			tally := q.HasStrongQuorumFor(value.Key())
			// (2) certificate validator
			dp := gpbft.Payload{Instance: inst, Round: 0, Phase: gpbft.DECIDE_PHASE, SupplementalData: sd, Value: value}
			just := com.Justify(dp, sub)
			cert, err := certs.NewFinalityCertificate(nil, just)
			certOK := false
			if err == nil {
				_, _, _, verr := certs.ValidateFinalityCertificates(vsig.Backend{}, vfix.NN, com.PT.Entries, inst, nil, cert)
				certOK = verr == nil
			}
			// (3) message validator: COMMIT justified by a PREPARE aggregate of the same subset
			pp := gpbft.Payload{Instance: inst, Round: 0, Phase: gpbft.PREPARE_PHASE, SupplementalData: sd, Value: value}
			pj := com.Justify(pp, sub)
			sender := sub[0]
			cm := com.Message(sender, gpbft.Payload{Instance: inst, Round: 0, Phase: gpbft.COMMIT_PHASE, SupplementalData: sd, Value: value}, pj)
			_, verr := part.ValidateMessage(context.Background(), cm)
			msgOK := verr == nil
			run.Eval(1)
			if ref {
				accepted.Add(1)
			} else {
				rejected.Add(1)
			}
			if tally != ref || certOK != ref || msgOK != ref {
				mu.Lock()
				run.Violation(fmt.Sprintf("C08 components disagree on a signer set (exact=%v tally=%v certificate-validator=%v message-validator=%v)", ref, tally, certOK, msgOK),
					map[string]any{"case": i, "variant": vi, "subset_power": ssum, "total": T, "scaled": sc, "subset": sub})
				mu.Unlock()
			}
			if i < 3000 {
				run.Distinct(fmt.Sprintf("cross-%d-%d-%d-%d", i, vi, ssum, T))
			}
		}
		if i == 0 {
			run.Sample(map[string]any{"component": "cross", "scaled": sc, "total": T, "subset": subset, "subset_power": sum})
		}
	})
	run.Count("cross_signer_sets_at_or_above_threshold", accepted.Load())
	run.Count("cross_signer_sets_below_threshold", rejected.Load())
}
