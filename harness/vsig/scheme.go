package vsig

import (
	"context"
	"crypto/sha256"
	"encoding/binary"
	"errors"
	"io"
	"sync"

	"go.dedis.ch/kyber/v4"
	"go.dedis.ch/kyber/v4/sign/bdn"
	"go.dedis.ch/kyber/v4/util/random"

	"github.com/filecoin-project/go-f3/blssig"
	"github.com/filecoin-project/go-f3/gpbft"
	bls12381 "github.com/filecoin-project/go-f3/internal/gnark"
)

// Scheme abstracts over the signature scheme a world runs with: the deterministic stand-in
// (StandIn) or the production BLS code of go-f3 (blssig + gnark adapter) with harness-held keys.
type Scheme interface {
	gpbft.Verifier
	Name() string
	// PubKey returns the public key of key index i (universe u is ignored by the BLS scheme,
	// which draws from a fixed deterministic pool).
	PubKey(u uint32, i uint64) gpbft.PubKey
	// RawSign signs msg with the secret of pk (harness-internal: callers use keys they own).
	RawSign(pk gpbft.PubKey, msg []byte) []byte
	// NewSigner returns a gpbft.Signer restricted to the given keys.
	NewSigner(keys ...gpbft.PubKey) gpbft.Signer
}

// StandIn is the deterministic hash-based scheme.
type StandIn struct{ Backend }

func (StandIn) Name() string                                 { return "vsig-standin" }
func (StandIn) PubKey(u uint32, i uint64) gpbft.PubKey       { return PubKey(u, i) }
func (StandIn) RawSign(pk gpbft.PubKey, msg []byte) []byte   { return RawSign(pk, msg) }
func (StandIn) NewSigner(keys ...gpbft.PubKey) gpbft.Signer  { return NewSigner(keys...) }

// ---- production BLS ----

type blsScheme struct {
	*blssig.Verifier
	scheme *bdn.Scheme
	mu     sync.RWMutex
	pubs   map[uint64]gpbft.PubKey
	privs  map[string]kyber.Scalar
}

var (
	blsOnce sync.Once
	blsInst *blsScheme
)

type detReader struct {
	ctr uint64
	buf []byte
}

func (d *detReader) Read(p []byte) (int, error) {
	n := 0
	for n < len(p) {
		if len(d.buf) == 0 {
			h := sha256.New()
			h.Write([]byte("vsig-bls-keygen"))
			_ = binary.Write(h, binary.BigEndian, d.ctr)
			d.ctr++
			d.buf = h.Sum(nil)
		}
		c := copy(p[n:], d.buf)
		d.buf = d.buf[c:]
		n += c
	}
	return n, nil
}

var _ io.Reader = (*detReader)(nil)

// BLS returns the process-wide production-BLS scheme: go-f3's blssig.Verifier for everything that
// verifies/aggregates, and deterministic key pairs (derived from the key index) held by the harness.
func BLS() Scheme {
	blsOnce.Do(func() {
		suite := bls12381.NewSuiteBLS12381()
		blsInst = &blsScheme{Verifier: blssig.VerifierWithKeyOnG1(), scheme: bdn.NewSchemeOnG2(suite), privs: map[string]kyber.Scalar{}, pubs: map[uint64]gpbft.PubKey{}}
	})
	return blsInst
}

func (s *blsScheme) Name() string { return "blssig (production BLS12-381 BDN via gnark adapter)" }

func (s *blsScheme) PubKey(_ uint32, i uint64) gpbft.PubKey {
	i %= 4096
	s.mu.RLock()
	pk, ok := s.pubs[i]
	s.mu.RUnlock()
	if !ok {
		priv, pub := s.scheme.NewKeyPair(random.New(&detReader{ctr: i << 32}))
		b, err := pub.MarshalBinary()
		if err != nil {
			panic(err)
		}
		s.mu.Lock()
		if prev, dup := s.pubs[i]; dup {
			b = prev
		} else {
			s.pubs[i] = b
			s.privs[string(b)] = priv
		}
		s.mu.Unlock()
		pk = b
	}
	return append(gpbft.PubKey{}, pk...)
}

func (s *blsScheme) priv(pk gpbft.PubKey) (kyber.Scalar, bool) {
	s.mu.RLock()
	defer s.mu.RUnlock()
	p, ok := s.privs[string(pk)]
	return p, ok
}

func (s *blsScheme) RawSign(pk gpbft.PubKey, msg []byte) []byte {
	priv, ok := s.priv(pk)
	if !ok {
		return make([]byte, SigLen)
	}
	sig, err := s.scheme.Sign(priv, msg)
	if err != nil {
		return make([]byte, SigLen)
	}
	return sig
}

type blsSigner struct {
	s   *blsScheme
	own map[string]struct{}
}

func (b *blsSigner) Sign(_ context.Context, pk gpbft.PubKey, msg []byte) ([]byte, error) {
	if _, ok := b.own[string(pk)]; !ok {
		return nil, errors.New("vsig/bls: signer does not own this key")
	}
	priv, ok := b.s.priv(pk)
	if !ok {
		return nil, errors.New("vsig/bls: unknown key")
	}
	return b.s.scheme.Sign(priv, msg)
}

func (s *blsScheme) NewSigner(keys ...gpbft.PubKey) gpbft.Signer {
	b := &blsSigner{s: s, own: map[string]struct{}{}}
	for _, k := range keys {
		b.own[string(k)] = struct{}{}
	}
	return b
}
