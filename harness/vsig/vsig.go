// Package vsig is the deterministic signature / aggregate / VRF stand-in of the
// harness. It is independent of the repo's sim/signing (which is itself a
// subject under test in C19).
//
// Scheme: pubkey = "vk" || 46 bytes derived from the key index (48 bytes, the
// BLS pubkey size, so codecs accept it); secret(pubkey) = H("sk"||pubkey);
// sig(pubkey,msg) = H(secret||msg) padded to 96 bytes; aggregate over signer
// indices i1<..<ik of a key list = H(idx1||sig1||...||idxk||sigk) padded to 96.
// Unforgeability holds inside the harness by construction: Byzantine actors
// get a Signer restricted to their own keys.
package vsig

import (
	"bytes"
	"context"
	"crypto/sha256"
	"encoding/binary"
	"errors"
	"fmt"

	"github.com/filecoin-project/go-f3/gpbft"
)

const (
	PubKeyLen = 48
	SigLen    = 96
)

// PubKey derives the public key of key index i in key universe u.
func PubKey(u uint32, i uint64) gpbft.PubKey {
	h := sha256.New()
	h.Write([]byte("vsig-pk"))
	_ = binary.Write(h, binary.BigEndian, u)
	_ = binary.Write(h, binary.BigEndian, i)
	d := h.Sum(nil)
	pk := make([]byte, 0, PubKeyLen)
	pk = append(pk, 'v', 'k')
	pk = append(pk, d...)
	pk = append(pk, d[:PubKeyLen-2-len(d)]...)
	return pk
}

func secret(pk gpbft.PubKey) []byte {
	h := sha256.New()
	h.Write([]byte("vsig-sk"))
	h.Write(pk)
	return h.Sum(nil)
}

func validKey(pk gpbft.PubKey) bool {
	return len(pk) == PubKeyLen && pk[0] == 'v' && pk[1] == 'k'
}

// RawSign produces the signature of pk over msg (harness-internal: callers must
// only use keys they own).
func RawSign(pk gpbft.PubKey, msg []byte) []byte {
	h := sha256.New()
	h.Write(secret(pk))
	h.Write(msg)
	d := h.Sum(nil)
	out := make([]byte, SigLen)
	copy(out, d)
	copy(out[32:], d)
	copy(out[64:], d)
	return out
}

// Backend implements gpbft.Verifier (for everybody).
type Backend struct{}

var _ gpbft.Verifier = Backend{}

func (Backend) Verify(pk gpbft.PubKey, msg, sig []byte) error {
	if !validKey(pk) {
		return errors.New("vsig: malformed public key")
	}
	if !bytes.Equal(RawSign(pk, msg), sig) {
		return errors.New("vsig: signature does not verify")
	}
	return nil
}

func (Backend) Aggregate(keys []gpbft.PubKey) (gpbft.Aggregate, error) {
	for i, k := range keys {
		if !validKey(k) {
			return nil, fmt.Errorf("vsig: malformed public key at %d", i)
		}
	}
	return &Agg{keys: keys}, nil
}

type Agg struct{ keys []gpbft.PubKey }

func (a *Agg) Aggregate(mask []int, sigs [][]byte) ([]byte, error) {
	if len(mask) != len(sigs) {
		return nil, errors.New("vsig: mask/sigs length mismatch")
	}
	h := sha256.New()
	prev := -1
	for i, idx := range mask {
		if idx < 0 || idx >= len(a.keys) {
			return nil, fmt.Errorf("vsig: signer %d out of range", idx)
		}
		if idx <= prev {
			return nil, fmt.Errorf("vsig: signer mask not strictly increasing")
		}
		prev = idx
		_ = binary.Write(h, binary.BigEndian, uint64(idx))
		h.Write(sigs[i])
	}
	d := h.Sum(nil)
	out := make([]byte, SigLen)
	copy(out, d)
	copy(out[32:], d)
	copy(out[64:], d)
	return out, nil
}

func (a *Agg) VerifyAggregate(mask []int, payload, agg []byte) error {
	sigs := make([][]byte, len(mask))
	for i, idx := range mask {
		if idx < 0 || idx >= len(a.keys) {
			return fmt.Errorf("vsig: signer %d out of range", idx)
		}
		sigs[i] = RawSign(a.keys[idx], payload)
	}
	want, err := a.Aggregate(mask, sigs)
	if err != nil {
		return err
	}
	if !bytes.Equal(want, agg) {
		return errors.New("vsig: aggregate does not verify")
	}
	return nil
}

// Signer signs only with the keys it was given.
type Signer struct{ own map[string]struct{} }

var _ gpbft.Signer = (*Signer)(nil)

func NewSigner(keys ...gpbft.PubKey) *Signer {
	s := &Signer{own: map[string]struct{}{}}
	for _, k := range keys {
		s.own[string(k)] = struct{}{}
	}
	return s
}

func (s *Signer) Owns(pk gpbft.PubKey) bool { _, ok := s.own[string(pk)]; return ok }

func (s *Signer) Sign(_ context.Context, pk gpbft.PubKey, msg []byte) ([]byte, error) {
	if _, ok := s.own[string(pk)]; !ok {
		return nil, errors.New("vsig: signer does not own this key")
	}
	return RawSign(pk, msg), nil
}
