package c05

import (
	"context"
	"fmt"
	"math/rand"
	"os"
	"sync"
	"sync/atomic"
	"testing"

	"github.com/filecoin-project/go-f3/gpbft"
	"github.com/filecoin-project/go-f3/verifh/vkit"
	"github.com/filecoin-project/go-f3/verifh/vmsg"
)

// TestCheckRace is the concurrent phase of C05 (built with -race): many goroutines validate a
// shuffled corpus while another goroutine moves the participant through rounds and phases.
func TestCheckRace(t *testing.T) {
	run := vkit.New("C05", "race", "exploration")
	run.SetRule("each case: 12 goroutines validate a shuffled corpus (valid + corrupted messages for the current and the next instance) concurrently with a driver goroutine that moves the same participant through QUALITY/PREPARE/COMMIT/CONVERGE/DECIDE of several rounds; verdicts are judged where they do not depend on the moving progress (invalid never accepted, valid never branded invalid, valid next-instance messages always accepted); the race detector watches go-f3 code. distinct non-trivial = distinct (corruption, phase, verdict) combinations observed under concurrency")
	run.Assume("race detector reports only count when both stacks contain go-f3 (non-harness) frames")
	n := run.N(24, 600)
	var validations atomic.Int64
	for i := 0; i < n; i++ {
		if run.Case >= 0 && int64(i) != run.Case {
			continue
		}
		seed := run.SubSeed(int64(5000 + i))
		rng := rand.New(rand.NewSource(seed))
		lookback := uint64(3 + rng.Intn(3))
		first := uint64(rng.Intn(500))
		env := vmsg.NewEnv(rng, first, int(lookback)+4, lookback)
		var opts []gpbft.Option
		if rng.Intn(2) == 0 {
			opts = append(opts, gpbft.WithMaxCachedInstances(2), gpbft.WithMaxCachedMessagesPerInstance(8))
		}
		d := vmsg.NewDriven(env, opts...)
		cur := gpbft.Instant{ID: first + 2}
		if err := d.DriveTo(gpbft.Instant{ID: cur.ID, Phase: gpbft.QUALITY_PHASE}); err != nil {
			run.Count("driver_failures", 1)
			continue
		}
		base := env.BaseCorpus(cur, 40)
		type item struct {
			m    *gpbft.GMessage
			desc string
			ref  vmsg.Verdict
			why  string
		}
		var corpus []item
		add := func(m *gpbft.GMessage, desc string) {
			ref, why := env.RefValid(m)
			corpus = append(corpus, item{m, desc, ref, why})
		}
		for _, b := range base {
			add(b, "valid")
			for k := 0; k < 4; k++ {
				op := rng.Intn(vmsg.NumOps)
				if c, _ := env.Corrupt(b, op); c != nil {
					add(c, fmt.Sprintf("op%02d", op))
				}
			}
		}
		targets := []gpbft.Instant{
			{ID: cur.ID, Round: 0, Phase: gpbft.PREPARE_PHASE}, {ID: cur.ID, Round: 0, Phase: gpbft.COMMIT_PHASE},
			{ID: cur.ID, Round: 1, Phase: gpbft.CONVERGE_PHASE}, {ID: cur.ID, Round: 1, Phase: gpbft.PREPARE_PHASE},
			{ID: cur.ID, Round: 2, Phase: gpbft.COMMIT_PHASE}, {ID: cur.ID, Round: 1, Phase: gpbft.DECIDE_PHASE},
			{ID: cur.ID, Round: 0, Phase: gpbft.QUALITY_PHASE},
		}
		var wg sync.WaitGroup
		stop := make(chan struct{})
		wg.Add(1)
		go func() {
			defer wg.Done()
			for rep := 0; rep < 3; rep++ {
				for _, tg := range targets {
					select {
					case <-stop:
						return
					default:
					}
					_ = d.DriveTo(tg)
				}
			}
		}()
		var vw sync.WaitGroup
		ctx := context.Background()
		for g := 0; g < 12; g++ {
			vw.Add(1)
			go func(g int) {
				defer vw.Done()
				r := rand.New(rand.NewSource(seed + int64(g)))
				for k := 0; k < 2*len(corpus); k++ {
					it := corpus[r.Intn(len(corpus))]
					_, err := d.P.ValidateMessage(ctx, it.m)
					c := class(err)
					validations.Add(1)
					run.Distinct(fmt.Sprintf("%s|%s|%s", it.desc, it.m.Vote.Phase, c))
					wit := map[string]any{"case": i, "message": describe(it.m), "corruption": it.desc, "real_class": c, "reference": it.ref.String(), "reference_reason": it.why}
					switch {
					case c == "panic" || c == "other":
						run.Violation("C05 ValidateMessage returned a "+c+" error under concurrency", wit)
					case c == "accept" && it.ref == vmsg.Invalid:
						run.Violation(fmt.Sprintf("C05 accepted a message the rules make invalid (concurrent): phase=%s reason=%s", it.m.Vote.Phase, it.why), wit)
					case c == "invalid" && it.ref == vmsg.Valid:
						run.Violation(fmt.Sprintf("C05 valid message branded invalid (concurrent): phase=%s", it.m.Vote.Phase), wit)
					case it.ref == vmsg.Valid && it.m.Vote.Instance == cur.ID+1 && c != "accept":
						run.Violation(fmt.Sprintf("C05 valid next-instance message rejected as %s while the participant moved within the current instance", c), wit)
					}
				}
			}(g)
		}
		vw.Wait()
		close(stop)
		wg.Wait()
		run.Eval(1)
		if i == 0 {
			run.Sample(map[string]any{"case": i, "corpus": len(corpus), "validator_goroutines": 12, "driver_targets": len(targets) * 3})
		}
	}
	run.Count("concurrent_validations", validations.Load())
	rc := run.Finish()
	if rc != 0 {
		t.Fail()
	}
	if rc == 2 {
		os.Exit(2)
	}
}
