package c05

import (
	"context"
	"errors"
	"fmt"
	"math/rand"
	"os"
	"runtime"
	"sync"
	"testing"

	"github.com/filecoin-project/go-f3/gpbft"
	"github.com/filecoin-project/go-f3/verifh/vkit"
	"github.com/filecoin-project/go-f3/verifh/vmsg"
)

func class(err error) string {
	switch {
	case err == nil:
		return "accept"
	case errors.Is(err, gpbft.ErrValidationInvalid):
		return "invalid"
	case errors.Is(err, gpbft.ErrValidationTooOld):
		return "too-old"
	case errors.Is(err, gpbft.ErrValidationNotRelevant):
		return "not-relevant"
	case errors.Is(err, gpbft.ErrValidationNoCommittee):
		return "no-committee"
	}
	var pe *gpbft.PanicError
	if errors.As(err, &pe) {
		return "panic"
	}
	return "other"
}

type item struct {
	m    *gpbft.GMessage
	desc string
}

func genTarget(rng *rand.Rand, inst uint64) gpbft.Instant {
	t := gpbft.Instant{ID: inst, Round: uint64(rng.Intn(4))}
	phases := []gpbft.Phase{gpbft.INITIAL_PHASE, gpbft.QUALITY_PHASE, gpbft.PREPARE_PHASE, gpbft.COMMIT_PHASE, gpbft.DECIDE_PHASE, gpbft.CONVERGE_PHASE}
	t.Phase = phases[rng.Intn(len(phases))]
	switch t.Phase {
	case gpbft.INITIAL_PHASE, gpbft.QUALITY_PHASE:
		t.Round = 0
	case gpbft.CONVERGE_PHASE:
		if t.Round == 0 {
			t.Round = 1
		}
	}
	return t
}

func describe(m *gpbft.GMessage) map[string]any {
	d := map[string]any{"sender": m.Sender, "instance": m.Vote.Instance, "round": m.Vote.Round, "phase": m.Vote.Phase.String(), "value_len": m.Vote.Value.Len(), "ticket_len": len(m.Ticket)}
	if j := m.Justification; j != nil {
		cnt, _ := j.Signers.Count()
		d["justification"] = map[string]any{"instance": j.Vote.Instance, "round": j.Vote.Round, "phase": j.Vote.Phase.String(), "value_len": j.Vote.Value.Len(), "signers": cnt}
	}
	return d
}

func TestCheck(t *testing.T) {
	run := vkit.New("C05", "main", "exploration")
	run.SetRule("each case: a fixture committee window (5-7 members incl. one with zero scaled power and a non-member), a real participant driven with validly signed messages to a random (instance, round, phase), a corpus of valid messages for every step/round/value shape and 36 field-level corruption/recombination operators; each (message, progress, history) presentation is one evaluation, judged by the independent provenance-based reference validator; warm (small caches, repeated and interleaved presentations) vs fresh participant differential. distinct non-trivial = distinct (operator|valid, phase, relevance class, reference verdict, progress phase) combinations actually evaluated")
	run.Assume("signatures are the vsig stand-in; the reference decides signature validity by provenance (semantic content a signature was created over), not by re-deriving signing bytes",
		"relevance follows the validator's documented window (current..current+lookback, DECIDE of previous instance, current/previous round); only 'valid and relevant but rejected' is judged on relevance")
	n := run.N(1500, 60000)
	var mu sync.Mutex
	body := func(i int) {
		seed := run.SubSeed(int64(i))
		rng := rand.New(rand.NewSource(seed))
		lookback := uint64(2 + rng.Intn(4))
		first := uint64(rng.Intn(1000))
		env := vmsg.NewEnv(rng, first, int(lookback)+4, lookback)
		target := genTarget(rng, first+2)
		var opts []gpbft.Option
		smallCache := rng.Intn(2) == 0
		if smallCache {
			opts = append(opts, gpbft.WithMaxCachedInstances(2), gpbft.WithMaxCachedMessagesPerInstance(4))
		}
		warm := vmsg.NewDriven(env, opts...)
		if err := warm.DriveTo(target); err != nil {
			mu.Lock()
			run.Count("driver_failures", 1)
			if run.Counter("driver_failures") < 4 {
				fmt.Printf("driver failure case %d target %v: %v\n", i, target, err)
			}
			mu.Unlock()
			return
		}
		cur := warm.P.Progress().Instant
		base := env.BaseCorpus(cur, 30)
		var corpus []item
		for _, b := range base {
			corpus = append(corpus, item{b, "valid"})
			for k := 0; k < 7; k++ {
				op := rng.Intn(vmsg.NumOps)
				if c, d := env.Corrupt(b, op); c != nil {
					corpus = append(corpus, item{c, fmt.Sprintf("op%02d %s", op, d)})
				}
			}
		}
		if i%4 == 1 {
			// a transient host failure in the warm participant's past: the first request for the next
			// instance's committee fails once (consumed by a throw-away validation below); every later
			// verdict must be what a participant that never saw the failure gives
			warm.Host.CommitteeOutage = map[uint64]int{cur.ID + 1: 1}
			for _, it := range corpus {
				if it.m.Vote.Instance == cur.ID+1 {
					_, _ = warm.P.ValidateMessage(context.Background(), it.m)
					run.Count("transient_committee_outages_primed", 1)
					break
				}
			}
		}
		// warm history: shuffled, some presented twice
		order := rng.Perm(len(corpus))
		order = append(order, order[:len(order)/3]...)
		rng.Shuffle(len(order), func(a, b int) { order[a], order[b] = order[b], order[a] })
		warmClass := make(map[int]string, len(corpus))
		ctx := context.Background()
		for _, ix := range order {
			it := corpus[ix]
			_, err := warm.P.ValidateMessage(ctx, it.m)
			c := class(err)
			ref, why := env.RefValid(it.m)
			rel := vmsg.RefRelevance(cur, lookback, it.m)
			run.Eval(1)
			mu.Lock()
			run.Count("verdict_"+c, 1)
			run.Count("reference_"+ref.String(), 1)
			mu.Unlock()
			run.Distinct(fmt.Sprintf("%s|%s|%s|%s|%s", it.desc, it.m.Vote.Phase, rel, ref, cur.Phase))
			wit := func() map[string]any {
				return map[string]any{"case": i, "progress": fmt.Sprint(cur), "lookback": lookback, "small_cache": smallCache, "message": describe(it.m), "corruption": it.desc,
					"real_class": c, "reference": ref.String(), "reference_reason": why, "relevance": rel, "error": fmt.Sprint(err)}
			}
			if c == "panic" || c == "other" {
				run.Violation("C05 ValidateMessage returned a "+c+" error", wit())
			}
			if c == "accept" && ref == vmsg.Invalid {
				run.Violation(fmt.Sprintf("C05 accepted a message the rules make invalid: phase=%s round=%d reason=%s", it.m.Vote.Phase, it.m.Vote.Round, why), wit())
			}
			if ref == vmsg.Valid && c == "invalid" {
				run.Violation(fmt.Sprintf("C05 valid message branded invalid: phase=%s (%s)", it.m.Vote.Phase, it.desc), wit())
			}
			if ref == vmsg.Valid && rel == vmsg.RelRelevant && c != "accept" {
				run.Violation(fmt.Sprintf("C05 valid and relevant message rejected as %s: phase=%s", c, it.m.Vote.Phase), wit())
			}
			if prev, ok := warmClass[ix]; ok && prev != c {
				run.Violation(fmt.Sprintf("C05 verdict changed between two presentations of the same message at the same progress (%s then %s)", prev, c), wit())
			}
			warmClass[ix] = c
		}
		// fresh participant at the same progress, each message once, reverse order
		fresh := vmsg.NewDriven(env)
		if err := fresh.DriveTo(target); err != nil {
			return
		}
		for ix := len(corpus) - 1; ix >= 0; ix-- {
			it := corpus[ix]
			_, err := fresh.P.ValidateMessage(ctx, it.m)
			c := class(err)
			run.Eval(1)
			if c != warmClass[ix] {
				ref, why := env.RefValid(it.m)
				run.Violation(fmt.Sprintf("C05 history-dependent verdict: warm participant says %s, fresh participant says %s (phase=%s)", warmClass[ix], c, it.m.Vote.Phase),
					map[string]any{"case": i, "progress": fmt.Sprint(cur), "message": describe(it.m), "corruption": it.desc, "reference": ref.String(), "reference_reason": why})
			}
		}
		// cold participants for a sample
		for k := 0; k < 6; k++ {
			ix := rng.Intn(len(corpus))
			cold := vmsg.NewDriven(env)
			if err := cold.DriveTo(target); err != nil {
				break
			}
			_, err := cold.P.ValidateMessage(ctx, corpus[ix].m)
			run.Eval(1)
			if c := class(err); c != warmClass[ix] {
				run.Violation(fmt.Sprintf("C05 history-dependent verdict: warm participant says %s, cold participant says %s (phase=%s)", warmClass[ix], c, corpus[ix].m.Vote.Phase),
					map[string]any{"case": i, "progress": fmt.Sprint(cur), "message": describe(corpus[ix].m), "corruption": corpus[ix].desc})
			}
		}
		mu.Lock()
		run.Count("progress_"+cur.Phase.String(), 1)
		mu.Unlock()
		if i < 2 {
			run.Sample(map[string]any{"case": i, "progress": fmt.Sprint(cur), "lookback": lookback, "corpus": len(corpus), "first_messages": []any{describe(corpus[0].m), corpus[1].desc, describe(corpus[1].m)}})
		}
	}
	if run.Case >= 0 {
		body(int(run.Case))
	} else {
		vkit.Parallel(n, runtime.GOMAXPROCS(0), body)
	}
	if run.Case < 0 && run.Counter("driver_failures")*5 > int64(n) {
		run.Inconclusive("harness-error")
	}
	rc := run.Finish()
	if rc != 0 {
		t.Fail()
	}
	if rc == 2 {
		os.Exit(2)
	}
}
