package c17

import (
	"bytes"
	"context"
	"fmt"
	"math/bits"
	"os"
	"os/exec"
	"path/filepath"
	"regexp"
	"runtime"
	"strconv"
	"strings"
	"sync"
	"syscall"
	"testing"
	"time"

	"github.com/filecoin-project/go-f3/certstore"
	"github.com/filecoin-project/go-f3/verifh/vkit"
	"github.com/filecoin-project/go-f3/verifh/vstore"
)

// Huge declared block lengths are imported in a child process (this very test
// binary re-executed with -test.run ^TestHugeLengthChild$): an importer that
// allocates the declared length dies with a Go fatal error ("out of memory"),
// which no recover() can turn into an observation, and the outcome would depend
// on the host's overcommit policy. The child therefore limits its own address
// space (RLIMIT_AS) to hugeASLimit before importing, which makes the outcome
// deterministic: a declared length above the limit cannot be allocated.

const (
	hugeChildEnv = "VERIF_C17_HUGE_FILE"
	hugeASLimit  = 4 << 30
)

// childCase is one corrupted snapshot that must be imported in a child process.
type childCase struct {
	caseIdx  int
	seed     int64
	store    string
	class    string // huge-length | garbage-varint
	detail   string
	declared uint64 // the declared block length that exceeds the stream
	snap     []byte
}

func pow2(v uint64) string {
	if v != 0 && v&(v-1) == 0 {
		return fmt.Sprintf("2^%d", bits.TrailingZeros64(v))
	}
	if v == ^uint64(0) {
		return "2^64-1"
	}
	return fmt.Sprintf("2^%d..2^%d", bits.Len64(v)-1, bits.Len64(v))
}

// TestHugeLengthChild is the child side: import the snapshot in the file named
// by the environment and print one result line.
func TestHugeLengthChild(t *testing.T) {
	path := os.Getenv(hugeChildEnv)
	if path == "" {
		t.Skip("only run as a child of TestCheck")
	}
	snap, err := os.ReadFile(path)
	if err != nil {
		fmt.Printf("C17HUGE harness-error read: %v\n", err)
		return
	}
	lim := syscall.Rlimit{Cur: hugeASLimit, Max: hugeASLimit}
	if err := syscall.Setrlimit(syscall.RLIMIT_AS, &lim); err != nil {
		fmt.Printf("C17HUGE harness-error setrlimit: %v\n", err)
		return
	}
	var before, after runtime.MemStats
	runtime.ReadMemStats(&before)
	fmt.Printf("C17HUGE start len=%d\n", len(snap))
	var ierr error
	var panicked any
	func() {
		defer func() { panicked = recover() }()
		ierr = certstore.ImportSnapshotToDatastore(context.Background(), bytes.NewReader(snap), vstore.NewCrashDS(), nil)
	}()
	runtime.ReadMemStats(&after)
	grown := int64(after.TotalAlloc) - int64(before.TotalAlloc)
	switch {
	case panicked != nil:
		fmt.Printf("C17HUGE result=panic allocated=%d msg=%v\n", grown, panicked)
	case ierr == nil:
		fmt.Printf("C17HUGE result=accepted allocated=%d\n", grown)
	default:
		fmt.Printf("C17HUGE result=rejected allocated=%d msg=%v\n", grown, ierr)
	}
}

var hugeResultRe = regexp.MustCompile(`(?m)^C17HUGE result=(\w+) allocated=(-?\d+)(?: msg=(.*))?$`)

// runChildCases runs every case in its own child and classifies the outcome.
func runChildCases(run *vkit.Run, cases []childCase) {
	if len(cases) == 0 {
		return
	}
	dir, cleanup := run.Scratch()
	defer cleanup()
	exe, err := os.Executable()
	if err != nil {
		fmt.Printf("c17: cannot find own executable: %v\n", err)
		run.Inconclusive("harness-error")
		return
	}
	var mu sync.Mutex
	vkit.Parallel(len(cases), min(8, runtime.GOMAXPROCS(0)), func(i int) {
		hc := cases[i]
		file := filepath.Join(dir, fmt.Sprintf("huge-%d.bin", i))
		if err := os.WriteFile(file, hc.snap, 0o644); err != nil {
			fmt.Printf("c17: %v\n", err)
			run.Inconclusive("harness-error")
			return
		}
		ctx, cancel := context.WithTimeout(context.Background(), 5*time.Minute) // watchdog only: firing is inconclusive
		defer cancel()
		cmd := exec.CommandContext(ctx, exe, "-test.run", "^TestHugeLengthChild$", "-test.v", "-test.timeout", "0")
		cmd.Env = append(os.Environ(), hugeChildEnv+"="+file, "GOMAXPROCS=2", "GOTRACEBACK=single")
		out, runErr := cmd.CombinedOutput()
		_ = os.Remove(file)
		txt := string(out)
		mu.Lock()
		defer mu.Unlock()
		run.Count("imports", 1)
		run.Count("corrupted_snapshots", 1)
		run.Count("corrupted_"+hc.class, 1)
		run.Count("child_processes", 1)
		w := snapWitness(map[string]any{"case": hc.caseIdx, "case_seed": hc.seed, "store": hc.store, "class": hc.class,
			"detail": hc.detail, "child_address_space_limit": hugeASLimit}, hc.snap)
		tail := txt
		if len(tail) > 1500 {
			tail = tail[:1500]
		}
		m := hugeResultRe.FindStringSubmatch(txt)
		switch {
		case ctx.Err() != nil:
			fmt.Printf("c17: huge-length child exceeded the watchdog\n")
			run.Inconclusive("watchdog")
		case strings.Contains(txt, "C17HUGE harness-error") || !strings.Contains(txt, "C17HUGE start"):
			fmt.Printf("c17: huge-length child failed before importing: %v\n%s\n", runErr, tail)
			run.Inconclusive("harness-error")
		case m == nil:
			// the child died inside the import
			what := "exit: " + fmt.Sprint(runErr)
			if mm := regexp.MustCompile(`(?m)^fatal error: (.*)$`).FindStringSubmatch(txt); mm != nil {
				what = "fatal error: " + mm[1]
			}
			w["child_output"] = tail
			run.Count("died_"+hc.class, 1)
			run.Violation(fmt.Sprintf("C17 import dies instead of rejecting a declared block length beyond the stream: class=%s declared=%s %s (child address space limited to 4 GiB)", hc.class, pow2(hc.declared), what), w)
		case m[1] == "panic":
			w["panic"] = m[3]
			run.Count("panicked_"+hc.class, 1)
			run.Violation(fmt.Sprintf("C17 import panics instead of rejecting a declared block length beyond the stream: class=%s declared=%s panic=%s", hc.class, pow2(hc.declared), canon(m[3])), w)
		case m[1] == "accepted":
			run.Count("accepted_"+hc.class, 1)
			run.Violation(fmt.Sprintf("C17 corrupted snapshot accepted: class=%s declared=%s import=public manifest=none", hc.class, pow2(hc.declared)), w)
		default:
			run.Count("rejected_"+hc.class, 1)
			run.Count("rejected_snapshots", 1)
			if n, _ := strconv.ParseInt(m[2], 10, 64); n >= 1<<30 {
				run.Count("rejected_"+hc.class+"_after_allocating_1GiB_or_more", 1)
			}
		}
	})
}
