package c17

import (
	"bytes"
	"encoding/binary"
	"errors"
	"fmt"

	"github.com/filecoin-project/go-f3/certs"
	"github.com/filecoin-project/go-f3/certstore"
	"github.com/filecoin-project/go-f3/gpbft"
	"github.com/filecoin-project/go-f3/verifh/vstore"
	"golang.org/x/crypto/blake2b"
)

// The harness's own reading of the snapshot format (FRC-0108), independent of
// the repository's reader: the stream is a sequence of blocks, each an unsigned
// LEB128 ("uvarint") length followed by that many bytes; block 0 is the CBOR
// header {version, first instance, latest instance, initial power table},
// blocks 1.. are the CBOR finality certificates of first, first+1, ... latest.

// block is one length-prefixed block of a snapshot.
type block struct {
	off     int    // offset of the length prefix in the stream
	prefix  []byte // the length prefix as found
	payload []byte
}

func (b block) end() int { return b.off + len(b.prefix) + len(b.payload) }

// parseBlocks splits a snapshot into its blocks. It fails on anything that is
// not a clean sequence of complete blocks with minimally encoded lengths.
func parseBlocks(snap []byte) ([]block, error) {
	var out []block
	for off := 0; off < len(snap); {
		n, w := binary.Uvarint(snap[off:])
		if w <= 0 {
			return nil, fmt.Errorf("bad length prefix at offset %d", off)
		}
		if !bytes.Equal(uvarint(n), snap[off:off+w]) {
			return nil, fmt.Errorf("length prefix at offset %d is not minimally encoded", off)
		}
		if n > uint64(len(snap)-off-w) {
			return nil, fmt.Errorf("block at offset %d declares %d bytes, %d left", off, n, len(snap)-off-w)
		}
		out = append(out, block{off: off, prefix: snap[off : off+w], payload: snap[off+w : off+w+int(n)]})
		off += w + int(n)
	}
	if len(out) == 0 {
		return nil, errors.New("empty snapshot")
	}
	return out, nil
}

func uvarint(n uint64) []byte {
	return binary.AppendUvarint(nil, n)
}

// frame returns the block encoding of payload.
func frame(payload []byte) []byte {
	return append(uvarint(uint64(len(payload))), payload...)
}

// join builds a stream from payloads (each framed with its true length).
func join(payloads ...[]byte) []byte {
	var out []byte
	for _, p := range payloads {
		out = append(out, frame(p)...)
	}
	return out
}

func payloads(bs []block) [][]byte {
	out := make([][]byte, len(bs))
	for i, b := range bs {
		out[i] = b.payload
	}
	return out
}

func decodeHeader(p []byte) (*certstore.SnapshotHeader, error) {
	var h certstore.SnapshotHeader
	if err := h.UnmarshalCBOR(bytes.NewReader(p)); err != nil {
		return nil, err
	}
	return &h, nil
}

func encodeHeader(h *certstore.SnapshotHeader) []byte {
	var buf bytes.Buffer
	if err := h.MarshalCBOR(&buf); err != nil {
		panic(fmt.Sprintf("c17: cannot encode header: %v", err))
	}
	return buf.Bytes()
}

func decodeCert(p []byte) (*certs.FinalityCertificate, error) {
	var c certs.FinalityCertificate
	if err := c.UnmarshalCBOR(bytes.NewReader(p)); err != nil {
		return nil, err
	}
	return &c, nil
}

// expectedCID is the CID an export of exactly these bytes must return, built by
// hand: CIDv1 (0x01), codec raw (0x55), multihash blake2b-256 (code 0xb220,
// length 32) of the bytes.
func expectedCID(snap []byte) []byte {
	sum := blake2b.Sum256(snap)
	out := []byte{0x01, 0x55}
	out = binary.AppendUvarint(out, 0xb220)
	out = append(out, 32)
	return append(out, sum[:]...)
}

// derivation is what the reference table algebra says about a snapshot's
// header table and certificate deltas.
type derivation struct {
	applyErrAt int // index of the first certificate whose delta cannot be applied, -1 if none
	// mismatch[k] is true when the table derived for instance first+k+1 (after
	// certificate k) is not the one certificate k commits to.
	mismatch []bool
	tables   []gpbft.PowerEntries // tables[k] validates first+k (as far as derivable)
}

// derive applies the deltas of cs to initial with the reference algebra and
// compares every derived table with the certificate's commitment.
func derive(initial gpbft.PowerEntries, cs []*certs.FinalityCertificate) derivation {
	// a table is a set of members; its canonical order (power descending, then id)
	// is part of what a commitment covers, whatever order the header lists them in
	cur := vstore.CloneTable(initial)
	vstore.SortTable(cur)
	d := derivation{applyErrAt: -1, mismatch: make([]bool, len(cs)), tables: []gpbft.PowerEntries{cur}}
	for k, c := range cs {
		next, err := vstore.ApplyDelta(cur, c.PowerTableDelta)
		if err != nil {
			d.applyErrAt = k
			return d
		}
		d.mismatch[k] = vstore.TableCID(next) != c.SupplementalData.PowerTable
		d.tables = append(d.tables, next)
		cur = next
	}
	return d
}

// anyMismatch reports whether the deltas fail to reproduce a committed table.
func (d derivation) anyMismatch() bool {
	if d.applyErrAt >= 0 {
		return true
	}
	for _, m := range d.mismatch {
		if m {
			return true
		}
	}
	return false
}

// oversizedFrame walks a (possibly mis-framed) stream frame by frame, the way
// any reader of the format has to, and returns the first declared length that
// exceeds what is left of the stream (0 if there is none before a malformed
// prefix or the end).
func oversizedFrame(s []byte) uint64 {
	for off := 0; off < len(s); {
		n, w := binary.Uvarint(s[off:])
		if w <= 0 {
			return 0
		}
		if n > uint64(len(s)-off-w) {
			return n
		}
		off += w + int(n)
	}
	return 0
}
