// Package c17 is the runtime monitor for property C17 (snapshot export/import
// reproduces the store; malformed snapshots are rejected).
//
// Round trip: seeded random certificate stores (vstore generator: first
// instance 0 and > 0, evolving power tables, 1-300 certificates, checkpoint
// frequency of the exporter lowered through the C09 accessor or left at 1440
// with the first instance placed next to a multiple of 1440) are exported at
// every end point (sampled for large stores); the CID returned by the export is
// recomputed by hand from the exported bytes; the bytes are parsed with the
// harness's own reader; they are imported into an EMPTY datastore (public
// ImportSnapshotToDatastore with and without a manifest, and the package's
// testing entry point with a lowered checkpoint frequency), the target is opened
// with OpenStore and OpenOrCreateStore and its full observable state is
// compared with the exporter's up to the snapshot's latest instance (and with
// the reference model); the imported store is exported again and must give the
// same bytes.
//
// Rejection: every corruption class the property lists is applied to the
// exported bytes (truncation at every byte / every block boundary +-3 and
// sampled offsets, dropped / swapped / duplicated blocks, surplus certificates,
// edited header fields with and without a manifest, manifests that disagree,
// altered deltas alone and compensated, garbage length prefixes, huge declared
// lengths in a child process) and the import must return an error.
package c17

import (
	"bufio"
	"bytes"
	"context"
	"encoding/hex"
	"errors"
	"fmt"
	"io"
	"math"
	"math/big"
	"math/rand"
	"os"
	"runtime"
	"sort"
	"strings"
	"sync"
	"testing"
	"time"

	"github.com/filecoin-project/go-f3/certs"
	"github.com/filecoin-project/go-f3/certstore"
	"github.com/filecoin-project/go-f3/gpbft"
	"github.com/filecoin-project/go-f3/manifest"
	"github.com/filecoin-project/go-f3/verifh/vkit"
	"github.com/filecoin-project/go-f3/verifh/vstore"
)

const realFrequency = 1440

// lowered checkpoint frequencies; all divide 1440, so a store written with one of
// them can be opened by the open functions (which derive the head table with the
// built-in 1440) wherever it lies.
var loweredFreqs = []uint64{2, 3, 4, 5, 6, 8, 9, 10, 12, 15, 16, 20, 24}

// ---------- import ----------

type importMode struct {
	f       uint64 // 0: public ImportSnapshotToDatastore (built-in 1440); else testing entry point with frequency f
	man     *manifest.Manifest
	manDesc string
	stream  int // 0: bytes.Reader; 1: buffered reader over a source that yields one byte per Read
}

func (m importMode) freq() uint64 {
	if m.f == 0 {
		return realFrequency
	}
	return m.f
}

func (m importMode) name() string {
	if m.f == 0 {
		return "public"
	}
	return "lowered-frequency"
}

func (m importMode) String() string {
	md := m.manDesc
	if md == "" {
		md = "none"
	}
	return fmt.Sprintf("import=%s manifest=%s", m.name(), md)
}

type oneByteReader struct{ r io.Reader }

func (o oneByteReader) Read(p []byte) (int, error) {
	if len(p) == 0 {
		return 0, nil
	}
	return o.r.Read(p[:1])
}

type importResult struct {
	err      error
	panicked any
	ds       *vstore.CrashDS
}

func doImport(ctx context.Context, snap []byte, mode importMode) (res importResult) {
	res.ds = vstore.NewCrashDS()
	var rd certstore.SnapshotReader = bytes.NewReader(snap)
	if mode.stream == 1 {
		rd = bufio.NewReaderSize(oneByteReader{bytes.NewReader(snap)}, 16)
	}
	defer func() {
		if r := recover(); r != nil {
			res.panicked = r
		}
	}()
	if mode.f == 0 {
		res.err = certstore.ImportSnapshotToDatastore(ctx, rd, res.ds, mode.man)
	} else {
		res.err = certstore.VerifC17ImportWithFrequency(ctx, rd, res.ds, mode.man, mode.f)
	}
	return res
}

// ---------- one store ----------

type storeCase struct {
	run  *vkit.Run
	idx  int
	seed int64
	g    *vstore.Gen
	rng  *rand.Rand
	ctx  context.Context

	kind    string // small | medium | large | real-long
	first   uint64
	n       int
	fExp    uint64 // exporter's lowered frequency, 0 = real
	changes int
	chain   *vstore.Chain
	model   *vstore.Model
	src     *certstore.Store

	counts  map[string]int64
	failed  bool
	unknown int // violations of this store not matched by a known-finding entry
}

func (c *storeCase) count(k string, n int64) { c.counts[k] += n }

func (c *storeCase) latest() uint64 { return c.first + uint64(c.n) - 1 }

func (c *storeCase) desc() string {
	return fmt.Sprintf("store{kind=%s first=%d certs=%d exporter_frequency=%d table_changes=%d initial_members=%d}",
		c.kind, c.first, c.n, c.effExp(), c.changes, len(c.chain.Tables[0]))
}

func (c *storeCase) effExp() uint64 {
	if c.fExp == 0 {
		return realFrequency
	}
	return c.fExp
}

func (c *storeCase) violate(sig string, w map[string]any) {
	if w == nil {
		w = map[string]any{}
	}
	w["case"] = c.idx
	w["case_seed"] = c.seed
	w["store"] = c.desc()
	vioMu.Lock()
	before := c.run.Violations()
	c.run.Violation(sig, w)
	if c.run.Violations() > before { // not absorbed by a known-finding entry
		c.unknown++
	}
	vioMu.Unlock()
	c.count("violations_raised", 1)
}

// vioMu serialises Violation calls of the store cases so that each case can
// tell whether its report was absorbed by a known-finding entry.
var vioMu sync.Mutex

func snapWitness(w map[string]any, snap []byte) map[string]any {
	w["snapshot_len"] = len(snap)
	if len(snap) <= 4096 {
		w["snapshot_hex"] = hex.EncodeToString(snap)
	} else {
		w["snapshot_head_hex"] = hex.EncodeToString(snap[:256])
		w["snapshot_blake2b_cid_bytes"] = hex.EncodeToString(expectedCID(snap))
	}
	return w
}

func pickFirst(rng *rand.Rand) uint64 {
	switch rng.Intn(8) {
	case 0, 1:
		return 0
	case 2:
		return 1 + uint64(rng.Intn(60))
	case 3, 4:
		return realFrequency*uint64(1+rng.Intn(4)) - 1 - uint64(rng.Intn(20)) // straddles a multiple of 1440
	case 5:
		return realFrequency * uint64(1+rng.Intn(3)) // exactly on a multiple
	case 6:
		return 1<<40 + uint64(rng.Int63n(1<<40))
	default:
		return 1<<62 + uint64(rng.Int63n(1<<40))
	}
}

// crosses reports whether a multiple of f lies in (lo, hi].
func crosses(lo, hi, f uint64) bool {
	return hi/f > lo/f
}

func newStoreCase(run *vkit.Run, idx int, realLong bool) *storeCase {
	seed := run.SubSeed(int64(idx))
	g := vstore.NewGen(seed)
	c := &storeCase{run: run, idx: idx, seed: seed, g: g, rng: g.Rand(), ctx: context.Background(), counts: map[string]int64{}}
	rng := c.rng
	switch x := rng.Intn(100); {
	case realLong:
		c.kind = "real-long"
		c.n = 1445 + rng.Intn(300)
		if rng.Intn(3) == 0 {
			c.n = 2885 + rng.Intn(100)
		}
	case x < 35:
		c.kind = "small"
		c.n = 1 + rng.Intn(6)
	case x < 70:
		c.kind = "medium"
		c.n = 7 + rng.Intn(54)
	default:
		c.kind = "large"
		c.n = 61 + rng.Intn(240)
	}
	c.first = pickFirst(rng)
	if realLong {
		c.first = uint64(rng.Intn(50))
		if rng.Intn(2) == 0 {
			c.first = realFrequency*uint64(1+rng.Intn(3)) + uint64(rng.Intn(1000))
		}
	}
	if !realLong && rng.Intn(10) < 7 {
		c.fExp = loweredFreqs[rng.Intn(len(loweredFreqs))]
	}
	changeProb := []float64{0, 0.1, 0.3, 0.6, 1}[rng.Intn(5)]
	if c.kind == "real-long" {
		changeProb = []float64{0.05, 0.3}[rng.Intn(2)]
	}
	c.chain = g.NewChain(c.first, g.Table(1+rng.Intn(8)))
	g.Extend(c.chain, c.n, changeProb)
	for k := 0; k < c.n; k++ {
		if len(c.chain.Certs[k].PowerTableDelta) > 0 {
			c.changes++
		}
	}
	c.model = vstore.NewModel()
	if err := c.model.Create(c.first, c.chain.Tables[0]); err != nil {
		panic(err)
	}
	for _, cert := range c.chain.Certs {
		if out, why := c.model.Put(cert); out != vstore.PutAccept {
			panic("c17: generator produced a certificate the reference model refuses: " + why)
		}
	}
	return c
}

// build creates the exporter's store.
func (c *storeCase) build() bool {
	ds := vstore.NewCrashDS()
	var st *certstore.Store
	var err error
	if c.rng.Intn(2) == 0 {
		st, err = certstore.CreateStore(c.ctx, ds, c.first, c.chain.Tables[0])
	} else {
		st, err = certstore.OpenOrCreateStore(c.ctx, ds, c.first, c.chain.Tables[0])
	}
	if err != nil {
		c.violate("C17 exporter: store cannot be created", map[string]any{"error": err.Error()})
		return false
	}
	if c.fExp != 0 {
		certstore.VerifC09SetPowerTableFrequency(st, c.fExp)
	}
	for _, cert := range c.chain.Certs {
		if err := st.Put(c.ctx, cert); err != nil {
			c.violate("C17 exporter: valid certificate refused by Put", map[string]any{"instance": cert.GPBFTInstance, "error": err.Error()})
			return false
		}
	}
	c.src = st
	c.count("stores", 1)
	c.count("stores_"+c.kind, 1)
	c.count("certificates_stored", int64(c.n))
	if c.first > 0 {
		c.count("stores_first_instance_nonzero", 1)
	} else {
		c.count("stores_first_instance_zero", 1)
	}
	if c.changes > 0 {
		c.count("stores_with_evolving_tables", 1)
	}
	if crosses(c.first, c.latest()+1, realFrequency) {
		c.count("stores_crossing_real_1440_boundary", 1)
	}
	return true
}

// tableList picks the instances whose power tables are compared for a snapshot
// ending at L imported with frequency f: nil (= all of first..L+1) for short
// ones, else the ends, everything next to a checkpoint of either frequency
// (capped) and a few random ones.
func (c *storeCase) tableList(L uint64, f uint64) []uint64 {
	m := L - c.first + 1
	if m <= 60 {
		return nil
	}
	set := map[uint64]struct{}{c.first: {}, c.first + 1: {}, L: {}, L + 1: {}}
	var near []uint64
	for _, fr := range []uint64{f, c.effExp(), realFrequency} {
		for b := (c.first/fr + 1) * fr; b <= L+1 && b > c.first; b += fr {
			near = append(near, b-1, b, b+1)
			if b > math.MaxUint64-fr {
				break
			}
		}
	}
	c.rng.Shuffle(len(near), func(i, j int) { near[i], near[j] = near[j], near[i] })
	if len(near) > 45 {
		near = near[:45]
	}
	for _, i := range near {
		if i >= c.first && i <= L+1 {
			set[i] = struct{}{}
		}
	}
	for k := 0; k < 10; k++ {
		set[c.first+uint64(c.rng.Int63n(int64(m+1)))] = struct{}{}
	}
	out := make([]uint64, 0, len(set))
	for i := range set {
		out = append(out, i)
	}
	sort.Slice(out, func(i, j int) bool { return out[i] < out[j] })
	return out
}

// cut restricts an observation of the exporter to what lies at or below L.
func cut(o *vstore.Observation, first, L uint64) *vstore.Observation {
	m := int(L - first + 1)
	out := &vstore.Observation{First: first, Tables: map[uint64][]byte{}, Errors: o.Errors}
	if len(o.Certs) < m || len(o.Range) < m {
		out.Errors = append(append([]string(nil), o.Errors...), fmt.Sprintf("exporter shows %d/%d certificates, %d needed", len(o.Certs), len(o.Range), m))
		return out
	}
	out.HasLatest, out.LatestInstance, out.Latest = true, L, o.Certs[m-1]
	out.Certs, out.Range = o.Certs[:m], o.Range[:m]
	for i, t := range o.Tables {
		if i <= L+1 {
			out.Tables[i] = t
		}
	}
	return out
}

// modelObs is the reference model's view of the history up to L.
func (c *storeCase) modelObs(L uint64, ti []uint64) *vstore.Observation {
	o := &vstore.Observation{First: c.first, HasLatest: true, LatestInstance: L, Latest: c.model.CertBytes(L), Tables: map[uint64][]byte{}}
	for i := c.first; i <= L; i++ {
		o.Certs = append(o.Certs, c.model.CertBytes(i))
	}
	o.Range = o.Certs
	if ti == nil {
		for i := c.first; i <= L+1; i++ {
			o.Tables[i] = c.model.TableBytes(i)
		}
	} else {
		for _, i := range ti {
			if i >= c.first && i <= L+1 {
				o.Tables[i] = c.model.TableBytes(i)
			}
		}
	}
	return o
}

func canon(d string) string {
	out := make([]byte, 0, len(d))
	for i := 0; i < len(d); i++ {
		if d[i] >= '0' && d[i] <= '9' {
			if len(out) == 0 || out[len(out)-1] != '#' {
				out = append(out, '#')
			}
			continue
		}
		out = append(out, d[i])
	}
	if len(out) > 140 {
		out = out[:140]
	}
	return string(out)
}

// export exports the exporter's store at L and checks digest, header and framing.
func (c *storeCase) export(L uint64) (snap []byte, blocks []block, ok bool) {
	var buf bytes.Buffer
	id, hdr, err := c.src.ExportSnapshot(c.ctx, L, &buf)
	c.count("exports", 1)
	if err != nil {
		c.violate("C17 export fails for an end point within the store", map[string]any{"end_point": L, "error": err.Error()})
		return nil, nil, false
	}
	snap = buf.Bytes()
	w := func() map[string]any { return snapWitness(map[string]any{"end_point": L}, snap) }
	if L == c.latest() {
		var buf2 bytes.Buffer
		id2, _, err := c.src.ExportLatestSnapshot(c.ctx, &buf2)
		c.count("exports", 1)
		if err != nil || !bytes.Equal(buf2.Bytes(), snap) || id2 != id {
			c.violate("C17 ExportLatestSnapshot differs from ExportSnapshot(latest)", w())
			return nil, nil, false
		}
	}
	c.count("export_digests_checked", 1)
	if !id.Defined() || !bytes.Equal(id.Bytes(), expectedCID(snap)) {
		wm := w()
		wm["returned_cid"] = id.String()
		wm["expected_cid_bytes_hex"] = hex.EncodeToString(expectedCID(snap))
		c.violate("C17 export digest: returned CID is not the blake2b-256 CID (v1, raw) of the exported bytes", wm)
		return nil, nil, false
	}
	blocks, err = parseBlocks(snap)
	if err != nil {
		wm := w()
		wm["error"] = err.Error()
		c.violate("C17 exported bytes are not a sequence of length-prefixed blocks: "+canon(err.Error()), wm)
		return nil, nil, false
	}
	m := int(L - c.first + 1)
	if len(blocks) != m+1 {
		c.violate(fmt.Sprintf("C17 exported snapshot holds %s certificate blocks than first..end point", map[bool]string{true: "more", false: "fewer"}[len(blocks) > m+1]), w())
		return nil, nil, false
	}
	h, err := decodeHeader(blocks[0].payload)
	if err != nil {
		c.violate("C17 exported header block does not decode", w())
		return nil, nil, false
	}
	for _, hh := range []*certstore.SnapshotHeader{h, hdr} {
		if hh == nil || hh.FirstInstance != c.first || hh.LatestInstance != L || !bytes.Equal(vstore.TableBytes(hh.InitialPowerTable), c.model.TableBytes(c.first)) {
			c.violate("C17 export header (in the bytes or as returned) disagrees with the exporter's first instance / end point / initial table", w())
			return nil, nil, false
		}
	}
	for k := 0; k < m; k++ {
		if !bytes.Equal(blocks[1+k].payload, c.model.CertBytes(c.first+uint64(k))) {
			wm := w()
			wm["instance"] = c.first + uint64(k)
			c.violate("C17 exported certificate block differs from the stored certificate", wm)
			return nil, nil, false
		}
	}
	return snap, blocks, true
}

func (c *storeCase) agreeingManifest(withTable bool) *manifest.Manifest {
	m := &manifest.Manifest{InitialInstance: c.first}
	if withTable {
		m.InitialPowerTable = vstore.TableCID(c.chain.Tables[0])
	}
	return m
}

// roundTrip imports an honest snapshot ending at L and compares.
func (c *storeCase) roundTrip(L uint64, snap []byte, mode importMode) {
	res := doImport(c.ctx, snap, mode)
	c.count("imports", 1)
	c.count("imports_honest_"+mode.name(), 1)
	w := func() map[string]any {
		return snapWitness(map[string]any{"end_point": L, "import": mode.String(), "import_frequency": mode.freq()}, snap)
	}
	if res.panicked != nil {
		wm := w()
		wm["panic"] = fmt.Sprint(res.panicked)
		c.violate("C17 round trip: import of an honest export panics ("+mode.String()+")", wm)
		return
	}
	if res.err != nil {
		wm := w()
		wm["error"] = res.err.Error()
		c.violate("C17 round trip: honest export refused by import ("+mode.String()+"): "+canon(res.err.Error()), wm)
		return
	}
	ti := c.tableList(L, mode.freq())
	want := cut(vstore.ObserveAt(c.ctx, c.src, c.first, ti), c.first, L)
	ref := c.modelObs(L, ti)
	if d := want.Diff(ref); d != "" {
		wm := w()
		wm["diff"] = d
		c.violate("C17 exporter's own state disagrees with the reference model: "+canon(d), wm)
		return
	}
	for variant := 0; variant < 2; variant++ {
		var st *certstore.Store
		var err error
		if variant == 0 {
			st, err = certstore.OpenStore(c.ctx, res.ds)
		} else {
			// also confirms first instance and initial table: it refuses other values
			st, err = certstore.OpenOrCreateStore(c.ctx, res.ds, c.first, c.chain.Tables[0])
		}
		vn := []string{"OpenStore", "OpenOrCreateStore(first, initial table of the exporter)"}[variant]
		if err != nil {
			wm := w()
			wm["error"] = err.Error()
			c.violate("C17 round trip: imported datastore does not open with "+vn+": "+canon(err.Error()), wm)
			return
		}
		if mode.f != 0 {
			certstore.VerifC09SetPowerTableFrequency(st, mode.f)
		}
		got := vstore.ObserveAt(c.ctx, st, c.first, ti)
		if d := got.Diff(want); d != "" {
			wm := w()
			wm["diff"], wm["imported"], wm["exporter_up_to_end_point"] = d, got.Summary(), want.Summary()
			c.violate("C17 round trip: imported store differs from the exporter ("+mode.String()+"): "+canon(d), wm)
			return
		}
		if c.first > 0 {
			if _, err := st.GetPowerTable(c.ctx, c.first-1); err == nil {
				c.violate("C17 round trip: imported store serves a power table below the exporter's first instance", w())
				return
			}
		}
		if variant == 0 {
			var again bytes.Buffer
			id, _, err := st.ExportLatestSnapshot(c.ctx, &again)
			c.count("exports", 1)
			c.count("re_exports_compared", 1)
			if err != nil || !bytes.Equal(again.Bytes(), snap) || !bytes.Equal(id.Bytes(), expectedCID(snap)) {
				wm := w()
				wm["error"] = fmt.Sprint(err)
				c.violate("C17 round trip: exporting the imported store does not reproduce the snapshot", wm)
				return
			}
		}
	}
	c.count("round_trips_compared", 1)
	if ti == nil {
		c.count("power_tables_compared", int64(L-c.first+2))
	} else {
		c.count("power_tables_compared", int64(len(ti)))
	}
	if crosses(c.first, L+1, mode.freq()) {
		c.count("round_trips_crossing_importer_checkpoint", 1)
		if mode.f == 0 {
			c.count("round_trips_crossing_real_1440_checkpoint", 1)
		}
	}
}

// ---------- corruption ----------

// corruptor applies the rejection oracle to one exported snapshot.
type corruptor struct {
	c      *storeCase
	L      uint64
	snap   []byte
	blocks []block // [0] header, [1..m] certificates
	m      int
	hdr    *certstore.SnapshotHeader
	certs  []*certs.FinalityCertificate // decoded honest certificates
	child  []childCase                  // cases that must run in a child process
}

func (c *storeCase) randomMode(small bool) importMode {
	var mode importMode
	if c.rng.Intn(2) == 0 {
		mode.f = loweredFreqs[c.rng.Intn(len(loweredFreqs))]
	}
	switch c.rng.Intn(4) {
	case 0:
		mode.man, mode.manDesc = c.agreeingManifest(true), "agreeing"
	case 1:
		mode.man, mode.manDesc = c.agreeingManifest(false), "agreeing-instance-only"
	}
	if small && c.rng.Intn(3) == 0 {
		mode.stream = 1
	}
	return mode
}

func leftState(ctx context.Context, ds *vstore.CrashDS) string {
	st, err := certstore.OpenStore(ctx, ds)
	switch {
	case errors.Is(err, certstore.ErrNotInitialized):
		return "no_store"
	case err != nil:
		return "unopenable_store"
	case st.Latest() != nil:
		return "store_with_usable_latest_pointer"
	}
	return "store_without_latest_pointer"
}

// expectReject imports a corrupted snapshot of a must-reject class.
// acceptedSig, if non-nil, gives the violation signature for an accepted import.
func (k *corruptor) expectReject(class, detail string, bad []byte, mode importMode, acceptedSig func(res importResult) (string, map[string]any)) bool {
	c := k.c
	res := doImport(c.ctx, bad, mode)
	c.count("imports", 1)
	c.count("corrupted_"+class, 1)
	c.count("corrupted_snapshots", 1)
	w := func() map[string]any {
		return snapWitness(map[string]any{"class": class, "detail": detail, "import": mode.String(), "import_frequency": mode.freq(),
			"honest_end_point": k.L, "honest_snapshot_len": len(k.snap), "certificate_blocks": k.m}, bad)
	}
	switch {
	case res.panicked != nil:
		wm := w()
		wm["panic"] = fmt.Sprint(res.panicked)
		c.violate(fmt.Sprintf("C17 import panics instead of rejecting: class=%s panic=%s", class, canon(fmt.Sprint(res.panicked))), wm)
		return false
	case res.err == nil:
		c.count("accepted_"+class, 1)
		sig := fmt.Sprintf("C17 corrupted snapshot accepted: class=%s %s", class, mode)
		wm := w()
		if acceptedSig != nil {
			var more map[string]any
			sig, more = acceptedSig(res)
			for kk, v := range more {
				wm[kk] = v
			}
		}
		wm["target_datastore_after_import"] = leftState(c.ctx, res.ds)
		c.violate(sig, wm)
		return false
	}
	c.count("rejected_"+class, 1)
	c.count("rejected_snapshots", 1)
	left := leftState(c.ctx, res.ds)
	c.count("after_rejection_target_left_as_"+left, 1)
	if judgeLeftover && left == "store_with_usable_latest_pointer" {
		c.violate(fmt.Sprintf("C17 rejected import leaves the target datastore as a store with a usable latest pointer: class=%s %s", class, mode), w())
		return false
	}
	return true
}

// judgeLeftover: the property says malformed snapshots "are rejected"; whether a
// rejected import may leave the target datastore openable as a store whose
// latest pointer already points into the refused content is not spelled out.
// By default this is only counted (after_rejection_target_left_as_*: 0 "usable
// latest pointer" on the pinned tree); set to true to make it a violation.
const judgeLeftover = false

func (k *corruptor) joinWith(hdr []byte, certPayloads [][]byte) []byte {
	return join(append([][]byte{hdr}, certPayloads...)...)
}

func (k *corruptor) certPayloads() [][]byte {
	return payloads(k.blocks[1:])
}

// pick returns up to max indices of [lo, hi): all of them if few, else a sample
// that always contains the ends.
func pick(rng *rand.Rand, lo, hi, max int) []int {
	n := hi - lo
	if n <= 0 {
		return nil
	}
	if n <= max {
		out := make([]int, n)
		for i := range out {
			out[i] = lo + i
		}
		return out
	}
	set := map[int]struct{}{lo: {}, hi - 1: {}}
	for len(set) < max {
		set[lo+rng.Intn(n)] = struct{}{}
	}
	out := make([]int, 0, len(set))
	for i := range set {
		out = append(out, i)
	}
	sort.Ints(out)
	return out
}

func (k *corruptor) truncations(everyByteLimit, boundaryBlocks, sampled int) {
	c := k.c
	n := len(k.snap)
	var offs []int
	if n <= everyByteLimit {
		for t := 0; t < n; t++ {
			offs = append(offs, t)
		}
		c.count("snapshots_truncated_at_every_byte", 1)
	} else {
		set := map[int]struct{}{0: {}, n - 1: {}}
		bl := pick(c.rng, 0, len(k.blocks), boundaryBlocks)
		for _, bi := range bl {
			b := k.blocks[bi]
			for t := b.off - 3; t <= b.off+len(b.prefix)+3; t++ {
				if t >= 0 && t < n {
					set[t] = struct{}{}
				}
			}
		}
		for s := 0; s < sampled; s++ {
			set[c.rng.Intn(n)] = struct{}{}
		}
		for t := range set {
			offs = append(offs, t)
		}
		sort.Ints(offs)
		c.count("snapshots_truncated_at_boundaries_and_samples", 1)
	}
	boundary := map[int]struct{}{}
	for _, b := range k.blocks {
		boundary[b.off] = struct{}{}
	}
	for _, t := range offs {
		// every t < len removes at least the last byte of the last certificate block,
		// so the header's latest instance is never reached: a real truncation.
		mode := importMode{}
		if t%3 == 0 {
			mode.f = loweredFreqs[t%len(loweredFreqs)]
		}
		if n <= 3000 && t%5 == 0 {
			mode.stream = 1
		}
		c.count("truncation_offsets", 1)
		if _, atB := boundary[t]; atB {
			c.count("truncation_offsets_at_block_boundary", 1)
		}
		if !k.expectReject("truncation", fmt.Sprintf("first %d of %d bytes", t, n), k.snap[:t], mode, nil) && c.counts["violations_raised"] > 20 {
			return
		}
	}
}

func (k *corruptor) blockOps() {
	c := k.c
	cp := k.certPayloads()
	hp := k.blocks[0].payload
	clone := func() [][]byte { return append([][]byte(nil), cp...) }
	small := len(k.snap) <= 20000
	// gaps
	for _, i := range pick(c.rng, 0, k.m, 14) {
		p := clone()
		p = append(p[:i], p[i+1:]...)
		k.expectReject("gap", fmt.Sprintf("certificate block %d of %d (instance %d) dropped", i, k.m, k.c.first+uint64(i)), k.joinWith(hp, p), c.randomMode(small), nil)
	}
	if k.m >= 3 {
		for r := 0; r < 3; r++ {
			i := c.rng.Intn(k.m - 1)
			j := i + 1 + c.rng.Intn(min(k.m-i-1, 4))
			p := append(clone()[:i], cp[j:]...)
			k.expectReject("gap", fmt.Sprintf("certificate blocks %d..%d of %d dropped", i, j-1, k.m), k.joinWith(hp, p), c.randomMode(small), nil)
		}
	}
	k.expectReject("header-dropped", "header block removed", join(cp...), c.randomMode(small), nil)
	// reordered
	if k.m >= 2 {
		for _, i := range pick(c.rng, 0, k.m-1, 10) {
			p := clone()
			p[i], p[i+1] = p[i+1], p[i]
			k.expectReject("reordered", fmt.Sprintf("certificate blocks %d and %d swapped", i, i+1), k.joinWith(hp, p), c.randomMode(small), nil)
		}
		for r := 0; r < 4 && k.m >= 3; r++ {
			i, j := c.rng.Intn(k.m), c.rng.Intn(k.m)
			if i == j {
				continue
			}
			p := clone()
			p[i], p[j] = p[j], p[i]
			k.expectReject("reordered", fmt.Sprintf("certificate blocks %d and %d swapped", i, j), k.joinWith(hp, p), c.randomMode(small), nil)
		}
		// rotated: the last certificate first
		p := append([][]byte{cp[k.m-1]}, cp[:k.m-1]...)
		k.expectReject("reordered", "last certificate block moved to the front", k.joinWith(hp, p), c.randomMode(small), nil)
	}
	// duplicated
	for _, i := range pick(c.rng, 0, k.m, 10) {
		p := append(clone()[:i+1], cp[i:]...)
		k.expectReject("duplicated", fmt.Sprintf("certificate block %d duplicated in place", i), k.joinWith(hp, p), c.randomMode(small), nil)
		if c.rng.Intn(2) == 0 {
			p := append(clone(), cp[i])
			k.expectReject("duplicated", fmt.Sprintf("certificate block %d repeated at the end", i), k.joinWith(hp, p), c.randomMode(small), nil)
		}
	}
	// replaced: block i+1 is a second copy of block i (instance i+1 is missing, the block count and
	// the last instance still agree with the header)
	if k.m >= 2 {
		for _, i := range pick(c.rng, 0, k.m-1, 10) {
			p := clone()
			p[i+1] = cp[i]
			k.expectReject("gap", fmt.Sprintf("certificate block %d replaced by a copy of block %d", i+1, i), k.joinWith(hp, p), c.randomMode(small), nil)
		}
	}
	// surplus certificates beyond the header's latest
	for r := 0; r < 4; r++ {
		extra := 1 + c.rng.Intn(3)
		p := clone()
		ch := c.chain
		have := 0
		for i := k.L + 1; have < extra && i <= c.latest(); i++ {
			p = append(p, vstore.CertBytes(ch.Cert(i)))
			have++
		}
		if have < extra { // beyond what the exporter holds: fresh valid successors
			ext := ch.Clone()
			c.g.Extend(ext, extra-have, 0.5)
			for _, cert := range ext.Certs[ch.Len():] {
				p = append(p, vstore.CertBytes(cert))
			}
		}
		k.expectReject("surplus", fmt.Sprintf("%d valid successor certificates appended beyond the header's latest %d", extra, k.L), k.joinWith(hp, p), c.randomMode(small), nil)
	}
}

func (k *corruptor) header(h certstore.SnapshotHeader) []byte { return encodeHeader(&h) }

func (k *corruptor) manifestVariants(editedFirst uint64, editedTable gpbft.PowerEntries) []importMode {
	c := k.c
	lf := loweredFreqs[c.rng.Intn(len(loweredFreqs))]
	return []importMode{
		{},
		{f: lf},
		{man: c.agreeingManifest(true), manDesc: "true-values(disagrees-with-edited-header)"},
		{f: lf, man: c.agreeingManifest(false), manDesc: "true-instance(initial-table-unspecified)"},
		{man: &manifest.Manifest{InitialInstance: editedFirst, InitialPowerTable: vstore.TableCID(editedTable)}, manDesc: "agrees-with-edited-header"},
	}
}

func (k *corruptor) headerEdits() {
	c := k.c
	cp := k.certPayloads()
	h := *k.hdr
	// first instance
	var firsts []uint64
	firsts = append(firsts, h.FirstInstance+1, h.FirstInstance+uint64(k.m), h.FirstInstance+2+uint64(c.rng.Intn(5000)), math.MaxUint64)
	if h.FirstInstance > 0 {
		firsts = append(firsts, h.FirstInstance-1, 0, uint64(c.rng.Int63n(int64(min(h.FirstInstance, math.MaxInt64)))))
	}
	for _, f := range firsts {
		if f == h.FirstInstance {
			continue
		}
		e := h
		e.FirstInstance = f
		for _, mode := range k.manifestVariants(f, h.InitialPowerTable) {
			class := "header-first-instance"
			if strings.HasPrefix(mode.manDesc, "true-") {
				class = "header-first-instance+manifest-disagrees"
			}
			k.expectReject(class, fmt.Sprintf("header first instance %d -> %d", h.FirstInstance, f), k.joinWith(k.header(e), cp), mode, nil)
		}
	}
	// latest instance
	lats := []uint64{h.LatestInstance + 1, h.LatestInstance + 2 + uint64(c.rng.Intn(5000)), math.MaxUint64, h.LatestInstance - 1}
	if h.LatestInstance > 1 {
		lats = append(lats, 0, uint64(c.rng.Int63n(int64(min(h.LatestInstance, math.MaxInt64)))))
	}
	for _, l := range lats {
		if l == h.LatestInstance {
			continue
		}
		e := h
		e.LatestInstance = l
		for _, mode := range []importMode{{}, {f: loweredFreqs[c.rng.Intn(len(loweredFreqs))]}, {man: c.agreeingManifest(true), manDesc: "agreeing"}} {
			k.expectReject("header-latest-instance", fmt.Sprintf("header latest instance %d -> %d", h.LatestInstance, l), k.joinWith(k.header(e), cp), mode, nil)
		}
	}
	// initial power table
	for r := 0; r < 8; r++ {
		t := vstore.CloneTable(h.InitialPowerTable)
		var what string
		i := c.rng.Intn(len(t))
		switch x := c.rng.Intn(6); {
		case x == 0:
			t[i].Power = vstore.Pow(new(big.Int).Add(t[i].Power.Int, big.NewInt(int64(1+c.rng.Intn(9)))))
			what = "a member's power raised"
		case x == 1 && t[i].Power.Int.Cmp(big.NewInt(1)) > 0:
			t[i].Power = vstore.Pow(new(big.Int).Sub(t[i].Power.Int, big.NewInt(1)))
			what = "a member's power lowered"
		case x == 2:
			t[i].PubKey = c.g.Table(1)[0].PubKey
			what = "a member's key replaced"
		case x == 3 && len(t) > 1:
			t = append(t[:i], t[i+1:]...)
			what = "a member removed"
		case x == 4 && len(t) > 1:
			j := (i + 1) % len(t)
			t[i], t[j] = t[j], t[i]
			what = "two entries swapped"
		default:
			t = append(t, c.g.Table(1)[0])
			what = "a member added"
		}
		if what != "two entries swapped" {
			vstore.SortTable(t)
		}
		if bytes.Equal(vstore.TableBytes(t), vstore.TableBytes(h.InitialPowerTable)) {
			continue
		}
		e := h
		e.InitialPowerTable = t
		bad := k.joinWith(k.header(e), cp)
		// the manifest names the true table: any other table in the header disagrees with it
		for _, mode := range []importMode{{man: c.agreeingManifest(true), manDesc: "true-values(disagrees-with-edited-header)"},
			{f: loweredFreqs[c.rng.Intn(len(loweredFreqs))], man: c.agreeingManifest(true), manDesc: "true-values(disagrees-with-edited-header)"}} {
			k.expectReject("header-initial-table+manifest-disagrees", "header initial table: "+what, bad, mode, nil)
		}
		// no manifest (or one that does not name a table): rejected iff the deltas then
		// fail to reproduce a committed table
		d := derive(t, k.certs)
		if !d.anyMismatch() {
			c.count("unconstrained_header-initial-table_(no_committed_table_contradicted)", 1)
			continue
		}
		for _, mode := range []importMode{{}, {f: loweredFreqs[c.rng.Intn(len(loweredFreqs))]}, {man: c.agreeingManifest(false), manDesc: "agreeing-instance-only"},
			{man: &manifest.Manifest{InitialInstance: h.FirstInstance, InitialPowerTable: vstore.TableCID(t)}, manDesc: "agrees-with-edited-header"}} {
			k.expectReject("header-initial-table", "header initial table: "+what, bad, mode, k.tamperSig("header-initial-table", mode, d))
		}
	}
	// untouched header, manifest disagrees
	honest := k.snap
	other := c.g.Table(1 + c.rng.Intn(4))
	mans := []struct {
		m *manifest.Manifest
		d string
	}{
		{&manifest.Manifest{InitialInstance: c.first + 1, InitialPowerTable: vstore.TableCID(c.chain.Tables[0])}, "manifest initial instance = first+1"},
		{&manifest.Manifest{InitialInstance: c.first + 1}, "manifest initial instance = first+1, no table"},
		{&manifest.Manifest{InitialInstance: c.first ^ (1 << uint(c.rng.Intn(64)))}, "manifest initial instance = first with one bit flipped"},
		{&manifest.Manifest{InitialInstance: c.first, InitialPowerTable: vstore.TableCID(other)}, "manifest names another initial table"},
	}
	if k.m >= 1 && len(c.chain.Tables) > 1 && !bytes.Equal(vstore.TableBytes(c.chain.Tables[1]), vstore.TableBytes(c.chain.Tables[0])) {
		mans = append(mans, struct {
			m *manifest.Manifest
			d string
		}{&manifest.Manifest{InitialInstance: c.first, InitialPowerTable: vstore.TableCID(c.chain.Tables[1])}, "manifest names the table of instance first+1"})
	}
	for _, mm := range mans {
		for _, f := range []uint64{0, loweredFreqs[c.rng.Intn(len(loweredFreqs))]} {
			k.expectReject("manifest-disagrees", mm.d, honest, importMode{f: f, man: mm.m, manDesc: "disagreeing"}, nil)
		}
	}
}

// tamperSig builds the violation signature for an accepted snapshot whose
// deltas (or header table) do not reproduce the committed tables.
func (k *corruptor) tamperSig(class string, mode importMode, d derivation) func(res importResult) (string, map[string]any) {
	return func(res importResult) (string, map[string]any) {
		first := k.hdr.FirstInstance
		f := mode.freq()
		which := "only tables of intermediate non-checkpoint instances disagree (final table correct)"
		var bad []uint64
		atCheckpoint := false
		for i, mm := range d.mismatch {
			if mm {
				inst := first + uint64(i) + 1
				bad = append(bad, inst)
				if inst%f == 0 {
					atCheckpoint = true
				}
			}
		}
		switch {
		case d.applyErrAt >= 0:
			which = "a delta cannot even be applied"
		case len(d.mismatch) > 0 && d.mismatch[len(d.mismatch)-1]:
			which = "the final table disagrees with the last certificate's commitment"
		case atCheckpoint:
			which = "the table of a checkpoint instance disagrees with its commitment"
		}
		more := map[string]any{"instances_whose_derived_table_contradicts_the_commitment": bad, "import_frequency": f}
		// what the resulting store serves
		if st, err := certstore.OpenStore(k.c.ctx, res.ds); err == nil {
			if mode.f != 0 {
				certstore.VerifC09SetPowerTableFrequency(st, mode.f)
			}
			var shown []string
			for _, inst := range bad {
				if len(shown) >= 4 {
					break
				}
				pt, err1 := st.GetPowerTable(k.c.ctx, inst)
				cert, err2 := st.Get(k.c.ctx, inst-1)
				if err1 == nil && err2 == nil {
					shown = append(shown, fmt.Sprintf("GetPowerTable(%d)=%s but certificate %d commits to %s", inst, vstore.TableCID(pt), inst-1, cert.SupplementalData.PowerTable))
				}
			}
			more["imported_store_serves"] = shown
		}
		return fmt.Sprintf("C17 tampered snapshot accepted: class=%s %s: deltas do not reproduce the committed power tables; %s", class, mode, which), more
	}
}

// adjust returns delta with d added to participant id's power change.
func adjust(delta certs.PowerTableDiff, id gpbft.ActorID, d int64) certs.PowerTableDiff {
	out := make(certs.PowerTableDiff, 0, len(delta)+1)
	done := false
	for _, e := range delta {
		if !done && e.ParticipantID > id {
			out = append(out, certs.PowerTableDelta{ParticipantID: id, PowerDelta: vstore.PowInt(d)})
			done = true
		}
		if e.ParticipantID == id {
			done = true
			base := new(big.Int)
			if e.PowerDelta.Int != nil {
				base.Set(e.PowerDelta.Int)
			}
			base.Add(base, big.NewInt(d))
			if base.Sign() == 0 && len(e.SigningKey) == 0 {
				continue // the entry would have no effect: leave it out
			}
			out = append(out, certs.PowerTableDelta{ParticipantID: id, PowerDelta: vstore.Pow(base), SigningKey: e.SigningKey})
			continue
		}
		out = append(out, e)
	}
	if !done {
		out = append(out, certs.PowerTableDelta{ParticipantID: id, PowerDelta: vstore.PowInt(d)})
	}
	return out
}

func hasMember(t gpbft.PowerEntries, id gpbft.ActorID) bool {
	for _, e := range t {
		if e.ID == id {
			return true
		}
	}
	return false
}

// withCerts re-encodes the snapshot with some certificates replaced.
func (k *corruptor) withCerts(repl map[int]*certs.FinalityCertificate) ([]byte, []*certs.FinalityCertificate) {
	cp := k.certPayloads()
	cs := append([]*certs.FinalityCertificate(nil), k.certs...)
	for i, cert := range repl {
		cp[i] = vstore.CertBytes(cert)
		cs[i] = cert
	}
	return k.joinWith(k.blocks[0].payload, cp), cs
}

func (k *corruptor) deltaAlone(rounds int) {
	c := k.c
	for r := 0; r < rounds; r++ {
		i := c.rng.Intn(k.m)
		cert := vstore.CloneCert(k.certs[i])
		after := c.chain.Tables[i+1] // honest table after certificate i
		var what string
		switch x := c.rng.Intn(5); {
		case x == 0 && len(cert.PowerTableDelta) > 0:
			j := c.rng.Intn(len(cert.PowerTableDelta))
			cert.PowerTableDelta = append(cert.PowerTableDelta[:j:j], cert.PowerTableDelta[j+1:]...)
			what = "one delta entry dropped"
		case x == 1:
			e := c.g.Table(1)[0]
			cert.PowerTableDelta = adjust(cert.PowerTableDelta, e.ID, 0)
			for j := range cert.PowerTableDelta {
				if cert.PowerTableDelta[j].ParticipantID == e.ID {
					cert.PowerTableDelta[j].PowerDelta, cert.PowerTableDelta[j].SigningKey = e.Power, e.PubKey
				}
			}
			what = "a new member inserted"
		case x == 2:
			e := after[c.rng.Intn(len(after))]
			cert.PowerTableDelta = adjust(cert.PowerTableDelta, e.ID, 0)
			for j := range cert.PowerTableDelta {
				if cert.PowerTableDelta[j].ParticipantID == e.ID {
					cert.PowerTableDelta[j].SigningKey = c.g.Table(1)[0].PubKey
					if cert.PowerTableDelta[j].PowerDelta.Int == nil {
						cert.PowerTableDelta[j].PowerDelta = vstore.PowInt(0)
					}
				}
			}
			what = "a member re-keyed"
		default:
			e := after[c.rng.Intn(len(after))]
			cert.PowerTableDelta = adjust(cert.PowerTableDelta, e.ID, int64(1+c.rng.Intn(1000)))
			what = "a member's power change raised"
		}
		bad, cs := k.withCerts(map[int]*certs.FinalityCertificate{i: cert})
		d := derive(k.hdr.InitialPowerTable, cs)
		if !d.anyMismatch() {
			c.count("unconstrained_delta-alone_(no_committed_table_contradicted)", 1)
			continue
		}
		mode := c.randomMode(len(k.snap) <= 20000)
		k.expectReject("delta-alone", fmt.Sprintf("certificate %d of %d (instance %d): %s", i, k.m, c.first+uint64(i), what), bad, mode, k.tamperSig("delta-alone", mode, d))
	}
}

func (k *corruptor) deltaCompensated(rounds int) {
	c := k.c
	if k.m < 2 {
		return
	}
	for r := 0; r < rounds; r++ {
		i := c.rng.Intn(k.m - 1)
		span := 1
		switch c.rng.Intn(3) {
		case 1:
			span = 1 + c.rng.Intn(min(k.m-1-i, 6))
		case 2:
			span = 1 + c.rng.Intn(k.m-1-i)
		}
		j := i + span
		// a member present in every table after certificate i up to after certificate j
		var cands []gpbft.ActorID
		for _, e := range c.chain.Tables[i+1] {
			ok := true
			for t := i + 2; t <= j+1 && ok; t++ {
				ok = hasMember(c.chain.Tables[t], e.ID)
			}
			if ok {
				cands = append(cands, e.ID)
			}
		}
		if len(cands) == 0 {
			c.count("compensation_skipped_no_lasting_member", 1)
			continue
		}
		id := cands[c.rng.Intn(len(cands))]
		by := int64(1 + c.rng.Intn(1000))
		ci, cj := vstore.CloneCert(k.certs[i]), vstore.CloneCert(k.certs[j])
		ci.PowerTableDelta = adjust(ci.PowerTableDelta, id, by)
		cj.PowerTableDelta = adjust(cj.PowerTableDelta, id, -by)
		bad, cs := k.withCerts(map[int]*certs.FinalityCertificate{i: ci, j: cj})
		d := derive(k.hdr.InitialPowerTable, cs)
		clean := d.applyErrAt < 0
		for t := 0; t < k.m && clean; t++ {
			clean = d.mismatch[t] == (t >= i && t < j)
		}
		if !clean {
			c.count("compensation_skipped_not_clean", 1)
			continue
		}
		mode := c.randomMode(len(k.snap) <= 20000)
		// does a checkpoint of the importing frequency fall on one of the wrong tables?
		cp := false
		for t := i; t < j; t++ {
			if (c.first+uint64(t)+1)%mode.freq() == 0 {
				cp = true
			}
		}
		if cp {
			c.count("compensated_with_checkpoint_between", 1)
		} else {
			c.count("compensated_without_checkpoint_between", 1)
		}
		k.expectReject("delta-compensated", fmt.Sprintf("member %d: +%d in certificate %d (instance %d), -%d in certificate %d (instance %d); tables of instances %d..%d contradict their commitments, final table correct",
			id, by, i, c.first+uint64(i), by, j, c.first+uint64(j), c.first+uint64(i)+1, c.first+uint64(j)), bad, mode, k.tamperSig("delta-compensated", mode, d))
	}
}

func (k *corruptor) garbageVarints(rounds int) {
	c := k.c
	for r := 0; r < rounds; r++ {
		bi := c.rng.Intn(len(k.blocks))
		if r == 0 {
			bi = 0
		}
		b := k.blocks[bi]
		trueLen := uint64(len(b.payload))
		var prefix []byte
		var what string
		switch c.rng.Intn(5) {
		case 0: // more than 64 bits
			prefix = append(bytes.Repeat([]byte{0xff}, 10+c.rng.Intn(4)), 0x01)
			what = "length prefix longer than 64 bits"
		case 1: // 10 bytes, overflowing last byte
			prefix = append(bytes.Repeat([]byte{0x80}, 9), 0x02+byte(c.rng.Intn(100)))
			what = "10-byte length prefix overflowing 64 bits"
		case 2:
			v := trueLen
			for v == trueLen {
				v = uint64(c.rng.Intn(int(2*trueLen + 10)))
			}
			prefix = uvarint(v)
			what = fmt.Sprintf("length %d -> %d", trueLen, v)
		case 3:
			v := trueLen + 1 + uint64(c.rng.Intn(1<<21))
			prefix = uvarint(v)
			what = fmt.Sprintf("length %d -> %d", trueLen, v)
		default:
			for {
				prefix = make([]byte, 1+c.rng.Intn(3))
				c.rng.Read(prefix)
				prefix[len(prefix)-1] &= 0x7f
				v, w := uvarintOf(prefix)
				if w == len(prefix) && v != trueLen {
					what = fmt.Sprintf("length %d -> random prefix decoding to %d", trueLen, v)
					break
				}
			}
		}
		bad := append(append(append([]byte(nil), k.snap[:b.off]...), prefix...), k.snap[b.off+len(b.prefix):]...)
		detail := fmt.Sprintf("block %d: %s", bi, what)
		if ov := oversizedFrame(bad); ov >= 1<<26 {
			// read frame by frame, the mis-framed stream reaches a length prefix that declares
			// far more than the stream holds: an importer that allocates declared lengths
			// would take the whole test process down, so this one goes to a child process
			if c.childEligible() {
				k.child = append(k.child, childCase{caseIdx: c.idx, seed: c.seed, store: c.desc(), class: "garbage-varint", declared: ov, snap: bad,
					detail: detail + fmt.Sprintf("; read frame by frame the stream then reaches a length prefix declaring %d bytes", ov)})
			} else {
				c.count("garbage-varint_not_run_(needs_child_process,_store_not_selected)", 1)
			}
			continue
		}
		k.expectReject("garbage-varint", detail, bad, c.randomMode(len(k.snap) <= 20000), nil)
	}
}

func uvarintOf(p []byte) (uint64, int) {
	var x uint64
	var s uint
	for i, b := range p {
		if b < 0x80 {
			return x | uint64(b)<<s, i + 1
		}
		x |= uint64(b&0x7f) << s
		s += 7
	}
	return 0, 0
}

// hugeCases queues corrupted snapshots whose block bi declares a huge length
// (to be imported in a child process).
func (k *corruptor) hugeCases(lens []uint64) {
	c := k.c
	for _, v := range lens {
		bi := c.rng.Intn(len(k.blocks))
		if c.rng.Intn(3) == 0 {
			bi = 0
		}
		b := k.blocks[bi]
		bad := append(append(append([]byte(nil), k.snap[:b.off]...), uvarint(v)...), k.snap[b.off+len(b.prefix):]...)
		k.child = append(k.child, childCase{caseIdx: c.idx, seed: c.seed, store: c.desc(), class: "huge-length", declared: v, snap: bad,
			detail: fmt.Sprintf("length prefix of block %d of %d replaced by %d (%s); the rest of the stream unchanged", bi, len(k.blocks), v, pow2(v))})
	}
}

// childEligible: only some stores feed the child-process classes (a child is a
// process start per case).
func (c *storeCase) childEligible() bool { return c.idx%4 == 0 && c.idx < 400 }

func (c *storeCase) corrupt(L uint64, snap []byte, blocks []block, tier tierParams, primary bool) *corruptor {
	k := &corruptor{c: c, L: L, snap: snap, blocks: blocks, m: len(blocks) - 1}
	var err error
	if k.hdr, err = decodeHeader(blocks[0].payload); err != nil {
		panic(err) // checked by export()
	}
	for _, b := range blocks[1:] {
		cert, err := decodeCert(b.payload)
		if err != nil {
			panic(err)
		}
		k.certs = append(k.certs, cert)
	}
	c.count("snapshots_corrupted", 1)
	if primary || tier.truncateAllSnap || len(snap) <= tier.everyByteLimit {
		k.truncations(tier.everyByteLimit, tier.boundaryBlocks, tier.sampledOffsets)
	}
	k.blockOps()
	k.headerEdits()
	k.deltaAlone(tier.deltaRounds)
	k.deltaCompensated(tier.deltaRounds)
	k.garbageVarints(tier.varintRounds)
	return k
}

type tierParams struct {
	everyByteLimit  int  // snapshots up to this size are truncated at every byte
	boundaryBlocks  int  // larger ones: every boundary +-3 of up to this many blocks (all, if fewer) ...
	sampledOffsets  int  // ... plus this many random offsets
	truncateAllSnap bool // truncate every selected snapshot of a store (else: large ones only once per store)
	deltaRounds     int
	varintRounds    int
}

// ---------- one case ----------

func (c *storeCase) endPoints() []uint64 {
	if c.n <= 12 {
		out := make([]uint64, c.n)
		for i := range out {
			out[i] = c.first + uint64(i)
		}
		return out
	}
	set := map[uint64]struct{}{c.first: {}, c.latest(): {}, c.latest() - 1: {}}
	for r := 0; r < 3; r++ {
		set[c.first+uint64(c.rng.Intn(c.n))] = struct{}{}
	}
	var near []uint64
	for _, fr := range []uint64{c.effExp(), realFrequency} {
		for b := (c.first/fr + 1) * fr; b <= c.latest()+1 && b > c.first; b += fr {
			near = append(near, b-2, b-1, b) // latest = b-1 makes the final table a checkpoint
		}
	}
	c.rng.Shuffle(len(near), func(i, j int) { near[i], near[j] = near[j], near[i] })
	for _, e := range near[:min(len(near), 4)] {
		if e >= c.first && e <= c.latest() {
			set[e] = struct{}{}
		}
	}
	out := make([]uint64, 0, len(set))
	for e := range set {
		out = append(out, e)
	}
	sort.Slice(out, func(i, j int) bool { return out[i] < out[j] })
	return out
}

func runCase(run *vkit.Run, idx int, realLong bool, tier tierParams, hugeLens []uint64) (*storeCase, []childCase) {
	c := newStoreCase(run, idx, realLong)
	if !c.build() {
		c.failed = true
		return c, nil
	}
	eps := c.endPoints()
	type exported struct {
		L      uint64
		snap   []byte
		blocks []block
	}
	var exps []exported
	for n, L := range eps {
		snap, blocks, ok := c.export(L)
		if !ok {
			c.failed = true
			return c, nil
		}
		exps = append(exps, exported{L, snap, blocks})
		lf := loweredFreqs[c.rng.Intn(len(loweredFreqs))]
		modes := []importMode{{}, {man: c.agreeingManifest(true), manDesc: "agreeing"}, {f: lf}, {f: lf, man: c.agreeingManifest(false), manDesc: "agreeing-instance-only"}}
		if c.n > 12 {
			a := modes[(idx+n)%2*2] // alternate public / lowered
			b := modes[1+c.rng.Intn(3)]
			modes = []importMode{a}
			if c.kind != "real-long" && b != a {
				modes = append(modes, b)
			}
		}
		if len(snap) <= 20000 {
			modes[len(modes)-1].stream = 1
		}
		for _, mode := range modes {
			c.roundTrip(L, snap, mode)
		}
	}
	if c.counts["violations_raised"] > 0 {
		c.failed = true
		return c, nil
	}
	// corruption battery: the snapshot of the whole store and (if there is one) another end point
	sel := []int{len(exps) - 1}
	if len(exps) > 1 {
		sel = append(sel, c.rng.Intn(len(exps)-1))
	}
	if c.n <= 6 && len(exps) > 2 {
		sel = append(sel, c.rng.Intn(len(exps)-1))
	}
	if c.kind == "real-long" {
		sel = sel[:1]
	}
	var child []childCase
	for n, p := range sel {
		e := exps[p]
		k := c.corrupt(e.L, e.snap, e.blocks, tier, n == 0)
		if n == 0 && len(hugeLens) > 0 {
			k.hugeCases(hugeLens)
		}
		child = append(child, k.child...)
	}
	return c, child
}

func TestCheck(t *testing.T) {
	if os.Getenv(hugeChildEnv) != "" {
		t.Skip("child mode")
	}
	run := vkit.New("C17", "main", "exploration")
	n := run.N(40, 400)
	nLong := run.N(0, 6) // stores of 1445-2985 certificates crossing the real 1440 boundary (thorough only)
	tier := tierParams{everyByteLimit: 5000, boundaryBlocks: 100, sampledOffsets: 300, deltaRounds: 12, varintRounds: 10}
	if run.Thorough() {
		tier = tierParams{everyByteLimit: 9000, boundaryBlocks: 400, sampledOffsets: 2000, truncateAllSnap: true, deltaRounds: 16, varintRounds: 12}
	}
	run.SetRule("each evaluation is one seeded certificate store (vstore generator: first instance 0 / small / next to or on a multiple of 1440 / huge; 1-300 certificates, thorough also 1445-2985; evolving tables with change probability 0..1; exporter checkpoint frequency 1440 or lowered to a divisor of 1440 through the accessor) exported at every end point (<= 12 certificates) or at sampled end points incl. checkpoint neighbours, each export checked (CID recomputed by hand, framing, header) and imported into an empty datastore (public API with/without manifest, testing entry point with a lowered frequency), reopened (OpenStore, OpenOrCreateStore) and compared with the exporter and the reference model (all certificates; all tables for <= 60 certificates, else ends + checkpoint neighbours + random), exported again; then 1-3 of its snapshots go through the corruption battery (truncation at every byte <= " + fmt.Sprint(tier.everyByteLimit) + " bytes else every block boundary +-3 (of up to " + fmt.Sprint(tier.boundaryBlocks) + " blocks) and " + fmt.Sprint(tier.sampledOffsets) + " sampled offsets; gaps, swaps, duplicates, surplus certificates, header first/latest/initial-table edits x manifest variants, disagreeing manifests, deltas altered alone and compensated, garbage length prefixes; huge declared lengths in a child process with a 4 GiB address-space limit); distinct = distinct (kind, first-instance class, certificates, frequencies, table changes); non-trivial = the store has a table change and a snapshot of it crosses a checkpoint of the importing frequency")
	run.Assume("the importer is given an EMPTY datastore; certificates carry vsig stand-in signatures (the importer does not verify signatures and the property does not ask it to)",
		"a corrupted snapshot counts as rejected iff the import returns a non-nil error without panicking; what a rejected import leaves in the target datastore is recorded, not judged",
		"edits of the header's initial table (without a manifest naming the table) and of deltas are judged only when, by the reference table algebra, some certificate's committed table is then contradicted",
		"lowered checkpoint frequencies divide 1440, so stores written with them open with the built-in frequency anywhere",
		"huge declared lengths >= 2^31 are imported in a child process whose address space is limited to 4 GiB; a Go fatal error (out of memory) or panic there is a crash of the importer, not a rejection")

	t0 := time.Now() // progress lines only, never part of a verdict
	var mu sync.Mutex
	var childAll []childCase
	firstBad := -1
	samples := 0
	hugeLens := []uint64{1 << 24, 1 << 31, 1 << 33, 1 << 40, 1 << 47, 1 << 50, 1 << 62, 1 << 63, math.MaxUint64}
	body := func(i int) {
		run.Breadcrumb(fmt.Sprintf("case=%d", i))
		var hl []uint64
		if i%8 == 0 && i < 200 && i >= nLong { // a few stores feed the huge-length class
			hl = hugeLens
		}
		c, huge := runCase(run, i, i < nLong, tier, hl)
		run.Eval(1)
		mu.Lock()
		defer mu.Unlock()
		for k, v := range c.counts {
			run.Count(k, v)
		}
		if c.unknown > 0 {
			run.Count("stores_with_a_violation", 1)
			if firstBad < 0 || i < firstBad {
				firstBad = i
				run.SetExtra("lowest_case_with_a_violation", i)
			}
		}
		childAll = append(childAll, huge...)
		if c.changes > 0 && c.counts["round_trips_crossing_importer_checkpoint"] > 0 {
			cls := "0"
			switch {
			case c.first == 0:
			case c.first < 100:
				cls = "small"
			case c.first < 10*realFrequency:
				cls = fmt.Sprintf("1440k%+d", int64(c.first%realFrequency))
			default:
				cls = "huge"
			}
			run.Distinct(fmt.Sprintf("%s|%s|%d|%d|%d", c.kind, cls, c.n, c.effExp(), c.changes))
		}
		if samples < 5 {
			samples++
			run.Sample(map[string]any{"case": i, "store": c.desc(), "exports": c.counts["exports"], "round_trips": c.counts["round_trips_compared"],
				"corrupted_snapshots": c.counts["corrupted_snapshots"], "rejected": c.counts["rejected_snapshots"]})
		}
	}
	if run.Case >= 0 {
		body(int(run.Case))
	} else {
		vkit.Parallel(n, runtime.GOMAXPROCS(0), body)
	}
	fmt.Printf("phase: stores done after %.1fs (informational)\n", time.Since(t0).Seconds())
	sort.SliceStable(childAll, func(i, j int) bool { return childAll[i].caseIdx < childAll[j].caseIdx })
	runChildCases(run, childAll)
	fmt.Printf("phase: %d child-process cases done after %.1fs (informational)\n", len(childAll), time.Since(t0).Seconds())

	if run.Case < 0 && run.Violations() == 0 {
		need := func(k string, floor int64) {
			if run.Counter(k) < floor {
				fmt.Printf("floor not reached: %s = %d < %d\n", k, run.Counter(k), floor)
				run.Inconclusive("too-few-events")
			}
		}
		need("stores", int64(n))
		need("round_trips_compared", int64(2*n))
		need("round_trips_crossing_importer_checkpoint", int64(n))
		need("round_trips_crossing_real_1440_checkpoint", 2)
		need("stores_first_instance_zero", 2)
		need("stores_first_instance_nonzero", int64(n/3))
		need("stores_with_evolving_tables", int64(n/2))
		need("snapshots_truncated_at_every_byte", int64(n/8))
		need("snapshots_truncated_at_boundaries_and_samples", int64(n/8))
		need("truncation_offsets", int64(500*n))
		for _, cl := range []string{"gap", "reordered", "duplicated", "surplus", "header-first-instance", "header-first-instance+manifest-disagrees", "header-latest-instance",
			"header-initial-table", "header-initial-table+manifest-disagrees", "manifest-disagrees", "delta-alone", "delta-compensated", "garbage-varint"} {
			need("corrupted_"+cl, int64(n))
		}
		need("corrupted_huge-length", 9)
		if nLong > 0 {
			need("stores_real-long", int64(nLong))
		}
	}
	rc := run.Finish()
	if rc != 0 {
		t.Fail()
	}
	if rc == 2 {
		os.Exit(2)
	}
}
