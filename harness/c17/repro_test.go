package c17

import (
	"bytes"
	"context"
	"fmt"
	"math/big"
	"testing"

	"github.com/filecoin-project/go-f3/certs"
	"github.com/filecoin-project/go-f3/certstore"
	"github.com/filecoin-project/go-f3/gpbft"
	"github.com/filecoin-project/go-f3/verifh/vstore"
	"github.com/ipfs/go-datastore"
	dssync "github.com/ipfs/go-datastore/sync"
)

// The tests in this file are standalone minimal reproductions of the C17
// findings on the pinned tree. They are not part of the check (the driver runs
// ^TestCheck$ only); run them by hand:
//
//	cd /verif/harness && GOPROXY=off GOFLAGS=-mod=mod go test -tags verif -overlay /verif/.overlay.json ./c17 -run TestRepro -v
//
// Each FAILS on a tree with the defect and passes once the corresponding diff
// under /verif/fixes/ is applied. Only the public API of certstore is used.

func reproCert(instance uint64, delta certs.PowerTableDiff, next gpbft.PowerEntries) *certs.FinalityCertificate {
	ts := func(epoch int64) *gpbft.TipSet {
		return &gpbft.TipSet{Epoch: epoch, Key: gpbft.MakeCid([]byte(fmt.Sprint("ts", epoch))).Bytes(), PowerTable: gpbft.MakeCid([]byte("pt"))}
	}
	c := &certs.FinalityCertificate{GPBFTInstance: instance, PowerTableDelta: delta,
		ECChain: &gpbft.ECChain{TipSets: []*gpbft.TipSet{ts(int64(instance)), ts(int64(instance) + 1)}}}
	c.SupplementalData.PowerTable = vstore.TableCID(next)
	return c
}

// TestReproCompensatedDelta (DESIGN.md §5 #4; fix: fixes/C17-import-delta-check.diff).
//
// Honest history: instances 0,1,2 over one constant table {A:10, B:20}; every
// certificate carries an empty delta and commits to that table. The tampered
// snapshot gives certificate 0 the delta {A:+5} and certificate 2 the delta
// {A:-5}: the tables of instances 1 and 2 are now {A:15, B:20} although
// certificates 0 and 1 still commit to {A:10, B:20}; only the final table is
// right again. The import must refuse it ("deltas do not reproduce the
// committed power tables"); instead it succeeds and the resulting store serves
// GetPowerTable(1) and GetPowerTable(2) that contradict the certificates it
// stores.
func TestReproCompensatedDelta(t *testing.T) {
	ctx := context.Background()
	table := gpbft.PowerEntries{
		{ID: 2, Power: vstore.PowInt(20), PubKey: bytes.Repeat([]byte{2}, 48)},
		{ID: 1, Power: vstore.PowInt(10), PubKey: bytes.Repeat([]byte{1}, 48)},
	}
	src := dssync.MutexWrap(datastore.NewMapDatastore())
	st, err := certstore.CreateStore(ctx, src, 0, table)
	if err != nil {
		t.Fatal(err)
	}
	for i := uint64(0); i < 3; i++ {
		if err := st.Put(ctx, reproCert(i, nil, table)); err != nil {
			t.Fatal(err)
		}
	}
	var snap bytes.Buffer
	if _, _, err := st.ExportLatestSnapshot(ctx, &snap); err != nil {
		t.Fatal(err)
	}

	// honest snapshot imports
	if err := certstore.ImportSnapshotToDatastore(ctx, bytes.NewReader(snap.Bytes()), dssync.MutexWrap(datastore.NewMapDatastore()), nil); err != nil {
		t.Fatalf("honest snapshot refused: %v", err)
	}

	blocks, err := parseBlocks(snap.Bytes())
	if err != nil {
		t.Fatal(err)
	}
	tamper := func(k int, by int64) []byte {
		c, err := decodeCert(blocks[1+k].payload)
		if err != nil {
			t.Fatal(err)
		}
		c.PowerTableDelta = certs.PowerTableDiff{{ParticipantID: 1, PowerDelta: gpbft.StoragePower{Int: big.NewInt(by)}}}
		return vstore.CertBytes(c)
	}
	tampered := join(blocks[0].payload, tamper(0, +5), blocks[2].payload, tamper(2, -5))

	dst := dssync.MutexWrap(datastore.NewMapDatastore())
	err = certstore.ImportSnapshotToDatastore(ctx, bytes.NewReader(tampered), dst, nil)
	t.Logf("import of the tampered snapshot: %v", err)
	if err != nil {
		return // refused: property holds
	}
	got, err := certstore.OpenStore(ctx, dst)
	if err != nil {
		t.Fatalf("tampered snapshot imported, store does not open: %v", err)
	}
	for i := uint64(1); i <= 3; i++ {
		pt, err := got.GetPowerTable(ctx, i)
		if err != nil {
			t.Fatalf("GetPowerTable(%d): %v", i, err)
		}
		c, _ := got.Get(ctx, i-1)
		t.Logf("instance %d: GetPowerTable = %s ; certificate %d commits to %s ; equal=%v", i, vstore.TableCID(pt), i-1,
			c.SupplementalData.PowerTable, vstore.TableCID(pt) == c.SupplementalData.PowerTable)
	}
	t.Fatalf("tampered snapshot (compensating deltas) was imported: GetPowerTable(1) and GetPowerTable(2) contradict the tables committed by certificates 0 and 1")
}

// TestReproHugeBlockLength: a 12-byte "snapshot" whose first block declares
// 2^63 bytes. The import must return an error; a panic (or an attempt to
// allocate the declared size) is not a rejection.
func TestReproHugeBlockLength(t *testing.T) {
	for _, declared := range []uint64{1 << 63, 1<<64 - 1, 1 << 62, 1 << 50} {
		func() {
			defer func() {
				if r := recover(); r != nil {
					t.Errorf("declared block length %d: import panics: %v", declared, r)
				}
			}()
			snap := append(uvarint(declared), 1, 2)
			err := certstore.ImportSnapshotToDatastore(context.Background(), bytes.NewReader(snap), dssync.MutexWrap(datastore.NewMapDatastore()), nil)
			t.Logf("declared block length %d: import returned %v", declared, err)
			if err == nil {
				t.Errorf("declared block length %d: accepted", declared)
			}
		}()
	}
}
