package c13

import (
	"bytes"
	"context"
	"errors"
	"fmt"
	"math/rand"
	"os"
	"runtime"
	"sync"
	"testing"

	"github.com/filecoin-project/go-f3/gpbft"
	"github.com/filecoin-project/go-f3/pmsg"
	"github.com/filecoin-project/go-f3/verifh/vkit"
	"github.com/filecoin-project/go-f3/verifh/vmsg"
)

func class(err error) string {
	switch {
	case err == nil:
		return "accept"
	case errors.Is(err, gpbft.ErrValidationInvalid):
		return "invalid"
	case errors.Is(err, gpbft.ErrValidationTooOld):
		return "too-old"
	case errors.Is(err, gpbft.ErrValidationNotRelevant):
		return "not-relevant"
	case errors.Is(err, gpbft.ErrValidationNoCommittee):
		return "no-committee"
	}
	var pe *gpbft.PanicError
	if errors.As(err, &pe) {
		return "panic"
	}
	return "other"
}

func genTarget(rng *rand.Rand, inst uint64) gpbft.Instant {
	t := gpbft.Instant{ID: inst, Round: uint64(rng.Intn(3))}
	phases := []gpbft.Phase{gpbft.INITIAL_PHASE, gpbft.QUALITY_PHASE, gpbft.PREPARE_PHASE, gpbft.COMMIT_PHASE, gpbft.DECIDE_PHASE, gpbft.CONVERGE_PHASE}
	t.Phase = phases[rng.Intn(len(phases))]
	switch t.Phase {
	case gpbft.INITIAL_PHASE, gpbft.QUALITY_PHASE:
		t.Round = 0
	case gpbft.CONVERGE_PHASE:
		if t.Round == 0 {
			t.Round = 1
		}
	}
	return t
}

func msgEqual(a, b *gpbft.GMessage) bool {
	var x, y bytes.Buffer
	if a.MarshalCBOR(&x) != nil || b.MarshalCBOR(&y) != nil {
		return false
	}
	return bytes.Equal(x.Bytes(), y.Bytes())
}

var nilPMM *pmsg.PartialMessageManager

func TestCheck(t *testing.T) {
	run := vkit.New("C13", "main", "exploration")
	run.SetRule("each evaluation is one (message, announced key, completing chain, partial shape, cache order) tuple: the message comes from the C05 corpus (valid messages of every step plus 36 corruption operators); it is stripped with the production ToPartialGMessage (or an attacker-shaped partial), validated with PartiallyValidateMessage, completed with the production completion step and validated with FullyValidateMessage; the verdict is compared with ValidateMessage of the completed message on the same participant (both cache orders) and on a fresh participant. distinct non-trivial = distinct (corruption, phase, key kind, chain kind, shape, order, outcome) combinations")
	run.Assume("stand-in signatures (vsig)", "completion uses pmsg's production inferJustificationVoteValue through a verif-tagged accessor; chain lookup by key is replaced by the harness choosing the completing chain (that is the adversarial degree of freedom)")
	n := run.N(1500, 30000)
	var mu sync.Mutex
	ctx := context.Background()
	body := func(i int) {
		seed := run.SubSeed(int64(i))
		rng := rand.New(rand.NewSource(seed))
		lookback := uint64(2 + rng.Intn(4))
		first := uint64(rng.Intn(1000))
		env := vmsg.NewEnv(rng, first, int(lookback)+4, lookback)
		target := genTarget(rng, first+2)
		mk := func() *vmsg.Driven {
			d := vmsg.NewDriven(env)
			if err := d.DriveTo(target); err != nil {
				return nil
			}
			return d
		}
		shared := mk()
		fresh := mk()
		if shared == nil || fresh == nil {
			mu.Lock()
			run.Count("driver_failures", 1)
			mu.Unlock()
			return
		}
		cur := shared.P.Progress().Instant
		base := env.BaseCorpus(cur, 24)
		type item struct {
			m    *gpbft.GMessage
			desc string
		}
		var corpus []item
		for _, b := range base {
			corpus = append(corpus, item{b, "valid"})
			for k := 0; k < 4; k++ {
				op := rng.Intn(vmsg.NumOps)
				if c, _ := env.Corrupt(b, op); c != nil {
					corpus = append(corpus, item{c, fmt.Sprintf("op%02d", op)})
				}
			}
		}
		for _, it := range corpus {
			m := it.m
			vals := env.Values[m.Vote.Instance]
			if vals == nil {
				vals = env.Values[cur.ID]
			}
			orig := m.Vote.Value
			// round trip of production strip/complete for valid messages
			if ref, _ := env.RefValid(m); ref == vmsg.Valid {
				pm, err := nilPMM.ToPartialGMessage(vmsg.Clone(m))
				if err == nil {
					if !pm.VoteValueKey.IsZero() {
						pm.Vote.Value = orig
					}
					pmsg.VerifInferJustificationVoteValue(pm)
					run.Eval(1)
					mu.Lock()
					run.Count("roundtrips_checked", 1)
					mu.Unlock()
					if !msgEqual(pm.GMessage, m) {
						run.Violation("C13 strip then complete with the original chain does not reproduce the original message (phase="+m.Vote.Phase.String()+")", map[string]any{"case": i, "corruption": it.desc})
					}
				}
			}
			for rep := 0; rep < 3; rep++ {
				// announced key
				keyKind := rng.Intn(5)
				consistentBias := rng.Intn(2) == 0 // half of the tuples announce the key of the completing chain
				if consistentBias {
					keyKind = 0
				}
				var K gpbft.ECChainKey
				switch keyKind {
				case 0:
					K = orig.Key()
				case 1: // zero
				case 2:
					if orig.Len() > 1 {
						K = orig.Prefix(rng.Intn(orig.Len() - 1)).Key()
					} else {
						K = orig.Key()
					}
				case 3:
					K = vals[rng.Intn(len(vals))].Key()
				case 4:
					rng.Read(K[:])
				}
				// completing chain
				chainKind := rng.Intn(6)
				if consistentBias && rng.Intn(4) != 0 {
					chainKind = 0
				}
				var C *gpbft.ECChain
				switch chainKind {
				case 0:
					C = orig
				case 1:
					C = vals[rng.Intn(len(vals))]
				case 2:
					if orig.Len() > 1 {
						C = orig.Prefix(rng.Intn(orig.Len() - 1))
					} else {
						C = orig
					}
				case 3:
					if !orig.IsZero() && orig.Len() < 100 {
						C = orig.Extend([]byte("extension-key-xxxxxxxxxxxxxxxxxxxxxxxx"))
					} else {
						C = orig
					}
				case 4:
					C = &gpbft.ECChain{}
				case 5:
					if !orig.IsZero() {
						C = vmsg.Clone(m).Vote.Value
						C.TipSets[len(C.TipSets)-1].Key = nil
					} else {
						C = orig
					}
				}
				shape := rng.Intn(4) // 0 production strip, 1 value left in place, 2 justification unstripped, 3 both
				// completion mode: 0 = production completion (value + inferJustificationVoteValue);
				// 1 = the chain is attached and the justification is left as it came over the wire
				// (only meaningful when the wire justification still carries a value): the validator's
				// full stage must itself refuse a justification for a different value
				mode := 0
				var relabel *gpbft.ECChain
				if (shape == 2 || shape == 3) && m.Justification != nil && rng.Intn(2) == 0 {
					mode = 1
					switch rng.Intn(4) {
					case 0: // the carried vote value where the rules prescribe bottom (or vice versa)
						relabel = orig
						if m.Justification.Vote.Value != nil && !m.Justification.Vote.Value.IsZero() {
							relabel = &gpbft.ECChain{}
						}
					case 1:
						relabel = vals[rng.Intn(len(vals))]
					}
				}
				infer := func(pm *gpbft.PartialGMessage) {
					if mode == 0 {
						pmsg.VerifInferJustificationVoteValue(pm)
					}
				}
				build := func() *gpbft.PartialGMessage {
					cm := vmsg.Clone(m)
					pm, _ := nilPMM.ToPartialGMessage(cm)
					pm.VoteValueKey = K
					if shape == 1 || shape == 3 {
						pm.Vote.Value = vmsg.Clone(m).Vote.Value
						if pm.Vote.Value == nil {
							pm.Vote.Value = &gpbft.ECChain{}
						}
					}
					if (shape == 2 || shape == 3) && m.Justification != nil {
						j := *vmsg.Clone(m).Justification
						if relabel != nil {
							j.Vote.Value = relabel
						}
						pm.Justification = &j
					}
					return pm
				}
				twoStage := func(p *gpbft.Participant) (string, *gpbft.GMessage) {
					pm := build()
					pvm, err := p.PartiallyValidateMessage(ctx, pm)
					if err != nil {
						// completed message as it would have been
						pm.Vote.Value = C
						infer(pm)
						return "stage1-" + class(err), pm.GMessage
					}
					ppm := pvm.PartialMessage()
					ppm.Vote.Value = C
					infer(ppm)
					completed := vmsg.Clone(ppm.GMessage)
					_, err = p.FullyValidateMessage(ctx, pvm)
					if err != nil {
						return "stage2-" + class(err), completed
					}
					return "accept", completed
				}
				order := rng.Intn(2)
				var two, one string
				var completed *gpbft.GMessage
				if order == 0 {
					two, completed = twoStage(shared.P)
					_, err := shared.P.ValidateMessage(ctx, vmsg.Clone(completed))
					one = class(err)
				} else {
					// need the completed message first: build it without validating
					pm := build()
					pm.Vote.Value = C
					infer(pm)
					_, err := shared.P.ValidateMessage(ctx, vmsg.Clone(pm.GMessage))
					one = class(err)
					two, completed = twoStage(shared.P)
				}
				_, ferr := fresh.P.ValidateMessage(ctx, vmsg.Clone(completed))
				oneFresh := class(ferr)
				run.Eval(1)
				acc2 := two == "accept"
				desc := fmt.Sprintf("%s|%s|key%d|chain%d|shape%d|mode%d%v|order%d|%s|%s", it.desc, m.Vote.Phase, keyKind, chainKind, shape, mode, relabel != nil, order, two, one)
				run.Distinct(desc)
				mu.Lock()
				run.Count("two_stage_"+two, 1)
				run.Count("one_shot_"+one, 1)
				mu.Unlock()
				wit := func() map[string]any {
					return map[string]any{"case": i, "progress": fmt.Sprint(cur), "corruption": it.desc, "phase": m.Vote.Phase.String(), "round": m.Vote.Round, "instance": m.Vote.Instance,
						"key_kind": keyKind, "chain_kind": chainKind, "shape": shape, "completion_mode": mode, "justification_relabelled": relabel != nil, "order": order, "two_stage": two, "one_shot_same_participant": one, "one_shot_fresh": oneFresh}
				}
				if two == "stage1-panic" || two == "stage2-panic" || two == "stage1-other" || two == "stage2-other" {
					run.Violation("C13 two-stage validation returned a panic/unknown error", wit())
				}
				consistent := K == C.Key() // the announcement matches the completing chain
				if !consistent {
					mu.Lock()
					run.Count("announced_key_mismatch_cases", 1)
					mu.Unlock()
				}
				if consistent && acc2 != (one == "accept") {
					run.Violation(fmt.Sprintf("C13 two-stage and one-shot validation disagree (two-stage=%s one-shot=%s, phase=%s)", map[bool]string{true: "accept", false: "reject"}[acc2], one, m.Vote.Phase), wit())
				}
				if consistent && acc2 != (oneFresh == "accept") {
					run.Violation(fmt.Sprintf("C13 two-stage and fresh one-shot validation disagree (two-stage=%s one-shot=%s, phase=%s)", map[bool]string{true: "accept", false: "reject"}[acc2], oneFresh, m.Vote.Phase), wit())
				}
				if acc2 && K != C.Key() {
					run.Violation("C13 two-stage path admitted a chain whose key differs from the announced key", wit())
				}
				if !acc2 && !consistent {
					mu.Lock()
					run.Count("announced_key_mismatch_rejected", 1)
					mu.Unlock()
				}
				if acc2 {
					if ref, why := env.RefValid(completed); ref == vmsg.Invalid {
						w := wit()
						w["reference_reason"] = why
						run.Violation("C13 two-stage path admitted a message the rules make invalid: "+why, w)
					}
				}
			}
		}
		if i < 2 {
			run.Sample(map[string]any{"case": i, "progress": fmt.Sprint(cur), "corpus": len(corpus)})
		}
	}
	if run.Case >= 0 {
		body(int(run.Case))
	} else {
		vkit.Parallel(n, runtime.GOMAXPROCS(0), body)
	}
	if run.Case < 0 && run.Counter("driver_failures")*5 > int64(n) {
		run.Inconclusive("harness-error")
	}
	rc := run.Finish()
	if rc != 0 {
		t.Fail()
	}
	if rc == 2 {
		os.Exit(2)
	}
}
