// Package mgr is part "manager" of the C13 check: the two-stage validation path
// driven through the production pmsg.PartialMessageManager (event loop, per
// instance LRU buffer, chain-key index, CompleteMessage, instance removal)
// together with a real gpbft.Participant as the validator.
package mgr

import (
	"bytes"
	"context"
	"errors"
	"fmt"
	"math/rand"
	"os"
	"runtime"
	"strings"
	"testing"
	"time"

	"github.com/filecoin-project/go-f3/chainexchange"
	"github.com/filecoin-project/go-f3/gpbft"
	"github.com/filecoin-project/go-f3/internal/clock"
	"github.com/filecoin-project/go-f3/manifest"
	"github.com/filecoin-project/go-f3/pmsg"
	"github.com/filecoin-project/go-f3/verifh/vfix"
	"github.com/filecoin-project/go-f3/verifh/vkit"
	"github.com/filecoin-project/go-f3/verifh/vmsg"
	logging "github.com/ipfs/go-log/v2"
	pubsub "github.com/libp2p/go-libp2p-pubsub"
	pb "github.com/libp2p/go-libp2p-pubsub/pb"
	"github.com/libp2p/go-libp2p/core/peer"
	mocknet "github.com/libp2p/go-libp2p/p2p/net/mock"
)

const watchdog = 15 * time.Second // bounded polling; expiry makes the case inconclusive, never a violation

func class(err error) string {
	switch {
	case err == nil:
		return "accept"
	case errors.Is(err, gpbft.ErrValidationInvalid):
		return "invalid"
	case errors.Is(err, gpbft.ErrValidationTooOld):
		return "too-old"
	case errors.Is(err, gpbft.ErrValidationNotRelevant):
		return "not-relevant"
	case errors.Is(err, gpbft.ErrValidationNoCommittee):
		return "no-committee"
	}
	var pe *gpbft.PanicError
	if errors.As(err, &pe) {
		return "panic"
	}
	return "other"
}

func msgEqual(a, b *gpbft.GMessage) bool {
	var x, y bytes.Buffer
	if a == nil || b == nil || a.MarshalCBOR(&x) != nil || b.MarshalCBOR(&y) != nil {
		return false
	}
	return bytes.Equal(x.Bytes(), y.Bytes())
}

func cloneChain(c *gpbft.ECChain) *gpbft.ECChain {
	out := &gpbft.ECChain{}
	if c == nil {
		return out
	}
	for _, ts := range c.TipSets {
		t := *ts
		t.Key = append([]byte{}, ts.Key...)
		out.TipSets = append(out.TipSets, &t)
	}
	return out
}

func keyStr(k gpbft.ECChainKey) string {
	if k.IsZero() {
		return "zero"
	}
	return fmt.Sprintf("%x", k[:4])
}

// ---------------------------------------------------------------------------
// configuration of one case

type config struct {
	Cap          int    `json:"max_buffered_messages_per_instance"`
	CompletedBuf int    `json:"completed_messages_buffer_size"`
	PartialBuf   int    `json:"pending_partial_messages_buffer_size"`
	DiscBuf      int    `json:"pending_discovered_chains_buffer_size"`
	RemovalBuf   int    `json:"pending_instance_removal_buffer_size"`
	BroadcastBuf int    `json:"pending_chain_broadcasts_buffer_size"`
	Lookahead    uint64 `json:"chainexchange_max_instance_lookahead"`
	MaxDisc      int    `json:"chainexchange_max_discovered"`
	MaxWanted    int    `json:"chainexchange_max_wanted"`
	Compression  bool   `json:"compression"`
	Lookback     uint64 `json:"committee_lookback"`
	ValCache     int    `json:"max_cached_validated_messages_per_instance"`
	Sync         bool   `json:"sync_mode"`
	Scripted     bool   `json:"scripted_eviction_equivocation"`
	Ops          int    `json:"ops"`
}

func pick(rng *rand.Rand, xs ...int) int { return xs[rng.Intn(len(xs))] }

// ---------------------------------------------------------------------------
// bookkeeping

type slotKey struct {
	inst   uint64
	sender gpbft.ActorID
	round  uint64
	phase  gpbft.Phase
}

func (s slotKey) String() string {
	return fmt.Sprintf("i%d/s%d/r%d/%s", s.inst, s.sender, s.round, s.phase)
}

type slotSpec struct {
	inst      uint64
	senderIdx int
	round     uint64
	phase     gpbft.Phase
	justKind  int
	justRound uint64
}

// arrival is one partial message handed to (or completed by) the manager.
type arrival struct {
	id    int
	orig  *gpbft.GMessage // what the factory built (possibly corrupted) before stripping
	ref   vmsg.Verdict
	desc  string
	slot  slotKey
	key   gpbft.ECChainKey // announced key, copied at arrival
	pm    *gpbft.PartialGMessage
	opIdx int

	handed   bool // BufferPartialMessage was called with it
	sure     bool // the queue had room and this harness is the only sender: it was enqueued
	settled  bool // a barrier passed after it was enqueued
	modelIn  bool // occupies its (sender, instant) position: the position was free when it was enqueued and it has not been emitted since
	removed  bool // its instance was removed after it arrived
	resident bool // seen in the real buffer (peek) after its arrival settled
	evicted  bool // was resident, later no longer in the real buffer although never emitted or removed
	equivOf  int  // id of an earlier handed arrival at the same position announcing another key; -1 otherwise
	expect   bool // a discovery of its chain was issued while it was settled in the buffer
	expectOp int
	judged   bool
	emitted  int
	admitted bool
}

type instModel struct {
	slots      map[slotKey]*arrival
	overflowed bool // more positions were simultaneously occupied than the buffer holds: evictions are legitimate from then on
	tainted    bool // something happened that the harness cannot account for (maybe-dropped enqueue)
}

type progressOp struct {
	inst  uint64
	alarm bool
}

type caseRun struct {
	i      int
	run    *vkit.Run
	rng    *rand.Rand
	aux    *rand.Rand
	cfg    config
	env    *vmsg.Env
	shared *vmsg.Driven
	twin   *vmsg.Driven
	target gpbft.Instant
	prog   []progressOp
	first  uint64

	ctx       context.Context
	pmm       *pmsg.PartialMessageManager
	completed <-chan gpbft.PartiallyValidatedMessage
	clk       *clock.Mock
	topic     string
	from      peer.ID

	insts    []uint64
	pools    map[uint64][]slotSpec
	arrivals []*arrival
	byPtr    map[*gpbft.PartialGMessage]*arrival
	model    map[uint64]*instModel
	lastDisc struct {
		inst  uint64
		chain *gpbft.ECChain
	}
	maxBroadcastInst int64
	broadcasts       int
	freshUsed        int

	script  []func()
	opIdx   int
	log     []string
	cnt     map[string]int64
	timeout bool
	aborted string
	judgeC  bool
	peeks   bool // residency reads of the real buffer (off under the race detector: they are unsynchronised by design)
}

func (c *caseRun) logf(format string, a ...any) {
	c.log = append(c.log, fmt.Sprintf("%d: ", c.opIdx)+fmt.Sprintf(format, a...))
}

func (c *caseRun) witness(a *arrival, extra map[string]any) map[string]any {
	w := map[string]any{"case": c.i, "config": c.cfg, "progress": fmt.Sprint(c.shared.P.Progress().Instant)}
	lg := c.log
	if len(lg) > 120 {
		lg = lg[len(lg)-120:]
	}
	w["ops"] = lg
	if a != nil {
		w["arrival"] = map[string]any{"id": a.id, "position": a.slot.String(), "announced_key": keyStr(a.key), "built_as": a.desc, "reference": a.ref.String(),
			"arrived_at_op": a.opIdx, "equivocates_with_arrival": a.equivOf, "was_evicted": a.evicted, "emitted_times": a.emitted}
	}
	for k, v := range extra {
		w[k] = v
	}
	return w
}

func (c *caseRun) im(inst uint64) *instModel {
	m := c.model[inst]
	if m == nil {
		m = &instModel{slots: map[slotKey]*arrival{}}
		c.model[inst] = m
	}
	return m
}

// ---------------------------------------------------------------------------
// waiting (bounded polling only)

func (c *caseRun) poll(cond func() bool) bool {
	if c.timeout {
		return false
	}
	deadline := time.Now().Add(watchdog)
	for spin := 0; ; spin++ {
		if cond() {
			return true
		}
		if spin < 8 {
			runtime.Gosched()
			continue
		}
		if time.Now().After(deadline) {
			c.timeout = true
			q := c.pmm.VerifQueues()
			c.logf("WATCHDOG: bounded wait expired; queues=%+v", q)
			if os.Getenv("C13MGR_DEBUG") != "" {
				buf := make([]byte, 1<<20)
				fmt.Printf("WATCHDOG case=%d queues=%+v last=%v\n%s\n", c.i, q, c.log[max(0, len(c.log)-4):], buf[:runtime.Stack(buf, true)])
			}
			return false
		}
		time.Sleep(20 * time.Microsecond)
	}
}

func (c *caseRun) queuesEmpty() bool {
	q := c.pmm.VerifQueues()
	return q.PartialLen == 0 && q.DiscoveredLen == 0 && q.RemovalLen == 0
}

// barrier returns once everything handed to the manager so far has been fully
// processed by its (single) event loop: all queues were seen empty, then a no-op
// sentinel (removal of instances below 0) was taken by the loop, which it can
// only do after finishing the previous event.
func (c *caseRun) barrier() bool {
	for round := 0; round < 8; round++ {
		if !c.poll(c.queuesEmpty) {
			return false
		}
		c.pmm.RemoveMessagesBeforeInstance(c.ctx, 0)
		if !c.poll(func() bool { return c.pmm.VerifQueues().RemovalLen == 0 }) {
			return false
		}
		if c.queuesEmpty() {
			for _, a := range c.arrivals {
				if a.handed && a.sure {
					a.settled = true
				}
			}
			return true
		}
	}
	c.timeout = true
	return false
}

// ---------------------------------------------------------------------------
// judging a completed message

func (c *caseRun) mkFresh() *vmsg.Driven {
	old := c.env.Rng
	c.env.Rng = c.aux
	defer func() { c.env.Rng = old }()
	d := vmsg.NewDriven(c.env, gpbft.WithMaxCachedMessagesPerInstance(c.cfg.ValCache))
	if d.DriveTo(c.target) != nil {
		return nil
	}
	for _, p := range c.prog {
		if d.P.StartInstanceAt(p.inst, d.Host.Now) != nil {
			return nil
		}
		if p.alarm {
			_ = d.P.ReceiveAlarm(c.ctx)
		}
	}
	if d.P.Progress().Instant != c.shared.P.Progress().Instant {
		return nil
	}
	return d
}

// judgeCompleted runs the second stage on a message the manager completed and
// applies oracle parts (a) and (b).
func (c *caseRun) judgeCompleted(pv gpbft.PartiallyValidatedMessage, via string) {
	pm := pv.PartialMessage()
	a := c.byPtr[pm]
	if a == nil {
		c.run.Violation("C13 manager emitted a completed message that was never handed to it", c.witness(nil, map[string]any{"via": via}))
		return
	}
	if via == "drain" {
		a.emitted++
		c.cnt["completed_drained"]++
		if a.emitted > 1 {
			c.cnt["duplicate_emissions"]++
		}
		if a.modelIn {
			a.modelIn = false
			m := c.im(a.slot.inst)
			if m.slots[a.slot] == a {
				delete(m.slots, a.slot)
			}
		}
		a.resident = false
	}
	completed := vmsg.Clone(pm.GMessage)
	keyOK := completed.Vote.Value.Key() == a.key
	vm, err := c.shared.P.FullyValidateMessage(c.ctx, pv)
	two := class(err)
	_, oerr := c.twin.P.ValidateMessage(c.ctx, vmsg.Clone(completed))
	one := class(oerr)
	c.run.Eval(1)
	phase := completed.Vote.Phase.String()
	c.run.Distinct(fmt.Sprintf("%s|%s|cap%d|%s|two=%s|one=%s|keyOK=%v|equiv=%v|evictedBefore=%v", via, phase, c.cfg.Cap, a.desc, two, one, keyOK, a.equivOf >= 0, a.evicted))
	c.logf("%s completed #%d %s value=%s announced=%s -> full=%s one-shot=%s", via, a.id, a.slot, keyStr(completed.Vote.Value.Key()), keyStr(a.key), two, one)
	wit := func(extra map[string]any) map[string]any {
		w := map[string]any{"via": via, "two_stage": two, "one_shot": one, "completed_value_key": keyStr(completed.Vote.Value.Key()),
			"partial_message_key_field_now": keyStr(pm.VoteValueKey), "phase": phase}
		for k, v := range extra {
			w[k] = v
		}
		return c.witness(a, w)
	}
	if two == "panic" || two == "other" {
		c.run.Violation("C13 manager: full validation of a completed message returned a panic/unknown error", wit(nil))
	}
	// strip∘complete = id: a valid message completed with the chain it announced is the original message again
	if keyOK && a.ref == vmsg.Valid {
		c.cnt["roundtrips_checked"]++
		if !msgEqual(completed, a.orig) {
			c.run.Violation(fmt.Sprintf("C13 manager: message completed with the announced chain differs from the original message that was stripped (phase=%s)", phase), wit(nil))
		}
	}
	if err != nil {
		c.cnt["rejected_by_full_validation"]++
		c.cnt["rejected_by_full_validation_"+two]++
		if !keyOK {
			c.cnt["key_mismatch_rejections"]++
		} else if oerr == nil {
			c.run.Violation(fmt.Sprintf("C13 manager: two-stage path rejects (%s) a completed message that one-shot validation accepts (phase=%s)", two, phase), wit(nil))
		}
		return
	}
	a.admitted = true
	c.cnt["admitted"]++
	if a.equivOf >= 0 {
		c.cnt["admitted_equivocating_messages"]++
	}
	// (a) one-shot validation of the same completed message, same progress
	if oerr != nil {
		c.run.Violation(fmt.Sprintf("C13 manager: message admitted through the two-stage path is rejected by one-shot validation (one-shot=%s, phase=%s)", one, phase), wit(nil))
	}
	if oerr != nil || c.freshUsed < 2 {
		c.freshUsed++
		if f := c.mkFresh(); f != nil {
			_, ferr := f.P.ValidateMessage(c.ctx, vmsg.Clone(completed))
			c.cnt["fresh_participant_one_shot_checks"]++
			if ferr != nil && oerr == nil {
				c.run.Violation(fmt.Sprintf("C13 manager: message admitted through the two-stage path is rejected by one-shot validation on a fresh participant (one-shot=%s, phase=%s)", class(ferr), phase), wit(nil))
			}
		} else {
			c.cnt["fresh_participant_unavailable"]++
		}
	}
	if ref, why := c.env.RefValid(completed); ref == vmsg.Invalid {
		c.run.Violation("C13 manager: message admitted through the two-stage path is invalid by the reference rules: "+why, wit(map[string]any{"reference_reason": why}))
	}
	// (b) the chain is the announced one, and strip∘complete = id
	if !keyOK {
		c.run.Violation(fmt.Sprintf("C13 manager: message admitted through the two-stage path carries a chain whose key differs from the key its partial form announced (phase=%s)", phase), wit(nil))
	}
	if !msgEqual(vm.Message(), completed) {
		c.run.Violation(fmt.Sprintf("C13 manager: full validation returned a message other than the completed one (phase=%s)", phase), wit(nil))
	}
}

func (c *caseRun) drain() {
	for {
		select {
		case pv, ok := <-c.completed:
			if !ok {
				return
			}
			c.judgeCompleted(pv, "drain")
		default:
			return
		}
	}
}

// judgeCompleteness is oracle part (c); only called at quiescence in sync mode.
func (c *caseRun) judgeCompleteness() {
	if !c.judgeC {
		return
	}
	for _, a := range c.arrivals {
		if !a.expect || a.judged {
			continue
		}
		a.judged = true
		m := c.im(a.slot.inst)
		if m.overflowed || m.tainted || a.removed {
			c.cnt["completeness_not_judged_eviction_possible"]++
			continue
		}
		c.cnt["completeness_judged"]++
		c.run.Eval(1)
		if a.emitted == 0 {
			c.run.Violation(fmt.Sprintf("C13 manager: valid buffered message whose chain was discovered was never emitted completed (phase=%s)", a.slot.phase),
				c.witness(a, map[string]any{"discovered_at_op": a.expectOp}))
		}
	}
}

// sync = quiescence point.
func (c *caseRun) sync() bool {
	if !c.barrier() {
		return false
	}
	c.drain()
	c.judgeCompleteness()
	return true
}

// refreshResidency looks at the real buffer (loop idle) and records evictions.
func (c *caseRun) refreshResidency(inst uint64) {
	for _, b := range c.arrivals {
		if b.slot.inst != inst || !b.resident {
			continue
		}
		got, found, _ := c.pmm.VerifPeekBuffered(inst, b.slot.sender, b.slot.round, b.slot.phase)
		if found && got.PartialMessage() == b.pm {
			continue
		}
		b.resident = false
		if b.emitted == 0 && !b.removed {
			b.evicted = true
			c.cnt["evictions_observed"]++
		}
	}
}

// ---------------------------------------------------------------------------
// operations

func (c *caseRun) newSpec(inst uint64) slotSpec {
	cur := c.shared.P.Progress().Instant
	com := c.env.Coms[inst]
	s := slotSpec{inst: inst, senderIdx: c.env.SenderIdx(com), justKind: c.rng.Intn(2), justRound: uint64(pick(c.rng, 0, 0, 1, 2, 7))}
	phases := []gpbft.Phase{gpbft.QUALITY_PHASE, gpbft.CONVERGE_PHASE, gpbft.PREPARE_PHASE, gpbft.COMMIT_PHASE, gpbft.COMMIT_PHASE, gpbft.DECIDE_PHASE}
	s.phase = phases[c.rng.Intn(len(phases))]
	if inst+1 == cur.ID || (inst == cur.ID && cur.Phase == gpbft.DECIDE_PHASE && c.rng.Intn(4) != 0) {
		s.phase = gpbft.DECIDE_PHASE
	}
	base := uint64(0)
	if inst == cur.ID {
		base = cur.Round
	}
	s.round = base + uint64(c.rng.Intn(2))
	if base > 0 && c.rng.Intn(3) == 0 {
		s.round = base - 1
	}
	switch s.phase {
	case gpbft.QUALITY_PHASE, gpbft.DECIDE_PHASE:
		s.round = 0
	case gpbft.CONVERGE_PHASE:
		if s.round == 0 {
			s.round = 1
		}
	}
	return s
}

func (c *caseRun) pickInst() uint64 { return c.insts[c.rng.Intn(len(c.insts))] }

func (c *caseRun) pickSpec(inst uint64) slotSpec {
	pool := c.pools[inst]
	limit := 5
	if c.cfg.Cap <= 5 {
		limit = c.cfg.Cap + 2 + c.rng.Intn(3)
	}
	if len(pool) == 0 || (len(pool) < limit && c.rng.Intn(100) < 55) {
		s := c.newSpec(inst)
		c.pools[inst] = append(pool, s)
		return s
	}
	return pool[c.rng.Intn(len(pool))]
}

// build makes the factory message for a position; valIdx -1 = bottom (COMMIT only).
func (c *caseRun) build(s slotSpec, valIdx int) *gpbft.GMessage {
	var v *gpbft.ECChain
	if valIdx >= 0 {
		vals := c.env.Values[s.inst]
		v = vals[valIdx%len(vals)]
	}
	return c.env.ValidMessage(s.inst, s.round, s.phase, v, s.senderIdx, s.justKind, s.justRound)
}

func (c *caseRun) pickValIdx(s slotSpec) int {
	if s.phase == gpbft.COMMIT_PHASE && c.rng.Intn(4) == 0 {
		return -1
	}
	if s.phase == gpbft.PREPARE_PHASE && c.rng.Intn(25) == 0 {
		return -1 // PREPARE for bottom: the rules are silent; never expected, still exercised
	}
	return c.rng.Intn(len(c.env.Values[s.inst]))
}

func (c *caseRun) record(orig *gpbft.GMessage, desc string) *arrival {
	ref, _ := c.env.RefValid(orig)
	pm, err := c.pmm.ToPartialGMessage(vmsg.Clone(orig))
	if err != nil || pm == nil {
		return nil
	}
	a := &arrival{id: len(c.arrivals), orig: orig, ref: ref, desc: desc, pm: pm, key: pm.VoteValueKey, opIdx: c.opIdx, equivOf: -1,
		slot: slotKey{inst: orig.Vote.Instance, sender: orig.Sender, round: orig.Vote.Round, phase: orig.Vote.Phase}}
	for _, b := range c.arrivals {
		if b.handed && b.slot == a.slot && b.key != a.key {
			a.equivOf = b.id
		}
	}
	c.arrivals = append(c.arrivals, a)
	c.byPtr[pm] = a
	return a
}

// judgeOneShotCompleted: CompleteMessage found the chain before any validation
// (the production arrival flow); the completed message goes through one-shot
// validation. Only the round trip and the key are judged here.
func (c *caseRun) judgeOneShotCompleted(a *arrival, g *gpbft.GMessage) {
	c.cnt["completed_on_arrival"]++
	c.run.Eval(1)
	if g == nil {
		c.run.Violation("C13 manager: CompleteMessage reported success without a message", c.witness(a, nil))
		return
	}
	keyOK := g.Vote.Value.Key() == a.key
	_, err := c.shared.P.ValidateMessage(c.ctx, g)
	c.logf("arrival #%d %s key=%s completed on arrival (value=%s) -> one-shot=%s", a.id, a.slot, keyStr(a.key), keyStr(g.Vote.Value.Key()), class(err))
	if err == nil && !keyOK {
		c.run.Violation(fmt.Sprintf("C13 manager: message completed by CompleteMessage with a chain whose key differs from the announced key was admitted (phase=%s)", a.slot.phase), c.witness(a, map[string]any{"attached": keyStr(g.Vote.Value.Key())}))
	}
	if a.ref == vmsg.Valid {
		c.cnt["roundtrips_checked"]++
		if !msgEqual(g, a.orig) {
			c.run.Violation(fmt.Sprintf("C13 manager: message completed by CompleteMessage differs from the original message that was stripped (phase=%s)", a.slot.phase), c.witness(a, map[string]any{"attached": keyStr(g.Vote.Value.Key())}))
		}
	}
}

// arrive = one partial message reaching the node.
// flow 0: partial validation then buffering; flow 1: production order (CompleteMessage first).
func (c *caseRun) arrive(orig *gpbft.GMessage, desc string, flow int) *arrival {
	a := c.record(orig, desc)
	if a == nil {
		return nil
	}
	c.cnt["arrivals"]++
	if flow == 1 {
		if g, ok := c.pmm.CompleteMessage(c.ctx, a.pm); ok {
			c.judgeOneShotCompleted(a, g)
			return a
		}
	}
	pv, err := c.shared.P.PartiallyValidateMessage(c.ctx, a.pm)
	if err != nil {
		c.cnt["rejected_by_partial_validation"]++
		c.logf("arrival #%d %s key=%s (%s) -> stage1=%s", a.id, a.slot, keyStr(a.key), a.desc, class(err))
		if _, oerr := c.twin.P.ValidateMessage(c.ctx, vmsg.Clone(orig)); oerr == nil {
			c.run.Violation(fmt.Sprintf("C13 manager: first stage rejects (%s) the partial form of a message that one-shot validation accepts (phase=%s)", class(err), a.slot.phase), c.witness(a, nil))
		}
		return a
	}
	inst := a.slot.inst
	lenBefore := 0
	if c.cfg.Sync && c.peeks {
		_, _, lenBefore = c.pmm.VerifPeekBuffered(inst, a.slot.sender, a.slot.round, a.slot.phase)
	}
	q := c.pmm.VerifQueues()
	a.sure = q.PartialLen < q.PartialCap
	c.pmm.BufferPartialMessage(c.ctx, pv)
	a.handed = true
	c.cnt["messages_buffered"]++
	if a.equivOf >= 0 {
		c.cnt["equivocations_buffered"]++
	}
	if a.key.IsZero() {
		c.cnt["bottom_messages_buffered"]++
	}
	if a.orig.Justification != nil {
		c.cnt["justified_messages_buffered"]++
	}
	m := c.im(inst)
	if !a.sure {
		m.tainted = true
		c.cnt["enqueue_maybe_dropped"]++
	} else if m.slots[a.slot] == nil {
		m.slots[a.slot] = a
		a.modelIn = true
		if len(m.slots) > c.cfg.Cap {
			if !m.overflowed {
				c.cnt["instances_with_capacity_exceeded"]++
			}
			m.overflowed = true
		}
	} else {
		c.cnt["duplicate_position_arrivals"]++
	}
	c.logf("arrival #%d %s key=%s (%s) -> buffered (equivocates with arrival %d)", a.id, a.slot, keyStr(a.key), a.desc, a.equivOf)
	if c.cfg.Sync {
		if !c.barrier() || !c.peeks {
			return a
		}
		got, found, lenAfter := c.pmm.VerifPeekBuffered(inst, a.slot.sender, a.slot.round, a.slot.phase)
		if found && got.PartialMessage() == a.pm {
			a.resident = true
			if lenBefore < 0 {
				lenBefore = 0
			}
			if lenAfter <= lenBefore {
				c.cnt["evictions_forced"] += int64(lenBefore + 1 - lenAfter)
			}
			if a.equivOf >= 0 {
				c.cnt["equivocations_resident_in_buffer"]++
			}
		}
		c.refreshResidency(inst)
	}
	return a
}

func (c *caseRun) opArrival() {
	inst := c.pickInst()
	s := c.pickSpec(inst)
	orig := c.build(s, c.pickValIdx(s))
	desc := "valid"
	if c.rng.Intn(100) < 12 {
		op := c.rng.Intn(vmsg.NumOps)
		if cm, label := c.env.Corrupt(orig, op); cm != nil {
			orig, desc = cm, fmt.Sprintf("op%02d %s", op, label)
			c.cnt["corrupted_arrivals"]++
		}
	}
	c.arrive(orig, desc, pick(c.rng, 0, 0, 0, 1, 1))
}

// rebroadcast of an earlier message (fresh object, same content)
func (c *caseRun) opRearrive() {
	if len(c.arrivals) == 0 {
		c.opArrival()
		return
	}
	b := c.arrivals[c.rng.Intn(len(c.arrivals))]
	c.cnt["rebroadcast_arrivals"]++
	c.arrive(vmsg.Clone(b.orig), b.desc, pick(c.rng, 0, 1))
}

func (c *caseRun) discoverable(inst uint64) []*arrival {
	var out []*arrival
	for _, a := range c.arrivals {
		if a.slot.inst == inst && a.handed && !a.key.IsZero() {
			out = append(out, a)
		}
	}
	return out
}

func (c *caseRun) notify(inst uint64, chain *gpbft.ECChain, kind string) {
	K := chain.Key()
	if c.cfg.Sync && c.peeks {
		// pattern: an evicted message announced K, and the same position now holds a message announcing another key
		hit := false
		for _, a := range c.arrivals {
			if a.slot.inst != inst || a.key != K || !a.evicted || a.emitted > 0 || a.removed {
				continue
			}
			if got, found, _ := c.pmm.VerifPeekBuffered(inst, a.slot.sender, a.slot.round, a.slot.phase); found {
				if b := c.byPtr[got.PartialMessage()]; b != nil && b != a && b.key != K {
					hit = true
				}
			}
		}
		if hit {
			c.cnt["discoveries_with_evicted_announcer_and_resident_equivocation"]++
		}
	}
	q := c.pmm.VerifQueues()
	room := q.DiscoveredLen < q.DiscoveredCap
	asyncRisk := c.broadcasts > 0 && c.cfg.DiscBuf < 64 // the chain exchange may enqueue notifications concurrently
	matched := 0
	for _, a := range c.arrivals {
		if a.slot.inst == inst && a.key == K && a.handed {
			matched++
			if room && !asyncRisk && !K.IsZero() && a.modelIn && a.settled && a.ref == vmsg.Valid && !a.expect {
				a.expect = true
				a.expectOp = c.opIdx
			}
		}
	}
	c.pmm.NotifyChainDiscovered(c.ctx, inst, cloneChain(chain))
	c.cnt["chains_discovered"]++
	c.cnt["chains_discovered_"+kind]++
	if matched > 0 {
		c.cnt["chains_discovered_matching_an_announcement"]++
	}
	c.lastDisc.inst, c.lastDisc.chain = inst, chain
	c.logf("discover %s inst=%d key=%s len=%d (announcements with that key: %d)", kind, inst, keyStr(K), chain.Len(), matched)
}

func (c *caseRun) opDiscover() {
	inst := c.pickInst()
	cands := c.discoverable(inst)
	vals := c.env.Values[inst]
	r := c.rng.Intn(100)
	switch {
	case r < 58 && len(cands) > 0:
		a := cands[c.rng.Intn(len(cands))]
		c.notify(inst, a.orig.Vote.Value, "announced")
	case r < 66 && len(cands) > 0:
		v := cands[c.rng.Intn(len(cands))].orig.Vote.Value
		if v.Len() > 1 && c.rng.Intn(2) == 0 {
			c.notify(inst, v.Prefix(c.rng.Intn(v.Len()-1)), "prefix")
		} else if !v.IsZero() {
			c.notify(inst, v.Extend([]byte(fmt.Sprintf("extension-key-%d-xxxxxxxxxxxxxxxxxxxxxxxx", c.rng.Intn(3)))), "extension")
		}
	case r < 80:
		c.notify(inst, vals[c.rng.Intn(len(vals))], "value-of-instance")
	case r < 86:
		other := c.insts[c.rng.Intn(len(c.insts))]
		ov := c.env.Values[other]
		c.notify(inst, ov[c.rng.Intn(len(ov))], "value-of-any-instance")
	case r < 93 && c.lastDisc.chain != nil:
		c.notify(c.lastDisc.inst, c.lastDisc.chain, "repeat")
	default:
		c.notify(inst, vfix.Chain(int64(5000+c.rng.Intn(50)), 1+c.rng.Intn(3), "unrelated", c.env.PTCid), "unrelated")
	}
}

func (c *caseRun) opDiscoverBottom() {
	c.notify(c.pickInst(), &gpbft.ECChain{}, "bottom")
}

// two-stage path through CompleteMessage instead of the buffer
func (c *caseRun) opCompleteDirect() {
	var orig *gpbft.GMessage
	desc := "valid"
	if len(c.arrivals) > 0 && c.rng.Intn(2) == 0 {
		b := c.arrivals[c.rng.Intn(len(c.arrivals))]
		orig, desc = vmsg.Clone(b.orig), b.desc
	} else {
		s := c.pickSpec(c.pickInst())
		orig = c.build(s, c.pickValIdx(s))
	}
	a := c.record(orig, desc)
	if a == nil {
		return
	}
	c.cnt["complete_direct_ops"]++
	pv, err := c.shared.P.PartiallyValidateMessage(c.ctx, a.pm)
	if err != nil {
		c.logf("complete-direct #%d %s -> stage1=%s", a.id, a.slot, class(err))
		return
	}
	g, ok := c.pmm.CompleteMessage(c.ctx, pv.PartialMessage())
	if !ok {
		c.logf("complete-direct #%d %s key=%s -> chain unknown", a.id, a.slot, keyStr(a.key))
		return
	}
	if g != pv.PartialMessage().GMessage {
		c.run.Violation("C13 manager: CompleteMessage returned a message other than the one it was given", c.witness(a, nil))
		return
	}
	c.cnt["complete_direct_completed"]++
	c.judgeCompleted(pv, "complete-message")
}

// the node's own proposal: goes to the real chain exchange, which caches it and notifies the manager
func (c *caseRun) opBroadcast() {
	inst := c.pickInst()
	vals := c.env.Values[inst]
	chain := vals[c.rng.Intn(len(vals))]
	q := c.pmm.VerifQueues()
	if q.BroadcastLen >= q.BroadcastCap {
		return
	}
	if err := c.pmm.BroadcastChain(c.ctx, inst, cloneChain(chain)); err != nil {
		return
	}
	c.broadcasts++
	c.cnt["chain_broadcasts"]++
	c.logf("broadcast-chain inst=%d key=%s", inst, keyStr(chain.Key()))
	if !c.poll(func() bool { return c.pmm.VerifQueues().BroadcastLen == 0 }) {
		return
	}
	tooOld := int64(inst) < c.maxBroadcastInst
	if int64(inst) > c.maxBroadcastInst {
		c.maxBroadcastInst = int64(inst)
	}
	if !c.cfg.Sync || tooOld {
		return
	}
	// same-instance requests are only published on the next tick
	c.clk.Add(2 * time.Second)
	ex := c.pmm.VerifChainex()
	deadline := time.Now().Add(40 * time.Millisecond) // not a verdict: only lets the asynchronous caching settle before the next operation
	for {
		if w, ph, _ := ex.VerifPeek(inst, chain.Key()); w && !ph {
			c.cnt["chain_broadcasts_seen_cached"]++
			break
		}
		if time.Now().After(deadline) {
			c.cnt["chain_broadcasts_not_seen_cached"]++
			break
		}
		time.Sleep(50 * time.Microsecond)
	}
	for k := 0; k < 4; k++ {
		runtime.Gosched()
	}
}

// a chain arriving from the network, injected exactly like the subscription loop does
func (c *caseRun) opRemote() {
	inst := c.pickInst()
	vals := c.env.Values[inst]
	chain := vals[c.rng.Intn(len(vals))]
	ex := c.pmm.VerifChainex()
	data, err := ex.VerifEncode(&chainexchange.Message{Instance: inst, Chain: cloneChain(chain), Timestamp: c.clk.Now().UnixMilli()})
	if err != nil {
		return
	}
	topic := c.topic
	msg := &pubsub.Message{Message: &pb.Message{Data: data, Topic: &topic, From: []byte(c.from)}, ReceivedFrom: c.from}
	verdict := ex.VerifValidate(c.ctx, c.from, msg)
	c.cnt["remote_chains"]++
	if verdict == pubsub.ValidationAccept && ex.VerifFeedValidated(c.ctx, msg) {
		c.cnt["remote_chains_admitted"]++
	}
	c.logf("remote-chain inst=%d key=%s verdict=%d", inst, keyStr(chain.Key()), verdict)
}

func (c *caseRun) opRemove() {
	lo, hi := c.insts[0], c.insts[0]
	for _, x := range c.insts {
		if x < lo {
			lo = x
		}
		if x > hi {
			hi = x
		}
	}
	before := lo + uint64(c.rng.Intn(int(hi-lo)+2))
	c.remove(before)
}

func (c *caseRun) remove(before uint64) {
	q := c.pmm.VerifQueues()
	sure := q.RemovalLen < q.RemovalCap
	c.pmm.RemoveMessagesBeforeInstance(c.ctx, before)
	c.cnt["instance_removals"]++
	c.logf("remove-before %d", before)
	for inst, m := range c.model {
		if inst >= before {
			continue
		}
		if !sure {
			m.tainted = true
			continue
		}
		m.slots = map[slotKey]*arrival{}
		m.overflowed = false
	}
	for _, a := range c.arrivals {
		if a.slot.inst < before && a.handed {
			if a.emitted == 0 && !a.removed {
				c.cnt["messages_removed_with_instance"]++
			}
			a.removed = true
			a.modelIn = false
			a.resident = false
		}
	}
}

func (c *caseRun) opProgress() {
	cur := c.shared.P.Progress().Instant
	next := cur.ID + 1
	if len(c.prog) >= 2 || c.env.Coms[next+c.cfg.Lookback-1] == nil {
		return
	}
	alarm := c.rng.Intn(2) == 0
	for _, d := range []*vmsg.Driven{c.shared, c.twin} {
		if err := d.P.StartInstanceAt(next, d.Host.Now); err != nil {
			c.aborted = "StartInstanceAt: " + err.Error()
			return
		}
		if alarm {
			_ = d.P.ReceiveAlarm(c.ctx)
		}
	}
	c.prog = append(c.prog, progressOp{next, alarm})
	if c.shared.P.Progress().Instant != c.twin.P.Progress().Instant {
		c.aborted = "participants diverged"
		return
	}
	c.cnt["progress_changes"]++
	c.logf("progress -> %v", c.shared.P.Progress().Instant)
	if c.rng.Intn(100) < 60 && next > 0 {
		c.remove(next - 1) // what the host does on a decision
	}
}

// scripted prefix of the eviction/equivocation/discovery shape, mixed with random ops
func (c *caseRun) makeScript() {
	inst := c.pickInst()
	s := c.newSpec(inst)
	c.pools[inst] = append(c.pools[inst], s)
	nv := len(c.env.Values[inst])
	v1 := c.rng.Intn(nv)
	v2 := (v1 + 1 + c.rng.Intn(nv-1)) % nv
	c.script = append(c.script, func() { c.arrive(c.build(s, v1), "valid", 0) })
	fillers := c.cfg.Cap + c.rng.Intn(2)
	for k := 0; k < fillers; k++ {
		c.script = append(c.script, func() {
			f := c.newSpec(inst)
			for tries := 0; tries < 8 && (f.senderIdx == s.senderIdx && f.round == s.round && f.phase == s.phase); tries++ {
				f = c.newSpec(inst)
			}
			c.arrive(c.build(f, c.pickValIdx(f)), "valid", 0)
		})
	}
	c.script = append(c.script, func() { c.arrive(c.build(s, v2), "valid", 0) })
	c.script = append(c.script, func() { c.notify(inst, c.env.Values[inst][v1], "announced") })
	if c.rng.Intn(2) == 0 {
		c.script = append(c.script, func() { c.notify(inst, c.env.Values[inst][v2], "announced") })
	}
}

func (c *caseRun) step() {
	if len(c.script) > 0 && c.rng.Intn(4) != 0 {
		f := c.script[0]
		c.script = c.script[1:]
		f()
	} else {
		switch r := c.rng.Intn(100); {
		case r < 42:
			c.opArrival()
		case r < 48:
			c.opRearrive()
		case r < 70:
			c.opDiscover()
		case r < 76:
			c.opCompleteDirect()
		case r < 81:
			c.opBroadcast()
		case r < 85:
			c.opRemote()
		case r < 88:
			c.opRemove()
		case r < 90:
			c.opProgress()
		case r < 92:
			c.opDiscoverBottom()
		default:
			if !c.cfg.Sync {
				c.cnt["explicit_barriers"]++
				if c.barrier() {
					c.drain()
				}
			}
		}
	}
	if c.cfg.Sync {
		c.sync()
	} else if c.rng.Intn(3) == 0 {
		c.drain()
	}
}

// finalSweep: every announced chain gets discovered, in random order.
func (c *caseRun) finalSweep() {
	type d struct {
		inst  uint64
		chain *gpbft.ECChain
	}
	var ds []d
	seen := map[string]bool{}
	for _, a := range c.arrivals {
		if !a.handed || a.key.IsZero() || a.orig.Vote.Value.Validate() != nil {
			continue
		}
		k := fmt.Sprintf("%d/%x", a.slot.inst, a.key[:])
		if !seen[k] {
			seen[k] = true
			ds = append(ds, d{a.slot.inst, a.orig.Vote.Value})
		}
	}
	c.rng.Shuffle(len(ds), func(i, j int) { ds[i], ds[j] = ds[j], ds[i] })
	for _, x := range ds {
		if c.timeout || c.aborted != "" {
			return
		}
		c.opIdx++
		c.notify(x.inst, x.chain, "sweep")
		if c.cfg.Sync {
			c.sync()
		}
	}
}

// ---------------------------------------------------------------------------

func genTarget(rng *rand.Rand, inst uint64) gpbft.Instant {
	t := gpbft.Instant{ID: inst, Round: uint64(rng.Intn(3))}
	phases := []gpbft.Phase{gpbft.INITIAL_PHASE, gpbft.QUALITY_PHASE, gpbft.QUALITY_PHASE, gpbft.PREPARE_PHASE, gpbft.PREPARE_PHASE, gpbft.COMMIT_PHASE, gpbft.COMMIT_PHASE, gpbft.CONVERGE_PHASE, gpbft.DECIDE_PHASE}
	t.Phase = phases[rng.Intn(len(phases))]
	switch t.Phase {
	case gpbft.INITIAL_PHASE, gpbft.QUALITY_PHASE:
		t.Round = 0
	case gpbft.CONVERGE_PHASE:
		if t.Round == 0 {
			t.Round = 1
		}
	}
	return t
}

func runCase(run *vkit.Run, i int, peeks bool) (cnt map[string]int64, status string) {
	seed := run.SubSeed(int64(i))
	rng := rand.New(rand.NewSource(seed))
	c := &caseRun{i: i, run: run, rng: rng, aux: rand.New(rand.NewSource(seed ^ 0x5eed)), cnt: map[string]int64{}, byPtr: map[*gpbft.PartialGMessage]*arrival{},
		model: map[uint64]*instModel{}, pools: map[uint64][]slotSpec{}, maxBroadcastInst: -1, peeks: peeks}
	cnt = c.cnt
	lookback := uint64(2 + rng.Intn(4))
	c.first = uint64(rng.Intn(1000))
	c.cfg = config{
		Cap:          pick(rng, 1, 2, 2, 3, 3, 5, 25000),
		CompletedBuf: pick(rng, 1, 2, 8, 100, 100, 100, 1000, 1000),
		PartialBuf:   pick(rng, 1, 4, 100, 100),
		DiscBuf:      pick(rng, 1, 4, 100, 100),
		RemovalBuf:   pick(rng, 1, 10),
		BroadcastBuf: pick(rng, 1, 100),
		Lookahead:    uint64(rng.Intn(int(lookback) + 1)),
		MaxDisc:      pick(rng, 1, 3, 1000),
		MaxWanted:    pick(rng, 1, 3, 1000, 1000),
		Compression:  rng.Intn(2) == 0,
		Lookback:     lookback,
		ValCache:     pick(rng, 4, 64, 2048),
		Sync:         rng.Intn(100) < 72,
		Scripted:     rng.Intn(100) < 35,
		Ops:          30 + rng.Intn(50),
	}
	if !peeks {
		// race detector: huge allocations (zstd tables, preallocated validator cache) cost seconds of shadow-memory work each
		c.cfg.Compression = false
		c.cfg.ValCache = min(c.cfg.ValCache, 64)
	}
	if c.cfg.Scripted && c.cfg.Cap > 5 {
		c.cfg.Cap = pick(rng, 1, 2, 3)
	}
	c.env = vmsg.NewEnv(rng, c.first, int(lookback)+4, lookback)
	c.target = genTarget(rng, c.first+2)
	mk := func() *vmsg.Driven {
		d := vmsg.NewDriven(c.env, gpbft.WithMaxCachedMessagesPerInstance(c.cfg.ValCache))
		if err := d.DriveTo(c.target); err != nil {
			return nil
		}
		return d
	}
	c.shared, c.twin = mk(), mk()
	if c.shared == nil || c.twin == nil {
		return cnt, "driver-failure"
	}

	m := manifest.LocalDevnetManifest()
	m.NetworkName = vfix.NN
	m.CommitteeLookback = lookback
	m.PartialMessageManager.MaxBufferedMessagesPerInstance = c.cfg.Cap
	m.PartialMessageManager.MaxCachedValidatedMessagesPerInstance = c.cfg.ValCache
	m.PartialMessageManager.CompletedMessagesBufferSize = c.cfg.CompletedBuf
	m.PartialMessageManager.PendingPartialMessagesBufferSize = c.cfg.PartialBuf
	m.PartialMessageManager.PendingDiscoveredChainsBufferSize = c.cfg.DiscBuf
	m.PartialMessageManager.PendingInstanceRemovalBufferSize = c.cfg.RemovalBuf
	m.PartialMessageManager.PendingChainBroadcastsBufferSize = c.cfg.BroadcastBuf
	m.ChainExchange.MaxInstanceLookahead = c.cfg.Lookahead
	m.ChainExchange.MaxDiscoveredChainsPerInstance = c.cfg.MaxDisc
	m.ChainExchange.MaxWantedChainsPerInstance = c.cfg.MaxWanted
	m.ChainExchange.RebroadcastInterval = 2 * time.Second
	m.PubSub.ChainCompressionEnabled = c.cfg.Compression
	if err := m.Validate(); err != nil {
		return cnt, "manifest-invalid: " + err.Error()
	}

	ctx, cancel := context.WithCancel(context.Background())
	defer cancel()
	c.ctx = ctx
	mnet := mocknet.New()
	defer mnet.Close()
	host, err := mnet.GenPeer()
	if err != nil {
		return cnt, "mocknet: " + err.Error()
	}
	c.from = host.ID()
	ps, err := pubsub.NewGossipSub(ctx, host, pubsub.WithFloodPublish(true), pubsub.WithMessageSignaturePolicy(pubsub.StrictNoSign))
	if err != nil {
		return cnt, "pubsub: " + err.Error()
	}
	c.clk = clock.NewMock()
	c.clk.Add(24 * time.Hour)
	c.topic = manifest.ChainExchangeTopicFromNetworkName(m.NetworkName)
	c.pmm, err = pmsg.NewPartialMessageManager(c.shared.P.Progress, ps, m, c.clk)
	if err != nil {
		return cnt, "manager: " + err.Error()
	}
	c.completed, err = c.pmm.Start(ctx)
	if err != nil {
		return cnt, "manager start: " + err.Error()
	}
	defer func() { _ = c.pmm.Shutdown(context.Background()) }()

	// instances in play
	cur := c.target.ID
	cands := []uint64{cur}
	for k := uint64(1); k < lookback; k++ {
		cands = append(cands, cur+k)
	}
	cands = append(cands, cur-1)
	nInst := 1 + rng.Intn(3)
	c.insts = []uint64{cur}
	if rng.Intn(4) == 0 {
		c.insts = nil
	}
	for len(c.insts) < nInst {
		x := cands[rng.Intn(len(cands))]
		dup := false
		for _, y := range c.insts {
			dup = dup || x == y
		}
		if !dup {
			c.insts = append(c.insts, x)
		}
		if len(c.insts) >= len(cands) {
			break
		}
	}
	c.judgeC = c.cfg.Sync && c.cfg.CompletedBuf >= 100
	if c.cfg.Scripted {
		c.makeScript()
	}
	for c.opIdx = 0; c.opIdx < c.cfg.Ops && !c.timeout && c.aborted == ""; c.opIdx++ {
		c.step()
	}
	for len(c.script) > 0 && !c.timeout && c.aborted == "" {
		f := c.script[0]
		c.script = c.script[1:]
		c.opIdx++
		f()
		if c.cfg.Sync {
			c.sync()
		}
	}
	if !c.timeout && c.aborted == "" {
		if c.barrier() {
			c.drain()
		}
		c.finalSweep()
		c.sync()
	}
	c.cnt["instances_in_play"] += int64(len(c.insts))
	if c.cfg.Sync {
		c.cnt["cases_sync_mode"]++
	} else {
		c.cnt["cases_async_mode"]++
	}
	if c.judgeC {
		c.cnt["cases_with_completeness_judged"]++
	}
	run.Eval(1)
	if i < 2 {
		lg := c.log
		if len(lg) > 25 {
			lg = lg[:25]
		}
		run.Sample(map[string]any{"case": i, "config": c.cfg, "target": fmt.Sprint(c.target), "instances": c.insts, "first_ops": lg})
	}
	switch {
	case c.timeout:
		return cnt, "timeout"
	case c.aborted != "":
		return cnt, "aborted: " + c.aborted
	}
	return cnt, ""
}

func TestCheck(t *testing.T) { runAll(t, "manager", true, 300, 20000) }

// TestRace is the same workload under the race detector (part "manager-race"):
// the manager's event loop, the chain exchange goroutines and the validating
// goroutine run concurrently; residency peeks are off.
func TestRace(t *testing.T) { runAll(t, "manager-race", false, 150, 4000) }

func runAll(t *testing.T, part string, peeks bool, quick, thorough int) {
	_ = logging.SetLogLevel("*", "fatal")
	run := vkit.New("C13", part, "exploration")
	run.SetRule("each case is one seeded operation sequence against a started production PartialMessageManager (buffer capacity from {1,2,3,5,25000}, queue sizes, chain-exchange limits and compression varied, manifest.Validate passing) with a real gpbft.Participant as validator: partial messages (production ToPartialGMessage of factory messages of every phase, equivocations at the same sender/instance/round/phase, rebroadcasts, justified messages, bottom values, 36 corruption operators) go through PartiallyValidateMessage and BufferPartialMessage (or the production order CompleteMessage first); chains are announced through NotifyChainDiscovered (announced chain, prefix, extension, other values, other instances, repeats, bottom), the node's own BroadcastChain and remote chain-exchange messages; direct CompleteMessage, RemoveMessagesBeforeInstance and instance changes of the participant are interleaved; everything the manager emits goes through FullyValidateMessage. 35% of the cases embed the shape announce-K / fill the buffer / same position announces K' / discover K. distinct non-trivial = distinct (path, phase, capacity, message kind, two-stage verdict, one-shot verdict, key consistency, equivocation, earlier eviction) combinations of judged completed messages")
	run.Assume("stand-in signatures (vsig)", "one mocknet host per case, no remote peers; remote chain-exchange messages are injected through the validator and the subscription loop's caching call",
		"quiescence of the manager's event loop is established with a no-op sentinel removal request and queue lengths read through an expose-only accessor; residency in the LRU buffer is read with lru.Peek while the loop is idle",
		"completeness (a valid buffered message whose chain was discovered is emitted) is judged only in sync-mode cases whose completed-messages channel cannot overflow, only for instances whose number of simultaneously occupied positions never exceeded the buffer capacity, and never for messages removed with their instance")
	n := run.N(quick, thorough)
	type res struct {
		cnt    map[string]int64
		status string
	}
	results := make([]res, n)
	body := func(i int) {
		cnt, status := runCase(run, i, peeks)
		if run.Case >= 0 {
			results[0] = res{cnt, status}
			return
		}
		results[i] = res{cnt, status}
	}
	if run.Case >= 0 {
		results = results[:1]
		body(int(run.Case))
	} else {
		vkit.Parallel(n, runtime.GOMAXPROCS(0), body)
	}
	var timeouts, failures int
	for _, r := range results {
		for k, v := range r.cnt {
			run.Count(k, v)
		}
		switch {
		case r.status == "timeout":
			timeouts++
		case r.status != "":
			failures++
			if failures <= 3 {
				fmt.Println("harness:", r.status)
			}
		}
	}
	run.Count("cases_inconclusive_timeout", int64(timeouts))
	run.Count("cases_harness_failure", int64(failures))
	if run.Case < 0 {
		nn := int64(n)
		switch {
		case int64(failures)*10 > nn:
			run.Inconclusive("harness-error")
		case int64(timeouts)*20 > nn:
			run.Inconclusive("watchdog")
		}
		floors := map[string]int64{
			"messages_buffered":                          4 * nn,
			"equivocations_buffered":                     nn / 2,
			"evictions_forced":                           nn / 4,
			"chains_discovered_matching_an_announcement": nn,
			"completed_drained":                          nn,
			"admitted":                                   nn / 2,
			"rejected_by_full_validation":                nn / 50,
			"completeness_judged":                        nn / 4,
			"discoveries_with_evicted_announcer_and_resident_equivocation": nn/40 + 2,
		}
		if !peeks {
			delete(floors, "evictions_forced")
			delete(floors, "discoveries_with_evicted_announcer_and_resident_equivocation")
			floors["instances_with_capacity_exceeded"] = nn / 4
		}
		var low []string
		for k, f := range floors {
			if run.Counter(k) < f {
				low = append(low, fmt.Sprintf("%s=%d<%d", k, run.Counter(k), f))
			}
		}
		// on a correct tree every eviction/equivocation/discovery shape ends in a key-mismatch rejection
		if run.Violations() == 0 && run.Counter("key_mismatch_rejections") < 1 {
			low = append(low, "key_mismatch_rejections=0")
		}
		if len(low) > 0 {
			fmt.Println("below floor:", strings.Join(low, " "))
			run.Inconclusive("too-few-events")
		}
	}
	rc := run.Finish()
	if rc != 0 {
		t.Fail()
	}
	if rc == 2 {
		os.Exit(2)
	}
}
