package mgr

// Standalone reproduction of a liveness defect seen while building the C13
// "manager" part (it is NOT a C13 violation; the check counts such cases as
// watchdog-inconclusive). Not part of any registered check part:
//
//	cd /verif/harness && C13MGR_REPRO=1 go test -tags verif -overlay /verif/.overlay.json -vet=off \
//	    -run '^TestReproCompletedDropDeadlock$' -v ./c13/mgr
//
// pmsg/partial_msg.go, chain-discovered branch of the event loop: when the
// non-blocking send on the completed-messages channel fails (channel full) the
// loop receives one element from that channel "to drop the earliest" with only
// ctx.Done() as the alternative. The loop is the channel's only sender, so if
// the consumer (host.go's runner loop) empties the channel between the failed
// send and that receive, the loop blocks for ever: nothing buffered is ever
// completed again, and BufferPartialMessage / NotifyChainDiscovered /
// RemoveMessagesBeforeInstance silently drop once their queues fill up.

import (
	"context"
	"math/rand"
	"os"
	"runtime"
	"testing"
	"time"

	"github.com/filecoin-project/go-f3/gpbft"
	"github.com/filecoin-project/go-f3/internal/clock"
	"github.com/filecoin-project/go-f3/manifest"
	"github.com/filecoin-project/go-f3/pmsg"
	"github.com/filecoin-project/go-f3/verifh/vfix"
	"github.com/filecoin-project/go-f3/verifh/vmsg"
	logging "github.com/ipfs/go-log/v2"
	pubsub "github.com/libp2p/go-libp2p-pubsub"
	mocknet "github.com/libp2p/go-libp2p/p2p/net/mock"
)

func TestReproCompletedDropDeadlock(t *testing.T) {
	if os.Getenv("C13MGR_REPRO") == "" {
		t.Skip("set C13MGR_REPRO=1")
	}
	_ = logging.SetLogLevel("*", "fatal")
	ctx, cancel := context.WithCancel(context.Background())
	defer cancel()
	for attempt := 1; attempt <= 400; attempt++ {
		rng := rand.New(rand.NewSource(int64(attempt)))
		env := vmsg.NewEnv(rng, 10, 7, 3)
		d := vmsg.NewDriven(env, gpbft.WithMaxCachedMessagesPerInstance(1024))
		if err := d.DriveTo(gpbft.Instant{ID: 12, Phase: gpbft.QUALITY_PHASE}); err != nil {
			t.Fatal(err)
		}
		m := manifest.LocalDevnetManifest()
		m.NetworkName = vfix.NN
		m.CommitteeLookback = 3
		m.ChainExchange.MaxInstanceLookahead = 3
		m.PartialMessageManager.CompletedMessagesBufferSize = 1 // legal (>= 1)
		m.PartialMessageManager.PendingPartialMessagesBufferSize = 1000
		if err := m.Validate(); err != nil {
			t.Fatal(err)
		}
		mnet := mocknet.New()
		host, err := mnet.GenPeer()
		if err != nil {
			t.Fatal(err)
		}
		ps, err := pubsub.NewGossipSub(ctx, host, pubsub.WithMessageSignaturePolicy(pubsub.StrictNoSign))
		if err != nil {
			t.Fatal(err)
		}
		pmm, err := pmsg.NewPartialMessageManager(d.P.Progress, ps, m, clock.NewMock())
		if err != nil {
			t.Fatal(err)
		}
		completed, err := pmm.Start(ctx)
		if err != nil {
			t.Fatal(err)
		}
		// 120 valid PREPARE votes (rounds 0..119 of the next instance) for one value, all buffered
		const inst, n = 13, 120
		value := env.Input[inst]
		sender := env.SenderIdx(env.Coms[inst])
		for r := uint64(0); r < n; r++ {
			msg := env.ValidMessage(inst, r, gpbft.PREPARE_PHASE, value, sender, 0, 0)
			pm, _ := pmm.ToPartialGMessage(msg)
			pv, err := d.P.PartiallyValidateMessage(ctx, pm)
			if err != nil {
				t.Fatal(err)
			}
			pmm.BufferPartialMessage(ctx, pv)
		}
		wait := func(cond func() bool) bool {
			deadline := time.Now().Add(3 * time.Second)
			for !cond() {
				if time.Now().After(deadline) {
					return false
				}
				time.Sleep(50 * time.Microsecond)
			}
			return true
		}
		if !wait(func() bool { return pmm.VerifQueues().PartialLen == 0 }) {
			t.Fatal("manager did not take the partial messages")
		}
		// the consumer: what host.go's runner loop does, concurrently with the manager
		stop := make(chan struct{})
		received := 0
		done := make(chan struct{})
		go func() {
			defer close(done)
			for {
				select {
				case <-stop:
					return
				case <-completed:
					received++
					runtime.Gosched()
				}
			}
		}()
		pmm.NotifyChainDiscovered(ctx, inst, value)
		// sentinel: the loop can only take it after it finished the discovery
		quiescent := wait(func() bool { return pmm.VerifQueues().DiscoveredLen == 0 })
		if quiescent {
			pmm.RemoveMessagesBeforeInstance(ctx, 0)
			quiescent = wait(func() bool { return pmm.VerifQueues().RemovalLen == 0 })
		}
		close(stop)
		<-done
		if !quiescent {
			buf := make([]byte, 1<<20)
			buf = buf[:runtime.Stack(buf, true)]
			t.Logf("attempt %d: event loop stuck for 3 s after the chain was discovered; consumer received %d of %d messages, completed channel len=%d.\nExpected: the loop returns to its select and takes the no-op removal request.\nActual: it never does. Goroutine dump follows.\n%s", attempt, received, n, len(completed), buf)
			t.Fail()
			return
		}
		_ = pmm.Shutdown(context.Background())
		_ = mnet.Close()
	}
	t.Log("not reproduced in 400 attempts")
}
