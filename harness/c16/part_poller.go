package c16

// part_poller.go: (c) the real polling.Poller with its own store against the scripted
// responder and against honest servers.

import (
	"bytes"
	"context"
	"errors"
	"fmt"
	"math/rand"
	"runtime"
	"sync"
	"time"

	"github.com/filecoin-project/go-f3/certexchange"
	"github.com/filecoin-project/go-f3/certexchange/polling"
	"github.com/filecoin-project/go-f3/certstore"
	"github.com/filecoin-project/go-f3/gpbft"
	"github.com/filecoin-project/go-f3/verifh/vkit"
	"github.com/filecoin-project/go-f3/verifh/vsig"
	"github.com/libp2p/go-libp2p/core/peer"
)

// pollerKinds: every script except the one that resets the stream after a valid prefix — a
// reset may or may not discard bytes already written, so "the valid prefix the peer sent" is not
// well defined for it (the client part keeps it, its oracle is an upper bound).
var pollerKinds = func() []string {
	var out []string
	for _, k := range scriptKinds {
		if k != "truncated-reset" {
			out = append(out, k)
		}
	}
	return out
}()

// pollRef is the reference outcome of one Poll computed from what the peer actually sent.
type pollRef struct {
	Next     uint64
	Table    gpbft.PowerEntries
	Allowed  []polling.PollStatus
	Rounds   int    // responses the reference consumed
	Extra    int    // responses the poller asked for beyond that
	Terminal string // why the reference stopped
	Accepted int
	Rejected int
	BadFirst string // a request whose FirstInstance is not the reference next instance
	Early    bool   // the reference wants another round but the poller stopped
}

func statusIn(s polling.PollStatus, set []polling.PollStatus) bool {
	for _, x := range set {
		if x == s {
			return true
		}
	}
	return false
}

// simulatePoll replays the responder's log against the reference client view and the
// independent certificate validator, following the comments in Poller.Poll.
func simulatePoll(log []exchange, n0 uint64, table gpbft.PowerEntries, prevHead *gpbft.TipSet) pollRef {
	ref := pollRef{Next: n0, Table: table}
	status := polling.PollMiss
	inconsistent := false
	for r := 0; r < len(log); r++ {
		ex := log[r]
		ref.Rounds = r + 1
		if ex.Req.FirstInstance != ref.Next && ref.BadFirst == "" {
			ref.BadFirst = fmt.Sprintf("round %d requested first=%d, reference next instance is %d", r, ex.Req.FirstInstance, ref.Next)
		}
		view := refClientView(ex)
		if !view.HeaderOK {
			ref.Allowed = []polling.PollStatus{polling.PollFailed}
			ref.Terminal = "request failed (no acceptable header)"
			ref.Extra = len(log) - ref.Rounds
			return ref
		}
		if ex.Pending >= ref.Next {
			status = polling.PollHit
		}
		roundStart := ref.Next
		got := 0
		for _, c := range view.Certs {
			nt, err := refValidate(netName, ref.Table, ref.Next, prevHead, c)
			if err != nil {
				ref.Rejected++
				ref.Allowed = []polling.PollStatus{polling.PollIllegal}
				ref.Terminal = "invalid certificate: " + err.Error()
				ref.Extra = len(log) - ref.Rounds
				return ref
			}
			ref.Table = nt
			ref.Next++
			prevHead = c.ECChain.TipSets[len(c.ECChain.TipSets)-1]
			got++
			ref.Accepted++
		}
		if view.StoppedBy != "eof" && view.StoppedBy != "limit" {
			ref.Rejected++
		}
		if got > 0 && ex.Pending < roundStart {
			inconsistent = true
		}
		if ex.Pending <= ref.Next {
			ref.Terminal = "peer has no more"
			ref.Allowed = []polling.PollStatus{status}
			if inconsistent {
				ref.Allowed = []polling.PollStatus{polling.PollMiss, polling.PollHit, polling.PollIllegal}
			}
			ref.Extra = len(log) - ref.Rounds
			return ref
		}
		if got == 0 {
			ref.Terminal = "no certificates but claims more"
			ref.Allowed = []polling.PollStatus{polling.PollFailed}
			ref.Extra = len(log) - ref.Rounds
			return ref
		}
	}
	ref.Early = true
	ref.Terminal = "peer advertised more and delivered certificates"
	ref.Allowed = []polling.PollStatus{status}
	return ref
}

// pollCut is the logical watchdog against a Poll that never returns: it cancels the Poll's
// context once the responder has served more than max requests since Arm.
type pollCut struct {
	mu      sync.Mutex
	max     int
	cancel  context.CancelFunc
	fired   bool
	streams int     // inbound streams counted by onStream since set()
	from    peer.ID // only streams from this peer count
}

func (p *pollCut) set(max int, c context.CancelFunc) {
	p.mu.Lock()
	p.max, p.cancel, p.fired, p.streams = max, c, false, 0
	p.mu.Unlock()
}

// onStream is the countingHost hook of the honest servers.
func (p *pollCut) onStream(remote peer.ID) {
	p.mu.Lock()
	defer p.mu.Unlock()
	if remote != p.from {
		return
	}
	p.streams++
	if p.cancel != nil && p.streams > p.max && !p.fired {
		p.fired = true
		p.cancel()
	}
}

func (p *pollCut) streamCount() int { p.mu.Lock(); defer p.mu.Unlock(); return p.streams }

func (p *pollCut) onServe(n int) {
	p.mu.Lock()
	defer p.mu.Unlock()
	if p.cancel != nil && n > p.max && !p.fired {
		p.fired = true
		p.cancel()
	}
}

func (p *pollCut) wasFired() bool { p.mu.Lock(); defer p.mu.Unlock(); return p.fired }

// checkStore verifies that the poller's store holds, from instance from on, exactly validly
// signed reference certificates up to (excluding) wantNext and nothing else.
func checkStore(ctx context.Context, ch *Chain, cs *certstore.Store, from, wantNext uint64) (stored int, problem string) {
	var latestNext uint64 = ch.First
	if l := cs.Latest(); l != nil {
		latestNext = l.GPBFTInstance + 1
	}
	table := ch.Tables[from-ch.First]
	var prev *gpbft.TipSet
	if from > ch.First {
		pc, err := cs.Get(ctx, from-1)
		if err != nil {
			return 0, fmt.Sprintf("store lost certificate %d: %v", from-1, err)
		}
		prev = pc.ECChain.TipSets[len(pc.ECChain.TipSets)-1]
	}
	for inst := from; inst < latestNext; inst++ {
		c, err := cs.Get(ctx, inst)
		if err != nil {
			return stored, fmt.Sprintf("store has a gap at %d below its latest %d: %v", inst, latestNext-1, err)
		}
		nt, err := refValidate(netName, table, inst, prev, c)
		if err != nil {
			return stored, fmt.Sprintf("store holds a certificate at %d that does not validate against the table at that point: %v", inst, err)
		}
		if idx := inst - ch.First; idx >= uint64(len(ch.Raw)) || !bytes.Equal(encodeCert(c), ch.Raw[idx]) {
			return stored, fmt.Sprintf("store holds a certificate at %d that is not the reference certificate", inst)
		}
		table = nt
		prev = c.ECChain.TipSets[len(c.ECChain.TipSets)-1]
		stored++
	}
	if latestNext != wantNext {
		return stored, fmt.Sprintf("store advanced to next instance %d, the valid prefix ends at %d", latestNext, wantNext)
	}
	if _, err := cs.Get(ctx, wantNext); !errors.Is(err, certstore.ErrCertNotFound) {
		return stored, fmt.Sprintf("store answers for instance %d beyond the valid prefix (err=%v)", wantNext, err)
	}
	return stored, ""
}

func pollerPart(run *vkit.Run) {
	n := run.N(160, 9000)
	vkit.Parallel(n, runtime.GOMAXPROCS(0), func(i int) {
		caseNo := 200000 + i
		if run.Case >= 0 && int64(caseNo) != run.Case {
			return
		}
		seed := run.SubSeed(int64(caseNo))
		rng := rand.New(rand.NewSource(seed))
		length := 20 + rng.Intn(50)
		if rng.Intn(5) == 0 {
			length = 300 + rng.Intn(280)
		}
		mode := rng.Intn(3)
		first := firstFor(mode, length, rng)
		ch, alt, other := chainTriple(seed, first, length, uint32(caseNo))
		ctx, cancel := context.WithTimeout(context.Background(), 5*time.Minute)
		defer cancel()
		mn, hs, err := newNet(5)
		if err != nil {
			herr(run, "poller:1")
			return
		}
		defer mn.Close()
		p0 := rng.Intn(8)
		if rng.Intn(3) == 0 {
			p0 = 0
		}
		if first != 0 && p0 == 0 {
			// polling.NewPoller cannot be constructed over an EMPTY store whose first instance is
			// not 0 (it asks the store for the power table of instance 0); outside this property.
			p0 = 1
		}
		pstore, err := newStore(ctx, ch, p0)
		if err != nil {
			herr(run, "poller:2")
			return
		}
		// honest server A
		hA := rng.Intn(length + 1)
		storeA, err := newStore(ctx, ch, hA)
		if err != nil {
			herr(run, "poller:3")
			return
		}
		cut := &pollCut{from: hs[0].ID()}
		srvA := &certexchange.Server{NetworkName: netName, Host: countingHost{Host: hs[2], onStream: cut.onStream}, Store: storeA}
		// honest server B whose store starts later than the chain (cannot serve early instances)
		skip := 1 + rng.Intn(length/2)
		hB := skip + 1 + rng.Intn(length-skip)
		storeB, err := newStoreFrom(ctx, ch, skip, hB)
		if err != nil {
			herr(run, "poller:4")
			return
		}
		srvB := &certexchange.Server{NetworkName: netName, Host: countingHost{Host: hs[3], onStream: cut.onStream}, Store: storeB}
		for _, s := range []*certexchange.Server{srvA, srvB} {
			if err := s.Start(ctx); err != nil {
				herr(run, "poller:5")
				return
			}
			defer s.Stop(context.Background()) //nolint:errcheck
		}
		resp := &Responder{Chain: ch, Alt: alt, Other: other, onServe: cut.onServe}
		hs[1].SetStreamHandler(certexchange.FetchProtocolName(netName), resp.Handle)
		poller, err := polling.NewPoller(ctx, &certexchange.Client{Host: hs[0], NetworkName: netName}, pstore, vsig.Backend{})
		if err != nil {
			herr(run, "poller:6")
			return
		}
		refStored := p0 // number of chain certificates the poller's store must hold
		steps := 7
		for step := 0; step < steps; step++ {
			n0 := ch.First + uint64(refStored)
			var prevHead *gpbft.TipSet
			if l := pstore.Latest(); l != nil {
				if l.GPBFTInstance+1 != n0 {
					herr(run, "poller:7")
					return
				}
				prevHead = l.ECChain.TipSets[len(l.ECChain.TipSets)-1]
			} else if refStored != 0 {
				herr(run, "poller:8")
				return
			}
			action := rng.Intn(10)
			if action == 0 {
				// local progress (as if GPBFT finished instances itself): exercised via CatchUp
				k := 1 + rng.Intn(3)
				for ; k > 0 && refStored < length; k-- {
					if err := pstore.Put(ctx, cloneCert(ch.Raw[refStored])); err != nil {
						herr(run, "poller:9")
						return
					}
					refStored++
					run.Count("poller_local_puts", 1)
				}
				continue
			}
			var (
				peerKind string
				target   = hs[1].ID()
				sc       Script
				ref      pollRef
			)
			maxRounds := length/256 + 6
			pctx, pcancel := context.WithCancel(ctx)
			cut.set(maxRounds, pcancel)
			switch {
			case action <= 5:
				peerKind = "responder"
				sc = Script{Kind: pollerKinds[rng.Intn(len(pollerKinds))], Pending: pendingModes[rng.Intn(len(pendingModes))], Once: rng.Intn(3) == 0}
				lo := refStored - 2
				if lo < 0 {
					lo = 0
				}
				sc.Served = lo + rng.Intn(length-lo+1)
				if rng.Intn(3) == 0 {
					sc.Served = length
				}
				span := sc.Served - refStored
				if span < 1 {
					span = 1
				}
				sc.At = n0 + uint64(rng.Intn(span))
				if rng.Intn(6) == 0 {
					sc.At = n0 // bad thing right at the start
				}
				resp.Arm(sc)
			case action <= 7:
				peerKind = "honest-server"
				target = hs[2].ID()
				grow := rng.Intn(30)
				if rng.Intn(4) == 0 {
					grow = length
				}
				for ; grow > 0 && hA < length; grow-- {
					if err := storeA.Put(ctx, cloneCert(ch.Raw[hA])); err != nil {
						herr(run, "poller:10")
						pcancel()
						return
					}
					hA++
				}
			case action == 8:
				peerKind = "honest-server-late-store"
				target = hs[3].ID()
			default:
				peerKind = "no-protocol"
				target = hs[4].ID()
			}
			nextBefore := poller.NextInstance
			res, perr := poller.Poll(pctx, target)
			fired := cut.wasFired()
			cut.set(1<<30, nil)
			pcancel()
			if ctx.Err() != nil {
				run.Inconclusive("watchdog")
				run.Count("watchdog_poll_"+peerKind+"_"+sc.Kind, 1)
				fmt.Printf("WATCHDOG poll case=%d step=%d peer=%s script=%s\n", caseNo, step, peerKind, sc.String())
				return
			}
			run.Eval(1)
			run.Count("polls", 1)
			run.Count("polls_"+peerKind, 1)
			w := map[string]any{"case": caseNo, "step": step, "peer": peerKind, "script": sc.String(), "chain_first": first, "chain_len": length,
				"store_next_before": n0, "poller_next_before": nextBefore, "poller_next_after": poller.NextInstance, "cut_by_harness": fired}
			if perr != nil || res == nil {
				run.Violation(fmt.Sprintf("poller: Poll returned an internal error against peer=%s script=%s: %v", peerKind, sc.Kind, perr), w)
				return
			}
			w["status"] = res.Status.String()
			w["error"] = fmt.Sprint(res.Error)
			w["received"] = res.ReceivedCertificates
			run.Count("poll_status_"+res.Status.String(), 1)
			overflow := false
			switch peerKind {
			case "responder":
				log := resp.Log()
				if len(log) == 0 {
					herr(run, "poller:11")
					return
				}
				run.Count("responder_scripts_run", 1)
				run.Count("poller_script_"+sc.Kind, 1)
				run.Count("poller_requests", int64(len(log)))
				ref = simulatePoll(log, n0, ch.Tables[refStored], prevHead)
				w["reference"] = map[string]any{"next": ref.Next, "rounds": ref.Rounds, "extra_requests": ref.Extra, "terminal": ref.Terminal, "allowed": fmt.Sprint(ref.Allowed)}
			default:
				var pend uint64
				var have, lo int // server holds chain certificates [lo,have)
				switch peerKind {
				case "honest-server":
					have = hA
				case "honest-server-late-store":
					have, lo = hB, skip
				}
				if have > 0 {
					pend = ch.First + uint64(have)
				}
				ref = pollRef{Next: n0, Table: ch.Tables[refStored]}
				switch {
				case peerKind == "no-protocol":
					ref.Allowed = []polling.PollStatus{polling.PollFailed}
					ref.Terminal = "peer does not speak the protocol"
				case pend > n0 && refStored < lo:
					ref.Allowed = []polling.PollStatus{polling.PollFailed}
					ref.Terminal = "server cannot serve the requested instance but advertises more"
				case pend >= n0:
					ref.Allowed = []polling.PollStatus{polling.PollHit}
					if pend > n0 {
						ref.Next = pend
						ref.Table = ch.Tables[have]
						ref.Accepted = have - refStored
						// the pinned server sends nothing when first+256 wraps around (defect 3)
						overflow = (pend-1)+serverMax < pend-1
					}
					ref.Terminal = "honest server at or ahead of us"
				default:
					ref.Allowed = []polling.PollStatus{polling.PollMiss}
					ref.Terminal = "honest server behind us"
				}
				w["reference"] = map[string]any{"next": ref.Next, "terminal": ref.Terminal, "allowed": fmt.Sprint(ref.Allowed), "server_pending": pend}
			}
			shape := fmt.Sprintf("peer=%s script=%s pending=%s once=%v", peerKind, sc.Kind, sc.Pending, sc.Once)
			// 1. nothing invalid in the store, advance exactly by the valid prefix
			stored, problem := checkStore(ctx, ch, pstore, n0, ref.Next)
			run.Count("poller_items_rejected", int64(ref.Rejected))
			bad := false
			if overflow {
				// Defect 3 (server): requests whose first+256 wraps around get no certificates. The
				// honest server then looks like "claims more, sends nothing"; how far the poller gets
				// depends on where the wrap starts. Only safety is asserted here, and the known
				// defects are reported under their own signatures.
				actual := ch.First
				if l := pstore.Latest(); l != nil {
					actual = l.GPBFTInstance + 1
				}
				stored, problem = checkStore(ctx, ch, pstore, n0, actual)
				run.Count("poller_certs_stored", int64(stored))
				if problem != "" {
					run.Violation(fmt.Sprintf("poller: %s (%s; reference: %s)", problem, shape, ref.Terminal), w)
					return
				}
				if poller.NextInstance != actual {
					run.Violation(fmt.Sprintf("poller: NextInstance=%d after Poll, store next is %d (status %s; %s)", poller.NextInstance, actual, res.Status, shape), w)
					return
				}
				if actual < ref.Next {
					run.Violation(fmt.Sprintf("poller vs honest server: no full progress because the server's first+limit overflows uint64: sent 0 of %d available certificates from %d (%s)", ref.Next-actual, actual, shape), w)
				}
				if fired {
					run.Violation(fmt.Sprintf("poller: Poll keeps re-requesting after a response with 0 deliverable certificates and pending>next once an earlier response delivered some (doc: treat as failure): cut by harness=%v after %d requests (%s)", fired, cut.streamCount(), shape), w)
				}
				refStored = int(actual - ch.First)
				continue
			}
			run.Count("poller_certs_stored", int64(stored))
			if problem != "" {
				bad = true
				run.Violation(fmt.Sprintf("poller: %s (%s; reference: %s)", problem, shape, ref.Terminal), w)
			}
			if ref.BadFirst != "" {
				bad = true
				run.Violation(fmt.Sprintf("poller: %s (%s)", ref.BadFirst, shape), w)
			}
			// 2. NextInstance / PowerTable consistent with the store
			if !bad && poller.NextInstance != ref.Next {
				bad = true
				run.Violation(fmt.Sprintf("poller: NextInstance=%d after Poll, valid prefix ends at %d (status %s; %s; reference: %s)", poller.NextInstance, ref.Next, res.Status, shape, ref.Terminal), w)
			}
			if !bad && !tablesEqual(poller.PowerTable, ref.Table) {
				bad = true
				run.Violation(fmt.Sprintf("poller: PowerTable after Poll is not the table for instance %d (%s)", ref.Next, shape), w)
			}
			// 3. termination
			if ref.Extra > 0 {
				if ref.Terminal == "no certificates but claims more" && ref.Accepted > 0 {
					run.Violation(fmt.Sprintf("poller: Poll keeps re-requesting after a response with 0 deliverable certificates and pending>next once an earlier response delivered some (doc: treat as failure): %d extra requests, cut by harness=%v (%s)", ref.Extra, fired, shape), w)
				} else {
					run.Violation(fmt.Sprintf("poller: %d more requests after the reference's final round (%s; cut by harness=%v; %s)", ref.Extra, ref.Terminal, fired, shape), w)
				}
			} else if fired {
				run.Violation(fmt.Sprintf("poller: Poll did not return within %d requests (%s)", maxRounds, shape), w)
			}
			if ref.Early {
				run.Violation(fmt.Sprintf("poller: stopped after %d responses although the peer advertised pending>next and delivered certificates (%s)", ref.Rounds, shape), w)
			}
			// 4. status class
			if !bad && !statusIn(res.Status, ref.Allowed) {
				run.Violation(fmt.Sprintf("poller: status %s, reference allows %v (%s; reference: %s)", res.Status, ref.Allowed, shape, ref.Terminal), w)
			}
			if bad {
				return // the case's reference bookkeeping is no longer meaningful
			}
			refStored = int(ref.Next - ch.First)
			if ref.Rounds > 1 {
				run.Count("polls_multi_round", 1)
			}
			if ref.Accepted > 0 {
				run.Count("polls_with_progress", 1)
			}
			if nextBefore != n0 {
				run.Count("polls_after_local_progress", 1)
			}
			if peerKind != "responder" || len(resp.Log()) > 0 {
				run.Distinct(fmt.Sprintf("poll %s %s %s once=%v rounds=%d allowed=%v progress=%v mode=%d", peerKind, sc.Kind, sc.Pending, sc.Once, ref.Rounds, ref.Allowed, ref.Accepted > 0, mode))
			}
			if i < 2 && step < 3 {
				run.Sample(map[string]any{"poll": w})
			}
		}
	})
}

func floors(run *vkit.Run) {
	if run.Case >= 0 {
		return
	}
	need := map[string]int64{
		"server_requests":                    1000,
		"server_certs_read_raw":              10000,
		"server_power_tables_checked":        100,
		"server_stores_with_evolving_tables": 3,
		"client_requests":                    200,
		"client_bad_headers_rejected":        5,
		"client_limit_enforced_cases":        3,
		"client_stop_sequence":               5,
		"client_stop_oversized":              3,
		"polls":                              300,
		"poller_certs_stored":                500,
		"poller_items_rejected":              50,
		"poll_status_PollHit":                20,
		"poll_status_PollMiss":               5,
		"poll_status_PollFailed":             20,
		"poll_status_PollIllegal":            20,
		"polls_multi_round":                  3,
	}
	for k, v := range need {
		if run.Counter(k) < v {
			fmt.Printf("FLOOR %s=%d < %d\n", k, run.Counter(k), v)
			run.Inconclusive("too-few-events")
		}
	}
	if run.Counter("harness_errors") > 0 {
		fmt.Printf("FLOOR harness_errors=%d\n", run.Counter("harness_errors"))
		run.Inconclusive("harness-error")
	}
	if u := run.Counter("client_good_header_refused_unexpected"); u > 0 {
		fmt.Printf("FLOOR client_good_header_refused_unexpected=%d (client refused a well-formed header on a clean stream)\n", u)
		run.Inconclusive("too-few-events")
	}
	if u := run.Counter("client_underdelivery"); u > 0 {
		fmt.Printf("FLOOR client_underdelivery=%d (client delivered fewer certificates than were sent intact)\n", u)
		run.Inconclusive("too-few-events")
	}
}
