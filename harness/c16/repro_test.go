package c16

// Standalone minimal reproductions of the defects the C16 monitor reports on the pinned tree.
// They are NOT part of ./check (which runs ^TestCheck...$ only). Run with
//
//	cd /verif/harness && GOPROXY=off GOFLAGS=-mod=mod go test -tags verif ./c16 -run 'TestRepro' -v
//
// Each test FAILS while the defect is present.

import (
	"bytes"
	"context"
	"math"
	"math/rand"
	"sync/atomic"
	"testing"
	"time"

	"github.com/filecoin-project/go-f3/certexchange"
	"github.com/filecoin-project/go-f3/certexchange/polling"
	"github.com/filecoin-project/go-f3/verifh/vsig"
)

// countCerts splits body into the stored encodings starting at first and returns how many it holds.
func countCerts(t *testing.T, ch *Chain, first uint64, body []byte) int {
	k := 0
	for len(body) > 0 {
		raw := ch.Raw[first-ch.First+uint64(k)]
		if !bytes.HasPrefix(body, raw) {
			t.Fatalf("body is not a slice of the store at certificate %d", k)
		}
		body = body[len(raw):]
		k++
	}
	return k
}

// Defect 3 of DESIGN.md §5: the server writes limit+1 certificates on the raw stream.
func TestReproServerLimitPlusOne(t *testing.T) {
	ctx := context.Background()
	ch := GenChain(rand.New(rand.NewSource(1)), GenOpts{Net: "repro", First: 0, N: 10, Universe: 1, Churn: 0.3, Members: 4})
	_, hs, err := newNet(2)
	if err != nil {
		t.Fatal(err)
	}
	cs, err := newStore(ctx, ch, 10)
	if err != nil {
		t.Fatal(err)
	}
	srv := &certexchange.Server{NetworkName: ch.Net, Host: hs[0], Store: cs}
	if err := srv.Start(ctx); err != nil {
		t.Fatal(err)
	}
	defer srv.Stop(ctx) //nolint:errcheck
	for _, limit := range []uint64{0, 1, 3} {
		res, err := rawRequest(ctx, hs[1], hs[0].ID(), ch.Net, certexchange.Request{FirstInstance: 2, Limit: limit})
		if err != nil || res.Refused {
			t.Fatalf("request failed: %v %+v", err, res)
		}
		if k := countCerts(t, ch, 2, res.Body); uint64(k) > limit {
			t.Errorf("first=2 limit=%d: server wrote %d certificates on the stream", limit, k)
		}
	}
}

// Same defect, overflow face: first+limit wraps around, the server then sends nothing although
// certificates are available.
func TestReproServerLimitOverflow(t *testing.T) {
	ctx := context.Background()
	first := uint64(math.MaxUint64 - 11) // certificates at 2^64-12 .. 2^64-3, pending 2^64-2
	ch := GenChain(rand.New(rand.NewSource(1)), GenOpts{Net: "repro", First: first, N: 10, Universe: 1, Churn: 0.3, Members: 4})
	_, hs, err := newNet(2)
	if err != nil {
		t.Fatal(err)
	}
	cs, err := newStore(ctx, ch, 10)
	if err != nil {
		t.Fatal(err)
	}
	srv := &certexchange.Server{NetworkName: ch.Net, Host: hs[0], Store: cs}
	if err := srv.Start(ctx); err != nil {
		t.Fatal(err)
	}
	defer srv.Stop(ctx) //nolint:errcheck
	res, err := rawRequest(ctx, hs[1], hs[0].ID(), ch.Net, certexchange.Request{FirstInstance: first + 2, Limit: 256})
	if err != nil || res.Refused {
		t.Fatalf("request failed: %v %+v", err, res)
	}
	if k := countCerts(t, ch, first+2, res.Body); k != 8 {
		t.Errorf("first=2^64-10 limit=256 pending=%d: server wrote %d certificates, 8 are stored from there", res.Header.PendingInstance, k)
	}
}

// Poller livelock: a peer that hands over at least one valid certificate and from then on keeps
// advertising a higher pending instance without sending anything deliverable is re-requested
// forever (the "gave me at least one" test in Poll is cumulative over the whole call).
func TestReproPollerLivelock(t *testing.T) {
	ctx, cancel := context.WithCancel(context.Background())
	defer cancel()
	ch := GenChain(rand.New(rand.NewSource(2)), GenOpts{Net: "repro", First: 0, N: 10, Universe: 1, Churn: 0.3, Members: 4})
	_, hs, err := newNet(2)
	if err != nil {
		t.Fatal(err)
	}
	resp := &Responder{Chain: ch}
	// certificates 0..2 valid, the stream is cut in the middle of certificate 3, pending = 10
	resp.Arm(Script{Kind: "truncated", At: 3, Pending: "honest", Served: 10})
	var requests atomic.Int64
	resp.onServe = func(n int) {
		requests.Store(int64(n))
		if n >= 50 {
			cancel()
		}
	}
	hs[0].SetStreamHandler(certexchange.FetchProtocolName(ch.Net), resp.Handle)
	cs, err := newStore(ctx, ch, 0)
	if err != nil {
		t.Fatal(err)
	}
	p, err := polling.NewPoller(ctx, &certexchange.Client{Host: hs[1], NetworkName: ch.Net, RequestTimeout: 10 * time.Second}, cs, vsig.Backend{})
	if err != nil {
		t.Fatal(err)
	}
	res, err := p.Poll(ctx, hs[0].ID())
	t.Logf("Poll returned %+v err=%v after %d requests; NextInstance=%d", res, err, requests.Load(), p.NextInstance)
	if requests.Load() > 3 {
		t.Errorf("Poll issued %d requests (cut by the test); the second one already got 0 certificates with pending > next", requests.Load())
	}
}
