package c16

// part_race.go: concurrent Puts into the serving store (and into the polling store) while raw
// requests and polls are in flight. Built with -race by the driver.

import (
	"context"
	"fmt"
	"math/rand"
	"runtime"
	"sync"
	"sync/atomic"
	"time"

	"github.com/filecoin-project/go-f3/certexchange"
	"github.com/filecoin-project/go-f3/certexchange/polling"
	"github.com/filecoin-project/go-f3/verifh/vkit"
	"github.com/filecoin-project/go-f3/verifh/vsig"
)

func racePart(run *vkit.Run) {
	n := run.N(10, 240)
	workers := runtime.GOMAXPROCS(0) / 3
	if workers < 1 {
		workers = 1
	}
	vkit.Parallel(n, workers, func(i int) {
		caseNo := 300000 + i
		if run.Case >= 0 && int64(caseNo) != run.Case {
			return
		}
		seed := run.SubSeed(int64(caseNo))
		rng := rand.New(rand.NewSource(seed))
		length := 300 + rng.Intn(120)
		mode := i % 3
		first := firstFor(mode, length, rng)
		ch := GenChain(rng, GenOpts{Net: netName, First: first, N: length, Universe: uint32(caseNo), Churn: 0.35, Members: 2 + rng.Intn(8)})
		ctx, cancel := context.WithTimeout(context.Background(), 10*time.Minute)
		defer cancel()
		mn, hs, err := newNet(3)
		if err != nil {
			herr(run, "race:1")
			return
		}
		defer mn.Close()
		s0 := rng.Intn(40)
		if rng.Intn(4) == 0 {
			s0 = 0
		}
		tokens := make(chan struct{}, length+8)
		var hookOn atomic.Bool
		var gets atomic.Int64
		// every datastore read of the serving store lets the putter advance by one certificate
		// and yields, so Puts land between the server's Latest() and its range reads
		cs, err := newStoreHook(ctx, ch, s0, func() {
			if !hookOn.Load() || gets.Add(1)%3 != 0 {
				return
			}
			select {
			case tokens <- struct{}{}:
			default:
			}
			runtime.Gosched()
			runtime.Gosched()
		})
		if err != nil {
			herr(run, "race:2")
			return
		}
		cut := &pollCut{from: hs[2].ID()}
		srv := &certexchange.Server{NetworkName: netName, Host: countingHost{Host: hs[0], onStream: cut.onStream}, Store: cs}
		if err := srv.Start(ctx); err != nil {
			herr(run, "race:3")
			return
		}
		defer srv.Stop(context.Background()) //nolint:errcheck
		p0 := rng.Intn(5)
		if first != 0 && p0 == 0 {
			p0 = 1 // NewPoller cannot be constructed over an empty store whose first instance is not 0
		}
		pstore, err := newStore(ctx, ch, p0)
		if err != nil {
			herr(run, "race:4")
			return
		}
		poller, err := polling.NewPoller(ctx, &certexchange.Client{Host: hs[2], NetworkName: netName}, pstore, vsig.Backend{})
		if err != nil {
			herr(run, "race:5")
			return
		}

		var started, done atomic.Int64 // server-store puts started / completed (counts of certificates in store)
		started.Store(int64(s0))
		done.Store(int64(s0))
		var wg sync.WaitGroup
		hookOn.Store(true)
		// putter for the serving store: paced by tokens released when a request starts
		wg.Add(1)
		go func() {
			defer wg.Done()
			for k := s0; k < length; k++ {
				select {
				case <-tokens:
				case <-ctx.Done():
					return
				}
				started.Add(1)
				if err := cs.Put(ctx, cloneCert(ch.Raw[k])); err != nil {
					herr(run, "race:6")
					return
				}
				done.Add(1)
				runtime.Gosched()
			}
		}()
		const requesters = 3
		const perRequester = 24
		release := (length-s0)/(requesters*perRequester) + 1
		desc := map[string]any{"n": length, "first_instance": first, "mode": modeName(mode), "initial": s0}
		pendMoved := atomic.Int64{}
		for g := 0; g < requesters; g++ {
			wg.Add(1)
			grng := rand.New(rand.NewSource(seed + int64(g) + 1))
			go func() {
				defer wg.Done()
				var lastP uint64
				for q := 0; q < perRequester; q++ {
					lo := int(done.Load())
					for r := 0; r < release; r++ {
						select {
						case tokens <- struct{}{}:
						default:
						}
					}
					var f uint64
					switch grng.Intn(6) {
					case 0:
						f = first - 1
					case 1:
						f = first + uint64(lo) // pending
					case 2:
						f = first + uint64(lo) + 1
					case 3:
						f = first
					default:
						f = first + uint64(grng.Intn(lo+2))
						if back := uint64(grng.Intn(270)); grng.Intn(2) == 0 && f-first >= back {
							f -= back
						}
					}
					rq := serverReq{First: f, Limit: limits[grng.Intn(len(limits))], PT: grng.Intn(2) == 0, Class: "concurrent"}
					if grng.Intn(3) == 0 {
						rq.Limit = uint64(1 + grng.Intn(300))
					}
					res, err := rawRequest(ctx, hs[1], hs[0].ID(), netName, certexchange.Request{FirstInstance: rq.First, Limit: rq.Limit, IncludePowerTable: rq.PT})
					hi := int(started.Load())
					if err != nil {
						if ctx.Err() != nil {
							run.Inconclusive("watchdog")
							return
						}
						herr(run, "race:7")
						continue
					}
					run.Eval(1)
					run.Count("server_requests", 1)
					if hi > lo {
						run.Count("server_requests_overlapping_puts", 1)
					}
					judgeResponse(run, "race", caseNo, ch, lo, hi, rq, res, desc)
					if !res.Refused {
						if res.Header.PendingInstance != lastP && q > 0 {
							pendMoved.Add(1)
						}
						lastP = res.Header.PendingInstance
						run.Distinct(fmt.Sprintf("race case=%d lim=%d pt=%v first-off=%d pending-off=%d", caseNo, rq.Limit, rq.PT, int64(rq.First-first), int64(res.Header.PendingInstance-first)))
					}
				}
			}()
		}
		// local progress on the polling node, racing with its own polls
		localStop := make(chan struct{})
		wg.Add(1)
		go func() {
			defer wg.Done()
			lr := rand.New(rand.NewSource(seed ^ 0x77))
			for {
				select {
				case <-localStop:
					return
				case <-ctx.Done():
					return
				default:
				}
				var next int
				if l := pstore.Latest(); l != nil {
					next = int(l.GPBFTInstance-first) + 1
				}
				if next >= int(done.Load()) || next >= length {
					runtime.Gosched()
					continue
				}
				if lr.Intn(3) == 0 {
					if err := pstore.Put(ctx, cloneCert(ch.Raw[next])); err != nil {
						herr(run, "race:8")
						return
					}
					run.Count("poller_local_puts", 1)
				}
				runtime.Gosched()
			}
		}()
		// the poller itself (single goroutine, as in production)
		for k := 0; k < 10; k++ {
			before := poller.NextInstance
			pctx, pcancel := context.WithCancel(ctx)
			cut.set(length+10, pcancel) // logical watchdog: every useful round delivers >= 1 certificate
			res, perr := poller.Poll(pctx, hs[0].ID())
			fired := cut.wasFired()
			cut.set(1<<30, nil)
			pcancel()
			if ctx.Err() != nil {
				run.Inconclusive("watchdog")
				break
			}
			run.Eval(1)
			run.Count("polls", 1)
			w := map[string]any{"case": caseNo, "poll": k, "store": desc, "next_before": before, "next_after": poller.NextInstance}
			if perr != nil || res == nil {
				run.Violation(fmt.Sprintf("poller: Poll returned an internal error under concurrent Puts: %v", perr), w)
				continue
			}
			run.Count("poll_status_"+res.Status.String(), 1)
			w["status"] = res.Status.String()
			w["error"] = fmt.Sprint(res.Error)
			switch res.Status {
			case polling.PollHit, polling.PollMiss:
			case polling.PollFailed:
				if poller.NextInstance+serverMax < poller.NextInstance {
					run.Violation(fmt.Sprintf("poller vs honest server: no full progress because the server's first+limit overflows uint64: sent 0 of %d available certificates from %d (race part)", done.Load()-int64(poller.NextInstance-first), poller.NextInstance), w)
					if fired {
						run.Violation(fmt.Sprintf("poller: Poll keeps re-requesting after a response with 0 deliverable certificates and pending>next once an earlier response delivered some (doc: treat as failure): cut by harness after %d requests (race part, honest server)", cut.max), w)
					}
				} else {
					run.Violation(fmt.Sprintf("poller: status %s against an honest server under concurrent Puts: %v", res.Status, res.Error), w)
				}
			default:
				run.Violation(fmt.Sprintf("poller: status %s against an honest server under concurrent Puts: %v", res.Status, res.Error), w)
			}
			if poller.NextInstance < before || poller.NextInstance > first+uint64(length) {
				run.Violation(fmt.Sprintf("poller: NextInstance moved from %d to %d outside the chain under concurrent Puts", before, poller.NextInstance), w)
			}
		}
		close(localStop)
		// let the putter finish
		for k := 0; k < length; k++ {
			select {
			case tokens <- struct{}{}:
			default:
			}
		}
		wg.Wait()
		if ctx.Err() != nil {
			run.Inconclusive("watchdog")
			return
		}
		var pnext uint64 = first
		if l := pstore.Latest(); l != nil {
			pnext = l.GPBFTInstance + 1
		}
		stored, problem := checkStore(ctx, ch, pstore, first, pnext)
		run.Count("poller_certs_stored", int64(stored))
		if problem != "" {
			run.Violation("poller: "+problem+" (race part)", map[string]any{"case": caseNo, "store": desc})
		}
		if pendMoved.Load() > 0 {
			run.Count("cases_with_moving_pending", 1)
		}
		run.Count("pending_changes_observed", pendMoved.Load())
		if i < 2 {
			run.Sample(map[string]any{"race_case": desc, "pending_changes": pendMoved.Load()})
		}
	})
	if run.Case < 0 {
		for k, v := range map[string]int64{"server_requests": 300, "server_requests_overlapping_puts": 50, "pending_changes_observed": 100, "polls": 50, "poller_certs_stored": 500} {
			if run.Counter(k) < v {
				fmt.Printf("FLOOR %s=%d < %d\n", k, run.Counter(k), v)
				run.Inconclusive("too-few-events")
			}
		}
		if run.Counter("harness_errors") > 0 {
			run.Inconclusive("harness-error")
		}
	}
}
