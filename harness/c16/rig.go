package c16

// rig.go: mocknet rig (design E4) — real certexchange.Server behind a mocknet host, a raw
// stream reader that speaks the protocol itself, and a scripted malicious responder (E3).

import (
	"bufio"
	"bytes"
	"context"
	"fmt"
	"io"
	"math"
	"math/rand"
	"sync"

	"github.com/filecoin-project/go-f3/certexchange"
	"github.com/filecoin-project/go-f3/certs"
	"github.com/filecoin-project/go-f3/certstore"
	"github.com/filecoin-project/go-f3/gpbft"
	"github.com/ipfs/go-datastore"
	ds_sync "github.com/ipfs/go-datastore/sync"
	"github.com/libp2p/go-libp2p/core/host"
	"github.com/libp2p/go-libp2p/core/network"
	"github.com/libp2p/go-libp2p/core/peer"
	"github.com/libp2p/go-libp2p/core/protocol"
	mocknetwork "github.com/libp2p/go-libp2p/p2p/net/mock"
)

const serverMax = 256 // the server-side response cap named by the property design

// newNet creates a fully linked and connected mocknet with n hosts.
func newNet(n int) (mocknetwork.Mocknet, []host.Host, error) {
	mn := mocknetwork.New()
	hs := make([]host.Host, n)
	for i := range hs {
		h, err := mn.GenPeer()
		if err != nil {
			return nil, nil, err
		}
		hs[i] = h
	}
	if err := mn.LinkAll(); err != nil {
		return nil, nil, err
	}
	if err := mn.ConnectAllButSelf(); err != nil {
		return nil, nil, err
	}
	return mn, hs, nil
}

// yieldDS is a datastore whose reads call a hook first (design E3: yield injection at an
// interface the harness implements, to widen race windows; no behaviour change).
type yieldDS struct {
	datastore.Datastore
	onGet func()
}

func (y yieldDS) Get(ctx context.Context, k datastore.Key) ([]byte, error) {
	if y.onGet != nil {
		y.onGet()
	}
	return y.Datastore.Get(ctx, k)
}

// newStore creates a certificate store holding the first n certificates of ch.
func newStore(ctx context.Context, ch *Chain, n int) (*certstore.Store, error) {
	return newStoreHook(ctx, ch, n, nil)
}

// newStoreHook is newStore with a hook called before every datastore read.
func newStoreHook(ctx context.Context, ch *Chain, n int, onGet func()) (*certstore.Store, error) {
	var ds datastore.Datastore = ds_sync.MutexWrap(datastore.NewMapDatastore())
	if onGet != nil {
		ds = yieldDS{Datastore: ds, onGet: onGet}
	}
	cs, err := certstore.CreateStore(ctx, ds, ch.First, ch.Tables[0])
	if err != nil {
		return nil, err
	}
	for i := 0; i < n; i++ {
		if err := cs.Put(ctx, cloneCert(ch.Raw[i])); err != nil {
			return nil, fmt.Errorf("put %d: %w", i, err)
		}
	}
	return cs, nil
}

// newStoreFrom creates a store whose first instance is ch.First+skip, holding certificates
// skip..n-1 of ch.
func newStoreFrom(ctx context.Context, ch *Chain, skip, n int) (*certstore.Store, error) {
	ds := ds_sync.MutexWrap(datastore.NewMapDatastore())
	cs, err := certstore.CreateStore(ctx, ds, ch.First+uint64(skip), ch.Tables[skip])
	if err != nil {
		return nil, err
	}
	for i := skip; i < n; i++ {
		if err := cs.Put(ctx, cloneCert(ch.Raw[i])); err != nil {
			return nil, fmt.Errorf("put %d: %w", i, err)
		}
	}
	return cs, nil
}

// rawResponse is what the harness's own reader saw on the stream.
type rawResponse struct {
	Refused bool   // stream failed before a complete header arrived
	ReadErr string // error of the read (reset, ...) if any
	Header  certexchange.ResponseHeader
	Body    []byte // every byte after the header until EOF / error
	Clean   bool   // stream ended with EOF (not reset)
}

// rawRequest opens the protocol stream itself, writes the request with the production codec and
// reads everything until EOF with its own loop.
func rawRequest(ctx context.Context, h host.Host, p peer.ID, net gpbft.NetworkName, req certexchange.Request) (*rawResponse, error) {
	s, err := h.NewStream(ctx, p, certexchange.FetchProtocolName(net))
	if err != nil {
		return nil, fmt.Errorf("open stream: %w", err)
	}
	defer func() { _ = s.Reset() }()
	var rb bytes.Buffer
	if err := req.MarshalCBOR(&rb); err != nil {
		return nil, err
	}
	if _, err := s.Write(rb.Bytes()); err != nil {
		return nil, fmt.Errorf("write request: %w", err)
	}
	if err := s.CloseWrite(); err != nil {
		return nil, fmt.Errorf("close write: %w", err)
	}
	var all []byte
	buf := make([]byte, 32<<10)
	res := &rawResponse{}
	for {
		n, err := s.Read(buf)
		all = append(all, buf[:n]...)
		if err == io.EOF {
			res.Clean = true
			break
		}
		if err != nil {
			res.ReadErr = err.Error()
			break
		}
	}
	r := bytes.NewReader(all)
	if err := res.Header.UnmarshalCBOR(r); err != nil {
		res.Refused = true
		if res.ReadErr == "" {
			res.ReadErr = "header: " + err.Error()
		}
		return res, nil
	}
	res.Body = all[len(all)-r.Len():]
	return res, nil
}

// ---------------------------------------------------------------------------------------------
// scripted responder

// item is one thing the responder writes after the header.
type item struct {
	Raw  []byte
	Note string // what it is (for witnesses)
}

// exchange is the log of one request served by the responder.
type exchange struct {
	Req       certexchange.Request
	NoHeader  bool   // the responder reset / sent garbage instead of a header
	HeaderRaw []byte // what was written as header
	Pending   uint64
	Items     []item
	Trunc     int  // >=0: the last item was cut to this many bytes, then the stream closed
	Reset     bool // stream reset at the end instead of closed
}

// Script is a malicious (or honest) responder behaviour; it is a pure function of the request
// and of how many requests were served since the last Arm().
type Script struct {
	Kind    string // see scriptKinds
	At      uint64 // absolute instance at which the bad thing happens
	Pending string // honest | zero | below | equal | cut | high | max
	Once    bool   // the bad thing only happens in the first response after Arm()
	Served  int    // the responder owns certificates [0,Served) of the chain
	NoCap   bool   // ignore the request's limit (send everything it has)
}

func (s Script) String() string {
	return fmt.Sprintf("%s@%d pending=%s once=%v served=%d nocap=%v", s.Kind, s.At, s.Pending, s.Once, s.Served, s.NoCap)
}

var scriptKinds = []string{
	"honest",
	"forged-signature", "forged-signers", "wrong-delta", "wrong-supplemental", "bottom",
	"instance-rewritten", "skip", "duplicate", "reordered",
	"other-network", "other-chain",
	"oversized", "garbage", "truncated", "truncated-reset",
	"no-header", "garbage-header", "oversized-header",
	"nothing",
}

// clientDropped are kinds the production client is expected to filter by itself (sequence / size
// / codec), as opposed to kinds that reach certificate validation.
var pendingModes = []string{"honest", "honest", "honest", "zero", "below", "equal", "cut", "high", "max"}

// Responder is a stream handler speaking the certificate exchange protocol by script.
type Responder struct {
	Chain *Chain
	Alt   *Chain // same content signed for another network
	Other *Chain // unrelated chain (other keys) at the same instances

	mu      sync.Mutex
	script  Script
	log     []exchange
	served  int
	onServe func(n int) // called (outside the lock) after each served request with the count since Arm
}

func (r *Responder) Arm(s Script) {
	r.mu.Lock()
	r.script = s
	r.log = nil
	r.served = 0
	r.mu.Unlock()
}

func (r *Responder) Log() []exchange {
	r.mu.Lock()
	defer r.mu.Unlock()
	return append([]exchange(nil), r.log...)
}

func bigTable(n int, powerBytes int) gpbft.PowerEntries {
	t := make(gpbft.PowerEntries, n)
	p := make([]byte, powerBytes)
	for i := range p {
		p[i] = 0xa5
	}
	for i := range t {
		t[i] = gpbft.PowerEntry{ID: gpbft.ActorID(i + 1), Power: gpbft.NewStoragePower(0), PubKey: bytes.Repeat([]byte{byte(i)}, 48)}
		t[i].Power.Int.SetBytes(p)
	}
	return t
}

// respond computes the scripted response for req.
func (r *Responder) respond(req certexchange.Request, nth int, sc Script) exchange {
	ch := r.Chain
	ex := exchange{Req: req, Trunc: -1}
	bad := !(sc.Once && nth > 0)
	kind := sc.Kind
	if !bad {
		kind = "honest"
	}
	have := ch.First + uint64(sc.Served) // responder's honest pending instance
	// honest slice
	var insts []uint64
	if req.FirstInstance >= ch.First && req.FirstInstance < have {
		lim := req.Limit
		if lim > serverMax {
			lim = serverMax
		}
		if sc.NoCap {
			lim = math.MaxUint64
		}
		for i := req.FirstInstance; i < have && uint64(len(insts)) < lim; i++ {
			insts = append(insts, i)
		}
	}
	rawOf := func(c *Chain, inst uint64) []byte { return c.Raw[inst-c.First] }
	for _, i := range insts {
		ex.Items = append(ex.Items, item{Raw: rawOf(ch, i), Note: fmt.Sprintf("valid[%d]", i)})
	}
	pos := -1 // position of instance At within the items
	if sc.At >= req.FirstInstance && sc.At-req.FirstInstance < uint64(len(insts)) {
		pos = int(sc.At - req.FirstInstance)
	}
	mutate := func(f func(c *certs.FinalityCertificate), note string) {
		if pos < 0 {
			return
		}
		c := cloneCert(ex.Items[pos].Raw)
		f(c)
		ex.Items[pos] = item{Raw: encodeCert(c), Note: fmt.Sprintf("%s[%d]", note, sc.At)}
	}
	switch kind {
	case "honest":
	case "forged-signature":
		mutate(func(c *certs.FinalityCertificate) { c.Signature[len(c.Signature)/2] ^= 0x40 }, kind)
	case "forged-signers":
		mutate(func(c *certs.FinalityCertificate) {
			// drop the first signer, keep the aggregate
			var idxs []int
			_ = c.Signers.ForEach(func(u uint64) error { idxs = append(idxs, int(u)); return nil })
			if len(idxs) > 1 {
				c.Signers = signersField(idxs[1:])
			} else {
				c.Signers = signersField(nil)
			}
		}, kind)
	case "wrong-delta":
		mutate(func(c *certs.FinalityCertificate) {
			c.PowerTableDelta = append(append(certs.PowerTableDiff(nil), c.PowerTableDelta...), certs.PowerTableDelta{
				ParticipantID: 1 << 40, PowerDelta: gpbft.NewStoragePower(7), SigningKey: bytes.Repeat([]byte{'v'}, 48)})
		}, kind)
	case "wrong-supplemental":
		mutate(func(c *certs.FinalityCertificate) {
			// a delta that hands all future power to the attacker, with the matching commitment;
			// only the signature stands in the way.
			t := ch.Tables[sc.At-ch.First]
			evil := certs.PowerTableDelta{ParticipantID: 1 << 40, PowerDelta: gpbft.NewStoragePower(0), SigningKey: append([]byte("vk"), bytes.Repeat([]byte{9}, 46)...)}
			evil.PowerDelta.Int.Lsh(evil.PowerDelta.Int.SetInt64(1), 200)
			d := append(append(certs.PowerTableDiff(nil), c.PowerTableDelta...), evil)
			if nt, err := refApplyDelta(t, d); err == nil {
				c.PowerTableDelta = d
				c.SupplementalData.PowerTable = tableCID(nt)
			} else {
				c.SupplementalData.Commitments[0] ^= 1
			}
		}, kind)
	case "bottom":
		mutate(func(c *certs.FinalityCertificate) { c.ECChain = nil }, kind)
	case "instance-rewritten":
		// the certificate of the NEXT instance relabelled to this one (passes a sequence check,
		// cannot pass validation), or the same certificate relabelled when there is no next.
		if pos >= 0 {
			src := sc.At
			if src+1 < have {
				src++
			} else if src > ch.First {
				src--
			}
			c := cloneCert(rawOf(ch, src))
			c.GPBFTInstance = sc.At
			ex.Items[pos] = item{Raw: encodeCert(c), Note: fmt.Sprintf("relabelled[%d as %d]", src, sc.At)}
		}
	case "skip":
		if pos >= 0 {
			ex.Items = append(ex.Items[:pos], ex.Items[pos+1:]...)
			if pos < len(ex.Items) {
				ex.Items[pos].Note += " (after skip)"
			}
		}
	case "duplicate":
		if pos >= 0 {
			dup := ex.Items[pos]
			dup.Note += " (duplicate)"
			ex.Items = append(ex.Items[:pos+1], append([]item{dup}, ex.Items[pos+1:]...)...)
		}
	case "reordered":
		if pos >= 0 && pos+1 < len(ex.Items) {
			ex.Items[pos], ex.Items[pos+1] = ex.Items[pos+1], ex.Items[pos]
		} else if pos > 0 {
			ex.Items[pos], ex.Items[pos-1] = ex.Items[pos-1], ex.Items[pos]
		} else if pos == 0 && sc.At+1 < have {
			ex.Items[0] = item{Raw: rawOf(ch, sc.At+1), Note: fmt.Sprintf("valid[%d] (out of place)", sc.At+1)}
		}
	case "other-network":
		if pos >= 0 {
			ex.Items[pos] = item{Raw: rawOf(r.Alt, sc.At), Note: fmt.Sprintf("other-network[%d]", sc.At)}
		}
	case "other-chain":
		if pos >= 0 {
			ex.Items[pos] = item{Raw: rawOf(r.Other, sc.At), Note: fmt.Sprintf("other-chain[%d]", sc.At)}
		}
	case "oversized":
		mutate(func(c *certs.FinalityCertificate) {
			// still a well-formed encoding (the codec admits 2 MiB signatures) but > 1 MiB
			c.Signature = append(c.Signature, make([]byte, 1<<20+4096)...)
		}, kind)
	case "garbage":
		if pos >= 0 {
			g := make([]byte, 64)
			rand.New(rand.NewSource(int64(sc.At))).Read(g)
			g[0] = 0x86 // looks like a 6-array, then noise
			ex.Items = append(ex.Items[:pos], item{Raw: g, Note: "garbage"})
		}
	case "truncated", "truncated-reset":
		if pos >= 0 {
			ex.Items = ex.Items[:pos+1]
			ex.Trunc = len(ex.Items[pos].Raw) / 2
			ex.Items[pos].Note += " (truncated)"
			ex.Reset = kind == "truncated-reset"
		}
	case "no-header":
		ex.NoHeader = true
		ex.Reset = true
	case "garbage-header":
		ex.NoHeader = true
		ex.HeaderRaw = []byte{0x9f, 0xff, 0x00, 0x01, 0x02}
	case "oversized-header":
		// handled below (needs the header)
	case "nothing":
		ex.Items = nil
	}
	// advertised pending instance
	switch sc.Pending {
	case "zero":
		ex.Pending = 0
	case "below":
		ex.Pending = req.FirstInstance - uint64(1+nth%3)
		if req.FirstInstance == 0 {
			ex.Pending = 0
		}
	case "equal":
		ex.Pending = req.FirstInstance
	case "cut":
		// consistent with the valid prefix: claims to have exactly the certificates before At
		ex.Pending = have
		if bad && sc.At >= req.FirstInstance && sc.At < have {
			ex.Pending = sc.At
		}
	case "high":
		ex.Pending = have + 1000
	case "max":
		ex.Pending = math.MaxUint64
	default:
		ex.Pending = have
	}
	if !ex.NoHeader {
		hdr := certexchange.ResponseHeader{PendingInstance: ex.Pending}
		if req.IncludePowerTable && req.FirstInstance >= ch.First && req.FirstInstance <= have {
			hdr.PowerTable = ch.Tables[req.FirstInstance-ch.First]
		}
		if kind == "oversized-header" {
			hdr.PowerTable = bigTable(8192, 120) // > 1 MiB, within codec limits
		}
		var hb bytes.Buffer
		if err := hdr.MarshalCBOR(&hb); err != nil {
			panic(err)
		}
		ex.HeaderRaw = hb.Bytes()
	}
	return ex
}

// Handle is the libp2p stream handler.
func (r *Responder) Handle(s network.Stream) {
	var req certexchange.Request
	if err := req.UnmarshalCBOR(bufio.NewReader(s)); err != nil {
		_ = s.Reset()
		return
	}
	r.mu.Lock()
	sc := r.script
	nth := r.served
	r.served++
	ex := r.respond(req, nth, sc)
	r.log = append(r.log, ex)
	cb := r.onServe
	r.mu.Unlock()
	if cb != nil {
		cb(nth + 1)
	}
	w := bufio.NewWriterSize(s, 64<<10)
	_, err := w.Write(ex.HeaderRaw)
	for i, it := range ex.Items {
		if err != nil {
			break
		}
		b := it.Raw
		if ex.Trunc >= 0 && i == len(ex.Items)-1 {
			b = b[:ex.Trunc]
		}
		_, err = w.Write(b)
	}
	if err == nil {
		err = w.Flush()
	}
	if err != nil || ex.Reset {
		_ = s.Reset()
		return
	}
	_ = s.Close()
}

// clientView is the reference model of what a conforming client may hand to its caller for one
// exchange: the maximal prefix of items that decode, are not oversized, carry instance first+i
// and stay within limit. It also tells whether the header is acceptable.
type clientView struct {
	HeaderOK bool
	Certs    []*certs.FinalityCertificate
	Raw      [][]byte
	// StoppedBy says why the prefix ended: "", "limit", "eof", "oversized", "undecodable",
	// "sequence", "truncated"
	StoppedBy string
}

const maxItem = 1 << 20 // 1 MiB per item, from the client's documentation

func refClientView(ex exchange) clientView {
	var v clientView
	if ex.NoHeader {
		return v
	}
	// Only the documented 1 MiB bound is asserted (the tighter 100-byte bound the client uses
	// when no power table was requested is an implementation choice, not part of the property).
	hdrLimit := maxItem
	var h certexchange.ResponseHeader
	if len(ex.HeaderRaw) > hdrLimit || h.UnmarshalCBOR(bytes.NewReader(ex.HeaderRaw)) != nil {
		return v
	}
	v.HeaderOK = true
	v.StoppedBy = "eof"
	for i, it := range ex.Items {
		if uint64(i) >= ex.Req.Limit {
			v.StoppedBy = "limit"
			break
		}
		if ex.Trunc >= 0 && i == len(ex.Items)-1 {
			v.StoppedBy = "truncated"
			break
		}
		if len(it.Raw) > maxItem {
			v.StoppedBy = "oversized"
			break
		}
		var c certs.FinalityCertificate
		r := bytes.NewReader(it.Raw)
		if err := c.UnmarshalCBOR(r); err != nil || r.Len() != 0 {
			v.StoppedBy = "undecodable"
			break
		}
		if c.GPBFTInstance != ex.Req.FirstInstance+uint64(i) {
			v.StoppedBy = "sequence"
			break
		}
		v.Certs = append(v.Certs, &c)
		v.Raw = append(v.Raw, it.Raw)
	}
	return v
}

// countingHost wraps a host so that every inbound stream of a handler registered through it is
// reported first (remote peer); used as the logical watchdog against a Poll that never returns.
type countingHost struct {
	host.Host
	onStream func(remote peer.ID)
}

func (c countingHost) SetStreamHandler(pid protocol.ID, h network.StreamHandler) {
	c.Host.SetStreamHandler(pid, func(s network.Stream) {
		if c.onStream != nil {
			c.onStream(s.Conn().RemotePeer())
		}
		h(s)
	})
}
