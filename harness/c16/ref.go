package c16

// ref.go: independent reference for "what a polling node may store" (design E2(b)), written
// from the property text / FIP-0086 rules, not from certs.ValidateFinalityCertificates.

import (
	"bytes"
	"errors"
	"fmt"
	"math/big"
	"sort"

	"github.com/filecoin-project/go-f3/certs"
	"github.com/filecoin-project/go-f3/gpbft"
	"github.com/filecoin-project/go-f3/verifh/vsig"
	sbig "github.com/filecoin-project/go-state-types/big"
)

// refApplyDelta applies a power-table delta by the specification's rules.
func refApplyDelta(t gpbft.PowerEntries, d certs.PowerTableDiff) (gpbft.PowerEntries, error) {
	type ent struct {
		p   *big.Int
		key []byte
	}
	m := map[gpbft.ActorID]*ent{}
	for _, e := range t {
		m[e.ID] = &ent{p: new(big.Int).Set(e.Power.Int), key: e.PubKey}
	}
	for i, x := range d {
		if i > 0 && x.ParticipantID <= d[i-1].ParticipantID {
			return nil, errors.New("delta not strictly sorted by participant")
		}
		if x.PowerDelta.Int == nil {
			return nil, errors.New("nil power delta")
		}
		if x.PowerDelta.Sign() == 0 && len(x.SigningKey) == 0 {
			return nil, errors.New("empty delta entry")
		}
		e, ok := m[x.ParticipantID]
		if !ok {
			if x.PowerDelta.Sign() <= 0 || len(x.SigningKey) == 0 {
				return nil, errors.New("new participant needs positive power and a key")
			}
			m[x.ParticipantID] = &ent{p: new(big.Int).Set(x.PowerDelta.Int), key: x.SigningKey}
			continue
		}
		if len(x.SigningKey) > 0 && bytes.Equal(x.SigningKey, e.key) {
			return nil, errors.New("delta replaces a key by itself")
		}
		e.p.Add(e.p, x.PowerDelta.Int)
		switch e.p.Sign() {
		case -1:
			return nil, errors.New("negative power")
		case 0:
			if len(x.SigningKey) > 0 {
				return nil, errors.New("key change on removal")
			}
			delete(m, x.ParticipantID)
			continue
		}
		if len(x.SigningKey) > 0 {
			e.key = x.SigningKey
		}
	}
	out := make(gpbft.PowerEntries, 0, len(m))
	for id, e := range m {
		out = append(out, gpbft.PowerEntry{ID: id, Power: sbig.NewFromGo(e.p), PubKey: e.key})
	}
	sort.Slice(out, func(i, j int) bool {
		if c := out[i].Power.Int.Cmp(out[j].Power.Int); c != 0 {
			return c > 0
		}
		return out[i].ID < out[j].ID
	})
	if len(out) == 0 {
		return nil, errors.New("delta empties the table")
	}
	return out, nil
}

// refValidate decides whether cert is a valid finality certificate for instance want under
// table t and network net, linked to prevHead when prevHead != nil. It returns the table for
// the next instance.
func refValidate(net gpbft.NetworkName, t gpbft.PowerEntries, want uint64, prevHead *gpbft.TipSet, c *certs.FinalityCertificate) (gpbft.PowerEntries, error) {
	if c.GPBFTInstance != want {
		return nil, fmt.Errorf("instance %d, want %d", c.GPBFTInstance, want)
	}
	if c.ECChain == nil || len(c.ECChain.TipSets) == 0 {
		return nil, errors.New("certificate for bottom")
	}
	if len(c.ECChain.TipSets) > 128 {
		return nil, errors.New("chain too long")
	}
	last := int64(-1)
	for i, ts := range c.ECChain.TipSets {
		if ts == nil || len(ts.Key) == 0 || len(ts.Key) > 760 || !ts.PowerTable.Defined() {
			return nil, fmt.Errorf("malformed tipset %d", i)
		}
		if ts.Epoch <= last {
			return nil, fmt.Errorf("epochs not increasing at %d", i)
		}
		last = ts.Epoch
	}
	if prevHead != nil {
		b := c.ECChain.TipSets[0]
		if b.Epoch != prevHead.Epoch || !bytes.Equal(b.Key, prevHead.Key) || !b.PowerTable.Equals(prevHead.PowerTable) || b.Commitments != prevHead.Commitments {
			return nil, errors.New("base is not the previous head")
		}
	}
	scaled, total, err := scaledPowers(t)
	if err != nil {
		return nil, err
	}
	var idxs []int
	var sum int64
	if err := c.Signers.ForEach(func(u uint64) error {
		if u >= uint64(len(t)) {
			return fmt.Errorf("signer %d out of range", u)
		}
		if scaled[u] == 0 {
			return fmt.Errorf("signer %d has no scaled power", u)
		}
		idxs = append(idxs, int(u))
		sum += scaled[u]
		return nil
	}); err != nil {
		return nil, err
	}
	// strong quorum: at least two thirds of the scaled total
	if new(big.Int).Mul(big.NewInt(3), big.NewInt(sum)).Cmp(new(big.Int).Mul(big.NewInt(2), big.NewInt(total))) < 0 {
		return nil, fmt.Errorf("no strong quorum: %d of %d", sum, total)
	}
	payload := gpbft.Payload{Instance: c.GPBFTInstance, Round: 0, Phase: gpbft.DECIDE_PHASE, SupplementalData: c.SupplementalData, Value: c.ECChain}
	msg := payload.MarshalForSigning(net)
	sort.Ints(idxs)
	sigs := make([][]byte, len(idxs))
	for n, i := range idxs {
		sigs[n] = vsig.RawSign(t[i].PubKey, msg)
	}
	agg, err := vsig.Backend{}.Aggregate(t.PublicKeys())
	if err != nil {
		return nil, err
	}
	want96, err := agg.Aggregate(idxs, sigs)
	if err != nil {
		return nil, err
	}
	if !bytes.Equal(want96, c.Signature) {
		return nil, errors.New("aggregate signature does not verify")
	}
	next, err := refApplyDelta(t, c.PowerTableDelta)
	if err != nil {
		return nil, err
	}
	if !tableCID(next).Equals(c.SupplementalData.PowerTable) {
		return nil, errors.New("delta does not reproduce the committed power table")
	}
	return next, nil
}

func tablesEqual(a, b gpbft.PowerEntries) bool {
	if len(a) != len(b) {
		return false
	}
	for i := range a {
		if a[i].ID != b[i].ID || !bytes.Equal(a[i].PubKey, b[i].PubKey) {
			return false
		}
		if a[i].Power.Int == nil || b[i].Power.Int == nil || a[i].Power.Int.Cmp(b[i].Power.Int) != 0 {
			return false
		}
	}
	return true
}
