package c16

import (
	"os"
	"testing"

	"github.com/filecoin-project/go-f3/verifh/vkit"
	logging "github.com/ipfs/go-log/v2"
)

func quiet() {
	// go-f3 logs every refused request at error level; that is expected noise here.
	_ = logging.SetLogLevel("*", "fatal")
}

// TestCheck is part "main": server at the raw stream (static stores), client against the
// scripted responder, poller against responder and honest servers.
func TestCheck(t *testing.T) {
	quiet()
	run := vkit.New("C16", "main", "exploration")
	run.SetRule("server: one evaluation = one (store, first, limit, includePowerTable) request answered by a real certexchange.Server and read off the raw libp2p stream; distinct = (store size, first-instance class, boundary class of first, limit, includePT); non-trivial = store non-empty or power table available. " +
		"client: one evaluation = one Client.Request against one responder script; distinct = (script kind, pending mode, request shape); non-trivial = the script's bad item lies inside the requested window or the header is bad. " +
		"poller: one evaluation = one Poller.Poll; distinct = (peer kind, script kind, pending mode, once, round count, reference status); non-trivial = the peer sent at least one item or a header")
	run.Assume("signatures are the harness's deterministic stand-in scheme (vsig); the responder holds no signing keys, so every validly signed certificate comes from the reference chain",
		"gpbft.Payload.MarshalForSigning, the CBOR codecs and gpbft.MakeCid are trusted (covered by C14)",
		"server part: the store is static during a request, so a shorter-than-possible response is reported too (the protocol note 'the server may respond with fewer' is only honoured in the concurrent part for certificates added after the header)",
		"status table (from the comments in Poller.Poll): request/header failure -> failed; a delivered certificate that does not validate -> illegal; a response with no deliverable certificate that advertises pending > next -> failed; otherwise hit iff a response advertised pending >= next, else miss; when a peer sends valid certificates while advertising pending < first, hit/miss/illegal are all accepted",
		"mocknet streams are reliable and ordered; all randomness derives from VERIF_SEED and the case index")
	serverPart(run)
	clientPart(run)
	pollerPart(run)
	floors(run)
	rc := run.Finish()
	if rc != 0 {
		t.Fail()
	}
	if rc == 2 {
		os.Exit(2)
	}
}

// TestCheckRace is part "race": concurrent Puts during raw requests and polls (-race build).
func TestCheckRace(t *testing.T) {
	quiet()
	run := vkit.New("C16", "race", "exploration")
	run.SetRule("one evaluation = one raw request or one Poll issued while another goroutine Puts certificates into the serving (and the polling) store; distinct = (request shape, advertised pending); non-trivial = the advertised pending instance moved during the case")
	run.Assume("same as part main; under concurrency the advertised pending instance P may be any value between the store's pending before the request and after the response; the body must be exactly the stored certificates first..min(first+min(limit,256),P)-1")
	racePart(run)
	rc := run.Finish()
	if rc != 0 {
		t.Fail()
	}
	if rc == 2 {
		os.Exit(2)
	}
}
