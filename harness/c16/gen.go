// Package c16 is the runtime monitor for property C16 (certificate exchange
// serves exact store slices; pollers store only verified certificates).
//
// gen.go: a small generator of validly signed finality-certificate chains over
// evolving power tables (harness-owned keys of the vsig stand-in scheme).
package c16

import (
	"bytes"
	"fmt"
	"math/big"
	"math/rand"
	"sort"

	"github.com/filecoin-project/go-bitfield"
	rlepluslazy "github.com/filecoin-project/go-bitfield/rle"
	"github.com/filecoin-project/go-f3/certs"
	"github.com/filecoin-project/go-f3/gpbft"
	"github.com/filecoin-project/go-f3/verifh/vsig"
	sbig "github.com/filecoin-project/go-state-types/big"
	"github.com/ipfs/go-cid"
)

// Chain is a reference certificate chain: Certs[i] is the certificate of
// instance First+i, Raw[i] its canonical CBOR, Tables[i] the power table that
// validates it (Tables[len(Certs)] validates the next, not yet existing, one).
type Chain struct {
	Net    gpbft.NetworkName
	First  uint64
	Tables []gpbft.PowerEntries
	Certs  []*certs.FinalityCertificate
	Raw    [][]byte
	// TableChanges counts instances whose power table differs from the previous one.
	TableChanges int
	// ZeroScaled counts instances whose table has an entry with zero scaled power.
	ZeroScaled int
}

func (c *Chain) Len() int { return len(c.Certs) }

// Pending is the instance after the last certificate of the first n certificates.
func (c *Chain) Pending(n int) uint64 { return c.First + uint64(n) }

type member struct {
	id    gpbft.ActorID
	power *big.Int
	key   gpbft.PubKey
}

func tableOf(ms map[gpbft.ActorID]*member) gpbft.PowerEntries {
	out := make(gpbft.PowerEntries, 0, len(ms))
	for _, m := range ms {
		out = append(out, gpbft.PowerEntry{ID: m.id, Power: sbig.NewFromGo(new(big.Int).Set(m.power)), PubKey: append(gpbft.PubKey(nil), m.key...)})
	}
	// Order from the specification: power descending, then ID ascending.
	sort.Slice(out, func(i, j int) bool {
		if c := out[i].Power.Int.Cmp(out[j].Power.Int); c != 0 {
			return c > 0
		}
		return out[i].ID < out[j].ID
	})
	return out
}

func tableCID(t gpbft.PowerEntries) cid.Cid {
	var buf bytes.Buffer
	if err := t.MarshalCBOR(&buf); err != nil {
		panic(err)
	}
	return gpbft.MakeCid(buf.Bytes())
}

// diffTables computes the delta old -> new, sorted by participant ID ascending.
func diffTables(old, nw gpbft.PowerEntries) certs.PowerTableDiff {
	om := map[gpbft.ActorID]gpbft.PowerEntry{}
	for _, e := range old {
		om[e.ID] = e
	}
	var d certs.PowerTableDiff
	for _, e := range nw {
		o, ok := om[e.ID]
		if !ok {
			d = append(d, certs.PowerTableDelta{ParticipantID: e.ID, PowerDelta: sbig.NewFromGo(new(big.Int).Set(e.Power.Int)), SigningKey: e.PubKey})
			continue
		}
		delete(om, e.ID)
		x := certs.PowerTableDelta{ParticipantID: e.ID, PowerDelta: sbig.NewFromGo(new(big.Int).Sub(e.Power.Int, o.Power.Int))}
		if !bytes.Equal(o.PubKey, e.PubKey) {
			x.SigningKey = e.PubKey
		}
		if x.PowerDelta.Sign() == 0 && len(x.SigningKey) == 0 {
			continue
		}
		d = append(d, x)
	}
	for _, o := range om {
		d = append(d, certs.PowerTableDelta{ParticipantID: o.ID, PowerDelta: sbig.NewFromGo(new(big.Int).Neg(o.Power.Int))})
	}
	sort.Slice(d, func(i, j int) bool { return d[i].ParticipantID < d[j].ParticipantID })
	return d
}

// scaledPowers is the specification's scaling: floor(0xffff * p / total), by big-int arithmetic.
func scaledPowers(t gpbft.PowerEntries) ([]int64, int64, error) {
	total := new(big.Int)
	for _, e := range t {
		if e.Power.Int == nil || e.Power.Sign() <= 0 {
			return nil, 0, fmt.Errorf("non-positive power for %d", e.ID)
		}
		total.Add(total, e.Power.Int)
	}
	if total.Sign() == 0 {
		return nil, 0, fmt.Errorf("empty table")
	}
	out := make([]int64, len(t))
	var sum int64
	for i, e := range t {
		x := new(big.Int).Mul(big.NewInt(0xffff), e.Power.Int)
		x.Quo(x, total)
		out[i] = x.Int64()
		sum += out[i]
	}
	return out, sum, nil
}

func signersField(idxs []int) bitfield.BitField {
	u := make([]uint64, len(idxs))
	for i, x := range idxs {
		u[i] = uint64(x)
	}
	ri, _ := rlepluslazy.RunsFromSlice(u)
	bf, _ := bitfield.NewFromIter(ri)
	return bf
}

// signCert fills Signers and Signature of c with a random strong quorum of table t.
func signCert(rng *rand.Rand, net gpbft.NetworkName, t gpbft.PowerEntries, c *certs.FinalityCertificate) {
	scaled, total, err := scaledPowers(t)
	if err != nil {
		panic(err)
	}
	perm := rng.Perm(len(t))
	var sum int64
	var idxs []int
	extra := rng.Intn(3)
	for _, i := range perm {
		if scaled[i] == 0 {
			continue
		}
		if 3*sum >= 2*total {
			if extra == 0 {
				break
			}
			extra--
		}
		idxs = append(idxs, i)
		sum += scaled[i]
	}
	if 3*sum < 2*total {
		panic("generator: cannot reach a strong quorum")
	}
	sort.Ints(idxs)
	payload := gpbft.Payload{Instance: c.GPBFTInstance, Round: 0, Phase: gpbft.DECIDE_PHASE, SupplementalData: c.SupplementalData, Value: c.ECChain}
	msg := payload.MarshalForSigning(net)
	sigs := make([][]byte, len(idxs))
	for n, i := range idxs {
		sigs[n] = vsig.RawSign(t[i].PubKey, msg)
	}
	agg, err := vsig.Backend{}.Aggregate(t.PublicKeys())
	if err != nil {
		panic(err)
	}
	sig, err := agg.Aggregate(idxs, sigs)
	if err != nil {
		panic(err)
	}
	c.Signers = signersField(idxs)
	c.Signature = sig
}

func encodeCert(c *certs.FinalityCertificate) []byte {
	var buf bytes.Buffer
	if err := c.MarshalCBOR(&buf); err != nil {
		panic(err)
	}
	return buf.Bytes()
}

// GenOpts steers the generator.
type GenOpts struct {
	Net      gpbft.NetworkName
	First    uint64
	N        int
	Universe uint32  // key universe (different universes never share keys)
	Churn    float64 // probability that an instance changes the table
	Members  int     // initial committee size (>= 1)
}

// GenChain builds a chain of o.N validly signed certificates starting at instance o.First.
// The generator's content (tables, EC chains) depends only on rng, o.Universe and o.N, not on
// o.Net, so two chains generated from equal seeds with different network names differ only in
// their signatures.
func GenChain(rng *rand.Rand, o GenOpts) *Chain {
	ch := &Chain{Net: o.Net, First: o.First}
	ms := map[gpbft.ActorID]*member{}
	nextID := gpbft.ActorID(1000 + rng.Intn(1000))
	nextKey := uint64(0)
	newKey := func() gpbft.PubKey { nextKey++; return vsig.PubKey(o.Universe, nextKey) }
	randPower := func() *big.Int {
		switch rng.Intn(10) {
		case 0:
			return big.NewInt(1) // may scale to zero next to large powers
		case 1:
			p := new(big.Int).Lsh(big.NewInt(int64(1+rng.Intn(1000))), uint(40+rng.Intn(60)))
			return p
		default:
			return big.NewInt(int64(1 + rng.Intn(1_000_000)))
		}
	}
	if o.Members < 1 {
		o.Members = 1
	}
	for i := 0; i < o.Members; i++ {
		ms[nextID] = &member{id: nextID, power: randPower(), key: newKey()}
		nextID += gpbft.ActorID(1 + rng.Intn(3))
	}
	ensureSignable := func() {
		// at least one entry must have non-zero scaled power; always true because the
		// largest entry has scaled power >= 0xffff/len > 0 for len < 65535.
	}
	ensureSignable()
	cur := tableOf(ms)
	ch.Tables = append(ch.Tables, cur)

	epoch := int64(rng.Intn(1000))
	tipset := func() *gpbft.TipSet {
		epoch += int64(1 + rng.Intn(3))
		key := make([]byte, 1+rng.Intn(48))
		rng.Read(key)
		ts := &gpbft.TipSet{Epoch: epoch, Key: key, PowerTable: tableCID(cur)}
		rng.Read(ts.Commitments[:])
		return ts
	}
	head := tipset()
	for n := 0; n < o.N; n++ {
		inst := o.First + uint64(n)
		// evolve the committee
		if rng.Float64() < o.Churn {
			for k := 1 + rng.Intn(3); k > 0; k-- {
				ids := make([]gpbft.ActorID, 0, len(ms))
				for id := range ms {
					ids = append(ids, id)
				}
				sort.Slice(ids, func(i, j int) bool { return ids[i] < ids[j] })
				pick := ids[rng.Intn(len(ids))]
				switch op := rng.Intn(5); {
				case op == 0 && len(ms) < 14: // join
					ms[nextID] = &member{id: nextID, power: randPower(), key: newKey()}
					nextID += gpbft.ActorID(1 + rng.Intn(3))
				case op == 1 && len(ms) > 2: // leave
					delete(ms, pick)
				case op == 2: // rotate key
					ms[pick].key = newKey()
				case op == 3: // rotate key and change power
					ms[pick].key = newKey()
					ms[pick].power = randPower()
				default: // change power
					ms[pick].power = randPower()
				}
			}
		}
		next := tableOf(ms)
		chain := &gpbft.ECChain{TipSets: []*gpbft.TipSet{head}}
		for k := rng.Intn(4); k > 0; k-- {
			chain.TipSets = append(chain.TipSets, tipset())
		}
		c := &certs.FinalityCertificate{
			GPBFTInstance:    inst,
			ECChain:          chain,
			SupplementalData: gpbft.SupplementalData{PowerTable: tableCID(next)},
			PowerTableDelta:  diffTables(cur, next),
		}
		rng.Read(c.SupplementalData.Commitments[:])
		signCert(rng, o.Net, cur, c)
		if len(c.PowerTableDelta) > 0 {
			ch.TableChanges++
		}
		if sc, _, _ := scaledPowers(cur); sc != nil {
			for _, s := range sc {
				if s == 0 {
					ch.ZeroScaled++
					break
				}
			}
		}
		ch.Certs = append(ch.Certs, c)
		ch.Raw = append(ch.Raw, encodeCert(c))
		ch.Tables = append(ch.Tables, next)
		cur = next
		head = chain.TipSets[len(chain.TipSets)-1]
	}
	return ch
}

// cloneCert deep-copies a certificate through its encoding.
func cloneCert(raw []byte) *certs.FinalityCertificate {
	var c certs.FinalityCertificate
	if err := c.UnmarshalCBOR(bytes.NewReader(raw)); err != nil {
		panic(err)
	}
	return &c
}
