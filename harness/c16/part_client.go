package c16

// part_client.go: (b) the production client against the scripted malicious responder.

import (
	"bytes"
	"context"
	"fmt"
	"math"
	"math/rand"
	"runtime"
	"time"

	"github.com/filecoin-project/go-f3/certexchange"
	"github.com/filecoin-project/go-f3/certs"
	"github.com/filecoin-project/go-f3/verifh/vkit"
)

const otherNet = "verif-c16-other"

// chainTriple builds the reference chain plus the same content signed for another network and
// an unrelated chain at the same instances.
func chainTriple(seed int64, first uint64, n int, universe uint32) (*Chain, *Chain, *Chain) {
	o := GenOpts{Net: netName, First: first, N: n, Universe: universe, Churn: 0.35, Members: 2 + int(seed%7)}
	ch := GenChain(rand.New(rand.NewSource(seed)), o)
	o.Net = otherNet
	alt := GenChain(rand.New(rand.NewSource(seed)), o)
	o.Net = netName
	o.Universe = universe ^ 0x5a5a5a5a
	other := GenChain(rand.New(rand.NewSource(seed^0x1234567)), o)
	return ch, alt, other
}

func clientPart(run *vkit.Run) {
	n := run.N(400, 30000)
	clientLimits := []uint64{0, 1, 2, 5, 255, 256, 257, certexchange.NoLimit}
	vkit.Parallel(n, runtime.GOMAXPROCS(0), func(i int) {
		caseNo := 100000 + i // case numbers: server 0.., client 100000.., poller 200000..
		if run.Case >= 0 && int64(caseNo) != run.Case {
			return
		}
		seed := run.SubSeed(int64(caseNo))
		rng := rand.New(rand.NewSource(seed))
		length := 6 + rng.Intn(40)
		if rng.Intn(12) == 0 {
			length = 258 + rng.Intn(40)
		}
		first := firstFor(rng.Intn(3), length, rng)
		ch, alt, other := chainTriple(seed, first, length, uint32(caseNo))
		sc := Script{Kind: scriptKinds[i%len(scriptKinds)], Pending: pendingModes[rng.Intn(len(pendingModes))], Served: 1 + rng.Intn(length), NoCap: rng.Intn(4) == 0}
		if rng.Intn(8) == 0 {
			sc.Served = length
		}
		sc.At = first + uint64(rng.Intn(sc.Served))
		req := certexchange.Request{Limit: clientLimits[rng.Intn(len(clientLimits))], IncludePowerTable: rng.Intn(2) == 0}
		switch rng.Intn(6) {
		case 0:
			req.FirstInstance = first + uint64(rng.Intn(sc.Served+2))
		case 1:
			req.FirstInstance = sc.At
		default:
			// start at or shortly before the bad item so that it is inside the window
			back := uint64(rng.Intn(6))
			if back > sc.At-first {
				back = sc.At - first
			}
			req.FirstInstance = sc.At - back
		}
		if rng.Intn(3) > 0 && req.Limit < 5 && req.Limit > 0 {
			req.Limit = 5 + uint64(rng.Intn(300))
		}
		mn, hs, err := newNet(2)
		if err != nil {
			herr(run, "client:1")
			return
		}
		defer mn.Close()
		resp := &Responder{Chain: ch, Alt: alt, Other: other}
		resp.Arm(sc)
		hs[0].SetStreamHandler(certexchange.FetchProtocolName(netName), resp.Handle)
		ctx, cancel := context.WithTimeout(context.Background(), 2*time.Minute)
		defer cancel()
		cl := &certexchange.Client{Host: hs[1], NetworkName: netName}
		hdr, chn, rerr := cl.Request(ctx, hs[0].ID(), &req)
		var got []*certs.FinalityCertificate
		if rerr == nil {
			for c := range chn {
				got = append(got, c)
			}
		}
		if ctx.Err() != nil {
			run.Inconclusive("watchdog")
			run.Count("watchdog_client_"+sc.Kind, 1)
			fmt.Printf("WATCHDOG client case=%d script=%s req=%+v\n", caseNo, sc.String(), req)
			return
		}
		log := resp.Log()
		if len(log) != 1 {
			herr(run, "client:2")
			return
		}
		ex := log[0]
		view := refClientView(ex)
		run.Eval(1)
		run.Count("client_requests", 1)
		run.Count("responder_scripts_run", 1)
		run.Count("client_script_"+sc.Kind, 1)
		run.Count("client_certs_delivered", int64(len(got)))
		notes := make([]string, 0, 8)
		for j, it := range ex.Items {
			if j >= 6 {
				notes = append(notes, fmt.Sprintf("... %d items", len(ex.Items)))
				break
			}
			notes = append(notes, it.Note)
		}
		w := map[string]any{"case": caseNo, "script": sc.String(), "request": req, "chain_first": first, "chain_len": length,
			"pending_sent": ex.Pending, "items_sent": notes, "delivered": len(got), "request_error": fmt.Sprint(rerr), "reference_stop": view.StoppedBy}
		shape := fmt.Sprintf("script=%s pending=%s", sc.Kind, sc.Pending)
		if !view.HeaderOK {
			run.Count("client_bad_headers", 1)
			if rerr == nil {
				run.Violation(fmt.Sprintf("client: Request succeeded on a missing/undecodable/oversized (>1MiB) header (%s)", shape), w)
			} else {
				run.Count("client_bad_headers_rejected", 1)
			}
			run.Distinct(fmt.Sprintf("client %s pt=%v", sc.Kind, req.IncludePowerTable))
			return
		}
		if rerr != nil {
			// an acceptable header was refused: not a property violation, but nothing was observed
			run.Count("client_request_errors_on_good_header", 1)
			if !ex.Reset {
				// (a reset may discard the header in flight; anything else is unexpected)
				run.Count("client_good_header_refused_unexpected", 1)
				run.Sample(map[string]any{"client_request_error_on_good_header": w})
			}
			return
		}
		if hdr.PendingInstance != ex.Pending {
			run.Violation(fmt.Sprintf("client: header pending instance %d differs from the %d sent (%s)", hdr.PendingInstance, ex.Pending, shape), w)
		}
		if uint64(len(got)) > req.Limit {
			run.Violation(fmt.Sprintf("client: delivered %d certificates for limit %d (%s)", len(got), req.Limit, shape), w)
		}
		for j, c := range got {
			if c.GPBFTInstance != req.FirstInstance+uint64(j) {
				run.Violation(fmt.Sprintf("client: delivered certificate %d with instance %d, want first+i=%d (%s)", j, c.GPBFTInstance, req.FirstInstance+uint64(j), shape), w)
				break
			}
		}
		if len(got) > len(view.Certs) {
			switch view.StoppedBy {
			case "oversized":
				run.Violation(fmt.Sprintf("client: did not fail on an oversized (>1MiB) certificate: delivered %d, acceptable prefix %d (%s)", len(got), len(view.Certs), shape), w)
			case "sequence", "limit":
				// reported above by the direct rules when they apply
				run.Count("client_over_prefix_"+view.StoppedBy, 1)
			default:
				run.Violation(fmt.Sprintf("client: delivered %d certificates but only %d were sent intact (stopped by %s) (%s)", len(got), len(view.Certs), view.StoppedBy, shape), w)
			}
		}
		for j := 0; j < len(got) && j < len(view.Raw); j++ {
			if !bytes.Equal(encodeCert(got[j]), view.Raw[j]) {
				run.Violation(fmt.Sprintf("client: delivered certificate %d differs from the bytes sent (%s)", j, shape), w)
				break
			}
		}
		if len(got) < len(view.Certs) && ex.Reset {
			run.Count("client_short_after_reset", 1) // a reset may discard bytes in flight
		} else if len(got) < len(view.Certs) {
			run.Count("client_underdelivery", 1)
			run.Sample(map[string]any{"client_underdelivery": w})
		} else {
			run.Count("client_full_prefix_delivered", 1)
		}
		if view.StoppedBy != "eof" && view.StoppedBy != "limit" {
			run.Count("client_stop_"+view.StoppedBy, 1)
			run.Count("client_items_rejected", 1)
		}
		if view.StoppedBy == "limit" {
			run.Count("client_limit_enforced_cases", 1)
		}
		// non-trivial: something bad was inside the window, or the limit had to cut
		if view.StoppedBy != "eof" || sc.Pending != "honest" {
			run.Distinct(fmt.Sprintf("client %s pending=%s stop=%s lim=%d pt=%v nocap=%v", sc.Kind, sc.Pending, view.StoppedBy, limClass(req.Limit), req.IncludePowerTable, sc.NoCap))
		}
		if i < 3 {
			run.Sample(map[string]any{"client_case": w})
		}
	})
}

func limClass(l uint64) uint64 {
	switch {
	case l <= 5 || l == 255 || l == 256 || l == 257 || l == math.MaxUint64:
		return l
	default:
		return 100
	}
}
