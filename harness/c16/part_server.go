package c16

// part_server.go: (a) the real certexchange.Server observed at the raw libp2p stream.

import (
	"bytes"
	"context"
	"fmt"
	"math"
	"math/rand"
	"runtime"
	"sort"
	"time"

	"github.com/filecoin-project/go-f3/certexchange"
	"github.com/filecoin-project/go-f3/gpbft"
	"github.com/filecoin-project/go-f3/verifh/vkit"
)

var storeSizes = []int{300, 0, 257, 1, 256, 2, 255, 258, 3, 17, 128, 299}

var limits = []uint64{0, 1, 2, 255, 256, 257, 1 << 63, math.MaxUint64}

const netName gpbft.NetworkName = "verif-c16"

func firstFor(mode, n int, rng *rand.Rand) uint64 {
	switch mode {
	case 0:
		return 0
	case 1:
		return 5
	default:
		// latest = 2^64-2-r, pending = 2^64-1-r
		return math.MaxUint64 - 1 - uint64(rng.Intn(3)) - uint64(n)
	}
}

func modeName(m int) string { return [...]string{"first=0", "first=5", "first~2^64"}[m] }

// splitBody interprets body as a concatenation of reference encodings starting at instance
// first. It returns the number of whole certificates matched and whether all bytes matched.
func splitBody(ch *Chain, stored int, first uint64, body []byte) (k int, exact bool) {
	for len(body) > 0 {
		if first < ch.First {
			return k, false
		}
		idx := first - ch.First + uint64(k)
		if idx >= uint64(stored) || idx >= uint64(len(ch.Raw)) {
			return k, false
		}
		raw := ch.Raw[idx]
		if !bytes.HasPrefix(body, raw) {
			return k, false
		}
		body = body[len(raw):]
		k++
	}
	return k, true
}

func minU(a, b uint64) uint64 {
	if a < b {
		return a
	}
	return b
}

type serverReq struct {
	First uint64 `json:"first"`
	Limit uint64 `json:"limit"`
	PT    bool   `json:"include_power_table"`
	Class string `json:"first_class"`
}

// judgeResponse applies the server oracle to one raw response. storedLo/storedHi bracket the
// number of certificates in the store while the request ran (equal when the store is static).
func judgeResponse(run *vkit.Run, part string, caseNo int, ch *Chain, storedLo, storedHi int, rq serverReq, res *rawResponse, desc map[string]any) {
	viol := func(sig string) {
		w := map[string]any{"case": caseNo, "part": part, "request": rq, "store": desc, "header_pending": res.Header.PendingInstance,
			"refused": res.Refused, "read_error": res.ReadErr, "body_bytes": len(res.Body)}
		run.Violation(sig, w)
	}
	pend := func(n int) uint64 {
		if n == 0 {
			return 0
		}
		return ch.First + uint64(n)
	}
	shape := fmt.Sprintf("%s store=%d(%s) first=%s limit=%d pt=%v", part, storedHi, desc["mode"], rq.Class, rq.Limit, rq.PT)
	// power-table availability by the reference store: first within [store first, pending]
	availPT := func(p uint64) bool { return rq.First >= ch.First && rq.First <= p }
	if res.Refused {
		run.Count("server_refusals", 1)
		// refusing is only acceptable when a power table was asked for that the store cannot give
		ok := rq.PT && !(availPT(pend(storedLo)) && availPT(pend(storedHi)))
		if !ok {
			viol(fmt.Sprintf("server: refused an answerable request (%s): %s", shape, res.ReadErr))
		}
		return
	}
	P := res.Header.PendingInstance
	if P < pend(storedLo) || P > pend(storedHi) {
		viol(fmt.Sprintf("server: advertised pending instance %d outside [%d,%d] (%s)", P, pend(storedLo), pend(storedHi), shape))
		return
	}
	// power table
	if rq.PT && availPT(P) {
		want := ch.Tables[rq.First-ch.First]
		if !tablesEqual(res.Header.PowerTable, want) {
			viol(fmt.Sprintf("server: wrong or missing power table for first (%s): got %d entries, want %d", shape, len(res.Header.PowerTable), len(want)))
		} else {
			run.Count("server_power_tables_checked", 1)
		}
	} else if len(res.Header.PowerTable) != 0 {
		viol(fmt.Sprintf("server: sent a power table that was not requested or not available (%s)", shape))
	}
	// body
	k, exact := splitBody(ch, storedHi, rq.First, res.Body)
	run.Count("server_certs_read_raw", int64(k))
	if !exact {
		viol(fmt.Sprintf("server: body is not a byte-exact in-order slice of the store from first (%s): %d certificates matched, then mismatch", shape, k))
		return
	}
	if !res.Clean {
		viol(fmt.Sprintf("server: stream did not end cleanly (%s): %s", shape, res.ReadErr))
	}
	capLim := minU(rq.Limit, serverMax)
	if k > 0 && rq.First+uint64(k-1) >= P {
		viol(fmt.Sprintf("server: sent a certificate at or beyond the advertised pending instance %d (%s): %d certificates from first", P, shape, k))
	}
	var avail uint64
	if rq.First >= ch.First && rq.First < P {
		avail = P - rq.First
	}
	want := minU(capLim, avail)
	switch {
	case uint64(k) == want:
		run.Count("server_exact_responses", 1)
	case uint64(k) > capLim:
		if uint64(k) == capLim+1 {
			viol(fmt.Sprintf("server: sent limit+1 certificates: %d for min(limit,256)=%d (%s)", k, capLim, shape))
		} else {
			viol(fmt.Sprintf("server: sent %d certificates, more than min(limit,256)=%d (%s)", k, capLim, shape))
		}
	case uint64(k) < want:
		if rq.First+capLim < rq.First {
			viol(fmt.Sprintf("server: first+limit overflows uint64: sent %d of %d available certificates (%s)", k, want, shape))
		} else {
			viol(fmt.Sprintf("server: short response: sent %d certificates, %d stored from first within limit (%s)", k, want, shape))
		}
	default:
		// k > want but within the cap: certificates at/after P — already reported above.
	}
}

func requestSet(ch *Chain, n int, rng *rand.Rand, extra int) []serverReq {
	sf := ch.First
	latest := sf
	if n > 0 {
		latest = sf + uint64(n) - 1
	}
	pending := sf + uint64(n) // store-arithmetic pending (the header says 0 for an empty store)
	type fc struct {
		v uint64
		c string
	}
	fcs := []fc{{0, "0"}, {sf - 1, "storefirst-1"}, {sf, "storefirst"}, {sf + uint64(n/2), "mid"}, {latest - 1, "latest-1"}, {latest, "latest"},
		{pending, "pending"}, {pending + 1, "pending+1"}, {math.MaxUint64, "2^64-1"}}
	for i := 0; i < extra && n > 0; i++ {
		fcs = append(fcs, fc{sf + uint64(rng.Intn(n+1)), "random"})
	}
	lims := append([]uint64(nil), limits...)
	for i := 0; i < extra; i++ {
		lims = append(lims, uint64(3+rng.Intn(252)))
	}
	seen := map[string]bool{}
	var out []serverReq
	for _, f := range fcs {
		for _, l := range lims {
			for _, pt := range []bool{false, true} {
				key := fmt.Sprint(f.v, l, pt)
				if seen[key] {
					continue
				}
				seen[key] = true
				out = append(out, serverReq{First: f.v, Limit: l, PT: pt, Class: f.c})
			}
		}
	}
	return out
}

func serverPart(run *vkit.Run) {
	n := run.N(15, 1050)
	vkit.Parallel(n, runtime.GOMAXPROCS(0), func(i int) {
		if run.Case >= 0 && int64(i) != run.Case {
			return
		}
		rng := rand.New(rand.NewSource(run.SubSeed(int64(i))))
		size := 0
		if si := i / 3; si < len(storeSizes) {
			size = storeSizes[si]
		} else {
			size = rng.Intn(301)
		}
		mode := i % 3
		first := firstFor(mode, size, rng)
		ch := GenChain(rng, GenOpts{Net: netName, First: first, N: size, Universe: uint32(i), Churn: 0.35, Members: 1 + rng.Intn(9)})
		ctx, cancel := context.WithTimeout(context.Background(), 10*time.Minute)
		defer cancel()
		mn, hs, err := newNet(2)
		if err != nil {
			herr(run, "server:1")
			return
		}
		defer mn.Close()
		cs, err := newStore(ctx, ch, size)
		if err != nil {
			// near 2^64 the store may refuse; that is a reach limit, not a verdict
			run.Count("server_store_build_refused", 1)
			run.Sample(map[string]any{"store_refused": err.Error(), "first": first, "n": size})
			return
		}
		srv := &certexchange.Server{NetworkName: netName, Host: hs[0], Store: cs}
		if err := srv.Start(ctx); err != nil {
			herr(run, "server:2")
			return
		}
		defer srv.Stop(context.Background()) //nolint:errcheck
		desc := map[string]any{"n": size, "first_instance": first, "mode": modeName(mode), "table_changes": ch.TableChanges, "zero_scaled_instances": ch.ZeroScaled}
		extra := 0
		if run.Thorough() {
			extra = 2
		}
		reqs := requestSet(ch, size, rng, extra)
		run.Count("server_stores", 1)
		run.Count("server_stores_"+[...]string{"first0", "first5", "firstnear2p64"}[mode], 1)
		if ch.TableChanges > 0 {
			run.Count("server_stores_with_evolving_tables", 1)
		}
		for _, rq := range reqs {
			res, err := rawRequest(ctx, hs[1], hs[0].ID(), netName, certexchange.Request{FirstInstance: rq.First, Limit: rq.Limit, IncludePowerTable: rq.PT})
			if err != nil {
				if ctx.Err() != nil {
					run.Inconclusive("watchdog")
					return
				}
				herr(run, "server:3")
				continue
			}
			run.Eval(1)
			run.Count("server_requests", 1)
			judgeResponse(run, "server", i, ch, size, size, rq, res, desc)
			if size > 0 || (rq.PT && rq.First == first) {
				run.Distinct(fmt.Sprintf("server n=%d %s %s lim=%d pt=%v", size, modeName(mode), rq.Class, rq.Limit, rq.PT))
			}
		}
		run.Sample(map[string]any{"server_store": desc, "requests": len(reqs)})
	})
}

func sortedKeys(m map[string]int64) []string {
	ks := make([]string, 0, len(m))
	for k := range m {
		ks = append(ks, k)
	}
	sort.Strings(ks)
	return ks
}

// herr records a harness-side failure (never a verdict about the property).
func herr(run *vkit.Run, where string) {
	run.Count("harness_errors", 1)
	run.Count("harness_error_at_"+where, 1)
}
