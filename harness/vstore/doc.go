// Package vstore holds the shared pieces of the certificate-store checks
// (C09 gap-free immutable history, C10 crash atomicity) and is meant to be
// reused by the snapshot checks (C17):
//
//   - Gen / Chain (gen.go): a seeded generator of validly signed
//     *certs.FinalityCertificate chains over EVOLVING power tables (members
//     added, removed, re-keyed, re-weighted; first instance 0 or > 0; EC chains
//     linked base -> head), plus the bad variants a store must refuse or ignore
//     (Variant*).
//   - Table algebra (tables.go): ApplyDelta / DiffTables / SortTable / TableCID,
//     written from the property text ("the power table obtained by applying all
//     earlier deltas to the initial table"), NOT by calling certs.ApplyPowerTableDiffs.
//   - Model (model.go): the in-memory reference store: a slice of certificates
//     and the tables derived from the initial table by applying deltas.
//   - Observation / Observe / ObserveAt (observe.go): the full observable state
//     of a real *certstore.Store through its public API in canonical form (CBOR
//     bytes), comparable with Model.Observe by Observation.Diff.
//   - CrashDS / Snapshot (crashds.go): an in-memory datastore.Batching that counts
//     mutating calls (Put, Delete, batch Commit), can "crash" after the k-th one
//     (everything afterwards fails) and exposes the frozen content at the crash;
//     optional write hook for yield injection and a seeded query-order shuffle.
//
// Nothing in this package asserts anything: oracles live in the cNN packages.
package vstore
