package vstore

import (
	"bytes"
	"fmt"
	"math"
	"math/big"
	"math/rand"

	"github.com/filecoin-project/go-bitfield"
	"github.com/filecoin-project/go-f3/certs"
	"github.com/filecoin-project/go-f3/gpbft"
	"github.com/filecoin-project/go-f3/verifh/vsig"
)

// NetworkName is the network name every generated certificate is signed for.
const NetworkName gpbft.NetworkName = "verif-vstore"

// Change is a bit set of the ways Gen.Evolve may alter a power table.
type Change int

const (
	ChangeAdd      Change = 1 << iota // add one or two members
	ChangeRemove                      // remove a member (never the last one)
	ChangeRekey                       // give a member a new key
	ChangeReweight                    // change a member's power (up or down, never to zero)
)

// Variant names a kind of certificate handed to a store.
type Variant int

const (
	// VariantValid: the immediate successor of the chain head, correctly signed,
	// delta reproducing the committed next table.
	VariantValid Variant = iota
	// VariantDuplicateSame: byte-identical copy of an already stored instance.
	VariantDuplicateSame
	// VariantDuplicateDifferent: the instance of the stored head with different content.
	VariantDuplicateDifferent
	// VariantStale: an instance older than the head, fresh content.
	VariantStale
	// VariantGap: an instance beyond the immediate successor (sometimes MaxUint64).
	VariantGap
	// VariantWrongDeltaCID: well-formed delta, commitment (CID) of another table.
	VariantWrongDeltaCID
	// VariantEmptyDeltaWrongCID: no delta, but the committed CID is not the current table's.
	VariantEmptyDeltaWrongCID
	// VariantMalformedDelta: delta that cannot be applied (unsorted, no-effect entry,
	// repeated key, new member without key/power, more power removed than held).
	VariantMalformedDelta
	// VariantEmptyingDelta: delta removing every member; commitment = CID of the empty table.
	VariantEmptyingDelta
	// VariantBottom: no EC chain at all (nil or zero tipsets).
	VariantBottom
	// VariantMalformedChain: EC chain violating the chain rules (epochs not increasing,
	// empty / over-long tipset key, undefined power-table CID, too many tipsets).
	VariantMalformedChain
	// VariantBelowFirst: an instance below the store's first instance.
	VariantBelowFirst
	numVariants
)

// BadVariants lists every non-valid variant.
var BadVariants = []Variant{VariantDuplicateSame, VariantDuplicateDifferent, VariantStale, VariantGap,
	VariantWrongDeltaCID, VariantEmptyDeltaWrongCID, VariantMalformedDelta, VariantEmptyingDelta,
	VariantBottom, VariantMalformedChain, VariantBelowFirst}

func (v Variant) String() string {
	return [...]string{"valid", "duplicate-same", "duplicate-different", "stale", "gap", "wrong-delta-cid",
		"empty-delta-wrong-cid", "malformed-delta", "emptying-delta", "bottom-chain", "malformed-chain", "below-first"}[v]
}

// MustFail reports whether a store holding the chain must refuse the variant
// with an error (true) or may accept it as a no-op (false: the stale kinds).
func (v Variant) MustFail() bool {
	switch v {
	case VariantValid, VariantDuplicateSame, VariantDuplicateDifferent, VariantStale:
		return false
	}
	return true
}

// Gen is a seeded generator of power tables and certificates. Not safe for
// concurrent use.
type Gen struct {
	rng      *rand.Rand
	universe uint32
	nextKey  uint64
	used     map[gpbft.ActorID]struct{}
}

// NewGen returns a generator whose every choice derives from seed.
func NewGen(seed int64) *Gen {
	return &Gen{rng: rand.New(rand.NewSource(seed)), universe: uint32(seed), used: map[gpbft.ActorID]struct{}{}}
}

// Rand exposes the generator's PRNG so callers can draw from the same stream.
func (g *Gen) Rand() *rand.Rand { return g.rng }

func (g *Gen) freshKey() gpbft.PubKey {
	g.nextKey++
	return vsig.PubKey(g.universe, g.nextKey)
}

func (g *Gen) freshID() gpbft.ActorID {
	for {
		var id gpbft.ActorID
		switch g.rng.Intn(4) {
		case 0:
			id = gpbft.ActorID(g.rng.Uint64())
		default:
			id = gpbft.ActorID(1000 + g.rng.Intn(5000))
		}
		if _, ok := g.used[id]; !ok {
			g.used[id] = struct{}{}
			return id
		}
	}
}

func (g *Gen) power() gpbft.StoragePower {
	switch g.rng.Intn(6) {
	case 0: // dust
		return PowInt(1 + int64(g.rng.Intn(3)))
	case 1: // huge
		x := new(big.Int).Lsh(big.NewInt(1+int64(g.rng.Intn(1000))), uint(60+g.rng.Intn(60)))
		return Pow(x)
	default:
		return PowInt(1 + int64(g.rng.Intn(100000)))
	}
}

// Table returns a fresh canonical (sorted) table of n >= 1 members with
// distinct IDs, 48-byte vsig keys and positive powers of mixed magnitude.
func (g *Gen) Table(n int) gpbft.PowerEntries {
	if n < 1 {
		n = 1
	}
	t := make(gpbft.PowerEntries, n)
	for i := range t {
		t[i] = gpbft.PowerEntry{ID: g.freshID(), Power: g.power(), PubKey: g.freshKey()}
	}
	SortTable(t)
	return t
}

// RandomChange draws a non-empty combination of changes.
func (g *Gen) RandomChange() Change {
	return Change(1 + g.rng.Intn(15))
}

// EvolveBounded is Evolve with a random change that keeps the table size within
// [1, maxLen]: at maxLen (or above) nothing is added and a member is removed.
func (g *Gen) EvolveBounded(t gpbft.PowerEntries, maxLen int) gpbft.PowerEntries {
	ch := g.RandomChange()
	if len(t) >= maxLen {
		ch = (ch &^ ChangeAdd) | ChangeRemove
	}
	return g.Evolve(t, ch)
}

// Evolve returns a new canonical table obtained from t by the requested kinds of
// change (t is not modified). The result is never empty and, for ch != 0,
// differs from t.
func (g *Gen) Evolve(t gpbft.PowerEntries, ch Change) gpbft.PowerEntries {
	out := CloneTable(t)
	changed := false
	if ch&ChangeRemove != 0 && len(out) > 1 {
		i := g.rng.Intn(len(out))
		out = append(out[:i], out[i+1:]...)
		changed = true
	}
	if ch&ChangeRekey != 0 {
		i := g.rng.Intn(len(out))
		out[i].PubKey = g.freshKey()
		changed = true
	}
	if ch&ChangeReweight != 0 {
		i := g.rng.Intn(len(out))
		old := out[i].Power
		for {
			p := g.power()
			if g.rng.Intn(2) == 0 { // small relative step
				step := big.NewInt(int64(1 + g.rng.Intn(5)))
				if g.rng.Intn(2) == 0 && old.Int.Cmp(step) > 0 {
					p = Pow(new(big.Int).Sub(old.Int, step))
				} else {
					p = Pow(new(big.Int).Add(old.Int, step))
				}
			}
			if p.Int.Cmp(old.Int) != 0 {
				out[i].Power = p
				break
			}
		}
		changed = true
	}
	if ch&ChangeAdd != 0 || (ch != 0 && !changed) {
		for k := 1 + g.rng.Intn(2); k > 0; k-- {
			out = append(out, gpbft.PowerEntry{ID: g.freshID(), Power: g.power(), PubKey: g.freshKey()})
		}
	}
	SortTable(out)
	return out
}

// Chain is the generator's record of a certificate history: Certs[k] is the
// certificate of instance First+k and Tables[k] the table that validates
// instance First+k (so len(Tables) == len(Certs)+1 and Tables[0] is the
// initial table).
type Chain struct {
	First   uint64
	Certs   []*certs.FinalityCertificate
	Tables  []gpbft.PowerEntries
	Genesis *gpbft.TipSet // base tipset of the first certificate
}

// NewChain starts an empty history at instance first with the given initial table.
func (g *Gen) NewChain(first uint64, initial gpbft.PowerEntries) *Chain {
	return &Chain{First: first, Tables: []gpbft.PowerEntries{initial}, Genesis: g.tipset(int64(g.rng.Intn(1000)))}
}

// Next is the instance the next valid certificate must have.
func (c *Chain) Next() uint64 { return c.First + uint64(len(c.Certs)) }

// Len is the number of certificates.
func (c *Chain) Len() int { return len(c.Certs) }

// HeadTable is the table validating instance Next().
func (c *Chain) HeadTable() gpbft.PowerEntries { return c.Tables[len(c.Tables)-1] }

// HeadTipSet is the last finalized tipset (base of the next certificate's chain).
func (c *Chain) HeadTipSet() *gpbft.TipSet {
	if len(c.Certs) == 0 {
		return c.Genesis
	}
	return c.Certs[len(c.Certs)-1].ECChain.Head()
}

// Cert returns the certificate of the given instance or nil.
func (c *Chain) Cert(instance uint64) *certs.FinalityCertificate {
	if instance < c.First || instance >= c.Next() {
		return nil
	}
	return c.Certs[instance-c.First]
}

// Table returns the table validating the given instance (First..Next()) or nil.
func (c *Chain) Table(instance uint64) gpbft.PowerEntries {
	if instance < c.First || instance > c.Next() {
		return nil
	}
	return c.Tables[instance-c.First]
}

// Append records cert (which must be a valid successor built by Gen.Successor
// for this chain) together with the table it commits to.
func (c *Chain) Append(cert *certs.FinalityCertificate, next gpbft.PowerEntries) {
	if cert.GPBFTInstance != c.Next() {
		panic(fmt.Sprintf("vstore: Append of instance %d to a chain expecting %d", cert.GPBFTInstance, c.Next()))
	}
	c.Certs = append(c.Certs, cert)
	c.Tables = append(c.Tables, next)
}

// Clone returns a copy sharing the (immutable) certificates and tables.
func (c *Chain) Clone() *Chain {
	return &Chain{First: c.First, Genesis: c.Genesis,
		Certs: append([]*certs.FinalityCertificate(nil), c.Certs...), Tables: append([]gpbft.PowerEntries(nil), c.Tables...)}
}

func (g *Gen) tipset(epoch int64) *gpbft.TipSet {
	var key []byte
	for k := 1 + g.rng.Intn(3); k > 0; k-- {
		b := make([]byte, 16)
		g.rng.Read(b)
		key = append(key, gpbft.MakeCid(b).Bytes()...)
	}
	b := make([]byte, 16)
	g.rng.Read(b)
	ts := &gpbft.TipSet{Epoch: epoch, Key: key, PowerTable: gpbft.MakeCid(b)}
	if g.rng.Intn(2) == 0 {
		g.rng.Read(ts.Commitments[:])
	}
	return ts
}

// ecChain builds a valid chain base -> head with 0..4 new tipsets on top of base.
func (g *Gen) ecChain(base *gpbft.TipSet) *gpbft.ECChain {
	ts := []*gpbft.TipSet{base}
	epoch := base.Epoch
	for k := g.rng.Intn(5); k > 0; k-- {
		epoch += 1 + int64(g.rng.Intn(3))
		ts = append(ts, g.tipset(epoch))
	}
	return &gpbft.ECChain{TipSets: ts}
}

// Sign (re)computes cert.Signers and cert.Signature: a random strong-quorum
// subset of table (members whose scaled power is zero never sign) signs the
// DECIDE payload of the certificate, aggregated with the vsig stand-in.
func (g *Gen) Sign(cert *certs.FinalityCertificate, table gpbft.PowerEntries) {
	scaled, total, err := table.Scaled()
	if err != nil {
		panic(fmt.Sprintf("vstore: cannot scale table: %v", err))
	}
	order := g.rng.Perm(len(table))
	chosen := map[int]struct{}{}
	var part int64
	for _, i := range order {
		if scaled[i] == 0 {
			continue
		}
		if 3*part >= 2*total && g.rng.Intn(3) != 0 {
			break
		}
		chosen[i] = struct{}{}
		part += scaled[i]
	}
	if 3*part < 2*total {
		panic("vstore: table cannot reach a strong quorum")
	}
	payload := &gpbft.Payload{Instance: cert.GPBFTInstance, Round: 0, Phase: gpbft.DECIDE_PHASE,
		SupplementalData: cert.SupplementalData, Value: cert.ECChain}
	msg := payload.MarshalForSigning(NetworkName)
	mask := make([]int, 0, len(chosen))
	set := make([]uint64, 0, len(chosen))
	for i := range table {
		if _, ok := chosen[i]; ok {
			mask = append(mask, i)
			set = append(set, uint64(i))
		}
	}
	sigs := make([][]byte, len(mask))
	for k, i := range mask {
		sigs[k] = vsig.RawSign(table[i].PubKey, msg)
	}
	agg, err := vsig.Backend{}.Aggregate(table.PublicKeys())
	if err != nil {
		panic(err)
	}
	sig, err := agg.Aggregate(mask, sigs)
	if err != nil {
		panic(err)
	}
	cert.Signers = bitfield.NewFromSet(set)
	cert.Signature = sig
}

// Successor builds (without appending) the valid certificate for c.Next(): its
// EC chain starts at c.HeadTipSet(), its delta turns c.HeadTable() into next
// (pass c.HeadTable() itself for "unchanged"), its supplemental data commits to
// next, and it is signed by a strong quorum of c.HeadTable().
func (g *Gen) Successor(c *Chain, next gpbft.PowerEntries) *certs.FinalityCertificate {
	cert := &certs.FinalityCertificate{
		GPBFTInstance:   c.Next(),
		ECChain:         g.ecChain(c.HeadTipSet()),
		PowerTableDelta: DiffTables(c.HeadTable(), next),
	}
	cert.SupplementalData.PowerTable = TableCID(next)
	if g.rng.Intn(2) == 0 {
		g.rng.Read(cert.SupplementalData.Commitments[:])
	}
	g.Sign(cert, c.HeadTable())
	return cert
}

// Extend appends n valid certificates; each changes the table with
// probability changeProb (EvolveBounded, at most 12 members).
func (g *Gen) Extend(c *Chain, n int, changeProb float64) {
	for ; n > 0; n-- {
		next := c.HeadTable()
		if g.rng.Float64() < changeProb {
			next = g.EvolveBounded(next, 12)
		}
		c.Append(g.Successor(c, next), next)
	}
}

// CloneCert deep-copies a certificate through its CBOR form.
func CloneCert(c *certs.FinalityCertificate) *certs.FinalityCertificate {
	var out certs.FinalityCertificate
	if err := out.UnmarshalCBOR(bytes.NewReader(CertBytes(c))); err != nil {
		panic(fmt.Sprintf("vstore: certificate does not round-trip: %v", err))
	}
	return &out
}

// CertBytes is the canonical (CBOR) form of a certificate.
func CertBytes(c *certs.FinalityCertificate) []byte {
	var buf bytes.Buffer
	buf.Grow(512 + 240*c.ECChain.Len() + 96*len(c.PowerTableDelta))
	if err := c.MarshalCBOR(&buf); err != nil {
		panic(fmt.Sprintf("vstore: cannot encode certificate: %v", err))
	}
	return buf.Bytes()
}

// Bad builds the requested non-valid variant relative to the chain (which is
// not modified). Apart from its one defect every variant is what Successor
// would produce (linked chain, consistent delta/commitment, quorum signature).
// It returns nil when the variant cannot be built for this chain (e.g. a
// duplicate while nothing is stored, below-first when First is 0).
func (g *Gen) Bad(c *Chain, v Variant) *certs.FinalityCertificate {
	head := c.HeadTable()
	switch v {
	case VariantValid:
		return g.Successor(c, head)
	case VariantDuplicateSame:
		if c.Len() == 0 {
			return nil
		}
		return CloneCert(c.Certs[g.rng.Intn(c.Len())])
	case VariantDuplicateDifferent, VariantStale:
		if c.Len() == 0 {
			return nil
		}
		k := c.Len() - 1
		if v == VariantStale {
			if c.Len() < 2 {
				return nil
			}
			k = g.rng.Intn(c.Len() - 1)
		}
		// a different, self-consistent certificate for the stored instance First+k
		prefix := &Chain{First: c.First, Genesis: c.Genesis, Certs: c.Certs[:k], Tables: c.Tables[:k+1]}
		next := prefix.HeadTable()
		if g.rng.Intn(2) == 0 {
			next = g.Evolve(next, g.RandomChange())
		}
		for {
			cert := g.Successor(prefix, next)
			if !bytes.Equal(CertBytes(cert), CertBytes(c.Certs[k])) {
				return cert
			}
		}
	case VariantGap:
		cert := g.Successor(c, head)
		switch g.rng.Intn(4) {
		case 0:
			cert.GPBFTInstance = math.MaxUint64
		case 1:
			cert.GPBFTInstance = c.Next() + 1
		default:
			cert.GPBFTInstance = c.Next() + 1 + uint64(g.rng.Intn(2000))
		}
		if cert.GPBFTInstance <= c.Next() { // wrapped
			cert.GPBFTInstance = math.MaxUint64
			if c.Next() == math.MaxUint64 {
				return nil
			}
		}
		g.Sign(cert, head)
		return cert
	case VariantWrongDeltaCID:
		next := g.Evolve(head, g.RandomChange())
		cert := g.Successor(c, next)
		other := g.Evolve(next, g.RandomChange())
		if g.rng.Intn(3) == 0 {
			other = head // commits to the unchanged table while carrying a delta
		}
		cert.SupplementalData.PowerTable = TableCID(other)
		g.Sign(cert, head)
		return cert
	case VariantEmptyDeltaWrongCID:
		cert := g.Successor(c, head)
		cert.SupplementalData.PowerTable = TableCID(g.Evolve(head, g.RandomChange()))
		g.Sign(cert, head)
		return cert
	case VariantMalformedDelta:
		next := g.Evolve(head, ChangeAdd|ChangeReweight)
		cert := g.Successor(c, next)
		d := cert.PowerTableDelta
		switch g.rng.Intn(5) {
		case 0: // unsorted / repeated participant
			d = append(d, d[0])
		case 1: // entry without effect
			d[g.rng.Intn(len(d))] = certs.PowerTableDelta{ParticipantID: d[0].ParticipantID, PowerDelta: PowInt(0)}
		case 2: // existing member "re-keyed" to its current key
			e := head[g.rng.Intn(len(head))]
			d = certs.PowerTableDiff{{ParticipantID: e.ID, PowerDelta: PowInt(0), SigningKey: bytes.Clone(e.PubKey)}}
		case 3: // new member without key
			d = certs.PowerTableDiff{{ParticipantID: g.freshID(), PowerDelta: PowInt(5)}}
		default: // removes more power than held
			e := head[g.rng.Intn(len(head))]
			d = certs.PowerTableDiff{{ParticipantID: e.ID, PowerDelta: Pow(new(big.Int).Neg(new(big.Int).Add(e.Power.Int, big.NewInt(1))))}}
		}
		cert.PowerTableDelta = d
		return cert
	case VariantEmptyingDelta:
		cert := g.Successor(c, gpbft.PowerEntries{})
		return cert
	case VariantBottom:
		cert := g.Successor(c, head)
		if g.rng.Intn(2) == 0 {
			cert.ECChain = nil
		} else {
			cert.ECChain = &gpbft.ECChain{}
		}
		g.Sign(cert, head)
		return cert
	case VariantMalformedChain:
		cert := g.Successor(c, head)
		ts := append([]*gpbft.TipSet(nil), cert.ECChain.TipSets...)
		for len(ts) < 2 {
			ts = append(ts, g.tipset(ts[len(ts)-1].Epoch+1))
		}
		i := 1 + g.rng.Intn(len(ts)-1)
		bad := *ts[i]
		switch g.rng.Intn(5) {
		case 0:
			bad.Epoch = ts[i-1].Epoch // not increasing
		case 1:
			bad.Key = nil
		case 2:
			bad.Key = bytes.Repeat([]byte{7}, gpbft.TipsetKeyMaxLen+1)
		case 3:
			bad.Epoch = ts[i-1].Epoch - 1
		default:
			for len(ts) <= gpbft.ChainMaxLen {
				ts = append(ts, g.tipset(ts[len(ts)-1].Epoch+1))
			}
			bad = *ts[i]
		}
		ts[i] = &bad
		cert.ECChain = &gpbft.ECChain{TipSets: ts}
		g.Sign(cert, head)
		return cert
	case VariantBelowFirst:
		if c.First == 0 {
			return nil
		}
		cert := g.Successor(c, head)
		if g.rng.Intn(2) == 0 {
			cert.GPBFTInstance = c.First - 1
		} else {
			cert.GPBFTInstance = uint64(g.rng.Int63n(int64(min(c.First, math.MaxInt64))))
		}
		g.Sign(cert, head)
		return cert
	}
	return nil
}

// Verify runs the repository's own certificate-chain validation (signatures
// with the vsig verifier, deltas, commitments, chain linkage) over the whole
// chain; generators use it as a self-check that what they call valid is valid.
func (c *Chain) Verify() error {
	next, _, table, err := certs.ValidateFinalityCertificates(vsig.Backend{}, NetworkName, c.Tables[0], c.First, c.Genesis, c.Certs...)
	if err != nil {
		return err
	}
	if next != c.Next() {
		return fmt.Errorf("validated up to %d, chain says %d", next, c.Next())
	}
	if len(c.Certs) > 0 && !bytes.Equal(TableBytes(table), TableBytes(c.HeadTable())) {
		return fmt.Errorf("validator derives a different head table")
	}
	return nil
}
