package vstore

import (
	"bytes"
	"errors"
	"fmt"

	"github.com/filecoin-project/go-f3/certs"
	"github.com/filecoin-project/go-f3/gpbft"
)

// Model is the reference certificate store, written from the property text:
//
//	a contiguous sequence of certificates from the first instance to the
//	latest; a certificate is admitted only as the immediate successor of the
//	latest one and only if its delta reproduces the committed next power table
//	(never an empty one); re-submitting an already stored instance changes
//	nothing; the power table of instance i (first <= i <= latest+1) is the
//	initial table with all earlier deltas applied.
//
// It keeps the accepted certificates by their CBOR bytes (so later mutation of
// a caller's certificate cannot leak into the model) and the derived tables.
type Model struct {
	Created bool
	First   uint64
	certs   [][]byte
	tables  []gpbft.PowerEntries // tables[k] validates First+k; len = len(certs)+1
	tbytes  [][]byte             // CBOR of tables[k] (cache)
}

// PutOutcome is what the model says about a Put.
type PutOutcome int

const (
	// PutAccept: the certificate is the valid immediate successor; it is appended.
	PutAccept PutOutcome = iota
	// PutNoop: the instance is already stored; nothing changes. The property does
	// not fix the return value, so a real store may answer nil or an error.
	PutNoop
	// PutReject: the certificate must be refused with an error; nothing changes.
	PutReject
)

func (o PutOutcome) String() string { return [...]string{"accept", "noop", "reject"}[o] }

// NewModel returns the model of a store that does not exist yet.
func NewModel() *Model { return &Model{} }

// Create models CreateStore / first-time OpenOrCreateStore.
func (m *Model) Create(first uint64, initial gpbft.PowerEntries) error {
	if m.Created {
		return errors.New("model: already created")
	}
	if len(initial) == 0 {
		return errors.New("model: empty initial table")
	}
	t := CloneTable(initial)
	*m = Model{Created: true, First: first, tables: []gpbft.PowerEntries{t}, tbytes: [][]byte{TableBytes(t)}}
	return nil
}

// Wipe models a completed DeleteAll: the store does not exist any more.
func (m *Model) Wipe() { *m = Model{} }

// Clone returns an independent copy.
func (m *Model) Clone() *Model {
	return &Model{Created: m.Created, First: m.First,
		certs: append([][]byte(nil), m.certs...), tables: append([]gpbft.PowerEntries(nil), m.tables...),
		tbytes: append([][]byte(nil), m.tbytes...)}
}

// Len is the number of stored certificates.
func (m *Model) Len() int { return len(m.certs) }

// Next is the only instance that can be admitted now.
func (m *Model) Next() uint64 { return m.First + uint64(len(m.certs)) }

// HasLatest reports whether at least one certificate is stored.
func (m *Model) HasLatest() bool { return len(m.certs) > 0 }

// LatestInstance is the instance of the newest certificate (only if HasLatest).
func (m *Model) LatestInstance() uint64 { return m.Next() - 1 }

// InitialTable is the table the store was created with.
func (m *Model) InitialTable() gpbft.PowerEntries { return m.tables[0] }

// CertBytes returns the CBOR bytes of the stored certificate of the instance, or nil.
func (m *Model) CertBytes(instance uint64) []byte {
	if !m.Created || instance < m.First || instance >= m.Next() {
		return nil
	}
	return m.certs[instance-m.First]
}

// Table returns the derived table of the instance (First <= instance <= Next()), or nil.
func (m *Model) Table(instance uint64) gpbft.PowerEntries {
	if !m.Created || instance < m.First || instance > m.Next() {
		return nil
	}
	return m.tables[instance-m.First]
}

func chainWellFormed(c *gpbft.ECChain) error {
	if c == nil || len(c.TipSets) == 0 {
		return errors.New("bottom")
	}
	if len(c.TipSets) > gpbft.ChainMaxLen {
		return errors.New("chain too long")
	}
	for i, ts := range c.TipSets {
		switch {
		case ts == nil:
			return fmt.Errorf("tipset %d missing", i)
		case len(ts.Key) == 0 || len(ts.Key) > gpbft.TipsetKeyMaxLen:
			return fmt.Errorf("tipset %d key length %d", i, len(ts.Key))
		case !ts.PowerTable.Defined() || ts.PowerTable.ByteLen() > gpbft.CidMaxLen:
			return fmt.Errorf("tipset %d power table cid", i)
		case i > 0 && ts.Epoch <= c.TipSets[i-1].Epoch:
			return fmt.Errorf("tipset %d epoch not increasing", i)
		}
	}
	return nil
}

// Classify says what Put(cert) must do in the current state, without changing
// the model. The reason string explains a PutReject/PutNoop.
//
// Where two rules apply at once (e.g. an already stored instance carried by a
// malformed certificate) the answer is PutNoop: the only thing the property
// demands in that case is that nothing changes.
func (m *Model) Classify(cert *certs.FinalityCertificate) (PutOutcome, gpbft.PowerEntries, string) {
	if !m.Created {
		return PutReject, nil, "store not created"
	}
	i := cert.GPBFTInstance
	switch {
	case i < m.First:
		return PutReject, nil, "below first instance"
	case i < m.Next():
		return PutNoop, nil, "instance already stored"
	case i > m.Next():
		return PutReject, nil, "gap"
	}
	if err := chainWellFormed(cert.ECChain); err != nil {
		return PutReject, nil, "chain: " + err.Error()
	}
	next, err := ApplyDelta(m.tables[len(m.tables)-1], cert.PowerTableDelta)
	if err != nil {
		return PutReject, nil, "delta: " + err.Error()
	}
	if len(next) == 0 {
		return PutReject, nil, "delta empties the table"
	}
	if TableCID(next) != cert.SupplementalData.PowerTable {
		return PutReject, nil, "delta does not reproduce the committed table"
	}
	return PutAccept, next, ""
}

// Put applies Classify: on PutAccept the certificate is appended.
func (m *Model) Put(cert *certs.FinalityCertificate) (PutOutcome, string) {
	out, next, why := m.Classify(cert)
	if out == PutAccept {
		m.certs = append(m.certs, CertBytes(cert))
		m.tables = append(m.tables, next)
		m.tbytes = append(m.tbytes, TableBytes(next))
	}
	return out, why
}

// Range models GetRange(start, end): the stored certificates of the longest
// run start, start+1, ... <= end that exists, and whether the run is complete.
func (m *Model) Range(start, end uint64) (out [][]byte, complete bool) {
	if start > end {
		return nil, false
	}
	for i := start; ; i++ {
		b := m.CertBytes(i)
		if b == nil {
			return out, false
		}
		out = append(out, b)
		if i == end {
			return out, true
		}
	}
}

// Observe is Observation of the model, comparable with Observe(real store).
func (m *Model) Observe() *Observation {
	return m.ObserveAt(nil)
}

// ObserveAt is the model counterpart of ObserveAt(real store, ...).
func (m *Model) ObserveAt(tableInstances []uint64) *Observation {
	o := &Observation{First: m.First, Tables: map[uint64][]byte{}}
	if !m.Created {
		o.Errors = append(o.Errors, "model: store not created")
		return o
	}
	if m.HasLatest() {
		o.HasLatest = true
		o.LatestInstance = m.LatestInstance()
		o.Latest = m.certs[len(m.certs)-1]
		o.Certs = append([][]byte(nil), m.certs...)
		o.Range = append([][]byte(nil), m.certs...)
	}
	if tableInstances == nil {
		for i := m.First; ; i++ {
			o.Tables[i] = m.tbytes[i-m.First]
			if i == m.Next() {
				break
			}
		}
	} else {
		for _, i := range tableInstances {
			if t := m.Table(i); t != nil {
				o.Tables[i] = m.tbytes[i-m.First]
			}
		}
	}
	return o
}

// TableBytes returns the CBOR bytes of Table(instance), or nil.
func (m *Model) TableBytes(instance uint64) []byte {
	if m.Table(instance) == nil {
		return nil
	}
	return m.tbytes[instance-m.First]
}

// EqualCert reports whether the model's certificate at instance equals b.
func (m *Model) EqualCert(instance uint64, b []byte) bool {
	return bytes.Equal(m.CertBytes(instance), b)
}
