package vstore

import (
	"bytes"
	"context"
	"crypto/sha256"
	"encoding/binary"
	"encoding/hex"
	"fmt"
	"sort"

	"github.com/filecoin-project/go-f3/certstore"
)

// Observation is the observable state of a certificate store in canonical
// form: every certificate and table as its CBOR bytes.
//
//	Latest / LatestInstance / HasLatest : Store.Latest()
//	Certs[k]                            : Store.Get(First+k), First <= First+k <= latest
//	Range                               : Store.GetRange(First, latest)
//	Tables[i]                           : Store.GetPowerTable(i), First <= i <= latest+1
//	                                      (ObserveAt: only the requested instances)
//	Errors                              : every call above that failed or returned
//	                                      something malformed (a healthy store has none)
//
// First is not readable through the public API; it is supplied by the caller
// and confirmed indirectly (GetPowerTable(First) must succeed).
type Observation struct {
	First          uint64
	HasLatest      bool
	LatestInstance uint64
	Latest         []byte
	Certs          [][]byte
	Range          [][]byte
	Tables         map[uint64][]byte
	Errors         []string
}

// Observe reads the full observable state of st through its public API.
func Observe(ctx context.Context, st *certstore.Store, first uint64) *Observation {
	return ObserveAt(ctx, st, first, nil)
}

// ObserveAt is Observe restricted to the power tables of the listed instances
// (nil = all of First..latest+1). Use it on long histories, where deriving
// every table costs O(history * checkpoint distance).
func ObserveAt(ctx context.Context, st *certstore.Store, first uint64, tableInstances []uint64) *Observation {
	o := &Observation{First: first, Tables: map[uint64][]byte{}}
	next := first
	if l := st.Latest(); l != nil {
		o.HasLatest = true
		o.LatestInstance = l.GPBFTInstance
		o.Latest = CertBytes(l)
		if l.GPBFTInstance < first {
			o.Errors = append(o.Errors, fmt.Sprintf("Latest() is instance %d, below first %d", l.GPBFTInstance, first))
			return o
		}
		next = l.GPBFTInstance + 1
		for i := first; i < next; i++ {
			c, err := st.Get(ctx, i)
			if err != nil {
				o.Errors = append(o.Errors, fmt.Sprintf("Get(%d): %v", i, err))
				o.Certs = append(o.Certs, nil)
				continue
			}
			if c.GPBFTInstance != i {
				o.Errors = append(o.Errors, fmt.Sprintf("Get(%d) returned instance %d", i, c.GPBFTInstance))
			}
			o.Certs = append(o.Certs, CertBytes(c))
		}
		rg, err := st.GetRange(ctx, first, l.GPBFTInstance)
		if err != nil {
			o.Errors = append(o.Errors, fmt.Sprintf("GetRange(%d,%d): %v", first, l.GPBFTInstance, err))
		}
		for k := range rg {
			o.Range = append(o.Range, CertBytes(&rg[k]))
		}
	}
	table := func(i uint64) {
		t, err := st.GetPowerTable(ctx, i)
		if err != nil {
			o.Errors = append(o.Errors, fmt.Sprintf("GetPowerTable(%d): %v", i, err))
			return
		}
		o.Tables[i] = TableBytes(t)
	}
	if tableInstances == nil {
		for i := first; ; i++ {
			table(i)
			if i == next {
				break
			}
		}
	} else {
		for _, i := range tableInstances {
			if i >= first && i <= next {
				table(i)
			}
		}
	}
	return o
}

// Diff returns "" when both observations are identical, else a one-line
// description of the first difference (o is "got", want is the reference).
func (o *Observation) Diff(want *Observation) string {
	switch {
	case len(o.Errors) > 0 || len(want.Errors) > 0:
		if fmt.Sprint(o.Errors) != fmt.Sprint(want.Errors) {
			return fmt.Sprintf("errors: got %v want %v", o.Errors, want.Errors)
		}
	}
	if o.First != want.First {
		return fmt.Sprintf("first instance: got %d want %d", o.First, want.First)
	}
	if o.HasLatest != want.HasLatest {
		return fmt.Sprintf("latest present: got %v want %v", o.HasLatest, want.HasLatest)
	}
	if o.HasLatest && o.LatestInstance != want.LatestInstance {
		return fmt.Sprintf("latest instance: got %d want %d", o.LatestInstance, want.LatestInstance)
	}
	if !bytes.Equal(o.Latest, want.Latest) {
		return fmt.Sprintf("latest certificate (instance %d) differs", o.LatestInstance)
	}
	if d := diffList("Get", o.First, o.Certs, want.Certs); d != "" {
		return d
	}
	if d := diffList("GetRange", o.First, o.Range, want.Range); d != "" {
		return d
	}
	keys := map[uint64]struct{}{}
	for k := range o.Tables {
		keys[k] = struct{}{}
	}
	for k := range want.Tables {
		keys[k] = struct{}{}
	}
	ks := make([]uint64, 0, len(keys))
	for k := range keys {
		ks = append(ks, k)
	}
	sort.Slice(ks, func(i, j int) bool { return ks[i] < ks[j] })
	for _, k := range ks {
		g, okg := o.Tables[k]
		w, okw := want.Tables[k]
		switch {
		case okg != okw:
			return fmt.Sprintf("power table of instance %d: got present=%v want present=%v", k, okg, okw)
		case !bytes.Equal(g, w):
			return fmt.Sprintf("power table of instance %d differs", k)
		}
	}
	return ""
}

func diffList(what string, first uint64, got, want [][]byte) string {
	if len(got) != len(want) {
		return fmt.Sprintf("%s: got %d certificates want %d", what, len(got), len(want))
	}
	for k := range got {
		if !bytes.Equal(got[k], want[k]) {
			return fmt.Sprintf("%s: certificate of instance %d differs", what, first+uint64(k))
		}
	}
	return ""
}

// Digest is a short hash of the whole observation (for distinct-case counting
// and witnesses).
func (o *Observation) Digest() string {
	h := sha256.New()
	w := func(b []byte) {
		_ = binary.Write(h, binary.BigEndian, uint64(len(b)))
		h.Write(b)
	}
	_ = binary.Write(h, binary.BigEndian, o.First)
	_ = binary.Write(h, binary.BigEndian, o.HasLatest)
	_ = binary.Write(h, binary.BigEndian, o.LatestInstance)
	w(o.Latest)
	for _, c := range o.Certs {
		w(c)
	}
	for _, c := range o.Range {
		w(c)
	}
	ks := make([]uint64, 0, len(o.Tables))
	for k := range o.Tables {
		ks = append(ks, k)
	}
	sort.Slice(ks, func(i, j int) bool { return ks[i] < ks[j] })
	for _, k := range ks {
		_ = binary.Write(h, binary.BigEndian, k)
		w(o.Tables[k])
	}
	for _, e := range o.Errors {
		w([]byte(e))
	}
	return hex.EncodeToString(h.Sum(nil)[:8])
}

// Summary is a compact human-readable description for witnesses.
func (o *Observation) Summary() string {
	if !o.HasLatest {
		return fmt.Sprintf("first=%d latest=none tables=%d errors=%v", o.First, len(o.Tables), o.Errors)
	}
	return fmt.Sprintf("first=%d latest=%d certs=%d range=%d tables=%d errors=%v digest=%s",
		o.First, o.LatestInstance, len(o.Certs), len(o.Range), len(o.Tables), o.Errors, o.Digest())
}
