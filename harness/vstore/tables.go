package vstore

import (
	"bytes"
	"errors"
	"fmt"
	"math/big"
	"sort"

	"github.com/filecoin-project/go-f3/certs"
	"github.com/filecoin-project/go-f3/gpbft"
	"github.com/ipfs/go-cid"
)

// Power-table algebra of the reference side. It is written from the meaning of
// a finality certificate's PowerTableDelta (a list of per-participant signed
// power changes and optional new keys, sorted by participant, where a
// participant whose power reaches zero leaves the table) and deliberately does
// not call certs.ApplyPowerTableDiffs / certs.MakePowerTableDiff.

// Pow builds a StoragePower from a math/big integer (copied).
func Pow(x *big.Int) gpbft.StoragePower { return gpbft.StoragePower{Int: new(big.Int).Set(x)} }

// PowInt builds a StoragePower from an int64.
func PowInt(x int64) gpbft.StoragePower { return gpbft.StoragePower{Int: big.NewInt(x)} }

// CloneTable returns a deep copy of t (nil stays nil).
func CloneTable(t gpbft.PowerEntries) gpbft.PowerEntries {
	if t == nil {
		return nil
	}
	out := make(gpbft.PowerEntries, len(t))
	for i, e := range t {
		out[i] = gpbft.PowerEntry{ID: e.ID, Power: Pow(e.Power.Int), PubKey: bytes.Clone(e.PubKey)}
	}
	return out
}

// SortTable puts t in the canonical order: power descending, then ID ascending.
func SortTable(t gpbft.PowerEntries) {
	sort.SliceStable(t, func(i, j int) bool {
		if c := t[i].Power.Int.Cmp(t[j].Power.Int); c != 0 {
			return c > 0
		}
		return t[i].ID < t[j].ID
	})
}

// TableBytes is the canonical (CBOR) form of a table.
func TableBytes(t gpbft.PowerEntries) []byte {
	var buf bytes.Buffer
	buf.Grow(16 + 96*len(t))
	if err := t.MarshalCBOR(&buf); err != nil {
		panic(fmt.Sprintf("vstore: cannot encode power table: %v", err))
	}
	return buf.Bytes()
}

// TableCID is the commitment a certificate carries for the NEXT power table
// (SupplementalData.PowerTable).
func TableCID(t gpbft.PowerEntries) cid.Cid {
	c, err := certs.MakePowerTableCID(t)
	if err != nil {
		panic(fmt.Sprintf("vstore: cannot hash power table: %v", err))
	}
	return c
}

// ApplyDelta applies one certificate's delta to table and returns the next
// table (a fresh slice in canonical order). An empty delta returns table
// itself, unchanged. The rules, from the delta's definition:
//   - entries strictly ascending by participant;
//   - no entry without effect (zero power change and no key);
//   - existing participant: power += change; a new key must differ from the
//     current one and cannot accompany a removal; power 0 removes, < 0 is an error;
//   - new participant: positive power and a key are required.
func ApplyDelta(table gpbft.PowerEntries, delta certs.PowerTableDiff) (gpbft.PowerEntries, error) {
	if len(delta) == 0 {
		return table, nil
	}
	type ent struct {
		power *big.Int
		key   []byte
	}
	m := make(map[gpbft.ActorID]*ent, len(table))
	for _, e := range table {
		if _, dup := m[e.ID]; dup {
			return nil, fmt.Errorf("duplicate participant %d in table", e.ID)
		}
		m[e.ID] = &ent{power: new(big.Int).Set(e.Power.Int), key: e.PubKey}
	}
	for i, d := range delta {
		if i > 0 && d.ParticipantID <= delta[i-1].ParticipantID {
			return nil, errors.New("delta not strictly ascending by participant")
		}
		change := d.PowerDelta.Int
		if change == nil {
			change = new(big.Int)
		}
		if change.Sign() == 0 && len(d.SigningKey) == 0 {
			return nil, fmt.Errorf("delta entry for %d has no effect", d.ParticipantID)
		}
		cur, ok := m[d.ParticipantID]
		if ok {
			if len(d.SigningKey) > 0 && bytes.Equal(d.SigningKey, cur.key) {
				return nil, fmt.Errorf("delta entry for %d repeats the current key", d.ParticipantID)
			}
			cur.power.Add(cur.power, change)
			switch cur.power.Sign() {
			case -1:
				return nil, fmt.Errorf("negative power for %d", d.ParticipantID)
			case 0:
				if len(d.SigningKey) > 0 {
					return nil, fmt.Errorf("delta entry for %d removes the participant and sets a key", d.ParticipantID)
				}
				delete(m, d.ParticipantID)
			default:
				if len(d.SigningKey) > 0 {
					cur.key = d.SigningKey
				}
			}
			continue
		}
		if change.Sign() <= 0 {
			return nil, fmt.Errorf("new participant %d without positive power", d.ParticipantID)
		}
		if len(d.SigningKey) == 0 {
			return nil, fmt.Errorf("new participant %d without key", d.ParticipantID)
		}
		m[d.ParticipantID] = &ent{power: new(big.Int).Set(change), key: d.SigningKey}
	}
	out := make(gpbft.PowerEntries, 0, len(m))
	for id, e := range m {
		out = append(out, gpbft.PowerEntry{ID: id, Power: Pow(e.power), PubKey: bytes.Clone(e.key)})
	}
	sort.Slice(out, func(i, j int) bool { return out[i].ID < out[j].ID })
	SortTable(out)
	return out, nil
}

// DiffTables returns the delta that turns oldT into newT (sorted by participant).
func DiffTables(oldT, newT gpbft.PowerEntries) certs.PowerTableDiff {
	om := make(map[gpbft.ActorID]gpbft.PowerEntry, len(oldT))
	for _, e := range oldT {
		om[e.ID] = e
	}
	var diff certs.PowerTableDiff
	for _, n := range newT {
		o, ok := om[n.ID]
		if !ok {
			diff = append(diff, certs.PowerTableDelta{ParticipantID: n.ID, PowerDelta: Pow(n.Power.Int), SigningKey: bytes.Clone(n.PubKey)})
			continue
		}
		delete(om, n.ID)
		d := certs.PowerTableDelta{ParticipantID: n.ID, PowerDelta: Pow(new(big.Int).Sub(n.Power.Int, o.Power.Int))}
		if !bytes.Equal(n.PubKey, o.PubKey) {
			d.SigningKey = bytes.Clone(n.PubKey)
		}
		if d.PowerDelta.Sign() == 0 && len(d.SigningKey) == 0 {
			continue
		}
		diff = append(diff, d)
	}
	for _, o := range om {
		diff = append(diff, certs.PowerTableDelta{ParticipantID: o.ID, PowerDelta: Pow(new(big.Int).Neg(o.Power.Int))})
	}
	sort.Slice(diff, func(i, j int) bool { return diff[i].ParticipantID < diff[j].ParticipantID })
	return diff
}
