package vstore

import (
	"bytes"
	"context"
	"crypto/sha256"
	"encoding/hex"
	"errors"
	"math/rand"
	"sort"
	"strings"
	"sync"

	"github.com/ipfs/go-datastore"
	"github.com/ipfs/go-datastore/query"
)

// ErrCrashed is returned by every call on a CrashDS after its crash point.
var ErrCrashed = errors.New("vstore: datastore crashed (injected)")

// Snapshot is the complete content of a datastore: key string -> value.
type Snapshot map[string][]byte

// Clone deep-copies the snapshot.
func (s Snapshot) Clone() Snapshot {
	out := make(Snapshot, len(s))
	for k, v := range s {
		out[k] = bytes.Clone(v)
	}
	return out
}

// Keys returns the sorted keys, optionally only those under prefix ("" = all;
// "/certstore" matches "/certstore/..." only).
func (s Snapshot) Keys(prefix string) []string {
	var out []string
	for k := range s {
		if prefix == "" || strings.HasPrefix(k, strings.TrimSuffix(prefix, "/")+"/") {
			out = append(out, k)
		}
	}
	sort.Strings(out)
	return out
}

// Has reports whether key is present.
func (s Snapshot) Has(key string) bool { _, ok := s[key]; return ok }

// Digest is a short content hash.
func (s Snapshot) Digest() string {
	h := sha256.New()
	for _, k := range s.Keys("") {
		h.Write([]byte(k))
		h.Write([]byte{0})
		h.Write(s[k])
		h.Write([]byte{0})
	}
	return hex.EncodeToString(h.Sum(nil)[:8])
}

// WriteRec describes one mutating call seen by a CrashDS.
type WriteRec struct {
	N   int    // 1-based index among the mutating calls of this CrashDS
	Op  string // "put", "delete", "commit"
	Key string // key ("" for commit)
}

// CrashDS is an in-memory, thread-safe datastore.Batching for fault injection.
//
// Every mutating call (Put, Delete, Batch.Commit — a commit is ONE atomic
// mutating call, whatever it contains) is counted. After Arm(k), the next k
// mutating calls succeed; the (k+1)-th is NOT applied, marks the datastore as
// crashed and fails, and from then on every call (reads included) fails with
// ErrCrashed. Snapshot() returns the content as it was at the crash (or the
// current content if no crash happened), from which a fresh CrashDS can be
// built to play "the process restarts on the same disk".
type CrashDS struct {
	mu      sync.Mutex
	data    Snapshot
	writes  int
	budget  int // < 0: unlimited
	crashed bool
	log     []WriteRec
	keepLog bool
	hook    func(WriteRec)
	shuffle *rand.Rand
}

var _ datastore.Batching = (*CrashDS)(nil)

// NewCrashDS returns an empty, un-armed datastore.
func NewCrashDS() *CrashDS { return &CrashDS{data: Snapshot{}, budget: -1} }

// NewCrashDSFrom returns an un-armed datastore holding a copy of snap.
func NewCrashDSFrom(snap Snapshot) *CrashDS { return &CrashDS{data: snap.Clone(), budget: -1} }

// Arm lets k more mutating calls through and crashes on the one after.
func (d *CrashDS) Arm(k int) {
	d.mu.Lock()
	d.budget = k
	d.mu.Unlock()
}

// Disarm removes the crash point (a crash that already happened stays).
func (d *CrashDS) Disarm() { d.Arm(-1) }

// Writes is the number of mutating calls applied so far.
func (d *CrashDS) Writes() int {
	d.mu.Lock()
	defer d.mu.Unlock()
	return d.writes
}

// Crashed reports whether the crash point was hit.
func (d *CrashDS) Crashed() bool {
	d.mu.Lock()
	defer d.mu.Unlock()
	return d.crashed
}

// Snapshot returns a copy of the content (frozen at the crash, if any).
func (d *CrashDS) Snapshot() Snapshot {
	d.mu.Lock()
	defer d.mu.Unlock()
	return d.data.Clone()
}

// KeepLog makes the datastore remember its mutating calls (see Log).
func (d *CrashDS) KeepLog(on bool) { d.mu.Lock(); d.keepLog = on; d.mu.Unlock() }

// Log returns the remembered mutating calls (applied ones, plus the one that crashed last).
func (d *CrashDS) Log() []WriteRec {
	d.mu.Lock()
	defer d.mu.Unlock()
	return append([]WriteRec(nil), d.log...)
}

// SetWriteHook installs fn, called (without any lock held) immediately before
// each mutating call is applied; use it to yield or to widen race windows.
func (d *CrashDS) SetWriteHook(fn func(WriteRec)) { d.mu.Lock(); d.hook = fn; d.mu.Unlock() }

// ShuffleQueries makes Query return its results in a seeded random order
// instead of sorted by key (the order of a real datastore is unspecified).
func (d *CrashDS) ShuffleQueries(seed int64) {
	d.mu.Lock()
	d.shuffle = rand.New(rand.NewSource(seed))
	d.mu.Unlock()
}

// mutate runs one mutating call under the crash discipline.
func (d *CrashDS) mutate(op, key string, apply func()) error {
	d.mu.Lock()
	hook := d.hook
	n := d.writes + 1
	d.mu.Unlock()
	if hook != nil {
		hook(WriteRec{N: n, Op: op, Key: key})
	}
	d.mu.Lock()
	defer d.mu.Unlock()
	if d.crashed {
		return ErrCrashed
	}
	if d.budget == 0 {
		d.crashed = true
		if d.keepLog {
			d.log = append(d.log, WriteRec{N: d.writes + 1, Op: op + "(crashed)", Key: key})
		}
		return ErrCrashed
	}
	if d.budget > 0 {
		d.budget--
	}
	d.writes++
	if d.keepLog {
		d.log = append(d.log, WriteRec{N: d.writes, Op: op, Key: key})
	}
	apply()
	return nil
}

func (d *CrashDS) Put(_ context.Context, key datastore.Key, value []byte) error {
	v := bytes.Clone(value)
	return d.mutate("put", key.String(), func() { d.data[key.String()] = v })
}

func (d *CrashDS) Delete(_ context.Context, key datastore.Key) error {
	return d.mutate("delete", key.String(), func() { delete(d.data, key.String()) })
}

func (d *CrashDS) Get(_ context.Context, key datastore.Key) ([]byte, error) {
	d.mu.Lock()
	defer d.mu.Unlock()
	if d.crashed {
		return nil, ErrCrashed
	}
	v, ok := d.data[key.String()]
	if !ok {
		return nil, datastore.ErrNotFound
	}
	return bytes.Clone(v), nil
}

func (d *CrashDS) Has(_ context.Context, key datastore.Key) (bool, error) {
	d.mu.Lock()
	defer d.mu.Unlock()
	if d.crashed {
		return false, ErrCrashed
	}
	_, ok := d.data[key.String()]
	return ok, nil
}

func (d *CrashDS) GetSize(_ context.Context, key datastore.Key) (int, error) {
	d.mu.Lock()
	defer d.mu.Unlock()
	if d.crashed {
		return -1, ErrCrashed
	}
	v, ok := d.data[key.String()]
	if !ok {
		return -1, datastore.ErrNotFound
	}
	return len(v), nil
}

func (d *CrashDS) Query(_ context.Context, q query.Query) (query.Results, error) {
	d.mu.Lock()
	if d.crashed {
		d.mu.Unlock()
		return nil, ErrCrashed
	}
	entries := make([]query.Entry, 0, len(d.data))
	for _, k := range d.data.Keys("") {
		v := d.data[k]
		entries = append(entries, query.Entry{Key: k, Value: bytes.Clone(v), Size: len(v)})
	}
	if d.shuffle != nil && len(q.Orders) == 0 {
		d.shuffle.Shuffle(len(entries), func(i, j int) { entries[i], entries[j] = entries[j], entries[i] })
	}
	d.mu.Unlock()
	return query.NaiveQueryApply(q, query.ResultsWithEntries(q, entries)), nil
}

func (d *CrashDS) Sync(context.Context, datastore.Key) error {
	d.mu.Lock()
	defer d.mu.Unlock()
	if d.crashed {
		return ErrCrashed
	}
	return nil
}

func (d *CrashDS) Close() error { return nil }

type crashBatch struct {
	d   *CrashDS
	mu  sync.Mutex
	ops []func()
}

// Batch returns a batch whose Commit is one atomic mutating call.
func (d *CrashDS) Batch(context.Context) (datastore.Batch, error) {
	d.mu.Lock()
	defer d.mu.Unlock()
	if d.crashed {
		return nil, ErrCrashed
	}
	return &crashBatch{d: d}, nil
}

func (b *crashBatch) Put(_ context.Context, key datastore.Key, value []byte) error {
	v := bytes.Clone(value)
	b.mu.Lock()
	b.ops = append(b.ops, func() { b.d.data[key.String()] = v })
	b.mu.Unlock()
	return nil
}

func (b *crashBatch) Delete(_ context.Context, key datastore.Key) error {
	b.mu.Lock()
	b.ops = append(b.ops, func() { delete(b.d.data, key.String()) })
	b.mu.Unlock()
	return nil
}

func (b *crashBatch) Commit(context.Context) error {
	b.mu.Lock()
	ops := b.ops
	b.ops = nil
	b.mu.Unlock()
	return b.d.mutate("commit", "", func() {
		for _, op := range ops {
			op()
		}
	})
}
