package vstore

import (
	"context"
	"testing"

	"github.com/filecoin-project/go-f3/certs"
	"github.com/filecoin-project/go-f3/certstore"
	"github.com/ipfs/go-datastore"
)

// Self-checks of the helper package (not a property check): what the generator
// calls valid passes the repository's full certificate validation and the
// reference model; every bad variant is classified as intended by the model;
// the reference delta algebra agrees with the generator's intended tables; the
// crash datastore freezes at the crash point.
func TestGeneratorAndModel(t *testing.T) {
	for seed := int64(1); seed <= 60; seed++ {
		g := NewGen(seed)
		first := uint64(0)
		if seed%2 == 0 {
			first = uint64(seed * 1000)
		}
		ch := g.NewChain(first, g.Table(1+int(seed%7)))
		m := NewModel()
		if err := m.Create(first, ch.Tables[0]); err != nil {
			t.Fatal(err)
		}
		for step := 0; step < 40; step++ {
			for _, v := range BadVariants {
				bad := g.Bad(ch, v)
				if bad == nil {
					continue
				}
				out, _, why := m.Classify(bad)
				if v.MustFail() && out != PutReject {
					t.Fatalf("seed %d step %d variant %s classified %s (%s)", seed, step, v, out, why)
				}
				if !v.MustFail() && out != PutNoop {
					t.Fatalf("seed %d step %d variant %s classified %s (%s)", seed, step, v, out, why)
				}
			}
			next := ch.HeadTable()
			if step%3 != 0 {
				next = g.Evolve(next, g.RandomChange())
			}
			c := g.Successor(ch, next)
			out, why := m.Put(c)
			if out != PutAccept {
				t.Fatalf("seed %d step %d valid successor classified %s (%s)", seed, step, out, why)
			}
			ch.Append(c, next)
			if string(TableBytes(m.Table(ch.Next()))) != string(TableBytes(next)) {
				t.Fatalf("seed %d step %d: model table differs from generator table", seed, step)
			}
			// the repository's algebra must agree on valid input as well
			rt, err := certs.ApplyPowerTableDiffs(ch.Tables[len(ch.Tables)-2], c.PowerTableDelta)
			if err != nil || string(TableBytes(rt)) != string(TableBytes(next)) {
				t.Fatalf("seed %d step %d: certs.ApplyPowerTableDiffs disagrees: %v", seed, step, err)
			}
		}
		if err := ch.Verify(); err != nil {
			t.Fatalf("seed %d: generated chain does not validate: %v", seed, err)
		}
	}
}

func TestObserveMatchesModelOnRealStore(t *testing.T) {
	ctx := context.Background()
	g := NewGen(7)
	ch := g.NewChain(5, g.Table(4))
	g.Extend(ch, 30, 0.7)
	ds := NewCrashDS()
	st, err := certstore.CreateStore(ctx, ds, ch.First, ch.Tables[0])
	if err != nil {
		t.Fatal(err)
	}
	m := NewModel()
	_ = m.Create(ch.First, ch.Tables[0])
	for _, c := range ch.Certs {
		if err := st.Put(ctx, c); err != nil {
			t.Fatal(err)
		}
		m.Put(c)
		if d := Observe(ctx, st, ch.First).Diff(m.Observe()); d != "" {
			t.Fatalf("at %d: %s", c.GPBFTInstance, d)
		}
	}
}

func TestCrashDS(t *testing.T) {
	ctx := context.Background()
	d := NewCrashDS()
	k := func(s string) datastore.Key { return datastore.NewKey(s) }
	_ = d.Put(ctx, k("/a"), []byte("1"))
	d.Arm(1)
	if err := d.Put(ctx, k("/b"), []byte("2")); err != nil {
		t.Fatal(err)
	}
	if err := d.Delete(ctx, k("/a")); err != ErrCrashed {
		t.Fatalf("want crash, got %v", err)
	}
	if _, err := d.Get(ctx, k("/b")); err != ErrCrashed {
		t.Fatalf("reads must fail after the crash, got %v", err)
	}
	s := d.Snapshot()
	if !s.Has("/a") || !s.Has("/b") || len(s) != 2 || d.Writes() != 2 || !d.Crashed() {
		t.Fatalf("bad frozen state %v writes=%d", s.Keys(""), d.Writes())
	}
	r := NewCrashDSFrom(s)
	b, _ := r.Batch(ctx)
	_ = b.Put(ctx, k("/c"), []byte("3"))
	_ = b.Delete(ctx, k("/a"))
	if r.Writes() != 0 || r.Snapshot().Has("/c") {
		t.Fatal("batch applied before commit")
	}
	if err := b.Commit(ctx); err != nil || r.Writes() != 1 {
		t.Fatalf("commit: %v writes=%d", err, r.Writes())
	}
	if got := r.Snapshot().Keys(""); len(got) != 2 || got[0] != "/b" || got[1] != "/c" {
		t.Fatalf("after commit: %v", got)
	}
}
