module github.com/filecoin-project/go-f3/verifh

go 1.24.6

require (
	github.com/anishathalye/porcupine v1.3.0
	github.com/filecoin-project/go-bitfield v0.2.4
	github.com/filecoin-project/go-f3 v0.0.0
	github.com/filecoin-project/go-state-types v0.17.0
	github.com/ipfs/go-cid v0.6.0
	github.com/ipfs/go-datastore v0.9.0
	github.com/ipfs/go-log/v2 v2.9.0
	github.com/klauspost/compress v1.18.2
	github.com/libp2p/go-libp2p v0.46.0
	github.com/libp2p/go-libp2p-pubsub v0.15.0
	github.com/multiformats/go-multiaddr v0.16.1
	github.com/multiformats/go-multihash v0.2.3
	github.com/whyrusleeping/cbor-gen v0.3.1
	go.dedis.ch/kyber/v4 v4.0.0-pre2.0.20240924132404-4de33740016e
	golang.org/x/crypto v0.47.0
)

require (
	github.com/benbjohnson/clock v1.3.5 // indirect
	github.com/beorn7/perks v1.0.1 // indirect
	github.com/bits-and-blooms/bitset v1.20.0 // indirect
	github.com/cespare/xxhash/v2 v2.3.0 // indirect
	github.com/consensys/gnark-crypto v0.18.1 // indirect
	github.com/davecgh/go-spew v1.1.1 // indirect
	github.com/decred/dcrd/dcrec/secp256k1/v4 v4.4.0 // indirect
	github.com/filecoin-project/go-clock v0.1.0 // indirect
	github.com/filecoin-project/go-keccak v0.1.0 // indirect
	github.com/go-logr/logr v1.4.3 // indirect
	github.com/go-logr/stdr v1.2.2 // indirect
	github.com/gogo/protobuf v1.3.2 // indirect
	github.com/google/uuid v1.6.0 // indirect
	github.com/hashicorp/golang-lru/v2 v2.0.7 // indirect
	github.com/huin/goupnp v1.3.0 // indirect
	github.com/jackpal/go-nat-pmp v1.0.2 // indirect
	github.com/klauspost/cpuid/v2 v2.3.0 // indirect
	github.com/koron/go-ssdp v0.0.6 // indirect
	github.com/libp2p/go-buffer-pool v0.1.0 // indirect
	github.com/libp2p/go-libp2p-asn-util v0.4.1 // indirect
	github.com/libp2p/go-msgio v0.3.0 // indirect
	github.com/libp2p/go-netroute v0.3.0 // indirect
	github.com/mattn/go-isatty v0.0.20 // indirect
	github.com/mr-tron/base58 v1.2.0 // indirect
	github.com/multiformats/go-base32 v0.1.0 // indirect
	github.com/multiformats/go-base36 v0.2.0 // indirect
	github.com/multiformats/go-multiaddr-fmt v0.1.0 // indirect
	github.com/multiformats/go-multibase v0.2.0 // indirect
	github.com/multiformats/go-multicodec v0.10.0 // indirect
	github.com/multiformats/go-multistream v0.6.1 // indirect
	github.com/multiformats/go-varint v0.1.0 // indirect
	github.com/munnerz/goautoneg v0.0.0-20191010083416-a7dc8b61c822 // indirect
	github.com/pmezard/go-difflib v1.0.0 // indirect
	github.com/prometheus/client_golang v1.22.0 // indirect
	github.com/prometheus/client_model v0.6.2 // indirect
	github.com/prometheus/common v0.64.0 // indirect
	github.com/prometheus/procfs v0.16.1 // indirect
	github.com/spaolacci/murmur3 v1.1.0 // indirect
	github.com/stretchr/testify v1.11.1 // indirect
	go.opentelemetry.io/auto/sdk v1.2.1 // indirect
	go.opentelemetry.io/otel v1.39.0 // indirect
	go.opentelemetry.io/otel/metric v1.39.0 // indirect
	go.opentelemetry.io/otel/trace v1.39.0 // indirect
	go.uber.org/multierr v1.11.0 // indirect
	go.uber.org/zap v1.27.1 // indirect
	golang.org/x/exp v0.0.0-20250606033433-dcc06ee1d476 // indirect
	golang.org/x/net v0.48.0 // indirect
	golang.org/x/sync v0.19.0 // indirect
	golang.org/x/sys v0.40.0 // indirect
	golang.org/x/time v0.12.0 // indirect
	golang.org/x/xerrors v0.0.0-20240903120638-7835f813f4da // indirect
	google.golang.org/protobuf v1.36.11 // indirect
	gopkg.in/yaml.v3 v3.0.1 // indirect
	lukechampine.com/blake3 v1.4.1 // indirect
)

replace github.com/filecoin-project/go-f3 => /repo
