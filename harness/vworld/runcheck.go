package vworld

import (
	"fmt"
	"os"
	"runtime"
	"sync"
	"testing"
	"time"

	"github.com/filecoin-project/go-f3/verifh/vkit"
)

type mixEntry struct {
	class  string
	weight int
}

var mixes = map[string][]mixEntry{
	"C01": {{"async", 100}},
	"C02": {{"async", 65}, {"syncunanimous", 35}},
	"C03": {{"async", 60}, {"gst", 20}, {"syncunanimous", 10}, {"honest", 10}},
	"C06": {{"gst", 100}},
	"C07": {{"async", 50}, {"gst", 25}, {"honest", 25}},
}

func blsReplay(run *vkit.Run, prop string, n int) bool {
	return run.Case >= 0 && blsShare[prop] > 0 && int(run.Case) < n/blsShare[prop]
}

// blsShare[prop] = k: every k-th execution uses production BLS (0 = never).
var blsShare = map[string]int{"C03": 40, "C01": 150, "C07": 150}

var counts = map[string][2]int{
	"C01": {1500, 60000},
	"C02": {1200, 40000},
	"C03": {1000, 40000},
	"C06": {1000, 40000},
	"C07": {1200, 40000},
}

func classFor(prop string, seed int64) string {
	mx := mixes[prop]
	tot := 0
	for _, e := range mx {
		tot += e.weight
	}
	x := int(uint64(seed) % uint64(tot))
	for _, e := range mx {
		if x < e.weight {
			return e.class
		}
		x -= e.weight
	}
	return mx[0].class
}

// RunCheck is the body of TestCheck of the c01/c02/c03/c06/c07 packages.
func RunCheck(t *testing.T, prop string) {
	run := vkit.New(prop, "world", "exploration")
	n := run.N(counts[prop][0], counts[prop][1])
	run.SetRule("each evaluation is one seeded execution of N real gpbft.Participants on the virtual-time adversarial network (scenario = committee/power shape, fault assignment, inputs, options, schedule class, Byzantine strategy program); distinct = distinct delivery/timer interleavings (trace hash); non-trivial per property: " + nontrivialRule[prop])
	run.Assume("signatures are the harness's deterministic stand-in scheme (vsig) except in the executions counted under executions_with_production_bls, which run go-f3's blssig; unforgeable because Byzantine actors only hold their own keys",
		"reach is limited to the Byzantine strategy templates S1-S6 and the six scheduler classes of DESIGN.md appendix A",
		"all randomness derives from VERIF_SEED and the case index; go-f3 map-iteration nondeterminism is tolerated")
	var mu sync.Mutex
	agg := map[string]int64{}
	perTemplate := map[string]int64{}
	stop := map[string]int64{}
	inconcl := 0
	body := func(i int) {
		seed := run.SubSeed(int64(i))
		class := classFor(prop, seed)
		sc := GenScenario(seed, class, run.Thorough())
		if blsShare[prop] > 0 && run.Case < 0 && i < n/blsShare[prop] && len(sc.Members) <= 10 || blsReplay(run, prop, n) && len(sc.Members) <= 10 {
			// a fixed share of the executions runs go-f3's production BLS code (blssig) end to end:
			// participants sign, validate, aggregate and the monitor re-verifies with the production verifier
			sc.UseBLS()
			if sc.MaxEvents > 4000 {
				sc.MaxEvents = 4000
			}
		}
		mon := NewMonitor()
		w, err := NewWorld(sc, mon)
		if err != nil {
			run.Count("scenario_build_errors", 1)
			return
		}
		run.Breadcrumb(fmt.Sprintf("case=%d seed=%d class=%s", i, seed, class))
		t0 := time.Now()
		w.Run()
		if el := time.Since(t0); el > 15*time.Second {
			fmt.Printf("slow-exec case=%d class=%s n=%d maxlen=%d events=%d delivered=%d wall=%s\n", i, class, len(sc.Members), sc.MaxLen, w.Events, w.Delivered, el)
		}
		if sc.BLS {
			fmt.Printf("bls-exec case=%d n=%d events=%d delivered=%d wall=%s\n", i, len(sc.Members), w.Events, w.Delivered, time.Since(t0))
		}
		run.Eval(1)
		nontriv := isNontrivial(prop, w, mon)
		if nontriv {
			run.DistinctHash(w.TraceHash() ^ uint64(seed)*0x9E3779B97F4A7C15>>1)
		}
		mu.Lock()
		agg["events"] += int64(w.Events)
		agg["deliveries"] += int64(w.Delivered)
		agg["deliveries_accepted"] += int64(mon.DeliveredAccepted)
		agg["deliveries_rejected"] += int64(mon.DeliveredRejected)
		agg["honest_emissions"] += int64(mon.Emits)
		agg["honest_decisions"] += int64(mon.Decisions)
		agg["byz_messages_sent"] += int64(w.Adv.Sent)
		agg["byz_messages_accepted_by_honest_validators"] += int64(w.Adv.Accepted())
		agg["byz_messages_rejected"] += int64(w.Adv.Rejected())
		agg["byz_messages_tallied"] += int64(mon.ByzTallied)
		if w.Adv.Accepted() > 0 {
			agg["executions_with_byz_accepted"]++
		}
		if nontriv {
			agg["executions_nontrivial"]++
		}
		agg["class_"+class]++
		if sc.BLS {
			agg["executions_with_production_bls"]++
			agg["decisions_verified_with_production_bls"] += int64(mon.Decisions)
		}
		if int64(mon.MaxRound) > agg["max_round_reached"] {
			agg["max_round_reached"] = int64(mon.MaxRound)
		}
		if mon.ExtraRoundsMax > agg["c06_max_rounds_after_gst"] {
			agg["c06_max_rounds_after_gst"] = mon.ExtraRoundsMax
		}
		for k, v := range mon.Checks {
			agg["check_"+k] += int64(v)
		}
		for k, v := range mon.RejectClasses {
			agg["reject_"+k] += int64(v)
		}
		for k, v := range mon.DecideRounds {
			if k > 6 {
				k = 7
			}
			agg[fmt.Sprintf("decided_in_round_%d", k)] += int64(v)
		}
		for k, v := range w.Adv.PerTemplate {
			perTemplate[k] += int64(v)
		}
		stop[w.StopReason()]++
		mu.Unlock()
		if i < 3 {
			d := sc.Describe()
			d["case"] = i
			d["events"] = w.Events
			d["decisions"] = mon.Decisions
			d["stop"] = w.StopReason()
			d["max_round"] = mon.MaxRound
			run.Sample(d)
		}
		for _, f := range mon.Findings {
			if f.Prop == "INCONCLUSIVE" {
				mu.Lock()
				inconcl++
				mu.Unlock()
				continue
			}
			if f.Prop != prop {
				run.Count("signals_for_other_property_"+f.Prop, 1)
				continue
			}
			wit := map[string]any{"case": i, "scenario_seed": seed, "class": class, "scenario": sc.Describe(), "detail": f.Detail, "trace_tail": f.Tail}
			run.Violation(f.Sig, wit)
		}
	}
	if run.Case >= 0 {
		body(int(run.Case))
	} else {
		vkit.Parallel(n, runtime.GOMAXPROCS(0), body)
	}
	for k, v := range agg {
		run.Count(k, v)
	}
	for k, v := range perTemplate {
		run.Count("byz_template_"+k, v)
	}
	for k, v := range stop {
		run.Count("stop_"+k, v)
	}
	run.Count("runs_hit_event_cap_undecided", int64(inconcl))
	// floors: a run that observed too little is inconclusive, not a pass
	if run.Case < 0 {
		ev := int64(n)
		switch prop {
		case "C01":
			if agg["executions_nontrivial"]*10 < ev {
				run.Inconclusive("too-few-events")
			}
		case "C06":
			if agg["executions_nontrivial"]*10 < ev || int64(inconcl)*5 > ev {
				run.Inconclusive("too-few-events")
			}
		default:
			if agg["honest_decisions"] < ev/2 {
				run.Inconclusive("too-few-events")
			}
		}
	}
	rc := run.Finish()
	if rc != 0 {
		t.Fail()
	}
	if rc == 2 {
		os.Exit(2)
	}
}

var nontrivialRule = map[string]string{
	"C01": "at least one Byzantine message was accepted by an honest validator and honest participants voted for at least two different values in some instance",
	"C02": "at least one honest decision was reported and (a Byzantine message was accepted, or inputs were forked, or the run is of the synchronous-unanimous class)",
	"C03": "at least one decision was reported and independently re-verified",
	"C06": "stabilisation happened while at least one started honest participant was still undecided",
	"C07": "at least 4 honest emissions were checked by the conformance monitors",
}

func isNontrivial(prop string, w *World, m *Monitor) bool {
	switch prop {
	case "C01":
		if w.Adv.Accepted() == 0 {
			return false
		}
		for _, vs := range m.ValuesVoted {
			if len(vs) >= 2 {
				return true
			}
		}
		return false
	case "C02":
		return m.Decisions > 0 && (w.Adv.Accepted() > 0 || w.Sc.Forks > 0 || w.Sc.Class == "syncunanimous")
	case "C03":
		return m.Decisions > 0
	case "C06":
		return m.gstSeen && m.gstUndecided
	case "C07":
		return m.Emits >= 4
	}
	return false
}
