package vworld

// Solo mode of engine E1 (C07 part "solo"): ONE real gpbft.Participant P (member 0) against a
// *virtual network* played by the harness, which holds the keys of every other committee member
// and injects only messages that P's own validator has to judge.
//
// Soundness rule (so that no alarm is possible on correct code). A set B of virtual members whose
// scaled power is strictly below one third of the total (for every instance table) may equivocate
// freely. Every other virtual member signs AT MOST ONE value per (instance, round, step) slot. This
// is enforced at the only two places where a signature of a virtual member is produced:
//
//   - vote():  an individual message of member m for (slot, value) is built only if canSign(m, slot,
//     value), and then binds ledger[m][slot] = value;
//   - just():  an aggregate (justification) for (slot, value) is built only from members for which
//     canSign holds, and binds their slots to that value whether or not their individual votes are ever
//     delivered to P.
//
// P's own signature enters an aggregate only if P really emitted that very vote (pv[slot]). Hence at
// most one strong quorum exists per slot, exactly as in a real network with less than a third of faulty
// power, and the explicit "adversary assumption violated" panics of gpbft stay unreachable. Everything
// above those two functions (stories, round plans, noise) only biases WHICH sound messages are tried.

import (
	"fmt"
	"math"
	"math/big"
	"math/rand"
	"sort"
	"time"

	"github.com/filecoin-project/go-bitfield"
	rlepluslazy "github.com/filecoin-project/go-bitfield/rle"
	"github.com/filecoin-project/go-f3/gpbft"
	"github.com/filecoin-project/go-f3/verifh/vsig"
)

// ---------------------------------------------------------------------------------------------
// scenario
// ---------------------------------------------------------------------------------------------

// GenSoloScenario derives a solo scenario from a seed: member 0 is the participant under test, all
// other members are played by the virtual network (Kind Byz: the adversary object owns their keys).
func GenSoloScenario(seed int64, thorough bool) *Scenario {
	rng := rand.New(rand.NewSource(seed))
	sc := &Scenario{Seed: seed, Class: "solo"}
	n := 4 + rng.Intn(5) // 4..8
	ps := make([]*big.Int, n)
	set := func(i int, v int64) { ps[i] = big.NewInt(v) }
	switch shape := rng.Intn(7); shape {
	case 0:
		sc.PowerDesc = "uniform"
		for i := range ps {
			set(i, 10)
		}
	case 1:
		sc.PowerDesc = "p-small"
		set(0, int64(1+rng.Intn(3)))
		for i := 1; i < n; i++ {
			set(i, int64(10+rng.Intn(21)))
		}
	case 2:
		// the others hold less than two thirds: no quorum without P's own vote
		sc.PowerDesc = "p-needed"
		var rest int64
		for i := 1; i < n; i++ {
			set(i, int64(10+rng.Intn(21)))
			rest += ps[i].Int64()
		}
		set(0, rest*int64(55+rng.Intn(40))/100)
	case 3:
		sc.PowerDesc = "smallrand"
		for i := range ps {
			set(i, int64(1+rng.Intn(20)))
		}
	case 4:
		// one virtual whale just under a third
		sc.PowerDesc = "virtual-whale-under-third"
		var rest int64
		for i := 0; i < n; i++ {
			set(i, int64(10+rng.Intn(90)))
			rest += ps[i].Int64()
		}
		wi := 1 + rng.Intn(n-1)
		rest -= ps[wi].Int64()
		set(wi, max(rest/2-int64(rng.Intn(3)), 1))
	case 5:
		sc.PowerDesc = "geometric"
		v := int64(1 + rng.Intn(5))
		for i := range ps {
			set(i, v)
			v *= 2
		}
		rng.Shuffle(n, func(i, j int) { ps[i], ps[j] = ps[j], ps[i] })
	default:
		// P just below what the others need: with P a quorum is comfortable, without it borderline
		sc.PowerDesc = "p-third"
		var rest int64
		for i := 1; i < n; i++ {
			set(i, int64(20+rng.Intn(11)))
			rest += ps[i].Int64()
		}
		set(0, rest/2+int64(rng.Intn(5))-2)
	}
	if n >= 5 && rng.Intn(2) == 0 {
		// one virtual member whose scaled power is zero
		z := 1 + rng.Intn(n-1)
		for i := range ps {
			ps[i] = new(big.Int).Lsh(ps[i], 20)
		}
		ps[z] = big.NewInt(int64(1 + rng.Intn(3)))
		sc.PowerDesc += "+zero-member"
	}
	sc.Instances = 1 + rng.Intn(2)
	sc.Members = make([]Member, n)
	for i := range sc.Members {
		sc.Members[i] = Member{ID: gpbft.ActorID(1000 + i*7 + rng.Intn(7)), Key: vsig.PubKey(uint32(seed), uint64(i)), Kind: Byz}
	}
	sc.Members[0].Kind = Honest
	sc.Powers = make([][]*big.Int, sc.Instances)
	sc.Powers[0] = ps
	for k := 1; k < sc.Instances; k++ {
		sc.Powers[k] = ps
		if rng.Intn(5) < 2 {
			np := make([]*big.Int, n)
			for i, p := range ps {
				x := new(big.Int).Mul(p, big.NewInt(int64(50+rng.Intn(150))))
				x.Div(x, big.NewInt(100))
				if x.Sign() <= 0 {
					x = big.NewInt(1)
				}
				np[i] = x
			}
			sc.Powers[k] = np
		}
	}
	// B: the members that may equivocate; strictly below a third of the scaled total in every table
	budgetOK := func(b map[int]bool) bool {
		for k := 0; k < sc.Instances; k++ {
			s, T := ScaledOf(sc.Powers[k])
			var f int64
			for i := range s {
				if b[i] {
					f += s[i]
				}
			}
			if 3*f >= T {
				return false
			}
		}
		return true
	}
	sc.SoloFaulty = map[int]bool{}
	if bucket := rng.Intn(5); bucket > 0 {
		s0, T0s := ScaledOf(sc.Powers[0])
		target := map[int]int64{1: T0s / 10, 2: T0s / 4, 3: T0s, 4: T0s}[bucket]
		var fsum int64
		for _, o := range rng.Perm(n - 1) {
			i := o + 1
			if fsum >= target {
				break
			}
			sc.SoloFaulty[i] = true
			if !budgetOK(sc.SoloFaulty) {
				delete(sc.SoloFaulty, i)
				continue
			}
			fsum += s0[i]
		}
	}
	d := []time.Duration{500 * time.Millisecond, time.Second, 3 * time.Second}[rng.Intn(3)]
	sc.Opts = Opts{
		Delta:            d,
		BackOff:          []float64{1.0, 1.3, 2.0}[rng.Intn(3)],
		QualityMulti:     []float64{1.0, 0.5, 2.0}[rng.Intn(3)],
		Lookahead:        uint64(rng.Intn(6)),
		RebroadcastAfter: uint64(rng.Intn(4)),
		RebroadcastBase:  d * time.Duration(1+rng.Intn(3)),
	}
	sc.Forks = 1 + rng.Intn(3)
	sc.MaxLen = []int{2, 3, 4, 6}[rng.Intn(4)]
	sc.StartSkew = make([]time.Duration, n)
	switch rng.Intn(4) {
	case 1:
		sc.StartSkew[0] = time.Duration(rng.Int63n(int64(4 * d)))
	case 2:
		sc.StartSkew[0] = time.Duration(6+rng.Intn(20)) * d // late starter: the network is rounds ahead
	}
	sc.GroupA = map[gpbft.ActorID]bool{}
	sc.Sched = []SchedClass{SchedSync, SchedSync, SchedLognormal}[rng.Intn(3)]
	sc.GST = -1
	if rng.Intn(3) == 0 {
		sc.DupProb = float64(5+rng.Intn(25)) / 100
	}
	if rng.Intn(2) == 0 {
		sc.AlarmJit = d / 2
	}
	sc.MaxEvents = 12_000
	sc.Strategy = Strategy{Solo: true, FastLinks: true, ActProb: 1, MaxSends: 1 << 30}
	return sc
}

// ---------------------------------------------------------------------------------------------
// driver state
// ---------------------------------------------------------------------------------------------

type soloSlot struct {
	inst, round uint64
	phase       gpbft.Phase
}

type pVote struct {
	key   gpbft.ECChainKey
	chain *gpbft.ECChain
	sig   []byte
}

// SoloStats is what one solo execution observed (aggregated by RunSolo).
type SoloStats struct {
	Injected, Accepted, Rejected [7]int // by step of the injected message
	Justs                        map[string]int
	Refusals                     int // the ledger refused a signature (vote or aggregate)
	Equivocations                int // second value signed for a slot by a member of B
	Sways                        int // P's CONVERGE/PREPARE value changed to a value that is not a prefix of its input
	Skips                        int // P entered a round by a skip (no COMMIT of its own in the round before)
	FarSkips                     int // ... and the round jumped by more than one
	MaxRound                     uint64
	PEmits                       int
	Misplaced                    int // messages carrying a genuine aggregate of another round / step / value (must be refused)
	NextInstance                 int // messages injected for the instance after P's current one
	Ticks                        int
	Stories                      map[string]int
	PNeeded                      bool // the virtual members cannot form a strong quorum without P
}

const (
	storyRandom = iota
	storySway
	storySkip
	storyQuick
)

var storyNames = [...]string{"random", "sway", "skip", "quick"}

const (
	convNone = iota
	convCandidates
	convSway
	convForeign
	convMixed
)
const (
	prepSupport = iota
	prepSplit
	prepOther
	prepSilent
)
const (
	commitFollow = iota
	commitBottom
	commitJump
	commitOtherValue
	commitSkip
	commitSilent
)
const (
	prefAny = iota
	prefPrepare
	prefBottom
)

type soloPlan struct {
	conv, prep, commit int
	sway               *gpbft.ECChain // value pushed in CONVERGE of this round with a PREPARE justification of the previous one
	other              *gpbft.ECChain // the value the virtual members prepare in this round when they do not support P
	skipTo             uint64
}

type soloInst struct {
	id        uint64
	input     *gpbft.ECChain
	values    []*gpbft.ECChain
	nonPrefix []*gpbft.ECChain
	story     int
	endRound  uint64
	plans     map[uint64]*soloPlan
	qual      *gpbft.ECChain
	prop      *gpbft.ECChain
	maxEmit   uint64
	emitted   bool
	decided   *gpbft.ECChain
	seenSlot  map[soloSlot]bool
}

type solo struct {
	a      *Adversary
	w      *World
	rng    *rand.Rand
	n      int
	inB    []bool
	ledger []map[soloSlot]gpbft.ECChainKey
	sent   []map[soloSlot]map[gpbft.ECChainKey]bool
	pv     map[soloSlot]pVote
	justs  map[poolKey]*gpbft.Justification
	jlist  []*gpbft.Justification // in creation order (deterministic choice for misplaced attachments)
	insts  map[uint64]*soloInst
	St     SoloStats
	period time.Duration
	budget int
}

func newSolo(a *Adversary) *solo {
	w := a.w
	n := len(w.Sc.Members)
	s := &solo{a: a, w: w, rng: a.rng, n: n, inB: make([]bool, n), pv: map[soloSlot]pVote{},
		justs: map[poolKey]*gpbft.Justification{}, insts: map[uint64]*soloInst{},
		St: SoloStats{Justs: map[string]int{}, Stories: map[string]int{}}}
	s.ledger = make([]map[soloSlot]gpbft.ECChainKey, n)
	s.sent = make([]map[soloSlot]map[gpbft.ECChainKey]bool, n)
	for i := 0; i < n; i++ {
		s.ledger[i] = map[soloSlot]gpbft.ECChainKey{}
		s.sent[i] = map[soloSlot]map[gpbft.ECChainKey]bool{}
		s.inB[i] = w.Sc.SoloFaulty[i]
	}
	s.inB[0] = false
	s.period = w.delta() / time.Duration(2+s.rng.Intn(3))
	s.budget = 260 + s.rng.Intn(200)
	if t := w.Table(0); t != nil {
		var others int64
		for mi := 1; mi < n; mi++ {
			others += s.sp(0, mi)
		}
		s.St.PNeeded = !strong(others, t.PT.ScaledTotal)
	}
	return s
}

// Solo returns the statistics of the solo driver (nil for ordinary worlds).
func (a *Adversary) Solo() *SoloStats {
	if a.solo == nil {
		return nil
	}
	return &a.solo.St
}

func (s *solo) start() {
	s.w.planInstance(0)
	s.w.push(&event{at: s.w.now.Add(time.Duration(s.rng.Int63n(int64(s.period)) + 1)), kind: evByzTick})
}

// sp: scaled power of member mi in the table of instance inst (as the code under test sees it).
func (s *solo) sp(inst uint64, mi int) int64 {
	t := s.w.Table(inst)
	if t == nil {
		return 0
	}
	idx, ok := t.PT.Lookup[s.w.Sc.Members[mi].ID]
	if !ok {
		return 0
	}
	return t.PT.ScaledPower[idx]
}

// ---------------------------------------------------------------------------------------------
// the ledger: the only place where the soundness rule lives
// ---------------------------------------------------------------------------------------------

// canSign: may member mi put its signature under (slot, key)?
func (s *solo) canSign(mi int, slot soloSlot, key gpbft.ECChainKey) bool {
	if mi == 0 {
		// P is honest: only the votes it really emitted exist
		v, ok := s.pv[slot]
		return ok && v.key == key
	}
	if s.inB[mi] {
		return true
	}
	v, ok := s.ledger[mi][slot]
	return !ok || v == key
}

// bind records that member mi signed (slot, key).
func (s *solo) bind(mi int, slot soloSlot, key gpbft.ECChainKey) {
	if mi == 0 {
		return
	}
	if prev, ok := s.ledger[mi][slot]; ok && prev != key {
		if !s.inB[mi] {
			panic("solo: ledger violated (harness bug)")
		}
		s.St.Equivocations++
	}
	s.ledger[mi][slot] = key
}

func justKind(phase gpbft.Phase, val *gpbft.ECChain) string {
	switch {
	case phase == gpbft.PREPARE_PHASE && val.IsZero():
		return "prepare-bottom-quorum"
	case phase == gpbft.PREPARE_PHASE:
		return "prepare-quorum"
	case phase == gpbft.COMMIT_PHASE && val.IsZero():
		return "commit-bottom-quorum"
	case phase == gpbft.COMMIT_PHASE:
		return "commit-value-quorum"
	case phase == gpbft.DECIDE_PHASE:
		return "decide-quorum-reserved"
	}
	return "other"
}

// just builds (once) the aggregate of a strong quorum of signatures for (inst, round, phase, val)
// from signatures the ledger allows, and binds the signers' slots to val.
func (s *solo) just(inst, round uint64, phase gpbft.Phase, val *gpbft.ECChain) *gpbft.Justification {
	if val.IsZero() {
		val = &gpbft.ECChain{}
	}
	key := val.Key()
	pk := poolKey{inst, round, phase, key}
	if j, ok := s.justs[pk]; ok {
		return j
	}
	t := s.w.Table(inst)
	if t == nil {
		return nil
	}
	slot := soloSlot{inst, round, phase}
	var same, bs, free, pp []int
	for mi := 1; mi < s.n; mi++ {
		if s.sp(inst, mi) == 0 {
			continue
		}
		if s.inB[mi] {
			bs = append(bs, mi)
			continue
		}
		if v, ok := s.ledger[mi][slot]; !ok {
			free = append(free, mi)
		} else if v == key {
			same = append(same, mi)
		}
	}
	if s.canSign(0, slot, key) && s.sp(inst, 0) > 0 {
		pp = []int{0}
	}
	for _, l := range [][]int{same, bs, free} {
		s.rng.Shuffle(len(l), func(i, j int) { l[i], l[j] = l[j], l[i] })
	}
	var order []int
	switch s.rng.Intn(4) {
	case 0:
		order = append(append(append(append(order, pp...), same...), bs...), free...)
	case 1:
		order = append(append(append(append(order, bs...), same...), pp...), free...)
	case 2:
		order = append(append(append(append(order, same...), free...), bs...), pp...)
	default:
		order = append(append(append(append(order, same...), bs...), pp...), free...)
	}
	tot := t.PT.ScaledTotal
	var chosen []int
	var pw int64
	for _, mi := range order {
		if strong(pw, tot) {
			break
		}
		chosen = append(chosen, mi)
		pw += s.sp(inst, mi)
	}
	if !strong(pw, tot) {
		s.St.Refusals++
		s.St.Justs["refused-"+justKind(phase, val)]++
		return nil
	}
	if s.rng.Intn(4) == 0 {
		// a larger aggregate: everybody who is already bound to this value, B and P
		in := map[int]bool{}
		for _, mi := range chosen {
			in[mi] = true
		}
		for _, l := range [][]int{same, bs, pp} {
			for _, mi := range l {
				if !in[mi] {
					in[mi] = true
					chosen = append(chosen, mi)
				}
			}
		}
	}
	payload := gpbft.Payload{Instance: inst, Round: round, Phase: phase, SupplementalData: s.w.SuppData(inst), Value: val}
	toSign := payload.MarshalForSigning(NetworkName)
	sigs := map[int][]byte{}
	for _, mi := range chosen {
		idx := t.PT.Lookup[s.w.Sc.Members[mi].ID]
		if mi == 0 {
			sigs[idx] = s.pv[slot].sig
			continue
		}
		if !s.canSign(mi, slot, key) {
			panic("solo: aggregate over a refused signature (harness bug)")
		}
		s.bind(mi, slot, key)
		sigs[idx] = s.w.Sc.Sig().RawSign(s.w.Sc.Members[mi].Key, toSign)
	}
	idxs := make([]int, 0, len(sigs))
	for i := range sigs {
		idxs = append(idxs, i)
	}
	sort.Ints(idxs)
	ss := make([][]byte, len(idxs))
	u := make([]uint64, len(idxs))
	for k, i := range idxs {
		ss[k] = sigs[i]
		u[k] = uint64(i)
	}
	agg, err := t.Agg.Aggregate(idxs, ss)
	if err != nil {
		return nil
	}
	ri, _ := rlepluslazy.RunsFromSlice(u)
	bf, _ := bitfield.NewFromIter(ri)
	j := &gpbft.Justification{Vote: payload, Signers: bf, Signature: agg}
	s.justs[pk] = j
	s.jlist = append(s.jlist, j)
	s.St.Justs[justKind(phase, val)]++
	return j
}

// commitJust: a COMMIT quorum for val in some round (the justification of a DECIDE).
func (s *solo) commitJust(inst uint64, val *gpbft.ECChain, hint uint64) *gpbft.Justification {
	key := val.Key()
	var best *gpbft.Justification
	for k, j := range s.justs {
		if k.inst == inst && k.phase == gpbft.COMMIT_PHASE && k.value == key {
			if best == nil || j.Vote.Round < best.Vote.Round {
				best = j
			}
		}
	}
	if best != nil {
		return best
	}
	for _, r := range []uint64{hint, hint + 1} {
		// the members that commit a value saw a PREPARE quorum for it
		if s.just(inst, r, gpbft.PREPARE_PHASE, val) == nil {
			continue
		}
		if j := s.just(inst, r, gpbft.COMMIT_PHASE, val); j != nil {
			return j
		}
	}
	return nil
}

// vote builds and injects one message of virtual member mi, with the justification the rules prescribe.
func (s *solo) vote(mi int, inst, round uint64, phase gpbft.Phase, val *gpbft.ECChain, pref int) bool {
	if mi <= 0 || mi >= s.n || s.w.Table(inst) == nil {
		return false
	}
	if val.IsZero() {
		val = &gpbft.ECChain{}
	}
	if phase == gpbft.DECIDE_PHASE || phase == gpbft.QUALITY_PHASE {
		round = 0
	}
	key := val.Key()
	slot := soloSlot{inst, round, phase}
	if s.sent[mi][slot][key] {
		return false
	}
	if !s.canSign(mi, slot, key) {
		s.St.Refusals++
		return false
	}
	var j *gpbft.Justification
	switch phase {
	case gpbft.QUALITY_PHASE:
		if val.IsZero() {
			return false
		}
	case gpbft.PREPARE_PHASE, gpbft.CONVERGE_PHASE:
		if phase == gpbft.CONVERGE_PHASE && (round == 0 || val.IsZero()) {
			return false
		}
		if round > 0 {
			jp := func() *gpbft.Justification { return s.just(inst, round-1, gpbft.PREPARE_PHASE, val) }
			jb := func() *gpbft.Justification { return s.just(inst, round-1, gpbft.COMMIT_PHASE, nil) }
			if val.IsZero() {
				jp = jb // PREPARE for bottom can only ride on a COMMIT-bottom quorum
			}
			switch pref {
			case prefPrepare:
				j = jp()
			case prefBottom:
				j = jb()
			default:
				// whatever exists already, else try both
				cp := s.justs[poolKey{inst, round - 1, gpbft.PREPARE_PHASE, key}]
				cb := s.justs[poolKey{inst, round - 1, gpbft.COMMIT_PHASE, gpbft.ECChainKey{}}]
				switch {
				case cp != nil && cb != nil:
					j = []*gpbft.Justification{cp, cb}[s.rng.Intn(2)]
				case cp != nil:
					j = cp
				case cb != nil:
					j = cb
				case s.rng.Intn(2) == 0:
					if j = jp(); j == nil {
						j = jb()
					}
				default:
					if j = jb(); j == nil {
						j = jp()
					}
				}
			}
			if j == nil {
				return false
			}
		}
	case gpbft.COMMIT_PHASE:
		if !val.IsZero() {
			if j = s.just(inst, round, gpbft.PREPARE_PHASE, val); j == nil {
				return false
			}
		}
	case gpbft.DECIDE_PHASE:
		if val.IsZero() {
			return false
		}
		hint := uint64(0)
		if si := s.insts[inst]; si != nil {
			hint = si.maxEmit
		}
		if j = s.commitJust(inst, val, hint); j == nil {
			return false
		}
	default:
		return false
	}
	return s.emitVote(mi, slot, val, j)
}

// emitVote signs and injects the message of member mi for (slot, val) carrying justification j. It is the
// only place where an individual signature of a virtual member is produced.
func (s *solo) emitVote(mi int, slot soloSlot, val *gpbft.ECChain, j *gpbft.Justification) bool {
	inst, round, phase := slot.inst, slot.round, slot.phase
	key := val.Key()
	if s.sent[mi][slot][key] {
		return false
	}
	if !s.canSign(mi, slot, key) {
		s.St.Refusals++
		return false
	}
	s.bind(mi, slot, key)
	p := gpbft.Payload{Instance: inst, Round: round, Phase: phase, SupplementalData: s.w.SuppData(inst), Value: val}
	msg := s.a.build(mi, p, j)
	if msg == nil {
		return false
	}
	if s.sent[mi][slot] == nil {
		s.sent[mi][slot] = map[gpbft.ECChainKey]bool{}
	}
	s.sent[mi][slot][key] = true
	s.St.Injected[phase]++
	s.a.Sent++
	s.a.addValue(inst, val)
	if cur := s.w.Part[0].p.Progress().ID; inst > cur {
		s.St.NextInstance++
	}
	s.w.Inject(mi, msg, []int{0}, time.Duration(s.rng.Int63n(int64(s.period)+1)))
	return true
}

func (s *solo) verdict(msg *gpbft.GMessage, verr error) {
	ph := msg.Vote.Phase
	if int(ph) >= len(s.St.Accepted) {
		return
	}
	if verr == nil {
		s.St.Accepted[ph]++
	} else {
		s.St.Rejected[ph]++
	}
}

// ---------------------------------------------------------------------------------------------
// what P did
// ---------------------------------------------------------------------------------------------

func (s *solo) observe(from int, msg *gpbft.GMessage) {
	if from != 0 {
		return
	}
	v := msg.Vote
	slot := soloSlot{v.Instance, v.Round, v.Phase}
	if _, ok := s.pv[slot]; !ok {
		s.pv[slot] = pVote{key: v.Value.Key(), chain: v.Value, sig: msg.Signature}
		s.St.PEmits++
	}
	s.a.addValue(v.Instance, v.Value)
	si := s.inst(v.Instance)
	if si == nil || si.seenSlot[slot] {
		return
	}
	si.seenSlot[slot] = true
	if v.Phase == gpbft.DECIDE_PHASE || v.Phase == gpbft.QUALITY_PHASE {
		return
	}
	if v.Round > s.St.MaxRound {
		s.St.MaxRound = v.Round
	}
	if v.Phase == gpbft.CONVERGE_PHASE {
		// a round entered without having committed in the round before it was entered by a skip
		if _, committed := s.pv[soloSlot{v.Instance, v.Round - 1, gpbft.COMMIT_PHASE}]; !committed {
			s.St.Skips++
		}
		if si.emitted && v.Round > si.maxEmit+1 || !si.emitted && v.Round > 1 {
			s.St.FarSkips++
		}
	}
	if v.Round > si.maxEmit || !si.emitted {
		si.maxEmit = v.Round
	}
	si.emitted = true
	if (v.Phase == gpbft.CONVERGE_PHASE || v.Phase == gpbft.PREPARE_PHASE) && !v.Value.IsZero() {
		if !v.Value.Eq(si.prop) && !si.input.HasPrefix(v.Value) {
			s.St.Sways++
		}
		si.prop = v.Value
	}
}

// ---------------------------------------------------------------------------------------------
// values
// ---------------------------------------------------------------------------------------------

func (s *solo) inst(id uint64) *soloInst {
	if si, ok := s.insts[id]; ok {
		return si
	}
	w := s.w
	if id >= uint64(w.Sc.Instances) || w.bases[id] == nil {
		return nil
	}
	w.planInstance(int(id))
	in := w.inputs[id][0]
	si := &soloInst{id: id, input: in, prop: in, plans: map[uint64]*soloPlan{}, seenSlot: map[soloSlot]bool{}}
	seen := map[gpbft.ECChainKey]bool{}
	add := func(c *gpbft.ECChain) {
		if c.IsZero() || seen[c.Key()] {
			return
		}
		seen[c.Key()] = true
		si.values = append(si.values, c)
		if !in.HasPrefix(c) {
			si.nonPrefix = append(si.nonPrefix, c)
		}
		s.a.addValue(id, c)
	}
	for l := 0; l < in.Len(); l++ {
		add(in.Prefix(l))
	}
	for mi := 1; mi < s.n; mi++ {
		if c := w.inputs[id][mi]; c != nil {
			add(c)
			if c.Len() > 2 && s.rng.Intn(2) == 0 {
				add(c.Prefix(1 + s.rng.Intn(c.Len()-2)))
			}
		}
	}
	// an extension of P's input and chains nobody proposed
	if in.Len() < gpbft.ChainMaxLen-1 {
		ext := in.Extend([]byte(fmt.Sprintf("solo-extension-%d-%d-kkkkkkkkkkkkkkkk", w.Sc.Seed, id)))
		add(ext)
	}
	for k := 0; k < 2; k++ {
		if f := s.a.foreignChain(id, false); f != nil {
			add(f)
		}
	}
	// story
	switch x := s.rng.Intn(100); {
	case x < 35:
		si.story = storyRandom
	case x < 75:
		si.story = storySway
	case x < 90:
		si.story = storySkip
	default:
		si.story = storyQuick
	}
	switch si.story {
	case storyQuick:
		si.endRound = 0
	case storySway:
		si.endRound = uint64(3 + s.rng.Intn(3))
	default:
		si.endRound = uint64(1 + s.rng.Intn(5))
	}
	s.St.Stories[storyNames[si.story]]++
	// the value most virtual members vote for in QUALITY
	switch s.rng.Intn(5) {
	case 0, 1:
		si.qual = in
	case 2:
		si.qual = in.Prefix(s.rng.Intn(in.Len()))
	case 3:
		si.qual = si.values[s.rng.Intn(len(si.values))]
	default:
		si.qual = nil // scattered
	}
	s.insts[id] = si
	return si
}

func (s *solo) anyValue(si *soloInst) *gpbft.ECChain {
	return si.values[s.rng.Intn(len(si.values))]
}

// pickOther: a value different from P's current proposal, preferably one that is not a prefix of its input.
func (s *solo) pickOther(si *soloInst, not ...*gpbft.ECChain) *gpbft.ECChain {
	differs := func(c *gpbft.ECChain) bool {
		if c.Eq(si.prop) {
			return false
		}
		for _, x := range not {
			if c.Eq(x) {
				return false
			}
		}
		return true
	}
	for try := 0; try < 6; try++ {
		var c *gpbft.ECChain
		if len(si.nonPrefix) > 0 && s.rng.Intn(10) < 7 {
			c = si.nonPrefix[s.rng.Intn(len(si.nonPrefix))]
		} else {
			c = s.anyValue(si)
		}
		if differs(c) {
			return c
		}
	}
	return s.anyValue(si)
}

func (s *solo) weighted(ws ...int) int {
	tot := 0
	for _, x := range ws {
		tot += x
	}
	x := s.rng.Intn(tot)
	for i, wgt := range ws {
		if x < wgt {
			return i
		}
		x -= wgt
	}
	return 0
}

// plan draws (once) how the virtual network behaves in round r of the instance.
func (s *solo) plan(si *soloInst, r uint64) *soloPlan {
	if p := si.plans[r]; p != nil {
		return p
	}
	p := &soloPlan{}
	var prev *soloPlan
	if r > 0 {
		prev = si.plans[r-1]
	}
	p.other = s.pickOther(si)
	if prev != nil && prev.other != nil {
		p.sway = prev.other
	} else {
		p.sway = s.pickOther(si)
	}
	p.conv = s.weighted(3, 3, 3, 2, 2)
	p.prep = s.weighted(4, 3, 3, 1)
	p.commit = s.weighted(4, 2, 3, 2, 2, 1)
	p.skipTo = r + 1 + uint64(s.rng.Intn(2))
	switch {
	case r >= si.endRound:
		p.conv = s.weighted(1, 1)
		p.prep = prepSupport
		p.commit = commitFollow
	case si.story == storySway:
		switch {
		case prev != nil && prev.prep == prepOther && s.rng.Intn(10) < 8:
			// the others prepared prev.other with a quorum: sway P to it, then let this round fail
			p.conv = convSway
			p.sway = prev.other
			p.other = s.pickOther(si, p.sway)
			p.prep = []int{prepSplit, prepOther, prepOther}[s.rng.Intn(3)]
			p.commit = []int{commitBottom, commitJump, commitFollow}[s.rng.Intn(3)]
		case prev != nil && prev.conv == convSway && s.rng.Intn(10) < 8:
			// the round after the sway round: mostly leave CONVERGE to P's own value
			p.conv = []int{convNone, convNone, convNone, convForeign, convForeign, convCandidates}[s.rng.Intn(6)]
		case s.rng.Intn(10) < 7:
			p.prep = prepOther
			p.commit = []int{commitJump, commitJump, commitJump, commitSkip, commitBottom}[s.rng.Intn(5)]
			p.skipTo = r + 1
		}
	case si.story == storySkip:
		if s.rng.Intn(10) < 6 {
			p.commit = commitSkip
		}
	}
	si.plans[r] = p
	return p
}

// ---------------------------------------------------------------------------------------------
// the walk
// ---------------------------------------------------------------------------------------------

// unsent picks a virtual member that has not yet dispatched a vote for the slot (0 if none).
func (s *solo) unsent(slot soloSlot) int {
	start := s.rng.Intn(s.n)
	for k := 0; k < s.n; k++ {
		mi := (start + k) % s.n
		if mi == 0 || len(s.sent[mi][slot]) > 0 {
			continue
		}
		if s.sp(slot.inst, mi) == 0 && s.rng.Intn(4) != 0 {
			continue // zero-power members speak rarely (their messages must be refused)
		}
		return mi
	}
	// everybody spoke: members of B may say something else
	if s.rng.Intn(3) == 0 {
		for k := 0; k < s.n; k++ {
			mi := (start + k) % s.n
			if mi != 0 && s.inB[mi] {
				return mi
			}
		}
	}
	return 0
}

func (s *solo) tick() {
	w := s.w
	h := w.Part[0]
	if h == nil || h.done || w.stopped {
		return
	}
	s.St.Ticks++
	if s.St.Ticks > s.budget {
		w.stop("solo-budget")
		return
	}
	pr := h.p.Progress()
	round := pr.Round
	if pr.ID < uint64(w.Sc.Instances) {
		if si := s.inst(pr.ID); si != nil {
			for k := []int{0, 0, 1, 1, 1, 2, 2, 3, 4}[s.rng.Intn(9)]; k > 0; k-- {
				s.act(si, pr.Round, pr.Phase)
			}
			if s.rng.Intn(10) == 0 {
				s.noise(si, pr.Round)
			}
			if s.rng.Intn(8) == 0 {
				s.misplaced(si, pr.Round)
			}
			if pr.Phase != gpbft.DECIDE_PHASE && pr.Phase != gpbft.INITIAL_PHASE && s.rng.Intn(60) == 0 {
				s.decideNow(si, pr.Round)
			}
			// messages for the next instance, once its base is certain
			if si.decided != nil && s.rng.Intn(3) == 0 {
				if ni := s.inst(pr.ID + 1); ni != nil {
					s.act(ni, 0, gpbft.INITIAL_PHASE)
				}
			}
		}
	}
	// keep the number of ticks per step roughly constant while the step timeouts grow
	f := math.Pow(w.Sc.Opts.BackOff, float64(min(round, 12)))
	per := time.Duration(float64(s.period) * f * (0.5 + s.rng.Float64()))
	w.push(&event{at: w.now.Add(per + 1), kind: evByzTick})
}

func (s *solo) act(si *soloInst, r uint64, ph gpbft.Phase) {
	pl := s.plan(si, r)
	switch ph {
	case gpbft.INITIAL_PHASE, gpbft.QUALITY_PHASE:
		s.actQuality(si)
		if s.rng.Intn(3) == 0 {
			s.actPrepare(si, 0, pl)
		}
		if ph == gpbft.INITIAL_PHASE && s.rng.Intn(4) == 0 {
			// the network is already further on
			switch s.rng.Intn(3) {
			case 0:
				s.actCommit(si, 0, pl)
			case 1:
				s.pullAhead(si, 1+uint64(s.rng.Intn(2)))
			default:
				s.actPrepare(si, 0, pl)
			}
		}
		if ph == gpbft.QUALITY_PHASE && si.story == storySkip && s.rng.Intn(4) == 0 {
			s.pullAhead(si, 1+uint64(s.rng.Intn(2)))
		}
	case gpbft.CONVERGE_PHASE:
		s.actConverge(si, r, pl)
		if s.rng.Intn(3) == 0 {
			s.actPrepare(si, r, pl)
		}
		if s.rng.Intn(8) == 0 {
			s.lateQuality(si)
		}
	case gpbft.PREPARE_PHASE:
		s.actPrepare(si, r, pl)
		if s.rng.Intn(6) == 0 {
			s.actCommit(si, r, pl)
		}
		if s.rng.Intn(8) == 0 {
			s.lateQuality(si)
		}
		if (si.story == storySkip || pl.prep == prepSilent) && r < si.endRound && s.rng.Intn(3) == 0 {
			s.pullAhead(si, pl.skipTo)
		}
	case gpbft.COMMIT_PHASE:
		s.actCommit(si, r, pl)
	case gpbft.DECIDE_PHASE:
		s.actDecide(si)
	}
}

func (s *solo) qualityValue(si *soloInst) *gpbft.ECChain {
	if si.qual != nil && s.rng.Intn(4) != 0 {
		return si.qual
	}
	return s.anyValue(si)
}

func (s *solo) actQuality(si *soloInst) {
	slot := soloSlot{si.id, 0, gpbft.QUALITY_PHASE}
	if mi := s.unsent(slot); mi != 0 {
		s.vote(mi, si.id, 0, gpbft.QUALITY_PHASE, s.qualityValue(si), prefAny)
	}
}

// lateQuality: QUALITY votes that arrive after P left the QUALITY step (they may still enlarge its candidates).
func (s *solo) lateQuality(si *soloInst) {
	s.actQuality(si)
}

func (s *solo) actPrepare(si *soloInst, r uint64, pl *soloPlan) {
	slot := soloSlot{si.id, r, gpbft.PREPARE_PHASE}
	mi := s.unsent(slot)
	if mi == 0 {
		return
	}
	val := si.prop
	if r == 0 && si.qual != nil && !si.emitted {
		val = si.qual // P's round-0 proposal is not known yet: prepare what most voted for in QUALITY
	}
	switch pl.prep {
	case prepSplit:
		if (mi+int(r))%2 == 0 {
			val = pl.other
		}
	case prepOther:
		val = pl.other
	case prepSilent:
		if s.rng.Intn(4) != 0 {
			return
		}
	}
	if s.rng.Intn(12) == 0 {
		val = s.anyValue(si)
	}
	s.vote(mi, si.id, r, gpbft.PREPARE_PHASE, val, prefAny)
}

func (s *solo) actConverge(si *soloInst, r uint64, pl *soloPlan) {
	if r == 0 {
		return
	}
	slot := soloSlot{si.id, r, gpbft.CONVERGE_PHASE}
	mi := s.unsent(slot)
	if mi == 0 {
		return
	}
	mode := pl.conv
	if mode == convMixed {
		mode = s.rng.Intn(4)
	}
	switch mode {
	case convNone:
		if s.rng.Intn(10) == 0 {
			s.vote(mi, si.id, r, gpbft.CONVERGE_PHASE, si.prop, prefAny)
		}
	case convCandidates:
		val := si.input.Prefix(s.rng.Intn(si.input.Len()))
		if s.rng.Intn(3) == 0 {
			val = si.prop
		}
		s.vote(mi, si.id, r, gpbft.CONVERGE_PHASE, val, prefAny)
	case convSway:
		if !s.vote(mi, si.id, r, gpbft.CONVERGE_PHASE, pl.sway, prefPrepare) && s.rng.Intn(3) == 0 {
			s.vote(mi, si.id, r, gpbft.CONVERGE_PHASE, s.anyValue(si), prefAny)
		}
	case convForeign:
		val := pl.other
		if len(si.nonPrefix) > 0 {
			val = si.nonPrefix[s.rng.Intn(len(si.nonPrefix))]
		}
		s.vote(mi, si.id, r, gpbft.CONVERGE_PHASE, val, prefBottom)
	}
}

func (s *solo) actCommit(si *soloInst, r uint64, pl *soloPlan) {
	slot := soloSlot{si.id, r, gpbft.COMMIT_PHASE}
	var own *gpbft.ECChain
	if v, ok := s.pv[slot]; ok {
		own = v.chain
	}
	mode := pl.commit
	switch mode {
	case commitFollow:
		if mi := s.unsent(slot); mi != 0 {
			if !own.IsZero() {
				if !s.vote(mi, si.id, r, gpbft.COMMIT_PHASE, own, prefAny) {
					s.vote(mi, si.id, r, gpbft.COMMIT_PHASE, nil, prefAny)
				}
			} else {
				s.vote(mi, si.id, r, gpbft.COMMIT_PHASE, nil, prefAny)
			}
		}
	case commitBottom:
		if mi := s.unsent(slot); mi != 0 {
			s.vote(mi, si.id, r, gpbft.COMMIT_PHASE, nil, prefAny)
		}
	case commitJump:
		// the COMMIT-bottom quorum of this round reaches P inside a message of the next round
		next := s.plan(si, r+1)
		ph := gpbft.PREPARE_PHASE
		val := si.prop
		switch s.rng.Intn(4) {
		case 0:
			val = next.other
		case 1:
			ph = gpbft.CONVERGE_PHASE
			val = si.input.Prefix(s.rng.Intn(si.input.Len()))
		}
		if next.prep == prepOther && ph == gpbft.PREPARE_PHASE {
			val = next.other
		}
		if mi := s.unsent(soloSlot{si.id, r + 1, ph}); mi != 0 {
			if !s.vote(mi, si.id, r+1, ph, val, prefBottom) {
				if m2 := s.unsent(slot); m2 != 0 {
					s.vote(m2, si.id, r, gpbft.COMMIT_PHASE, nil, prefAny)
				}
			}
		}
	case commitOtherValue:
		// some members commit the value the others prepared, the rest bottom
		if mi := s.unsent(slot); mi != 0 {
			if mi%2 == 0 || !s.vote(mi, si.id, r, gpbft.COMMIT_PHASE, pl.other, prefAny) {
				s.vote(mi, si.id, r, gpbft.COMMIT_PHASE, nil, prefAny)
			}
		}
	case commitSkip:
		s.pullAhead(si, pl.skipTo)
		if s.rng.Intn(4) == 0 {
			if mi := s.unsent(slot); mi != 0 {
				s.vote(mi, si.id, r, gpbft.COMMIT_PHASE, nil, prefAny)
			}
		}
	case commitSilent:
		if s.rng.Intn(5) == 0 {
			if mi := s.unsent(slot); mi != 0 {
				s.vote(mi, si.id, r, gpbft.COMMIT_PHASE, nil, prefAny)
			}
		}
	}
}

// pullAhead: PREPAREs (towards a weak quorum of senders) and a CONVERGE of a later round, to make P skip.
func (s *solo) pullAhead(si *soloInst, rr uint64) {
	if rr == 0 {
		return
	}
	pl := s.plan(si, rr)
	val := si.prop
	pref := prefAny
	switch s.rng.Intn(3) {
	case 0:
		val, pref = pl.sway, prefPrepare
	case 1:
		val = pl.other
	}
	if mi := s.unsent(soloSlot{si.id, rr, gpbft.PREPARE_PHASE}); mi != 0 {
		s.vote(mi, si.id, rr, gpbft.PREPARE_PHASE, val, pref)
	}
	if s.rng.Intn(2) == 0 {
		if mi := s.unsent(soloSlot{si.id, rr, gpbft.CONVERGE_PHASE}); mi != 0 {
			s.vote(mi, si.id, rr, gpbft.CONVERGE_PHASE, val, pref)
		}
	}
}

func (s *solo) actDecide(si *soloInst) {
	v, ok := s.pv[soloSlot{si.id, 0, gpbft.DECIDE_PHASE}]
	if !ok || v.chain.IsZero() {
		return
	}
	slot := soloSlot{si.id, 0, gpbft.DECIDE_PHASE}
	if mi := s.unsent(slot); mi != 0 {
		if s.vote(mi, si.id, 0, gpbft.DECIDE_PHASE, v.chain, prefAny) {
			s.reserveDecide(si, v.chain)
		}
	}
}

// reserveDecide binds a strong quorum of DECIDE signatures to val: from then on no other value can
// gather a DECIDE quorum, so the base of the next instance is certain.
func (s *solo) reserveDecide(si *soloInst, val *gpbft.ECChain) {
	if si.decided != nil {
		return
	}
	if s.just(si.id, 0, gpbft.DECIDE_PHASE, val) == nil {
		return
	}
	si.decided = val
	if nx := si.id + 1; nx < uint64(s.w.Sc.Instances) && s.w.bases[nx] == nil {
		s.w.bases[nx] = val.Head()
	}
}

// decideNow: a DECIDE quorum at a random point of P's walk.
func (s *solo) decideNow(si *soloInst, r uint64) {
	val := si.prop
	if s.rng.Intn(3) == 0 {
		val = s.anyValue(si)
	}
	if si.decided != nil {
		val = si.decided
	}
	sent := false
	for k := 0; k < s.n; k++ {
		if mi := s.unsent(soloSlot{si.id, 0, gpbft.DECIDE_PHASE}); mi != 0 {
			if s.vote(mi, si.id, r, gpbft.DECIDE_PHASE, val, prefAny) {
				sent = true
			}
		}
	}
	if sent {
		s.reserveDecide(si, val)
	}
}

// misplaced: a message whose justification is a genuine aggregate (built under the ledger) of ANOTHER
// round / step / value than the rules prescribe for it, or none where one is required. A correct
// validator refuses it; a validator that lets it through hands the participant evidence for something
// that never happened. (By chance the attachment may be the right one: then it is an ordinary message.)
func (s *solo) misplaced(si *soloInst, r uint64) {
	var cands []*gpbft.Justification
	for _, j := range s.jlist {
		if j.Vote.Instance == si.id {
			cands = append(cands, j)
		}
	}
	if len(cands) == 0 {
		return
	}
	j := cands[s.rng.Intn(len(cands))]
	ph := []gpbft.Phase{gpbft.PREPARE_PHASE, gpbft.CONVERGE_PHASE, gpbft.COMMIT_PHASE, gpbft.DECIDE_PHASE}[s.weighted(4, 4, 2, 1)]
	rr := r + uint64(s.rng.Intn(3))
	if ph != gpbft.DECIDE_PHASE && rr == 0 {
		rr = 1
	}
	if ph == gpbft.DECIDE_PHASE {
		rr = 0
	}
	val := j.Vote.Value
	if val.IsZero() || s.rng.Intn(4) == 0 {
		val = si.prop
		if s.rng.Intn(2) == 0 {
			val = s.anyValue(si)
		}
	}
	if s.rng.Intn(8) == 0 {
		j = nil
	}
	slot := soloSlot{si.id, rr, ph}
	// A refused message still binds its sender's slot. To keep the walk deep, such messages come from
	// members of B or from members already bound to that value; only rarely does a free member of the
	// rest spend its slot on one (never its DECIDE slot).
	key := val.Key()
	mi := 0
	start := s.rng.Intn(s.n)
	for k := 0; k < s.n && mi == 0; k++ {
		c := (start + k) % s.n
		if c == 0 || s.sent[c][slot][key] || s.sp(si.id, c) == 0 {
			continue
		}
		if v, bound := s.ledger[c][slot]; s.inB[c] || (bound && v == key) {
			mi = c
		}
	}
	if mi == 0 && ph != gpbft.DECIDE_PHASE && s.rng.Intn(6) == 0 {
		mi = s.unsent(slot)
	}
	if mi != 0 && s.emitVote(mi, slot, val, j) {
		s.St.Misplaced++
	}
}

// noise: any sound message at all, near P's position.
func (s *solo) noise(si *soloInst, r uint64) {
	mi := 1 + s.rng.Intn(s.n-1)
	ph := []gpbft.Phase{gpbft.QUALITY_PHASE, gpbft.CONVERGE_PHASE, gpbft.PREPARE_PHASE, gpbft.COMMIT_PHASE, gpbft.DECIDE_PHASE}[s.weighted(2, 4, 4, 4, 1)]
	rr := r
	switch s.rng.Intn(6) {
	case 0:
		if rr > 0 {
			rr--
		}
	case 1:
		rr++
	case 2:
		rr += 2
	}
	val := s.anyValue(si)
	if (ph == gpbft.PREPARE_PHASE || ph == gpbft.COMMIT_PHASE) && s.rng.Intn(3) == 0 {
		val = nil
	}
	inst := si.id
	if ph == gpbft.DECIDE_PHASE && inst > 0 && s.rng.Intn(2) == 0 {
		// a late DECIDE of the previous instance
		if pi := s.insts[inst-1]; pi != nil && pi.decided != nil {
			inst, val = inst-1, pi.decided
		}
	}
	if ph == gpbft.DECIDE_PHASE && inst == si.id && si.decided != nil {
		val = si.decided
	}
	ok := s.vote(mi, inst, rr, ph, val, []int{prefAny, prefPrepare, prefBottom}[s.rng.Intn(3)])
	if ok && ph == gpbft.DECIDE_PHASE && inst == si.id {
		s.reserveDecide(si, val)
	}
}
