package vworld

import (
	"fmt"
	"math/rand"
	"sort"
	"time"

	"github.com/filecoin-project/go-bitfield"
	rlepluslazy "github.com/filecoin-project/go-bitfield/rle"
	"github.com/filecoin-project/go-f3/gpbft"
)

// Strategy is the seeded "strategy program" of the adversary: which templates
// are active and how aggressively they are used (DESIGN.md appendix A.3).
type Strategy struct {
	Equivocate  bool    // S1: sign several values per slot, split by destination group
	Forge       bool    // S2: aggregate observed+own signatures, send strongest follow-up to subsets
	Misplace    bool    // S3: attach valid aggregates where the rules forbid them / mutate fields
	Foreign     bool    // S6: well-formed chains extending nobody's input, other base
	Replay      bool    // stale replays / spam of old messages
	Split       bool    // directed split: X-votes to group A only, Y-votes to group B only
	Impersonate bool    // S7: votes in the name of other members with junk signatures, delivered twice
	FastLinks   bool    // adversary-to-honest links are not subject to the scheduler latency class
	SuppTwist   bool    // S8: own votes signed over supplemental data with other commitments (same power-table CID) or another power-table CID
	Solo        bool    // C07 part "solo": the adversary object plays the whole virtual network around one real participant (solo.go)
	Disciplined bool    // never leak a camp\'s value to the other camp: follow-ups only towards the camp that voted for the value; no replays
	ActProb     float64 // probability to act on an opportunity
	MaxSends    int
}

func (s Strategy) String() string {
	return fmt.Sprintf("equiv=%v forge=%v misplace=%v foreign=%v replay=%v split=%v impersonate=%v supptwist=%v p=%.2f", s.Equivocate, s.Forge, s.Misplace, s.Foreign, s.Replay, s.Split, s.Impersonate, s.SuppTwist, s.ActProb)
}

func genStrategy(rng *rand.Rand, sc *Scenario) Strategy {
	s := Strategy{ActProb: 0.3 + 0.7*rng.Float64(), MaxSends: 4000}
	// every template appears often; directed split is a combination.
	s.Equivocate = rng.Intn(4) != 0
	s.Forge = rng.Intn(4) != 0
	s.Misplace = rng.Intn(3) == 0
	s.Foreign = rng.Intn(3) == 0
	s.Replay = rng.Intn(4) == 0
	s.Split = rng.Intn(2) == 0
	s.Impersonate = rng.Intn(3) == 0
	s.FastLinks = rng.Intn(3) == 0
	s.Disciplined = s.Split && rng.Intn(3) == 0
	s.SuppTwist = !s.Disciplined && rng.Intn(3) == 0
	return s
}

type poolKey struct {
	inst, round uint64
	phase       gpbft.Phase
	value       gpbft.ECChainKey
}

type Adversary struct {
	w   *World
	rng *rand.Rand
	own []int // member indices of kind Byz
	st  Strategy

	pool         map[poolKey]map[gpbft.ActorID][]byte
	chains       map[gpbft.ECChainKey]*gpbft.ECChain
	values       map[uint64][]*gpbft.ECChain // per instance: live values seen
	justs        map[poolKey]*gpbft.Justification
	sentTo       map[string]bool
	old          []*gpbft.GMessage
	impersonated map[uint64]bool
	camp         map[gpbft.ECChainKey]int // value -> 1 (group A) / 2 (group B): camp of the first honest member that voted for it

	Sent, accepted, rejected int
	PerTemplate              map[string]int
	signer                   gpbft.Signer
	solo                     *solo // non-nil in solo mode only (Strategy.Solo)
}

func newAdversary(w *World) *Adversary {
	a := &Adversary{w: w, rng: rand.New(rand.NewSource(w.Sc.Seed ^ 0xbad)), st: w.Sc.Strategy,
		pool: map[poolKey]map[gpbft.ActorID][]byte{}, chains: map[gpbft.ECChainKey]*gpbft.ECChain{},
		values: map[uint64][]*gpbft.ECChain{}, justs: map[poolKey]*gpbft.Justification{}, sentTo: map[string]bool{},
		PerTemplate: map[string]int{}, impersonated: map[uint64]bool{}, camp: map[gpbft.ECChainKey]int{}}
	var keys []gpbft.PubKey
	for i, m := range w.Sc.Members {
		if m.Kind == Byz {
			a.own = append(a.own, i)
			keys = append(keys, m.Key)
		}
	}
	a.signer = w.Sc.Sig().NewSigner(keys...)
	if a.st.Solo {
		a.solo = newSolo(a)
	}
	return a
}

func (a *Adversary) Accepted() int { return a.accepted }
func (a *Adversary) Rejected() int { return a.rejected }

func (a *Adversary) silentNow() bool {
	return a.w.Sc.Class == "gst" && a.w.gstReached
}

func (a *Adversary) start() {
	if a.solo != nil {
		a.solo.start()
		return
	}
	if len(a.own) == 0 {
		return
	}
	a.w.push(&event{at: a.w.now.Add(a.w.delta()), kind: evByzTick})
}

func (a *Adversary) addValue(inst uint64, c *gpbft.ECChain) {
	if c.IsZero() {
		return
	}
	k := c.Key()
	if _, ok := a.chains[k]; ok {
		return
	}
	a.chains[k] = c
	a.values[inst] = append(a.values[inst], c)
}

// observe is called for every message put on the network (full-information adversary).
func (a *Adversary) observe(from int, msg *gpbft.GMessage) {
	if a.solo != nil {
		a.solo.observe(from, msg)
		return
	}
	v := msg.Vote
	key := v.Value.Key()
	pk := poolKey{v.Instance, v.Round, v.Phase, key}
	if a.pool[pk] == nil {
		a.pool[pk] = map[gpbft.ActorID][]byte{}
	}
	a.pool[pk][msg.Sender] = msg.Signature
	a.addValue(v.Instance, v.Value)
	if j := msg.Justification; j != nil {
		jk := poolKey{j.Vote.Instance, j.Vote.Round, j.Vote.Phase, j.Vote.Value.Key()}
		if _, ok := a.justs[jk]; !ok {
			a.justs[jk] = j
		}
	}
	if len(a.old) < 512 {
		a.old = append(a.old, msg)
	}
	if from >= 0 && a.w.Sc.Members[from].Kind == Honest && !v.Value.IsZero() {
		if _, ok := a.camp[key]; !ok {
			a.camp[key] = 2
			if a.w.groupOf(from) {
				a.camp[key] = 1
			}
		}
	}
	if len(a.own) == 0 || a.silentNow() || a.Sent >= a.st.MaxSends {
		return
	}
	if a.st.Forge {
		a.tryForge(pk)
	}
	a.react(from, msg)
}

// tryForge aggregates observed plus own signatures for a slot once they reach a strong quorum.
func (a *Adversary) tryForge(pk poolKey) *gpbft.Justification {
	if j, ok := a.justs[pk]; ok {
		return j
	}
	if pk.phase != gpbft.PREPARE_PHASE && pk.phase != gpbft.COMMIT_PHASE {
		return nil
	}
	t := a.w.Table(pk.inst)
	if t == nil {
		return nil
	}
	payload := gpbft.Payload{Instance: pk.inst, Round: pk.round, Phase: pk.phase, SupplementalData: a.w.SuppData(pk.inst), Value: a.chains[pk.value]}
	if !pk.value.IsZero() && payload.Value == nil {
		return nil
	}
	toSign := payload.MarshalForSigning(NetworkName)
	sigs := map[int][]byte{}
	var power int64
	for id, s := range a.pool[pk] {
		idx, ok := t.PT.Lookup[id]
		if !ok || t.PT.ScaledPower[idx] == 0 {
			continue
		}
		sigs[idx] = s
		power += t.PT.ScaledPower[idx]
	}
	for _, mi := range a.own {
		m := a.w.Sc.Members[mi]
		idx, ok := t.PT.Lookup[m.ID]
		if !ok || t.PT.ScaledPower[idx] == 0 {
			continue
		}
		if _, have := sigs[idx]; have {
			continue
		}
		sigs[idx] = a.w.Sc.Sig().RawSign(m.Key, toSign)
		power += t.PT.ScaledPower[idx]
	}
	if 2*power <= t.PT.ScaledTotal {
		return nil // not even a majority: not worth trying
	}
	if 3*power < 2*t.PT.ScaledTotal {
		// below two thirds: a correct validator rejects this aggregate; it is sent anyway so that a
		// weakened threshold anywhere (tally, validator, certificate check) turns into an attack
		a.PerTemplate["forged-justifications-below-quorum"]++
	}
	idxs := make([]int, 0, len(sigs))
	for i := range sigs {
		idxs = append(idxs, i)
	}
	sort.Ints(idxs)
	ss := make([][]byte, len(idxs))
	u := make([]uint64, len(idxs))
	for n, i := range idxs {
		ss[n] = sigs[i]
		u[n] = uint64(i)
	}
	agg, err := t.Agg.Aggregate(idxs, ss)
	if err != nil {
		return nil
	}
	ri, _ := rlepluslazy.RunsFromSlice(u)
	bf, _ := bitfield.NewFromIter(ri)
	j := &gpbft.Justification{Vote: payload, Signers: bf, Signature: agg}
	a.justs[pk] = j
	a.PerTemplate["forged-justifications"]++
	return j
}

func (a *Adversary) groups() (ga, gb []int) {
	for i, m := range a.w.Sc.Members {
		if m.Kind != Honest && m.Kind != Shadow {
			continue
		}
		if a.w.groupOf(i) {
			ga = append(ga, i)
		} else {
			gb = append(gb, i)
		}
	}
	return
}

func (a *Adversary) randomSubset() []int {
	var r []int
	for i, m := range a.w.Sc.Members {
		if (m.Kind == Honest || m.Kind == Shadow) && a.rng.Intn(2) == 0 {
			r = append(r, i)
		}
	}
	return r
}

func (a *Adversary) all() []int {
	var r []int
	for i, m := range a.w.Sc.Members {
		if m.Kind == Honest || m.Kind == Shadow {
			r = append(r, i)
		}
	}
	return r
}

// build creates a validly signed message of own member mi.
func (a *Adversary) build(mi int, p gpbft.Payload, j *gpbft.Justification) *gpbft.GMessage {
	m := a.w.Sc.Members[mi]
	t := a.w.Table(p.Instance)
	if t == nil {
		return nil
	}
	mb := &gpbft.MessageBuilder{NetworkName: NetworkName, PowerTable: t.PT, Payload: p, Justification: j}
	if p.Phase == gpbft.CONVERGE_PHASE {
		mb.BeaconForTicket = t.Beacon
	}
	msg, err := mb.Build(a.w.ctx, a.signer, m.ID)
	if err != nil {
		// zero-power member: craft by hand (must be rejected by validators)
		return &gpbft.GMessage{Sender: m.ID, Vote: p, Signature: a.w.Sc.Sig().RawSign(m.Key, p.MarshalForSigning(NetworkName)), Justification: j}
	}
	return msg
}

func (a *Adversary) sendOnce(tmpl string, mi int, msg *gpbft.GMessage, dests []int, delay time.Duration) {
	if msg == nil || len(dests) == 0 || a.Sent >= a.st.MaxSends {
		return
	}
	var ds []int
	for _, d := range dests {
		k := fmt.Sprintf("%d|%d|%d|%d|%x|%d", mi, msg.Vote.Instance, msg.Vote.Round, msg.Vote.Phase, msg.Vote.Value.Key(), d)
		if a.sentTo[k] {
			continue
		}
		a.sentTo[k] = true
		ds = append(ds, d)
	}
	if len(ds) == 0 {
		return
	}
	if a.st.Misplace && a.rng.Intn(3) == 0 {
		if mm := a.mutate(mi, msg); mm != nil {
			msg = mm
			tmpl = "S3-misplace"
		}
	}
	a.Sent++
	a.PerTemplate[tmpl]++
	// the adversary also learns its own signatures
	a.learn(msg)
	a.w.Inject(mi, msg, ds, delay)
	if tmpl == "S3-misplace" {
		// a rule-violating message is presented a second time (validators must not remember a
		// message they refused as one they accepted)
		a.PerTemplate["S3-misplace-second-presentation"]++
		a.w.Inject(mi, msg, ds, delay+a.w.delta()/4+1)
	}
}

func (a *Adversary) learn(msg *gpbft.GMessage) {
	v := msg.Vote
	pk := poolKey{v.Instance, v.Round, v.Phase, v.Value.Key()}
	if a.pool[pk] == nil {
		a.pool[pk] = map[gpbft.ActorID][]byte{}
	}
	a.pool[pk][msg.Sender] = msg.Signature
	a.addValue(v.Instance, v.Value)
}

// mutate turns a valid message into a rule-violating variant that keeps a valid own signature.
func (a *Adversary) mutate(mi int, msg *gpbft.GMessage) *gpbft.GMessage {
	p := msg.Vote
	j := msg.Justification
	switch a.rng.Intn(8) {
	case 0:
		p.Round++
	case 1:
		if p.Round > 0 {
			p.Round--
		} else {
			p.Round = 2
		}
	case 2:
		if vs := a.values[p.Instance]; len(vs) > 0 {
			p.Value = vs[a.rng.Intn(len(vs))]
		}
	case 3:
		p.Phase = []gpbft.Phase{gpbft.QUALITY_PHASE, gpbft.CONVERGE_PHASE, gpbft.PREPARE_PHASE, gpbft.COMMIT_PHASE, gpbft.DECIDE_PHASE}[a.rng.Intn(5)]
	case 4:
		// justification of another slot
		for _, oj := range a.justs {
			if j == nil || oj != j {
				j = oj
				break
			}
		}
	case 5:
		if j != nil {
			j = nil
		} else {
			for _, oj := range a.justs {
				j = oj
				break
			}
		}
	case 6:
		p.Instance++
	case 7:
		// a DECIDE for a chain nobody proposed, carrying whatever aggregate is at hand
		if f := a.foreignChain(p.Instance, false); f != nil {
			p.Value, p.Phase, p.Round = f, gpbft.DECIDE_PHASE, 0
			for _, oj := range a.justs {
				j = oj
				break
			}
		}
	}
	return a.build(mi, p, j)
}

func (a *Adversary) foreignChain(inst uint64, otherBase bool) *gpbft.ECChain {
	w := a.w
	if inst >= uint64(len(w.bases)) || w.bases[inst] == nil {
		return nil
	}
	base := w.bases[inst]
	if vs := a.values[inst]; !otherBase && len(vs) > 0 && a.rng.Intn(3) == 0 {
		// head fork: a live value with only its head tipset replaced (every proper prefix of it is
		// a prefix of an honest input, the chain itself is nobody's)
		if v := vs[a.rng.Intn(len(vs))]; v != nil && v.Len() >= 2 && v.Base().Equal(base) {
			v = v.Prefix(1 + a.rng.Intn(v.Len()-1)) // any prefix with at least one tipset above the base
			tips := append([]*gpbft.TipSet{}, v.TipSets[1:v.Len()-1]...)
			h := v.Head()
			key := make([]byte, 32)
			a.rng.Read(key)
			tips = append(tips, &gpbft.TipSet{Epoch: h.Epoch, Key: key, PowerTable: h.PowerTable})
			if c, err := gpbft.NewChain(base, tips...); err == nil {
				return c
			}
		}
	}
	if otherBase {
		base = &gpbft.TipSet{Epoch: base.Epoch, Key: w.randKey(), PowerTable: base.PowerTable}
	}
	n := 1 + a.rng.Intn(4)
	tips := make([]*gpbft.TipSet, 0, n)
	e := base.Epoch
	for i := 0; i < n; i++ {
		e++
		key := make([]byte, 32)
		a.rng.Read(key)
		tips = append(tips, &gpbft.TipSet{Epoch: e, Key: key, PowerTable: base.PowerTable})
	}
	c, err := gpbft.NewChain(base, tips...)
	if err != nil {
		return nil
	}
	return c
}

// altValue picks a value different from v for an equivocation.
func (a *Adversary) altValue(inst uint64, v *gpbft.ECChain) *gpbft.ECChain {
	var cands []*gpbft.ECChain
	for _, c := range a.values[inst] {
		if !c.Eq(v) {
			cands = append(cands, c)
		}
	}
	if a.w.inputs[inst] != nil {
		for _, c := range a.w.inputs[inst] {
			if !c.Eq(v) {
				cands = append(cands, c)
			}
		}
	}
	if !v.IsZero() && v.Len() > 1 {
		cands = append(cands, v.Prefix(a.rng.Intn(v.Len()-1)))
	}
	if a.st.Foreign {
		if f := a.foreignChain(inst, a.rng.Intn(4) == 0); f != nil {
			cands = append(cands, f)
		}
	}
	if len(cands) == 0 {
		return nil
	}
	return cands[a.rng.Intn(len(cands))]
}

// justFor finds an admissible justification for a vote (inst, round, phase, value), or nil.
func (a *Adversary) justFor(inst, round uint64, phase gpbft.Phase, value *gpbft.ECChain) (*gpbft.Justification, bool) {
	key := value.Key()
	zero := gpbft.ECChainKey{}
	switch phase {
	case gpbft.QUALITY_PHASE:
		return nil, true
	case gpbft.PREPARE_PHASE, gpbft.CONVERGE_PHASE:
		if round == 0 {
			return nil, phase == gpbft.PREPARE_PHASE
		}
		if value.IsZero() {
			return nil, false
		}
		if j := a.justs[poolKey{inst, round - 1, gpbft.PREPARE_PHASE, key}]; j != nil {
			return j, true
		}
		if j := a.justs[poolKey{inst, round - 1, gpbft.COMMIT_PHASE, zero}]; j != nil {
			return j, true
		}
		return nil, false
	case gpbft.COMMIT_PHASE:
		if value.IsZero() {
			return nil, true
		}
		if j := a.justs[poolKey{inst, round, gpbft.PREPARE_PHASE, key}]; j != nil {
			return j, true
		}
		return nil, false
	case gpbft.DECIDE_PHASE:
		if value.IsZero() {
			return nil, false
		}
		for k, j := range a.justs {
			if k.inst == inst && k.phase == gpbft.COMMIT_PHASE && k.value == key {
				return j, true
			}
		}
		return nil, false
	}
	return nil, false
}

func (a *Adversary) vote(tmpl string, mi int, inst, round uint64, phase gpbft.Phase, value *gpbft.ECChain, dests []int, delay time.Duration) bool {
	j, ok := a.justFor(inst, round, phase, value)
	if !ok {
		return false
	}
	if phase == gpbft.DECIDE_PHASE {
		round = 0
	}
	p := gpbft.Payload{Instance: inst, Round: round, Phase: phase, SupplementalData: a.w.SuppData(inst), Value: value}
	if value == nil {
		p.Value = &gpbft.ECChain{}
	}
	if a.st.SuppTwist && a.rng.Intn(3) == 0 {
		// S8: a validly signed vote over other supplemental data. Honest participants must not count
		// it (wrong supplemental data is a documented late-binding rejection); if one is counted, the
		// decision's aggregate no longer verifies over the instance's payload (C03) or a quorum is
		// reached that honest votes alone do not give (C01/C07).
		if a.rng.Intn(3) != 0 {
			p.SupplementalData.Commitments[a.rng.Intn(32)] ^= byte(1 << a.rng.Intn(8))
		} else {
			p.SupplementalData.PowerTable = gpbft.MakeCid([]byte(fmt.Sprintf("twisted-%d", a.rng.Int63())))
		}
		tmpl = "S8-supp-twist"
	}
	a.sendOnce(tmpl, mi, a.build(mi, p, j), dests, delay)
	return true
}

// react is the strategy program: called on every observed honest/shadow message.
func (a *Adversary) react(from int, m *gpbft.GMessage) {
	st := a.st
	v := m.Vote
	ga, gb := a.groups()
	if st.Impersonate && !a.impersonated[v.Instance] {
		a.impersonated[v.Instance] = true
		a.impersonate(v.Instance)
	}
	for _, mi := range a.own {
		if a.rng.Float64() > st.ActProb {
			continue
		}
		delay := time.Duration(a.rng.Int63n(int64(2*a.w.delta()) + 1))
		if st.FastLinks {
			delay = time.Duration(a.rng.Int63n(int64(a.w.delta()/50) + 1))
		}
		// S1: same slot, several values
		if st.Equivocate {
			x := v.Value
			y := a.altValue(v.Instance, x)
			if st.Split && len(ga) > 0 && len(gb) > 0 {
				// tell each camp what it wants to hear: support the observed value towards the
				// sender's own camp; the other camp's own messages trigger the mirror-image vote
				own, other := gb, ga
				if from >= 0 && a.w.groupOf(from) {
					own, other = ga, gb
				}
				a.vote("S1-split", mi, v.Instance, v.Round, v.Phase, x, own, delay)
				if a.rng.Intn(4) == 0 && (y != nil || v.Phase == gpbft.COMMIT_PHASE || v.Phase == gpbft.PREPARE_PHASE) {
					a.vote("S1-split", mi, v.Instance, v.Round, v.Phase, y, other, delay)
				}
			} else {
				a.vote("S1-equivocate", mi, v.Instance, v.Round, v.Phase, x, a.randomSubset(), delay)
				a.vote("S1-equivocate", mi, v.Instance, v.Round, v.Phase, y, a.randomSubset(), delay)
			}
		} else if a.rng.Intn(2) == 0 {
			// plain (non-equivocating) Byzantine vote for some live value
			val := v.Value
			if a.rng.Intn(2) == 0 {
				if y := a.altValue(v.Instance, val); y != nil {
					val = y
				}
			}
			a.vote("plain-vote", mi, v.Instance, v.Round, v.Phase, val, a.all(), delay)
		}
		// S2/S5: strongest follow-ups from available justifications, to subsets
		if st.Forge {
			a.followUps(mi, v.Instance, v.Round, delay)
		}
		// S6: foreign values
		if st.Foreign && !st.Disciplined && a.rng.Intn(3) == 0 {
			f := a.foreignChain(v.Instance, a.rng.Intn(3) == 0)
			if f != nil {
				ph := []gpbft.Phase{gpbft.QUALITY_PHASE, gpbft.PREPARE_PHASE, gpbft.CONVERGE_PHASE, gpbft.COMMIT_PHASE}[a.rng.Intn(4)]
				r := v.Round
				if ph == gpbft.QUALITY_PHASE {
					r = 0
				}
				if ph == gpbft.CONVERGE_PHASE && r == 0 {
					r = 1
				}
				a.vote("S6-foreign", mi, v.Instance, r, ph, f, a.randomSubset(), delay)
			}
		}
	}
}

func (a *Adversary) followUps(mi int, inst, round uint64, delay time.Duration) {
	var campOf *gpbft.ECChain
	subset := func() []int {
		if a.st.Disciplined && campOf != nil {
			ga, gb := a.groups()
			switch a.camp[campOf.Key()] {
			case 1:
				return ga
			case 2:
				return gb
			}
			return nil
		}
		if a.rng.Intn(2) == 0 {
			al := a.all()
			if len(al) == 0 {
				return nil
			}
			return []int{al[a.rng.Intn(len(al))]}
		}
		return a.randomSubset()
	}
	for _, val := range a.values[inst] {
		key := val.Key()
		campOf = val
		for r := round; r+1 >= round && r <= round+1; r++ {
			if a.justs[poolKey{inst, r, gpbft.PREPARE_PHASE, key}] != nil {
				a.vote("S2-commit-from-prepare", mi, inst, r, gpbft.COMMIT_PHASE, val, subset(), delay)
				a.vote("S5-converge-next", mi, inst, r+1, gpbft.CONVERGE_PHASE, val, subset(), delay)
				a.vote("S5-prepare-next", mi, inst, r+1, gpbft.PREPARE_PHASE, val, subset(), delay)
			}
		}
		if _, ok := a.justFor(inst, 0, gpbft.DECIDE_PHASE, val); ok {
			a.vote("S2-decide", mi, inst, 0, gpbft.DECIDE_PHASE, val, subset(), delay)
		}
	}
	zero := gpbft.ECChainKey{}
	for r := round; r <= round+1; r++ {
		if a.justs[poolKey{inst, r, gpbft.COMMIT_PHASE, zero}] != nil {
			// COMMIT-bottom quorum justifies CONVERGE/PREPARE of *any* value in r+1
			var val *gpbft.ECChain
			if vs := a.values[inst]; len(vs) > 0 {
				val = vs[a.rng.Intn(len(vs))]
			}
			if a.st.Foreign && a.rng.Intn(2) == 0 {
				if f := a.foreignChain(inst, false); f != nil {
					val = f
				}
			}
			campOf = val
			if val != nil {
				a.vote("S5-converge-any", mi, inst, r+1, gpbft.CONVERGE_PHASE, val, subset(), delay)
				a.vote("S5-prepare-any", mi, inst, r+1, gpbft.PREPARE_PHASE, val, subset(), delay)
			}
		}
	}
}

func (a *Adversary) tick() {
	if a.solo != nil {
		a.solo.tick()
		return
	}
	if a.silentNow() || a.Sent >= a.st.MaxSends {
		return
	}
	w := a.w
	if a.st.Replay && !a.st.Disciplined && len(a.old) > 0 {
		for n := 0; n < 3; n++ {
			m := a.old[a.rng.Intn(len(a.old))]
			a.PerTemplate["replay"]++
			a.Sent++
			w.Inject(-1, m, a.randomSubset(), 0)
		}
	}
	if a.st.Forge && len(a.own) > 0 {
		// retry follow-ups for the newest instance/round seen
		var inst, round uint64
		for k := range a.justs {
			if k.inst > inst || (k.inst == inst && k.round > round) {
				inst, round = k.inst, k.round
			}
		}
		a.followUps(a.own[a.rng.Intn(len(a.own))], inst, round, 0)
	}
	if w.q.Len() > 0 {
		w.push(&event{at: w.now.Add(w.delta()), kind: evByzTick})
	}
}

// onShadowEmit: a faulty identity running a real participant; its output is
// observed and then delivered selectively / late (S4).
func (a *Adversary) onShadowEmit(h *host, msg *gpbft.GMessage, rebroadcast bool) {
	a.observe(h.i, msg)
	if a.silentNow() {
		return
	}
	w := a.w
	a.PerTemplate["S4-shadow-emits"]++
	// always deliver to self so that the shadow keeps running
	w.send(h.i, h.i, msg, true, 0)
	mode := a.rng.Intn(4)
	for to, m := range w.Sc.Members {
		if to == h.i || (m.Kind != Honest && m.Kind != Shadow) {
			continue
		}
		switch mode {
		case 0: // group A only
			if !w.groupOf(to) {
				continue
			}
		case 1: // random half
			if a.rng.Intn(2) == 0 {
				continue
			}
		case 2: // everybody, late
		}
		extra := time.Duration(0)
		if mode >= 2 {
			extra = time.Duration(a.rng.Int63n(int64(6*w.delta()) + 1))
		}
		w.send(h.i, to, msg, true, extra)
	}
}

// impersonate (S7): DECIDE / COMMIT / PREPARE votes in the name of EVERY committee member for a
// value of the adversary's choice, with junk signatures and a junk justification, delivered to
// one victim several times. A correct validator rejects every copy; a validator that lets a
// second presentation through (or skips a signature check) lets the victim decide alone.
func (a *Adversary) impersonate(inst uint64) {
	w := a.w
	t := w.Table(inst)
	if t == nil || w.inputs[inst] == nil {
		return
	}
	hon := w.HonestIdx()
	if len(hon) == 0 {
		return
	}
	victim := hon[a.rng.Intn(len(hon))]
	// a value the victim's peers are unlikely to decide
	var y *gpbft.ECChain
	if in := w.inputs[inst][victim]; in != nil {
		y = in.BaseChain().Extend([]byte(fmt.Sprintf("impersonated-%d-kkkkkkkkkkkkkkkkkkkkkkkk", inst)))
		y.TipSets[1].PowerTable = in.Base().PowerTable
	}
	if y == nil {
		return
	}
	junk := func(n int) []byte { b := make([]byte, n); a.rng.Read(b); return b }
	var all []int
	for i := range t.Entries {
		all = append(all, i)
	}
	u := make([]uint64, len(all))
	for i := range all {
		u[i] = uint64(i)
	}
	ri, _ := rlepluslazy.RunsFromSlice(u)
	bf, _ := bitfield.NewFromIter(ri)
	sd := w.SuppData(inst)
	for _, ph := range []gpbft.Phase{gpbft.DECIDE_PHASE, gpbft.COMMIT_PHASE} {
		jp := gpbft.Payload{Instance: inst, Round: 0, Phase: gpbft.COMMIT_PHASE, SupplementalData: sd, Value: y}
		if ph == gpbft.COMMIT_PHASE {
			jp.Phase = gpbft.PREPARE_PHASE
		}
		for _, e := range t.Entries {
			msg := &gpbft.GMessage{Sender: e.ID, Vote: gpbft.Payload{Instance: inst, Round: 0, Phase: ph, SupplementalData: sd, Value: y},
				Signature: junk(96), Justification: &gpbft.Justification{Vote: jp, Signers: bf, Signature: junk(96)}}
			a.PerTemplate["S7-impersonate"]++
			a.Sent++
			for rep := 0; rep < 3; rep++ {
				w.Inject(-1, msg, []int{victim}, time.Duration(rep)*w.delta()/4)
			}
		}
	}
}
