package vworld

import (
	"fmt"
	"math/big"
	"math/rand"
	"time"

	"github.com/filecoin-project/go-f3/gpbft"
	"github.com/filecoin-project/go-f3/verifh/vsig"
)

// ScaledOf computes floor(65535*p/total) independently of the code under test.
func ScaledOf(powers []*big.Int) ([]int64, int64) {
	total := new(big.Int)
	for _, p := range powers {
		total.Add(total, p)
	}
	out := make([]int64, len(powers))
	var sum int64
	for i, p := range powers {
		x := new(big.Int).Mul(p, big.NewInt(0xffff))
		x.Div(x, total)
		out[i] = x.Int64()
		sum += out[i]
	}
	return out, sum
}

func genPowers(rng *rand.Rand, n int) ([]*big.Int, string) {
	ps := make([]*big.Int, n)
	kind := rng.Intn(9)
	desc := ""
	switch kind {
	case 7:
		// three groups of (almost) equal weight: the smallest is just under one third, so that
		// each of the other two reaches two thirds only together with it -- the exact quorum boundary
		desc = "boundary-thirds"
		if n < 3 {
			n = 3
			ps = make([]*big.Int, n)
		}
		b := int64(1000 + rng.Intn(30000))
		g := []int64{b + int64(rng.Intn(3)), b + int64(rng.Intn(3)), b - int64(rng.Intn(2))}
		for i := range ps {
			ps[i] = big.NewInt(0)
		}
		// members 0,1,2 carry the groups; further members split a group's weight
		for i := 0; i < 3; i++ {
			ps[i] = big.NewInt(g[i])
		}
		for i := 3; i < n; i++ {
			src := i % 3
			half := new(big.Int).Div(ps[src], big.NewInt(2))
			if half.Sign() > 0 {
				ps[i] = half
				ps[src] = new(big.Int).Sub(ps[src], half)
			} else {
				ps[i] = big.NewInt(1)
			}
		}
		return ps, desc
	case 8:
		desc = "int64-large"
		for i := range ps {
			ps[i] = new(big.Int).Lsh(big.NewInt(1+rng.Int63n(1<<20)), uint(26+rng.Intn(14)))
		}
	case 0:
		desc = "uniform"
		v := int64(1 + rng.Intn(1000))
		for i := range ps {
			ps[i] = big.NewInt(v)
		}
	case 1:
		desc = "geometric"
		v := big.NewInt(int64(1 + rng.Intn(5)))
		for i := range ps {
			ps[i] = new(big.Int).Set(v)
			v = new(big.Int).Mul(v, big.NewInt(2))
		}
	case 2:
		desc = "whale-under-third"
		rest := int64(0)
		for i := 1; i < n; i++ {
			ps[i] = big.NewInt(int64(10 + rng.Intn(90)))
			rest += ps[i].Int64()
		}
		// whale w with w/(w+rest) just under 1/3: w < rest/2
		w := rest/2 - int64(rng.Intn(3))
		if w < 1 {
			w = 1
		}
		ps[0] = big.NewInt(w)
	case 3:
		desc = "whale-under-two-thirds"
		rest := int64(0)
		for i := 1; i < n; i++ {
			ps[i] = big.NewInt(int64(10 + rng.Intn(90)))
			rest += ps[i].Int64()
		}
		w := 2*rest - int64(1+rng.Intn(3))
		if w < 1 {
			w = 1
		}
		ps[0] = big.NewInt(w)
	case 4:
		desc = "dust"
		for i := range ps {
			if i < (n+1)/2 {
				ps[i] = new(big.Int).Lsh(big.NewInt(int64(1+rng.Intn(9))), 40)
			} else {
				ps[i] = big.NewInt(int64(1 + rng.Intn(3))) // scaled power 0
			}
		}
	case 5:
		desc = "bigrand"
		for i := range ps {
			b := new(big.Int).Lsh(big.NewInt(1), uint(1+rng.Intn(200)))
			ps[i] = new(big.Int).Add(new(big.Int).Rand(rng, b), big.NewInt(1))
		}
	default:
		desc = "smallrand"
		for i := range ps {
			ps[i] = big.NewInt(int64(1 + rng.Intn(20)))
		}
	}
	rng.Shuffle(n, func(i, j int) { ps[i], ps[j] = ps[j], ps[i] })
	return ps, desc
}

// GenScenario derives a complete scenario from a seed.
//
// class: "async" (Byzantine-fed, any schedule, GST optional), "gst" (C06
// premise), "syncunanimous" (C02 second clause), "honest" (no faults).
func GenScenario(seed int64, class string, thorough bool) *Scenario {
	rng := rand.New(rand.NewSource(seed))
	sc := &Scenario{Seed: seed, Class: class}
	maxN := 7
	if thorough {
		maxN = 12
		if rng.Intn(40) == 0 {
			maxN = 25
		}
	}
	n := 1 + rng.Intn(maxN)
	if n < 3 && rng.Intn(4) != 0 {
		n = 3 + rng.Intn(maxN-2)
	}
	powers, desc := genPowers(rng, n)
	n = len(powers)
	sc.PowerDesc = desc
	sc.Instances = 1 + rng.Intn(2)
	if thorough && rng.Intn(3) == 0 {
		sc.Instances = 3
	}
	sc.Members = make([]Member, n)
	for i := range sc.Members {
		sc.Members[i] = Member{ID: gpbft.ActorID(1000 + i*7 + rng.Intn(7)), Key: vsig.PubKey(uint32(seed), uint64(i))}
	}
	sc.Powers = make([][]*big.Int, sc.Instances)
	sc.Powers[0] = powers
	for k := 1; k < sc.Instances; k++ {
		sc.Powers[k] = powers
		if rng.Intn(5) < 2 {
			np := make([]*big.Int, n)
			for i, p := range powers {
				f := int64(50 + rng.Intn(150))
				x := new(big.Int).Mul(p, big.NewInt(f))
				x.Div(x, big.NewInt(100))
				if x.Sign() <= 0 {
					x = big.NewInt(1)
				}
				np[i] = x
			}
			sc.Powers[k] = np
		}
	}
	// choose the faulty set under the budget 3f < T for every instance table.
	budgetOK := func(faulty map[int]bool) bool {
		for k := 0; k < sc.Instances; k++ {
			s, T := ScaledOf(sc.Powers[k])
			var f int64
			for i := range s {
				if faulty[i] {
					f += s[i]
				}
			}
			if 3*f >= T {
				return false
			}
		}
		return true
	}
	honestQuorumOK := func(faulty map[int]bool) bool {
		for k := 0; k < sc.Instances; k++ {
			s, T := ScaledOf(sc.Powers[k])
			var h int64
			for i := range s {
				if !faulty[i] {
					h += s[i]
				}
			}
			if 3*h < 2*T {
				return false
			}
		}
		return true
	}
	faulty := map[int]bool{}
	bucket := rng.Intn(4) // 0 none, 1 small, 2 quarter, 3 max
	if class == "honest" {
		bucket = 0
	}
	if class == "async" && bucket == 0 && rng.Intn(4) != 0 {
		bucket = 1 + rng.Intn(3)
	}
	if class == "gst" && rng.Intn(2) == 0 {
		bucket = 0
	}
	s0, T0s := ScaledOf(sc.Powers[0])
	order := rng.Perm(n)
	if bucket == 3 {
		// try big ones first to approach the exact boundary
		for a := 0; a < n; a++ {
			for b := a + 1; b < n; b++ {
				if s0[order[b]] > s0[order[a]] {
					order[a], order[b] = order[b], order[a]
				}
			}
		}
	}
	target := map[int]int64{0: 0, 1: T0s / 10, 2: T0s / 4, 3: T0s}[bucket]
	var fsum int64
	for _, i := range order {
		if bucket == 0 {
			break
		}
		if fsum >= target && bucket != 3 {
			break
		}
		faulty[i] = true
		ok := budgetOK(faulty)
		if ok && (class == "gst" || class == "syncunanimous") {
			ok = honestQuorumOK(faulty)
		}
		if !ok {
			delete(faulty, i)
			continue
		}
		fsum += s0[i]
	}
	if len(faulty) == n { // keep at least one honest member
		delete(faulty, order[0])
	}
	for i := range sc.Members {
		if !faulty[i] {
			sc.Members[i].Kind = Honest
			continue
		}
		switch class {
		case "syncunanimous":
			sc.Members[i].Kind = Silent
		default:
			switch r := rng.Intn(10); {
			case r < 7:
				sc.Members[i].Kind = Byz
			case r < 9:
				sc.Members[i].Kind = Shadow
			default:
				sc.Members[i].Kind = Silent
			}
		}
	}
	boundary := false
	if desc == "boundary-thirds" && class == "async" {
		// directed split at the exact quorum boundary: group 2 is Byzantine, groups 0 and 1 are the two honest camps
		f2 := map[int]bool{}
		for i := range sc.Members {
			if i%3 == 2 {
				f2[i] = true
			}
		}
		if budgetOK(f2) {
			boundary = true
			for i := range sc.Members {
				if f2[i] {
					sc.Members[i].Kind = Byz
				} else {
					sc.Members[i].Kind = Honest
				}
			}
		}
	}
	d := []time.Duration{500 * time.Millisecond, time.Second, 3 * time.Second}[rng.Intn(3)]
	sc.Opts = Opts{
		Delta:            d,
		BackOff:          []float64{1.0, 1.3, 2.0}[rng.Intn(3)],
		QualityMulti:     []float64{1.0, 0.5, 2.0}[rng.Intn(3)],
		Lookahead:        uint64(rng.Intn(6)),
		RebroadcastAfter: uint64(rng.Intn(4)),
		RebroadcastBase:  d * time.Duration(1+rng.Intn(3)),
	}
	if class == "gst" && sc.Opts.BackOff == 1.0 {
		// C06 is not quantified over option values. With a back-off exponent of exactly 1 the step
		// timeouts stay at 2*delta for ever, which is no more than start skew (<= delta) plus latency
		// (<= delta): when every honest member is needed for the quorum one late PREPARE per round
		// keeps the instance going round after round (seen: thorough seed 1 cases 7764 and 9623,
		// 41 rounds after stabilisation on the unchanged tree). Termination needs growing timeouts.
		sc.Opts.BackOff = 1.15
	}
	sc.Forks = rng.Intn(4)
	sc.MaxLen = []int{1, 3, 6, 12}[rng.Intn(4)]
	// inputs up to the protocol maximum (128 tipsets incl. the base): the lengths around the
	// default proposal length (100) and the maximum are drawn preferentially in planInstance
	if rng.Intn(30) == 0 || (thorough && rng.Intn(20) == 0) {
		sc.MaxLen = 127
	}
	sc.StartSkew = make([]time.Duration, n)
	switch rng.Intn(3) {
	case 1:
		for i := range sc.StartSkew {
			sc.StartSkew[i] = time.Duration(rng.Int63n(int64(4 * d)))
		}
	case 2:
		sc.StartSkew[rng.Intn(n)] = 20 * d
	}
	sc.GroupA = map[gpbft.ActorID]bool{}
	for i := range sc.Members {
		if rng.Intn(2) == 0 {
			sc.GroupA[sc.Members[i].ID] = true
		}
	}
	sc.HealAt = time.Duration(5+rng.Intn(40)) * d
	sc.Sched = SchedClass(rng.Intn(6))
	sc.GST = -1
	sc.MaxEvents = 150_000
	switch class {
	case "async", "honest":
		if rng.Intn(2) == 0 {
			sc.GST = time.Duration(rng.Intn(60)) * d
		}
		if rng.Intn(3) == 0 {
			sc.DropProb = float64(rng.Intn(25)) / 100
		}
		if rng.Intn(3) == 0 {
			sc.DupProb = float64(rng.Intn(30)) / 100
		}
		if rng.Intn(2) == 0 {
			sc.AlarmJit = d / 2
		}
	case "gst":
		sc.GST = time.Duration(rng.Intn(50)) * d / 2
		if rng.Intn(3) == 0 {
			sc.DupProb = float64(rng.Intn(30)) / 100
		}
		if rng.Intn(3) == 0 {
			sc.DropProb = float64(rng.Intn(25)) / 100 // applies only to copies from/to faulty members
		}
		if rng.Intn(2) == 0 {
			sc.AlarmJit = d / 2
		}
		sc.MaxEvents = 500_000
	case "syncunanimous":
		sc.Sched = SchedSync
		sc.GST = 0
		sc.Unanimous = true
		for i := range sc.StartSkew {
			sc.StartSkew[i] = 0
		}
	}
	if sc.MaxLen == 127 {
		// maximum-length inputs make every event (validation, chain keys, shadow tallies) about
		// two orders of magnitude dearer: bound the execution; runs that hit the cap undecided are
		// shorter observations (safety monitors) or counted as inconclusive executions (C06)
		sc.MaxEvents = min(sc.MaxEvents/25, 15_000)
	}
	sc.Strategy = genStrategy(rng, sc)
	if boundary {
		sc.SplitInputs = true
		if sc.Forks == 0 {
			sc.Forks = 1
		}
		for i := range sc.Members {
			delete(sc.GroupA, sc.Members[i].ID)
			if i%3 == 0 {
				sc.GroupA[sc.Members[i].ID] = true
			}
		}
		sc.Strategy.Equivocate, sc.Strategy.Split, sc.Strategy.Forge, sc.Strategy.ActProb = true, true, true, 1.0
		sc.Strategy.FastLinks = true
		sc.Strategy.Disciplined = true
		sc.Strategy.Impersonate = false
		sc.Strategy.Misplace = false
		if rng.Intn(2) == 0 {
			sc.Sched = SchedPartition
			sc.HealAt = time.Duration(100+rng.Intn(200)) * d
		}
		sc.DropProb = 0
	}
	return sc
}

func (sc *Scenario) Describe() map[string]any {
	kinds := []string{}
	for _, m := range sc.Members {
		kinds = append(kinds, m.Kind.String())
	}
	s, T := ScaledOf(sc.Powers[0])
	return map[string]any{
		"seed": sc.Seed, "class": sc.Class, "members": kinds, "scaled_power_inst0": s, "scaled_total": T,
		"power_shape": sc.PowerDesc, "instances": sc.Instances, "sched": sc.Sched.String(),
		"gst": fmt.Sprint(sc.GST), "drop": sc.DropProb, "dup": sc.DupProb, "forks": sc.Forks, "maxlen": sc.MaxLen,
		"opts": fmt.Sprintf("%+v", sc.Opts), "strategy": sc.Strategy.String(),
	}
}
