package vworld

import (
	"fmt"
	"os"
	"runtime"
	"strings"
	"sync"
	"testing"

	"github.com/filecoin-project/go-f3/gpbft"
	"github.com/filecoin-project/go-f3/verifh/vkit"
)

// soloJudged: the sub-monitors of C07 that make sense for a single participant facing a virtual
// network. The shadow-tally monitors (e)-(h) and the C01/C02/C03/C06 monitors presuppose a network of
// honest peers and are switched off.
func soloJudged(sig string) bool {
	return strings.HasPrefix(sig, "C07(a)") || strings.HasPrefix(sig, "C07(b)") ||
		strings.HasPrefix(sig, "C07(c)") || strings.HasPrefix(sig, "C07(d)") ||
		// (h) needs only P's input and the proofs delivered to P, both of which exist here
		strings.HasPrefix(sig, "C07(h)")
}

// soloErrNote: the innermost message of the reported error (first line, last ": "-separated part,
// digits blanked), so that different internal errors get different signatures.
func soloErrNote(detail map[string]any) string {
	e, _ := detail["error"].(string)
	if e == "" {
		return ""
	}
	if i := strings.IndexByte(e, '\n'); i >= 0 {
		e = e[:i]
	}
	if i := strings.LastIndex(e, ": "); i >= 0 {
		e = e[i+2:]
	}
	b := []byte(trunc(e, 80))
	for i, c := range b {
		if c >= '0' && c <= '9' {
			b[i] = '#'
		}
	}
	return " [" + string(b) + "]"
}

// RunSolo is the body of TestSolo of package c07 (C07 part "solo").
func RunSolo(t *testing.T) {
	run := vkit.New("C07", "solo", "exploration")
	n := run.N(1500, 150000)
	run.SetRule("each evaluation is one seeded execution of ONE real gpbft.Participant (member 0 of a committee of 4-8) against a virtual network that holds the keys of all other members and walks, relative to the participant's current (instance, round, step), through round plans (QUALITY majorities, PREPAREs supporting / split / for another value, COMMIT quorums for bottom or a value, justifications delivered inside next-round messages, PREPARE-justified CONVERGEs for non-candidate values, round skips, DECIDE quorums at random points, late QUALITY, next-instance messages) plus unbiased noise; distinct = distinct delivery/timer interleavings (trace hash); non-trivial = the participant emitted at least 4 messages and accepted at least one injected message")
	run.Assume("soundness of the virtual network: a set B of virtual members with scaled power strictly below one third may sign anything; every other virtual member signs at most one value per (instance, round, step), enforced by a signature ledger at the two places where signatures are produced (individual votes, aggregates); the participant's own signature enters an aggregate only for votes it really emitted",
		"judged: C07(a) one message per (instance, round, step), (b) every emission valid for a fresh validator, (c) progress monotone, (d) no internal error / panic from ReceiveMessage, ReceiveAlarm, StartInstanceAt, ValidateMessage (late-binding validation errors of ReceiveMessage are legitimate); the shadow-tally monitors (e)-(h) are not applied in this part",
		"signatures are the harness's deterministic stand-in scheme (vsig)",
		"all randomness derives from VERIF_SEED and the case index; go-f3 map-iteration nondeterminism is tolerated")
	var mu sync.Mutex
	agg := map[string]int64{}
	body := func(i int) {
		seed := run.SubSeed(int64(i))
		sc := GenSoloScenario(seed, run.Thorough())
		mon := NewMonitor()
		mon.SigFilter = soloJudged
		w, err := NewWorld(sc, mon)
		if err != nil {
			run.Count("scenario_build_errors", 1)
			return
		}
		run.Breadcrumb(fmt.Sprintf("case=%d seed=%d class=solo", i, seed))
		w.Run()
		run.Eval(1)
		st := w.Adv.Solo()
		accepted := 0
		for _, x := range st.Accepted {
			accepted += x
		}
		if mon.Emits >= 4 && accepted > 0 {
			run.DistinctHash(w.TraceHash() ^ uint64(seed)*0x9E3779B97F4A7C15>>1)
		}
		mu.Lock()
		agg["executions"]++
		agg["events"] += int64(w.Events)
		agg["participant_emissions"] += int64(mon.Emits)
		agg["decisions"] += int64(mon.Decisions)
		agg["alarms_fired"] += int64(mon.Alarms)
		agg["ticks_of_the_virtual_network"] += int64(st.Ticks)
		for ph := gpbft.QUALITY_PHASE; ph <= gpbft.DECIDE_PHASE; ph++ {
			agg["injected_"+ph.String()] += int64(st.Injected[ph])
			agg["accepted_"+ph.String()] += int64(st.Accepted[ph])
			agg["rejected_"+ph.String()] += int64(st.Rejected[ph])
		}
		for k, v := range st.Justs {
			agg["justifications_"+k] += int64(v)
		}
		agg["ledger_refusals"] += int64(st.Refusals)
		agg["equivocations_by_members_of_B"] += int64(st.Equivocations)
		agg["sways_observed"] += int64(st.Sways)
		agg["skips_observed"] += int64(st.Skips)
		agg["skips_over_more_than_one_round"] += int64(st.FarSkips)
		agg["next_instance_messages_injected"] += int64(st.NextInstance)
		agg["misplaced_justification_messages_injected"] += int64(st.Misplaced)
		if st.Sways > 0 {
			agg["executions_with_sway"]++
		}
		if st.Skips > 0 {
			agg["executions_with_skip"]++
		}
		if st.PNeeded {
			agg["executions_where_quorums_need_the_participant"]++
		}
		if len(sc.SoloFaulty) > 0 {
			agg["executions_with_equivocating_members"]++
		}
		if strings.Contains(sc.PowerDesc, "zero-member") {
			agg["executions_with_zero_power_member"]++
		}
		mr := st.MaxRound
		if mr >= 2 {
			agg["executions_reaching_round_2_or_more"]++
		}
		if mr > 6 {
			mr = 7
		}
		agg[fmt.Sprintf("max_round_%d", mr)]++
		for k, v := range st.Stories {
			agg["instances_story_"+k] += int64(v)
		}
		for k, v := range mon.RejectClasses {
			agg["reject_"+k] += int64(v)
		}
		for k, v := range mon.Checks {
			if strings.HasPrefix(k, "c07a") || strings.HasPrefix(k, "c07b") || strings.HasPrefix(k, "c07c") {
				agg["check_"+k] += int64(v)
			}
		}
		for k, v := range mon.DecideRounds {
			if k > 6 {
				k = 7
			}
			agg[fmt.Sprintf("decided_in_round_%d", k)] += int64(v)
		}
		agg["stop_"+w.StopReason()]++
		mu.Unlock()
		if i < 3 {
			d := sc.Describe()
			d["case"] = i
			d["events"] = w.Events
			d["decisions"] = mon.Decisions
			d["stop"] = w.StopReason()
			d["max_round"] = st.MaxRound
			d["sways"] = st.Sways
			d["skips"] = st.Skips
			run.Sample(d)
		}
		for _, f := range mon.Findings {
			if f.Prop != "C07" || !soloJudged(f.Sig) {
				continue
			}
			wit := map[string]any{"case": i, "scenario_seed": seed, "class": "solo", "scenario": sc.Describe(), "detail": f.Detail, "trace_tail": f.Tail}
			run.Violation(f.Sig+soloErrNote(f.Detail), wit)
		}
	}
	if run.Case >= 0 {
		body(int(run.Case))
	} else {
		vkit.Parallel(n, runtime.GOMAXPROCS(0), body)
	}
	for k, v := range agg {
		run.Count(k, v)
	}
	// floors: a run that observed too little is inconclusive, not a pass
	if run.Case < 0 {
		ev := int64(n)
		var acc int64
		for ph := gpbft.QUALITY_PHASE; ph <= gpbft.DECIDE_PHASE; ph++ {
			acc += agg["accepted_"+ph.String()]
		}
		if agg["executions_reaching_round_2_or_more"]*5 < ev || agg["sways_observed"] == 0 || agg["skips_observed"] == 0 ||
			agg["decisions"]*4 < ev || acc < 10*ev {
			run.Inconclusive("too-few-events")
		}
	}
	rc := run.Finish()
	if rc != 0 {
		t.Fail()
	}
	if rc == 2 {
		os.Exit(2)
	}
}
