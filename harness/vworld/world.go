// Package vworld is engine E1 of the /verif harness: N real gpbft.Participants
// plus harness-controlled Byzantine members on a virtual-time, adversarially
// scheduled network. The harness *is* the gpbft.Host of every participant, so
// it observes every input, emission, delivery, timer and decision.
package vworld

import (
	"container/heap"
	"context"
	"errors"
	"fmt"
	"math"
	"math/big"
	"math/rand"
	"time"

	"github.com/filecoin-project/go-f3/certs"
	"github.com/filecoin-project/go-f3/gpbft"
	"github.com/filecoin-project/go-f3/verifh/vsig"
	"github.com/ipfs/go-cid"
)

const NetworkName = gpbft.NetworkName("verif-net")

type Kind int

const (
	Honest Kind = iota
	Byz         // keys owned by the adversary, no real participant
	Silent      // crashed from the start: never sends, never receives
	Shadow      // real participant run by the adversary: output delivered selectively
)

func (k Kind) String() string { return [...]string{"honest", "byz", "silent", "shadow"}[k] }

type Member struct {
	ID   gpbft.ActorID
	Kind Kind
	Key  gpbft.PubKey
}

// Table is the committee of one instance.
type Table struct {
	PT      *gpbft.PowerTable
	Entries gpbft.PowerEntries
	CID     cid.Cid
	Beacon  []byte
	Agg     gpbft.Aggregate
}

// IndexOf returns the position of member id in the table's entry order (-1 if absent).
func (t *Table) IndexOf(id gpbft.ActorID) int {
	for i, e := range t.Entries {
		if e.ID == id {
			return i
		}
	}
	return -1
}

type SchedClass int

const (
	SchedSync SchedClass = iota
	SchedLognormal
	SchedHeavy
	SchedPartition
	SchedTargeted
	SchedBurst
)

func (s SchedClass) String() string {
	return [...]string{"sync", "lognormal", "heavy", "partition", "targeted", "burst"}[s]
}

type Opts struct {
	Delta            time.Duration
	BackOff          float64
	QualityMulti     float64
	Lookahead        uint64
	RebroadcastAfter uint64
	RebroadcastBase  time.Duration
}

type Scenario struct {
	Seed      int64
	Class     string // async | gst | syncunanimous
	Members   []Member
	Powers    [][]*big.Int // per instance, per member index
	Instances int
	Opts      Opts
	Sched     SchedClass
	GST       time.Duration // offset from T0; <0 = never
	DropProb  float64
	DupProb   float64
	AlarmJit  time.Duration
	StartSkew []time.Duration // per member
	GroupA    map[gpbft.ActorID]bool
	HealAt    time.Duration
	Forks     int
	MaxLen    int
	Unanimous bool
	// SplitInputs: members of group A propose the main chain, everybody else the first fork.
	SplitInputs bool
	MaxEvents   int
	Strategy    Strategy
	PowerDesc   string
	// BLS: run this world with go-f3's production BLS code (blssig) instead of the stand-in scheme.
	BLS bool
	// SoloFaulty (solo scenarios only): member indices of the virtual members that may equivocate;
	// their scaled power is strictly below a third in every table.
	SoloFaulty map[int]bool
}

// Sig returns the signature scheme of the scenario.
func (sc *Scenario) Sig() vsig.Scheme {
	if sc.BLS {
		return vsig.BLS()
	}
	return vsig.StandIn{}
}

// UseBLS switches the scenario to production BLS and re-keys its members from the harness's key pool.
func (sc *Scenario) UseBLS() {
	sc.BLS = true
	for i := range sc.Members {
		sc.Members[i].Key = vsig.BLS().PubKey(0, uint64(i))
	}
}

type evKind int

const (
	evDeliver evKind = iota
	evAlarm
	evByzTick
	evGST
)

type event struct {
	at   time.Time
	tie  uint64
	seq  uint64
	kind evKind
	dst  int // member index
	msg  *gpbft.GMessage
	gen  uint64 // alarm generation
	from int    // member index of sender (-1 adversary-injected)
	byz  bool   // message was injected by the adversary
}

type evHeap []*event

func (h evHeap) Len() int { return len(h) }
func (h evHeap) Less(i, j int) bool {
	if !h[i].at.Equal(h[j].at) {
		return h[i].at.Before(h[j].at)
	}
	if h[i].tie != h[j].tie {
		return h[i].tie < h[j].tie
	}
	return h[i].seq < h[j].seq
}
func (h evHeap) Swap(i, j int) { h[i], h[j] = h[j], h[i] }
func (h *evHeap) Push(x any)   { *h = append(*h, x.(*event)) }
func (h *evHeap) Pop() any {
	old := *h
	n := len(old)
	x := old[n-1]
	*h = old[:n-1]
	return x
}

var T0 = time.Unix(1_700_000_000, 0).UTC()

// World is one execution.
type World struct {
	Sc   *Scenario
	rng  *rand.Rand
	now  time.Time
	q    evHeap
	seq  uint64
	ctx  context.Context
	Mon  *Monitor
	Adv  *Adversary
	Part []*host // per member index (nil for Byz/Silent)

	tables   []*Table                 // per instance
	inputs   []map[int]*gpbft.ECChain // per instance: member index -> planned input
	bases    []*gpbft.TipSet          // per instance base (decided head of previous)
	mainTips [][]*gpbft.TipSet        // per instance: the tree's main chain (for samples)
	idx      map[gpbft.ActorID]int

	Events     int
	Delivered  int
	gstReached bool
	traceHash  uint64
	stopped    bool
	stopWhy    string
}

type sentKey struct {
	inst, round uint64
	phase       gpbft.Phase
}

type host struct {
	w        *World
	i        int
	m        Member
	p        *gpbft.Participant
	signer   gpbft.Signer
	alarmGen uint64
	alarmSet bool
	sent     map[sentKey]*gpbft.GMessage
	decided  map[uint64]*gpbft.Justification
	started  map[uint64]bool
	done     bool
	inCall   string
}

func (w *World) Now() time.Time { return w.now }

func (w *World) push(e *event) {
	w.seq++
	e.seq = w.seq
	e.tie = w.rng.Uint64()
	heap.Push(&w.q, e)
}

func (w *World) delta() time.Duration { return w.Sc.Opts.Delta }

// NewWorld builds the participants for a scenario.
func NewWorld(sc *Scenario, mon *Monitor) (*World, error) {
	w := &World{Sc: sc, rng: rand.New(rand.NewSource(sc.Seed ^ 0x5eed)), now: T0, ctx: context.Background(), Mon: mon,
		idx: map[gpbft.ActorID]int{}}
	for i, m := range sc.Members {
		w.idx[m.ID] = i
	}
	w.tables = make([]*Table, sc.Instances)
	for k := 0; k < sc.Instances; k++ {
		t, err := w.makeTable(k)
		if err != nil {
			return nil, err
		}
		w.tables[k] = t
	}
	w.inputs = make([]map[int]*gpbft.ECChain, sc.Instances)
	w.bases = make([]*gpbft.TipSet, sc.Instances)
	w.mainTips = make([][]*gpbft.TipSet, sc.Instances)
	w.bases[0] = &gpbft.TipSet{Epoch: 10, Key: w.randKey(), PowerTable: w.tables[0].CID}
	w.Part = make([]*host, len(sc.Members))
	for i, m := range sc.Members {
		if m.Kind == Byz || m.Kind == Silent {
			continue
		}
		h := &host{w: w, i: i, m: m, signer: sc.Sig().NewSigner(m.Key), sent: map[sentKey]*gpbft.GMessage{},
			decided: map[uint64]*gpbft.Justification{}, started: map[uint64]bool{}}
		o := sc.Opts
		p, err := gpbft.NewParticipant(h,
			gpbft.WithDelta(o.Delta),
			gpbft.WithDeltaBackOffExponent(o.BackOff),
			gpbft.WithQualityDeltaMultiplier(o.QualityMulti),
			gpbft.WithMaxLookaheadRounds(o.Lookahead),
			gpbft.WithRebroadcastImmediatelyAfterRound(o.RebroadcastAfter),
			gpbft.WithRebroadcastBackoff(1.3, 0, o.RebroadcastBase, 10*o.RebroadcastBase),
			gpbft.WithCommitteeLookback(uint64(sc.Instances)+2),
		)
		if err != nil {
			return nil, err
		}
		h.p = p
		w.Part[i] = h
	}
	w.Adv = newAdversary(w)
	if mon != nil {
		mon.attach(w)
	}
	return w, nil
}

func (w *World) randKey() []byte {
	b := make([]byte, 32+w.rng.Intn(7))
	w.rng.Read(b)
	return b
}

func (w *World) makeTable(k int) (*Table, error) {
	pt := gpbft.NewPowerTable()
	var es []gpbft.PowerEntry
	for i, m := range w.Sc.Members {
		es = append(es, gpbft.PowerEntry{ID: m.ID, Power: gpbft.StoragePower{Int: new(big.Int).Set(w.Sc.Powers[k][i])}, PubKey: m.Key})
	}
	if err := pt.Add(es...); err != nil {
		return nil, err
	}
	c, err := certs.MakePowerTableCID(pt.Entries)
	if err != nil {
		return nil, err
	}
	agg, err := w.Sc.Sig().Aggregate(pt.Entries.PublicKeys())
	if err != nil {
		return nil, err
	}
	beacon := []byte(fmt.Sprintf("beacon-%d-%d", w.Sc.Seed, k))
	return &Table{PT: pt, Entries: pt.Entries, CID: c, Beacon: beacon, Agg: agg}, nil
}

// Table returns the committee of instance k (nil when out of scenario).
func (w *World) Table(k uint64) *Table {
	if k >= uint64(len(w.tables)) {
		return nil
	}
	return w.tables[k]
}

// SuppData for instance k commits to the table of instance k+1 (or the same
// table after the last one).
func (w *World) SuppData(k uint64) gpbft.SupplementalData {
	next := k + 1
	if next >= uint64(len(w.tables)) {
		next = uint64(len(w.tables)) - 1
	}
	return gpbft.SupplementalData{PowerTable: w.tables[next].CID}
}

func (w *World) NextEntries(k uint64) gpbft.PowerEntries {
	next := k + 1
	if next >= uint64(len(w.tables)) {
		next = uint64(len(w.tables)) - 1
	}
	return w.tables[next].Entries
}

// planInstance generates the input tree of instance k once its base is known.
func (w *World) planInstance(k int) {
	if w.inputs[k] != nil {
		return
	}
	sc := w.Sc
	base := w.bases[k]
	rng := rand.New(rand.NewSource(sc.Seed*1000003 + int64(k)*7919))
	mk := func(epoch int64) *gpbft.TipSet {
		key := make([]byte, 32+rng.Intn(7))
		rng.Read(key)
		return &gpbft.TipSet{Epoch: epoch, Key: key, PowerTable: w.tables[k].CID}
	}
	maxLen := sc.MaxLen
	if maxLen < 1 {
		maxLen = 1
	}
	mainLen := 1 + rng.Intn(maxLen)
	if maxLen == 127 && rng.Intn(4) != 0 {
		mainLen = []int{99, 100, 101, 120, 127, 127}[rng.Intn(6)]
	}
	main := make([]*gpbft.TipSet, 0, mainLen)
	ep := base.Epoch
	for i := 0; i < mainLen; i++ {
		ep += 1 + int64(rng.Intn(3)/2)
		main = append(main, mk(ep))
	}
	w.mainTips[k] = main
	// fork variants: variant 0 = main; variant j forks after depth d_j with its own tail.
	type variant struct{ tips []*gpbft.TipSet }
	vars := []variant{{main}}
	for f := 0; f < sc.Forks; f++ {
		d := rng.Intn(mainLen + 1)
		tail := rng.Intn(maxLen-min(d, maxLen-1)) + 0
		if sc.SplitInputs && f == 0 {
			d = rng.Intn(mainLen)
			if tail == 0 {
				tail = 1
			}
		}
		if d+tail > gpbft.ChainMaxLen-1 {
			tail = gpbft.ChainMaxLen - 1 - d // the base takes one of the 128 slots
		}
		tips := append([]*gpbft.TipSet{}, main[:d]...)
		e := base.Epoch
		if d > 0 {
			e = main[d-1].Epoch
		}
		for i := 0; i < tail; i++ {
			e += 1 + int64(rng.Intn(3)/2)
			tips = append(tips, mk(e))
		}
		vars = append(vars, variant{tips})
	}
	w.inputs[k] = map[int]*gpbft.ECChain{}
	for i, m := range sc.Members {
		if m.Kind == Silent {
			continue
		}
		v := vars[0]
		cut := len(v.tips)
		if sc.SplitInputs {
			if !sc.GroupA[m.ID] && len(vars) > 1 {
				v = vars[1]
			}
			cut = len(v.tips)
		} else if !sc.Unanimous {
			v = vars[rng.Intn(len(vars))]
			cut = len(v.tips)
			switch rng.Intn(4) {
			case 0:
				cut = rng.Intn(len(v.tips) + 1) // a prefix (possibly base only)
			}
		}
		ch, err := gpbft.NewChain(base, v.tips[:cut]...)
		if err != nil {
			panic(fmt.Sprintf("scenario generator produced invalid chain: %v", err))
		}
		w.inputs[k][i] = ch
	}
}

// Input returns the planned input of member i for instance k (nil if unknown yet).
func (w *World) Input(k uint64, i int) *gpbft.ECChain {
	if k >= uint64(len(w.inputs)) || w.inputs[k] == nil {
		return nil
	}
	return w.inputs[k][i]
}

// ---------------- gpbft.Host implementation ----------------

func (h *host) GetProposal(_ context.Context, instance uint64) (*gpbft.SupplementalData, *gpbft.ECChain, error) {
	w := h.w
	if instance >= uint64(w.Sc.Instances) {
		return nil, nil, errors.New("end of scenario")
	}
	if w.bases[instance] == nil {
		return nil, nil, fmt.Errorf("base of instance %d unknown", instance)
	}
	w.planInstance(int(instance))
	in := w.inputs[instance][h.i]
	sd := w.SuppData(instance)
	h.started[instance] = true
	if w.Mon != nil {
		w.Mon.onInput(h, instance, in)
	}
	if in.Len() == gpbft.ChainMaxLen && (uint64(w.Sc.Seed)+uint64(h.i))%2 == 0 {
		// EC is ahead by more than the protocol maximum: the host hands over 129+ tipsets and the
		// participant has to cut the proposal to the first 128 (which is the input the monitors know)
		ts := append([]*gpbft.TipSet{}, in.TipSets...)
		e := ts[len(ts)-1].Epoch
		for j := 1 + int(uint64(w.Sc.Seed>>4)%40); j > 0; j-- {
			e++
			ts = append(ts, &gpbft.TipSet{Epoch: e, Key: []byte(fmt.Sprintf("beyond-the-maximum-%d-%d", instance, j)), PowerTable: ts[0].PowerTable})
		}
		if w.Mon != nil {
			w.Mon.Checks["proposals-longer-than-the-maximum-handed-over"]++
		}
		return &sd, &gpbft.ECChain{TipSets: ts}, nil
	}
	return &sd, in, nil
}

func (h *host) GetCommittee(_ context.Context, instance uint64) (*gpbft.Committee, error) {
	t := h.w.Table(instance)
	if t == nil {
		return nil, fmt.Errorf("no committee for instance %d", instance)
	}
	return &gpbft.Committee{PowerTable: t.PT, Beacon: t.Beacon, AggregateVerifier: t.Agg}, nil
}

func (h *host) NetworkName() gpbft.NetworkName { return NetworkName }

func (h *host) RequestBroadcast(mb *gpbft.MessageBuilder) error {
	msg, err := mb.Build(h.w.ctx, h.signer, h.m.ID)
	if err != nil {
		if errors.Is(err, gpbft.ErrNoPower) {
			return nil // zero-power observer: production host ignores this as well
		}
		return err
	}
	k := sentKey{msg.Vote.Instance, msg.Vote.Round, msg.Vote.Phase}
	first := h.sent[k] == nil
	if first {
		h.sent[k] = msg
	}
	h.w.emit(h, msg, false, !first)
	return nil
}

func (h *host) RequestRebroadcast(instant gpbft.Instant) error {
	msg := h.sent[sentKey{instant.ID, instant.Round, instant.Phase}]
	if msg == nil {
		return nil
	}
	h.w.emit(h, msg, true, false)
	return nil
}

func (h *host) Time() time.Time { return h.w.now }

func (h *host) SetAlarm(at time.Time) {
	h.alarmGen++
	if at.IsZero() {
		h.alarmSet = false
		return
	}
	if h.done {
		return
	}
	h.alarmSet = true
	w := h.w
	fire := at
	if fire.Before(w.now) {
		fire = w.now
	}
	if !w.gstReached && w.Sc.AlarmJit > 0 {
		fire = fire.Add(time.Duration(w.rng.Int63n(int64(w.Sc.AlarmJit) + 1)))
	}
	w.push(&event{at: fire, kind: evAlarm, dst: h.i, gen: h.alarmGen})
}

func (h *host) Verify(pk gpbft.PubKey, msg, sig []byte) error {
	return h.w.Sc.Sig().Verify(pk, msg, sig)
}
func (h *host) Aggregate(keys []gpbft.PubKey) (gpbft.Aggregate, error) {
	return h.w.Sc.Sig().Aggregate(keys)
}

func (h *host) ReceiveDecision(_ context.Context, d *gpbft.Justification) (time.Time, error) {
	w := h.w
	inst := d.Vote.Instance
	h.decided[inst] = d
	if w.Mon != nil && h.m.Kind == Honest {
		w.Mon.onDecide(h, d)
	}
	if inst+1 < uint64(w.Sc.Instances) && w.bases[inst+1] == nil && !d.Vote.Value.IsZero() {
		w.bases[inst+1] = d.Vote.Value.Head()
	}
	if inst+1 >= uint64(w.Sc.Instances) {
		h.done = true
	}
	if w.Sc.Class == "syncunanimous" {
		// premise of C02's second clause: all honest participants start each instance together
		return T0.Add(time.Duration(inst+1) * 1000 * w.delta()), nil
	}
	return w.now.Add(time.Duration(w.rng.Int63n(int64(w.delta())/2 + 1))), nil
}

// ---------------- network ----------------

func (w *World) groupOf(i int) bool { return w.Sc.GroupA[w.Sc.Members[i].ID] }

// latency draws the delivery latency of one copy.
func (w *World) latency(from, to int) (time.Duration, bool) {
	sc := w.Sc
	d := sc.Opts.Delta
	u := func(max time.Duration) time.Duration {
		if max <= 0 {
			return 0
		}
		return time.Duration(w.rng.Int63n(int64(max))) + 1
	}
	if sc.Class == "syncunanimous" {
		return u(d - 1), false // strictly inside the synchrony bound
	}
	if w.gstReached {
		return u(d), false
	}
	honestPair := from >= 0 && sc.Members[from].Kind == Honest && sc.Members[to].Kind == Honest
	if sc.DropProb > 0 && (!honestPair || sc.Class != "gst") && w.rng.Float64() < sc.DropProb {
		return 0, true
	}
	var l time.Duration
	switch sc.Sched {
	case SchedSync:
		l = u(d)
	case SchedLognormal:
		l = time.Duration(float64(d) * 0.5 * mathExp(w.rng.NormFloat64()))
	case SchedHeavy:
		l = u(d)
		if w.rng.Intn(100) < 3 {
			l = u(100 * d)
		}
	case SchedPartition:
		l = u(d)
		if from >= 0 && w.groupOf(from) != w.groupOf(to) {
			heal := T0.Add(sc.HealAt)
			if w.now.Before(heal) {
				l = heal.Sub(w.now) + u(4*d)
			}
		}
	case SchedTargeted:
		// per-destination systematic delay: group A fast, group B slow
		if w.groupOf(to) {
			l = u(d / 2)
		} else {
			l = u(d) + time.Duration(w.rng.Intn(6))*d
		}
	case SchedBurst:
		// hold everything to the members outside group A for a while, release in random order
		if !w.groupOf(to) {
			slot := (w.now.Sub(T0)/(8*d) + 1) * (8 * d)
			l = T0.Add(slot).Sub(w.now) + u(d)
		} else {
			l = u(d)
		}
	}
	if l <= 0 {
		l = 1
	}
	return l, false
}

func mathExp(x float64) float64 {
	if x > 6 {
		x = 6
	}
	if x < -6 {
		x = -6
	}
	return math.Exp(x)
}

// schedule one copy of msg to member `to`.
func (w *World) send(from, to int, msg *gpbft.GMessage, byz bool, extra time.Duration) {
	m := w.Sc.Members[to]
	if m.Kind == Silent {
		return
	}
	l, drop := w.latency(from, to)
	if drop {
		if w.Mon != nil {
			w.Mon.onDrop(from, to, msg)
		}
		return
	}
	at := w.now.Add(l + extra)
	if w.Sc.GST >= 0 {
		gst := T0.Add(w.Sc.GST)
		ref := gst
		if w.now.After(gst) {
			ref = w.now
		}
		lim := ref.Add(w.delta())
		if at.After(lim) {
			at = ref.Add(time.Duration(w.rng.Int63n(int64(w.delta()))) + 1)
		}
	}
	w.push(&event{at: at, kind: evDeliver, dst: to, msg: msg, from: from, byz: byz})
	if !w.gstReached && w.Sc.DupProb > 0 && w.rng.Float64() < w.Sc.DupProb {
		w.push(&event{at: at.Add(time.Duration(w.rng.Int63n(int64(4*w.delta()) + 1))), kind: evDeliver, dst: to, msg: msg, from: from, byz: byz})
	}
}

// emit handles a broadcast request of a real participant.
func (w *World) emit(h *host, msg *gpbft.GMessage, rebroadcast bool, duplicateSlot bool) {
	if w.Mon != nil {
		w.Mon.onEmit(h, msg, rebroadcast, duplicateSlot)
	}
	if h.m.Kind == Shadow {
		w.Adv.onShadowEmit(h, msg, rebroadcast)
		return
	}
	w.Adv.observe(h.i, msg)
	for to := range w.Sc.Members {
		w.send(h.i, to, msg, false, 0)
	}
}

// Inject lets the adversary send msg to the given destinations after delay.
func (w *World) Inject(from int, msg *gpbft.GMessage, dests []int, delay time.Duration) {
	for _, to := range dests {
		k := w.Sc.Members[to].Kind
		if k == Silent || k == Byz {
			continue
		}
		if w.Sc.Strategy.FastLinks {
			// the adversary's own links are as fast as it likes: deliver after `delay` plus a tick
			w.push(&event{at: w.now.Add(delay + time.Millisecond), kind: evDeliver, dst: to, msg: msg, from: from, byz: true})
			continue
		}
		w.send(from, to, msg, true, delay)
	}
}

func (w *World) stop(why string) {
	if !w.stopped {
		w.stopped = true
		w.stopWhy = why
	}
}

// Run executes the scenario until every honest participant decided every
// instance, the queue drained, or the event cap was hit.
func (w *World) Run() {
	sc := w.Sc
	for i, h := range w.Part {
		if h == nil {
			continue
		}
		h.inCall = "start"
		err := h.p.StartInstanceAt(0, T0.Add(sc.StartSkew[i]))
		h.inCall = ""
		if w.Mon != nil {
			w.Mon.onAPIError(h, "StartInstanceAt", err)
			w.Mon.onProgress(h)
		}
	}
	if sc.GST >= 0 {
		w.push(&event{at: T0.Add(sc.GST), kind: evGST})
	}
	w.Adv.start()
	for w.q.Len() > 0 && !w.stopped {
		if w.Events >= sc.MaxEvents {
			w.stop("event-cap")
			break
		}
		e := heap.Pop(&w.q).(*event)
		if e.at.After(w.now) {
			w.now = e.at
		}
		w.Events++
		switch e.kind {
		case evGST:
			w.gstReached = true
			if w.Mon != nil {
				w.Mon.onGST()
			}
		case evByzTick:
			w.Adv.tick()
		case evAlarm:
			h := w.Part[e.dst]
			if h == nil || e.gen != h.alarmGen || !h.alarmSet {
				continue
			}
			h.alarmSet = false
			w.mix(uint64(e.dst)<<32 | 0xa1a4)
			h.inCall = "alarm"
			err := h.p.ReceiveAlarm(w.ctx)
			h.inCall = ""
			if w.Mon != nil {
				w.Mon.onAlarm(h, err)
				w.Mon.onProgress(h)
			}
		case evDeliver:
			h := w.Part[e.dst]
			if h == nil {
				continue
			}
			w.deliver(h, e)
		}
		if w.allDone() {
			w.stop("all-decided")
		} else if w.Mon != nil {
			w.Mon.checkStagnation()
		}
	}
	if !w.stopped {
		w.stop("quiescent")
	}
	if w.Mon != nil {
		w.Mon.onEnd()
	}
}

func (w *World) mix(x uint64) {
	w.traceHash = (w.traceHash ^ x) * 0x100000001b3
}

func (w *World) TraceHash() uint64  { return w.traceHash }
func (w *World) StopReason() string { return w.stopWhy }

func (w *World) allDone() bool {
	for _, h := range w.Part {
		if h == nil || h.m.Kind != Honest {
			continue
		}
		if !h.done {
			return false
		}
	}
	return true
}

func (w *World) deliver(h *host, e *event) {
	msg := e.msg
	w.Delivered++
	w.mix(uint64(e.dst)<<48 ^ uint64(msg.Sender)<<32 ^ msg.Vote.Instance<<24 ^ msg.Vote.Round<<8 ^ uint64(msg.Vote.Phase))
	before := h.p.Progress()
	vm, verr := h.p.ValidateMessage(w.ctx, msg)
	var rerr error
	if w.Mon != nil {
		w.Mon.preReceive(h, e, before, verr)
	}
	if verr == nil {
		h.inCall = "receive"
		rerr = h.p.ReceiveMessage(w.ctx, vm)
		h.inCall = ""
	}
	if w.Mon != nil {
		w.Mon.onDeliver(h, e, before, verr, rerr)
		w.Mon.onProgress(h)
	}
	if e.byz && verr == nil {
		w.Adv.accepted++
	} else if e.byz {
		w.Adv.rejected++
	}
	if e.byz && w.Adv.solo != nil {
		w.Adv.solo.verdict(msg, verr)
	}
}

// HonestIdx lists member indices of honest members.
func (w *World) HonestIdx() []int {
	var r []int
	for i, m := range w.Sc.Members {
		if m.Kind == Honest {
			r = append(r, i)
		}
	}
	return r
}
