package vworld

import (
	"bytes"
	"errors"
	"fmt"
	"math"
	"math/big"
	"os"
	"sort"
	"strconv"
	"time"

	"github.com/filecoin-project/go-f3/certs"
	"github.com/filecoin-project/go-f3/gpbft"
)

// Finding is one refuting observation made by a monitor.
type Finding struct {
	Prop   string
	Sig    string // canonical one-line description (matched against known findings)
	Detail map[string]any
	Tail   []string // event trace up to the moment of the finding
}

type rec struct {
	T       time.Duration
	Kind    string
	P       int
	Sender  gpbft.ActorID
	Inst    uint64
	Round   uint64
	Phase   gpbft.Phase
	Val     string
	Verdict string
}

type firstVote struct {
	chain  *gpbft.ECChain
	ticket gpbft.Ticket
	queued bool
}

type queuedKey struct {
	sender gpbft.ActorID
	round  uint64
	phase  gpbft.Phase
}

// per participant, per instance shadow state
type shadow struct {
	queuedSlots map[queuedKey]bool
	input       *gpbft.ECChain
	drainCall   uint64
	quality     map[gpbft.ActorID]firstVote
	prepare     map[uint64]map[gpbft.ActorID]firstVote
	converge    map[uint64]map[gpbft.ActorID]firstVote
	justified   map[gpbft.ECChainKey]bool
	quorumSeen  map[gpbft.ECChainKey]bool
	prepEmit    map[uint64]*gpbft.ECChain // PREPARE value emitted per round
	prepAt      map[uint64]time.Time
	votes       map[sentKey]map[gpbft.ActorID]gpbft.ECChainKey // for quorum-of-votes coverage (h)
}

type pstate struct {
	last     gpbft.Instant
	hasLast  bool
	emits    map[sentKey]int
	shadows  map[uint64]*shadow
	callSeq  uint64
	roundGST map[uint64]uint64
}

// Monitor holds all online monitors of one world.
type Monitor struct {
	w        *World
	Findings []Finding
	ring     []rec
	ringPos  int

	decisions map[uint64][]decRec
	ps        []*pstate
	observers map[uint64]*gpbft.Participant

	// counters
	Emits, Decisions, ByzTallied, DeliveredAccepted, DeliveredRejected int
	ValuesVoted                                                        map[uint64]map[gpbft.ECChainKey]bool
	MaxRound                                                           uint64
	C06Checked, C06Premise                                             bool
	gstRound                                                           map[uint64]uint64
	gstSeen, gstUndecided                                              bool
	byzEverSent                                                        bool
	ExtraRoundsMax                                                     int64
	lastChangeEv, alarmsSinceChange                                    int
	lastChangeAt                                                       time.Time
	lastConverge                                                       map[uint64]map[int]*gpbft.ECChain // instance -> honest member -> value of its latest CONVERGE
	Checks                                                             map[string]int
	RejectClasses                                                      map[string]int
	DecideRounds                                                       map[uint64]int
	// Alarms counts the timer deliveries to honest participants.
	Alarms int
	// SigFilter, when set, restricts the findings that are recorded to those whose signature it admits
	// (solo executions judge C07(a)-(d) only: the other monitors presuppose a network of honest peers).
	SigFilter func(sig string) bool
}

type decRec struct {
	member int
	chain  *gpbft.ECChain
}

func NewMonitor() *Monitor {
	return &Monitor{decisions: map[uint64][]decRec{}, observers: map[uint64]*gpbft.Participant{},
		ValuesVoted: map[uint64]map[gpbft.ECChainKey]bool{}, gstRound: map[uint64]uint64{}, Checks: map[string]int{},
		RejectClasses: map[string]int{}, DecideRounds: map[uint64]int{}, ring: make([]rec, ringSize())}
}

func (m *Monitor) attach(w *World) {
	m.w = w
	m.ps = make([]*pstate, len(w.Sc.Members))
	for i := range m.ps {
		m.ps[i] = &pstate{emits: map[sentKey]int{}, shadows: map[uint64]*shadow{}, roundGST: map[uint64]uint64{}}
	}
}

// ringSize: witness trace length (VERIF_TRACE=<n> enlarges it for debugging replays).
func ringSize() int {
	if v, err := strconv.Atoi(os.Getenv("VERIF_TRACE")); err == nil && v > 400 {
		return v
	}
	return 400
}

func (m *Monitor) log(r rec) {
	r.T = m.w.now.Sub(T0)
	m.ring[m.ringPos%len(m.ring)] = r
	m.ringPos++
}

// Tail returns the last recorded events (the witness trace).
func (m *Monitor) Tail() []string {
	var out []string
	n := len(m.ring)
	start := 0
	if m.ringPos > n {
		start = m.ringPos - n
	}
	for i := start; i < m.ringPos; i++ {
		r := m.ring[i%n]
		out = append(out, fmt.Sprintf("t=%v %s p=%d sender=%d inst=%d r=%d %s val=%s %s", r.T, r.Kind, r.P, r.Sender, r.Inst, r.Round, r.Phase, r.Val, r.Verdict))
	}
	return out
}

func (m *Monitor) find(prop, sig string, detail map[string]any) {
	if m.SigFilter != nil && !m.SigFilter(sig) {
		return
	}
	if len(m.Findings) > 20 {
		return
	}
	if detail == nil {
		detail = map[string]any{}
	}
	t := m.Tail()
	if keep := max(120, ringSize()-400); len(t) > keep {
		t = t[len(t)-keep:]
	}
	m.Findings = append(m.Findings, Finding{Prop: prop, Sig: sig, Detail: detail, Tail: t})
}

func vstr(c *gpbft.ECChain) string {
	if c.IsZero() {
		return "⊥"
	}
	k := c.Key()
	return fmt.Sprintf("%x/len%d", k[:4], c.Len())
}

func (m *Monitor) sh(i int, inst uint64) *shadow {
	ps := m.ps[i]
	s := ps.shadows[inst]
	if s == nil {
		s = &shadow{quality: map[gpbft.ActorID]firstVote{}, prepare: map[uint64]map[gpbft.ActorID]firstVote{},
			converge: map[uint64]map[gpbft.ActorID]firstVote{}, justified: map[gpbft.ECChainKey]bool{}, quorumSeen: map[gpbft.ECChainKey]bool{},
			prepEmit: map[uint64]*gpbft.ECChain{}, prepAt: map[uint64]time.Time{}, votes: map[sentKey]map[gpbft.ActorID]gpbft.ECChainKey{}}
		ps.shadows[inst] = s
	}
	return s
}

// ---------------- hooks ----------------

func (m *Monitor) onInput(h *host, inst uint64, in *gpbft.ECChain) {
	s := m.sh(h.i, inst)
	s.input = in
	s.drainCall = m.ps[h.i].callSeq
	m.log(rec{Kind: "INPUT", P: h.i, Inst: inst, Val: vstr(in)})
}

func (m *Monitor) onDrop(from, to int, msg *gpbft.GMessage) {}

func (m *Monitor) onGST() {
	m.gstSeen = true
	// the livelock detector measures stagnation AFTER stabilisation only: before it participants may
	// legitimately wait (and rebroadcast) for as long as the network keeps them apart
	m.lastChangeEv, m.alarmsSinceChange, m.lastChangeAt = m.w.Events, 0, m.w.now
	for _, h := range m.w.Part {
		if h == nil || h.m.Kind != Honest {
			continue
		}
		pr := h.p.Progress()
		if pr.Round > m.gstRound[pr.ID] {
			m.gstRound[pr.ID] = pr.Round
		}
		if _, ok := m.gstRound[pr.ID]; !ok {
			m.gstRound[pr.ID] = 0
		}
		if !h.done {
			m.gstUndecided = true
		}
	}
	m.log(rec{Kind: "GST"})
}

func errClass(err error) string {
	switch {
	case err == nil:
		return "accept"
	case errors.Is(err, gpbft.ErrValidationInvalid):
		return "invalid"
	case errors.Is(err, gpbft.ErrValidationTooOld):
		return "too-old"
	case errors.Is(err, gpbft.ErrValidationNotRelevant):
		return "not-relevant"
	case errors.Is(err, gpbft.ErrValidationNoCommittee):
		return "no-committee"
	case errors.Is(err, gpbft.ErrValidationWrongBase):
		return "wrong-base"
	case errors.Is(err, gpbft.ErrValidationWrongSupplement):
		return "wrong-supplement"
	}
	var pe *gpbft.PanicError
	if errors.As(err, &pe) {
		return "panic"
	}
	return "other"
}

func (m *Monitor) onAPIError(h *host, call string, err error) {
	if err == nil || h.m.Kind != Honest {
		return
	}
	c := errClass(err)
	switch c {
	case "wrong-base", "wrong-supplement", "too-old":
		if call == "ReceiveMessage" {
			return // documented late-binding rejections of (Byzantine) input
		}
		// a timer or a start request carries no input that could be rejected: an error here means
		// the replay of queued messages was aborted (later queued messages are lost)
	}
	m.find("C07", fmt.Sprintf("C07(d) %s returned %s error", call, c), map[string]any{"error": trunc(err.Error(), 1500), "participant": h.i})
}

func trunc(s string, n int) string {
	if len(s) > n {
		return s[:n] + "…"
	}
	return s
}

// checkStagnation is C06's livelock detector. After stabilisation every copy is delivered within
// the synchrony bound and faulty members are silent, so the only sources of events are honest
// participants. If none of them has changed its (instance, round, step) over thousands of events
// and dozens of alarm firings while a started one is still undecided, the system is in a closed
// loop of rebroadcasts that can never produce new information: that participant will not decide
// within any number of rounds.
func (m *Monitor) checkStagnation() {
	w := m.w
	if w.Sc.Class != "gst" || !m.gstSeen || w.stopped {
		return
	}
	if w.Events-m.lastChangeEv < 4000 || m.alarmsSinceChange < 60 {
		return
	}
	// a step legitimately lasts up to its timeout 2*delta*backoff^round (rebroadcast alarms keep
	// firing meanwhile): demand three times the timeout of the round after the highest one reached
	o := w.Sc.Opts
	longest := 2 * float64(o.Delta) * math.Pow(o.BackOff, float64(m.MaxRound+1)) * math.Max(1, o.QualityMulti)
	if float64(w.now.Sub(m.lastChangeAt)) < 3*longest {
		return
	}
	for _, h := range w.Part {
		if h == nil || h.m.Kind != Honest {
			continue
		}
		for inst := range h.started {
			if _, ok := h.decided[inst]; ok {
				continue
			}
			// waiting for an honest member that has not started this instance yet (staggered start)
			// consumes no rounds and ends when it starts: not a livelock
			allStarted := true
			for _, o := range w.Part {
				if o != nil && o.m.Kind == Honest && !o.started[inst] {
					allStarted = false
				}
			}
			if !allStarted {
				continue
			}
			m.find("C06", "C06 no honest participant changed round or step over thousands of events after stabilisation while a started one is undecided (livelock)"+m.roundSplitNote(inst),
				map[string]any{"participant": h.i, "instance": inst, "progress": fmt.Sprint(h.p.Progress().Instant), "events_without_change": w.Events - m.lastChangeEv, "alarms_without_change": m.alarmsSinceChange})
			w.stop("c06-stagnant")
			return
		}
	}
}

func (m *Monitor) onAlarm(h *host, err error) {
	if h.m.Kind == Honest && !h.done {
		m.alarmsSinceChange++
	}
	if h.m.Kind == Honest {
		m.Alarms++
	}
	m.ps[h.i].callSeq++
	m.log(rec{Kind: "ALARM", P: h.i, Verdict: errClass(err)})
	m.onAPIError(h, "ReceiveAlarm", err)
}

func (m *Monitor) onProgress(h *host) {
	if h.m.Kind != Honest {
		return
	}
	ps := m.ps[h.i]
	cur := h.p.Progress().Instant
	if cur.Round > m.MaxRound {
		m.MaxRound = cur.Round
	}
	if ps.hasLast {
		l := ps.last
		back := cur.ID < l.ID || (cur.ID == l.ID && (cur.Round < l.Round || (cur.Round == l.Round && cur.Phase < l.Phase)))
		if back {
			m.find("C07", "C07(c) progress moved backwards", map[string]any{"from": fmt.Sprint(l), "to": fmt.Sprint(cur), "participant": h.i})
		}
	}
	if !ps.hasLast || ps.last != cur {
		m.lastChangeEv, m.alarmsSinceChange, m.lastChangeAt = m.w.Events, 0, m.w.now
	}
	ps.last, ps.hasLast = cur, true
	m.Checks["c07c-progress"]++
	// C06 bound on logical rounds
	if m.w.Sc.Class == "gst" && m.gstSeen {
		if _, decided := h.decided[cur.ID]; !decided && cur.ID < uint64(m.w.Sc.Instances) {
			rg := m.gstRound[cur.ID]
			B := uint64(6)
			if m.byzEverSent {
				B = 40
			}
			extra := int64(cur.Round) - int64(rg)
			if extra > m.ExtraRoundsMax {
				m.ExtraRoundsMax = extra
			}
			if cur.Round > rg+B {
				m.find("C06", fmt.Sprintf("C06 undecided participant beyond round bound (byz=%v)%s", m.byzEverSent, m.lotteryNote(cur.ID)),
					map[string]any{"participant": h.i, "instance": cur.ID, "round": cur.Round, "round_at_gst": rg, "bound": B})
				m.w.stop("c06-bound")
			}
		}
	}
}

// lotteryNote classifies a round-bound excess. GPBFT lets a participant accept a CONVERGE value only
// if it is one of its candidates (prefixes of its OWN input backed by a QUALITY quorum) or is justified
// by a PREPARE quorum. If the value most honest members keep proposing is not a prefix of the input of
// some honest members whose power the quorum cannot do without, those members can never PREPARE it:
// every round fails unless the CONVERGE ticket is won by a member proposing a value everybody accepts
// (the base). Termination is then a lottery whose odds are that member's power share -- by protocol
// design, not by an implementation slip. The note makes this history recognisable (known finding
// C06-lottery-input-divergence); any other excess keeps the plain signature.
func (m *Monitor) lotteryNote(inst uint64) string {
	w := m.w
	T := w.Table(inst)
	lc := m.lastConverge[inst]
	if T == nil || len(lc) == 0 {
		return ""
	}
	// the value proposed by most honest power
	type agg struct {
		c *gpbft.ECChain
		p int64
	}
	byKey := map[gpbft.ECChainKey]*agg{}
	var honest int64
	for i, mem := range w.Sc.Members {
		if mem.Kind != Honest {
			continue
		}
		ix := T.IndexOf(mem.ID)
		if ix < 0 {
			continue
		}
		sp := scaledIndep(T, ix)
		honest += sp
		if c := lc[i]; c != nil {
			a := byKey[c.Key()]
			if a == nil {
				a = &agg{c: c}
				byKey[c.Key()] = a
			}
			a.p += sp
		}
	}
	var major *agg
	for _, a := range byKey {
		if major == nil || a.p > major.p {
			major = a
		}
	}
	if major == nil || len(byKey) < 2 {
		return ""
	}
	var total, cannot, acceptAll int64
	for i := range T.Entries {
		total += scaledIndep(T, i)
	}
	for i, mem := range w.Sc.Members {
		if mem.Kind != Honest {
			continue
		}
		ix := T.IndexOf(mem.ID)
		if ix < 0 {
			continue
		}
		sp := scaledIndep(T, ix)
		in := w.Input(inst, i)
		if in == nil || !in.HasPrefix(major.c) {
			cannot += sp // the majority value is not a prefix of this member's input
		}
		if c := lc[i]; c != nil && c.Len() == 1 {
			acceptAll += sp // proposes the base, which everybody accepts
		}
	}
	threshold := (2*total + 2) / 3
	if cannot == 0 || honest-cannot >= threshold {
		return ""
	}
	return fmt.Sprintf(" [termination lottery by input divergence: the value most honest members propose is not a prefix of the input of honest members the quorum cannot do without; holders of a universally acceptable value have %d%% of the power]", acceptAll*100/max(total, 1))
}

// roundSplitNote classifies a livelock. A participant leaves round r either with a strong quorum of
// round-r COMMITs or by skipping to a later round on a weak quorum of that round's PREPAREs. If faulty
// members helped a minority of the honest power into round r+1 before stabilisation (evidence the other
// honest members never received) and fall silent afterwards, the honest members still in round r can
// neither complete it (they lack the COMMITs of those who left, which are never sent) nor skip (the
// members ahead hold less than a weak quorum), and the members ahead cannot gather a quorum either. The
// note makes this history recognisable (known finding C06-round-split-deadlock); any other livelock
// keeps the plain signature.
func (m *Monitor) roundSplitNote(inst uint64) string {
	w := m.w
	T := w.Table(inst)
	if T == nil {
		return ""
	}
	var total int64
	for i := range T.Entries {
		total += scaledIndep(T, i)
	}
	minRound, first := uint64(0), true
	for _, h := range w.Part {
		if h == nil || h.m.Kind != Honest || !h.started[inst] {
			continue
		}
		if _, done := h.decided[inst]; done {
			return "" // somebody decided: its DECIDE would carry the others; not this pattern
		}
		pr := h.p.Progress()
		if pr.ID != inst {
			return ""
		}
		if first || pr.Round < minRound {
			minRound, first = pr.Round, false
		}
	}
	if first {
		return ""
	}
	var behind, ahead int64
	for i, h := range w.Part {
		if h == nil || h.m.Kind != Honest || !h.started[inst] {
			continue
		}
		ix := T.IndexOf(w.Sc.Members[i].ID)
		if ix < 0 {
			continue
		}
		if h.p.Progress().Round == minRound {
			behind += scaledIndep(T, ix)
		} else {
			ahead += scaledIndep(T, ix)
		}
	}
	threshold := (2*total + 2) / 3
	if ahead == 0 || 3*ahead > total || behind >= threshold || !m.byzEverSent {
		return ""
	}
	return fmt.Sprintf(" [round split: honest members with %d%% of the power (no weak quorum) are in a later round than the others, who hold %d%% (no strong quorum) and cannot complete round %d without them]", ahead*100/max(total, 1), behind*100/max(total, 1), minRound)
}

func (m *Monitor) observer(inst uint64) *gpbft.Participant {
	if p, ok := m.observers[inst]; ok {
		return p
	}
	oh := &host{w: m.w, i: -1, sent: map[sentKey]*gpbft.GMessage{}, decided: map[uint64]*gpbft.Justification{}, started: map[uint64]bool{}, done: true}
	p, err := gpbft.NewParticipant(oh, gpbft.WithCommitteeLookback(uint64(m.w.Sc.Instances)+2))
	if err != nil {
		panic(err)
	}
	if err := p.StartInstanceAt(inst, T0.Add(1e6*time.Hour)); err != nil {
		panic(err)
	}
	m.observers[inst] = p
	return p
}

func (m *Monitor) onEmit(h *host, msg *gpbft.GMessage, rebroadcast, duplicateSlot bool) {
	if h.m.Kind != Honest {
		return
	}
	v := msg.Vote
	m.log(rec{Kind: map[bool]string{false: "EMIT", true: "REBROADCAST"}[rebroadcast], P: h.i, Sender: msg.Sender, Inst: v.Instance, Round: v.Round, Phase: v.Phase, Val: vstr(v.Value)})
	if rebroadcast {
		return
	}
	m.Emits++
	ps := m.ps[h.i]
	k := sentKey{v.Instance, v.Round, v.Phase}
	ps.emits[k]++
	m.Checks["c07a-unique-slot"]++
	if ps.emits[k] > 1 || duplicateSlot {
		m.find("C07", fmt.Sprintf("C07(a) second message emitted for one (instance, round, step): %s", v.Phase),
			map[string]any{"participant": h.i, "instance": v.Instance, "round": v.Round, "phase": v.Phase.String()})
	}
	if m.ValuesVoted[v.Instance] == nil {
		m.ValuesVoted[v.Instance] = map[gpbft.ECChainKey]bool{}
	}
	m.ValuesVoted[v.Instance][v.Value.Key()] = true
	if v.Phase == gpbft.CONVERGE_PHASE {
		if m.lastConverge == nil {
			m.lastConverge = map[uint64]map[int]*gpbft.ECChain{}
		}
		if m.lastConverge[v.Instance] == nil {
			m.lastConverge[v.Instance] = map[int]*gpbft.ECChain{}
		}
		m.lastConverge[v.Instance][h.i] = v.Value
	}

	// (b) acceptable to a fresh peer
	if v.Instance < uint64(m.w.Sc.Instances) {
		m.Checks["c07b-fresh-validation"]++
		if _, err := m.observer(v.Instance).ValidateMessage(m.w.ctx, msg); err != nil {
			m.find("C07", fmt.Sprintf("C07(b) emitted %s message rejected by a fresh validator: %s", v.Phase, errClass(err)),
				map[string]any{"participant": h.i, "instance": v.Instance, "round": v.Round, "error": trunc(err.Error(), 600)})
		}
	}
	s := m.sh(h.i, v.Instance)
	inDrain := s.drainCall == ps.callSeq
	T := m.w.Table(v.Instance)
	if T == nil || s.input == nil {
		return
	}
	switch v.Phase {
	case gpbft.PREPARE_PHASE:
		s.prepEmit[v.Round] = v.Value
		s.prepAt[v.Round] = m.w.now
		if v.Round == 0 {
			m.checkPrepare0(h, s, T, v.Value, inDrain)
		} else if !inDrain {
			m.checkPrepareLater(h, s, T, v.Round, v.Value)
		}
	case gpbft.COMMIT_PHASE:
		if v.Value.IsZero() && !inDrain {
			m.checkCommitBottom(h, s, T, v.Round)
		}
	}
	// (h) vote coverage
	if !v.Value.IsZero() {
		m.Checks["c07h-coverage"]++
		key := v.Value.Key()
		if !s.input.HasPrefix(v.Value) && !s.justified[key] && !s.quorumSeen[key] {
			m.find("C07", fmt.Sprintf("C07(h) %s vote for a value that is neither an input prefix nor covered by received proof", v.Phase),
				map[string]any{"participant": h.i, "instance": v.Instance, "round": v.Round, "value": vstr(v.Value), "input": vstr(s.input)})
		}
	}
}

func power(T *Table, id gpbft.ActorID) int64 {
	idx, ok := T.PT.Lookup[id]
	if !ok {
		return 0
	}
	return T.PT.ScaledPower[idx]
}

func strong(part, whole int64) bool { return 3*part >= 2*whole }

// longest prefix (index) of input having a strong QUALITY quorum in the given tally.
func longestQuorumPrefix(T *Table, input *gpbft.ECChain, votes map[gpbft.ActorID]firstVote, includeQueued bool) int {
	best := 0
	for l := input.Len() - 1; l >= 1; l-- {
		pre := input.Prefix(l)
		var sup int64
		for id, fv := range votes {
			if fv.queued && !includeQueued {
				continue
			}
			if fv.chain.HasPrefix(pre) {
				sup += power(T, id)
			}
		}
		if strong(sup, T.PT.ScaledTotal) {
			best = l
			break
		}
	}
	return best
}

func (m *Monitor) checkPrepare0(h *host, s *shadow, T *Table, val *gpbft.ECChain, inDrain bool) {
	m.Checks["c07e-prepare0"]++
	if val.IsZero() || !s.input.HasPrefix(val) {
		m.find("C07", "C07(e) round-0 PREPARE value is not a prefix of the input", map[string]any{"participant": h.i, "value": vstr(val), "input": vstr(s.input)})
		return
	}
	got := val.Len() - 1
	hi := longestQuorumPrefix(T, s.input, s.quality, true)
	lo := hi
	if inDrain {
		lo = longestQuorumPrefix(T, s.input, s.quality, false)
		m.Checks["c07e-bracketed"]++
	}
	if got < lo || got > hi {
		m.find("C07", fmt.Sprintf("C07(e) round-0 PREPARE value is not the longest input prefix with a strong QUALITY quorum (got %s expected)", map[bool]string{true: "shorter than", false: "longer than"}[got < lo]),
			map[string]any{"participant": h.i, "got_len": got, "expected_min": lo, "expected_max": hi, "input": vstr(s.input), "quality_votes": qualityDump(T, s), "total": T.PT.ScaledTotal})
	}
}

func (m *Monitor) checkPrepareLater(h *host, s *shadow, T *Table, round uint64, val *gpbft.ECChain) {
	q := s.prepEmit[0]
	if q == nil {
		return // proposal formed from QUALITY unknown (skipped round 0)
	}
	votes := s.converge[round]
	var best *gpbft.ECChain
	bestRank := math.Inf(1)
	tie := false
	for id, fv := range votes {
		if !fv.chain.HasBase(s.input.Base()) {
			continue // dropped at drain (wrong base)
		}
		r := gpbft.ComputeTicketRank(fv.ticket, power(T, id))
		if r < bestRank {
			best, bestRank, tie = fv.chain, r, false
		} else if r == bestRank && !fv.chain.Eq(best) {
			tie = true
		}
	}
	if best == nil || tie || math.IsInf(bestRank, 1) {
		return
	}
	m.Checks["c07f-converge-adopt"]++
	if q.HasPrefix(best) && !val.Eq(best) {
		m.find("C07", "C07(f) best-ticket CONVERGE value is a prefix of the QUALITY proposal but was not adopted",
			map[string]any{"participant": h.i, "round": round, "best_ticket_value": vstr(best), "quality_proposal": vstr(q), "prepared": vstr(val),
				"best_is_base": best.Len() == 1, "best_is_full_proposal": best.Eq(q)})
	}
}

func (m *Monitor) checkCommitBottom(h *host, s *shadow, T *Table, round uint64) {
	prop := s.prepEmit[round]
	if prop == nil {
		return
	}
	m.Checks["c07g-commit-bottom"]++
	var sup, voted int64
	pk := prop.Key()
	for id, fv := range s.prepare[round] {
		if !fv.chain.IsZero() && !fv.chain.HasBase(s.input.Base()) {
			continue // dropped at drain (wrong base)
		}
		p := power(T, id)
		voted += p
		if fv.chain.Key() == pk {
			sup += p
		}
	}
	tot := T.PT.ScaledTotal
	if strong(sup, tot) {
		m.find("C07", "C07(g) COMMIT for bottom while holding a strong PREPARE quorum for the proposal",
			map[string]any{"participant": h.i, "round": round, "support": sup, "total": tot})
		return
	}
	o := m.w.Sc.Opts
	timeout := s.prepAt[round].Add(2 * time.Duration(float64(o.Delta)*math.Pow(o.BackOff, float64(round))))
	if m.w.now.Before(timeout) && strong(sup+(tot-voted), tot) {
		m.find("C07", "C07(g) COMMIT for bottom before the PREPARE timeout while a strong quorum was still reachable",
			map[string]any{"participant": h.i, "round": round, "support": sup, "voted": voted, "total": tot, "now": m.w.now.Sub(T0).String(), "timeout": timeout.Sub(T0).String()})
	}
}

// preReceive records the delivery in the shadow tallies *before* the
// participant processes it, because emissions triggered by this very message
// must see it as delivered.
func (m *Monitor) preReceive(h *host, e *event, before gpbft.InstanceProgress, verr error) {
	ps := m.ps[h.i]
	ps.callSeq++
	if e.byz {
		m.byzEverSent = true
	}
	if h.m.Kind != Honest || verr != nil {
		return
	}
	msg := e.msg
	v := msg.Vote
	if v.Instance < before.ID {
		return // dropped as old
	}
	queued := v.Instance > before.ID || before.Phase == gpbft.INITIAL_PHASE
	T := m.w.Table(v.Instance)
	if T == nil {
		return
	}
	s := m.sh(h.i, v.Instance)
	if queued {
		// the future-instance queue keeps only the first message per (sender, round, phase) and
		// applies the late-binding checks (base, supplemental data) only when it is drained: a
		// queued message that is later dropped still occupies its slot
		qk := queuedKey{msg.Sender, v.Round, v.Phase}
		if s.queuedSlots == nil {
			s.queuedSlots = map[queuedKey]bool{}
		}
		if !(v.Round > m.w.Sc.Opts.Lookahead && msg.Justification == nil && v.Round > 0) {
			if s.queuedSlots[qk] {
				return
			}
			s.queuedSlots[qk] = true
		}
	}
	// late-binding checks (done by the participant on receipt / drain)
	sd := m.w.SuppData(v.Instance)
	if !v.SupplementalData.Eq(&sd) {
		return
	}
	if base := m.w.bases[v.Instance]; base != nil && !v.Value.IsZero() && !v.Value.HasBase(base) {
		return
	}
	if queued && v.Round > m.w.Sc.Opts.Lookahead && msg.Justification == nil && v.Round > 0 {
		return
	}
	if !queued && v.Round > before.Round+m.w.Sc.Opts.Lookahead && msg.Justification == nil && v.Round > 0 {
		return
	}
	if e.byz && power(T, msg.Sender) > 0 {
		m.ByzTallied++
	}
	if j := msg.Justification; j != nil && !j.Vote.Value.IsZero() {
		s.justified[j.Vote.Value.Key()] = true
	}
	if v.Phase == gpbft.DECIDE_PHASE {
		s.justified[v.Value.Key()] = true
	}
	prior := !queued && v.Round < before.Round
	fv := firstVote{chain: v.Value, ticket: msg.Ticket, queued: queued}
	// A queued vote whose base turns out to be wrong is dropped when the queue is drained (the base
	// of a future instance is unknown while it is queued); a later live vote of that sender counts.
	stale := func(old firstVote) bool {
		return old.queued && !queued && s.input != nil && !old.chain.IsZero() && !old.chain.HasBase(s.input.Base())
	}
	switch v.Phase {
	case gpbft.QUALITY_PHASE:
		if old, ok := s.quality[msg.Sender]; !ok || stale(old) {
			s.quality[msg.Sender] = fv
		}
	case gpbft.PREPARE_PHASE:
		if prior {
			return
		}
		if s.prepare[v.Round] == nil {
			s.prepare[v.Round] = map[gpbft.ActorID]firstVote{}
		}
		if old, ok := s.prepare[v.Round][msg.Sender]; !ok || stale(old) {
			s.prepare[v.Round][msg.Sender] = fv
		}
	case gpbft.CONVERGE_PHASE:
		if prior {
			return
		}
		if s.converge[v.Round] == nil {
			s.converge[v.Round] = map[gpbft.ActorID]firstVote{}
		}
		if old, ok := s.converge[v.Round][msg.Sender]; !ok || stale(old) {
			s.converge[v.Round][msg.Sender] = fv
		}
	}
	// quorum of votes seen for a value (coverage for (h))
	k := sentKey{v.Instance, v.Round, v.Phase}
	if s.votes[k] == nil {
		s.votes[k] = map[gpbft.ActorID]gpbft.ECChainKey{}
	}
	if _, ok := s.votes[k][msg.Sender]; !ok {
		s.votes[k][msg.Sender] = v.Value.Key()
		var sup int64
		for id, kk := range s.votes[k] {
			if kk == v.Value.Key() {
				sup += power(T, id)
			}
		}
		if strong(sup, T.PT.ScaledTotal) {
			s.quorumSeen[v.Value.Key()] = true
		}
	}
}

func (m *Monitor) onDeliver(h *host, e *event, before gpbft.InstanceProgress, verr, rerr error) {
	v := e.msg.Vote
	c := errClass(verr)
	if verr == nil {
		m.DeliveredAccepted++
	} else {
		m.DeliveredRejected++
		m.RejectClasses[c]++
	}
	kind := "DELIVER"
	if e.byz {
		kind = "DELIVER-BYZ"
	}
	vd := c
	if verr == nil && rerr != nil {
		vd = "accept/recv-" + errClass(rerr)
	}
	m.log(rec{Kind: kind, P: h.i, Sender: e.msg.Sender, Inst: v.Instance, Round: v.Round, Phase: v.Phase, Val: vstr(v.Value), Verdict: vd})
	if h.m.Kind != Honest {
		return
	}
	if c == "panic" || c == "other" {
		m.find("C07", fmt.Sprintf("C07(d) ValidateMessage returned %s error", c), map[string]any{"error": trunc(verr.Error(), 1500)})
	}
	// an honest participant's own (or another honest one's) message must not be branded invalid
	if !e.byz && e.from >= 0 && m.w.Sc.Members[e.from].Kind == Honest && c == "invalid" {
		m.find("C07", fmt.Sprintf("C07(b) honest %s message branded invalid by a peer", v.Phase), map[string]any{"from": e.from, "to": h.i, "error": trunc(verr.Error(), 600)})
	}
	if verr == nil {
		m.onAPIError(h, "ReceiveMessage", rerr)
	}
}

func (m *Monitor) onDecide(h *host, d *gpbft.Justification) {
	w := m.w
	inst := d.Vote.Instance
	val := d.Vote.Value
	m.Decisions++
	pr := h.p.Progress()
	m.DecideRounds[pr.Round]++
	m.log(rec{Kind: "DECIDE", P: h.i, Inst: inst, Val: vstr(val)})
	if val.Len() > 100 {
		m.Checks["decisions-longer-than-100-tipsets"]++
	}
	if val.Len() == gpbft.ChainMaxLen {
		m.Checks["decisions-of-maximum-length"]++
	}

	// ---- C01 agreement
	m.Checks["c01-decision-compared"]++
	for _, o := range m.decisions[inst] {
		same := o.chain.Eq(val) && bytes.Equal(chainBytes(o.chain), chainBytes(val))
		if !same {
			m.find("C01", "C01 two honest participants decided different values in one instance",
				map[string]any{"instance": inst, "participant_a": o.member, "value_a": vstr(o.chain), "participant_b": h.i, "value_b": vstr(val)})
		}
	}
	m.decisions[inst] = append(m.decisions[inst], decRec{h.i, val})

	// ---- C02 validity
	m.Checks["c02-decision-validity"]++
	s := m.sh(h.i, inst)
	switch {
	case val.IsZero():
		m.find("C02", "C02 decided value is empty", map[string]any{"instance": inst, "participant": h.i})
	case s.input == nil:
		// decided without having started (cannot happen: decisions come from a running instance)
		m.find("C02", "C02 decision reported for an instance the participant never entered", map[string]any{"instance": inst, "participant": h.i})
	default:
		if !val.Base().Equal(s.input.Base()) {
			m.find("C02", "C02 decided value does not start at the participant's instance base", map[string]any{"instance": inst, "participant": h.i, "value": vstr(val)})
		}
		ok := false
		for i, in := range w.inputs[inst] {
			if w.Sc.Members[i].Kind == Honest && in.HasPrefix(val) {
				ok = true
				break
			}
		}
		if !ok {
			m.find("C02", "C02 decided value is not a prefix of any honest input", map[string]any{"instance": inst, "participant": h.i, "value": vstr(val)})
		}
		if w.Sc.Class == "syncunanimous" {
			m.Checks["c02-unanimous"]++
			if !val.Eq(s.input) {
				m.find("C02", "C02 synchronous unanimous run did not decide the common input", map[string]any{"instance": inst, "participant": h.i, "value": vstr(val), "input": vstr(s.input)})
			}
		}
	}
	// ---- C03 self-contained finality proof
	m.checkDecisionProof(h, d)
}

func chainBytes(c *gpbft.ECChain) []byte {
	var b bytes.Buffer
	for _, ts := range c.TipSets {
		b.Write(ts.MarshalForSigning())
		b.WriteByte(0xff)
	}
	return b.Bytes()
}

func (m *Monitor) checkDecisionProof(h *host, d *gpbft.Justification) {
	w := m.w
	inst := d.Vote.Instance
	T := w.Table(inst)
	if T == nil {
		return
	}
	m.Checks["c03-proof-checked"]++
	bad := func(what string, extra map[string]any) {
		if extra == nil {
			extra = map[string]any{}
		}
		extra["instance"] = inst
		extra["participant"] = h.i
		m.find("C03", "C03 "+what, extra)
	}
	if pr := h.p.Progress(); pr.ID != inst {
		// the participant reports decisions of its current instance only
		bad("decision instance differs from the participant's instance", map[string]any{"progress": pr.ID})
	}
	if d.Vote.Round != 0 {
		bad("decision justification round is not 0", map[string]any{"round": d.Vote.Round})
	}
	if d.Vote.Phase != gpbft.DECIDE_PHASE {
		bad("decision justification step is not DECIDE", map[string]any{"phase": d.Vote.Phase.String()})
	}
	sd := w.SuppData(inst)
	if !d.Vote.SupplementalData.Eq(&sd) {
		bad("decision justification carries wrong supplemental data", nil)
	}
	// signers: decode the run list ourselves
	var idxs []int
	seen := map[uint64]bool{}
	cnt, err := d.Signers.Count()
	if err != nil {
		bad("signer bitfield undecodable", nil)
		return
	}
	all, err := d.Signers.All(cnt + 1)
	if err != nil {
		bad("signer bitfield undecodable", nil)
		return
	}
	sum := new(big.Int)
	for _, ix := range all {
		if seen[ix] {
			bad("duplicate signer", nil)
		}
		seen[ix] = true
		if ix >= uint64(len(T.Entries)) {
			bad("signer index out of range", map[string]any{"index": ix})
			return
		}
		sp := scaledIndep(T, int(ix))
		if sp == 0 {
			bad("signer with zero scaled power", map[string]any{"index": ix})
		}
		sum.Add(sum, big.NewInt(sp))
		idxs = append(idxs, int(ix))
	}
	sort.Ints(idxs)
	_, tot := ScaledOf(w.Sc.Powers[inst])
	if new(big.Int).Mul(sum, big.NewInt(3)).Cmp(new(big.Int).Mul(big.NewInt(tot), big.NewInt(2))) < 0 {
		bad("signers do not form a strong quorum", map[string]any{"power": sum.String(), "total": tot})
	}
	payload := gpbft.Payload{Instance: inst, Round: 0, Phase: gpbft.DECIDE_PHASE, SupplementalData: sd, Value: d.Vote.Value}
	if err := T.Agg.VerifyAggregate(idxs, payload.MarshalForSigning(NetworkName), d.Signature); err != nil {
		bad("aggregate does not verify over the decided value", map[string]any{"err": err.Error()})
	}
	// certificate accepted by a second node holding only the entries of the current table
	next := w.NextEntries(inst)
	cur := append(gpbft.PowerEntries{}, T.Entries...)
	cert, err := certs.NewFinalityCertificate(certs.MakePowerTableDiff(cur, next), d)
	if err != nil {
		bad("decision cannot be turned into a finality certificate", map[string]any{"err": err.Error()})
		return
	}
	ni, chain, npt, err := certs.ValidateFinalityCertificates(w.Sc.Sig(), NetworkName, cur, inst, nil, cert)
	if err != nil {
		bad("certificate built from the decision is rejected by certificate validation", map[string]any{"err": err.Error()})
		return
	}
	if ni != inst+1 || !suffixEq(chain, d.Vote.Value) {
		bad("certificate validation returned a wrong next instance or chain", map[string]any{"next": ni})
	}
	if !npt.Equal(next) {
		bad("certificate validation returned a wrong next power table", nil)
	}
}

func suffixEq(chain, val *gpbft.ECChain) bool {
	// ValidateFinalityCertificates returns the finalized suffix appended to a nil chain
	suf := val.Suffix()
	if chain.Len() != len(suf) {
		return false
	}
	for i := range suf {
		if !chain.TipSets[i].Equal(suf[i]) {
			return false
		}
	}
	return true
}

func scaledIndep(T *Table, idx int) int64 {
	tot := new(big.Int)
	for _, e := range T.Entries {
		tot.Add(tot, e.Power.Int)
	}
	x := new(big.Int).Mul(T.Entries[idx].Power.Int, big.NewInt(0xffff))
	return x.Div(x, tot).Int64()
}

func (m *Monitor) onEnd() {
	w := m.w
	if w.Sc.Class != "gst" {
		return
	}
	m.C06Checked = true
	for _, h := range w.Part {
		if h == nil || h.m.Kind != Honest {
			continue
		}
		for inst := range h.started {
			if _, ok := h.decided[inst]; ok {
				continue
			}
			switch w.stopWhy {
			case "quiescent":
				m.find("C06", "C06 network went quiescent with an undecided started participant",
					map[string]any{"participant": h.i, "instance": inst, "progress": fmt.Sprint(h.p.Progress().Instant)})
			case "event-cap":
				m.find("INCONCLUSIVE", "event cap reached before termination", map[string]any{"participant": h.i, "instance": inst})
			}
		}
	}
}

func qualityDump(T *Table, s *shadow) []string {
	var out []string
	for id, fv := range s.quality {
		match := 0
		for l := s.input.Len() - 1; l >= 1; l-- {
			if fv.chain.HasPrefix(s.input.Prefix(l)) {
				match = l
				break
			}
		}
		out = append(out, fmt.Sprintf("sender=%d power=%d value=%s matches_input_prefix_len=%d queued=%v", id, power(T, id), vstr(fv.chain), match, fv.queued))
	}
	sort.Strings(out)
	return out
}
