package c12

// Part "node" of the C12 check: a real f3.F3 node (mocknet, real gossipsub,
// FakeEC, mock clock, in-memory datastore, REAL write-ahead-log directory)
// holding every signing identity of the power table: one identity in two
// stacks out of three, TWO local identities with equal power (one node signing
// for two storage providers) in every third case. A share of the graceful
// restarts re-creates the node with a manifest that differs from the previous
// one only in tuning parameters (same network name, same consensus rules). An observer libp2p
// peer subscribed to the node's GPBFT topic records everything the node hands
// to the network. The harness plays the signing client and also issues
// conflicting requests through the public API, restarts the node, and forks
// "crash images" (copies of the WAL directory taken at arbitrary instants).

import (
	"bytes"
	"context"
	"crypto/sha256"
	"encoding/binary"
	"encoding/hex"
	"errors"
	"fmt"
	"math/rand"
	"os"
	"path/filepath"
	"runtime"
	"sort"
	"sync"
	"sync/atomic"
	"testing"
	"time"

	"github.com/filecoin-project/go-bitfield"
	f3 "github.com/filecoin-project/go-f3"
	"github.com/filecoin-project/go-f3/ec"
	"github.com/filecoin-project/go-f3/gpbft"
	"github.com/filecoin-project/go-f3/internal/clock"
	"github.com/filecoin-project/go-f3/internal/consensus"
	"github.com/filecoin-project/go-f3/internal/encoding"
	"github.com/filecoin-project/go-f3/internal/psutil"
	"github.com/filecoin-project/go-f3/manifest"
	"github.com/filecoin-project/go-f3/sim/signing"
	"github.com/filecoin-project/go-f3/verifh/vkit"
	"github.com/ipfs/go-datastore"
	dsq "github.com/ipfs/go-datastore/query"
	ds_sync "github.com/ipfs/go-datastore/sync"
	logging "github.com/ipfs/go-log/v2"
	pubsub "github.com/libp2p/go-libp2p-pubsub"
	"github.com/libp2p/go-libp2p/core/crypto"
	"github.com/libp2p/go-libp2p/core/host"
	mocknet "github.com/libp2p/go-libp2p/p2p/net/mock"
	ma "github.com/multiformats/go-multiaddr"
	cbg "github.com/whyrusleeping/cbor-gen"
)

var dbg = os.Getenv("C12_DEBUG")

const (
	nodeActor    = gpbft.ActorID(4242)
	nodeActor2   = gpbft.ActorID(4243) // second local identity of a two-identity stack
	purgeHorizon = 6                   // host.go keeps 5 instances behind the finalized one in the WAL
)

// ---- wire log -----------------------------------------------------------------

type slotKey struct {
	Inst   uint64
	Sender gpbft.ActorID
	Round  uint64
	Phase  gpbft.Phase
}

type wireMsg struct {
	Obs    int           `json:"obs"`   // logical sequence number in this lineage's wire log
	Own    bool          `json:"own"`   // observed by this stack's observer (false: inherited at the fork instant)
	Life   int           `json:"life"`  // node lifetime (process incarnation) running when observed
	Seqno  uint64        `json:"seqno"` // pubsub sequence number assigned by the node at Publish
	Inst   uint64        `json:"instance"`
	Round  uint64        `json:"round"`
	Phase  string        `json:"phase"`
	Sender gpbft.ActorID `json:"sender"`
	Sig    string        `json:"sig"`
	VKey   string        `json:"value_key"`
	phase  gpbft.Phase
}

func (w *wireMsg) slot() slotKey { return slotKey{w.Inst, w.Sender, w.Round, w.phase} }
func (w *wireMsg) id() string {
	return fmt.Sprintf("%d/%d/%d/%d/%s", w.Inst, w.Sender, w.Round, w.phase, w.Sig)
}

func msgID(m *gpbft.GMessage) string {
	return fmt.Sprintf("%d/%d/%d/%d/%s", m.Vote.Instance, m.Sender, m.Vote.Round, m.Vote.Phase, hex.EncodeToString(m.Signature))
}

// ---- requests issued by the harness -----------------------------------------------

type request struct {
	Kind     string        `json:"kind"`
	Sender   gpbft.ActorID `json:"sender"`
	Inst     uint64        `json:"instance"`
	Round    uint64        `json:"round"`
	Phase    string        `json:"phase"`
	Sig      string        `json:"sig"`
	Life     int           `json:"life"`
	WireLen  int           `json:"wire_len_at_issue"`
	Conflict bool          `json:"conflicting"`
}

type tmpl struct {
	sb  gpbft.SignatureBuilder
	sig []byte
	vrf []byte
}

// ---- EC wrapper: a head that can be moved between lifetimes ---------------------------

type shiftEC struct {
	*consensus.FakeEC
	bootstrap int64
	shift     atomic.Int64
}

func (e *shiftEC) GetHead(ctx context.Context) (ec.TipSet, error) {
	ep := e.FakeEC.GetCurrentHead() - e.shift.Load()
	if ep < e.bootstrap {
		ep = e.bootstrap
	}
	return e.FakeEC.GetTipsetByEpoch(ctx, ep)
}

// ---- configuration -------------------------------------------------------------------

type nodeCfg struct {
	cases       int
	lifetimes   int // graceful restarts per root lineage (+1 lifetimes)
	stepsMin    int
	stepsMax    int
	forksPerRun int
}

func c12Manifest(compress bool) manifest.Manifest {
	m := manifest.Manifest{
		ProtocolVersion:   manifest.VersionCapability,
		BootstrapEpoch:    20,
		InitialInstance:   0,
		NetworkName:       gpbft.NetworkName("c12net"),
		CommitteeLookback: manifest.DefaultCommitteeLookback,
		Gpbft: manifest.GpbftConfig{
			Delta:                      3 * time.Second,
			DeltaBackOffExponent:       1.3,
			QualityDeltaMultiplier:     1.0,
			MaxLookaheadRounds:         5,
			ChainProposedLength:        30,
			RebroadcastBackoffBase:     3 * time.Second,
			RebroadcastBackoffSpread:   0.1,
			RebroadcastBackoffExponent: 1.3,
			RebroadcastBackoffMax:      5 * time.Second,
		},
		EC: manifest.EcConfig{
			Finality:                 4,
			Period:                   10 * time.Second,
			DelayMultiplier:          1.3,
			BaseDecisionBackoffTable: []float64{1.3},
			HeadLookback:             0,
			Finalize:                 true,
		},
		CertificateExchange: manifest.DefaultCxConfig,
		CatchUpAlignment:    5 * time.Second,
		PubSub:              manifest.DefaultPubSubConfig,
		ChainExchange: manifest.ChainExchangeConfig{
			SubscriptionBufferSize:         32,
			MaxChainLength:                 30,
			MaxInstanceLookahead:           manifest.DefaultCommitteeLookback,
			MaxDiscoveredChainsPerInstance: 1_000,
			MaxWantedChainsPerInstance:     1_000,
			RebroadcastInterval:            2 * time.Second,
			MaxTimestampAge:                8 * time.Second,
		},
		PartialMessageManager: manifest.DefaultPartialMessageManagerConfig,
	}
	m.PubSub.CompressionEnabled = compress
	return m
}

// tunedManifest returns m with only tuning parameters changed (k selects the
// variant; k = 0 is m itself): the network name, bootstrap, initial instance,
// committee lookback, EC and every GPBFT timing that decides how consensus
// runs stay as they are, so the node continues the SAME network and must find
// its write-ahead log again.
func tunedManifest(m manifest.Manifest, k int) manifest.Manifest {
	m.Gpbft.RebroadcastBackoffMax = 5*time.Second + time.Duration(k%4)*500*time.Millisecond
	m.CertificateExchange.MaximumPollInterval = manifest.DefaultCxConfig.MaximumPollInterval + time.Duration(k)*time.Second
	return m
}

// ---- one stack = one libp2p/pubsub/clock/EC/datastore/WAL world for one node identity ---

type stack struct {
	run     *vkit.Run
	caseIdx int
	id      string // lineage path, e.g. "c3" or "c3/f1"
	depth   int
	seed    int64
	rng     *rand.Rand // driver goroutine only
	rngX    *rand.Rand // driver goroutine only: decisions added later (manifest tuning), kept off rng so that the older script is unchanged

	ctx    context.Context
	cancel context.CancelFunc
	clk    *clock.Mock
	ec     *shiftEC
	mn     mocknet.Mocknet
	nodeH  host.Host
	obsH   host.Host
	nodePS *pubsub.PubSub
	obsPS  *pubsub.PubSub
	obsTop *pubsub.Topic
	obsSub *pubsub.Subscription
	ds     datastore.Batching
	disk   string
	signer *signing.FakeBackend
	// local signing identities, in power-table order (equal power, ascending id)
	ids     []gpbft.ActorID
	pubKeys []gpbft.PubKey
	mfst    manifest.Manifest // driver goroutine only: replaced between lifetimes by a tuned variant
	tune    int               // tuning variant of mfst (0: base)
	netName gpbft.NetworkName // never changes
	key     crypto.PrivKey
	dec     encoding.EncodeDecoder[*gpbft.PartialGMessage]
	obsWG   sync.WaitGroup

	// request gate: a Broadcast that may raise the filter's instance is issued
	// exclusively (see the soundness note at checkOrder).
	gate     sync.RWMutex
	cur      atomic.Pointer[lifeHandle]
	life     atomic.Int64
	withhold atomic.Bool
	reqWG    sync.WaitGroup

	mu          sync.Mutex
	wire        []wireMsg
	prefixLen   int
	walSeen     map[string]bool
	walMaxInst  uint64
	wireMaxInst uint64
	futureBump  map[uint64]bool
	templates   map[slotKey]*tmpl
	tmplOrder   []slotKey
	requests    []request
	stopErrs    int
	tainted     bool

	// counters (atomic)
	nObserved, nSigned, nDecodeErr, nWALReads, nPurgeExcused, nPurgeExcusedImg, nForeign atomic.Int64
}

func detRand(seed int64) *rand.Rand { return rand.New(rand.NewSource(seed)) }

type detReader struct{ r *rand.Rand }

func (d detReader) Read(p []byte) (int, error) { return d.r.Read(p) }

func newStack(run *vkit.Run, caseIdx int, id string, depth int, seed int64, root string, key crypto.PrivKey, compress bool, nIDs int) (*stack, error) {
	s := &stack{run: run, caseIdx: caseIdx, id: id, depth: depth, seed: seed, rng: detRand(seed), rngX: detRand(seed ^ 0x5c12c12),
		walSeen: map[string]bool{}, futureBump: map[uint64]bool{}, templates: map[slotKey]*tmpl{}, key: key}
	ctx, cancel := context.WithCancel(context.Background())
	ctx, s.clk = clock.WithMockClock(ctx)
	s.ctx, s.cancel = ctx, cancel
	s.mfst = c12Manifest(compress)
	s.netName = s.mfst.NetworkName
	s.signer = signing.NewFakeBackend()
	var pt gpbft.PowerEntries
	for _, a := range []gpbft.ActorID{nodeActor, nodeActor2}[:nIDs] {
		pk, _ := s.signer.GenerateKey()
		s.ids = append(s.ids, a)
		s.pubKeys = append(s.pubKeys, pk)
		pt = append(pt, gpbft.PowerEntry{ID: a, PubKey: pk, Power: gpbft.NewStoragePower(1000)})
	}
	// The FakeEC anchors its epoch 0 at construction time: always build it
	// while the mock clock still shows the Unix epoch so that every stack of a
	// lineage sees the same chain.
	fec := consensus.NewFakeEC(
		consensus.WithClock(s.clk),
		consensus.WithSeed(7000+int64(caseIdx)),
		consensus.WithBootstrapEpoch(s.mfst.BootstrapEpoch),
		consensus.WithECPeriod(s.mfst.EC.Period),
		consensus.WithInitialPowerTable(pt),
	)
	s.ec = &shiftEC{FakeEC: fec, bootstrap: s.mfst.BootstrapEpoch}
	s.disk = filepath.Join(root, sanitize(id))
	if err := os.MkdirAll(s.disk, 0o755); err != nil {
		cancel()
		return nil, err
	}
	s.ds = ds_sync.MutexWrap(datastore.NewMapDatastore())

	s.mn = mocknet.New()
	addr, err := ma.NewMultiaddr(fmt.Sprintf("/ip4/10.12.%d.%d/tcp/4001", caseIdx%250+1, depth+1))
	if err != nil {
		cancel()
		return nil, err
	}
	if s.nodeH, err = s.mn.AddPeer(key, addr); err != nil {
		cancel()
		return nil, err
	}
	if s.obsH, err = s.mn.GenPeer(); err != nil {
		cancel()
		return nil, err
	}
	if err = s.mn.LinkAll(); err != nil {
		cancel()
		return nil, err
	}
	if err = s.mn.ConnectAllButSelf(); err != nil {
		cancel()
		return nil, err
	}
	if s.nodePS, err = pubsub.NewGossipSub(ctx, s.nodeH, pubsub.WithMessageSignaturePolicy(pubsub.StrictNoSign)); err != nil {
		cancel()
		return nil, err
	}
	if s.obsPS, err = pubsub.NewGossipSub(ctx, s.obsH, pubsub.WithMessageSignaturePolicy(pubsub.StrictNoSign)); err != nil {
		cancel()
		return nil, err
	}
	if s.obsTop, err = s.obsPS.Join(s.mfst.PubSubTopic(), pubsub.WithTopicMessageIdFn(psutil.GPBFTMessageIdFn)); err != nil {
		cancel()
		return nil, err
	}
	if s.obsSub, err = s.obsTop.Subscribe(pubsub.WithBufferSize(16384)); err != nil {
		cancel()
		return nil, err
	}
	if compress {
		z, err := encoding.NewZSTD[*gpbft.PartialGMessage]()
		if err != nil {
			cancel()
			return nil, err
		}
		s.dec = z
	} else {
		s.dec = encoding.NewCBOR[*gpbft.PartialGMessage]()
	}
	s.obsWG.Add(1)
	go s.observer()
	return s, nil
}

func sanitize(id string) string {
	b := []byte(id)
	for i, c := range b {
		if c == '/' {
			b[i] = '_'
		}
	}
	return string(b)
}

func (s *stack) close() {
	s.cancel()
	s.obsSub.Cancel()
	s.obsWG.Wait()
	_ = s.mn.Close()
}

// walRoot is the directory below which the node keeps its write-ahead log(s):
// <disk>/wal/<one directory per log the node ever opened>. The harness does not
// assume how the node names the log directory; "the WAL" of the oracles is
// everything below walRoot (on the unchanged tree: exactly one directory).
func (s *stack) walRoot() string { return filepath.Join(s.disk, "wal") }

// ---- observer ---------------------------------------------------------------------------

func (s *stack) observer() {
	defer s.obsWG.Done()
	for {
		msg, err := s.obsSub.Next(s.ctx)
		if err != nil {
			return
		}
		if msg.GetFrom() != s.nodeH.ID() {
			s.nForeign.Add(1)
			continue
		}
		var pg gpbft.PartialGMessage
		if err := s.dec.Decode(msg.Data, &pg); err != nil || pg.GMessage == nil {
			s.nDecodeErr.Add(1)
			continue
		}
		var seq uint64
		if b := msg.GetSeqno(); len(b) == 8 {
			seq = binary.BigEndian.Uint64(b)
		}
		s.observe(&pg, seq)
	}
}

func (s *stack) observe(pg *gpbft.PartialGMessage, seq uint64) {
	m := pg.GMessage
	w := wireMsg{Own: true, Life: int(s.life.Load()), Seqno: seq, Inst: m.Vote.Instance, Round: m.Vote.Round,
		Phase: m.Vote.Phase.String(), phase: m.Vote.Phase, Sender: m.Sender,
		Sig: hex.EncodeToString(m.Signature), VKey: hex.EncodeToString(pg.VoteValueKey[:6])}
	s.mu.Lock()
	w.Obs = len(s.wire)
	s.wire = append(s.wire, w)
	if w.Inst > s.wireMaxInst {
		s.wireMaxInst = w.Inst
	}
	known := s.walSeen[w.id()]
	s.mu.Unlock()
	s.nObserved.Add(1)
	if dbg == "3" {
		fmt.Printf("dbg3 %s observed i=%d r=%d %s at %s\n", s.id, w.Inst, w.Round, w.Phase, time.Now().Format("15:04:05.000"))
	}
	if known {
		return
	}
	// Oracle 3 (durably before publish): the message is on the wire, so it
	// must be readable from the WAL directory NOW (or have been earlier).
	img, err := readWALImage(s.walRoot())
	if err != nil {
		s.nDecodeErr.Add(1)
		return
	}
	msgs, err := img.parse(filepath.Join(s.disk, "obs-walcopy"))
	s.nWALReads.Add(1)
	if err != nil {
		s.nDecodeErr.Add(1)
		return
	}
	s.mu.Lock()
	for _, wm := range msgs {
		s.walSeen[msgID(wm)] = true
		if wm.Vote.Instance > s.walMaxInst {
			s.walMaxInst = wm.Vote.Instance
		}
	}
	present := s.walSeen[w.id()]
	horizon := max(s.walMaxInst, s.wireMaxInst)
	tainted := s.tainted
	s.mu.Unlock()
	if present || tainted {
		return
	}
	if horizon >= w.Inst+purgeHorizon {
		s.nPurgeExcused.Add(1)
		if dbg != "" {
			fmt.Printf("dbg purge-excused at observation: stack %s msg %+v horizon=%d walfiles=%v\n", s.id, w, horizon, img.names)
		}
		return
	}
	s.run.Violation(fmt.Sprintf("wire: a %s message observed on the node's pubsub topic is absent from the WAL directory read after the observation (publish is not preceded by a durable log append)", w.Phase),
		map[string]any{"case": s.caseIdx, "stack": s.id, "message": w, "wal_entries_at_observation": len(msgs), "wal_files": img.names})
}

// ---- WAL images ---------------------------------------------------------------------------

type walImage struct {
	dirs  []string // log directories below the WAL root, sorted
	names []string // <log directory>/<file>, per directory older files first, the active tail last
	data  [][]byte
}

// readWALImage reads every log file below root (<root>/<log dir>/<file>) into
// memory, which is what a crash at this instant leaves behind.
func readWALImage(root string) (*walImage, error) {
	img := &walImage{}
	subs, err := os.ReadDir(root)
	if err != nil {
		if errors.Is(err, os.ErrNotExist) {
			return img, nil
		}
		return nil, err
	}
	for _, sd := range subs {
		if !sd.IsDir() {
			continue
		}
		ents, err := os.ReadDir(filepath.Join(root, sd.Name()))
		if err != nil {
			if errors.Is(err, os.ErrNotExist) {
				continue
			}
			return nil, err
		}
		img.dirs = append(img.dirs, sd.Name())
		names := make([]string, 0, len(ents))
		for _, e := range ents {
			if !e.IsDir() {
				names = append(names, e.Name())
			}
		}
		sort.Strings(names)
		for _, n := range names {
			b, err := os.ReadFile(filepath.Join(root, sd.Name(), n))
			if err != nil {
				if errors.Is(err, os.ErrNotExist) {
					continue // purged between listing and reading: a later crash image
				}
				return nil, err
			}
			img.names = append(img.names, filepath.Join(sd.Name(), n))
			img.data = append(img.data, b)
		}
	}
	return img, nil
}

func (img *walImage) writeTo(root string) error {
	_ = os.RemoveAll(root)
	if err := os.MkdirAll(root, 0o755); err != nil {
		return err
	}
	for _, d := range img.dirs {
		if err := os.MkdirAll(filepath.Join(root, d), 0o755); err != nil {
			return err
		}
	}
	for i, n := range img.names {
		if err := os.WriteFile(filepath.Join(root, n), img.data[i], 0o644); err != nil {
			return err
		}
	}
	return nil
}

// readWALTree reads every log directory below root with the production WAL reader.
func readWALTree(root string, dirs []string) ([]*gpbft.GMessage, error) {
	var all []*gpbft.GMessage
	for _, d := range dirs {
		msgs, err := f3.VerifC12ReadWAL(filepath.Join(root, d))
		if err != nil {
			return nil, err
		}
		all = append(all, msgs...)
	}
	return all, nil
}

// parse reads the image with the production WAL reader on a private copy.
func (img *walImage) parse(tmp string) ([]*gpbft.GMessage, error) {
	if err := img.writeTo(tmp); err != nil {
		return nil, err
	}
	defer os.RemoveAll(tmp)
	return readWALTree(tmp, img.dirs)
}

// entryEnds returns the end offsets of the complete entries of one log file.
func entryEnds(b []byte) ([]int, []*gpbft.GMessage) {
	var ends []int
	var ms []*gpbft.GMessage
	br := bytes.NewReader(b)
	cr := cbg.NewCborReader(br)
	for {
		var m gpbft.GMessage
		if err := m.UnmarshalCBOR(cr); err != nil {
			return ends, ms
		}
		ends = append(ends, len(b)-br.Len())
		ms = append(ms, &m)
	}
}

// ---- lifetimes ------------------------------------------------------------------------------

type lifeHandle struct {
	f      *f3.F3
	cancel context.CancelFunc
	wg     sync.WaitGroup
	idx    int
	// highest instance a request was issued for on THIS incarnation (gate)
	maxIssued atomic.Int64
}

func (s *stack) startLife() (*lifeHandle, error) {
	defer func(t0 time.Time) { tStart.Add(int64(time.Since(t0))) }(time.Now())
	idx := int(s.life.Add(1))
	f, err := f3.New(s.ctx, s.mfst, s.ds, s.nodeH, s.nodePS, s.signer, s.ec, s.disk)
	if err != nil {
		return nil, err
	}
	// wait (bounded) until the node's pubsub knows the observer subscribes to
	// the topic, otherwise the first messages are published to nobody.
	topic := s.mfst.PubSubTopic()
	ok := false
	for i := 0; i < 2000; i++ {
		for _, p := range s.nodePS.ListPeers(topic) {
			if p == s.obsH.ID() {
				ok = true
			}
		}
		if ok {
			break
		}
		time.Sleep(time.Millisecond)
	}
	if !ok {
		s.run.Count("steps_inconclusive_observer_not_connected", 1)
	}
	if dbg != "" {
		fmt.Printf("dbg %s life %d: observer known=%v nodePeers=%v obsPeers=%v observed=%d\n", s.id, idx, ok, s.nodePS.ListPeers(topic), s.obsPS.ListPeers(topic), s.nObserved.Load())
	}
	if dbg == "3" {
		fmt.Printf("dbg3 %s life %d starting at %s\n", s.id, idx, time.Now().Format("15:04:05.000"))
	}
	if err := f.Start(s.ctx); err != nil {
		return nil, err
	}
	if dbg == "3" {
		fmt.Printf("dbg3 %s life %d started at %s\n", s.id, idx, time.Now().Format("15:04:05.000"))
	}
	for i := 0; i < 500 && !f.IsRunning(); i++ {
		time.Sleep(time.Millisecond)
	}
	// A null tipset at the bootstrap epoch makes F3 wait for the next one: give
	// it EC time (bounded).
	for tries := 0; tries < 8 && !f.IsRunning(); tries++ {
		s.clk.Add(s.mfst.EC.Period)
		for i := 0; i < 200 && !f.IsRunning(); i++ {
			time.Sleep(time.Millisecond)
		}
	}
	if !f.IsRunning() {
		_ = f.Stop(s.ctx)
		return nil, fmt.Errorf("node did not start")
	}
	lctx, cancel := context.WithCancel(s.ctx)
	h := &lifeHandle{f: f, cancel: cancel, idx: idx}
	h.maxIssued.Store(-1)
	s.cur.Store(h)
	h.wg.Add(1)
	go func() {
		defer h.wg.Done()
		s.signLoop(lctx, h)
	}()
	return h, nil
}

var tStart, tStop, tTick, tOther atomic.Int64

func (s *stack) stopLife(h *lifeHandle) {
	defer func(t0 time.Time) { tStop.Add(int64(time.Since(t0))) }(time.Now())
	if dbg != "" {
		fmt.Printf("dbg %s life %d stopping: progress=%+v observed=%d nodePeers=%v obsPeers=%v\n", s.id, h.idx, h.f.Progress(), s.nObserved.Load(), s.nodePS.ListPeers(s.mfst.PubSubTopic()), s.obsPS.ListPeers(s.mfst.PubSubTopic()))
	}
	err := h.f.Stop(s.ctx)
	h.cancel()
	h.wg.Wait()
	if err != nil {
		s.mu.Lock()
		s.stopErrs++
		s.tainted = true // the topic may still be open for in-flight calls: ordering claims no longer sound
		s.mu.Unlock()
		s.run.Count("stop_errors", 1)
		fmt.Printf("note: case %d stack %s: Stop returned %v\n", s.caseIdx, s.id, err)
	}
}

// ---- requests --------------------------------------------------------------------------------

// broadcast issues one request through the public API under the gate.
//
// Gate: a request that may raise the filter's newest instance (the first
// request of an incarnation, or one for a higher instance than any issued on
// this incarnation before) is issued while no other harness request - on this
// or on an earlier incarnation - is in flight.
func (s *stack) broadcast(h *lifeHandle, sb *gpbft.SignatureBuilder, sig, vrf []byte, kind string, conflicting bool) {
	f := h.f
	inst := int64(sb.Payload.Instance)
	if kind != "honest" {
		s.mu.Lock()
		s.requests = append(s.requests, request{Kind: kind, Sender: sb.ParticipantID, Inst: sb.Payload.Instance, Round: sb.Payload.Round,
			Phase: sb.Payload.Phase.String(), Sig: hex.EncodeToString(sig), Life: int(s.life.Load()), WireLen: len(s.wire), Conflict: conflicting})
		s.mu.Unlock()
	}
	s.gate.RLock()
	if inst > h.maxIssued.Load() {
		s.gate.RUnlock()
		s.gate.Lock()
		if inst > h.maxIssued.Load() {
			h.maxIssued.Store(inst)
		}
		t0 := time.Now()
		f.Broadcast(s.ctx, sb, sig, vrf)
		s.gate.Unlock()
		if d := time.Since(t0); dbg == "3" && d > 20*time.Millisecond {
			fmt.Printf("dbg3 slow exclusive Broadcast %s %v\n", kind, d)
		}
		return
	}
	t0 := time.Now()
	f.Broadcast(s.ctx, sb, sig, vrf)
	s.gate.RUnlock()
	if d := time.Since(t0); dbg == "3" && d > 20*time.Millisecond {
		fmt.Printf("dbg3 slow Broadcast %s %v\n", kind, d)
	}
}

func (s *stack) sign(sb *gpbft.SignatureBuilder) ([]byte, []byte, error) {
	return sb.Sign(s.ctx, s.signer)
}

func (s *stack) remember(sb *gpbft.SignatureBuilder, sig, vrf []byte) {
	k := slotKey{sb.Payload.Instance, sb.ParticipantID, sb.Payload.Round, sb.Payload.Phase}
	s.mu.Lock()
	if _, ok := s.templates[k]; !ok {
		s.tmplOrder = append(s.tmplOrder, k)
	}
	s.templates[k] = &tmpl{sb: *sb, sig: sig, vrf: vrf}
	s.mu.Unlock()
}

func randomTipsetKey(r *rand.Rand) gpbft.TipSetKey {
	h := sha256.Sum256(binary.BigEndian.AppendUint64(nil, r.Uint64()))
	return append(append([]byte{}, gpbft.CidPrefix.Bytes()...), h[:]...)
}

// variant derives a request for the same slot as t with a different value
// (hence a different signature), valid for the node's own gossip validator
// wherever the harness can make it valid with the keys it holds (all of the
// power table's).
func (s *stack) variant(t *tmpl, r *rand.Rand) (*gpbft.SignatureBuilder, []byte, []byte, bool) {
	p := t.sb.Payload
	just := t.sb.Justification
	alt := func(v *gpbft.ECChain) *gpbft.ECChain {
		if v.IsZero() {
			return nil
		}
		if v.Len() > 1 && r.Intn(3) != 0 {
			return v.Prefix(r.Intn(v.Len() - 1))
		}
		return v.Extend(randomTipsetKey(r))
	}
	switch p.Phase {
	case gpbft.QUALITY_PHASE:
		p.Value = alt(p.Value)
		if p.Value == nil {
			return nil, nil, nil, false
		}
	case gpbft.PREPARE_PHASE, gpbft.CONVERGE_PHASE:
		p.Value = alt(p.Value)
		if p.Value == nil {
			return nil, nil, nil, false
		}
	case gpbft.COMMIT_PHASE:
		if !p.Value.IsZero() {
			p.Value = &gpbft.ECChain{}
			just = nil
		} else {
			return nil, nil, nil, false
		}
	case gpbft.DECIDE_PHASE:
		p.Value = alt(p.Value)
		if p.Value == nil {
			return nil, nil, nil, false
		}
		// a strong quorum of COMMITs for the alternative value: the harness
		// holds every key of the power table.
		cp := gpbft.Payload{Instance: p.Instance, Round: 0, Phase: gpbft.COMMIT_PHASE, SupplementalData: p.SupplementalData, Value: p.Value}
		var csigs [][]byte
		var idxs []int
		var set []uint64
		for i, pk := range s.pubKeys {
			csig, err := s.signer.Sign(s.ctx, pk, cp.MarshalForSigning(s.netName))
			if err != nil {
				return nil, nil, nil, false
			}
			csigs, idxs, set = append(csigs, csig), append(idxs, i), append(set, uint64(i))
		}
		agg, err := s.signer.Aggregate(s.pubKeys)
		if err != nil {
			return nil, nil, nil, false
		}
		asig, err := agg.Aggregate(idxs, csigs)
		if err != nil {
			return nil, nil, nil, false
		}
		just = &gpbft.Justification{Vote: cp, Signers: bitfield.NewFromSet(set), Signature: asig}
	default:
		return nil, nil, nil, false
	}
	sb := &gpbft.SignatureBuilder{
		NetworkName: t.sb.NetworkName, ParticipantID: t.sb.ParticipantID, Payload: p, Justification: just,
		PubKey: t.sb.PubKey, PayloadToSign: p.MarshalForSigning(t.sb.NetworkName), VRFToSign: t.sb.VRFToSign,
	}
	sig, vrf, err := s.sign(sb)
	if err != nil {
		return nil, nil, nil, false
	}
	return sb, sig, vrf, true
}

// future derives a QUALITY request for the instance after t's.
func (s *stack) future(t *tmpl) (*gpbft.SignatureBuilder, []byte, []byte, bool) {
	p := t.sb.Payload
	if p.Value.IsZero() {
		return nil, nil, nil, false
	}
	p.Instance++
	p.Round = 0
	p.Phase = gpbft.QUALITY_PHASE
	sb := &gpbft.SignatureBuilder{NetworkName: t.sb.NetworkName, ParticipantID: t.sb.ParticipantID, Payload: p,
		PubKey: t.sb.PubKey, PayloadToSign: p.MarshalForSigning(t.sb.NetworkName)}
	sig, vrf, err := s.sign(sb)
	if err != nil {
		return nil, nil, nil, false
	}
	return sb, sig, vrf, true
}

// signLoop is the signing client of one lifetime: it signs what the node asks
// for, and around that slips in conflicting requests for the same slot.
func (s *stack) signLoop(ctx context.Context, h *lifeHandle) {
	f, life := h.f, h.idx
	r := detRand(s.seed ^ int64(life)*7919)
	for {
		var mb *gpbft.MessageBuilder
		select {
		case mb = <-f.MessagesToSign():
		case <-ctx.Done():
			return
		}
		if dbg == "3" {
			fmt.Printf("dbg3 %s life %d builder i=%d r=%d %s at %s\n", s.id, life, mb.Payload.Instance, mb.Payload.Round, mb.Payload.Phase, time.Now().Format("15:04:05.000"))
		}
		for s.withhold.Load() && ctx.Err() == nil {
			time.Sleep(500 * time.Microsecond)
		}
		// the signing client answers for every local identity, in an order
		// that varies from builder to builder
		ids := append([]gpbft.ActorID(nil), s.ids...)
		if len(ids) > 1 && r.Intn(2) == 0 {
			ids[0], ids[1] = ids[1], ids[0]
		}
		for _, id := range ids {
			sb, err := mb.PrepareSigningInputs(id)
			if err != nil {
				continue
			}
			sig, vrf, err := s.sign(sb)
			if err != nil {
				continue
			}
			s.nSigned.Add(1)
			t := &tmpl{sb: *sb, sig: sig, vrf: vrf}
			roll := r.Intn(100)
			if roll < 6 {
				// the conflicting request gets there first
				if vsb, vsig, vvrf, ok := s.variant(t, r); ok {
					s.broadcast(h, vsb, vsig, vvrf, "conflict-before", true)
				}
			}
			s.remember(sb, sig, vrf)
			s.broadcast(h, sb, sig, vrf, "honest", false)
			switch {
			case roll >= 6 && roll < 40:
				if vsb, vsig, vvrf, ok := s.variant(t, r); ok {
					s.broadcast(h, vsb, vsig, vvrf, "conflict-after", true)
				}
			case roll >= 40 && roll < 50:
				s.broadcast(h, sb, sig, vrf, "duplicate", false)
			}
		}
	}
}

// burst issues conflicting / old / duplicate requests from several goroutines.
func (s *stack) burst(seed int64, goroutines, perG int, target *uint64) {
	for g := 0; g < goroutines; g++ {
		s.reqWG.Add(1)
		go func(g int) {
			defer s.reqWG.Done()
			r := detRand(seed + int64(g)*104729)
			for k := 0; k < perG; k++ {
				h := s.cur.Load()
				if h == nil {
					return
				}
				s.mu.Lock()
				n := len(s.tmplOrder)
				var t *tmpl
				var curInst uint64
				if n > 0 {
					curInst = s.tmplOrder[n-1].Inst
					var cands []slotKey
					for i := n - 1; i >= 0 && i >= n-24*len(s.ids); i-- {
						cands = append(cands, s.tmplOrder[i])
					}
					if target != nil {
						var only []slotKey
						for _, c := range cands {
							if c.Inst == *target {
								only = append(only, c)
							}
						}
						if len(only) > 0 {
							cands = only
						}
					}
					c := *s.templates[cands[r.Intn(len(cands))]]
					t = &c
				}
				s.mu.Unlock()
				if t == nil {
					return
				}
				older := t.sb.Payload.Instance < curInst
				switch x := r.Intn(10); {
				case x < 7:
					if vsb, vsig, vvrf, ok := s.variant(t, r); ok {
						kind := "conflict"
						if older {
							kind = "conflict-older-instance"
						}
						s.broadcast(h, vsb, vsig, vvrf, kind, true)
					}
				default:
					kind := "duplicate"
					if older {
						kind = "replay-older-instance"
					}
					sb := t.sb
					s.broadcast(h, &sb, t.sig, t.vrf, kind, false)
				}
				if r.Intn(3) == 0 {
					runtime.Gosched()
				}
			}
		}(g)
	}
}

// ---- crash forks ---------------------------------------------------------------------------------

type forkSnap struct {
	id        string
	prefix    []wireMsg
	future    map[uint64]bool
	templates map[slotKey]*tmpl
	tmplOrder []slotKey
	dsEntries []dsq.Entry
	now       time.Time
	shift     int64
	mfst      manifest.Manifest // the manifest the crashed process ran with
	tune      int
	img       *walImage
	cutAt     int // -1: tail not cut
	inflight  bool
	life      int
}

// snapshot takes a crash image: first the wire log as observed so far, THEN
// the datastore, THEN the WAL directory. Everything in the wire prefix was
// published before the WAL was read, so under "durably before publish" it is
// in the image.
func (s *stack) snapshot(id string, inflight bool) *forkSnap {
	sn := &forkSnap{id: id, inflight: inflight, cutAt: -1, future: map[uint64]bool{}, templates: map[slotKey]*tmpl{}}
	s.mu.Lock()
	sn.prefix = append([]wireMsg(nil), s.wire...)
	// the node's publish order (seqno), not the order of arrival at the observer
	ownPart := sn.prefix[s.prefixLen:]
	sort.SliceStable(ownPart, func(i, j int) bool { return ownPart[i].Seqno < ownPart[j].Seqno })
	for k, v := range s.futureBump {
		sn.future[k] = v
	}
	for k, v := range s.templates {
		c := *v
		sn.templates[k] = &c
	}
	sn.tmplOrder = append([]slotKey(nil), s.tmplOrder...)
	tainted := s.tainted
	s.mu.Unlock()
	sn.life = int(s.life.Load())
	res, err := s.ds.Query(s.ctx, dsq.Query{})
	if err != nil {
		return nil
	}
	sn.dsEntries, err = res.Rest()
	if err != nil {
		return nil
	}
	sn.now = s.clk.Now()
	sn.shift = s.ec.shift.Load()
	sn.mfst, sn.tune = s.mfst, s.tune
	img, err := readWALImage(s.walRoot())
	if err != nil || len(img.dirs) == 0 {
		return nil
	}
	sn.img = img
	// Oracle 3 at the crash instant: every message of the wire prefix is in the image.
	inImg := map[string]bool{}
	var imgMax uint64
	imgMsgs, err := img.parse(filepath.Join(s.disk, "snap-walcopy")) // production reader on a copy
	if err != nil {
		return nil
	}
	for _, m := range imgMsgs {
		inImg[msgID(m)] = true
		if m.Vote.Instance > imgMax {
			imgMax = m.Vote.Instance
		}
	}
	lastEnds, lastMsgs := []int(nil), []*gpbft.GMessage(nil)
	if n := len(img.data); n > 0 {
		lastEnds, lastMsgs = entryEnds(img.data[n-1])
	}
	var wireMax uint64
	for i := range sn.prefix {
		if sn.prefix[i].Inst > wireMax {
			wireMax = sn.prefix[i].Inst
		}
	}
	if !tainted {
		for i := range sn.prefix {
			w := &sn.prefix[i]
			// Inherited entries were checked when this stack itself was forked
			// (and its image was cut so as to keep them, or they were already
			// purged then); only what this stack's own node published is due.
			if !w.Own || inImg[w.id()] {
				continue
			}
			if max(imgMax, wireMax) >= w.Inst+purgeHorizon {
				s.nPurgeExcusedImg.Add(1)
				continue
			}
			s.run.Violation(fmt.Sprintf("crash image: a %s message already observed on the wire is absent from the WAL directory copied afterwards (a crash here forgets a published message)", w.Phase),
				map[string]any{"case": s.caseIdx, "stack": s.id, "fork": id, "message": *w, "wal_files": img.names})
			break
		}
	}
	// Torn tail: cut the newest file at a random byte that keeps every entry
	// the wire prefix depends on (those were fsynced before they were published).
	// (Only with a single log directory, where "the newest file" is well defined.)
	if n := len(img.data); n > 0 && s.rng.Intn(100) < 60 && len(img.dirs) == 1 {
		inPrefix := map[string]bool{}
		for i := range sn.prefix {
			inPrefix[sn.prefix[i].id()] = true
		}
		safe := 0
		for i, m := range lastMsgs {
			if inPrefix[msgID(m)] {
				safe = lastEnds[i]
			}
		}
		size := len(img.data[n-1])
		if size > safe {
			cut := safe + s.rng.Intn(size-safe+1)
			img.data[n-1] = img.data[n-1][:cut]
			sn.cutAt = cut
		}
	}
	return sn
}

func (s *stack) forkFrom(sn *forkSnap, root string) (*stack, error) {
	f, err := newStack(s.run, s.caseIdx, sn.id, s.depth+1, s.seed^int64(len(sn.prefix))*31+int64(s.depth+1), root, s.key, sn.mfst.PubSub.CompressionEnabled, len(s.ids))
	if err != nil {
		return nil, err
	}
	// a crash restart comes back with the manifest the crashed process had
	f.mfst, f.tune = sn.mfst, sn.tune
	f.clk.Set(sn.now)
	f.ec.shift.Store(sn.shift)
	for _, e := range sn.dsEntries {
		if err := f.ds.Put(f.ctx, datastore.NewKey(e.Key), e.Value); err != nil {
			f.close()
			return nil, err
		}
	}
	if err := sn.img.writeTo(f.walRoot()); err != nil {
		f.close()
		return nil, err
	}
	f.wire = make([]wireMsg, len(sn.prefix))
	for i := range sn.prefix {
		f.wire[i] = sn.prefix[i]
		f.wire[i].Own = false
		if f.wire[i].Inst > f.wireMaxInst {
			f.wireMaxInst = f.wire[i].Inst
		}
	}
	f.prefixLen = len(sn.prefix)
	f.futureBump = sn.future
	f.templates = sn.templates
	f.tmplOrder = sn.tmplOrder
	f.life.Store(int64(sn.life))
	// what the new process can read back from its disk
	if msgs, err := readWALTree(f.walRoot(), sn.img.dirs); err == nil {
		for _, m := range msgs {
			f.walSeen[msgID(m)] = true
			if m.Vote.Instance > f.walMaxInst {
				f.walMaxInst = m.Vote.Instance
			}
		}
	}
	return f, nil
}

// ---- driver ------------------------------------------------------------------------------------------

func (s *stack) tick() {
	defer func(t0 time.Time) { tTick.Add(int64(time.Since(t0))) }(time.Now())
	var d time.Duration
	switch x := s.rng.Intn(100); {
	case x < 25:
		d = time.Duration(100+s.rng.Intn(800)) * time.Millisecond
	case x < 75:
		d = time.Duration(2000+s.rng.Intn(4000)) * time.Millisecond
	default:
		d = time.Duration(8000+s.rng.Intn(6000)) * time.Millisecond
	}
	s.clk.Add(d)
	if s.rng.Intn(100) < 70 {
		s.settle(3, 150*time.Millisecond)
	} else {
		time.Sleep(time.Duration(1+s.rng.Intn(2)) * time.Millisecond)
	}
}

// settle lets the asynchronous sign / publish / deliver round trips triggered
// by the last step play out: it returns once nothing was signed or observed for
// `quiet` consecutive polls, or after maxWait (pacing only, never a verdict).
func (s *stack) settle(quiet int, maxWait time.Duration) {
	deadline := time.Now().Add(maxWait)
	last, q := int64(-1), 0
	for time.Now().Before(deadline) {
		n := s.nObserved.Load() + s.nSigned.Load()
		if n == last {
			q++
			if q >= quiet {
				return
			}
		} else {
			q, last = 0, n
		}
		time.Sleep(time.Millisecond)
	}
}

// drain waits (bounded, real time; affects only how much is observed, never a
// verdict) until the wire log stops growing.
func (s *stack) drain(maxWait time.Duration) {
	deadline := time.Now().Add(maxWait)
	last, quiet := int64(-1), 0
	for time.Now().Before(deadline) {
		n := s.nObserved.Load()
		if n == last {
			quiet++
			if quiet >= 8 {
				return
			}
		} else {
			quiet, last = 0, n
		}
		time.Sleep(2 * time.Millisecond)
	}
	s.run.Count("steps_inconclusive_drain_timeout", 1)
}

type lineageStats struct {
	restarts, tunedRestarts, forks, forksInflight, forksCut, lifetimes, futureBumps, storms int64
}

// runLineage drives one stack through several lifetimes; snapshots taken on
// the way are returned for the caller to run as forks.
func (s *stack) runLineage(cfg nodeCfg, lifetimes int, wantForks int, st *lineageStats) []*forkSnap {
	var snaps []*forkSnap
	forkNo := 0
	takeSnap := func(inflight bool) {
		if len(snaps) >= wantForks {
			return
		}
		forkNo++
		if sn := s.snapshot(fmt.Sprintf("%s/f%d", s.id, forkNo), inflight); sn != nil {
			snaps = append(snaps, sn)
			atomic.AddInt64(&st.forks, 1)
			if inflight {
				atomic.AddInt64(&st.forksInflight, 1)
			}
			if sn.cutAt >= 0 {
				atomic.AddInt64(&st.forksCut, 1)
			}
		}
	}
	// crash instants are planned up front, uniformly over the lineage
	type forkPoint struct{ life, permille int }
	var plan []forkPoint
	for i := 0; i < wantForks; i++ {
		plan = append(plan, forkPoint{s.rng.Intn(lifetimes), s.rng.Intn(1000)})
	}
	for life := 0; life < lifetimes; life++ {
		h, err := s.startLife()
		if err != nil {
			s.run.Count("steps_inconclusive_start_failed", 1)
			fmt.Printf("note: case %d stack %s: start failed: %v\n", s.caseIdx, s.id, err)
			return snaps
		}
		atomic.AddInt64(&st.lifetimes, 1)
		last := life == lifetimes-1
		steps := cfg.stepsMin + s.rng.Intn(cfg.stepsMax-cfg.stepsMin+1)
		forkSteps := map[int]bool{}
		for _, fp := range plan {
			if fp.life == life {
				forkSteps[fp.permille*steps/1000] = true
			}
		}
		if s.depth > 0 && life == 0 {
			// fresh crash image: go for the slots the previous process already used
			s.mu.Lock()
			tgt := s.wireMaxInst
			s.mu.Unlock()
			s.burst(s.rng.Int63(), 3, 4, &tgt)
			s.settle(3, 100*time.Millisecond)
		}
		withheldFor := 0
		for step := 0; step < steps; step++ {
			if forkSteps[step] {
				inflight := s.rng.Intn(2) == 0
				if inflight {
					s.burst(s.rng.Int63(), 3, 3, nil)
					if s.rng.Intn(2) == 0 {
						runtime.Gosched()
					}
				}
				takeSnap(inflight)
			}
			switch x := s.rng.Intn(100); {
			case x < 70:
				s.tick()
			case x < 90:
				s.burst(s.rng.Int63(), 1+s.rng.Intn(3), 1+s.rng.Intn(4), nil)
				if s.rng.Intn(2) == 0 {
					s.tick()
				}
			default:
				if withheldFor == 0 {
					s.withhold.Store(true)
					withheldFor = 2 + s.rng.Intn(4)
				}
				s.tick()
			}
			if withheldFor > 0 {
				withheldFor--
				if withheldFor == 0 {
					s.withhold.Store(false)
				}
			}
		}
		s.withhold.Store(false)
		if last && s.rng.Intn(100) < 70 {
			s.futureAttack(h, st)
		}
		if s.rng.Intn(100) < 30 {
			// requests in flight while the node goes down
			s.burst(s.rng.Int63(), 2, 3, nil)
		}
		s.stopLife(h)
		if !last {
			atomic.AddInt64(&st.restarts, 1)
			// the world moves on while the node is down: another EC head on re-entry
			s.ec.shift.Store(int64(s.rng.Intn(3)))
			if s.rng.Intn(100) < 70 {
				s.clk.Add(time.Duration(s.rng.Intn(25000)) * time.Millisecond)
			}
			// ... and the operator may ship adjusted tuning parameters for the
			// same network with the restart
			// (the second restart of every root lineage always does, so that no
			// lineage goes without)
			if s.rngX.Intn(100) < 40 || (s.depth == 0 && life == 1) {
				s.tune++
				s.mfst = tunedManifest(s.mfst, s.tune)
				atomic.AddInt64(&st.tunedRestarts, 1)
			}
		}
	}
	s.reqWG.Wait()
	s.drain(400 * time.Millisecond)
	return snaps
}

// futureAttack asks the node to broadcast for the NEXT instance while it is
// still working on the current one, then provokes rebroadcast storms and a
// restart: nothing for the current instance may reach the wire afterwards
// (one rebroadcast already past the filter is tolerated, see checkOrder).
func (s *stack) futureAttack(h *lifeHandle, st *lineageStats) {
	s.reqWG.Wait() // no harness request in flight
	s.mu.Lock()
	var t *tmpl
	if n := len(s.tmplOrder); n > 0 {
		c := *s.templates[s.tmplOrder[n-1]]
		t = &c
	}
	s.mu.Unlock()
	if t == nil {
		return
	}
	sb, sig, vrf, ok := s.future(t)
	if !ok {
		return
	}
	s.mu.Lock()
	s.futureBump[sb.Payload.Instance] = true
	s.mu.Unlock()
	atomic.AddInt64(&st.futureBumps, 1)
	s.broadcast(h, sb, sig, vrf, "future-instance", false)
	for i := 0; i < 6+s.rng.Intn(6); i++ {
		s.clk.Add(time.Duration(3000+s.rng.Intn(3000)) * time.Millisecond)
		time.Sleep(2 * time.Millisecond)
		if s.rng.Intn(3) == 0 {
			s.burst(s.rng.Int63(), 2, 2, nil)
		}
	}
	atomic.AddInt64(&st.storms, 1)
}

// ---- offline oracles over one (forked) wire log ---------------------------------------------------------------

// checkWire judges the complete wire log of one stack (inherited prefix first,
// then the stack's own observations in the node's publish order).
//
// Soundness of the ordering rule under concurrency. The filter decision and
// the publish are not one atomic step, so two overlapping requests may reach
// the wire in the opposite order of their filter decisions. The harness
// therefore issues every request that may raise the filter's instance (first
// request of a lifetime, first request for a higher instance, the
// "future-instance" request) while no other harness request is in flight
// (gate). The only other publisher is the runner goroutine's rebroadcast,
// which is sequential: when the node itself moves to a new instance nothing of
// the old one is in flight; when the HARNESS raises the instance at most one
// rebroadcast may be between its filter decision and its publish. Hence: zero
// older-instance messages after a node-made bump, at most one after a
// harness-made one.
func (s *stack) checkWire() (equivPairs, inversions, tolerated int) {
	s.mu.Lock()
	wire := append([]wireMsg(nil), s.wire...)
	prefixLen := s.prefixLen
	future := map[uint64]bool{}
	for k, v := range s.futureBump {
		future[k] = v
	}
	tainted := s.tainted
	reqs := append([]request(nil), s.requests...)
	s.mu.Unlock()
	own := wire[prefixLen:]
	reordered := 0
	for i := 1; i < len(own); i++ {
		if own[i].Seqno < own[i-1].Seqno {
			reordered++
		}
	}
	if reordered > 0 {
		s.run.Count("wire_deliveries_out_of_publish_order", int64(reordered))
	}
	sort.SliceStable(own, func(i, j int) bool { return own[i].Seqno < own[j].Seqno })

	reqBySig := map[string]request{}
	for _, r := range reqs {
		reqBySig[r.Sig] = r
	}
	// Oracle 1: one signature per (instance, sender, round, phase).
	first := map[slotKey]*wireMsg{}
	for i := range wire {
		w := &wire[i]
		if f, ok := first[w.slot()]; ok {
			if f.Sig != w.Sig && w.Own { // pairs inside the inherited prefix were judged in the parent
				equivPairs++
				across := "within one lifetime"
				if !f.Own && w.Own {
					across = "across a crash restart"
				} else if f.Life != w.Life {
					across = "across a restart"
				}
				wit := map[string]any{"case": s.caseIdx, "stack": s.id, "first": *f, "second": *w}
				if r, ok := reqBySig[w.Sig]; ok {
					wit["second_caused_by_request"] = r
				}
				if r, ok := reqBySig[f.Sig]; ok {
					wit["first_caused_by_request"] = r
				}
				s.run.Violation(fmt.Sprintf("wire: two differently signed %s messages for one (instance, sender, round, phase) observed on the node's topic, %s", w.Phase, across), wit)
			}
			continue
		}
		first[w.slot()] = w
	}
	// Oracle 2: never a message for an instance older than one already broadcast for.
	if !tainted {
		var maxInst uint64
		var maxAt *wireMsg
		used := map[uint64]bool{}
		for i := range wire {
			w := &wire[i]
			if maxAt == nil || w.Inst > maxInst {
				maxInst, maxAt = w.Inst, w
				continue
			}
			if w.Inst == maxInst {
				continue
			}
			// older instance after a newer one
			excused := false
			for j := w.Inst + 1; j <= maxInst; j++ {
				if future[j] && !used[j] {
					used[j] = true
					excused = true
					break
				}
			}
			if !w.Own {
				continue // inside the inherited prefix: judged in the parent
			}
			if excused {
				tolerated++
				continue
			}
			inversions++
			how := "in the same lifetime"
			if !maxAt.Own && w.Own {
				how = "after a crash restart"
			} else if maxAt.Life != w.Life {
				how = "after a restart"
			}
			wit := map[string]any{"case": s.caseIdx, "stack": s.id, "newer_seen_first": *maxAt, "older_seen_later": *w}
			if r, ok := reqBySig[w.Sig]; ok {
				wit["caused_by_request"] = r
			}
			s.run.Violation(fmt.Sprintf("wire: a %s message for an instance older than one already observed from this node reached the topic %s", w.Phase, how), wit)
		}
	}
	return
}

func (s *stack) tally(agg *sync.Map) {
	s.mu.Lock()
	onWire := map[string]bool{}
	for i := range s.wire {
		onWire[s.wire[i].Sig] = true
	}
	var issued, suppressed, confl, conflSupp, older, olderSupp int64
	var twoConfl, twoConflSupp [2]int64 // per local identity, two-identity stacks only
	kinds := map[string]int64{}
	for _, r := range s.requests {
		issued++
		kinds[r.Kind]++
		sup := !onWire[r.Sig]
		if sup {
			suppressed++
		}
		if r.Conflict {
			confl++
			if sup {
				conflSupp++
			}
			if len(s.ids) == 2 {
				k := 0
				if r.Sender == s.ids[1] {
					k = 1
				}
				twoConfl[k]++
				if sup {
					twoConflSupp[k]++
				}
			}
		}
		if r.Kind == "conflict-older-instance" || r.Kind == "replay-older-instance" {
			older++
			if sup {
				olderSupp++
			}
		}
	}
	ownN := int64(len(s.wire) - s.prefixLen)
	// slots of this stack's own node per sender (two-identity stacks)
	var ownBySender [2]int64
	if len(s.ids) == 2 {
		for i := s.prefixLen; i < len(s.wire); i++ {
			if s.wire[i].Sender == s.ids[1] {
				ownBySender[1]++
			} else {
				ownBySender[0]++
			}
		}
	}
	s.mu.Unlock()
	add := func(k string, v int64) {
		if v == 0 {
			return
		}
		p, _ := agg.LoadOrStore(k, new(int64))
		atomic.AddInt64(p.(*int64), v)
	}
	add("wire_messages_observed", ownN)
	add("requests_nonhonest_issued", issued)
	add("requests_nonhonest_not_on_wire", suppressed)
	add("conflicting_requests_issued", confl)
	add("conflicting_requests_suppressed", conflSupp)
	if len(s.ids) == 2 {
		add("stacks_with_two_identities", 1)
		add("two_identity_stacks_wire_messages_first_identity", ownBySender[0])
		add("two_identity_stacks_wire_messages_second_identity", ownBySender[1])
		add("two_identity_stacks_conflicting_requests_issued_first_identity", twoConfl[0])
		add("two_identity_stacks_conflicting_requests_issued_second_identity", twoConfl[1])
		add("two_identity_stacks_conflicting_requests_suppressed_first_identity", twoConflSupp[0])
		add("two_identity_stacks_conflicting_requests_suppressed_second_identity", twoConflSupp[1])
	}
	add("older_instance_requests_issued", older)
	add("older_instance_requests_suppressed", olderSupp)
	for k, v := range kinds {
		add("requests_kind_"+k, v)
	}
	add("wal_reads_at_observation", s.nWALReads.Load())
	add("wal_miss_at_observation_excused_by_purge_horizon", s.nPurgeExcused.Load())
	add("wal_miss_in_crash_image_excused_by_purge_horizon", s.nPurgeExcusedImg.Load())
	add("observer_decode_or_read_errors", s.nDecodeErr.Load())
	add("observer_foreign_messages", s.nForeign.Load())
}

// ---- TestCheckNode ---------------------------------------------------------------------------------------------------

// TestCheckNode is part "node" (no race detector: the libp2p stack is an order
// of magnitude slower under -race); TestCheckNodeRace is part "node-race", the
// same workload on fewer, shorter lineages with the race detector on.
func TestCheckNode(t *testing.T) { runNode(t, "node", false) }

func TestCheckNodeRace(t *testing.T) { runNode(t, "node-race", true) }

func runNode(t *testing.T, part string, small bool) {
	_ = logging.SetLogLevel("*", "fatal")
	if lv := os.Getenv("C12_LOG"); lv != "" {
		_ = logging.SetLogLevel("f3", lv)
		_ = logging.SetLogLevel("f3/gpbft", lv)
	}
	// As the repo's own node tests: identify gossip messages by (author, seqno)
	// so that a rebroadcast of identical bytes is a separate wire message
	// instead of being swallowed by the hash-based de-duplication.
	psutil.GPBFTMessageIdFn = pubsub.DefaultMsgIdFn
	psutil.ChainExchangeMessageIdFn = pubsub.DefaultMsgIdFn
	psutil.ManifestMessageIdFn = pubsub.DefaultMsgIdFn

	run := vkit.New("C12", part, "fault_enumeration")
	cfg := nodeCfg{cases: run.N(6, 240), lifetimes: 7, stepsMin: 12, stepsMax: 40, forksPerRun: 3}
	if small {
		cfg = nodeCfg{cases: run.N(1, 12), lifetimes: 2, stepsMin: 10, stepsMax: 20, forksPerRun: 1}
	}
	run.SetRule("each case is one node: a real f3.F3 (mocknet + gossipsub + FakeEC + mock clock + map datastore + real WAL directory) signing for the whole power table - one identity, or (every third case, index%3==0) two local identities of equal power for both of which the harness plays the signing client and the attacker - driven through several lifetimes (Stop / New+Start over the same datastore and disk path, clock and EC head moved while down, 40% of the restarts, and the second one of every root lineage, with a manifest that differs only in tuning parameters: Gpbft.RebroadcastBackoffMax, CertificateExchange.MaximumPollInterval) by a seeded script of clock advances, signature withholding (rebroadcast storms), bursts of conflicting / duplicate / older-instance requests from several goroutines through F3.Broadcast, a final future-instance request, and crash forks (wire log, datastore and WAL directory copied at an arbitrary instant, tail optionally cut at a random byte no earlier than the last published entry) each run as a new node on the copy and attacked on the slots already used; an observer pubsub peer records the wire; distinct = (case, stack, lifetime) with at least one conflicting request kept off the wire")
	run.Assume("no storage errors are injected; no other node uses the identities",
		"a manifest that keeps the network name, bootstrap epoch, initial instance and all consensus parameters and changes only RebroadcastBackoffMax / MaximumPollInterval is a restart of the same node on the same network; the WAL of the oracles is everything below <disk path>/wal (no assumption on how the node names the log directory)",
		"the observer may miss messages (only what it saw is judged); awaiting delivery uses bounded polling whose expiry is counted, never judged",
		"ordering claims rely on the request gate described at checkWire: a request that may raise the filter's instance is never concurrent with another harness request; one in-flight rebroadcast is tolerated after a harness-made future-instance request",
		"gossip message ids are (author, seqno) as in the repo's own node tests; WAL entries older than 6 instances behind the newest seen are excused from the WAL-presence check (purge)")

	root, cleanup := run.Scratch()
	defer cleanup()

	var agg sync.Map
	var st lineageStats
	var stacks, equiv, inv, tol int64
	var distinctMu sync.Mutex

	runStack := func(s *stack, lifetimes, wantForks int) []*forkSnap {
		snaps := s.runLineage(cfg, lifetimes, wantForks, &st)
		e, i, tl := s.checkWire()
		atomic.AddInt64(&equiv, int64(e))
		atomic.AddInt64(&inv, int64(i))
		atomic.AddInt64(&tol, int64(tl))
		s.tally(&agg)
		atomic.AddInt64(&stacks, 1)
		// distinct non-trivial: lifetimes in which a conflicting request was kept off the wire
		s.mu.Lock()
		onWire := map[string]bool{}
		for i := range s.wire {
			onWire[s.wire[i].Sig] = true
		}
		lives := map[int]bool{}
		for _, r := range s.requests {
			if r.Conflict && !onWire[r.Sig] {
				lives[r.Life] = true
			}
		}
		nw := len(s.wire)
		s.mu.Unlock()
		distinctMu.Lock()
		for l := range lives {
			run.Distinct(fmt.Sprintf("%d|%s|%d", s.caseIdx, s.id, l))
		}
		distinctMu.Unlock()
		run.Sample(map[string]any{"case": s.caseIdx, "stack": s.id, "wire_len": nw, "lifetimes": lifetimes, "forks_taken": len(snaps)})
		if dbg != "" {
			s.mu.Lock()
			fmt.Printf("--- stack %s prefix=%d\n", s.id, s.prefixLen)
			for _, w := range s.wire {
				fmt.Printf("  obs=%d own=%v life=%d seq=%d i=%d r=%d %s sig=%s v=%s\n", w.Obs, w.Own, w.Life, w.Seqno%100000, w.Inst, w.Round, w.Phase, w.Sig[:8], w.VKey)
			}
			for _, r := range s.requests {
				if dbg != "2" {
					break
				}
				fmt.Printf("  req %s life=%d i=%d r=%d %s sig=%s at=%d onwire=%v\n", r.Kind, r.Life, r.Inst, r.Round, r.Phase, r.Sig[:8], r.WireLen, onWire[r.Sig])
			}
			s.mu.Unlock()
		}
		return snaps
	}

	workers := max(2, min(runtime.GOMAXPROCS(0), 12))
	vkit.Parallel(cfg.cases, workers, func(i int) {
		if run.Case >= 0 && int64(i) != run.Case {
			return
		}
		seed := run.SubSeed(int64(i))
		run.Eval(1)
		key, _, err := crypto.GenerateEd25519Key(detReader{detRand(seed)})
		if err != nil {
			run.Count("steps_inconclusive_start_failed", 1)
			return
		}
		caseRoot := filepath.Join(root, fmt.Sprintf("case%d", i))
		nIDs := 1
		if i%3 == 0 {
			nIDs = 2
		}
		s, err := newStack(run, i, fmt.Sprintf("c%d", i), 0, seed, caseRoot, key, seed%2 == 0, nIDs)
		if err != nil {
			run.Count("steps_inconclusive_start_failed", 1)
			fmt.Printf("note: case %d: stack failed: %v\n", i, err)
			return
		}
		snaps := runStack(s, cfg.lifetimes+1, cfg.forksPerRun)
		s.close()
		for _, sn := range snaps {
			f, err := s.forkFrom(sn, caseRoot)
			if err != nil {
				run.Count("steps_inconclusive_start_failed", 1)
				fmt.Printf("note: case %d: fork failed: %v\n", i, err)
				continue
			}
			nested := 0
			if f.rng.Intn(3) == 0 {
				nested = 1
			}
			sub := runStack(f, 1+f.rng.Intn(2), nested)
			f.close()
			for _, sn2 := range sub {
				f2, err := f.forkFrom(sn2, caseRoot)
				if err != nil {
					continue
				}
				runStack(f2, 1, 0)
				f2.close()
			}
		}
		_ = os.RemoveAll(caseRoot)
	})

	agg.Range(func(k, v any) bool {
		run.Count(k.(string), atomic.LoadInt64(v.(*int64)))
		return true
	})
	run.Count("stacks_run", stacks)
	run.Count("node_lifetimes", st.lifetimes)
	run.Count("restarts", st.restarts)
	run.Count("restarts_with_tuned_manifest", st.tunedRestarts)
	run.Count("crash_forks", st.forks)
	run.Count("crash_forks_with_requests_in_flight", st.forksInflight)
	run.Count("crash_forks_with_cut_tail", st.forksCut)
	run.Count("future_instance_requests", st.futureBumps)
	run.Count("rebroadcast_storms_after_future_request", st.storms)
	run.Count("wire_equivocation_pairs", equiv)
	run.Count("wire_older_instance_messages", inv)
	run.Count("wire_older_instance_tolerated_inflight_rebroadcast", tol)

	if run.Case < 0 {
		floor := int64(10 * cfg.cases)
		if small {
			floor = int64(3 * cfg.cases)
		}
		if run.Counter("wire_messages_observed") < floor ||
			run.Counter("conflicting_requests_suppressed") < int64(cfg.cases) ||
			st.restarts < int64(cfg.cases) || st.forks < 1 {
			run.Inconclusive("too-few-events")
		}
		// the two-identity share (cases 0, 3, 6, ...) and the tuned-manifest restarts
		if run.Counter("stacks_with_two_identities") < 1 ||
			run.Counter("two_identity_stacks_wire_messages_first_identity") < floor/6 ||
			run.Counter("two_identity_stacks_wire_messages_second_identity") < floor/6 ||
			run.Counter("two_identity_stacks_conflicting_requests_suppressed_first_identity") < 1 ||
			run.Counter("two_identity_stacks_conflicting_requests_suppressed_second_identity") < 1 ||
			st.tunedRestarts < 1 || (!small && st.tunedRestarts < int64(cfg.cases)) {
			run.Inconclusive("too-few-events")
		}
	}
	fmt.Printf("timing (summed over workers): start=%v stop=%v tick=%v\n", time.Duration(tStart.Load()), time.Duration(tStop.Load()), time.Duration(tTick.Load()))
	rc := run.Finish()
	if rc != 0 {
		t.Fail()
	}
	if rc == 2 {
		os.Exit(2)
	}
}
