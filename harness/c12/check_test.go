// Package c12 monitors property C12: a node never self-equivocates on the
// wire, across requests and restarts.
//
// Part "filter" (this file, TestCheck): exhaustive small-domain enumeration of
// request/restart sequences against the production equivocation filter.
// Part "node" (node_test.go, TestCheckNode): a real f3.F3 node observed by a
// libp2p pubsub peer, with conflicting requests, restarts and crash forks.
package c12

import (
	"fmt"
	"os"
	"runtime"
	"strings"
	"sync"
	"testing"

	f3 "github.com/filecoin-project/go-f3"
	"github.com/filecoin-project/go-f3/gpbft"
	"github.com/filecoin-project/go-f3/verifh/vkit"
	logging "github.com/ipfs/go-log/v2"
	"github.com/libp2p/go-libp2p/core/peer"
)

// ---- alphabet ---------------------------------------------------------------
//
// symbol 0..23: request  = instance(3) x round(2) x phase(2) x signature(2)
// symbol 24   : restart reloading the accepted log

// alpha is one request alphabet; the enumeration is run once per alphabet.
type alpha struct {
	name                        string
	nInst, nRound, nPhase, nSig int
	rounds                      []uint64 // round value of round index k
	phases                      []gpbft.Phase
}

var alphabets = []alpha{
	// symbol 0..23: request = instance(3) x round(2) x phase(2) x signature(2); symbol 24: restart
	{"A: instance 0..2 x round 0..1 x phase QUALITY|PREPARE x signature s1|s2", 3, 2, 2, 2, []uint64{0, 1}, []gpbft.Phase{gpbft.QUALITY_PHASE, gpbft.PREPARE_PHASE}},
	// rounds further apart (a slot may lie several rounds behind the newest one): 16 requests + restart
	{"B: instance 0..1 x round 0|1|2|5 x phase PREPARE x signature s1|s2", 2, 4, 1, 2, []uint64{0, 1, 2, 5}, []gpbft.Phase{gpbft.PREPARE_PHASE}},
}

const maxSlots = 16
const caseStride = 100000

var (
	nInst, nRound, nPhase, nSig, nReq, symStart, nSym, nSlots int
	roundVals                                                 []uint64
	phases                                                    []gpbft.Phase
)

func useAlphabet(a alpha) {
	nInst, nRound, nPhase, nSig = a.nInst, a.nRound, a.nPhase, a.nSig
	nReq = nInst * nRound * nPhase * nSig
	symStart, nSym, nSlots = nReq, nReq+1, nInst*nRound*nPhase
	roundVals, phases = a.rounds, a.phases
	if nSlots > maxSlots {
		panic("alphabet too large")
	}
}

func symInst(s int) int  { return s / (nRound * nPhase * nSig) }
func symRound(s int) int { return (s / (nPhase * nSig)) % nRound }
func symPhase(s int) int { return (s / nSig) % nPhase }
func symSig(s int) int   { return s % nSig }
func symSlot(s int) int  { return s / nSig }

func symString(s int) string {
	if s == symStart {
		return "RESTART"
	}
	return fmt.Sprintf("req(i=%d,r=%d,%s,s%d)", symInst(s), roundVals[symRound(s)], phases[symPhase(s)], symSig(s)+1)
}

func seqString(seq []int) string {
	parts := make([]string, len(seq))
	for i, s := range seq {
		parts[i] = symString(s)
	}
	return strings.Join(parts, " ")
}

const filterSender = gpbft.ActorID(7)

func buildAlphabet() []*gpbft.GMessage {
	out := make([]*gpbft.GMessage, nReq)
	for s := 0; s < nReq; s++ {
		out[s] = &gpbft.GMessage{
			Sender: filterSender,
			Vote: gpbft.Payload{
				Instance: uint64(symInst(s)),
				Round:    roundVals[symRound(s)],
				Phase:    phases[symPhase(s)],
			},
			Signature: []byte{byte('A' + symSig(s)), 0xC1, 0x2C},
		}
	}
	return out
}

func restartNote(era, causeEra int) string {
	if causeEra < era {
		return ", the earlier message having been let through before a restart that reloaded the log"
	}
	return ", within one filter lifetime"
}

// filterStats are worker-local tallies merged at the end.
type filterStats struct {
	sequences        int64
	nontrivial       int64
	requests         int64
	letThrough       int64
	suppConflict     int64
	suppOld          int64
	suppAcrossRstart int64
	restarts         int64
	classes          map[string]struct{}
}

// runSequence drives one production filter through seq and judges the wire
// (the let-through log) with the reference written from the property text.
// It returns a violation signature ("" if none) and the step at which it fired.
func runSequence(local peer.ID, msgs []*gpbft.GMessage, seq []int, st *filterStats, wire []int) (string, int, []int) {
	flt := f3.VerifC12NewFilter(local)
	wire = wire[:0]
	// reference state over the wire
	var slotSig [maxSlots]int8
	var slotEra [maxSlots]int8 // number of restarts seen when the slot was first put on the wire
	for i := range slotSig {
		slotSig[i] = -1
	}
	maxInst, maxInstEra := -1, 0
	era := 0
	nConf, nOld, nAcross, nRestart := 0, 0, 0, 0
	for step, s := range seq {
		if s == symStart {
			// host start-up: new filter, every WAL entry fed through
			// ProcessBroadcast in log order, return value ignored.
			nf := f3.VerifC12NewFilter(local)
			for _, w := range wire {
				nf.ProcessBroadcast(msgs[w])
			}
			flt = nf
			era++
			nRestart++
			continue
		}
		st.requests++
		ok := flt.ProcessBroadcast(msgs[s])
		slot, sig, inst := symSlot(s), int8(symSig(s)), symInst(s)
		conflict := slotSig[slot] >= 0 && slotSig[slot] != sig
		old := inst < maxInst
		if ok {
			if conflict {
				return "filter let through two differently signed messages for one (instance, sender, round, phase)" + restartNote(era, int(slotEra[slot])), step, wire
			}
			if old {
				return "filter let through a message for an instance older than one already let through" + restartNote(era, maxInstEra), step, wire
			}
			wire = append(wire, s)
			st.letThrough++
			if slotSig[slot] < 0 {
				slotSig[slot] = sig
				slotEra[slot] = int8(era)
			}
			if inst > maxInst {
				maxInst, maxInstEra = inst, era
			}
			continue
		}
		// suppressed
		switch {
		case old:
			nOld++
			if maxInstEra < era {
				nAcross++
			}
		case conflict:
			nConf++
			if int(slotEra[slot]) < era {
				nAcross++
			}
		default:
			// Companion (non-vacuity) conjunct: a request that conflicts with
			// nothing on the wire and is not for an older instance was dropped.
			// The slot of the property is (instance, sender, round, step); a
			// filter that merges slots is only observable this way.
			return "companion: filter suppressed a request that conflicts with nothing it let through and is not for an older instance (slot identity instance/sender/round/step not respected)", step, wire
		}
	}
	st.restarts += int64(nRestart)
	st.suppConflict += int64(nConf)
	st.suppOld += int64(nOld)
	st.suppAcrossRstart += int64(nAcross)
	if nConf+nOld > 0 {
		st.nontrivial++
		cls := fmt.Sprintf("len=%d restarts=%d conflicts=%d old=%d across=%d wire=%d", len(seq), nRestart, nConf, nOld, nAcross, len(wire))
		if _, seen := st.classes[cls]; !seen {
			st.classes[cls] = struct{}{}
		}
	}
	return "", -1, wire
}

func TestCheck(t *testing.T) {
	_ = logging.SetLogLevel("*", "fatal")
	run := vkit.New("C12", "filter", "fault_enumeration")
	maxLen := run.N(5, 6)
	run.SetExhaustive(true)
	run.SetRule(fmt.Sprintf("EXHAUSTIVE: every sequence of length 1..%d over each of two request alphabets (A: instance 0..2 x round 0..1 x phase QUALITY|PREPARE x signature s1|s2 = 24 requests; B: instance 0..1 x round 0|1|2|5 x PREPARE x signature s1|s2 = 16 requests) + {restart = fresh production filter re-fed, in order, every message the previous one let through (the WAL replay of host start-up)}, each driven through the production equivocationFilter.ProcessBroadcast; an evaluation is one sequence; non-trivial = at least one request the reference (written from the property text) requires to be kept off the wire; distinct = outcome classes (length, restarts, conflict/older suppressions, suppressions whose cause predates a restart, wire length)", maxLen))
	run.Assume("single sender identity and no ProcessReceive traffic (that path is dead code in this tree; behaviour with another node using the same identity is not claimed)",
		"restart is modelled as host.go newRunner does it: a new filter, every logged message passed through ProcessBroadcast in log order with the result ignored; the log holds exactly the let-through messages (no storage errors)",
		"the 'companion' conjunct (a request conflicting with nothing on the wire must not be suppressed) is a non-vacuity complement to the safety statement: without it a filter that merges slots or drops everything would pass")

	local, err := peer.Decode("12D3KooWGzxzKZYveHXtpG6AsrUJBcWxHBFS2HsEoGTxrMLvKXtf")
	if err != nil {
		t.Fatal(err)
	}
	var mu sync.Mutex
	total := filterStats{classes: map[string]struct{}{}}
	ai := 0
	report := func(sig string, seq []int, step int, wire []int, ui int) {
		w := make([]string, len(wire))
		for i, s := range wire {
			w[i] = symString(s)
		}
		run.Violation(sig, map[string]any{
			"case": ai*caseStride + ui, "alphabet": alphabets[ai].name, "sequence": seqString(seq), "failing_step": step, "wire_before": w,
			"how_to_reproduce": "f := f3.VerifC12NewFilter(pid); feed the sequence through ProcessBroadcast; RESTART = new filter re-fed the let-through messages in order",
		})
	}
	var want int64
	for ai = range alphabets {
		useAlphabet(alphabets[ai])
		msgs := buildAlphabet()

		// Work units: the first two symbols (625 prefixes) plus the length-1
		// sequences as unit -1.
		type unit struct{ a, b int }
		var units []unit
		units = append(units, unit{-1, -1})
		for a := 0; a < nSym; a++ {
			for b := 0; b < nSym; b++ {
				units = append(units, unit{a, b})
			}
		}
		vkit.Parallel(len(units), runtime.GOMAXPROCS(0), func(ui int) {
			if run.Case >= 0 && int64(ai*caseStride+ui) != run.Case {
				return
			}
			st := filterStats{classes: map[string]struct{}{}}
			wire := make([]int, 0, 8)
			u := units[ui]
			check := func(seq []int) {
				st.sequences++
				sig, step, w := runSequence(local, msgs, seq, &st, wire)
				wire = w
				if sig != "" {
					report(sig, append([]int(nil), seq...), step, w, ui)
				}
			}
			if u.a < 0 {
				for s := 0; s < nSym; s++ {
					check([]int{s})
				}
			} else {
				seq := make([]int, 2, maxLen)
				seq[0], seq[1] = u.a, u.b
				check(seq)
				// odometer over suffixes of length 1..maxLen-2
				for extra := 1; extra <= maxLen-2; extra++ {
					seq = seq[:2+extra]
					for i := 2; i < len(seq); i++ {
						seq[i] = 0
					}
					for {
						check(seq)
						i := len(seq) - 1
						for i >= 2 {
							seq[i]++
							if seq[i] < nSym {
								break
							}
							seq[i] = 0
							i--
						}
						if i < 2 {
							break
						}
					}
				}
			}
			mu.Lock()
			total.sequences += st.sequences
			total.nontrivial += st.nontrivial
			total.requests += st.requests
			total.letThrough += st.letThrough
			total.suppConflict += st.suppConflict
			total.suppOld += st.suppOld
			total.suppAcrossRstart += st.suppAcrossRstart
			total.restarts += st.restarts
			for c := range st.classes {
				total.classes[c] = struct{}{}
			}
			mu.Unlock()
		})

		p := int64(1)
		for l := 1; l <= maxLen; l++ {
			p *= int64(nSym)
			want += p
		}
	}
	run.Eval(total.sequences)
	for c := range total.classes {
		run.Distinct(c)
	}
	run.Count("sequences_enumerated", total.sequences)
	run.Count("sequences_nontrivial", total.nontrivial)
	run.Count("requests_issued", total.requests)
	run.Count("messages_let_through", total.letThrough)
	run.Count("suppressed_conflicting_signature", total.suppConflict)
	run.Count("suppressed_older_instance", total.suppOld)
	run.Count("suppressed_cause_before_restart", total.suppAcrossRstart)
	run.Count("restarts", total.restarts)
	run.SetExtra("max_sequence_length", maxLen)
	useAlphabet(alphabets[0])
	run.Sample(map[string]any{"sequence": seqString([]int{0, 1, symStart, 1, 8, 0}), "note": "s1 let through, s2 suppressed, restart, s2 still suppressed, instance 1 let through, instance 0 suppressed as older"})

	if run.Case < 0 {
		if total.sequences != want {
			run.Inconclusive("too-few-events")
			fmt.Printf("enumeration incomplete: %d sequences, expected %d\n", total.sequences, want)
		}
		if total.suppAcrossRstart == 0 || total.suppConflict == 0 || total.suppOld == 0 {
			run.Inconclusive("too-few-events")
		}
	}
	rc := run.Finish()
	if rc != 0 {
		t.Fail()
	}
	if rc == 2 {
		os.Exit(2)
	}
}
