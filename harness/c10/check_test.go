// Package c10 is the runtime monitor for property C10 (certificate store
// operations are crash-atomic at datastore-write granularity).
//
// For every mutating operation of randomly generated histories (CreateStore,
// first-time OpenOrCreateStore, Put — including Puts that write a power-table
// checkpoint at a multiple of 1440 — and DeleteAll) the operation is first run
// on a copy of the datastore to count its datastore writes w; then, for EVERY
// k in [0, w], it is run again on a fresh copy that "crashes" after k writes,
// the frozen content is reopened with each open variant, the observable state
// is compared with the reference model's state before and after the operation,
// the operation is repeated and must now succeed and yield the post-state. The
// history continues from one of the crash states (so leftovers compound).
// No accessor is used: checkpoint-writing Puts are reached by choosing the
// first instance just below a multiple of 1440.
package c10

import (
	"context"
	"errors"
	"fmt"
	"math/rand"
	"os"
	"runtime"
	"strings"
	"sync"
	"testing"

	"github.com/filecoin-project/go-f3/certs"
	"github.com/filecoin-project/go-f3/certstore"
	"github.com/filecoin-project/go-f3/gpbft"
	"github.com/filecoin-project/go-f3/verifh/vkit"
	"github.com/filecoin-project/go-f3/verifh/vstore"
)

const (
	nsPrefix      = "/certstore"
	nsTombstone   = "/certstore/tombstone"
	rootTombstone = "/tombstone"
	frequency     = 1440
)

type opKind int

const (
	opCreate opKind = iota
	opOpenOrCreate
	opPut
	opDeleteAll
)

func (k opKind) String() string {
	return [...]string{"CreateStore", "OpenOrCreateStore(first time)", "Put", "DeleteAll"}[k]
}

type operation struct {
	kind    opKind
	first   uint64             // create kinds
	initial gpbft.PowerEntries // create kinds
	cert    *certs.FinalityCertificate
	variant vstore.Variant // for Put
	desc    string
}

type crashCase struct {
	run   *vkit.Run
	idx   int
	seed  int64
	g     *vstore.Gen
	rng   *rand.Rand
	ctx   context.Context
	model *vstore.Model   // committed reference state
	chain *vstore.Chain   // generator's view of the committed history
	disk  vstore.Snapshot // committed datastore content (may carry leftovers of earlier crashes)
	opNo  int
	log   []string
	kinds []string

	failed bool
	counts map[string]int64
}

func (c *crashCase) count(k string, n int64) { c.counts[k] += n }

// openWith opens an existing store with the given variant (0 OpenStore, 1 OpenOrCreateStore).
func (c *crashCase) openWith(ds *vstore.CrashDS, variant int, first uint64, initial gpbft.PowerEntries) (*certstore.Store, error) {
	if variant == 0 {
		return certstore.OpenStore(c.ctx, ds)
	}
	return certstore.OpenOrCreateStore(c.ctx, ds, first, initial)
}

var variantName = []string{"OpenStore", "OpenOrCreateStore"}

// exec runs op on ds. For Put/DeleteAll a store handle is opened first
// (un-armed: opening is not the operation under test); the crash point k
// (k < 0: none) is armed right before the operation itself. It returns the
// operation's error, the number of datastore writes the operation performed,
// and an error of the preparatory open (harness-level problem or compounding
// damage, reported by the caller).
func (c *crashCase) exec(op *operation, ds *vstore.CrashDS, k int, openVariant int) (opErr error, writes int, prepErr error) {
	var st *certstore.Store
	if op.kind == opPut || op.kind == opDeleteAll {
		st, prepErr = c.openWith(ds, openVariant, c.model.First, c.model.InitialTable())
		if prepErr != nil {
			return nil, 0, prepErr
		}
	}
	before := ds.Writes()
	if k >= 0 {
		ds.Arm(k)
	}
	switch op.kind {
	case opCreate:
		_, opErr = certstore.CreateStore(c.ctx, ds, op.first, op.initial)
	case opOpenOrCreate:
		_, opErr = certstore.OpenOrCreateStore(c.ctx, ds, op.first, op.initial)
	case opPut:
		opErr = st.Put(c.ctx, op.cert)
	case opDeleteAll:
		opErr = st.DeleteAll(c.ctx)
	}
	return opErr, ds.Writes() - before, nil
}

func tombstoneClass(s vstore.Snapshot) string {
	switch ns, root := s.Has(nsTombstone), s.Has(rootTombstone); {
	case ns && root:
		return "both"
	case ns:
		return "namespaced-only"
	case root:
		return "root-only"
	}
	return "none"
}

// match says which reference states a reopened store is indistinguishable from.
type match struct {
	pre, post bool
	reason    string // why neither, if neither
}

func (m match) label() string {
	switch {
	case m.post && !m.pre:
		return "post"
	case m.pre:
		return "pre"
	}
	return ""
}

// stateOf reopens the frozen content with one open variant (0 OpenStore, 1
// OpenOrCreateStore with the parameters the store was/is to be created with)
// and compares what it shows with the reference state before (pre) and after
// (post) the operation. It returns the opened store (nil if the store reports
// not-initialised) and the datastore it was opened on.
func (c *crashCase) stateOf(frozen vstore.Snapshot, variant int, pre, post *vstore.Model, op *operation, shuffle int64) (m match, st *certstore.Store, ds *vstore.CrashDS) {
	ds = vstore.NewCrashDSFrom(frozen)
	ds.ShuffleQueries(shuffle)
	first, initial := op.first, op.initial // create kinds, and DeleteAll ("create again with the old parameters")
	if pre.Created {
		first, initial = pre.First, pre.InitialTable()
	}
	st, err := c.openWith(ds, variant, first, initial)
	c.count("reopens", 1)
	if variant == 0 && errors.Is(err, certstore.ErrNotInitialized) {
		m.pre, m.post = !pre.Created, !post.Created
		if !m.pre && !m.post {
			m.reason = "store reports not-initialised"
		}
		return m, nil, ds
	}
	if err != nil {
		m.reason = "reopen failed: " + err.Error()
		return m, nil, ds
	}
	got := vstore.Observe(c.ctx, st, first)
	// what a reference state looks like through this open variant: a store that
	// does not exist stays absent for OpenStore and is created fresh by OpenOrCreateStore
	view := func(ref *vstore.Model) *vstore.Observation {
		if ref.Created {
			return ref.Observe()
		}
		if variant == 1 {
			fresh := vstore.NewModel()
			_ = fresh.Create(first, initial)
			return fresh.Observe()
		}
		return nil
	}
	dpre, dpost := "store exists although the reference has none", "store exists although the reference has none"
	if v := view(pre); v != nil {
		dpre = got.Diff(v)
		m.pre = dpre == ""
	}
	if v := view(post); v != nil {
		dpost = got.Diff(v)
		m.post = dpost == ""
	}
	if !m.pre && !m.post {
		m.reason = fmt.Sprintf("neither pre-state (%s) nor post-state (%s)", dpre, dpost)
	}
	return m, st, ds
}

// classOf reduces a detailed reason to a short class for the violation signature.
func classOf(reason string) string {
	switch {
	case strings.HasPrefix(reason, "reopen failed"):
		return "reopen fails"
	case strings.Contains(reason, "keys left in the store's namespace"):
		return "store reports not-initialised but keys are left in its namespace"
	case strings.Contains(reason, "keys are in the namespace, a fresh store has"):
		return "re-created store sits on leftover keys"
	case strings.HasPrefix(reason, "neither pre-state"):
		return "store opens but shows neither the pre- nor the post-state"
	case strings.HasPrefix(reason, "CreateStore after the wipe failed"):
		return "store cannot be created again"
	}
	return canon(reason)
}

func canon(d string) string {
	out := make([]byte, 0, len(d))
	for i := 0; i < len(d); i++ {
		if d[i] >= '0' && d[i] <= '9' {
			if len(out) == 0 || out[len(out)-1] != '#' {
				out = append(out, '#')
			}
			continue
		}
		out = append(out, d[i])
	}
	if len(out) > 140 {
		out = out[:140]
	}
	return string(out)
}

func (c *crashCase) violate(sig string, op *operation, k, w int, frozen vstore.Snapshot, wlog []vstore.WriteRec, detail string) {
	tail := c.log
	if len(tail) > 30 {
		tail = tail[len(tail)-30:]
	}
	var writes []string
	for _, r := range wlog {
		writes = append(writes, fmt.Sprintf("%d %s %s", r.N, r.Op, r.Key))
	}
	if len(writes) > 60 {
		writes = writes[len(writes)-60:]
	}
	keys := frozen.Keys("")
	if len(keys) > 80 {
		keys = keys[:80]
	}
	c.run.Violation(sig, map[string]any{
		"case": c.idx, "case_seed": c.seed, "operation_number": c.opNo, "operation": op.desc,
		"crash_after_writes": k, "writes_of_operation": w, "detail": detail,
		"datastore_writes_seen": writes, "keys_on_disk_after_crash": keys,
		"reference_before": modelSummary(c.model), "history": tail,
	})
}

func modelSummary(m *vstore.Model) string {
	if !m.Created {
		return "no store"
	}
	return m.Observe().Summary()
}

// checkWiped: the store is gone: nothing left in its namespace, and it can be created again.
func (c *crashCase) checkWiped(content vstore.Snapshot, op *operation) string {
	if left := content.Keys(nsPrefix); len(left) > 0 {
		return fmt.Sprintf("%d keys left in the store's namespace (e.g. %s)", len(left), left[0])
	}
	ds := vstore.NewCrashDSFrom(content)
	st, err := certstore.CreateStore(c.ctx, ds, op.first, op.initial)
	if err != nil {
		return "CreateStore after the wipe failed: " + err.Error()
	}
	fresh := vstore.NewModel()
	_ = fresh.Create(op.first, op.initial)
	if d := vstore.Observe(c.ctx, st, op.first).Diff(fresh.Observe()); d != "" {
		return "store created after the wipe is not fresh: " + d
	}
	return ""
}

// enumerate runs one operation at every crash point. It returns the datastore
// content and reference state the history continues from.
func (c *crashCase) enumerate(op *operation) {
	c.opNo++
	pre := c.model
	post := pre.Clone()
	expectOK := true
	switch op.kind {
	case opCreate, opOpenOrCreate:
		if err := post.Create(op.first, op.initial); err != nil {
			panic(err)
		}
	case opPut:
		out, _ := post.Put(op.cert)
		expectOK = out != vstore.PutReject
	case opDeleteAll:
		post.Wipe()
		op.first, op.initial = pre.First, pre.InitialTable() // what "create again" uses
	}
	shuffle := c.seed ^ int64(c.opNo)*7919
	openVariant := c.rng.Intn(2)

	// dry run: count the writes of the operation
	dry := vstore.NewCrashDSFrom(c.disk)
	dry.ShuffleQueries(shuffle)
	dryErr, w, prepErr := c.exec(op, dry, -1, openVariant)
	if prepErr != nil {
		c.violate("C10 "+op.kind.String()+": store of the continued history cannot be opened: "+canon(prepErr.Error()), op, -1, 0, c.disk, nil, prepErr.Error())
		c.failed = true
		return
	}
	c.log = append(c.log, fmt.Sprintf("op %d: %s: %d datastore writes, result %v", c.opNo, op.desc, w, dryErr))
	c.kinds = append(c.kinds, fmt.Sprintf("%d:%d", op.kind, w))
	if expectOK && dryErr != nil {
		c.violate("C10 "+op.kind.String()+": operation fails without any fault on the continued history", op, -1, w, c.disk, nil, dryErr.Error())
		c.failed = true
		return
	}
	if !expectOK && w > 0 {
		c.count("refused_puts_that_wrote", 1)
	}
	c.count("operations", 1)
	c.count("operations_"+op.kind.String(), 1)
	if op.kind == opPut && w >= 3 {
		c.count("checkpoint_writing_puts", 1)
	}

	type outcome struct {
		ok     bool
		frozen vstore.Snapshot
		state  string
		after  vstore.Snapshot // content after the successful repeat (or the frozen content if nothing was to repeat)
	}
	outcomes := make([]outcome, w+1)
	reported := map[string]bool{}
	report := func(sig string, k int, frozen vstore.Snapshot, wlog []vstore.WriteRec, detail string) {
		if reported[sig] { // one witness per operation and signature
			c.count("further_crash_points_with_an_already_reported_signature", 1)
			return
		}
		reported[sig] = true
		c.violate(sig, op, k, w, frozen, wlog, detail)
	}
	for k := 0; k <= w; k++ {
		ds := vstore.NewCrashDSFrom(c.disk)
		ds.ShuffleQueries(shuffle)
		ds.KeepLog(true)
		opErr, wk, prepErr := c.exec(op, ds, k, openVariant)
		if prepErr != nil {
			panic("c10: preparatory open failed although the dry run's succeeded: " + prepErr.Error())
		}
		frozen := ds.Snapshot()
		wlog := ds.Log()
		c.run.Eval(1)
		c.count("crash_points", 1)
		if k > 0 && k < w {
			c.count("crash_points_mid_operation", 1)
			members := 0
			if pre.Created {
				members = len(pre.Table(pre.Next()))
			} else {
				members = len(op.initial)
			}
			c.run.Distinct(fmt.Sprintf("%d|%d|%d|%d|%d|%v|%d|%d", op.kind, k, w, pre.Len(), len(c.disk), op.variant, members, pre.First%frequency))
		}
		if k < w && wk != k {
			panic(fmt.Sprintf("c10: crash point %d but %d writes applied", k, wk))
		}
		if k < w && opErr == nil && expectOK {
			c.count("operations_reporting_success_despite_failed_write", 1)
		}
		outcomes[k].frozen = frozen
		good := true

		for variant := 0; variant < 2 && good; variant++ {
			m, st, rds := c.stateOf(frozen, variant, pre, post, op, shuffle+int64(variant))
			if m.post && !m.pre && !post.Created { // looks wiped: then it must be wiped completely
				content := rds.Snapshot()
				if variant == 1 { // re-created by OpenOrCreateStore: only the two keys of a fresh store may exist
					if n := len(content.Keys(nsPrefix)); n != 2 {
						m = match{reason: fmt.Sprintf("after the wipe and re-creation %d keys are in the namespace, a fresh store has 2", n)}
					}
				} else if why := c.checkWiped(content, op); why != "" {
					m = match{reason: why}
				}
			}
			state := m.label()
			if state == "" {
				sig := fmt.Sprintf("C10 %s: after crash and reopen (%s): %s", op.kind, variantName[variant], classOf(m.reason))
				if op.kind == opDeleteAll {
					sig = fmt.Sprintf("C10 DeleteAll: interrupted wipe not completed on reopen; tombstone=%s; reopen (%s): %s",
						tombstoneClass(frozen), variantName[variant], classOf(m.reason))
				}
				report(sig, k, frozen, wlog, m.reason)
				good = false
				break
			}
			c.count("state_"+state, 1)
			if k == w && !m.post {
				report(fmt.Sprintf("C10 %s: completed operation is not visible after reopen (%s)", op.kind, variantName[variant]), k, frozen, wlog, "state="+state)
				good = false
				break
			}
			if variant == 0 {
				outcomes[k].state = state
				outcomes[k].after = frozen
			}

			// repeat the operation: it must succeed and give the post-state
			if !expectOK {
				continue
			}
			var rerr error
			switch op.kind {
			case opCreate, opOpenOrCreate:
				if st == nil { // not initialised: repeat the very operation
					if op.kind == opCreate {
						st, rerr = certstore.CreateStore(c.ctx, rds, op.first, op.initial)
					} else {
						st, rerr = certstore.OpenOrCreateStore(c.ctx, rds, op.first, op.initial)
					}
				} else { // already there: the idempotent form must agree
					st, rerr = certstore.OpenOrCreateStore(c.ctx, rds, op.first, op.initial)
				}
			case opPut:
				rerr = st.Put(c.ctx, op.cert)
			case opDeleteAll:
				if st == nil || (variant == 1 && m.post) {
					continue // already wiped (and possibly re-created): nothing to repeat
				}
				rerr = st.DeleteAll(c.ctx)
			}
			c.count("repeats", 1)
			if rerr != nil {
				report(fmt.Sprintf("C10 %s: repeating the interrupted operation fails (reopened with %s, state %s)", op.kind, variantName[variant], state), k, frozen, wlog, rerr.Error())
				good = false
				break
			}
			after := rds.Snapshot()
			if post.Created {
				if d := vstore.Observe(c.ctx, st, post.First).Diff(post.Observe()); d != "" {
					report(fmt.Sprintf("C10 %s: after repeating the operation the state is not the post-state: %s", op.kind, canon(d)), k, frozen, wlog, d)
					good = false
					break
				}
				// and it is durable
				st2, err := certstore.OpenStore(c.ctx, vstore.NewCrashDSFrom(after))
				if err != nil {
					report(fmt.Sprintf("C10 %s: store cannot be reopened after the repeated operation", op.kind), k, frozen, wlog, err.Error())
					good = false
					break
				}
				if d := vstore.Observe(c.ctx, st2, post.First).Diff(post.Observe()); d != "" {
					report(fmt.Sprintf("C10 %s: repeated operation is not durable: %s", op.kind, canon(d)), k, frozen, wlog, d)
					good = false
					break
				}
			} else { // DeleteAll repeated on the present store
				_, err := certstore.OpenStore(c.ctx, vstore.NewCrashDSFrom(after))
				if !errors.Is(err, certstore.ErrNotInitialized) {
					report("C10 DeleteAll: store still opens after the repeated wipe", k, frozen, wlog, fmt.Sprint(err))
					good = false
					break
				}
				if why := c.checkWiped(after, op); why != "" {
					report("C10 DeleteAll: repeated wipe incomplete: "+canon(why), k, frozen, wlog, why)
					good = false
					break
				}
			}
			if variant == 0 {
				outcomes[k].after = after
			}
		}

		// a crash while the reopen itself writes (resuming a wipe): enumerate those points too
		if op.kind == opDeleteAll && good && k > 0 && k < w {
			probe := vstore.NewCrashDSFrom(frozen)
			probe.ShuffleQueries(shuffle + 11)
			_, _ = certstore.OpenStore(c.ctx, probe)
			w2 := probe.Writes()
			for j := 0; j < w2; j++ {
				ds2 := vstore.NewCrashDSFrom(frozen)
				ds2.ShuffleQueries(shuffle + 11)
				ds2.KeepLog(true)
				ds2.Arm(j)
				_, _ = certstore.OpenStore(c.ctx, ds2)
				frozen2 := ds2.Snapshot()
				c.run.Eval(1)
				c.count("crash_points", 1)
				c.count("crash_points_during_resumed_wipe", 1)
				m, _, rds := c.stateOf(frozen2, 0, pre, post, op, shuffle+13)
				if m.post && !m.pre {
					if why := c.checkWiped(rds.Snapshot(), op); why != "" {
						m = match{reason: why}
					}
				}
				if m.label() == "" {
					report(fmt.Sprintf("C10 DeleteAll: wipe interrupted again while being resumed on reopen is not completed by the next reopen; tombstone=%s: %s",
						tombstoneClass(frozen2), classOf(m.reason)), k, frozen2, ds2.Log(), fmt.Sprintf("second crash after %d of %d writes of the resuming reopen: %s", j, w2, m.reason))
					good = false
				}
			}
		}
		outcomes[k].ok = good
	}

	// continue the history from one of the crash points (one that showed no
	// problem; the completed operation if there is none)
	k := c.rng.Intn(w + 1)
	if !outcomes[k].ok {
		c.count("continuation_moved_to_completed_operation", 1)
		k = w
	}
	o := outcomes[k]
	if !o.ok {
		c.failed = true // even the uninterrupted operation misbehaves: nothing sound to continue from
		return
	}
	switch {
	case !expectOK:
		// refused put: nothing changed
	case o.state == "pre" && k < w && op.kind != opDeleteAll && c.rng.Intn(3) == 0:
		// keep the interrupted operation un-repeated: its leftovers stay on disk
		c.disk = o.frozen
		c.count("continued_from_unrepeated_crash_state", 1)
		c.log = append(c.log, fmt.Sprintf("   continuing from the crash after %d/%d writes WITHOUT repeating the operation", k, w))
	default:
		c.disk = o.after
		if op.kind == opDeleteAll && o.state == "post" && k < w {
			// the wipe was completed by the reopen, not by the crashed process: take the content it left
			ds := vstore.NewCrashDSFrom(o.frozen)
			ds.ShuffleQueries(shuffle)
			_, _ = certstore.OpenStore(c.ctx, ds)
			c.disk = ds.Snapshot()
		}
		c.model = post
		if op.kind == opPut && post.Len() > pre.Len() {
			c.chain.Append(op.cert, post.Table(post.Next()))
		}
		c.count("continued_from_repeated_crash_state", 1)
		c.log = append(c.log, fmt.Sprintf("   continuing from the crash after %d/%d writes, operation repeated", k, w))
	}
}

func (c *crashCase) pickFirst() uint64 {
	switch c.rng.Intn(10) {
	case 0:
		return 0
	case 1:
		return 1 + uint64(c.rng.Intn(100))
	case 2:
		return frequency * uint64(1+c.rng.Intn(3)) // exactly on a multiple
	default: // shortly before a multiple of 1440, so that one of the next Puts writes a checkpoint
		m := uint64(1 + c.rng.Intn(5))
		if c.rng.Intn(4) == 0 {
			m = 1<<30 + uint64(c.rng.Intn(1000))
		}
		return frequency*m - 1 - uint64(c.rng.Intn(5))
	}
}

func (c *crashCase) createOp() *operation {
	op := &operation{kind: opCreate, first: c.pickFirst(), initial: c.g.Table(1 + c.rng.Intn(5))}
	if c.rng.Intn(2) == 0 {
		op.kind = opOpenOrCreate
	}
	op.desc = fmt.Sprintf("%s(first=%d, %d members)", op.kind, op.first, len(op.initial))
	return op
}

func runCase(run *vkit.Run, idx int) *crashCase {
	seed := run.SubSeed(int64(idx))
	g := vstore.NewGen(seed)
	c := &crashCase{run: run, idx: idx, seed: seed, g: g, rng: g.Rand(), ctx: context.Background(),
		model: vstore.NewModel(), disk: vstore.Snapshot{}, counts: map[string]int64{}}
	steps := 6 + c.rng.Intn(14)
	for s := 0; s < steps && !c.failed; s++ {
		if !c.model.Created {
			op := c.createOp()
			before := c.model
			c.enumerate(op)
			if c.model != before && c.model.Created { // creation committed
				c.chain = c.g.NewChain(op.first, op.initial)
			}
			continue
		}
		switch x := c.rng.Intn(100); {
		case x < 72:
			next := c.chain.HeadTable()
			changed := c.rng.Intn(10) < 6
			if changed {
				next = c.g.EvolveBounded(next, 8)
			}
			cert := c.g.Successor(c.chain, next)
			c.enumerate(&operation{kind: opPut, cert: cert, variant: vstore.VariantValid,
				desc: fmt.Sprintf("Put(valid successor %d, table changed=%v)", cert.GPBFTInstance, changed)})
		case x < 82:
			var v vstore.Variant
			var cert *certs.FinalityCertificate
			for cert == nil {
				v = vstore.BadVariants[c.rng.Intn(len(vstore.BadVariants))]
				cert = c.g.Bad(c.chain, v)
			}
			c.enumerate(&operation{kind: opPut, cert: cert, variant: v, desc: fmt.Sprintf("Put(%s, instance %d)", v, cert.GPBFTInstance)})
		default:
			c.enumerate(&operation{kind: opDeleteAll, desc: fmt.Sprintf("DeleteAll (%d certificates stored, %d keys on disk)", c.model.Len(), len(c.disk))})
		}
	}
	return c
}

func TestCheck(t *testing.T) {
	run := vkit.New("C10", "crash", "fault_enumeration")
	n := run.N(600, 10000)
	run.SetRule("each evaluation is one crash point: (history, operation, k) with the operation's datastore writes cut after the k-th, k enumerated exhaustively over [0, w] for every mutating operation (CreateStore, first-time OpenOrCreateStore, Put incl. checkpoint-writing and refused Puts, DeleteAll; plus every crash point of a reopen that resumes a wipe) of seeded random histories whose crash states compound; reopened with OpenStore and OpenOrCreateStore, compared with the reference pre/post state, operation repeated; distinct = distinct (operation kind, k, w, history length, keys on disk incl. leftovers, put variant, head-table size, first instance mod 1440); non-trivial = 0 < k < w")
	run.Assume("a datastore write (Put/Delete/batch commit) is atomic and durable once it returns; a crash loses exactly the writes not yet issued",
		"reads never fail; after the crash the same content is presented to a new process",
		"a certificate key written beyond the latest pointer by an interrupted Put is not part of the compared state",
		"a wipe interrupted after the tombstone but before any deletion that reopens fully present counts as the pre-state",
		"DeleteAll's deletion order follows the datastore's (unspecified) query order; the harness fixes it per operation with a seeded shuffle so all crash points of one operation cut the same write sequence")
	var mu sync.Mutex
	samples := 0
	body := func(i int) {
		run.Breadcrumb(fmt.Sprintf("case=%d", i))
		c := runCase(run, i)
		mu.Lock()
		for k, v := range c.counts {
			run.Count(k, v)
		}
		if samples < 4 {
			samples++
			run.Sample(map[string]any{"case": i, "operations": c.opNo, "history": strings.Join(c.log[:min(8, len(c.log))], " | ")})
		}
		mu.Unlock()
	}
	if run.Case >= 0 {
		body(int(run.Case))
	} else {
		vkit.Parallel(n, runtime.GOMAXPROCS(0), body)
		if run.Violations() == 0 && (run.Counter("crash_points_mid_operation") < int64(n)*10 || run.Counter("checkpoint_writing_puts") < int64(n)/4 ||
			run.Counter("operations_DeleteAll") < int64(n)/4) {
			run.Inconclusive("too-few-events")
		}
	}
	rc := run.Finish()
	if rc != 0 {
		t.Fail()
	}
	if rc == 2 {
		os.Exit(2)
	}
}
