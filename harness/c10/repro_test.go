package c10

import (
	"context"
	"errors"
	"testing"

	"github.com/filecoin-project/go-f3/certstore"
	"github.com/filecoin-project/go-f3/verifh/vstore"
)

// TestReproDeleteAllTombstone is the standalone minimal reproduction of the
// C10 finding "interrupted DeleteAll is never resumed" (DESIGN.md §5 #2). It is
// not part of the check (the driver runs ^TestCheck$ only); run it by hand:
//
//	cd /verif/harness && GOPROXY=off GOFLAGS=-mod=mod go test ./c10 -run TestReproDeleteAllTombstone -v
//
// It FAILS on a tree with the defect and passes once
// /verif/fixes/C10-deleteall-tombstone.diff is applied.
//
// Scenario: create a store, put 3 certificates, call DeleteAll on a datastore
// that stops after the tombstone and two deletions (a process crash), restart
// on the same content and open the store.
func TestReproDeleteAllTombstone(t *testing.T) {
	ctx := context.Background()
	g := vstore.NewGen(1)
	ch := g.NewChain(0, g.Table(3))
	g.Extend(ch, 3, 0)

	ds := vstore.NewCrashDS()
	st, err := certstore.CreateStore(ctx, ds, ch.First, ch.Tables[0])
	if err != nil {
		t.Fatal(err)
	}
	for _, c := range ch.Certs {
		if err := st.Put(ctx, c); err != nil {
			t.Fatal(err)
		}
	}
	ds.KeepLog(true)
	ds.Arm(3) // tombstone + two deletions reach the disk, then the process dies
	err = st.DeleteAll(ctx)
	t.Logf("DeleteAll interrupted: %v", err)
	for _, w := range ds.Log() {
		t.Logf("  write %d: %s %s", w.N, w.Op, w.Key)
	}
	disk := ds.Snapshot()
	t.Logf("keys on disk after the crash: %v", disk.Keys(""))
	if !disk.Has("/certstore/tombstone") || disk.Has("/tombstone") {
		t.Fatalf("unexpected tombstone placement: %v", disk.Keys(""))
	}

	re := vstore.NewCrashDSFrom(disk)
	st2, err := certstore.OpenStore(ctx, re)
	after := re.Snapshot()
	t.Logf("OpenStore after restart: store=%v err=%v; keys now: %v", st2 != nil, err, after.Keys(""))
	if !errors.Is(err, certstore.ErrNotInitialized) || len(after.Keys("/certstore")) != 0 {
		t.Fatalf("interrupted DeleteAll was not completed on reopen: err=%v, %d keys left under /certstore (tombstone still there: %v)",
			err, len(after.Keys("/certstore")), after.Has("/certstore/tombstone"))
	}
	if _, err := certstore.CreateStore(ctx, re, ch.First, ch.Tables[0]); err != nil {
		t.Fatalf("CreateStore after the completed wipe: %v", err)
	}
}
