//go:build verif

package c18

import (
	"github.com/filecoin-project/go-f3/gpbft"
)

// Reference model of the chain exchange's retention behaviour, written from the
// property statement (C18), not from the implementation:
//
//   - per instance there are two bounded caches: WANTED (keys the node asked for,
//     with placeholders until the chain is known, plus the node's own broadcasts) and
//     DISCOVERED (unsolicited admitted chains); every prefix of an admitted chain is a
//     chain of its own;
//   - an admitted arrival whose key is wanted lands in WANTED, every other one in
//     DISCOVERED; a lookup that finds a discovered chain promotes it to WANTED; a
//     lookup that finds nothing leaves a placeholder (the key is now wanted);
//   - pruning at i forgets every instance below i and nothing else.
//
// The eviction policy is deliberately NOT modelled. The model brackets the state:
//
//	upper bound  "may be retrievable": every key admitted for the instance since it was last pruned
//	lower bound  "must be retrievable": a key that was certainly inserted (with fresh recency) into
//	             a cache at logical time t, while fewer than <capacity> distinct other keys have been
//	             inserted into / touched in that cache since t. This holds for LRU (with or without
//	             refresh on read) and for FIFO alike: an entry cannot be the eviction victim before
//	             <capacity> other keys became younger than it.
//
// Pressure is over-approximated (anything that might touch a cache counts), so the
// lower bound only ever claims less than a concrete recency policy would.
type model struct {
	capW, capD int
	now        int64
	inst       map[uint64]*instModel
	// everAdmitted is never pruned: used for the listener check only.
	everAdmitted map[uint64]map[gpbft.ECChainKey]struct{}
}

type instModel struct {
	keys  map[gpbft.ECChainKey]*keyState
	order []gpbft.ECChainKey // insertion order, for deterministic generator choices
	w, d  touchLog
}

type keyState struct {
	chain    *gpbft.ECChain
	admitted bool // in the upper bound
	// wanted side
	asked       bool   // key was ever looked up / own-broadcast since the last prune (may be in WANTED in some form)
	wMaybeChain bool   // WANTED may hold the chain (not just a placeholder)
	wStamp      int64  // >=0: chain certainly inserted into WANTED with fresh recency at that time
	wOrigin     string // how it got there: own | asked-then-arrived | promoted
	pStamp      int64  // >=0: placeholder certainly inserted with fresh recency at that time
	// discovered side
	dMaybe bool  // DISCOVERED may hold the chain
	dStamp int64 // >=0: chain certainly inserted into DISCOVERED with fresh recency at that time
}

type touchEntry struct {
	t int64
	k gpbft.ECChainKey
}

type touchLog struct {
	entries []touchEntry
	last    map[gpbft.ECChainKey]int64
}

func (l *touchLog) touch(k gpbft.ECChainKey, t int64) {
	if l.last == nil {
		l.last = map[gpbft.ECChainKey]int64{}
	}
	if lt, ok := l.last[k]; ok && lt == t {
		return
	}
	l.last[k] = t
	l.entries = append(l.entries, touchEntry{t, k})
}

// pressure counts the distinct keys other than except that were touched at or
// after since, up to limit.
func (l *touchLog) pressure(since int64, except gpbft.ECChainKey, limit int) int {
	n := 0
	for i := len(l.entries) - 1; i >= 0; i-- {
		e := l.entries[i]
		if e.t < since {
			break
		}
		if e.k == except || l.last[e.k] != e.t {
			continue
		}
		n++
		if n >= limit {
			return n
		}
	}
	return n
}

func newModel(capW, capD int) *model {
	return &model{capW: capW, capD: capD, inst: map[uint64]*instModel{}, everAdmitted: map[uint64]map[gpbft.ECChainKey]struct{}{}}
}

func (m *model) tick() int64 { m.now++; return m.now }

func (m *model) im(inst uint64) *instModel {
	im := m.inst[inst]
	if im == nil {
		im = &instModel{keys: map[gpbft.ECChainKey]*keyState{}}
		m.inst[inst] = im
	}
	return im
}

func (im *instModel) ks(k gpbft.ECChainKey) *keyState {
	s := im.keys[k]
	if s == nil {
		s = &keyState{wStamp: -1, pStamp: -1, dStamp: -1}
		im.keys[k] = s
		im.order = append(im.order, k)
	}
	return s
}

func (m *model) mustW(im *instModel, k gpbft.ECChainKey, s *keyState) bool {
	return s.wStamp >= 0 && im.w.pressure(s.wStamp, k, m.capW) < m.capW
}
func (m *model) mustP(im *instModel, k gpbft.ECChainKey, s *keyState) bool {
	return s.pStamp >= 0 && im.w.pressure(s.pStamp, k, m.capW) < m.capW
}
func (m *model) mustD(im *instModel, k gpbft.ECChainKey, s *keyState) bool {
	return s.dStamp >= 0 && im.d.pressure(s.dStamp, k, m.capD) < m.capD
}

type expectation struct {
	mustHit  bool
	mayHit   bool
	where    string // wanted | discovered (which lower bound applies)
	origin   string
	pressW   int // pressure on the wanted cache since the key's insertion (capped at capW)
	arrivals int // distinct other keys that arrived / were own-broadcast since (capped at capD)
	chain    *gpbft.ECChain
}

func (m *model) expect(inst uint64, k gpbft.ECChainKey) expectation {
	im := m.inst[inst]
	if im == nil {
		return expectation{}
	}
	s := im.keys[k]
	if s == nil {
		return expectation{}
	}
	e := expectation{mayHit: s.admitted, chain: s.chain}
	switch {
	case m.mustW(im, k, s):
		e.mustHit, e.where, e.origin = true, "wanted", s.wOrigin
		e.pressW = im.w.pressure(s.wStamp, k, m.capW)
		e.arrivals = im.d.pressure(s.wStamp, k, m.capD)
	case m.mustD(im, k, s):
		e.mustHit, e.where, e.origin = true, "discovered", "unsolicited"
		e.arrivals = im.d.pressure(s.dStamp, k, m.capD)
	}
	return e
}

func (m *model) admit(inst uint64, k gpbft.ECChainKey) {
	ea := m.everAdmitted[inst]
	if ea == nil {
		ea = map[gpbft.ECChainKey]struct{}{}
		m.everAdmitted[inst] = ea
	}
	ea[k] = struct{}{}
}

// onLookup updates the model after GetChainByInstance(inst,k) returned hit.
func (m *model) onLookup(inst uint64, k gpbft.ECChainKey, hit bool) {
	t := m.tick()
	im := m.im(inst)
	s := im.ks(k)
	if hit {
		switch {
		case m.mustW(im, k, s):
			// stays where it is, recency at least as fresh as before
		case !s.wMaybeChain:
			// WANTED certainly had no chain for k, so it was found in DISCOVERED and promoted now
			s.wStamp, s.wOrigin = t, "promoted"
		default:
			s.wStamp = -1 // present in WANTED, recency unknown
		}
		s.wMaybeChain, s.asked, s.pStamp = true, true, -1
		s.dMaybe, s.dStamp = false, -1
	} else {
		// a miss proves that neither cache holds the chain right now and leaves a placeholder
		switch {
		case !s.asked:
			s.pStamp = t
		case m.mustP(im, k, s):
		default:
			s.pStamp = -1
		}
		s.asked = true
		s.wMaybeChain, s.wStamp = false, -1
		s.dMaybe, s.dStamp = false, -1
	}
	im.w.touch(k, t)
}

// onArrival updates the model after an admitted remote broadcast of chain for inst
// was handed to the exchange. keys[i] is the key of the prefix with i+1 tipsets.
func (m *model) onArrival(inst uint64, chain *gpbft.ECChain, keys []gpbft.ECChainKey) {
	t := m.tick()
	im := m.im(inst)
	for i, k := range keys {
		s := im.ks(k)
		if s.chain == nil {
			s.chain = chain.Prefix(i)
		}
		s.admitted = true
		m.admit(inst, k)
		if s.asked {
			switch {
			case m.mustW(im, k, s):
			case !s.wMaybeChain && m.mustP(im, k, s):
				// the placeholder is certainly still there: the wanted chain has been discovered
				s.wStamp, s.wOrigin, s.pStamp, s.wMaybeChain = t, "asked-then-arrived", -1, true
			default:
				// placeholder possibly evicted: the chain is in one of the two caches, no lower bound
				s.wMaybeChain = true
				s.wStamp, s.pStamp = -1, -1
				s.dMaybe, s.dStamp = true, -1
			}
			im.w.touch(k, t)
		} else {
			switch {
			case !s.dMaybe:
				s.dStamp = t
			case m.mustD(im, k, s):
			default:
				s.dStamp = -1
			}
			s.dMaybe = true
		}
		// over-approximation: every arriving key counts as pressure on DISCOVERED
		im.d.touch(k, t)
	}
}

// onOwn updates the model after the node's own broadcast (and its asynchronous
// consequences) completed.
func (m *model) onOwn(inst uint64, chain *gpbft.ECChain, keys []gpbft.ECChainKey) {
	t := m.tick()
	im := m.im(inst)
	for i, k := range keys {
		s := im.ks(k)
		if s.chain == nil {
			s.chain = chain.Prefix(i)
		}
		s.admitted = true
		m.admit(inst, k)
		switch {
		case m.mustW(im, k, s):
		case !s.wMaybeChain:
			s.wStamp, s.wOrigin = t, "own"
		default:
			s.wStamp = -1
		}
		s.asked, s.wMaybeChain, s.pStamp = true, true, -1
		// the self-delivered copy may also have been filed under DISCOVERED
		if !(s.dMaybe && m.mustD(im, k, s)) {
			s.dStamp = -1
		}
		s.dMaybe = true
		im.w.touch(k, t)
		im.d.touch(k, t)
	}
}

// onPrune forgets every instance below x.
func (m *model) onPrune(x uint64) {
	m.tick()
	for i := range m.inst {
		if i < x {
			delete(m.inst, i)
		}
	}
}

// mustKeys lists the keys of an instance that are currently in the lower bound.
func (m *model) mustKeys(inst uint64, limit int) []gpbft.ECChainKey {
	im := m.inst[inst]
	if im == nil {
		return nil
	}
	var out []gpbft.ECChainKey
	for i := len(im.order) - 1; i >= 0 && len(out) < limit; i-- {
		k := im.order[i]
		s := im.keys[k]
		if s.admitted && (m.mustW(im, k, s) || m.mustD(im, k, s)) {
			out = append(out, k)
		}
	}
	return out
}

// admittedKeys lists keys in the upper bound (newest first).
func (m *model) admittedKeys(inst uint64, limit int) []gpbft.ECChainKey {
	im := m.inst[inst]
	if im == nil {
		return nil
	}
	var out []gpbft.ECChainKey
	for i := len(im.order) - 1; i >= 0 && len(out) < limit; i-- {
		if im.keys[im.order[i]].admitted {
			out = append(out, im.order[i])
		}
	}
	return out
}
