//go:build verif

package c18

import (
	"fmt"
	"os"
	"strconv"
	"testing"

	"github.com/filecoin-project/go-f3/verifh/vkit"
)

// Debugging aids, not part of the check (the driver runs ^TestCheck$ and ^TestRace$ only):
//
//	C18_LO=14 C18_HI=15 C18_VERBOSE=all go test -v -tags verif -overlay /verif/.overlay.json -run TestDebugSeq ./c18
//
// prints the full operation log of deterministic sequence 14 (VERIF_SEED selects the run seed).
func TestDebugSeq(t *testing.T) {
	run := vkit.New("C18", "debug", "exploration")
	lo, _ := strconv.Atoi(os.Getenv("C18_LO"))
	hi, _ := strconv.Atoi(os.Getenv("C18_HI"))
	for i := lo; i < hi; i++ {
		res := runSequence(i, run.SubSeed(int64(i)))
		if res.abort != "" || os.Getenv("C18_VERBOSE") != "" {
			fmt.Printf("case %d params=%+v abort=%q ops=%d viol=%d\n", i, res.params, res.abort, len(res.ops), len(res.viol))
			n := 12
			if os.Getenv("C18_VERBOSE") == "all" {
				n = 1 << 30
			}
			for _, o := range tail(res.ops, n) {
				fmt.Println("   ", o)
			}
			for _, v := range res.viol {
				fmt.Println("   VIOL", v.sig, v.detail)
			}
		}
	}
}

func TestDebugBB(t *testing.T) {
	run := vkit.New("C18", "debug", "exploration")
	lo, _ := strconv.Atoi(os.Getenv("C18_LO"))
	hi, _ := strconv.Atoi(os.Getenv("C18_HI"))
	for j := lo; j < hi; j++ {
		res := runBlackboxRig(j, run.SubSeed(int64(blackboxCaseBase+j)), 26)
		fmt.Printf("rig %d cnt=%v viol=%d\n", j, res.cnt, len(res.viol))
		for _, v := range res.viol {
			fmt.Println("   VIOL", v.sig, v.detail)
		}
		if os.Getenv("C18_VERBOSE") != "" {
			for _, l := range res.log {
				fmt.Println("   ", l)
			}
		}
	}
}
