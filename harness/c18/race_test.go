//go:build verif

package c18

import (
	"context"
	"fmt"
	"math/rand"
	"os"
	"sync"
	"sync/atomic"
	"testing"
	"time"

	"github.com/filecoin-project/go-f3/chainexchange"
	"github.com/filecoin-project/go-f3/gpbft"
	"github.com/filecoin-project/go-f3/internal/psutil"
	"github.com/filecoin-project/go-f3/verifh/vkit"
	pubsub "github.com/libp2p/go-libp2p-pubsub"
)

// TestRace (built with -race): lookups from several goroutines while chains are
// being cached by the subscription goroutine (a second host publishes), by direct
// feeding (validator + caching call, like pubsub's validation workers and the
// subscription loop), by own broadcasts, and while progress moves and instances
// are pruned. The race detector is the main monitor; the functional oracle is the
// schedule-independent part of the property: a hit returns a chain whose
// recomputed key equals the requested key and that was admitted for that instance.
func TestRace(t *testing.T) {
	run := vkit.New("C18", "race", "exploration")
	rounds := run.N(6, 60)
	run.SetRule("one evaluation = one round: a real exchange (plus a second libp2p host publishing to it) with 4 lookup goroutines, 2 feeders (validator + caching call), 1 network publisher, 1 own broadcaster and 1 progress/prune goroutine running concurrently over a pool of 240 chains; distinct = round seed; non-trivial = lookups hit while arrivals were being cached")
	run.Assume("race detector reports are collected by the driver (GORACE log_path); only blocks with go-f3 frames on both stacks count")
	var mu sync.Mutex
	agg := map[string]int64{}
	body := func(i int) {
		seed := run.SubSeed(int64(i))
		cnt, viol := raceRound(i, seed)
		run.Eval(1)
		mu.Lock()
		for k, v := range cnt {
			agg[k] += v
		}
		mu.Unlock()
		if cnt["lookup_hit_concurrent"] > 0 && cnt["arrivals"] > 0 {
			run.Distinct(fmt.Sprintf("race|%d|%d", seed, cnt["lookup_hit_concurrent"]))
		}
		for _, v := range viol {
			run.Violation(v.sig, map[string]any{"case": i, "path": "race", "round_seed": seed, "detail": v.detail})
		}
	}
	if run.Case >= 0 {
		body(int(run.Case))
	} else {
		vkit.Parallel(rounds, 2, body)
	}
	for k, v := range agg {
		run.Count(k, v)
	}
	if run.Case < 0 {
		if agg["lookup_hit_concurrent"] < int64(rounds)*20 || agg["arrivals"] < int64(rounds)*50 || agg["own_broadcasts"] < int64(rounds) || agg["prunes"] < int64(rounds) {
			run.Inconclusive("too-few-events")
		}
	}
	rc := run.Finish()
	if rc != 0 {
		t.Fail()
	}
	if rc == 2 {
		os.Exit(2)
	}
}

type poolChain struct {
	inst  uint64
	chain *gpbft.ECChain
	keys  []gpbft.ECChainKey
	data  []byte
}

func raceRound(idx int, seed int64) (map[string]int64, []violation) {
	rng := rand.New(rand.NewSource(seed))
	p := params{CapW: 4 + rng.Intn(20), CapD: 4 + rng.Intn(20), Lookahead: 2, MaxAgeMs: 3_600_000, Compression: rng.Intn(2) == 0, Start: uint64(10 + rng.Intn(100))}
	cnt := map[string]int64{}
	var viol []violation
	var vmu sync.Mutex
	violate := func(sig string, d map[string]any) {
		vmu.Lock()
		if len(viol) < 4 {
			viol = append(viol, violation{sig, d})
		}
		vmu.Unlock()
	}
	r, err := newRig(p, fmt.Sprintf("c18/race/%d", idx))
	if err != nil {
		cnt["rig_errors"]++
		return cnt, nil
	}
	defer r.close()
	// second host publishing into the first one
	hostB, err := r.mnet.GenPeer()
	if err != nil {
		cnt["rig_errors"]++
		return cnt, nil
	}
	psB, err := pubsub.NewGossipSub(r.ctx, hostB, pubsub.WithFloodPublish(true), pubsub.WithMessageSignaturePolicy(pubsub.StrictNoSign))
	if err != nil {
		cnt["rig_errors"]++
		return cnt, nil
	}
	_ = r.mnet.LinkAll()
	_ = r.mnet.ConnectAllButSelf()
	topicB, err := psB.Join(r.topic, pubsub.WithTopicMessageIdFn(psutil.ChainExchangeMessageIdFn))
	if err != nil {
		cnt["rig_errors"]++
		return cnt, nil
	}

	// everything random is generated up front (no shared rng between goroutines)
	g := newChainGen(rng)
	wc := newWireCodec(p.Compression)
	const instances = 4
	inputs := make([]*gpbft.ECChain, instances)
	for s := 0; s < instances; s++ {
		inputs[s] = g.grow(g.base(p.Start+uint64(s)), 1+rng.Intn(4), 0, false)
	}
	now := r.clk.Now().UnixMilli()
	var pool []*poolChain
	byKey := map[uint64]map[gpbft.ECChainKey]*gpbft.ECChain{}
	for s := 0; s < instances; s++ {
		inst := p.Start + uint64(s)
		byKey[inst] = map[gpbft.ECChainKey]*gpbft.ECChain{}
		for c := 0; c < 60; c++ {
			l := 1 + rng.Intn(8)
			if rng.Intn(12) == 0 {
				l = 30 + rng.Intn(99)
			}
			ch := g.grow(g.base(inst), l, 50, rng.Intn(3) > 0)
			pc := &poolChain{inst: inst, chain: ch, keys: prefixKeys(ch, rng)}
			pc.data, _ = wc.encode(&chainexchange.Message{Instance: inst, Chain: ch, Timestamp: now})
			pool = append(pool, pc)
			for i, k := range pc.keys {
				byKey[inst][k] = ch.Prefix(i)
			}
		}
	}
	perm := func() []int { return rng.Perm(len(pool)) }
	orders := [][]int{perm(), perm(), perm(), perm(), perm(), perm(), perm(), perm(), perm()}
	r.setProgress(p.Start, inputs[0])

	var cur atomic.Uint64
	cur.Store(p.Start)
	var stop atomic.Bool
	var c struct {
		lookups, hits, arrivals, fed, published, own, prunes, validatorAccept, validatorOther atomic.Int64
	}
	admissible := func(pc *poolChain) bool { cu := cur.Load(); return pc.inst >= cu && pc.inst <= cu+p.Lookahead }
	var wg sync.WaitGroup
	// lookups
	for li := 0; li < 4; li++ {
		wg.Add(1)
		go func(order []int, lrng *rand.Rand) {
			defer wg.Done()
			for n := 0; !stop.Load(); n++ {
				pc := pool[order[n%len(order)]]
				k := pc.keys[lrng.Intn(len(pc.keys))]
				inst := pc.inst
				if lrng.Intn(20) == 0 {
					inst = 7_000_000 + uint64(lrng.Intn(3)) // nothing is ever admitted there
				}
				got, ok := r.ex.GetChainByInstance(r.ctx, inst, k)
				c.lookups.Add(1)
				if !ok {
					continue
				}
				c.hits.Add(1)
				if fk := freshKey(got); fk != k {
					violate(fmt.Sprintf("C18/2 key-mismatch: lookup returned a chain whose recomputed key differs from the requested key (returned len=%d) path=race", got.Len()), map[string]any{"instance": inst})
				} else if want, known := byKey[inst][k]; !known {
					violate("C18/3 phantom: lookup returned a chain that was never admitted for that instance (since it was last pruned) path=race", map[string]any{"instance": inst})
				} else if !got.Eq(want) {
					violate("C18/2 lookup returned a chain with the requested key but different content path=race", map[string]any{"instance": inst})
				}
			}
		}(orders[li], rand.New(rand.NewSource(seed+int64(li)+1)))
	}
	// feeders: validator + the subscription loop's caching call
	for fi := 0; fi < 2; fi++ {
		wg.Add(1)
		go func(order []int) {
			defer wg.Done()
			for n := 0; !stop.Load(); n++ {
				pc := pool[order[n%len(order)]]
				s := &seq{r: r}
				msg := s.pbMessage(pc.data)
				curBefore := cur.Load() // progress is set before cur and only moves forward
				if r.ex.VerifValidate(r.ctx, r.from, msg) == pubsub.ValidationAccept {
					c.validatorAccept.Add(1)
					if pc.inst < curBefore {
						violate("C18/3 inadmissible-admitted: class=past_instance validator verdict=accept path=race", map[string]any{"instance": pc.inst, "current_at_least": curBefore})
					}
					r.ex.VerifFeedValidated(r.ctx, msg)
					c.fed.Add(1)
					c.arrivals.Add(1)
				} else {
					c.validatorOther.Add(1)
				}
			}
		}(orders[4+fi])
	}
	// network publisher
	wg.Add(1)
	go func(order []int) {
		defer wg.Done()
		for n := 0; !stop.Load(); n++ {
			pc := pool[order[n%len(order)]]
			if admissible(pc) {
				if topicB.Publish(r.ctx, pc.data) == nil {
					c.published.Add(1)
					c.arrivals.Add(1)
				}
			}
			time.Sleep(200 * time.Microsecond)
		}
	}(orders[6])
	// own broadcaster
	wg.Add(1)
	go func(order []int) {
		defer wg.Done()
		for n := 0; !stop.Load(); n++ {
			pc := pool[order[n%len(order)]]
			if pc.inst == cur.Load() {
				if r.ex.Broadcast(r.ctx, chainexchange.Message{Instance: pc.inst, Chain: deepCopyChain(pc.chain), Timestamp: now}) == nil {
					c.own.Add(1)
				}
			}
			time.Sleep(500 * time.Microsecond)
		}
	}(orders[7])
	// progress + prune
	wg.Add(1)
	go func() {
		defer wg.Done()
		for s := 1; s < instances && !stop.Load(); s++ {
			for k := 0; k < 8 && !stop.Load(); k++ {
				_ = r.ex.RemoveChainsByInstance(r.ctx, cur.Load()-uint64(k%2))
				c.prunes.Add(1)
				time.Sleep(2 * time.Millisecond)
			}
			next := p.Start + uint64(s)
			r.setProgress(next, inputs[s])
			cur.Store(next)
			_ = r.ex.RemoveChainsByInstance(r.ctx, next)
			c.prunes.Add(1)
		}
		for k := 0; k < 8 && !stop.Load(); k++ {
			time.Sleep(2 * time.Millisecond)
		}
		stop.Store(true)
	}()
	// watchdog (synchronisation only)
	go func() {
		select {
		case <-time.After(60 * time.Second):
			stop.Store(true)
		case <-r.ctx.Done():
		}
	}()
	wg.Wait()

	cnt["lookups_concurrent"] = c.lookups.Load()
	cnt["lookup_hit_concurrent"] = c.hits.Load()
	cnt["arrivals"] = c.arrivals.Load()
	cnt["arrivals_fed"] = c.fed.Load()
	cnt["arrivals_published"] = c.published.Load()
	cnt["own_broadcasts"] = c.own.Load()
	cnt["prunes"] = c.prunes.Load()
	cnt["validator_accept"] = c.validatorAccept.Load()
	cnt["validator_not_accept"] = c.validatorOther.Load()
	cnt["listener_notifications"] = int64(len(r.lis.drain()))

	// epilogue: an arrival for an allowed future instance that no concurrent (possibly
	// still in flight) traffic touches is retrievable with all prefixes
	last := p.Start + instances - 1 + p.Lookahead
	ch := g.grow(g.otherRoot(last), 3, 0, true)
	s := &seq{r: r}
	d, _ := wc.encode(&chainexchange.Message{Instance: last, Chain: ch, Timestamp: now})
	msg := s.pbMessage(d)
	if r.ex.VerifValidate(context.Background(), r.from, msg) == pubsub.ValidationAccept && r.ex.VerifFeedValidated(r.ctx, msg) {
		for i, k := range prefixKeys(ch, rng) {
			if _, ok := r.ex.GetChainByInstance(r.ctx, last, k); !ok {
				violate(fmt.Sprintf("C18/1 admitted-miss: admitted chain (or prefix) not retrievable within capacity; prefix %d of 3 after concurrent phase path=race", i+1), map[string]any{"instance": last})
			}
		}
		cnt["epilogue_checked"]++
	}
	return cnt, viol
}
