//go:build verif

package c18

import (
	"context"
	"crypto/sha256"
	"fmt"
	"math/rand"
	"sync"
	"time"

	"github.com/filecoin-project/go-f3/chainexchange"
	"github.com/filecoin-project/go-f3/gpbft"
	"github.com/filecoin-project/go-f3/internal/clock"
	"github.com/filecoin-project/go-f3/internal/psutil"
	pubsub "github.com/libp2p/go-libp2p-pubsub"
	"github.com/libp2p/go-libp2p/core/peer"
	mocknet "github.com/libp2p/go-libp2p/p2p/net/mock"
)

// Black-box path: nothing but public APIs. Host B publishes raw chain-exchange
// messages on the topic, host A runs the exchange under test, host C (connected to
// A only) observes what A forwards, i.e. what A's validator accepted.

type bbResult struct {
	cnt      map[string]int64
	viol     []violation
	log      []string
	distinct []string
	describe map[string]any
}

type observer struct {
	mu   sync.Mutex
	seen map[[32]byte]struct{}
	from map[[32]byte]string
}

func (o *observer) has(data []byte) bool {
	o.mu.Lock()
	defer o.mu.Unlock()
	_, ok := o.seen[sha256.Sum256(data)]
	return ok
}

type bbRig struct {
	ctx       context.Context
	rng       *rand.Rand
	g         *chainGen
	wc        *wireCodec
	ex        *chainexchange.PubSubChainExchange
	clk       *clock.Mock
	topicB    *pubsub.Topic
	obs       *observer
	obsOK     bool
	p         params
	mu        sync.Mutex
	prog      gpbft.InstanceProgress
	cur       uint64
	input     *gpbft.ECChain
	res       *bbResult
	peerNames map[string]string
	lastKey   []struct {
		inst uint64
		key  gpbft.ECChainKey
	}
}

func (b *bbRig) logf(format string, a ...any) {
	b.res.log = append(b.res.log, fmt.Sprintf(format, a...))
}

func (b *bbRig) violate(sig string, detail map[string]any) {
	b.logf("VIOLATION %s", sig)
	if len(b.res.viol) < 4 {
		b.res.viol = append(b.res.viol, violation{sig, detail})
	}
}

func (b *bbRig) view() view {
	return view{cur: b.cur, input: b.input, lookahead: b.p.Lookahead, nowMs: b.clk.Now().UnixMilli(), maxAgeMs: b.p.MaxAgeMs}
}

func (b *bbRig) publish(data []byte) bool {
	if err := b.topicB.Publish(b.ctx, data); err != nil {
		b.res.cnt["publish_errors"]++
		b.logf("publish error: %v", err)
		return false
	}
	return true
}

// get = public lookup + key integrity (refutation clause 2).
func (b *bbRig) get(inst uint64, k gpbft.ECChainKey) bool {
	c, ok := b.ex.GetChainByInstance(b.ctx, inst, k)
	if ok {
		if fk := freshKey(c); fk != k {
			b.violate(fmt.Sprintf("C18/2 key-mismatch: lookup returned a chain whose recomputed key differs from the requested key (returned len=%d) path=blackbox", c.Len()),
				map[string]any{"instance": inst})
		}
	}
	return ok
}

// markerInstance is a future instance within the lookahead that cases never use,
// so that markers do not add pressure to the caches of the instances under test.
func (b *bbRig) markerInstance() uint64 { return b.cur + b.p.Lookahead }

// await publishes marker chains behind the messages of interest and waits until A
// has one of them (and, if possible, until C has seen it forwarded). Wall-clock
// waiting is a synchronisation aid only: false = inconclusive.
func (b *bbRig) await() bool {
	deadline := time.Now().Add(8 * time.Second)
	for time.Now().Before(deadline) {
		ch := b.g.pair()
		m := buildValid("marker", b.markerInstance(), ch, b.view(), b.rng, b.wc)
		b.publish(m.data)
		ks := prefixKeys(ch, b.rng)
		try := time.Now().Add(400 * time.Millisecond)
		for time.Now().Before(try) {
			if b.get(m.instance, ks[1]) || b.get(m.instance, ks[0]) {
				if b.obsOK {
					od := time.Now().Add(2 * time.Second)
					for !b.obs.has(m.data) && time.Now().Before(od) {
						time.Sleep(2 * time.Millisecond)
					}
				}
				time.Sleep(30 * time.Millisecond) // grace: validation of neighbouring messages runs concurrently
				return true
			}
			time.Sleep(2 * time.Millisecond)
		}
		b.res.cnt["marker_retries"]++
	}
	return false
}

func runBlackboxRig(j int, seed int64, ncases int) (res bbResult) {
	res.cnt = map[string]int64{}
	rng := rand.New(rand.NewSource(seed))
	b := &bbRig{rng: rng, g: newChainGen(rng), res: &res, obs: &observer{seen: map[[32]byte]struct{}{}}}
	b.p = params{CapW: 16 + rng.Intn(8), CapD: 3 + rng.Intn(4), Lookahead: 2, MaxAgeMs: 60_000, Compression: rng.Intn(2) == 0, Start: uint64(100 + rng.Intn(1000))}
	b.wc = newWireCodec(b.p.Compression)
	res.describe = map[string]any{"params": b.p, "hosts": 3}
	inconclusiveAll := func(why string) {
		b.logf("rig inconclusive: %s", why)
		res.cnt["rigs_inconclusive"]++
		res.cnt["cases"] += int64(ncases)
		res.cnt["cases_inconclusive"] += int64(ncases)
	}
	ctx, cancel := context.WithCancel(context.Background())
	defer cancel()
	b.ctx = ctx
	mnet := mocknet.New()
	defer mnet.Close()
	var pss []*pubsub.PubSub
	var peers []peer.ID // creation order: A (exchange), B (publisher), C (observer)
	for i := 0; i < 3; i++ {
		h, err := mnet.GenPeer()
		if err != nil {
			inconclusiveAll(err.Error())
			return
		}
		ps, err := pubsub.NewGossipSub(ctx, h, pubsub.WithFloodPublish(true), pubsub.WithMessageSignaturePolicy(pubsub.StrictNoSign))
		if err != nil {
			inconclusiveAll(err.Error())
			return
		}
		pss = append(pss, ps)
		peers = append(peers, h.ID())
	}
	b.peerNames = map[string]string{"A": peers[0].String(), "B": peers[1].String(), "C": peers[2].String()}
	topic := fmt.Sprintf("c18/bb/%d", j)
	b.clk = clock.NewMock()
	b.clk.Add(24 * time.Hour)
	lis := &recListener{}
	var err error
	b.ex, err = chainexchange.NewPubSubChainExchange(
		chainexchange.WithProgress(func() gpbft.InstanceProgress { b.mu.Lock(); defer b.mu.Unlock(); return b.prog }),
		chainexchange.WithPubSub(pss[0]),
		chainexchange.WithTopicName(topic),
		chainexchange.WithTopicScoreParams(nil),
		chainexchange.WithMaxTimestampAge(time.Duration(b.p.MaxAgeMs)*time.Millisecond),
		chainexchange.WithCompression(b.p.Compression),
		chainexchange.WithClock(b.clk),
		chainexchange.WithListener(lis),
		chainexchange.WithMaxInstanceLookahead(b.p.Lookahead),
		chainexchange.WithMaxWantedChainsPerInstance(b.p.CapW),
		chainexchange.WithMaxDiscoveredChainsPerInstance(b.p.CapD),
		chainexchange.WithSubscriptionBufferSize(512),
	)
	if err != nil {
		inconclusiveAll(err.Error())
		return
	}
	setProgress := func(id uint64, input *gpbft.ECChain) {
		b.mu.Lock()
		b.prog = gpbft.InstanceProgress{Instant: gpbft.Instant{ID: id}, Input: input}
		b.mu.Unlock()
		b.cur, b.input = id, input
	}
	setProgress(b.p.Start, b.g.grow(b.g.base(b.p.Start), 1, 0, false))
	if err := b.ex.Start(ctx); err != nil {
		inconclusiveAll(err.Error())
		return
	}
	defer func() { _ = b.ex.Shutdown(context.Background()) }()
	// B - A - C (B and C are not even linked: C only sees what A forwards)
	if _, err := mnet.LinkPeers(peers[0], peers[1]); err != nil {
		inconclusiveAll(err.Error())
		return
	}
	if _, err := mnet.LinkPeers(peers[0], peers[2]); err != nil {
		inconclusiveAll(err.Error())
		return
	}
	if _, err := mnet.ConnectPeers(peers[0], peers[1]); err != nil {
		inconclusiveAll(err.Error())
		return
	}
	if _, err := mnet.ConnectPeers(peers[0], peers[2]); err != nil {
		inconclusiveAll(err.Error())
		return
	}
	b.topicB, err = pss[1].Join(topic, pubsub.WithTopicMessageIdFn(psutil.ChainExchangeMessageIdFn))
	if err != nil {
		inconclusiveAll(err.Error())
		return
	}
	topicC, err := pss[2].Join(topic, pubsub.WithTopicMessageIdFn(psutil.ChainExchangeMessageIdFn))
	if err != nil {
		inconclusiveAll(err.Error())
		return
	}
	subC, err := topicC.Subscribe(pubsub.WithBufferSize(4096))
	if err != nil {
		inconclusiveAll(err.Error())
		return
	}
	go func() {
		for {
			m, err := subC.Next(ctx)
			if err != nil {
				return
			}
			b.obs.mu.Lock()
			b.obs.seen[sha256.Sum256(m.Data)] = struct{}{}
			if b.obs.from == nil {
				b.obs.from = map[[32]byte]string{}
			}
			b.obs.from[sha256.Sum256(m.Data)] = m.ReceivedFrom.String()
			b.obs.mu.Unlock()
		}
	}()

	// warm-up: B's publications must reach A; then give the mesh a chance to include C
	if !b.await() {
		inconclusiveAll("warm-up marker never reached A")
		return
	}
	for i := 0; i < 40 && !b.obsOK; i++ {
		ch := b.g.pair()
		m := buildValid("marker", b.markerInstance(), ch, b.view(), b.rng, b.wc)
		b.publish(m.data)
		for w := 0; w < 50 && !b.obsOK; w++ {
			time.Sleep(2 * time.Millisecond)
			b.obsOK = b.obs.has(m.data)
		}
	}
	if b.obsOK {
		res.cnt["rigs_with_observer"]++
	}
	res.describe["observer_active"] = b.obsOK

	for i := 0; i < ncases; i++ {
		b.caseN(j, i)
	}
	return
}

func (b *bbRig) caseN(j, i int) {
	res := b.res
	res.cnt["cases"]++
	// a fresh instance for every case; the node moves on and drops what is below
	next := b.cur + 10
	b.mu.Lock()
	b.prog = gpbft.InstanceProgress{Instant: gpbft.Instant{ID: next}, Input: b.g.grow(b.g.base(next), 1+b.rng.Intn(3), 0, false)}
	b.cur, b.input = next, b.prog.Input
	b.mu.Unlock()
	b.clk.Add(time.Duration(b.rng.Intn(5000)) * time.Millisecond)
	if err := b.ex.RemoveChainsByInstance(b.ctx, b.cur); err != nil {
		b.logf("prune error %v", err)
	}
	res.cnt["prunes"]++
	for _, lk := range b.lastKey {
		res.cnt["prune_probe_below"]++
		if b.get(lk.inst, lk.key) {
			b.violate(fmt.Sprintf("C18/5 prune-left: RemoveChainsByInstance(x) left a chain of an instance below x retrievable (instance=x-%d) path=blackbox", b.cur-lk.inst),
				map[string]any{"instance": lk.inst, "x": b.cur})
		}
	}
	b.lastKey = nil
	remember := func(inst uint64, k gpbft.ECChainKey) {
		b.lastKey = append(b.lastKey, struct {
			inst uint64
			key  gpbft.ECChainKey
		}{inst, k})
	}
	inconclusive := func(why string) {
		res.cnt["cases_inconclusive"]++
		b.logf("case %d inconclusive: %s", i, why)
	}
	v := b.view()
	inst := b.cur
	if b.rng.Intn(3) == 0 {
		inst = b.cur + 1 // an allowed future instance (the marker instance is cur+2)
	}
	root := b.g.base(inst)
	if inst != b.cur && b.rng.Intn(2) == 0 {
		root = b.g.otherRoot(inst)
	}
	unsolicited := func(n int) {
		for f := 0; f < n; f++ {
			ch := &gpbft.ECChain{TipSets: []*gpbft.TipSet{root.ts, b.g.newTipset(root.ts.Epoch + 1 + int64(b.rng.Intn(3)))}}
			b.publish(buildValid("flood", inst, ch, v, b.rng, b.wc).data)
			res.cnt["flood_messages"]++
		}
		res.cnt["floods"]++
	}
	switch kind := i % 6; kind {
	case 0: // valid broadcast: the chain and every prefix become retrievable (within capacity)
		l := 1 + b.rng.Intn(b.p.CapD)
		if i%12 == 6 {
			l = 20 + b.rng.Intn(109)
		}
		ch := b.g.grow(root, l, 0, true)
		m := buildValid("valid", inst, ch, v, b.rng, b.wc)
		b.logf("case %d valid %s", i, m.describe())
		b.publish(m.data)
		if !b.await() {
			inconclusive("marker")
			return
		}
		keys := prefixKeys(ch, b.rng)
		if l <= b.p.CapD && l <= b.p.CapW {
			// all prefixes fit in either cache and nothing else arrived for this instance
			for pi, k := range keys {
				if !b.get(inst, k) {
					// distinguish "never delivered" (inconclusive) from "delivered but prefix missing"
					if pi == 0 && !b.get(inst, keys[len(keys)-1]) {
						inconclusive("valid message never observed at A")
						return
					}
					// the message may have overtaken the marker and still be in the middle of being cached
					time.Sleep(300 * time.Millisecond)
					if b.get(inst, k) {
						res.cnt["prefix_lookups_hit_on_retry"]++
						continue
					}
					b.violate(fmt.Sprintf("C18/1 admitted-miss: admitted chain (or prefix) not retrievable within capacity; prefix %d of %d path=blackbox", pi+1, l),
						map[string]any{"instance": inst, "len": l, "prefix": pi + 1, "max_wanted": b.p.CapW, "max_discovered": b.p.CapD})
					return
				}
			}
			res.cnt["valid_retrieved"]++
			res.cnt["prefix_lookups_hit"] += int64(len(keys))
		} else {
			hits := 0
			for _, k := range keys {
				if b.get(inst, k) {
					hits++
				}
			}
			if hits == 0 {
				inconclusive("long valid message never observed at A")
				return
			}
			res.cnt["valid_long_retrieved"]++
			res.cnt["prefix_lookups_hit"] += int64(hits)
			res.cnt["evictions_observed"] += int64(len(keys) - hits)
		}
		if b.obsOK {
			if b.obs.has(m.data) {
				res.cnt["valid_forwarded"]++
			} else {
				res.cnt["valid_not_forwarded"]++
			}
		}
		remember(inst, keys[len(keys)-1])
		res.distinct = append(res.distinct, fmt.Sprintf("bb|%d|valid|%d|%d", j, i, l))
	case 1, 3, 5: // inadmissible broadcast of one class
		class := invalidClasses[(j*11+i*7+i/6)%len(invalidClasses)]
		if !applicable(class, v) {
			class = "ts_too_old"
		}
		c := buildInvalid(class, v, b.g, b.wc)
		b.logf("case %d inadmissible %s", i, c.describe())
		if len(c.data) == 0 || !b.publish(c.data) {
			res.cnt["inadmissible_not_publishable"]++
			res.cnt["cases_inconclusive"]++
			return
		}
		if !b.await() {
			inconclusive("marker")
			return
		}
		res.cnt["inadmissible_checked"]++
		res.cnt["inadmissible_"+class]++
		if c.chain != nil && c.chain.Len() > 0 && c.chain.Len() <= 200 {
			n := c.chain.Len()
			for _, pi := range []int{n - 1, 0, b.rng.Intn(n)} {
				pc := c.chain.Prefix(pi)
				k := freshKey(pc)
				// the base of the current instance's input may legitimately be known through other (valid) chains
				if pi == 0 && b.input != nil && pc.Base().Equal(b.input.Base()) {
					continue
				}
				if b.get(c.instance, k) {
					b.violate(fmt.Sprintf("C18/3 inadmissible-retrievable: class=%s became retrievable path=blackbox", class),
						map[string]any{"class": class, "message": c.describe(), "prefix": pi + 1, "current_instance": b.cur})
					return
				}
			}
		}
		if b.obsOK && b.obs.has(c.data) {
			b.violate(fmt.Sprintf("C18/3 inadmissible-admitted: class=%s was forwarded to peers (validator verdict=accept) path=blackbox", class),
				map[string]any{"class": class, "message": c.describe(), "current_instance": b.cur, "observer_received_from": b.obs.from[sha256.Sum256(c.data)], "peers": b.peerNames})
			return
		}
		res.distinct = append(res.distinct, fmt.Sprintf("bb|%d|inadmissible|%d|%s", j, i, class))
	case 2, 4: // wanted chain vs unsolicited flood
		askFirst := kind == 2
		ch := b.g.grow(root, 2+b.rng.Intn(3), 0, true)
		k := ch.Key()
		m := buildValid("valid", inst, ch, v, b.rng, b.wc)
		b.logf("case %d wanted-vs-flood askFirst=%v %s", i, askFirst, m.describe())
		if askFirst {
			if b.get(inst, k) {
				b.violate("C18/3 phantom: lookup returned a chain that was never admitted for that instance (since it was last pruned) path=blackbox", map[string]any{"instance": inst})
				return
			}
		}
		b.publish(m.data)
		if !b.await() {
			inconclusive("marker")
			return
		}
		if !askFirst {
			if !b.get(inst, k) {
				inconclusive("valid message not yet observed at A when asked")
				return
			}
		}
		nflood := (2 + b.rng.Intn(4)) * b.p.CapD
		unsolicited(nflood)
		if !b.await() {
			inconclusive("marker")
			return
		}
		// wanted keys touched in this instance: just k (markers live in another instance)
		if !b.get(inst, k) {
			if askFirst {
				b.violate(fmt.Sprintf("C18/4 wanted-lost: key asked first, then admitted remote arrival, then unsolicited flood; lookup misses although wanted pressure %d < maxWanted %d (arrivals since >= maxDiscovered %d) path=blackbox",
					0, b.p.CapW, b.p.CapD), map[string]any{"instance": inst, "flood_messages": nflood, "max_wanted": b.p.CapW, "max_discovered": b.p.CapD})
			} else {
				b.violate(fmt.Sprintf("C18/1 admitted-miss: admitted chain (or prefix) not retrievable within capacity; expected in wanted cache, origin=promoted, after flood of %d path=blackbox", nflood),
					map[string]any{"instance": inst, "flood_messages": nflood, "max_wanted": b.p.CapW, "max_discovered": b.p.CapD})
			}
			return
		}
		res.cnt["wanted_survived_flood"]++
		remember(inst, k)
		res.distinct = append(res.distinct, fmt.Sprintf("bb|%d|wanted|%d|%v|%d", j, i, askFirst, nflood))
	}
}
