//go:build verif

package c18

import (
	"fmt"
	"os"
	"runtime"
	"sort"
	"strings"
	"sync"
	"testing"

	"github.com/filecoin-project/go-f3/verifh/vkit"
)

const blackboxCaseBase = 1_000_000

// TestCheck: deterministic path (real exchange, synchronous feeding through the
// accessor, reference model oracle) followed by the black-box path (three mocknet
// hosts, real pubsub end to end).
func TestCheck(t *testing.T) {
	run := vkit.New("C18", "main", "exploration")
	nDet := run.N(300, 30000)
	nRigs := run.N(4, 48)
	run.SetRule("det: one evaluation = one seeded operation sequence (lookups, own broadcasts, admissible and inadmissible remote broadcasts of every class, unsolicited floods of 2-5x maxDiscovered, prunes) over 1-4 instances with moving progress against a real PubSubChainExchange with capacities 2-50 (10% 129-208), checked after every operation against a bracketing reference model; " +
		"distinct = distinct (parameters, operation count, admitted/hit/miss counts); non-trivial = at least one admitted broadcast, one lookup hit and one must-be-retrievable assertion. " +
		"blackbox: one evaluation = one case (valid / asked-then-flooded / received-then-asked / one inadmissible class / prune) on a rig of three in-process libp2p hosts (publisher B -> exchange A -> observer C)")
	run.Assume("the mock clock and the progress function handed to the exchange are the node's view of time and of the current instance",
		"det path: remote arrivals are injected by calling the pubsub validator and then the function the subscription goroutine calls, through an expose-only accessor; own broadcasts go through the public Broadcast and their asynchronous effects are awaited with in-order markers",
		"eviction policy is not modelled: presence is only asserted while fewer than <capacity> distinct other keys touched the cache since the key's insertion (sound for LRU and FIFO), absence only for keys never admitted or pruned",
		"blackbox path: asynchronous delivery is awaited by polling the public API; a timeout makes that case inconclusive, never a verdict")

	var mu sync.Mutex
	agg := map[string]int64{}
	add := func(prefix string, m map[string]int64) {
		mu.Lock()
		for k, v := range m {
			agg[prefix+k] += v
		}
		mu.Unlock()
	}

	detBody := func(i int) {
		seed := run.SubSeed(int64(i))
		run.Breadcrumb(fmt.Sprintf("case=%d seed=%d", i, seed))
		res := runSequence(i, seed)
		if res.harnessE != nil {
			add("det.", map[string]int64{"rig_errors": 1})
			return
		}
		run.Eval(1)
		add("det.", res.cnt)
		add("det.", map[string]int64{"sequences": 1, "operations": int64(len(res.ops))})
		if res.abort != "" {
			add("det.", map[string]int64{"sequences_abandoned": 1})
		}
		if res.nontriv {
			run.Distinct(res.shape)
			add("det.", map[string]int64{"sequences_nontrivial": 1})
		}
		if i < 2 {
			ops := res.ops
			if len(ops) > 25 {
				ops = ops[:25]
			}
			run.Sample(map[string]any{"case": i, "params": res.params, "operations": len(res.ops), "first_ops": ops})
		}
		for _, v := range res.viol {
			ops := res.ops
			if len(ops) > 600 {
				ops = ops[len(ops)-600:]
			}
			run.Violation(v.sig, map[string]any{"case": i, "path": "det", "sequence_seed": seed, "params": res.params, "detail": v.detail, "abandoned": res.abort, "ops_tail": ops})
		}
	}
	bbBody := func(j int) {
		seed := run.SubSeed(int64(blackboxCaseBase + j))
		res := runBlackboxRig(j, seed, run.N(26, 40))
		add("blackbox.", res.cnt)
		run.Eval(res.cnt["cases"])
		for _, d := range res.distinct {
			run.Distinct(d)
		}
		if j == 0 {
			run.Sample(map[string]any{"case": blackboxCaseBase + j, "rig": res.describe, "log_head": head(res.log, 20)})
		}
		for _, v := range res.viol {
			run.Violation(v.sig, map[string]any{"case": blackboxCaseBase + j, "path": "blackbox", "rig_seed": seed, "detail": v.detail, "log_tail": tail(res.log, 200)})
		}
	}

	workers := runtime.GOMAXPROCS(0)
	switch {
	case run.Case >= blackboxCaseBase:
		bbBody(int(run.Case - blackboxCaseBase))
	case run.Case >= 0:
		detBody(int(run.Case))
	default:
		vkit.Parallel(nDet, workers, detBody)
		// the black-box rigs use wall-clock waits for synchronisation: run them on a quieter machine
		vkit.Parallel(nRigs, max(2, workers/2), bbBody)
	}

	names := make([]string, 0, len(agg))
	for k := range agg {
		names = append(names, k)
	}
	sort.Strings(names)
	for _, k := range names {
		run.Count(k, agg[k])
	}

	if run.Case < 0 {
		// floors: observing too little is inconclusive, never a pass
		floor := func(ok bool, why string) {
			if !ok {
				fmt.Printf("FLOOR not met: %s\n", why)
				run.Inconclusive("too-few-events")
			}
		}
		n := int64(nDet)
		floor(agg["det.sequences"] >= n*95/100, "det sequences executed")
		floor(agg["det.sequences_abandoned"]*20 <= n, "det sequences abandoned (markers not observed / diverged)")
		floor(agg["det.sequences_nontrivial"]*2 >= n, "non-trivial det sequences")
		floor(agg["det.admitted"] >= 10*n, "admitted remote broadcasts")
		floor(agg["det.valid_not_admitted"]*20 <= agg["det.admitted"], "admissible broadcasts refused by the validator")
		floor(agg["det.assert_must_hit"] >= 10*n, "must-be-retrievable assertions")
		floor(agg["det.assert_must_hit_wanted"] >= 2*n && agg["det.assert_must_hit_discovered"] >= 2*n, "assertions on both caches")
		floor(agg["det.assert_must_miss"] >= 3*n, "must-miss assertions")
		floor(agg["det.floods"] >= n && agg["det.op_prune"] >= n && agg["det.op_own_broadcast"] >= n/2, "floods / prunes / own broadcasts")
		floor(agg["det.prune_probe_below"] >= n && agg["det.prune_probe_kept"] >= n/2, "prune probes")
		floor(agg["det.evictions_observed"] >= n, "evictions observed")
		for _, c := range invalidClasses {
			tot := int64(0)
			for k, v := range agg {
				if strings.HasPrefix(k, "det.rejected_"+c+"_") {
					tot += v
				}
			}
			floor(tot >= 1, "inadmissible class exercised: "+c)
		}
		floor(agg["blackbox.cases"] >= int64(nRigs)*10, "black-box cases executed")
		floor(agg["blackbox.cases_inconclusive"]*4 <= agg["blackbox.cases"], "black-box cases inconclusive (delivery not observed in time)")
		floor(agg["blackbox.valid_retrieved"] >= int64(nRigs), "black-box valid broadcasts retrieved")
		floor(agg["blackbox.inadmissible_checked"] >= int64(nRigs)*5, "black-box inadmissible broadcasts checked")
	}

	rc := run.Finish()
	if rc != 0 {
		t.Fail()
	}
	if rc == 2 {
		os.Exit(2)
	}
}

func head(l []string, n int) []string {
	if len(l) > n {
		return l[:n]
	}
	return l
}

func tail(l []string, n int) []string {
	if len(l) > n {
		return l[len(l)-n:]
	}
	return l
}
