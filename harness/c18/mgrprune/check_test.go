//go:build verif

// Package mgrprune is part "manager-prune" of the C18 check: the last clause of
// the property ("pruning removes exactly the instances below the given one")
// observed on the production path host -> RemoveMessagesBeforeInstance ->
// manager event loop -> chain exchange, on a started pmsg.PartialMessageManager.
package mgrprune

import (
	"context"
	"fmt"
	"math/rand"
	"os"
	"runtime"
	"strings"
	"sync/atomic"
	"testing"
	"time"

	"github.com/filecoin-project/go-f3/chainexchange"
	"github.com/filecoin-project/go-f3/gpbft"
	"github.com/filecoin-project/go-f3/internal/clock"
	"github.com/filecoin-project/go-f3/manifest"
	"github.com/filecoin-project/go-f3/pmsg"
	"github.com/filecoin-project/go-f3/verifh/vfix"
	"github.com/filecoin-project/go-f3/verifh/vkit"
	logging "github.com/ipfs/go-log/v2"
	pubsub "github.com/libp2p/go-libp2p-pubsub"
	mocknet "github.com/libp2p/go-libp2p/p2p/net/mock"
)

const watchdog = 15 * time.Second // bounded polling; expiry makes the case inconclusive, never a violation

type config struct {
	Cap          int    `json:"max_buffered_messages_per_instance"`
	CompletedBuf int    `json:"completed_messages_buffer_size"`
	PartialBuf   int    `json:"pending_partial_messages_buffer_size"`
	DiscBuf      int    `json:"pending_discovered_chains_buffer_size"`
	RemovalBuf   int    `json:"pending_instance_removal_buffer_size"`
	BroadcastBuf int    `json:"pending_chain_broadcasts_buffer_size"`
	Lookahead    uint64 `json:"chainexchange_max_instance_lookahead"`
	MaxDisc      int    `json:"chainexchange_max_discovered"`
	MaxWanted    int    `json:"chainexchange_max_wanted"`
	Compression  bool   `json:"compression"`
	InputKnown   bool   `json:"progress_reports_input_chain"`
	Buffering    bool   `json:"case_buffers_partial_messages"`
}

func pick(rng *rand.Rand, xs ...int) int { return xs[rng.Intn(len(xs))] }

func cloneChain(c *gpbft.ECChain) *gpbft.ECChain {
	out := &gpbft.ECChain{}
	for _, ts := range c.TipSets {
		t := *ts
		t.Key = append([]byte{}, ts.Key...)
		out.TipSets = append(out.TipSets, &t)
	}
	return out
}

// pv is what the manager is handed after first-stage validation; the manager only
// reads the partial message out of it.
type pv struct{ pm *gpbft.PartialGMessage }

func (p pv) PartialMessage() *gpbft.PartialGMessage { return p.pm }

type instState struct {
	inst     uint64
	chain    *gpbft.ECChain
	keys     []gpbft.ECChainKey // key of every prefix, computed on an independent copy
	hit      []bool             // retrievable at the last look
	buffered int                // partial messages surely buffered by the manager for this instance and not removed since
	everBuf  int
}

type caseRun struct {
	i       int
	run     *vkit.Run
	cfg     config
	ctx     context.Context
	pmm     *pmsg.PartialMessageManager
	ex      *chainexchange.PubSubChainExchange
	clk     *clock.Mock
	insts   []*instState
	log     []string
	cnt     map[string]int64
	timeout bool
}

func (c *caseRun) logf(format string, a ...any) { c.log = append(c.log, fmt.Sprintf(format, a...)) }

func (c *caseRun) poll(cond func() bool) bool {
	if c.timeout {
		return false
	}
	deadline := time.Now().Add(watchdog)
	for spin := 0; ; spin++ {
		if cond() {
			return true
		}
		if spin < 8 {
			runtime.Gosched()
			continue
		}
		if time.Now().After(deadline) {
			c.timeout = true
			c.logf("WATCHDOG: bounded wait expired; queues=%+v", c.pmm.VerifQueues())
			return false
		}
		time.Sleep(20 * time.Microsecond)
	}
}

func (c *caseRun) queuesEmpty() bool {
	q := c.pmm.VerifQueues()
	return q.PartialLen == 0 && q.DiscoveredLen == 0 && q.RemovalLen == 0
}

// barrier returns once everything handed to the manager's event loop so far has
// been fully processed: all queues were seen empty, then a no-op sentinel
// (removal of instances below 0) was taken by the single loop, which it can only
// do after finishing the previous event.
func (c *caseRun) barrier() bool {
	for round := 0; round < 8; round++ {
		if !c.poll(c.queuesEmpty) {
			return false
		}
		c.pmm.RemoveMessagesBeforeInstance(c.ctx, 0)
		if !c.poll(func() bool { return c.pmm.VerifQueues().RemovalLen == 0 }) {
			return false
		}
		if c.queuesEmpty() {
			return true
		}
	}
	c.timeout = true
	return false
}

// lookup is the observation: the manager's chain exchange asked by key.
func (c *caseRun) lookup(inst uint64, key gpbft.ECChainKey) bool {
	got, ok := c.ex.GetChainByInstance(c.ctx, inst, key)
	return ok && got != nil && cloneChain(got).Key() == key
}

func (c *caseRun) witness(extra map[string]any) map[string]any {
	var insts []string
	for _, s := range c.insts {
		insts = append(insts, fmt.Sprintf("instance %d: chain of %d tipsets, %d partial messages buffered", s.inst, s.chain.Len(), s.everBuf))
	}
	w := map[string]any{"case": c.i, "config": c.cfg, "instances": insts, "ops": c.log}
	for k, v := range extra {
		w[k] = v
	}
	return w
}

func runCase(run *vkit.Run, i int) (cnt map[string]int64, status string) {
	seed := run.SubSeed(int64(i))
	rng := rand.New(rand.NewSource(seed))
	c := &caseRun{i: i, run: run, cnt: map[string]int64{}}
	cnt = c.cnt
	c.cfg = config{
		Cap:          pick(rng, 1, 2, 3, 5, 25000),
		CompletedBuf: pick(rng, 1, 2, 8, 100, 1000),
		PartialBuf:   pick(rng, 1, 4, 100, 100),
		DiscBuf:      pick(rng, 1, 4, 100, 100),
		RemovalBuf:   pick(rng, 1, 1, 10),
		BroadcastBuf: pick(rng, 1, 100),
		Lookahead:    uint64(rng.Intn(5)),
		MaxDisc:      pick(rng, 2, 3, 1000),
		MaxWanted:    pick(rng, 8, 16, 1000, 1000), // never below the number of prefixes of one chain: nothing is evicted by capacity here
		Compression:  rng.Intn(2) == 0,
		InputKnown:   rng.Intn(2) == 0,
		Buffering:    rng.Intn(100) < 55,
	}
	m := manifest.LocalDevnetManifest()
	m.NetworkName = vfix.NN
	m.PartialMessageManager.MaxBufferedMessagesPerInstance = c.cfg.Cap
	m.PartialMessageManager.CompletedMessagesBufferSize = c.cfg.CompletedBuf
	m.PartialMessageManager.PendingPartialMessagesBufferSize = c.cfg.PartialBuf
	m.PartialMessageManager.PendingDiscoveredChainsBufferSize = c.cfg.DiscBuf
	m.PartialMessageManager.PendingInstanceRemovalBufferSize = c.cfg.RemovalBuf
	m.PartialMessageManager.PendingChainBroadcastsBufferSize = c.cfg.BroadcastBuf
	m.ChainExchange.MaxInstanceLookahead = c.cfg.Lookahead
	m.ChainExchange.MaxDiscoveredChainsPerInstance = c.cfg.MaxDisc
	m.ChainExchange.MaxWantedChainsPerInstance = c.cfg.MaxWanted
	m.ChainExchange.RebroadcastInterval = 2 * time.Second
	m.PubSub.ChainCompressionEnabled = c.cfg.Compression
	if err := m.Validate(); err != nil {
		return cnt, "manifest-invalid: " + err.Error()
	}

	ctx, cancel := context.WithCancel(context.Background())
	defer cancel()
	c.ctx = ctx
	mnet := mocknet.New()
	defer mnet.Close()
	host, err := mnet.GenPeer()
	if err != nil {
		return cnt, "mocknet: " + err.Error()
	}
	ps, err := pubsub.NewGossipSub(ctx, host, pubsub.WithFloodPublish(true), pubsub.WithMessageSignaturePolicy(pubsub.StrictNoSign))
	if err != nil {
		return cnt, "pubsub: " + err.Error()
	}
	c.clk = clock.NewMock()
	c.clk.Add(24 * time.Hour) // never advanced afterwards: no rebroadcast tick fires

	var progress atomic.Pointer[gpbft.InstanceProgress]
	progress.Store(&gpbft.InstanceProgress{})
	c.pmm, err = pmsg.NewPartialMessageManager(func() gpbft.InstanceProgress { return *progress.Load() }, ps, m, c.clk)
	if err != nil {
		return cnt, "manager: " + err.Error()
	}
	if _, err = c.pmm.Start(ctx); err != nil {
		return cnt, "manager start: " + err.Error()
	}
	defer func() { _ = c.pmm.Shutdown(context.Background()) }()
	c.ex = c.pmm.VerifChainex()

	// instances in play, ascending: the node's broadcast loop only takes chains of non-decreasing instances
	pt := gpbft.MakeCid([]byte("verif-c18-mgrprune-power-table"))
	n := 2 + rng.Intn(3)
	inst := uint64(1 + rng.Intn(1000))
	for k := 0; k < n; k++ {
		chain := vfix.Chain(int64(100+20*k), 1+rng.Intn(4), fmt.Sprintf("c%d-i%d", i, inst), pt)
		s := &instState{inst: inst, chain: chain}
		for _, p := range cloneChain(chain).AllPrefixes() {
			s.keys = append(s.keys, cloneChain(p).Key())
		}
		s.hit = make([]bool, len(s.keys))
		c.insts = append(c.insts, s)
		inst += uint64(pick(rng, 1, 1, 1, 2))
	}
	top := c.insts[n-1]

	phases := []gpbft.Phase{gpbft.QUALITY_PHASE, gpbft.CONVERGE_PHASE, gpbft.PREPARE_PHASE, gpbft.COMMIT_PHASE, gpbft.DECIDE_PHASE}
	buffer := func(s *instState) {
		if !c.cfg.Buffering || rng.Intn(100) < 40 {
			return
		}
		for k, nm := 0, 1+rng.Intn(3); k < nm; k++ {
			key := s.keys[rng.Intn(len(s.keys))] // a chain the node proposes itself
			if rng.Intn(2) == 0 {
				key = vfix.Chain(int64(7000+rng.Intn(50)), 1+rng.Intn(2), "never-seen", pt).Key() // a chain nobody ever supplies: the message stays buffered
			}
			ph := phases[rng.Intn(len(phases))]
			round := uint64(rng.Intn(3))
			if ph == gpbft.QUALITY_PHASE || ph == gpbft.DECIDE_PHASE {
				round = 0
			} else if ph == gpbft.CONVERGE_PHASE && round == 0 {
				round = 1
			}
			pm := &gpbft.PartialGMessage{VoteValueKey: key, GMessage: &gpbft.GMessage{Sender: gpbft.ActorID(1 + rng.Intn(5)),
				Vote: gpbft.Payload{Instance: s.inst, Round: round, Phase: ph, Value: &gpbft.ECChain{}}}}
			if q := c.pmm.VerifQueues(); q.PartialLen >= q.PartialCap {
				if !c.barrier() {
					return
				}
			}
			c.pmm.BufferPartialMessage(c.ctx, pv{pm})
			s.buffered++
			s.everBuf++
			c.cnt["partial_messages_buffered"]++
			c.logf("buffer partial message inst=%d sender=%d round=%d phase=%s", s.inst, pm.Sender, round, ph)
		}
		c.barrier()
	}

	for _, s := range c.insts {
		p := gpbft.InstanceProgress{Instant: gpbft.Instant{ID: s.inst, Round: uint64(rng.Intn(2)), Phase: phases[rng.Intn(len(phases))]}}
		if c.cfg.InputKnown {
			p.Input = cloneChain(s.chain)
		}
		progress.Store(&p)
		c.logf("progress -> instance %d", s.inst)
		before := rng.Intn(2) == 0
		if before {
			buffer(s)
		}
		if c.timeout {
			break
		}
		if q := c.pmm.VerifQueues(); q.BroadcastLen >= q.BroadcastCap {
			if !c.poll(func() bool { return c.pmm.VerifQueues().BroadcastLen == 0 }) {
				break
			}
		}
		if err := c.pmm.BroadcastChain(c.ctx, s.inst, cloneChain(s.chain)); err != nil {
			return cnt, "broadcast: " + err.Error()
		}
		c.cnt["chains_broadcast"]++
		c.logf("broadcast-chain inst=%d tipsets=%d", s.inst, s.chain.Len())
		// the chain and all its prefixes become retrievable (asynchronous caching)
		if !c.poll(func() bool {
			for _, k := range s.keys {
				if !c.lookup(s.inst, k) {
					return false
				}
			}
			return true
		}) {
			break
		}
		if !before {
			buffer(s)
		}
	}
	if c.timeout {
		return cnt, "timeout"
	}

	// Settle the node's own pubsub deliveries, which would otherwise be able to put a
	// chain back after a prune: (1) one more proposal at the next instance is cached
	// only after the broadcast loop returned from publishing every earlier one; (2) a
	// message published afterwards on the same topic is handed to the chain exchange's
	// single subscription reader after every earlier one, so once it is cached all
	// earlier deliveries have been processed.
	s1 := vfix.Chain(int64(100+20*n), 1, fmt.Sprintf("c%d-next", i), pt)
	if !c.poll(func() bool { return c.pmm.VerifQueues().BroadcastLen == 0 }) {
		return cnt, "timeout"
	}
	if err := c.pmm.BroadcastChain(c.ctx, top.inst+1, cloneChain(s1)); err != nil {
		return cnt, "broadcast: " + err.Error()
	}
	if !c.poll(func() bool { w, ph, _ := c.ex.VerifPeek(top.inst+1, s1.Key()); return w && !ph }) {
		return cnt, "timeout"
	}
	s2 := vfix.Chain(int64(100+20*(n-1)), 1, fmt.Sprintf("c%d-remote", i), pt) // same base as the current instance's input
	data, err := c.ex.VerifEncode(&chainexchange.Message{Instance: top.inst, Chain: cloneChain(s2), Timestamp: c.clk.Now().UnixMilli()})
	if err != nil {
		return cnt, "encode: " + err.Error()
	}
	if err := c.ex.VerifTopicPublish(c.ctx, data); err != nil {
		return cnt, "sentinel publish: " + err.Error()
	}
	// only the full chain is unique to this message (its base is shared with the instance's proposal)
	if !c.poll(func() bool { w, _, d := c.ex.VerifPeek(top.inst, s2.Key()); return w || d }) {
		return cnt, "timeout"
	}
	if !c.barrier() {
		return cnt, "timeout"
	}
	for _, s := range c.insts {
		for k, key := range s.keys {
			s.hit[k] = c.lookup(s.inst, key)
			if !s.hit[k] {
				c.cnt["chains_not_retrievable_before_prune"]++
			}
		}
	}

	// prunes
	anyBuffered := false
	for _, s := range c.insts {
		anyBuffered = anyBuffered || s.everBuf > 0
	}
	lo := c.insts[0].inst - 1
	var xs []uint64
	x := lo + uint64(rng.Intn(int(top.inst+1-lo)+1))
	xs = append(xs, x)
	if rng.Intn(3) == 0 && x <= top.inst {
		xs = append(xs, x+1+uint64(rng.Intn(int(top.inst+1-x))))
	}
	var shape []string
	for _, x := range xs {
		bufferedBelow := false
		for _, s := range c.insts {
			bufferedBelow = bufferedBelow || (s.inst < x && s.buffered > 0)
		}
		yn := map[bool]string{true: "yes", false: "no"}[bufferedBelow]
		c.pmm.RemoveMessagesBeforeInstance(c.ctx, x) // the removal queue is empty (barrier) and this harness is its only sender
		c.logf("remove-before %d (buffered partial messages for older instances: %s)", x, yn)
		if !c.barrier() {
			return cnt, "timeout"
		}
		c.cnt["prunes"]++
		if !anyBuffered {
			c.cnt["prunes_in_cases_without_buffered_partial_messages"]++
		}
		if !bufferedBelow {
			c.cnt["prunes_without_buffered_partial_messages_below"]++
		}
		run.Eval(1)
		below, kept := 0, 0
		for _, s := range c.insts {
			for k, key := range s.keys {
				was := s.hit[k]
				now := c.lookup(s.inst, key)
				s.hit[k] = now
				switch {
				case s.inst < x:
					below++
					c.cnt["probes_below"]++
					if now {
						run.Violation(fmt.Sprintf("C18/5 manager prune-left: RemoveMessagesBeforeInstance(x) left a chain of an instance below x retrievable (buffered partial messages for older instances: %s)", yn),
							c.witness(map[string]any{"x": x, "instance": s.inst, "prefix_tipsets": k + 1, "retrievable_before": was}))
					}
				case was:
					kept++
					c.cnt["probes_kept"]++
					if !now {
						run.Violation(fmt.Sprintf("C18/5 manager prune-removed: RemoveMessagesBeforeInstance(x) removed a chain of an instance >= x (buffered partial messages for older instances: %s)", yn),
							c.witness(map[string]any{"x": x, "instance": s.inst, "prefix_tipsets": k + 1}))
					}
				}
			}
			if s.inst < x {
				s.buffered = 0
			}
		}
		shape = append(shape, fmt.Sprintf("below=%v/kept=%v/buf=%s", below > 0, kept > 0, yn))
	}
	var bufShape []string
	for _, s := range c.insts {
		bufShape = append(bufShape, fmt.Sprint(s.everBuf > 0))
	}
	run.Distinct(fmt.Sprintf("n=%d|buf=%s|prunes=%s|removalq=%d", n, strings.Join(bufShape, ","), strings.Join(shape, ";"), c.cfg.RemovalBuf))
	c.cnt["cases"]++
	if !anyBuffered {
		c.cnt["cases_without_any_buffered_partial_message"]++
	}
	if i < 2 {
		run.Sample(c.witness(map[string]any{"prunes_at": xs}))
	}
	return cnt, ""
}

func TestCheck(t *testing.T) {
	_ = logging.SetLogLevel("*", "fatal")
	run := vkit.New("C18", "manager-prune", "exploration")
	run.SetRule("each case is one seeded history on a started production PartialMessageManager (one mocknet host, mock clock; queue sizes, buffer capacity, chain-exchange limits, lookahead, compression and whether progress reports an input chain varied, manifest.Validate passing): progress moves through 2-4 ascending instances; at each the node proposes one chain of 2-5 tipsets through BroadcastChain and the chain and every prefix are awaited in the manager's chain exchange (GetChainByInstance); in 55% of the cases some instances also get 1-3 partial messages through BufferPartialMessage (announcing a proposed chain or one nobody supplies); then RemoveMessagesBeforeInstance(x) once or twice (ascending) for x from one below the lowest to one above the highest instance; after the event loop is quiescent every chain/prefix of an instance < x must miss and every one of an instance >= x that was retrievable before must still hit. distinct non-trivial = distinct (number of instances, which instances had buffered messages, per prune whether something was below / kept / buffered below, removal queue size)")
	run.Assume("one mocknet host per case, no remote peers; partial messages are handed to the manager as already first-stage validated (the manager only reads instance, sender, round, phase and the announced key)",
		"quiescence of the manager's event loop is established with a no-op sentinel removal request (instances below 0) and queue lengths read through an expose-only accessor; expiry of a bounded wait makes the case inconclusive",
		"the node's own pubsub deliveries are settled before a prune with one more proposal at the next instance and one message published on the exchange's topic (single broadcast loop, single subscription reader: FIFO)",
		"wanted capacity is never below the number of prefixes of a chain, so nothing is evicted by capacity in this part")
	n := run.N(120, 6000)
	type res struct {
		cnt    map[string]int64
		status string
	}
	results := make([]res, n)
	if run.Case >= 0 {
		results = results[:1]
		cnt, status := runCase(run, int(run.Case))
		results[0] = res{cnt, status}
	} else {
		vkit.Parallel(n, runtime.GOMAXPROCS(0), func(i int) {
			cnt, status := runCase(run, i)
			results[i] = res{cnt, status}
		})
	}
	var timeouts, failures int
	for _, r := range results {
		for k, v := range r.cnt {
			run.Count(k, v)
		}
		switch {
		case r.status == "timeout":
			timeouts++
		case r.status != "":
			failures++
			if failures <= 3 {
				fmt.Println("harness:", r.status)
			}
		}
	}
	for _, k := range []string{"cases", "prunes", "probes_below", "probes_kept", "cases_without_any_buffered_partial_message", "prunes_in_cases_without_buffered_partial_messages"} {
		run.Count(k, 0)
	}
	run.Count("cases_inconclusive_timeout", int64(timeouts))
	run.Count("cases_harness_failure", int64(failures))
	if run.Case < 0 {
		nn := int64(n)
		switch {
		case int64(failures)*10 > nn:
			run.Inconclusive("harness-error")
		case int64(timeouts)*20 > nn:
			run.Inconclusive("watchdog")
		}
		floors := map[string]int64{
			"prunes_in_cases_without_buffered_partial_messages": 10,
			"probes_below": nn / 2,
			"probes_kept":  nn / 2,
		}
		var low []string
		for k, f := range floors {
			if run.Counter(k) < f {
				low = append(low, fmt.Sprintf("%s=%d<%d", k, run.Counter(k), f))
			}
		}
		if len(low) > 0 {
			fmt.Println("below floor:", strings.Join(low, " "))
			run.Inconclusive("too-few-events")
		}
	}
	rc := run.Finish()
	if rc != 0 {
		t.Fail()
	}
	if rc == 2 {
		os.Exit(2)
	}
}
