package c18

// Standalone minimal reproduction for the C18 wanted-cache defect. Uses only the
// public API of chainexchange plus two in-process libp2p hosts with real pubsub
// (no accessor, no build tag):
//
//	cd /verif/harness && GOPROXY=off GOFLAGS=-mod=mod go test -count=1 -run TestReproWantedCache ./c18
//
// It asserts the property ("a chain the node asked for first is not lost to a
// flood of unsolicited chains while the wanted capacity is not exceeded"), so it
// FAILS on a tree with the defect and passes on a tree with the fix.

import (
	"context"
	"fmt"
	"testing"
	"time"

	"github.com/filecoin-project/go-f3/chainexchange"
	"github.com/filecoin-project/go-f3/gpbft"
	"github.com/filecoin-project/go-f3/internal/clock"
	"github.com/filecoin-project/go-f3/internal/encoding"
	"github.com/filecoin-project/go-f3/internal/psutil"
	pubsub "github.com/libp2p/go-libp2p-pubsub"
	mocknet "github.com/libp2p/go-libp2p/p2p/net/mock"
)

func reproTipset(epoch int64, name string) *gpbft.TipSet {
	return &gpbft.TipSet{Epoch: epoch, Key: []byte(name), PowerTable: gpbft.MakeCid([]byte("pt"))}
}

func TestReproWantedCache(t *testing.T) {
	const (
		topicName     = "c18-repro"
		maxWanted     = 8
		maxDiscovered = 4
		flood         = 3 * maxDiscovered
	)
	ctx, cancel := context.WithTimeout(context.Background(), time.Minute)
	defer cancel()

	mnet := mocknet.New()
	defer mnet.Close()
	hostA, err := mnet.GenPeer()
	if err != nil {
		t.Fatal(err)
	}
	hostB, err := mnet.GenPeer()
	if err != nil {
		t.Fatal(err)
	}
	psA, err := pubsub.NewGossipSub(ctx, hostA, pubsub.WithFloodPublish(true), pubsub.WithMessageSignaturePolicy(pubsub.StrictNoSign))
	if err != nil {
		t.Fatal(err)
	}
	psB, err := pubsub.NewGossipSub(ctx, hostB, pubsub.WithFloodPublish(true), pubsub.WithMessageSignaturePolicy(pubsub.StrictNoSign))
	if err != nil {
		t.Fatal(err)
	}

	base := reproTipset(10, "base")
	input := &gpbft.ECChain{TipSets: []*gpbft.TipSet{base}}
	progress := gpbft.InstanceProgress{Instant: gpbft.Instant{ID: 0}, Input: input}
	clk := clock.NewMock()
	clk.Add(time.Hour)

	subject, err := chainexchange.NewPubSubChainExchange(
		chainexchange.WithProgress(func() gpbft.InstanceProgress { return progress }),
		chainexchange.WithPubSub(psA),
		chainexchange.WithTopicName(topicName),
		chainexchange.WithTopicScoreParams(nil),
		chainexchange.WithMaxTimestampAge(time.Minute),
		chainexchange.WithCompression(true),
		chainexchange.WithClock(clk),
		chainexchange.WithSubscriptionBufferSize(256),
		chainexchange.WithMaxWantedChainsPerInstance(maxWanted),
		chainexchange.WithMaxDiscoveredChainsPerInstance(maxDiscovered),
	)
	if err != nil {
		t.Fatal(err)
	}
	if err := subject.Start(ctx); err != nil {
		t.Fatal(err)
	}
	defer func() { _ = subject.Shutdown(ctx) }()

	if err := mnet.LinkAll(); err != nil {
		t.Fatal(err)
	}
	if err := mnet.ConnectAllButSelf(); err != nil {
		t.Fatal(err)
	}
	topicB, err := psB.Join(topicName, pubsub.WithTopicMessageIdFn(psutil.ChainExchangeMessageIdFn))
	if err != nil {
		t.Fatal(err)
	}
	enc, err := encoding.NewZSTD[*chainexchange.Message]()
	if err != nil {
		t.Fatal(err)
	}
	publish := func(chain *gpbft.ECChain) {
		data, err := enc.Encode(&chainexchange.Message{Instance: 0, Chain: chain, Timestamp: clk.Now().UnixMilli()})
		if err != nil {
			t.Fatal(err)
		}
		if err := topicB.Publish(ctx, data); err != nil {
			t.Fatal(err)
		}
	}
	// awaitArrival waits (not part of the verdict) until a marker chain published by
	// B after the messages of interest has been processed by A.
	awaitArrival := func(chain *gpbft.ECChain) {
		key := chain.Key()
		deadline := time.Now().Add(20 * time.Second)
		for time.Now().Before(deadline) {
			if _, ok := subject.GetChainByInstance(ctx, 0, key); ok {
				time.Sleep(50 * time.Millisecond) // grace for stragglers validated concurrently
				return
			}
			publish(chain) // peers may not know each other's subscriptions yet; duplicates are dropped by pubsub
			time.Sleep(20 * time.Millisecond)
		}
		t.Skip("inconclusive: marker chain never arrived at A")
	}

	// warm-up: make sure B's publications reach A at all.
	awaitArrival(input.Append(reproTipset(11, "warmup")))

	// 1. A asks for X before it has arrived: X is now wanted.
	x := input.Append(reproTipset(11, "wanted-x"))
	if _, ok := subject.GetChainByInstance(ctx, 0, x.Key()); ok {
		t.Fatal("X found before arrival")
	}
	// 2. X arrives from the network and is admitted.
	publish(x)
	awaitArrival(input.Append(reproTipset(11, "marker-1")))
	// 3. a flood of unsolicited chains, 3x the discovered capacity.
	for i := 0; i < flood; i++ {
		publish(input.Append(reproTipset(11, fmt.Sprintf("unsolicited-%d", i))))
	}
	awaitArrival(input.Append(reproTipset(11, "marker-2")))
	// 4. wanted keys touched so far: warm-up, X, marker-1, marker-2 = 4 < maxWanted = 8.
	got, ok := subject.GetChainByInstance(ctx, 0, x.Key())
	if !ok {
		t.Fatalf("DEFECT REPRODUCED: chain X was asked for first (wanted), then admitted, then %d unsolicited chains arrived (maxDiscovered=%d); "+
			"lookup of X misses although only 4 keys were ever wanted (maxWanted=%d)", flood, maxDiscovered, maxWanted)
	}
	if !got.Eq(x) {
		t.Fatalf("lookup returned a different chain: %v", got)
	}
}
