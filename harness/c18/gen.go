//go:build verif

package c18

import (
	"bytes"
	"encoding/binary"
	"fmt"
	"math"
	"math/rand"

	"github.com/filecoin-project/go-f3/chainexchange"
	"github.com/filecoin-project/go-f3/gpbft"
	"github.com/ipfs/go-cid"
	"github.com/klauspost/compress/zstd"
	"github.com/multiformats/go-multihash"
	cbg "github.com/whyrusleeping/cbor-gen"
)

// ---------------------------------------------------------------------------
// chains

type node struct {
	ts       *gpbft.TipSet
	children []*node
}

// chainGen builds chains over per-instance tipset trees so that chains of one
// instance share prefixes (as proposals of one instance do).
type chainGen struct {
	rng   *rand.Rand
	ctr   uint64
	roots map[uint64]*node // per instance: the base every chain of the *current* instance must have
	alt   map[uint64][]*node
}

func newChainGen(rng *rand.Rand) *chainGen {
	return &chainGen{rng: rng, roots: map[uint64]*node{}, alt: map[uint64][]*node{}}
}

var ptCids = []cid.Cid{gpbft.MakeCid([]byte("pt-a")), gpbft.MakeCid([]byte("pt-b")), gpbft.MakeCid([]byte("pt-c"))}

func (g *chainGen) newTipset(epoch int64) *gpbft.TipSet {
	g.ctr++
	klen := 4 + g.rng.Intn(40)
	switch g.rng.Intn(40) {
	case 0:
		klen = gpbft.TipsetKeyMaxLen
	case 1:
		klen = 1
	}
	key := make([]byte, klen)
	g.rng.Read(key)
	var c [8]byte
	binary.BigEndian.PutUint64(c[:], g.ctr)
	copy(key, c[:min(8, klen)]) // uniqueness for klen >= 8; for tiny keys uniqueness comes from epoch/ctr below
	if klen < 8 {
		key = append(key, c[:]...)
	}
	ts := &gpbft.TipSet{Epoch: epoch, Key: key, PowerTable: ptCids[g.rng.Intn(len(ptCids))]}
	if g.rng.Intn(3) == 0 {
		g.rng.Read(ts.Commitments[:])
	}
	return ts
}

// base returns the tipset tree root for an instance (the base of its input).
func (g *chainGen) base(inst uint64) *node {
	if n, ok := g.roots[inst]; ok {
		return n
	}
	n := &node{ts: g.newTipset(int64(g.rng.Intn(1 << 20)))}
	g.roots[inst] = n
	return n
}

// otherRoot returns a root different from the instance's base (for future
// instances whose input is not known yet, and for base-mismatch messages).
func (g *chainGen) otherRoot(inst uint64) *node {
	if l := g.alt[inst]; len(l) > 0 && g.rng.Intn(2) == 0 {
		return l[g.rng.Intn(len(l))]
	}
	n := &node{ts: g.newTipset(int64(g.rng.Intn(1 << 20)))}
	g.alt[inst] = append(g.alt[inst], n)
	return n
}

// grow returns a chain of the given length starting at root. share is the
// probability (percent) of following an existing child instead of creating a
// new tipset; if freshHead, the last tipset is always new (so the full key is new).
func (g *chainGen) grow(root *node, length int, share int, freshHead bool) *gpbft.ECChain {
	tss := make([]*gpbft.TipSet, 0, length)
	cur := root
	tss = append(tss, cur.ts)
	for len(tss) < length {
		last := len(tss) == length-1
		var next *node
		if len(cur.children) > 0 && g.rng.Intn(100) < share && !(last && freshHead) {
			next = cur.children[g.rng.Intn(len(cur.children))]
		} else {
			step := int64(1)
			if g.rng.Intn(5) == 0 {
				step += int64(g.rng.Intn(3)) // null rounds
			}
			next = &node{ts: g.newTipset(cur.ts.Epoch + step)}
			cur.children = append(cur.children, next)
		}
		tss = append(tss, next.ts)
		cur = next
	}
	return &gpbft.ECChain{TipSets: tss}
}

// single returns a one-tipset chain that has never been produced before.
func (g *chainGen) single() *gpbft.ECChain {
	return &gpbft.ECChain{TipSets: []*gpbft.TipSet{g.newTipset(int64(g.rng.Intn(1 << 20)))}}
}

// pair returns a two-tipset chain neither tipset of which has been produced before
// (used for completion markers: seeing either of its two prefixes is enough).
func (g *chainGen) pair() *gpbft.ECChain {
	a := g.newTipset(int64(g.rng.Intn(1 << 20)))
	return &gpbft.ECChain{TipSets: []*gpbft.TipSet{a, g.newTipset(a.Epoch + 1)}}
}

func (g *chainGen) length() int {
	switch x := g.rng.Intn(100); {
	case x < 30:
		return 1 + g.rng.Intn(3)
	case x < 70:
		return 2 + g.rng.Intn(7)
	case x < 90:
		return 8 + g.rng.Intn(40)
	case x < 96:
		return 48 + g.rng.Intn(80)
	default:
		return gpbft.ChainMaxLen
	}
}

func deepCopyChain(c *gpbft.ECChain) *gpbft.ECChain {
	if c == nil {
		return nil
	}
	out := &gpbft.ECChain{TipSets: make([]*gpbft.TipSet, len(c.TipSets))}
	for i, ts := range c.TipSets {
		if ts == nil {
			continue
		}
		cp := *ts
		cp.Key = bytes.Clone(ts.Key)
		out.TipSets[i] = &cp
	}
	return out
}

// freshKey recomputes the key of a chain from scratch on a deep copy (the key
// cached inside the chain object is not trusted).
func freshKey(c *gpbft.ECChain) gpbft.ECChainKey { return deepCopyChain(c).Key() }

// prefixKeys returns the keys of all prefixes (index i = first i+1 tipsets). The
// batch helper is cross-checked against from-scratch computation on two prefixes.
func prefixKeys(c *gpbft.ECChain, rng *rand.Rand) []gpbft.ECChainKey {
	keys := c.KeysForPrefixes()
	check := []int{len(keys) - 1, 0}
	if len(keys) > 2 {
		check = append(check, 1+rng.Intn(len(keys)-2))
	}
	for _, i := range check {
		if freshKey(c.Prefix(i)) != keys[i] {
			// fall back to the slow independent computation
			for j := range keys {
				keys[j] = freshKey(c.Prefix(j))
			}
			break
		}
	}
	return keys
}

// ---------------------------------------------------------------------------
// message classes

// Inadmissible classes: those the validator distinguishes and those the property lists.
var invalidClasses = []string{
	"undecodable_random", "undecodable_truncated", "undecodable_wrong_codec", "undecodable_fields", "undecodable_oversize_key", "undecodable_empty_data",
	"empty_chain", "empty_chain_null",
	"malformed_epoch_order", "malformed_epoch_equal", "malformed_negative_epoch", "malformed_empty_tipset_key", "malformed_too_long", "malformed_pt_cid_long",
	"past_instance", "beyond_lookahead", "beyond_lookahead_max",
	"ts_too_old", "ts_negative", "ts_wraparound", "ts_future", "ts_future_max",
	"base_mismatch", "base_mismatch_epoch_only",
	"combo_past_and_old",
}

type wireCodec struct {
	compression bool
	zw          *zstd.Encoder
}

func newWireCodec(compression bool) *wireCodec {
	w := &wireCodec{compression: compression}
	// a cheap encoder configuration: any conforming frame must be accepted by the receiving side
	w.zw, _ = zstd.NewWriter(nil, zstd.WithEncoderLevel(zstd.SpeedFastest), zstd.WithEncoderConcurrency(1), zstd.WithWindowSize(1<<17), zstd.WithLowerEncoderMem(true))
	return w
}

func (w *wireCodec) wrap(cborBytes []byte) []byte {
	if !w.compression {
		return cborBytes
	}
	return w.zw.EncodeAll(cborBytes, nil)
}

func (w *wireCodec) encode(m *chainexchange.Message) ([]byte, error) {
	var buf bytes.Buffer
	if err := m.MarshalCBOR(&buf); err != nil {
		return nil, err
	}
	return w.wrap(buf.Bytes()), nil
}

// rawTipset hand-encodes a tipset so that fields the generated marshaller
// refuses (over-long key) can be produced.
func rawTipset(buf *bytes.Buffer, epoch int64, key []byte, pt cid.Cid, commitments []byte) {
	cw := cbg.NewCborWriter(buf)
	_ = cw.WriteMajorTypeHeader(cbg.MajArray, 4)
	if epoch >= 0 {
		_ = cw.WriteMajorTypeHeader(cbg.MajUnsignedInt, uint64(epoch))
	} else {
		_ = cw.WriteMajorTypeHeader(cbg.MajNegativeInt, uint64(-epoch-1))
	}
	_ = cw.WriteMajorTypeHeader(cbg.MajByteString, uint64(len(key)))
	_, _ = cw.Write(key)
	_ = cbg.WriteCid(cw, pt)
	_ = cw.WriteMajorTypeHeader(cbg.MajByteString, uint64(len(commitments)))
	_, _ = cw.Write(commitments)
}

func rawMessage(nfields int, instance uint64, chain func(*bytes.Buffer), ts int64) []byte {
	var buf bytes.Buffer
	cw := cbg.NewCborWriter(&buf)
	_ = cw.WriteMajorTypeHeader(cbg.MajArray, uint64(nfields))
	_ = cw.WriteMajorTypeHeader(cbg.MajUnsignedInt, instance)
	if nfields >= 2 {
		chain(&buf)
	}
	if nfields >= 3 {
		if ts >= 0 {
			_ = cw.WriteMajorTypeHeader(cbg.MajUnsignedInt, uint64(ts))
		} else {
			_ = cw.WriteMajorTypeHeader(cbg.MajNegativeInt, uint64(-ts-1))
		}
	}
	for i := 3; i < nfields; i++ {
		_ = cw.WriteMajorTypeHeader(cbg.MajUnsignedInt, 7)
	}
	return buf.Bytes()
}

func rawChain(tss []*gpbft.TipSet) func(*bytes.Buffer) {
	return func(buf *bytes.Buffer) {
		cw := cbg.NewCborWriter(buf)
		_ = cw.WriteMajorTypeHeader(cbg.MajArray, uint64(len(tss)))
		for _, ts := range tss {
			rawTipset(buf, ts.Epoch, ts.Key, ts.PowerTable, ts.Commitments[:])
		}
	}
}

func longCid(rng *rand.Rand) cid.Cid {
	digest := make([]byte, 40+rng.Intn(20))
	rng.Read(digest)
	mh, err := multihash.Encode(digest, multihash.IDENTITY)
	if err != nil {
		panic(err)
	}
	return cid.NewCidV1(cid.DagCBOR, mh)
}

// view is what a message builder needs to know about the receiving node.
type view struct {
	cur       uint64
	input     *gpbft.ECChain // nil: input not known yet
	lookahead uint64
	nowMs     int64
	maxAgeMs  int64
}

// crafted is one wire message plus what the harness knows about it.
type crafted struct {
	class    string
	data     []byte
	instance uint64
	chain    *gpbft.ECChain // nil for undecodable/empty classes
	ts       int64
	valid    bool
}

func (c *crafted) describe() string {
	l := 0
	if c.chain != nil {
		l = c.chain.Len()
	}
	return fmt.Sprintf("%s inst=%d len=%d ts=%d bytes=%d", c.class, c.instance, l, c.ts, len(c.data))
}

// applicable tells whether an inadmissible class can be built in the given view.
func applicable(class string, v view) bool {
	switch class {
	case "past_instance", "combo_past_and_old":
		return v.cur > 0
	case "base_mismatch", "base_mismatch_epoch_only":
		return v.input != nil
	case "ts_negative":
		return v.nowMs-v.maxAgeMs > -1 // otherwise a negative timestamp may lie inside the window
	}
	return true
}

// buildInvalid crafts a message of exactly one inadmissible class; every other
// aspect of it is admissible. validChain is an admissible chain for the current instance.
func buildInvalid(class string, v view, g *chainGen, wc *wireCodec) *crafted {
	rng := g.rng
	inst := v.cur
	validChain := g.grow(g.base(v.cur), 1+rng.Intn(5), 30, true)
	if v.input == nil && rng.Intn(2) == 0 {
		validChain = g.grow(g.otherRoot(v.cur), 1+rng.Intn(5), 30, true)
	}
	ts := v.nowMs - rng.Int63n(v.maxAgeMs+1)
	c := &crafted{class: class, instance: inst, chain: validChain, ts: ts}
	enc := func() {
		d, err := wc.encode(&chainexchange.Message{Instance: c.instance, Chain: c.chain, Timestamp: c.ts})
		if err != nil {
			panic(fmt.Sprintf("encode %s: %v", class, err))
		}
		c.data = d
	}
	switch class {
	case "undecodable_random":
		c.chain = nil
		c.data = make([]byte, 1+rng.Intn(300))
		rng.Read(c.data)
		// make sure it cannot accidentally be a decodable message: first byte is never a CBOR array(3) / zstd magic
		if c.data[0] == 0x83 || c.data[0] == 0x28 {
			c.data[0] = 0xff
		}
	case "undecodable_truncated":
		enc()
		c.chain = nil
		cut := 1 + rng.Intn(len(c.data)-1)
		if wc.compression {
			// truncate the CBOR payload, then compress: a well-formed frame with a torn payload
			var buf bytes.Buffer
			_ = (&chainexchange.Message{Instance: inst, Chain: validChain, Timestamp: ts}).MarshalCBOR(&buf)
			b := buf.Bytes()
			if rng.Intn(2) == 0 {
				c.data = wc.wrap(b[:1+rng.Intn(len(b)-1)])
			} else {
				c.data = c.data[:cut]
			}
		} else {
			c.data = c.data[:cut]
		}
	case "undecodable_wrong_codec":
		var buf bytes.Buffer
		_ = (&chainexchange.Message{Instance: inst, Chain: validChain, Timestamp: ts}).MarshalCBOR(&buf)
		if wc.compression {
			c.data = buf.Bytes() // plain CBOR sent to a node expecting zstd
		} else {
			c.data = wc.zw.EncodeAll(buf.Bytes(), nil) // zstd sent to a node expecting plain CBOR
		}
		c.chain = nil
	case "undecodable_fields":
		n := 2
		if rng.Intn(2) == 0 {
			n = 4
		}
		c.data = wc.wrap(rawMessage(n, inst, rawChain(validChain.TipSets), ts))
		c.chain = nil
	case "undecodable_oversize_key":
		tss := deepCopyChain(validChain).TipSets
		tss[rng.Intn(len(tss))].Key = make([]byte, gpbft.TipsetKeyMaxLen+1+rng.Intn(50))
		c.data = wc.wrap(rawMessage(3, inst, rawChain(tss), ts))
		c.chain = &gpbft.ECChain{TipSets: tss}
	case "undecodable_empty_data":
		c.data = []byte{}
		c.chain = nil
	case "empty_chain":
		c.chain = nil
		c.data = wc.wrap(rawMessage(3, inst, rawChain(nil), ts))
	case "empty_chain_null":
		c.chain = nil
		c.data = wc.wrap(rawMessage(3, inst, func(b *bytes.Buffer) { b.Write(cbg.CborNull) }, ts))
	case "malformed_epoch_order", "malformed_epoch_equal":
		l := 2 + rng.Intn(6)
		cc := deepCopyChain(g.grow(g.base(v.cur), l, 0, true))
		i := 1 + rng.Intn(l-1)
		if class == "malformed_epoch_equal" {
			cc.TipSets[i].Epoch = cc.TipSets[i-1].Epoch
		} else {
			cc.TipSets[i].Epoch = cc.TipSets[i-1].Epoch - 1 - int64(rng.Intn(3))
		}
		c.chain = cc
		enc()
	case "malformed_negative_epoch":
		// only possible without contradicting the base when the instance is a future one or the input is unknown;
		// otherwise the message is (also) a base mismatch, which is inadmissible as well.
		cc := deepCopyChain(validChain)
		cc.TipSets[0].Epoch = -1 - int64(rng.Intn(5))
		for i := 1; i < len(cc.TipSets); i++ {
			cc.TipSets[i].Epoch = cc.TipSets[i-1].Epoch + 1
		}
		c.chain = cc
		enc()
	case "malformed_empty_tipset_key":
		cc := deepCopyChain(g.grow(g.base(v.cur), 2+rng.Intn(5), 0, true))
		cc.TipSets[1+rng.Intn(len(cc.TipSets)-1)].Key = nil
		c.chain = cc
		enc()
	case "malformed_too_long":
		c.chain = g.grow(g.base(v.cur), gpbft.ChainMaxLen+1+rng.Intn(40), 0, true)
		enc()
	case "malformed_pt_cid_long":
		cc := deepCopyChain(g.grow(g.base(v.cur), 2+rng.Intn(5), 0, true))
		cc.TipSets[1+rng.Intn(len(cc.TipSets)-1)].PowerTable = longCid(rng)
		c.chain = cc
		enc()
	case "past_instance":
		c.instance = v.cur - 1
		if rng.Intn(2) == 0 {
			c.instance = uint64(rng.Int63n(int64(min(v.cur, math.MaxInt64))))
		}
		// admissible for that (past) instance in every other respect
		enc()
	case "beyond_lookahead":
		c.instance = v.cur + v.lookahead + 1
		if rng.Intn(2) == 0 {
			c.instance += uint64(rng.Intn(1000))
		}
		c.chain = g.grow(g.otherRoot(c.instance), 1+rng.Intn(5), 0, true)
		enc()
	case "beyond_lookahead_max":
		c.instance = math.MaxUint64 - uint64(rng.Intn(3)) - 2
		c.chain = g.grow(g.otherRoot(c.instance), 1+rng.Intn(3), 0, true)
		enc()
	case "ts_too_old":
		c.ts = v.nowMs - v.maxAgeMs - 1
		if rng.Intn(2) == 0 {
			c.ts -= rng.Int63n(3_600_000)
		}
		enc()
	case "ts_negative":
		c.ts = -1 - rng.Int63n(1<<40)
		enc()
	case "ts_wraparound":
		// so far in the past that now-ts does not fit an int64
		c.ts = math.MinInt64 + rng.Int63n(max(v.nowMs, 1)+1)
		if rng.Intn(3) == 0 {
			c.ts = math.MinInt64
		}
		enc()
	case "ts_future":
		c.ts = v.nowMs + 1
		if rng.Intn(2) == 0 {
			c.ts += rng.Int63n(3_600_000)
		}
		enc()
	case "ts_future_max":
		c.ts = math.MaxInt64 - rng.Int63n(3)
		enc()
	case "base_mismatch":
		c.chain = g.grow(g.otherRoot(v.cur), 1+rng.Intn(5), 0, true)
		enc()
	case "base_mismatch_epoch_only":
		cc := deepCopyChain(validChain)
		cc.TipSets[0].Epoch = v.input.Base().Epoch - 1 // stays >= -1+... may become negative: still a mismatch
		if cc.TipSets[0].Epoch < 0 {
			cc.TipSets[0].Epoch = v.input.Base().Epoch + 1
			for i := 1; i < len(cc.TipSets); i++ {
				cc.TipSets[i].Epoch += 2
			}
		}
		c.chain = cc
		enc()
	case "combo_past_and_old":
		c.instance = v.cur - 1
		c.ts = v.nowMs - v.maxAgeMs - 1 - rng.Int63n(1000)
		enc()
	default:
		panic("unknown class " + class)
	}
	return c
}

// buildValid crafts an admissible message. inst must lie in [cur, cur+lookahead].
func buildValid(class string, inst uint64, chain *gpbft.ECChain, v view, rng *rand.Rand, wc *wireCodec) *crafted {
	ts := v.nowMs - rng.Int63n(v.maxAgeMs+1)
	switch rng.Intn(6) {
	case 0:
		ts = v.nowMs - v.maxAgeMs // oldest admissible
	case 1:
		ts = v.nowMs // newest admissible
	}
	c := &crafted{class: class, instance: inst, chain: chain, ts: ts, valid: true}
	d, err := wc.encode(&chainexchange.Message{Instance: inst, Chain: chain, Timestamp: ts})
	if err != nil {
		panic(err)
	}
	c.data = d
	return c
}
