//go:build verif

package c18

import (
	"context"
	"fmt"
	"math/rand"
	"runtime"
	"sort"
	"sync"
	"sync/atomic"
	"time"

	"github.com/filecoin-project/go-f3/chainexchange"
	"github.com/filecoin-project/go-f3/gpbft"
	"github.com/filecoin-project/go-f3/internal/clock"
	pubsub "github.com/libp2p/go-libp2p-pubsub"
	pb "github.com/libp2p/go-libp2p-pubsub/pb"
	"github.com/libp2p/go-libp2p/core/peer"
	mocknet "github.com/libp2p/go-libp2p/p2p/net/mock"
)

// scratchInstance is an instance number no workload ever uses (far beyond any
// lookahead). Own broadcasts for it are refused by the validator but still pass
// through the exchange's own-broadcast caching queue, which makes them usable as
// an in-order completion marker for that queue (see seq.own).
const scratchInstance = uint64(1)<<63 + 4242

// ---------------------------------------------------------------------------
// rig: one real exchange on one mocknet host

type notification struct {
	instance uint64
	chain    *gpbft.ECChain
}

type recListener struct {
	mu sync.Mutex
	n  []notification
}

func (l *recListener) NotifyChainDiscovered(_ context.Context, instance uint64, chain *gpbft.ECChain) {
	l.mu.Lock()
	l.n = append(l.n, notification{instance, chain})
	l.mu.Unlock()
}

func (l *recListener) drain() []notification {
	l.mu.Lock()
	defer l.mu.Unlock()
	out := l.n
	l.n = nil
	return out
}

type params struct {
	CapW        int    `json:"max_wanted"`
	CapD        int    `json:"max_discovered"`
	Lookahead   uint64 `json:"lookahead"`
	MaxAgeMs    int64  `json:"max_age_ms"`
	Compression bool   `json:"compression"`
	Start       uint64 `json:"start_instance"`
	Steps       int    `json:"instance_steps"`
}

type rig struct {
	ctx    context.Context
	cancel context.CancelFunc
	mnet   mocknet.Mocknet
	ex     *chainexchange.PubSubChainExchange
	clk    *clock.Mock
	lis    *recListener
	topic  string
	from   peer.ID

	mu   sync.Mutex
	prog gpbft.InstanceProgress
}

func (r *rig) progress() gpbft.InstanceProgress {
	r.mu.Lock()
	defer r.mu.Unlock()
	return r.prog
}

func (r *rig) setProgress(id uint64, input *gpbft.ECChain) {
	r.mu.Lock()
	r.prog = gpbft.InstanceProgress{Instant: gpbft.Instant{ID: id}, Input: input}
	r.mu.Unlock()
}

func newRig(p params, topic string) (*rig, error) {
	r := &rig{lis: &recListener{}, topic: topic}
	r.ctx, r.cancel = context.WithCancel(context.Background())
	r.mnet = mocknet.New()
	host, err := r.mnet.GenPeer()
	if err != nil {
		r.close()
		return nil, err
	}
	r.from = host.ID()
	ps, err := pubsub.NewGossipSub(r.ctx, host, pubsub.WithFloodPublish(true), pubsub.WithMessageSignaturePolicy(pubsub.StrictNoSign))
	if err != nil {
		r.close()
		return nil, err
	}
	r.clk = clock.NewMock()
	r.clk.Add(24 * time.Hour)
	r.ex, err = chainexchange.NewPubSubChainExchange(
		chainexchange.WithProgress(r.progress),
		chainexchange.WithPubSub(ps),
		chainexchange.WithTopicName(topic),
		chainexchange.WithTopicScoreParams(nil),
		chainexchange.WithMaxTimestampAge(time.Duration(p.MaxAgeMs)*time.Millisecond),
		chainexchange.WithCompression(p.Compression),
		chainexchange.WithClock(r.clk),
		chainexchange.WithListener(r.lis),
		chainexchange.WithMaxInstanceLookahead(p.Lookahead),
		chainexchange.WithMaxWantedChainsPerInstance(p.CapW),
		chainexchange.WithMaxDiscoveredChainsPerInstance(p.CapD),
		chainexchange.WithSubscriptionBufferSize(64),
	)
	if err != nil {
		r.close()
		return nil, err
	}
	if err := r.ex.Start(r.ctx); err != nil {
		r.close()
		return nil, err
	}
	return r, nil
}

func (r *rig) close() {
	if r.ex != nil {
		_ = r.ex.Shutdown(context.Background())
	}
	r.cancel()
	if r.mnet != nil {
		_ = r.mnet.Close()
	}
}

// ---------------------------------------------------------------------------
// one sequence

type violation struct {
	sig    string
	detail map[string]any
}

type seq struct {
	idx   int
	p     params
	rng   *rand.Rand
	g     *chainGen
	wc    *wireCodec
	r     *rig
	m     *model
	cur   uint64
	input *gpbft.ECChain
	ops   []string
	cnt   map[string]int64
	viol  []violation
	// asked-but-not-yet-delivered chains, per instance
	pending map[uint64][]*gpbft.ECChain
	// admitted chains (full), per instance, for later lookups
	chains map[uint64][]*gpbft.ECChain
	// context for signatures of the post-prune verification
	pruneCtx     string
	pruneAt      uint64
	abort        string
	mustAsserted int
	floods       int
}

func (s *seq) logf(format string, a ...any) {
	s.ops = append(s.ops, fmt.Sprintf("%d: ", s.m.now)+fmt.Sprintf(format, a...))
}

func (s *seq) view() view {
	return view{cur: s.cur, input: s.input, lookahead: s.p.Lookahead, nowMs: s.r.clk.Now().UnixMilli(), maxAgeMs: s.p.MaxAgeMs}
}

func (s *seq) violate(sig string, detail map[string]any) {
	if len(s.viol) < 4 {
		s.viol = append(s.viol, violation{sig, detail})
	}
}

func keyStr(k gpbft.ECChainKey) string { return fmt.Sprintf("%x", k[:6]) }

// lookup = GetChainByInstance + oracle + model update.
func (s *seq) lookup(inst uint64, k gpbft.ECChainKey, why string) bool {
	exp := s.m.expect(inst, k)
	got, hit := s.r.ex.GetChainByInstance(s.r.ctx, inst, k)
	s.cnt["op_lookup"]++
	if hit {
		s.cnt["lookup_hit"]++
	} else {
		s.cnt["lookup_miss"]++
	}
	s.logf("lookup(%s) inst=%d key=%s -> hit=%v (must=%v may=%v)", why, inst, keyStr(k), hit, exp.mustHit, exp.mayHit)
	base := func() map[string]any {
		w, d := s.r.ex.VerifCacheLens(inst)
		inW, ph, inD := s.r.ex.VerifPeek(inst, k)
		return map[string]any{"instance": inst, "key": fmt.Sprintf("%x", k[:]), "why": why, "expected_in": exp.where, "origin": exp.origin,
			"wanted_pressure": exp.pressW, "arrivals_since": exp.arrivals, "wanted_len": w, "discovered_len": d,
			"peek_after": map[string]bool{"in_wanted": inW, "placeholder": ph, "in_discovered": inD}}
	}
	switch {
	case hit && k.IsZero():
		s.violate("C18/2 lookup of the zero key returned a chain", base())
	case hit:
		// (2) never a chain whose key differs from the requested key
		if fk := freshKey(got); fk != k {
			d := base()
			d["returned_key"] = fmt.Sprintf("%x", fk[:])
			d["returned_len"] = got.Len()
			s.violate(fmt.Sprintf("C18/2 key-mismatch: lookup returned a chain whose recomputed key differs from the requested key (returned len=%d)", got.Len()), d)
		} else if exp.chain != nil && !got.Eq(exp.chain) {
			s.violate("C18/2 lookup returned a chain with the requested key but different content", base())
		}
		// (3)/(5) nothing that was never admitted (or was pruned) is retrievable
		if !exp.mayHit {
			if s.pruneCtx == "below" {
				s.violate(fmt.Sprintf("C18/5 prune-left: RemoveChainsByInstance(x) left a chain of an instance below x retrievable (instance=x-%d)", s.pruneAt-inst), base())
			} else {
				s.violate("C18/3 phantom: lookup returned a chain that was never admitted for that instance (since it was last pruned)", base())
			}
		}
	default:
		if exp.mayHit {
			s.cnt["evictions_observed"]++
		}
		if exp.mustHit {
			d := base()
			switch {
			case exp.where == "wanted" && exp.origin == "asked-then-arrived" && exp.arrivals >= s.p.CapD:
				// (4) the chain was wanted when it arrived, at least maxDiscovered other keys arrived since, the
				// wanted cache is not under pressure: the chain was kept with (and evicted like) the unsolicited ones
				s.violate(fmt.Sprintf("C18/4 wanted-lost: key asked first, then admitted remote arrival, then unsolicited flood; lookup misses although wanted pressure %d < maxWanted %d (arrivals since >= maxDiscovered %d) path=det",
					exp.pressW, s.p.CapW, s.p.CapD), d)
			case s.pruneCtx == "kept":
				s.violate(fmt.Sprintf("C18/5 prune-removed: RemoveChainsByInstance(x) removed a chain of an instance >= x (instance=x+%d, expected in %s cache)", inst-s.pruneAt, exp.where), d)
			default:
				// (1)
				s.violate(fmt.Sprintf("C18/1 admitted-miss: admitted chain (or prefix) not retrievable within capacity; expected in %s cache, origin=%s, pressure wanted=%d/%d arrivals=%d/%d",
					exp.where, exp.origin, exp.pressW, s.p.CapW, exp.arrivals, s.p.CapD), d)
			}
		}
	}
	if exp.mustHit {
		s.mustAsserted++
		s.cnt["assert_must_hit"]++
		s.cnt["assert_must_hit_"+exp.where]++
	}
	if !exp.mayHit {
		s.cnt["assert_must_miss"]++
	}
	s.m.onLookup(inst, k, hit)
	s.checkNotifications()
	return hit
}

func (s *seq) checkNotifications() {
	for _, n := range s.r.lis.drain() {
		s.cnt["listener_notifications"]++
		if n.instance == scratchInstance {
			continue
		}
		fk := freshKey(n.chain)
		if _, ok := s.m.everAdmitted[n.instance][fk]; !ok {
			s.violate("C18/3 listener notified of a chain that was never admitted for that instance", map[string]any{"instance": n.instance, "len": n.chain.Len()})
		}
	}
}

func (s *seq) pbMessage(data []byte) *pubsub.Message {
	topic := s.r.topic
	return &pubsub.Message{Message: &pb.Message{Data: data, Topic: &topic, From: []byte(s.r.from)}, ReceivedFrom: s.r.from}
}

// remote = a broadcast arriving from the network: validator, and if accepted the
// same caching call the subscription goroutine makes.
func (s *seq) remote(c *crafted) bool {
	msg := s.pbMessage(c.data)
	verdict := s.r.ex.VerifValidate(s.r.ctx, s.r.from, msg)
	s.cnt["op_remote"]++
	vs := map[pubsub.ValidationResult]string{pubsub.ValidationAccept: "accept", pubsub.ValidationReject: "reject", pubsub.ValidationIgnore: "ignore"}[verdict]
	s.logf("remote %s -> %s", c.describe(), vs)
	if c.valid {
		if verdict != pubsub.ValidationAccept {
			// not claimed by the property (it only says what must NOT be admitted); counted, and floors apply
			s.cnt["valid_not_admitted"]++
			s.cnt["valid_not_admitted_"+c.class]++
			return false
		}
		s.cnt["admitted"]++
		s.cnt["admitted_"+c.class]++
		if !s.r.ex.VerifFeedValidated(s.r.ctx, msg) {
			s.abort = "validator accepted but left no ValidatorData"
			return false
		}
		keys := prefixKeys(c.chain, s.rng)
		s.m.onArrival(c.instance, c.chain, keys)
		s.chains[c.instance] = append(s.chains[c.instance], c.chain)
		s.checkNotifications()
		return true
	}
	s.cnt["rejected_"+c.class+"_"+vs]++
	if verdict == pubsub.ValidationAccept {
		// (3) inadmissible broadcast admitted. Show the consequence too: feed it like the subscription loop would.
		retrievable := false
		if s.r.ex.VerifFeedValidated(s.r.ctx, msg) && c.chain != nil && c.chain.Len() > 0 {
			_, retrievable = s.r.ex.GetChainByInstance(s.r.ctx, c.instance, freshKey(c.chain))
		}
		v := s.view()
		s.violate(fmt.Sprintf("C18/3 inadmissible-admitted: class=%s validator verdict=accept", c.class),
			map[string]any{"class": c.class, "message": c.describe(), "current_instance": v.cur, "lookahead": v.lookahead, "now_ms": v.nowMs, "max_age_ms": v.maxAgeMs,
				"input_known": v.input != nil, "became_retrievable": retrievable})
		s.abort = "state diverged after an inadmissible message was admitted"
		return false
	}
	if msg.ValidatorData != nil {
		s.violate(fmt.Sprintf("C18/3 inadmissible class=%s not accepted but validator data was attached", c.class), map[string]any{"message": c.describe()})
	}
	return false
}

// spinUntil waits for an asynchronous effect. It is a synchronisation aid, never
// part of a verdict: on timeout the sequence is abandoned as inconclusive.
func spinUntil(cond func() bool) bool {
	for i := 0; i < 2000; i++ {
		if cond() {
			return true
		}
		runtime.Gosched()
	}
	deadline := time.Now().Add(10 * time.Second)
	for time.Now().Before(deadline) {
		if cond() {
			return true
		}
		time.Sleep(50 * time.Microsecond)
	}
	return cond()
}

// partialMarkers is set once a marker was observed to be cached only in part for
// good (a tree that drops some prefix): from then on seeing any prefix plus a short
// grace is accepted as completion, so that such a tree is judged by the oracle
// instead of stalling every sequence on marker timeouts.
var partialMarkers atomic.Bool

// awaitMarker waits until all n prefixes of a completion marker are visible. The
// two-tipset markers are cached prefix by prefix, so "any prefix visible" is not
// yet "message processed".
func awaitMarker(n int, visible func(i int) bool) bool {
	all := func() bool {
		for i := 0; i < n; i++ {
			if !visible(i) {
				return false
			}
		}
		return true
	}
	anyOne := func() bool {
		for i := 0; i < n; i++ {
			if visible(i) {
				return true
			}
		}
		return false
	}
	if !partialMarkers.Load() {
		if spinUntil(all) {
			return true
		}
		if !anyOne() {
			return false
		}
		partialMarkers.Store(true)
		return true
	}
	if !spinUntil(anyOne) {
		return false
	}
	for i := 0; i < 200 && !all(); i++ {
		time.Sleep(50 * time.Microsecond)
	}
	return true
}

func (s *seq) uniqueChain(root *node, n int) *gpbft.ECChain { return s.g.grow(root, n, 0, true) }

// own = the node's own Broadcast. Its effects are asynchronous (a queue drained by
// one goroutine caches the chain as wanted; pubsub hands the message back through
// validator and subscription). Both pipelines are FIFO, so two markers sent
// behind the broadcast tell when its effects are complete:
//
//	marker A: an own broadcast for scratchInstance (validator refuses it, so it only
//	          passes through the own-broadcast caching queue),
//	marker B: a valid unsolicited message published on the exchange's topic handle
//	          (validator + subscription goroutine), which the model treats as what it is:
//	          an admitted unsolicited arrival.
func (s *seq) own(inst uint64, chain *gpbft.ECChain) {
	now := s.r.clk.Now().UnixMilli()
	err := s.r.ex.Broadcast(s.r.ctx, chainexchange.Message{Instance: inst, Chain: deepCopyChain(chain), Timestamp: now})
	s.cnt["op_own_broadcast"]++
	s.logf("own inst=%d len=%d err=%v", inst, chain.Len(), err)
	if err != nil {
		s.cnt["own_broadcast_errors"]++
	}
	markerA := s.g.pair()
	_ = s.r.ex.Broadcast(s.r.ctx, chainexchange.Message{Instance: scratchInstance, Chain: markerA, Timestamp: now})
	akeys := prefixKeys(markerA, s.rng)
	var markerB *crafted
	if err == nil {
		v := s.view()
		binst := s.cur + s.p.Lookahead
		var bchain *gpbft.ECChain
		if binst == s.cur && s.input != nil {
			bchain = s.uniqueChain(s.g.base(s.cur), 2)
		} else {
			bchain = s.g.pair()
		}
		markerB = buildValid("marker", binst, bchain, v, s.rng, s.wc)
		markerB.ts = now
		markerB.data, _ = s.wc.encode(&chainexchange.Message{Instance: binst, Chain: bchain, Timestamp: now})
		if perr := s.r.ex.VerifTopicPublish(s.r.ctx, markerB.data); perr != nil {
			s.cnt["marker_publish_refused"]++
			markerB = nil
		}
	}
	// a marker is complete when all of its prefixes are visible (read-only peek); see awaitMarker
	okA := awaitMarker(len(akeys), func(i int) bool {
		w, ph, _ := s.r.ex.VerifPeek(scratchInstance, akeys[i])
		return w && !ph
	})
	okB := true
	if markerB != nil {
		bkeys := prefixKeys(markerB.chain, s.rng)
		okB = awaitMarker(len(bkeys), func(i int) bool {
			w, ph, d := s.r.ex.VerifPeek(markerB.instance, bkeys[i])
			return (w && !ph) || d
		})
	}
	if !okA || !okB {
		s.abort = fmt.Sprintf("own-broadcast completion markers not observed (A=%v B=%v)", okA, okB)
		s.cnt["marker_timeouts"]++
		return
	}
	s.m.onOwn(inst, chain, prefixKeys(chain, s.rng))
	s.chains[inst] = append(s.chains[inst], chain)
	if markerB != nil {
		s.m.onArrival(markerB.instance, markerB.chain, prefixKeys(markerB.chain, s.rng))
		s.cnt["marker_arrivals"]++
	}
	s.checkNotifications()
}

// rootFor picks the tipset tree a chain for inst has to grow from.
func (s *seq) rootFor(inst uint64) *node {
	if inst == s.cur && s.input != nil {
		return s.g.base(inst)
	}
	if s.rng.Intn(3) > 0 {
		return s.g.base(inst) // most future chains already build on what will be the base
	}
	return s.g.otherRoot(inst)
}

func (s *seq) admissibleInstance() uint64 {
	if s.p.Lookahead == 0 || s.rng.Intn(100) < 55 {
		return s.cur
	}
	return s.cur + 1 + uint64(s.rng.Int63n(int64(s.p.Lookahead)))
}

func (s *seq) validClass(inst uint64) string {
	switch {
	case inst == s.cur && s.input == nil:
		return "valid_input_unknown"
	case inst == s.cur:
		return "valid_current"
	case inst == s.cur+s.p.Lookahead:
		return "valid_future_edge"
	default:
		return "valid_future"
	}
}

func (s *seq) deliver(inst uint64, chain *gpbft.ECChain) bool {
	return s.remote(buildValid(s.validClass(inst), inst, chain, s.view(), s.rng, s.wc))
}

// flood = n unsolicited admissible chains nobody asked for.
func (s *seq) flood(inst uint64, newKeys int) {
	s.floods++
	s.cnt["floods"]++
	s.logf("flood inst=%d new_keys>=%d", inst, newKeys)
	root := s.rootFor(inst)
	for got := 0; got < newKeys && s.abort == ""; {
		l := 2
		if newKeys > 60 {
			l = 2 + newKeys/40 // large capacities: fewer, longer chains
		}
		if s.rng.Intn(6) == 0 {
			l += s.rng.Intn(5)
		}
		if s.rng.Intn(40) == 0 {
			l = 20 + s.rng.Intn(109)
		}
		ch := s.g.grow(root, l, 0, true)
		if len(ch.TipSets) > 1 {
			// only the root is shared: every other prefix is a new key
			ch = &gpbft.ECChain{TipSets: append([]*gpbft.TipSet{root.ts}, s.uniqueChain(&node{ts: root.ts}, l).TipSets[1:]...)}
		}
		if s.deliver(inst, ch) {
			s.cnt["flood_messages"]++
		}
		got += l - 1
	}
}

func (s *seq) pickKnownKey(inst uint64) (gpbft.ECChainKey, bool) {
	x := s.rng.Intn(100)
	switch {
	case x < 55:
		if ks := s.m.mustKeys(inst, 12); len(ks) > 0 {
			return ks[s.rng.Intn(len(ks))], true
		}
		fallthrough
	case x < 85:
		if ks := s.m.admittedKeys(inst, 64); len(ks) > 0 {
			return ks[s.rng.Intn(len(ks))], true
		}
	}
	if cs := s.chains[inst]; len(cs) > 0 {
		c := cs[s.rng.Intn(len(cs))]
		return c.Prefix(s.rng.Intn(c.Len())).Key(), true
	}
	return gpbft.ECChainKey{}, false
}

func (s *seq) someInstance() uint64 {
	// an instance that has (or had) state: current, future, or past
	lo := s.p.Start
	hi := s.cur + s.p.Lookahead
	return lo + uint64(s.rng.Int63n(int64(hi-lo+1)))
}

// wantedScenario: ask first, receive, get flooded, look up again (refutation clause 4),
// and its mirror: receive, ask (promotes), get flooded, look up again.
func (s *seq) wantedScenario() {
	inst := s.admissibleInstance()
	k := 1 + s.rng.Intn(min(4, max(1, s.p.CapW-1)))
	root := s.rootFor(inst)
	type want struct {
		chain *gpbft.ECChain
		key   gpbft.ECChainKey
	}
	var wants []want
	askFirst := s.rng.Intn(4) > 0
	s.cnt["scenario_wanted"]++
	for i := 0; i < k; i++ {
		l := 1 + s.rng.Intn(4)
		if s.rng.Intn(10) == 0 {
			l = s.g.length()
		}
		ch := s.g.grow(root, l, 20, true)
		w := want{ch, ch.Key()}
		wants = append(wants, w)
		if askFirst {
			s.lookup(inst, w.key, "ask")
		}
	}
	if s.rng.Intn(3) == 0 {
		s.flood(inst, 1+s.rng.Intn(2*s.p.CapD))
	}
	for _, w := range wants {
		if s.abort != "" {
			return
		}
		s.deliver(inst, w.chain)
		if !askFirst {
			s.lookup(inst, w.key, "ask-after-arrival")
		}
	}
	s.flood(inst, (2+s.rng.Intn(4))*s.p.CapD)
	for _, w := range wants {
		if s.abort != "" {
			return
		}
		s.lookup(inst, w.key, "again-after-flood")
	}
}

// readmitScenario: a chain is admitted, looked up (only the chain itself is promoted), its prefixes
// are pushed out by a flood and asked for (placeholders), then the same chain is broadcast and
// admitted again: every prefix must be retrievable again ("after a node admits a chain broadcast
// ... that chain and every prefix of it can be retrieved").
func (s *seq) readmitScenario() {
	inst := s.admissibleInstance()
	s.cnt["scenario_readmit"]++
	ch := s.g.grow(s.rootFor(inst), 2+s.rng.Intn(5), 0, true)
	if !s.deliver(inst, ch) {
		return
	}
	s.lookup(inst, ch.Key(), "readmit-promote")
	s.flood(inst, (2+s.rng.Intn(3))*s.p.CapD)
	if s.abort != "" {
		return
	}
	keys := prefixKeys(ch, s.rng)
	for i := 0; i < len(keys)-1; i++ {
		if s.rng.Intn(3) > 0 {
			s.lookup(inst, keys[i], "readmit-ask-prefix")
		}
	}
	if inst == s.cur && s.input != nil && !ch.Base().Equal(s.input.Base()) {
		return
	}
	if s.deliver(inst, ch) {
		s.cnt["scenario_readmit_completed"]++
		s.allPrefixes(inst, ch, "every-prefix-after-readmission")
	}
}

// lateOwnScenario: the node re-broadcasts one of its chains for an instance it has already left and
// pruned (a late periodic re-broadcast). The validator refuses the self-delivery, so only the
// own-broadcast caching happens for that instance; a later prune must still remove it.
func (s *seq) lateOwnScenario() {
	if s.cur == 0 {
		return
	}
	s.cnt["scenario_late_own"]++
	s.prune(s.cur)
	if s.abort != "" {
		return
	}
	i := s.cur - 1
	ch := s.g.grow(s.g.base(i), 1+s.rng.Intn(4), 0, true)
	s.own(i, ch)
	if s.abort != "" {
		return
	}
	s.prune(s.cur + uint64(s.rng.Intn(2)))
}

func (s *seq) allPrefixes(inst uint64, chain *gpbft.ECChain, why string) {
	keys := prefixKeys(chain, s.rng)
	idx := s.rng.Perm(len(keys))
	if len(idx) > 140 {
		idx = idx[:140]
	}
	for _, i := range idx {
		s.lookup(inst, keys[i], why)
	}
}

func (s *seq) randomOp() {
	v := s.view()
	x := s.rng.Intn(100)
	switch {
	case x < 10: // ask for something not seen yet
		inst := s.admissibleInstance()
		if s.rng.Intn(8) == 0 {
			inst = s.someInstance()
		}
		ch := s.g.grow(s.rootFor(inst), s.g.length(), 40, true)
		s.pending[inst] = append(s.pending[inst], ch)
		s.lookup(inst, ch.Key(), "ask")
		if ch.Len() > 1 && s.rng.Intn(3) == 0 {
			s.lookup(inst, ch.Prefix(s.rng.Intn(ch.Len()-1)).Key(), "ask-prefix")
		}
	case x < 20: // something asked for earlier arrives
		inst := s.admissibleInstance()
		if l := s.pending[inst]; len(l) > 0 {
			i := s.rng.Intn(len(l))
			ch := l[i]
			s.pending[inst] = append(l[:i:i], l[i+1:]...)
			if inst == s.cur && s.input != nil && !ch.Base().Equal(s.input.Base()) {
				break // asked while the instance was a future one, with another base: not admissible any more
			}
			if s.deliver(inst, ch) && s.rng.Intn(2) == 0 {
				s.lookup(inst, ch.Key(), "after-arrival")
			}
		}
	case x < 34: // unsolicited valid arrival
		inst := s.admissibleInstance()
		ch := s.g.grow(s.rootFor(inst), s.g.length(), 40, s.rng.Intn(4) > 0)
		if s.deliver(inst, ch) {
			switch s.rng.Intn(4) {
			case 0:
				s.allPrefixes(inst, ch, "every-prefix-after-arrival")
			case 1:
				s.lookup(inst, ch.Key(), "after-arrival")
			}
		}
	case x < 52: // inadmissible arrival
		class := invalidClasses[s.rng.Intn(len(invalidClasses))]
		if !applicable(class, v) {
			break
		}
		c := buildInvalid(class, v, s.g, s.wc)
		s.remote(c)
		if s.abort == "" && c.chain != nil && c.chain.Len() > 0 && c.chain.Len() <= gpbft.ChainMaxLen && s.rng.Intn(2) == 0 {
			// and it must not have become retrievable
			pc := c.chain.Prefix(s.rng.Intn(c.chain.Len()))
			s.lookup(c.instance, freshKey(pc), "after-inadmissible")
		}
	case x < 60: // own broadcast
		inst := s.cur
		if s.p.Lookahead > 0 && s.rng.Intn(6) == 0 {
			inst = s.admissibleInstance()
		}
		l := 1 + s.rng.Intn(6)
		if s.rng.Intn(5) == 0 {
			l = s.g.length()
		}
		ch := s.g.grow(s.rootFor(inst), l, 40, s.rng.Intn(4) > 0)
		s.own(inst, ch)
		if s.abort == "" && s.rng.Intn(2) == 0 {
			s.allPrefixes(inst, ch, "every-prefix-after-own")
		}
	case x < 80: // lookups of known / unknown keys
		inst := s.someInstance()
		if s.rng.Intn(3) > 0 {
			inst = s.admissibleInstance()
		}
		switch y := s.rng.Intn(10); {
		case y < 7:
			if k, ok := s.pickKnownKey(inst); ok {
				s.lookup(inst, k, "known")
			}
		case y < 8: // a key admitted for another instance
			other := s.someInstance()
			if k, ok := s.pickKnownKey(other); ok {
				s.lookup(inst, k, "cross-instance")
			}
		case y < 9:
			s.lookup(inst, s.uniqueChain(s.rootFor(inst), 1+s.rng.Intn(3)).Key(), "unknown")
		default:
			s.lookup(inst, gpbft.ECChainKey{}, "zero-key")
		}
	case x < 86:
		s.flood(s.admissibleInstance(), (2+s.rng.Intn(4))*s.p.CapD)
	case x < 92:
		s.wantedScenario()
	case x < 94:
		s.readmitScenario()
	case x < 97: // every prefix of some admitted chain
		inst := s.admissibleInstance()
		if cs := s.chains[inst]; len(cs) > 0 {
			s.allPrefixes(inst, cs[s.rng.Intn(len(cs))], "every-prefix")
		}
	default: // time passes
		s.r.clk.Add(time.Duration(s.rng.Int63n(2*s.p.MaxAgeMs+10)) * time.Millisecond)
		s.cnt["op_clock_advance"]++
	}
}

// prune = RemoveChainsByInstance(x) followed by the verification of refutation clause 5.
func (s *seq) prune(x uint64) {
	type probe struct {
		inst uint64
		key  gpbft.ECChainKey
	}
	var below, kept []probe
	insts := make([]uint64, 0, len(s.m.inst))
	for i := range s.m.inst {
		insts = append(insts, i)
	}
	sort.Slice(insts, func(a, b int) bool { return insts[a] < insts[b] })
	for _, i := range insts {
		must := s.m.mustKeys(i, 4)
		if i < x {
			for _, k := range must {
				below = append(below, probe{i, k})
			}
			if len(must) < 3 {
				for _, k := range s.m.admittedKeys(i, 3) {
					below = append(below, probe{i, k})
				}
			}
		} else {
			for _, k := range must {
				kept = append(kept, probe{i, k})
			}
		}
	}
	err := s.r.ex.RemoveChainsByInstance(s.r.ctx, x)
	s.cnt["op_prune"]++
	s.logf("prune x=%d err=%v (probes below=%d kept=%d)", x, err, len(below), len(kept))
	s.m.onPrune(x)
	for i := range s.chains {
		if i < x {
			delete(s.chains, i)
			delete(s.pending, i)
		}
	}
	s.pruneAt = x
	s.pruneCtx = "below"
	for _, p := range below {
		s.cnt["prune_probe_below"]++
		s.lookup(p.inst, p.key, "after-prune-below")
	}
	s.pruneCtx = "kept"
	for _, p := range kept {
		s.cnt["prune_probe_kept"]++
		s.lookup(p.inst, p.key, "after-prune-kept")
	}
	s.pruneCtx = ""
}

func genParams(rng *rand.Rand) params {
	p := params{
		CapW:        2 + rng.Intn(49),
		CapD:        2 + rng.Intn(49),
		Lookahead:   []uint64{0, 1, 1, 2, 3, 5}[rng.Intn(6)],
		MaxAgeMs:    []int64{0, 1000, 10_000, 60_000}[rng.Intn(4)],
		Compression: rng.Intn(4) == 0,
		Steps:       1 + rng.Intn(4),
	}
	switch rng.Intn(10) {
	case 0: // tiny
		p.CapW, p.CapD = 2+rng.Intn(3), 2+rng.Intn(3)
	case 1: // large enough that every prefix of a maximal chain fits
		p.CapW, p.CapD = 129+rng.Intn(80), 129+rng.Intn(80)
	}
	switch rng.Intn(5) {
	case 0:
		p.Start = 0
	case 1:
		p.Start = 1
	case 2:
		p.Start = 1 << 40
	default:
		p.Start = uint64(rng.Intn(100000))
	}
	return p
}

type seqResult struct {
	params   params
	cnt      map[string]int64
	viol     []violation
	ops      []string
	abort    string
	nontriv  bool
	shape    string
	harnessE error
}

// runSequence executes deterministic sequence number idx.
func runSequence(idx int, seed int64) (res seqResult) {
	rng := rand.New(rand.NewSource(seed))
	p := genParams(rng)
	res.params = p
	r, err := newRig(p, fmt.Sprintf("c18/det/%d", idx))
	if err != nil {
		res.harnessE = err
		return
	}
	defer r.close()
	s := &seq{idx: idx, p: p, rng: rng, g: newChainGen(rng), wc: newWireCodec(p.Compression), r: r, m: newModel(p.CapW, p.CapD),
		cnt: map[string]int64{}, pending: map[uint64][]*gpbft.ECChain{}, chains: map[uint64][]*gpbft.ECChain{}}
	s.cur = p.Start
	defer func() {
		res.cnt, res.viol, res.ops, res.abort = s.cnt, s.viol, s.ops, s.abort
		res.nontriv = s.cnt["admitted"] > 0 && s.cnt["lookup_hit"] > 0 && s.mustAsserted > 0
		res.shape = fmt.Sprintf("%+v|%d|%d|%d|%d", p, len(s.ops), s.cnt["admitted"], s.cnt["lookup_hit"], s.cnt["lookup_miss"])
	}()
	for step := 0; step < p.Steps && s.abort == ""; step++ {
		// progress: the input of the current instance is known most of the time
		if rng.Intn(6) == 0 {
			s.input = nil
		} else {
			s.input = s.g.grow(s.g.base(s.cur), 1+rng.Intn(8), 60, false)
		}
		r.setProgress(s.cur, s.input)
		s.logf("progress cur=%d input_known=%v", s.cur, s.input != nil)
		if step > 0 && rng.Intn(3) == 0 {
			s.lateOwnScenario()
		}
		n := 10 + rng.Intn(30)
		for j := 0; j < n && s.abort == ""; j++ {
			s.randomOp()
			if s.input == nil && rng.Intn(12) == 0 {
				// the input becomes known while the instance is running
				s.input = s.g.grow(s.g.base(s.cur), 1+rng.Intn(8), 60, false)
				r.setProgress(s.cur, s.input)
				s.logf("progress cur=%d input now known", s.cur)
			}
		}
		if s.abort != "" {
			break
		}
		// prune at every instance
		next := s.cur + 1
		if rng.Intn(8) == 0 {
			next = s.cur + 1 + uint64(rng.Intn(2))
		}
		var x uint64
		switch y := rng.Intn(10); {
		case y < 4:
			x = next // what the node does when it moves on: drop everything below the new instance
		case y < 7:
			x = s.cur
		case y < 8 && s.cur > 0:
			x = s.cur - 1
		case y < 9:
			x = s.cur + p.Lookahead + 1
		default:
			x = next + 1
		}
		if rng.Intn(2) == 0 {
			s.prune(x)
			s.cur = next
		} else {
			s.cur = next
			s.input = nil
			r.setProgress(s.cur, nil)
			s.prune(x)
		}
	}
	return
}
