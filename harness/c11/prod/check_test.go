// Package prod is part "prod" of the C11 check: the same rig as part "main",
// but against the node's production WAL instantiation
// writeaheadlog.WriteAheadLog[f3.walEntry] (GMessage records), reached through
// the overlay accessor inpkg/root/c11_wal.go.
package prod

import (
	"bytes"
	"math/rand"
	"testing"

	"github.com/filecoin-project/go-bitfield"
	rlepluslazy "github.com/filecoin-project/go-bitfield/rle"
	f3 "github.com/filecoin-project/go-f3"
	"github.com/filecoin-project/go-f3/gpbft"
	"github.com/filecoin-project/go-f3/verifh/c11/walrig"
)

type pLog struct{ w *f3.VerifC11WAL }

func toEnt(m *gpbft.GMessage, epoch uint64) walrig.Ent {
	var buf bytes.Buffer
	if err := m.MarshalCBOR(&buf); err != nil {
		return walrig.Ent{Epoch: epoch, ID: uint64(m.Sender), Raw: []byte("unmarshalable:" + err.Error())}
	}
	return walrig.Ent{Epoch: epoch, ID: uint64(m.Sender), Raw: buf.Bytes(), Obj: m}
}

func (l pLog) Append(e walrig.Ent) error { return l.w.Append(e.Obj.(*gpbft.GMessage)) }
func (l pLog) All() ([]walrig.Ent, error) {
	msgs, epochs, err := l.w.All()
	if err != nil {
		return nil, err
	}
	res := make([]walrig.Ent, len(msgs))
	for i := range msgs {
		res[i] = toEnt(msgs[i], epochs[i])
	}
	return res, nil
}
func (l pLog) Purge(e uint64) error { return l.w.Purge(e) }
func (l pLog) Rotate() error        { return l.w.Rotate() }
func (l pLog) Close() error         { return l.w.Close() }

func randBytes(rng *rand.Rand, n int) []byte {
	b := make([]byte, n)
	rng.Read(b)
	return b
}

// genChain builds a chain of about `size` marshalled bytes (0 = bottom).
func genChain(rng *rand.Rand, size int) *gpbft.ECChain {
	if size <= 0 {
		if rng.Intn(2) == 0 {
			return nil
		}
		return &gpbft.ECChain{}
	}
	c := &gpbft.ECChain{}
	epoch := int64(rng.Intn(1 << 20))
	for left := size; left > 0 && len(c.TipSets) < gpbft.ChainMaxLen; {
		kl := 1 + rng.Intn(gpbft.TipsetKeyMaxLen)
		if kl > left {
			kl = left
		}
		ts := &gpbft.TipSet{Epoch: epoch, Key: randBytes(rng, kl), PowerTable: gpbft.MakeCid(randBytes(rng, 8))}
		copy(ts.Commitments[:], randBytes(rng, 32))
		c.TipSets = append(c.TipSets, ts)
		epoch += 1 + int64(rng.Intn(3))
		left -= kl + 80
	}
	return c
}

func genPayload(rng *rand.Rand, instance uint64, size int) gpbft.Payload {
	p := gpbft.Payload{
		Instance: instance,
		Round:    rng.Uint64() >> uint(rng.Intn(64)),
		Phase:    gpbft.Phase(rng.Intn(7)),
		Value:    genChain(rng, size),
	}
	p.SupplementalData.PowerTable = gpbft.MakeCid(randBytes(rng, 8))
	copy(p.SupplementalData.Commitments[:], randBytes(rng, 32))
	return p
}

func gen(rng *rand.Rand, id, epoch uint64, size int) walrig.Ent {
	withJust := rng.Intn(2) == 0
	vs := size
	if withJust {
		vs = size / 2
	}
	m := &gpbft.GMessage{
		Sender:    gpbft.ActorID(id),
		Vote:      genPayload(rng, epoch, vs),
		Signature: randBytes(rng, []int{0, 1, 48, 96}[rng.Intn(4)]),
	}
	if rng.Intn(3) == 0 {
		m.Ticket = randBytes(rng, 96)
	}
	if withJust {
		var idx []uint64
		for i := uint64(0); i < 200; i++ {
			if rng.Intn(3) > 0 {
				idx = append(idx, i)
			}
		}
		ri, _ := rlepluslazy.RunsFromSlice(idx)
		bf, _ := bitfield.NewFromIter(ri)
		m.Justification = &gpbft.Justification{
			Vote:      genPayload(rng, epoch-min(epoch, uint64(rng.Intn(2))), size-vs),
			Signers:   bf,
			Signature: randBytes(rng, 96),
		}
	}
	e := toEnt(m, epoch)
	if e.Obj == nil {
		panic("generated GMessage does not marshal: " + string(e.Raw))
	}
	return e
}

func TestCheck(t *testing.T) {
	walrig.RunCheck(t, walrig.Params{
		Part: "prod",
		Driver: walrig.Driver{
			Name:    "f3.walEntry",
			MaxSize: 40 << 10,
			// GMessage records have hundreds of CBOR headers and the WAL reads
			// them with one syscall per header byte: keep the crash worlds small
			FineCap: 3000, CutCap: 400, ReducedBudget: 24 << 10, FullDirCuts: 2, BulkFinalFresh: true,
			Open: func(dir string) (walrig.Log, error) {
				w, err := f3.VerifC11OpenWAL(dir)
				if err != nil {
					return nil, err
				}
				return pLog{w}, nil
			},
			Gen: gen,
			GenRejected: func(rng *rand.Rand, id, epoch uint64) walrig.Ent {
				// a ticket beyond cbor-gen's byte-array limit: sender, vote and signature are emitted,
				// then the encoder fails
				m := &gpbft.GMessage{Sender: gpbft.ActorID(id), Vote: genPayload(rng, epoch, 100), Signature: randBytes(rng, 96),
					Ticket: make([]byte, (2<<20)+1+rng.Intn(16))}
				return walrig.Ent{Epoch: epoch, ID: id, Raw: []byte("rejected"), Obj: m}
			},
		},
		Quick:        8,
		Thorough:     120,
		BulkEvery:    8,
		MinCuts:      [2]int64{800, 20000},
		MinAutoRot:   1,
		MinPurgeRemv: 2,
	})
}
