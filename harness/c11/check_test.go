// Package c11 is the check for property C11 (WAL: acknowledged entries survive
// crashes and torn writes; purge is conservative), part "main": the real
// internal/writeaheadlog package driven with a harness-defined entry type.
// The engine lives in ./walrig, the production-entry part in ./prod.
package c11

import (
	"testing"

	"github.com/filecoin-project/go-f3/verifh/c11/walrig"
)

func TestCheck(t *testing.T) {
	walrig.RunCheck(t, walrig.Params{
		Part:         "main",
		Driver:       walrig.HarnessDriver(),
		Quick:        40,
		Thorough:     800,
		BulkEvery:    5,
		MinCuts:      [2]int64{8000, 150000},
		MinAutoRot:   3,
		MinPurgeRemv: 5,
	})
}
