// Package walrig is the C11 engine: it drives the real
// internal/writeaheadlog package (through a small Log interface so that both
// the harness entry type and the production f3.walEntry can be used) with
// seeded histories on real directories, enumerates torn tails of the final
// append, and judges everything it reads against a model written from the
// property statement.
package walrig

import (
	"bytes"
	"encoding/json"
	"fmt"
	"hash/fnv"
	"io"
	"math/rand"
	"os"
	"path/filepath"
	"runtime"
	"sort"
	"sync"
	"sync/atomic"
)

// Log is what the rig needs from a WAL instance.
type Log interface {
	Append(Ent) error
	All() ([]Ent, error)
	Purge(uint64) error
	Rotate() error
	Close() error
}

// Driver binds the rig to one concrete entry type.
type Driver struct {
	Name    string
	MaxSize int // largest payload size hint the generator may ask for
	Open    func(dir string) (Log, error)
	Gen     func(rng *rand.Rand, id, epoch uint64, size int) Ent
	// GenRejected (optional) builds an entry whose MarshalCBOR fails AFTER having emitted some
	// bytes (an over-long field): Append must refuse it and leave no trace in the log.
	GenRejected func(rng *rand.Rand, id, epoch uint64) Ent

	// Tuning (zero values = the design's rule). They exist because reading a
	// log costs one read syscall per CBOR header byte in the code under test,
	// which makes records with many small fields (GMessage) two orders of
	// magnitude more expensive to re-read than the harness entry.
	FineCap        int   // largest entry of the "fine" profile (0 = 64 KiB)
	CutCap         int   // if >0: at most this many cut offsets per history (first/last 64 always kept)
	ReducedBudget  int64 // bytes of untouched files kept in the reduced crash world (0 = 96 KiB)
	FullDirCuts    int   // cuts per history replayed on the complete directory when it is big (0 = 8)
	BulkFinalFresh bool  // bulk profile: the final append always starts a fresh file
}

// Op is one step of a generated history.
type Op struct {
	Kind  string `json:"k"`
	Size  int    `json:"size,omitempty"`
	Epoch uint64 `json:"epoch,omitempty"`
}

const (
	opAppend        = "append"
	opRotate        = "rotate"
	opCloseReopen   = "close_reopen"
	opCloseContinue = "close_continue"
	opCrashReopen   = "crash_reopen"
	opPurge         = "purge"
	opCopyReopen    = "copy_reopen"
	opRead          = "read"
	opAppendReject  = "append_rejected"
	opFinal         = "final_append"
)

// Stats are per-history counters merged into the run by the caller.
type Stats map[string]int64

func (s Stats) add(k string, n int64) { s[k] += n }
func (s Stats) max(k string, v int64) {
	if v > s[k] {
		s[k] = v
	}
}

// Sink receives what a history observed.
type Sink struct {
	Violation func(sig string, witness map[string]any)
	Distinct  func(desc string)
}

func listDir(dir string) map[string]int64 {
	res := map[string]int64{}
	des, err := os.ReadDir(dir)
	if err != nil {
		return res
	}
	for _, de := range des {
		if de.IsDir() {
			continue
		}
		if fi, err := de.Info(); err == nil {
			res[de.Name()] = fi.Size()
		}
	}
	return res
}

func dirBytes(l map[string]int64) int64 {
	var n int64
	for _, s := range l {
		n += s
	}
	return n
}

func copyFile(src, dst string, n int64) error {
	in, err := os.Open(src)
	if err != nil {
		return err
	}
	defer in.Close()
	out, err := os.OpenFile(dst, os.O_CREATE|os.O_WRONLY|os.O_TRUNC, 0o666)
	if err != nil {
		return err
	}
	if n < 0 {
		_, err = io.Copy(out, in)
	} else {
		_, err = io.CopyN(out, in, n)
	}
	if cerr := out.Close(); err == nil {
		err = cerr
	}
	return err
}

func linkOrCopy(src, dst string) error {
	if err := os.Link(src, dst); err == nil {
		return nil
	}
	return copyFile(src, dst, -1)
}

// world = one directory + the model of it + the live WAL instance on it.
type world struct {
	h         *history
	dir       string
	m         *model
	log       Log
	abandoned []Log
	dead      bool // a harness-level problem or fatal violation: stop using this world
	post      bool // entries appended from now on are "after torn restart"
}

type history struct {
	drv    Driver
	caseNo int
	seed   int64
	ops    []Op
	hash   uint64
	prof   string
	root   string // scratch root of this history
	rng    *rand.Rand
	st     Stats
	sink   Sink
	atOp   int
	cut    int64
	nviol  map[string]bool
	nextID uint64
}

func (h *history) violation(sig string, detail map[string]any) {
	if h.nviol[sig] {
		return
	}
	h.nviol[sig] = true
	w := map[string]any{
		"case": h.caseNo, "case_seed": h.seed, "driver": h.drv.Name, "profile": h.prof,
		"history_hash": fmt.Sprintf("%016x", h.hash), "at_op": h.atOp, "detail": detail,
	}
	if h.cut >= 0 {
		w["cut_offset"] = h.cut
	}
	ops := h.ops
	if len(ops) > 400 {
		w["ops_truncated_to_last"] = 400
		ops = ops[len(ops)-400:]
	}
	w["ops"] = ops
	h.sink.Violation("["+h.drv.Name+"] "+sig, w)
}

func (w *world) report(fs []finding) {
	for _, f := range fs {
		w.h.violation(f.sig, f.detail)
	}
}

func (w *world) open(ctx string) bool {
	l, err := w.h.drv.Open(w.dir)
	w.h.st.add("reopen_count", 1)
	if err != nil {
		if w.m.required() > 0 {
			w.h.violation(fmt.Sprintf("Open failed on a directory holding acknowledged entries (ctx=%s)", ctx), map[string]any{"error": err.Error()})
		} else {
			w.h.st.add("open_errors_on_empty_log", 1)
		}
		w.dead = true
		return false
	}
	w.log = l
	w.m.active = nil
	return true
}

func (w *world) readCheck(l Log, ctx string, settle bool) []Ent {
	all, err := l.All()
	w.h.st.add("reads_checked", 1)
	if err != nil {
		if w.m.required() > 0 {
			w.h.violation(fmt.Sprintf("All() failed while acknowledged entries exist (ctx=%s)", ctx), map[string]any{"error": err.Error(), "required": w.m.required()})
		} else {
			w.h.st.add("read_errors_on_empty_log", 1)
		}
		return nil
	}
	fs, compared, tolerated := w.m.checkRead(all, ctx, settle)
	w.h.st.add("entries_compared", int64(compared))
	w.h.st.add("entries_below_purge_epoch_vanished_from_kept_file", int64(tolerated))
	w.report(fs)
	return all
}

// appendEnt appends through the live instance and learns from the directory
// listing which file took the record. It returns that file and its size
// before/after.
func (w *world) appendEnt(e Ent, ctx string, secondDescriptor bool) (f *mFile, b, a int64, ok bool) {
	before := listDir(w.dir)
	err := w.log.Append(e)
	if err != nil {
		w.h.st.add("append_errors", 1)
		w.h.st.add("append_error:"+trim(err.Error(), 60), 1)
		w.dead = true // an unacknowledged append may leave anything behind; not modelled
		return nil, 0, 0, false
	}
	w.h.st.add("appends_acked", 1)
	after := listDir(w.dir)
	var changed []string
	for n, s := range after {
		if bs, was := before[n]; !was || s > bs {
			changed = append(changed, n)
		}
	}
	if len(changed) != 1 {
		sort.Strings(changed)
		w.h.violation(fmt.Sprintf("acknowledged append is not visible as growth of exactly one log file (ctx=%s files_changed=%d)", ctx, len(changed)),
			map[string]any{"changed": changed, "entry_len": len(e.Raw), "entry_id": e.ID})
		w.dead = true
		return nil, 0, 0, false
	}
	name := changed[0]
	bs, existed := before[name]
	f = w.m.file(name)
	if !existed {
		if w.m.active != nil {
			w.h.st.add("rotations_auto_observed", 1)
		}
		w.h.st.add("log_files_created", 1)
	} else if f != w.m.active {
		// the instance continued in a file that it had not been writing to
		w.h.st.add("appends_into_preexisting_closed_file", 1)
	}
	w.m.active = f
	me := w.m.add(f, e)
	me.post = w.post
	b, a = bs, after[name]
	w.h.st.max("max_files_in_dir", int64(len(after)))
	w.h.st.max("max_dir_bytes", dirBytes(after))
	w.h.st.max("max_log_file_bytes", a)

	if secondDescriptor {
		// write-before-ack: look at the file and at the log through descriptors
		// that are not the writer's.
		w.h.st.add("second_descriptor_checks", 1)
		if raw, err := readRange(filepath.Join(w.dir, name), b, a); err == nil && bytes.Equal(raw, e.Raw) {
			w.h.st.add("second_descriptor_raw_tail_equals_marshalled_entry", 1)
		}
		if l2, err := w.h.drv.Open(w.dir); err != nil {
			w.h.violation(fmt.Sprintf("Open failed on a directory holding acknowledged entries (ctx=%s)", ctx+":second-instance"), map[string]any{"error": err.Error()})
		} else {
			w.h.st.add("reopen_count", 1)
			act := w.m.active
			w.readCheck(l2, ctx+":second-instance", false)
			w.m.active = act
			_ = l2.Close()
		}
	}
	return f, b, a, true
}

func readRange(path string, b, a int64) ([]byte, error) {
	fh, err := os.Open(path)
	if err != nil {
		return nil, err
	}
	defer fh.Close()
	buf := make([]byte, a-b)
	_, err = fh.ReadAt(buf, b)
	return buf, err
}

func trim(s string, n int) string {
	if len(s) > n {
		return s[:n]
	}
	return s
}

func (w *world) purge(e uint64, ctx string) {
	before := listDir(w.dir)
	if err := w.log.Purge(e); err != nil {
		w.h.st.add("purge_errors_returned", 1)
	}
	after := listDir(w.dir)
	fs, removed, removedActive, emptyClosed := w.m.checkPurge(e, before, after, ctx)
	w.h.st.add("purges", 1)
	w.h.st.add("purge_files_removed", int64(removed))
	if removed == 0 {
		w.h.st.add("purges_removing_nothing", 1)
	}
	if removedActive {
		w.h.st.add("purge_removed_active_file", 1)
	}
	w.h.st.add("purge_saw_closed_file_without_entries", int64(emptyClosed))
	w.report(fs)
	w.readCheck(w.log, ctx+":read-after-purge", true)
}

func (w *world) closeAll() {
	if w.log != nil {
		_ = w.log.Close()
	}
	for _, l := range w.abandoned {
		_ = l.Close()
	}
	w.abandoned = nil
}

// ---------------------------------------------------------------------------
// history generation

type epochGen struct {
	base uint64
	seen []uint64
	max  uint64
}

var epochBases = []uint64{0, 0, 1, 5, 20, 250, 65530, 1<<32 - 4, 1 << 40, 1 << 62}

func (g *epochGen) next(rng *rand.Rand) uint64 {
	if rng.Intn(3) == 0 {
		g.base++
	}
	e := g.base
	if rng.Intn(5) < 2 {
		j := uint64(rng.Intn(4))
		if rng.Intn(2) == 0 {
			e += j
		} else if e >= j {
			e -= j
		} else {
			e = 0
		}
	}
	g.seen = append(g.seen, e)
	if e > g.max {
		g.max = e
	}
	return e
}

func (g *epochGen) purgeEpoch(rng *rand.Rand) uint64 {
	if len(g.seen) == 0 {
		return uint64(rng.Intn(3))
	}
	switch rng.Intn(10) {
	case 0:
		return 0
	case 1:
		return g.max
	case 2:
		return g.max + 1
	case 3:
		return g.max + 1 + uint64(rng.Intn(1000))
	case 4, 5:
		return g.seen[rng.Intn(len(g.seen))]
	case 6:
		return g.seen[rng.Intn(len(g.seen))] + 1
	case 7:
		e := g.seen[len(g.seen)-1]
		return e
	case 8:
		e := g.seen[len(g.seen)-1]
		return e + 1
	default:
		if g.base > 0 {
			return g.base - uint64(rng.Intn(int(min(g.base, 3))+1))
		}
		return g.base
	}
}

func fineSize(rng *rand.Rand, drv Driver) int {
	s := fineSizeN(rng, drv.MaxSize)
	if drv.FineCap > 0 && s > drv.FineCap {
		s = drv.FineCap - rng.Intn(drv.FineCap/4+1)
	}
	return s
}

func fineSizeN(rng *rand.Rand, maxSize int) int {
	var s int
	switch x := rng.Intn(100); {
	case x < 25:
		s = rng.Intn(24)
	case x < 60:
		s = 24 + rng.Intn(277)
	case x < 90:
		s = 300 + rng.Intn(3797)
	default:
		s = 4096 + rng.Intn(60<<10)
	}
	// sizes right at CBOR header-width boundaries
	if rng.Intn(12) == 0 {
		s = []int{0, 1, 23, 24, 255, 256, 257, 4095, 4096}[rng.Intn(9)]
	}
	if s > maxSize {
		s = maxSize
	}
	return s
}

// GenHistory builds the op list of one case. profile is "fine" or "bulk".
func GenHistory(rng *rand.Rand, drv Driver, profile string) []Op {
	var ops []Op
	g := &epochGen{base: epochBases[rng.Intn(len(epochBases))]}
	other := func(weights [7]int) Op {
		tot := 0
		for _, w := range weights {
			tot += w
		}
		x := rng.Intn(tot)
		kinds := [7]string{opRotate, opCloseReopen, opCloseContinue, opCrashReopen, opPurge, opCopyReopen, opRead}
		for i, w := range weights {
			if x < w {
				if kinds[i] == opPurge {
					return Op{Kind: opPurge, Epoch: g.purgeEpoch(rng)}
				}
				return Op{Kind: kinds[i]}
			}
			x -= w
		}
		return Op{Kind: opRead}
	}
	switch profile {
	case "bulk":
		// an uninterrupted stretch that must cross the rotation threshold, then a mix
		stretch := 1500 << 10
		target := stretch + rng.Intn(2000<<10)
		lo := drv.MaxSize / 6
		cum := 0
		for cum < target {
			if cum > stretch && rng.Intn(100) < 12 {
				ops = append(ops, other([7]int{2, 3, 1, 3, 6, 1, 1}))
				continue
			}
			s := lo + rng.Intn(drv.MaxSize-lo+1)
			if cum > stretch && rng.Intn(6) == 0 {
				s = fineSize(rng, drv)
			}
			cum += s
			ops = append(ops, Op{Kind: opAppend, Size: s, Epoch: g.next(rng)})
		}
		if rng.Intn(4) != 0 {
			// directed block for the purge clause across a SIZE-FORCED rotation: fill one file
			// past the rotation threshold with entries of epoch <= lo, then append an entry of a
			// higher epoch hi (it is the one that triggers the rotation inside Append and is the
			// first entry of the new file), follow it with 0-2 entries of lower epochs, close the
			// new file in the same instance and purge at an epoch in (lo', hi]: the old file must
			// go (all its entries are below), the new one must stay (it holds hi).
			if rng.Intn(2) == 0 {
				ops = append(ops, Op{Kind: opRotate})
			}
			g.base += 1 + uint64(rng.Intn(3))
			lo := g.base
			g.base += 2 + uint64(rng.Intn(3))
			hi := g.base
			fill := 0
			for fill <= 1<<20 {
				s := drv.MaxSize/2 + rng.Intn(drv.MaxSize/2+1)
				fill += s
				e := lo
				if rng.Intn(3) == 0 && e > 0 {
					e--
				}
				g.seen = append(g.seen, e)
				ops = append(ops, Op{Kind: opAppend, Size: s, Epoch: e})
			}
			g.seen = append(g.seen, hi)
			g.max = max(g.max, hi)
			ops = append(ops, Op{Kind: opAppend, Size: fineSizeN(rng, 400), Epoch: hi})
			lo2 := lo
			for k := rng.Intn(3); k > 0; k-- {
				lo2 = lo + uint64(rng.Intn(int(hi-lo)))
				g.seen = append(g.seen, lo2)
				ops = append(ops, Op{Kind: opAppend, Size: fineSizeN(rng, 400), Epoch: lo2})
			}
			ops = append(ops, Op{Kind: []string{opRotate, opCloseContinue, opRotate, opCloseReopen}[rng.Intn(4)]})
			ops = append(ops, Op{Kind: opPurge, Epoch: lo + 1 + uint64(rng.Intn(int(hi-lo)))}, Op{Kind: opRead})
			if rng.Intn(2) == 0 {
				ops = append(ops, Op{Kind: opPurge, Epoch: hi}, Op{Kind: opRead})
			}
		}
	default:
		n := 12 + rng.Intn(50)
		probeAt := -1
		if rng.Intn(100) < 40 {
			probeAt = rng.Intn(n)
		}
		zeroAt := -1
		if rng.Intn(100) < 35 {
			zeroAt = rng.Intn(n)
		}
		for i := 0; i < n; i++ {
			if i == zeroAt {
				// directed block: a log file whose entries ALL carry epoch 0 (a legal epoch: the
				// first instance of a network), closed by the same instance or by a restart; it
				// must stay readable, survive Purge(0) and go with Purge(1).
				ops = append(ops, Op{Kind: []string{opRotate, opCloseContinue, opCloseReopen}[rng.Intn(3)]})
				for k := 1 + rng.Intn(3); k > 0; k-- {
					g.seen = append(g.seen, 0)
					ops = append(ops, Op{Kind: opAppend, Size: fineSizeN(rng, 400), Epoch: 0})
				}
				ops = append(ops, Op{Kind: []string{opRotate, opCloseContinue, opRotate, opCloseReopen}[rng.Intn(4)]}, Op{Kind: opRead})
				if rng.Intn(2) == 0 {
					ops = append(ops, Op{Kind: opAppend, Size: fineSizeN(rng, 400), Epoch: g.next(rng)})
				}
				ops = append(ops, Op{Kind: opPurge, Epoch: 0}, Op{Kind: opRead})
				if rng.Intn(2) == 0 {
					ops = append(ops, Op{Kind: opPurge, Epoch: 1}, Op{Kind: opRead})
				}
			}
			if i == probeAt {
				// directed block for the purge clause: one file whose LAST entry has a
				// lower epoch than an earlier one, closed by the same instance or by a
				// restart, then purged at an epoch between the two
				if rng.Intn(2) == 0 {
					ops = append(ops, Op{Kind: opRotate})
				}
				g.base += 2 + uint64(rng.Intn(3))
				hi := g.base
				lo := hi - 1 - uint64(rng.Intn(2))
				g.seen = append(g.seen, hi, lo)
				g.max = max(g.max, hi)
				ops = append(ops, Op{Kind: opAppend, Size: fineSizeN(rng, 400), Epoch: hi}, Op{Kind: opAppend, Size: fineSizeN(rng, 400), Epoch: lo})
				ops = append(ops, Op{Kind: []string{opRotate, opCloseContinue, opCloseReopen, opCrashReopen}[rng.Intn(4)]})
				if rng.Intn(3) == 0 {
					ops = append(ops, Op{Kind: opAppend, Size: fineSizeN(rng, 400), Epoch: g.next(rng)})
				}
				ops = append(ops, Op{Kind: opPurge, Epoch: lo + 1 + uint64(rng.Intn(int(hi-lo)))})
			}
			if drv.GenRejected != nil && rng.Intn(100) < 6 {
				// an append the encoder refuses half-way, followed by acknowledged ones into the same file
				ops = append(ops, Op{Kind: opAppendReject, Epoch: g.next(rng)})
				for k := 1 + rng.Intn(2); k > 0; k-- {
					ops = append(ops, Op{Kind: opAppend, Size: fineSizeN(rng, 400), Epoch: g.next(rng)})
				}
				ops = append(ops, Op{Kind: opRead})
			}
			if rng.Intn(100) < 55 {
				ops = append(ops, Op{Kind: opAppend, Size: fineSize(rng, drv), Epoch: g.next(rng)})
			} else {
				ops = append(ops, other([7]int{8, 8, 4, 8, 11, 2, 4}))
			}
		}
	}
	// where the final append lands: a fresh file, or the file being written
	where := rng.Intn(6)
	if profile == "bulk" && drv.BulkFinalFresh {
		where %= 3
	}
	switch where {
	case 0:
		ops = append(ops, Op{Kind: opRotate})
	case 1:
		ops = append(ops, Op{Kind: opCloseReopen})
	case 2:
		ops = append(ops, Op{Kind: opCrashReopen})
	default:
		if rng.Intn(2) == 0 {
			// make sure something precedes the final record in its file
			ops = append(ops, Op{Kind: opAppend, Size: fineSizeN(rng, min(drv.MaxSize, 2000)), Epoch: g.next(rng)})
		}
	}
	var fs int
	if profile == "bulk" {
		fs = 4097 + rng.Intn(drv.MaxSize-4096)
	} else {
		switch x := rng.Intn(100); {
		case x < 30:
			fs = rng.Intn(65)
		case x < 65:
			fs = 64 + rng.Intn(540)
		case x < 76:
			fs = 600 + rng.Intn(3480)
		default:
			fs = 4100 + rng.Intn(max(1, min(drv.MaxSize, 100<<10)-4100))
			if drv.FineCap > 0 {
				fs = 4100 + rng.Intn(max(1, drv.FineCap))
			}
		}
	}
	if fs > drv.MaxSize {
		fs = drv.MaxSize
	}
	ops = append(ops, Op{Kind: opFinal, Size: fs, Epoch: g.next(rng)})
	return ops
}

func hashOps(drv string, ops []Op) uint64 {
	h := fnv.New64a()
	b, _ := json.Marshal(ops)
	h.Write([]byte(drv))
	h.Write(b)
	return h.Sum64()
}

// ---------------------------------------------------------------------------
// running one case

// RunHistory executes case caseNo (seeded by seed) under root (a scratch
// directory owned by the caller) and returns the counters it measured.
// Every bulkEvery-th case is of the "bulk" profile.
func RunHistory(drv Driver, caseNo int, seed int64, root string, bulkEvery int, sink Sink) (Stats, map[string]any) {
	rng := rand.New(rand.NewSource(seed))
	prof := "fine"
	if bulkEvery > 0 && caseNo%bulkEvery == bulkEvery-1 {
		prof = "bulk"
	}
	ops := GenHistory(rng, drv, prof)
	h := &history{
		drv: drv, caseNo: caseNo, seed: seed, ops: ops, hash: hashOps(drv.Name, ops), prof: prof,
		root: filepath.Join(root, fmt.Sprintf("h%d", caseNo)), rng: rng, st: Stats{}, sink: sink,
		cut: -1, nviol: map[string]bool{}, nextID: 1,
	}
	defer os.RemoveAll(h.root)
	h.st.add("histories", 1)
	h.st.add("histories_"+prof, 1)
	h.st.add("ops_executed", int64(len(ops)))
	w := &world{h: h, dir: filepath.Join(h.root, "wal"), m: newModel()}
	_ = os.MkdirAll(h.root, 0o755)
	desc := map[string]any{"case": caseNo, "profile": prof, "ops": len(ops), "history_hash": fmt.Sprintf("%016x", h.hash)}
	if !w.open("initial") {
		return h.st, desc
	}
	var finalFile *mFile
	var fb, fa int64
	var finalEnt *mEnt
	for i, op := range ops {
		if w.dead {
			break
		}
		h.atOp = i
		small := dirBytes(listDir(w.dir)) <= 256<<10
		switch op.Kind {
		case opAppend, opFinal:
			e := drv.Gen(rng, h.nextID, op.Epoch, op.Size)
			h.nextID++
			second := op.Kind == opFinal || small || rng.Intn(8) == 0
			f, b, a, ok := w.appendEnt(e, "after-append", second)
			if !ok {
				break
			}
			if small || rng.Intn(4) == 0 || op.Kind == opFinal {
				w.readCheck(w.log, "after-append", false)
			}
			if op.Kind == opFinal {
				finalFile, fb, fa = f, b, a
				finalEnt = w.m.byID[e.ID]
			}
		case opAppendReject:
			e := drv.GenRejected(rng, h.nextID, op.Epoch)
			h.nextID++
			before := dirBytes(listDir(w.dir))
			err := w.log.Append(e)
			h.st.add("appends_rejected_by_encoder", 1)
			if err == nil {
				// the encoder's refusal was swallowed: the entry is not one the harness can match
				h.violation("Append acknowledged an entry whose encoding failed (ctx=append-rejected)", map[string]any{"entry_id": e.ID})
				w.dead = true
				break
			}
			if after := dirBytes(listDir(w.dir)); after != before {
				h.st.add("rejected_append_changed_directory_size", 1)
			}
			w.readCheck(w.log, "after-rejected-append", false)
		case opRotate:
			if err := w.log.Rotate(); err != nil {
				h.st.add("rotate_errors", 1)
			}
			h.st.add("rotations_explicit", 1)
			w.m.active = nil
			w.readCheck(w.log, "after-rotate", false)
		case opCloseContinue:
			if err := w.log.Close(); err != nil {
				h.st.add("close_errors", 1)
			}
			h.st.add("closes", 1)
			w.m.active = nil
			w.readCheck(w.log, "after-close-same-instance", false)
		case opCloseReopen:
			if err := w.log.Close(); err != nil {
				h.st.add("close_errors", 1)
			}
			h.st.add("closes", 1)
			h.st.add("clean_restarts", 1)
			if w.open("after-clean-restart") {
				w.readCheck(w.log, "after-clean-restart", false)
			}
		case opCrashReopen:
			w.abandoned = append(w.abandoned, w.log)
			h.st.add("crash_restarts_untorn", 1)
			if w.open("after-crash-restart") {
				w.readCheck(w.log, "after-crash-restart", false)
			}
		case opPurge:
			w.purge(op.Epoch, "purge")
		case opRead:
			w.readCheck(w.log, "read", false)
		case opCopyReopen:
			cdir := filepath.Join(h.root, fmt.Sprintf("copy%d", i))
			_ = os.MkdirAll(cdir, 0o755)
			only := map[string]bool{}
			for n := range listDir(w.dir) {
				if err := copyFile(filepath.Join(w.dir, n), filepath.Join(cdir, n), -1); err == nil {
					only[n] = true
				}
			}
			cw := &world{h: h, dir: cdir, m: w.m.clone(only)}
			h.st.add("copies_reopened", 1)
			if cw.open("copy") {
				cw.readCheck(cw.log, "copy", false)
				cw.closeAll()
			}
			_ = os.RemoveAll(cdir)
		}
	}
	desc["final_len"] = fa - fb
	desc["final_file_size_before"] = fb
	if finalFile != nil && !w.dead {
		h.atOp = len(ops)
		h.tornEnumerate(w, finalFile, fb, fa, finalEnt, desc)
	} else {
		h.st.add("histories_without_torn_enumeration", 1)
	}
	w.closeAll()
	return h.st, desc
}

// cutOffsets lists the truncation points for a final record occupying [b,a).
func cutOffsets(rng *rand.Rand, b, a int64) (cuts []int64, exhaustive bool) {
	if a-b <= 4096 {
		for c := a; c >= b; c-- {
			cuts = append(cuts, c)
		}
		return cuts, true
	}
	set := map[int64]bool{}
	for i := int64(0); i < 64; i++ {
		set[b+i] = true
		set[a-i] = true
	}
	for len(set) < 128+512 {
		set[b+64+rng.Int63n(a-b-127)] = true
	}
	for c := range set {
		cuts = append(cuts, c)
	}
	sort.Slice(cuts, func(i, j int) bool { return cuts[i] > cuts[j] })
	return cuts, false
}

// chunkSem bounds the extra goroutines used for long cut enumerations.
var chunkSem = make(chan struct{}, max(2, runtime.GOMAXPROCS(0)))

type tornWorld struct {
	dir      string
	files    map[string]bool // original files present in this world (incl. tail)
	base     *model
	tailSize int64 // size the tail file was left with by the harness
}

// tornEnumerate: the crash of the final append at every (sampled) byte offset.
func (h *history) tornEnumerate(w *world, tail *mFile, b, a int64, final *mEnt, desc map[string]any) {
	listing := listDir(w.dir)
	srcTail := filepath.Join(w.dir, tail.name)
	cuts, exhaustive := cutOffsets(h.rng, b, a)
	if cp := h.drv.CutCap; cp > 0 && len(cuts) > cp && len(cuts) > 130 {
		// keep the first/last 64 offsets, sample the rest
		keep := append([]int64{}, cuts[:64]...)
		mid := cuts[64 : len(cuts)-64]
		for _, i := range h.rng.Perm(len(mid))[:max(0, min(len(mid), cp-128))] {
			keep = append(keep, mid[i])
		}
		keep = append(keep, cuts[len(cuts)-64:]...)
		sort.Slice(keep, func(i, j int) bool { return keep[i] > keep[j] })
		cuts, exhaustive = keep, false
		h.st.add("final_records_cut_capped_by_tuning", 1)
	}
	if exhaustive {
		h.st.add("final_records_cut_exhaustively", 1)
	} else {
		h.st.add("final_records_cut_sampled", 1)
	}
	if b == 0 {
		h.st.add("final_record_first_in_new_file", 1)
	} else {
		h.st.add("final_record_after_other_records", 1)
	}
	desc["cuts"] = len(cuts)
	desc["cuts_exhaustive"] = exhaustive
	desc["files_at_crash"] = len(listing)

	// full world: every file of the directory; reduced world: the tail file
	// plus the smallest other files up to a byte budget (used for most cuts of
	// big directories, where re-reading megabytes per cut buys nothing: the
	// untouched files are byte-identical hard links in every cut).
	type fs struct {
		n string
		s int64
	}
	var others []fs
	var otherBytes int64
	for n, s := range listing {
		if n != tail.name {
			others = append(others, fs{n, s})
			otherBytes += s
		}
	}
	sort.Slice(others, func(i, j int) bool {
		if others[i].s != others[j].s {
			return others[i].s < others[j].s
		}
		return others[i].n < others[j].n
	})
	var copyErrs atomic.Int64
	mk := func(name string, include map[string]bool) *tornWorld {
		d := filepath.Join(h.root, name)
		_ = os.MkdirAll(d, 0o755)
		for n := range include {
			if n == tail.name {
				continue
			}
			if err := linkOrCopy(filepath.Join(w.dir, n), filepath.Join(d, n)); err != nil {
				copyErrs.Add(1)
			}
		}
		if err := copyFile(srcTail, filepath.Join(d, tail.name), a); err != nil {
			copyErrs.Add(1)
		}
		bm := w.m.clone(include)
		bm.files[tail.name].torn = true
		return &tornWorld{dir: d, files: include, base: bm, tailSize: a}
	}
	fullSet := map[string]bool{tail.name: true}
	for _, o := range others {
		fullSet[o.n] = true
	}
	var redSet map[string]bool
	budget := int64(96 << 10)
	if h.drv.ReducedBudget > 0 {
		budget = h.drv.ReducedBudget
	}
	if otherBytes > budget {
		redSet = map[string]bool{tail.name: true}
		var cum int64
		for _, o := range others {
			if cum+o.s > budget {
				break
			}
			cum += o.s
			redSet[o.n] = true
		}
	}
	fullCuts := map[int64]bool{}
	if redSet != nil {
		for _, i := range []int{0, 1, len(cuts) - 2, len(cuts) - 1} {
			if i >= 0 && i < len(cuts) {
				fullCuts[cuts[i]] = true
			}
		}
		nfull := 8
		if h.drv.FullDirCuts > 0 {
			nfull = h.drv.FullDirCuts
		}
		if nfull < 4 {
			fullCuts = map[int64]bool{cuts[0]: true, cuts[len(cuts)-1]: true}
		}
		for k := 4; k < nfull; k++ {
			fullCuts[cuts[h.rng.Intn(len(cuts))]] = true
		}
	}
	// The cuts of one history are independent crash worlds; long enumerations
	// are split into chunks that run concurrently, each on its own directories
	// and with its own counters (merged afterwards).
	const chunkLen = 384
	nchunks := (len(cuts) + chunkLen - 1) / chunkLen
	subs := make([]*history, nchunks)
	work := func(hc *history, k int) {
		lo, hi := k*chunkLen, min(len(cuts), (k+1)*chunkLen)
		var full, reduced *tornWorld
		for ci := lo; ci < hi; ci++ {
			cut := cuts[ci]
			var tw *tornWorld
			if redSet != nil && !fullCuts[cut] {
				if reduced == nil {
					reduced = mk(fmt.Sprintf("torn-reduced-%d", k), redSet)
				}
				tw = reduced
				hc.st.add("truncation_points_on_reduced_directory", 1)
			} else {
				if full == nil {
					full = mk(fmt.Sprintf("torn-full-%d", k), fullSet)
				}
				tw = full
				hc.st.add("truncation_points_on_full_directory", 1)
			}
			hc.cut = cut
			hc.tornCase(tw, tail.name, srcTail, final.e.ID, b, a, cut, ci)
			hc.st.add("truncation_points", 1)
			if cut > b && cut < a {
				hc.st.add("truncation_points_strictly_inside_record", 1)
				hc.sink.Distinct(fmt.Sprintf("%s:%016x:%d", hc.drv.Name, hc.hash, cut-b))
			}
		}
		for _, tw := range []*tornWorld{full, reduced} {
			if tw != nil {
				_ = os.RemoveAll(tw.dir)
			}
		}
	}
	var wg sync.WaitGroup
	for k := 0; k < nchunks; k++ {
		hc := *h
		hc.st = Stats{}
		hc.nviol = map[string]bool{}
		subs[k] = &hc
		if k == 0 {
			continue
		}
		wg.Add(1)
		go func(hc *history, k int) {
			defer wg.Done()
			chunkSem <- struct{}{}
			defer func() { <-chunkSem }()
			work(hc, k)
		}(subs[k], k)
	}
	work(subs[0], 0) // chunk 0 runs on the caller's worker
	wg.Wait()
	h.st.add("harness_copy_errors", copyErrs.Load())
	h.st.add("torn_enumeration_chunks", int64(nchunks))
	for _, hc := range subs {
		for k, v := range hc.st {
			h.st.add(k, v)
		}
	}
	h.cut = -1
}

// tornCase: one crash world. The tail file of tw.dir is cut at `cut`, then the
// log is restarted, read, appended to, restarted again (twice), optionally
// purged; after that the directory is put back.
func (h *history) tornCase(tw *tornWorld, tailName, srcTail string, finalID uint64, b, a, cut int64, ci int) {
	tailPath := filepath.Join(tw.dir, tailName)
	// put the directory into the crash state
	cur := listDir(tw.dir)
	for n := range cur {
		if !tw.files[n] {
			_ = os.Remove(filepath.Join(tw.dir, n))
		}
	}
	for n := range tw.files {
		if _, ok := cur[n]; !ok && n != tailName {
			_ = linkOrCopy(filepath.Join(filepath.Dir(srcTail), n), filepath.Join(tw.dir, n))
			h.st.add("torn_world_files_relinked_after_purge", 1)
		}
	}
	if sz, ok := cur[tailName]; ok && sz >= cut && sz == tw.tailSize {
		if sz != cut {
			if err := os.Truncate(tailPath, cut); err != nil {
				h.st.add("harness_copy_errors", 1)
			}
		}
	} else {
		// the restarted log wrote to (or removed) the torn file: rebuild it
		h.st.add("torn_file_rebuilt_after_purge_or_foreign_write", 1)
		if err := copyFile(srcTail, tailPath, cut); err != nil {
			h.st.add("harness_copy_errors", 1)
		}
	}
	tw.tailSize = cut

	m := tw.base.clone(nil)
	m.files[tailName].torn = true
	fe := m.byID[finalID]
	fe.optional = true
	fe.complete = cut == a
	w := &world{h: h, dir: tw.dir, m: m}
	defer w.closeAll()
	if !w.open("torn:first-restart") {
		return
	}
	h.st.add("torn_restarts", 1)
	w.post = true
	// 1. read right after the crash restart
	before := len(h.nviol)
	for _, r := range w.readCheck(w.log, "torn:first-restart", false) {
		if r.ID == finalID {
			if cut == a {
				h.st.add("torn_complete_final_record_returned", 1)
			} else {
				h.st.add("torn_incomplete_final_record_returned", 1)
			}
		}
	}
	rng := rand.New(rand.NewSource(h.seed ^ int64(cut)*0x9E3779B97F4A7C ^ 0x5bd1e995))
	epochNear := func() uint64 {
		e := fe.e.Epoch
		switch rng.Intn(4) {
		case 0:
			if e > 0 {
				return e - 1
			}
		case 1:
			return e + 1
		}
		return e
	}
	restart := func(ctx string) bool {
		if rng.Intn(2) == 0 {
			_ = w.log.Close()
			h.st.add("torn_followup_clean_restarts", 1)
		} else {
			w.abandoned = append(w.abandoned, w.log)
			h.st.add("torn_followup_crash_restarts", 1)
		}
		if !w.open(ctx) {
			return false
		}
		w.readCheck(w.log, ctx, false)
		return true
	}
	idBase := uint64(1)<<32 + uint64(ci)*8
	// 2. append after the restart, read
	n1 := h.drv.Gen(rng, idBase, epochNear(), rng.Intn(200))
	if _, _, _, ok := w.appendEnt(n1, "torn:append-after-restart", ci%16 == 0); !ok {
		return
	}
	w.readCheck(w.log, "torn:append-after-restart", false)
	// 3. restart again, read
	if !restart("torn:second-restart") {
		return
	}
	// 4. on a quarter of the cuts (and the extreme ones): append, (often purge),
	// restart a third time, read
	if !(ci < 2 || cut <= b+1 || rng.Intn(4) == 0) {
		if len(h.nviol) == before {
			h.st.add("torn_cases_clean", 1)
		}
		return
	}
	h.st.add("torn_cases_with_third_restart", 1)
	n2 := h.drv.Gen(rng, idBase+1, epochNear(), rng.Intn(200))
	if _, _, _, ok := w.appendEnt(n2, "torn:append-after-second-restart", false); !ok {
		return
	}
	if rng.Intn(2) == 0 {
		var e uint64
		switch rng.Intn(4) {
		case 0:
			e = fe.e.Epoch
		case 1:
			e = fe.e.Epoch + 2
		case 2:
			e = n1.Epoch
		default:
			e = epochNear() + uint64(rng.Intn(3))
		}
		h.st.add("torn_purges", 1)
		w.purge(e, "torn:purge")
	}
	if !restart("torn:third-restart") {
		return
	}
	if len(h.nviol) == before {
		h.st.add("torn_cases_clean", 1)
	}
}
