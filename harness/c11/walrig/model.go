package walrig

import (
	"bytes"
	"fmt"
	"sort"
)

// Ent is the rig's view of one WAL entry, independent of the concrete entry type.
type Ent struct {
	Epoch uint64
	ID    uint64 // unique per history; how a returned entry is matched to an appended one
	Raw   []byte // canonical marshalled bytes (what "intact" is compared on)
	Obj   any    // the concrete value handed to the real Append
}

// The reference model is written from the property text only:
//   - it remembers, per log file (learned from the directory listing), the
//     sequence of entries whose Append returned nil;
//   - an entry stops being required only when a Purge made it disappear
//     (its file was removed, or - tolerated, never seen on the real code - it
//     had epoch < e and vanished at that Purge(e)).
type mEnt struct {
	e    Ent
	file *mFile
	pos  int
	// optional: the in-flight entry of a simulated crash. It may be returned
	// (it was being appended) but is not required (it was never acknowledged).
	optional bool
	// complete: the optional entry is fully on disk (cut == full size).
	complete bool
	// mayBePurged: had epoch < e at the last Purge(e) and that purge has not been
	// settled by a read yet. purged: it was observed missing right after.
	mayBePurged bool
	purged      bool
	// post: appended after a simulated crash restart
	post bool
}

type mFile struct {
	name string
	ents []*mEnt
	gone bool
	torn bool
}

type model struct {
	files  map[string]*mFile
	byID   map[uint64]*mEnt
	active *mFile
}

func newModel() *model {
	return &model{files: map[string]*mFile{}, byID: map[uint64]*mEnt{}}
}

func (m *model) file(name string) *mFile {
	f := m.files[name]
	if f == nil {
		f = &mFile{name: name}
		m.files[name] = f
	}
	return f
}

func (m *model) add(f *mFile, e Ent) *mEnt {
	me := &mEnt{e: e, file: f, pos: len(f.ents)}
	f.ents = append(f.ents, me)
	m.byID[e.ID] = me
	return me
}

// clone copies the model restricted to the given files (nil = all present
// files); every file is closed in the copy and purge bookkeeping is dropped
// (entries purged in the source are not part of the copy).
func (m *model) clone(only map[string]bool) *model {
	c := newModel()
	for name, f := range m.files {
		if f.gone || (only != nil && !only[name]) {
			continue
		}
		nf := c.file(name)
		nf.torn = f.torn
		for _, me := range f.ents {
			// entries observed as purged stay known (returning them is never
			// "an entry that was not appended") but are not required
			ne := c.add(nf, me.e)
			ne.optional, ne.complete, ne.post, ne.purged = me.optional, me.complete, me.post, me.purged
		}
	}
	return c
}

func (m *model) sortedFiles() []*mFile {
	fs := make([]*mFile, 0, len(m.files))
	for _, f := range m.files {
		fs = append(fs, f)
	}
	sort.Slice(fs, func(i, j int) bool { return fs[i].name < fs[j].name })
	return fs
}

func (m *model) required() int {
	n := 0
	for _, f := range m.files {
		if f.gone {
			continue
		}
		for _, me := range f.ents {
			if !me.optional && !me.purged {
				n++
			}
		}
	}
	return n
}

type finding struct {
	sig    string
	detail map[string]any
}

func (m *model) where(me *mEnt) string {
	switch {
	case me.post:
		return "file-written-after-torn-restart"
	case me.file.torn:
		return "torn-file"
	case me.file == m.active:
		return "active-file"
	default:
		return "closed-file"
	}
}

// checkRead compares one All() result with the model.
// settle=true is used for the read that directly follows a Purge.
func (m *model) checkRead(all []Ent, ctx string, settle bool) (fs []finding, compared int, tolerated int) {
	seen := map[uint64]int{}
	perFile := map[*mFile][]int{}
	once := map[string]bool{}
	add := func(sig string, d map[string]any) {
		if once[sig] {
			return
		}
		once[sig] = true
		fs = append(fs, finding{sig, d})
	}
	for i, r := range all {
		me := m.byID[r.ID]
		if me == nil {
			add(fmt.Sprintf("read returned an entry that was never appended (ctx=%s)", ctx),
				map[string]any{"index": i, "epoch": r.Epoch, "id": r.ID, "raw_len": len(r.Raw), "raw_head": fmt.Sprintf("%x", head(r.Raw, 48))})
			continue
		}
		compared++
		if r.Epoch != me.e.Epoch || !bytes.Equal(r.Raw, me.e.Raw) {
			add(fmt.Sprintf("acknowledged entry returned altered (ctx=%s where=%s)", ctx, m.where(me)),
				map[string]any{"index": i, "id": r.ID, "epoch_appended": me.e.Epoch, "epoch_returned": r.Epoch, "len_appended": len(me.e.Raw), "len_returned": len(r.Raw)})
		}
		seen[r.ID]++
		if seen[r.ID] == 2 {
			add(fmt.Sprintf("entry returned more often than it was appended (ctx=%s where=%s)", ctx, m.where(me)),
				map[string]any{"index": i, "id": r.ID, "file": me.file.name})
		}
		if seen[r.ID] == 1 {
			perFile[me.file] = append(perFile[me.file], me.pos)
		}
	}
	for _, f := range m.sortedFiles() {
		pos := perFile[f]
		for i := 1; i < len(pos); i++ {
			if pos[i] <= pos[i-1] {
				add(fmt.Sprintf("entries of one log file returned out of append order (ctx=%s)", ctx),
					map[string]any{"file": f.name, "positions": pos})
				break
			}
		}
		if f.gone {
			continue
		}
		for _, me := range f.ents {
			if me.purged {
				continue
			}
			present := seen[me.e.ID] > 0
			if settle && me.mayBePurged {
				me.mayBePurged = false
				if !present && !me.optional {
					me.purged = true
					tolerated++
					continue
				}
			}
			if present || me.optional {
				continue
			}
			add(fmt.Sprintf("acknowledged entry missing from All() (ctx=%s where=%s)", ctx, m.where(me)),
				map[string]any{"file": f.name, "pos_in_file": me.pos, "entries_in_file": len(f.ents), "id": me.e.ID, "epoch": me.e.Epoch, "len": len(me.e.Raw), "returned_total": len(all)})
		}
	}
	return fs, compared, tolerated
}

func head(b []byte, n int) []byte {
	if len(b) > n {
		return b[:n]
	}
	return b
}

// checkPurge applies the purge clause of the property to the observed change of
// the directory listing across one Purge(e) call.
func (m *model) checkPurge(e uint64, before, after map[string]int64, ctx string) (fs []finding, removed int, removedActive bool, emptyClosed int) {
	names := make([]string, 0, len(before))
	for n := range before {
		names = append(names, n)
	}
	sort.Strings(names)
	for _, n := range names {
		if _, still := after[n]; still {
			continue
		}
		f := m.files[n]
		if f == nil || f.gone {
			continue
		}
		removed++
		isActive := f == m.active
		if isActive {
			removedActive = true
		}
		var maxE, lastE uint64
		cnt := 0
		var bad *mEnt
		for _, me := range f.ents {
			if me.purged || (me.optional && !me.complete) {
				continue
			}
			cnt++
			lastE = me.e.Epoch
			if me.e.Epoch > maxE {
				maxE = me.e.Epoch
			}
			if me.e.Epoch >= e && bad == nil {
				bad = me
			}
		}
		if bad != nil {
			rel := "max>e"
			if maxE == e {
				rel = "max==e"
			}
			fs = append(fs, finding{
				fmt.Sprintf("Purge(e) removed an entry with epoch >= e (ctx=%s max_vs_e=%s last_entry_below_e=%v active_file=%v)", ctx, rel, lastE < e, isActive),
				map[string]any{"purge_epoch": e, "file": n, "file_max_epoch": maxE, "file_last_epoch": lastE, "entries": cnt, "entry_id": bad.e.ID, "entry_epoch": bad.e.Epoch},
			})
		}
		f.gone = true
	}
	for _, f := range m.sortedFiles() {
		if f.gone || f == m.active {
			continue
		}
		cnt, allBelow := 0, true
		var maxE uint64
		for _, me := range f.ents {
			if me.purged || (me.optional && !me.complete) {
				continue
			}
			cnt++
			if me.e.Epoch > maxE {
				maxE = me.e.Epoch
			}
			if me.e.Epoch >= e {
				allBelow = false
			}
		}
		if cnt == 0 {
			// a closed file without a single readable entry: the statement is
			// vacuous for it, nothing asserted
			emptyClosed++
			continue
		}
		if _, still := after[f.name]; still && allBelow {
			fs = append(fs, finding{
				fmt.Sprintf("Purge(e) left a closed log file whose entries are all < e (ctx=%s torn=%v)", ctx, f.torn),
				map[string]any{"purge_epoch": e, "file": f.name, "file_max_epoch": maxE, "entries": cnt},
			})
		}
	}
	// entries below e in surviving files may (per the statement) be purged too;
	// the next read settles whether they were.
	for _, f := range m.files {
		if f.gone {
			continue
		}
		for _, me := range f.ents {
			if !me.purged && me.e.Epoch < e {
				me.mayBePurged = true
			}
		}
	}
	return fs, removed, removedActive, emptyClosed
}
