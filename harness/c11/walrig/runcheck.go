package walrig

import (
	"fmt"
	"os"
	"runtime"
	"sync"
	"testing"

	"github.com/filecoin-project/go-f3/verifh/vkit"
	logging "github.com/ipfs/go-log/v2"
)

// Params sizes one part of the C11 check.
type Params struct {
	Part            string
	Driver          Driver
	Quick, Thorough int // histories per tier
	BulkEvery       int // every n-th history is of the "bulk" profile (>1 MiB cumulative, automatic rotation)
	// floors below which the part is inconclusive (per tier: quick, thorough)
	MinCuts      [2]int64
	MinAutoRot   int64
	MinPurgeRemv int64
}

// RunCheck is the body of TestCheck for a C11 part.
func RunCheck(t *testing.T, p Params) {
	// the WAL logs every torn record it skips; that is expected here by the ten thousand
	_ = logging.SetLogLevel("f3/wal", "fatal")

	run := vkit.New("C11", p.Part, "fault_enumeration")
	n := run.N(p.Quick, p.Thorough)
	run.SetRule("each evaluation is one seeded history or one crash world (cut offset) of its final append; a history = (append of 0 B..300 KiB entries with non-monotonic epochs, explicit Rotate, Close+reuse, Close+reopen, abandon+reopen, Purge at 0/max/max+1/existing/existing+1 epochs, reopen of a copy) executed on the real internal/writeaheadlog in a real directory, followed by the torn-tail enumeration of its final append: for every byte offset between the file size before and after that append (all offsets if the record is <= 4 KiB, else first/last 64 + 512 sampled) the directory is rebuilt with the file cut there, the log is restarted, read, appended to, restarted, appended to (sometimes purged), restarted and read again; every read is compared with the harness's own log of acknowledged appends grouped by the log file that took them (learned from directory listings). distinct_nontrivial = distinct (history hash, cut offset) pairs where the cut fell strictly inside the final record")
	run.Assume(
		"the page cache is not modelled: a crash is simulated as the file ending at byte k, i.e. writes reach the file in order and fsync-before-ack is only checked as write-before-ack (the record is visible through a second descriptor / second log instance when Append returns)",
		"only the final write of a history is torn (the property speaks of the last write); closed files are never cut",
		"cross-file order of All() is not asserted (file names are RFC3339Nano with trimmed zeros; outside the statement)",
		"a closed file that holds no readable entry at all is not required to be purged (vacuous case)",
		"entries are matched by a unique id embedded in each entry and compared on their canonical CBOR bytes",
	)
	root, cleanup := run.Scratch()
	defer cleanup()

	var mu sync.Mutex
	total := Stats{}
	body := func(i int) {
		seed := run.SubSeed(int64(i))
		run.Breadcrumb(fmt.Sprintf("case=%d seed=%d", i, seed))
		sink := Sink{
			Violation: func(sig string, w map[string]any) { run.Violation(sig, w) },
			Distinct:  run.Distinct,
		}
		st, desc := RunHistory(p.Driver, i, seed, root, p.BulkEvery, sink)
		run.Eval(1 + st["truncation_points"]) // the history itself + one crash world per cut offset
		if i < 4 {
			run.Sample(desc)
		}
		mu.Lock()
		for k, v := range st {
			if len(k) > 4 && k[:4] == "max_" {
				total.max(k, v)
			} else {
				total.add(k, v)
			}
		}
		mu.Unlock()
	}
	if run.Case >= 0 {
		body(int(run.Case))
	} else {
		// the work is dominated by fsync waits, so run more histories than cores
		vkit.Parallel(n, 2*runtime.GOMAXPROCS(0), body)
	}
	for k, v := range total {
		if len(k) > 4 && k[:4] == "max_" {
			run.Max(k, v)
		} else {
			run.Count(k, v)
		}
	}
	if run.Case < 0 {
		tier := 0
		if run.Thorough() {
			tier = 1
		}
		switch {
		case total["truncation_points"] < p.MinCuts[tier],
			total["rotations_auto_observed"] < p.MinAutoRot,
			total["purge_files_removed"] < p.MinPurgeRemv,
			total["torn_restarts"] < p.MinCuts[tier],
			total["second_descriptor_checks"] == 0:
			run.Inconclusive("too-few-events")
		case total["append_errors"] > 0 || total["harness_copy_errors"] > 0:
			// an Append that fails on a healthy disk, or a scratch copy that fails,
			// means the rig did not exercise what it claims
			if total["histories_without_torn_enumeration"]*4 > total["histories"] {
				run.Inconclusive("harness-error")
			}
		}
	}
	rc := run.Finish()
	if rc != 0 {
		t.Fail()
	}
	if rc == 2 {
		os.Exit(2)
	}
}
