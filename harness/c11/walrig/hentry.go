package walrig

import (
	"bytes"
	"fmt"
	"io"
	"math/rand"

	"github.com/filecoin-project/go-f3/internal/writeaheadlog"
	cbg "github.com/whyrusleeping/cbor-gen"
)

// HEntry is the harness-defined WAL entry: CBOR array(4) of
// [epoch uint, seq uint, tags array-of-uint, payload bytes]. Definite lengths
// everywhere, so a record is self-delimiting and no strict prefix of a record
// is a complete record.
type HEntry struct {
	Epoch   uint64
	Seq     uint64
	Tags    []uint64
	Payload []byte
}

const (
	hMaxTags    = 64
	hMaxPayload = 1 << 20
)

var _ writeaheadlog.Entry = (*HEntry)(nil)

func (e *HEntry) WALEpoch() uint64 { return e.Epoch }

func (e *HEntry) MarshalCBOR(w io.Writer) error {
	cw := cbg.NewCborWriter(w)
	if err := cw.WriteMajorTypeHeader(cbg.MajArray, 4); err != nil {
		return err
	}
	if err := cw.WriteMajorTypeHeader(cbg.MajUnsignedInt, e.Epoch); err != nil {
		return err
	}
	if err := cw.WriteMajorTypeHeader(cbg.MajUnsignedInt, e.Seq); err != nil {
		return err
	}
	if len(e.Tags) > hMaxTags {
		return fmt.Errorf("too many tags")
	}
	if err := cw.WriteMajorTypeHeader(cbg.MajArray, uint64(len(e.Tags))); err != nil {
		return err
	}
	for _, t := range e.Tags {
		if err := cw.WriteMajorTypeHeader(cbg.MajUnsignedInt, t); err != nil {
			return err
		}
	}
	if len(e.Payload) > hMaxPayload {
		return fmt.Errorf("payload too long")
	}
	if err := cw.WriteMajorTypeHeader(cbg.MajByteString, uint64(len(e.Payload))); err != nil {
		return err
	}
	_, err := cw.Write(e.Payload)
	return err
}

func (e *HEntry) UnmarshalCBOR(r io.Reader) (err error) {
	*e = HEntry{}
	cr := cbg.NewCborReader(r)
	maj, extra, err := cr.ReadHeader()
	if err != nil {
		return err
	}
	defer func() {
		if err == io.EOF {
			err = io.ErrUnexpectedEOF
		}
	}()
	if maj != cbg.MajArray || extra != 4 {
		return fmt.Errorf("hentry: expected array(4), got major %d len %d", maj, extra)
	}
	if maj, extra, err = cr.ReadHeader(); err != nil {
		return err
	}
	if maj != cbg.MajUnsignedInt {
		return fmt.Errorf("hentry: epoch is not a uint")
	}
	e.Epoch = extra
	if maj, extra, err = cr.ReadHeader(); err != nil {
		return err
	}
	if maj != cbg.MajUnsignedInt {
		return fmt.Errorf("hentry: seq is not a uint")
	}
	e.Seq = extra
	if maj, extra, err = cr.ReadHeader(); err != nil {
		return err
	}
	if maj != cbg.MajArray || extra > hMaxTags {
		return fmt.Errorf("hentry: bad tags header")
	}
	if extra > 0 {
		e.Tags = make([]uint64, extra)
	}
	for i := range e.Tags {
		m, x, err := cr.ReadHeader()
		if err != nil {
			return err
		}
		if m != cbg.MajUnsignedInt {
			return fmt.Errorf("hentry: tag is not a uint")
		}
		e.Tags[i] = x
	}
	if maj, extra, err = cr.ReadHeader(); err != nil {
		return err
	}
	if maj != cbg.MajByteString || extra > hMaxPayload {
		return fmt.Errorf("hentry: bad payload header")
	}
	if extra > 0 {
		e.Payload = make([]byte, extra)
	}
	if _, err = io.ReadFull(cr, e.Payload); err != nil {
		return err
	}
	return nil
}

// hLog adapts the real WriteAheadLog[HEntry] to the rig's Log interface.
type hLog struct {
	w *writeaheadlog.WriteAheadLog[HEntry, *HEntry]
}

func hToEnt(h *HEntry) (Ent, error) {
	var buf bytes.Buffer
	if err := h.MarshalCBOR(&buf); err != nil {
		return Ent{}, err
	}
	return Ent{Epoch: h.WALEpoch(), ID: h.Seq, Raw: buf.Bytes(), Obj: *h}, nil
}

func (l hLog) Append(e Ent) error { return l.w.Append(e.Obj.(HEntry)) }
func (l hLog) All() ([]Ent, error) {
	all, err := l.w.All()
	if err != nil {
		return nil, err
	}
	res := make([]Ent, 0, len(all))
	for i := range all {
		e, err := hToEnt(&all[i])
		if err != nil {
			// cannot be re-marshalled: report as an entry with unmatched bytes
			e = Ent{Epoch: all[i].Epoch, ID: all[i].Seq, Raw: []byte("unmarshalable:" + err.Error())}
		}
		res = append(res, e)
	}
	return res, nil
}
func (l hLog) Purge(e uint64) error { return l.w.Purge(e) }
func (l hLog) Rotate() error        { return l.w.Rotate() }
func (l hLog) Close() error         { return l.w.Close() }

// HarnessDriver runs the rig against writeaheadlog.WriteAheadLog[HEntry].
func HarnessDriver() Driver {
	return Driver{
		Name:    "hentry",
		MaxSize: 300 << 10,
		Open: func(dir string) (Log, error) {
			w, err := writeaheadlog.Open[HEntry](dir)
			if err != nil {
				return nil, err
			}
			return hLog{w}, nil
		},
		GenRejected: func(rng *rand.Rand, id, epoch uint64) Ent {
			// more tags than the encoder admits: MarshalCBOR emits the array header, epoch and
			// sequence number and then fails
			h := HEntry{Epoch: epoch, Seq: id, Tags: make([]uint64, hMaxTags+1+rng.Intn(8))}
			return Ent{Epoch: epoch, ID: id, Raw: []byte("rejected"), Obj: h}
		},
		Gen: func(rng *rand.Rand, id, epoch uint64, size int) Ent {
			h := HEntry{Epoch: epoch, Seq: id}
			// tags: vary the number and the header widths of the integers
			switch rng.Intn(4) {
			case 0:
			case 1:
				h.Tags = []uint64{uint64(rng.Intn(24))}
			default:
				n := rng.Intn(6)
				for i := 0; i < n; i++ {
					h.Tags = append(h.Tags, rng.Uint64()>>uint(rng.Intn(64)))
				}
			}
			if size < 0 {
				size = 0
			}
			if size > 0 {
				h.Payload = make([]byte, size)
				rng.Read(h.Payload)
				if rng.Intn(5) == 0 {
					// payload that itself looks like WAL records (nested CBOR arrays)
					var b bytes.Buffer
					for b.Len() < size {
						inner := HEntry{Epoch: rng.Uint64() >> uint(rng.Intn(64)), Seq: 1 << 40, Payload: []byte{1, 2, 3}}
						_ = inner.MarshalCBOR(&b)
					}
					copy(h.Payload, b.Bytes())
				}
			}
			e, err := hToEnt(&h)
			if err != nil {
				panic(err)
			}
			return e
		},
	}
}
