// Package vkit is the shared run/evidence/verdict kit used by every property
// package of the /verif harness.
//
// A property package creates one Run per invocation (vkit.New), feeds it with
// what its monitors observed (Eval, Distinct, Sample, Count), reports
// violations (Violation) and finally calls Finish, which writes the evidence
// part file and prints the verdict lines the ./check driver looks for.
package vkit

import (
	"encoding/json"
	"fmt"
	"hash/fnv"
	"os"
	"path/filepath"
	"regexp"
	"sort"
	"strconv"
	"sync"
	"time"
)

// KnownFinding is one entry of /verif/known_findings.json ("known" list).
type KnownFinding struct {
	Property string `json:"property"`
	ID       string `json:"id"`
	Match    string `json:"match"`
	What     string `json:"what"`
	Part     string `json:"part,omitempty"` // if set: only this part of the property's check reports it
	re       *regexp.Regexp
}

type knownFile struct {
	Known []KnownFinding    `json:"known"`
	Fixed []json.RawMessage `json:"fixed"`
}

type Run struct {
	ID    string
	Part  string
	Tier  string
	Seed  int64
	Root  string
	Level string
	// Case, when >= 0, asks the package to run only that case (replay).
	Case int64

	start time.Time

	mu           sync.Mutex
	evaluations  int64
	distinct     map[uint64]struct{}
	samples      []any
	maxSamples   int
	counters     map[string]int64
	violations   int
	written      int
	knownHits    map[string]int
	known        []KnownFinding
	rule         string
	assumptions  []string
	inconclusive string
	extra        map[string]any
	exhaustive   bool
	sigCounts    map[string]int
}

func env(k, def string) string {
	if v := os.Getenv(k); v != "" {
		return v
	}
	return def
}

// New creates the run context from the environment:
// VERIF_SEED (default 1), VERIF_TIER (quick|thorough, default quick),
// VERIF_ROOT (default /verif), VERIF_CASE (replay a single case).
func New(id, part, level string) *Run {
	seed, _ := strconv.ParseInt(env("VERIF_SEED", "1"), 10, 64)
	cs, err := strconv.ParseInt(env("VERIF_CASE", "-1"), 10, 64)
	if err != nil {
		cs = -1
	}
	tier := env("VERIF_TIER", "quick")
	if tier != "thorough" {
		tier = "quick"
	}
	r := &Run{
		ID: id, Part: part, Tier: tier, Seed: seed, Root: env("VERIF_ROOT", "/verif"), Level: level,
		Case:       cs,
		start:      time.Now(),
		distinct:   map[uint64]struct{}{},
		counters:   map[string]int64{},
		knownHits:  map[string]int{},
		maxSamples: 6,
		extra:      map[string]any{},
		sigCounts:  map[string]int{},
	}
	r.loadKnown()
	return r
}

func (r *Run) loadKnown() {
	r.loadKnownFile(filepath.Join(r.Root, "known_findings.json"))
	more, _ := filepath.Glob(filepath.Join(r.Root, "known_findings.d", "*.json"))
	sort.Strings(more)
	for _, f := range more {
		r.loadKnownFile(f)
	}
}

func (r *Run) loadKnownFile(path string) {
	b, err := os.ReadFile(path)
	if err != nil {
		return
	}
	var kf knownFile
	if err := json.Unmarshal(b, &kf); err != nil {
		fmt.Printf("WARN cannot parse known_findings.json: %v\n", err)
		return
	}
	for _, k := range kf.Known {
		if k.Property != r.ID || (k.Part != "" && k.Part != r.Part) {
			continue
		}
		re, err := regexp.Compile(k.Match)
		if err != nil {
			fmt.Printf("WARN bad known finding regexp %q: %v\n", k.Match, err)
			continue
		}
		k.re = re
		r.known = append(r.known, k)
	}
}

// Thorough reports whether this is a thorough-tier run.
func (r *Run) Thorough() bool { return r.Tier == "thorough" }

// N picks the case count for the tier.
func (r *Run) N(quick, thorough int) int {
	if r.Thorough() {
		return thorough
	}
	return quick
}

// SubSeed derives a per-case seed (splitmix64 of run seed and index).
func (r *Run) SubSeed(i int64) int64 {
	z := uint64(r.Seed)*0x9E3779B97F4A7C15 + uint64(i)*0xBF58476D1CE4E5B9 + 0x94D049BB133111EB
	z = (z ^ (z >> 30)) * 0xBF58476D1CE4E5B9
	z = (z ^ (z >> 27)) * 0x94D049BB133111EB
	z ^= z >> 31
	return int64(z & 0x7fffffffffffffff)
}

func (r *Run) SetRule(s string)          { r.mu.Lock(); r.rule = s; r.mu.Unlock() }
func (r *Run) Assume(s ...string)        { r.mu.Lock(); r.assumptions = append(r.assumptions, s...); r.mu.Unlock() }
func (r *Run) SetExtra(k string, v any)  { r.mu.Lock(); r.extra[k] = v; r.mu.Unlock() }
func (r *Run) SetExhaustive(b bool)      { r.mu.Lock(); r.exhaustive = b; r.mu.Unlock() }
func (r *Run) Eval(n int64)              { r.mu.Lock(); r.evaluations += n; r.mu.Unlock() }
func (r *Run) Count(name string, n int64) { r.mu.Lock(); r.counters[name] += n; r.mu.Unlock() }

func (r *Run) Counter(name string) int64 {
	r.mu.Lock()
	defer r.mu.Unlock()
	return r.counters[name]
}

func (r *Run) Max(name string, v int64) {
	r.mu.Lock()
	if v > r.counters[name] {
		r.counters[name] = v
	}
	r.mu.Unlock()
}

// Distinct records one non-trivial case by its canonical description; the
// number of different descriptions is the distinct_nontrivial count.
func (r *Run) Distinct(desc string) {
	h := fnv.New64a()
	h.Write([]byte(desc))
	r.DistinctHash(h.Sum64())
}

func (r *Run) DistinctHash(h uint64) {
	r.mu.Lock()
	r.distinct[h] = struct{}{}
	r.mu.Unlock()
}

// Sample keeps a few written-out cases for the evidence file.
func (r *Run) Sample(x any) {
	r.mu.Lock()
	if len(r.samples) < r.maxSamples {
		r.samples = append(r.samples, x)
	}
	r.mu.Unlock()
}

func (r *Run) Inconclusive(reason string) {
	r.mu.Lock()
	if r.inconclusive == "" {
		r.inconclusive = reason
	}
	r.mu.Unlock()
}

// Violation reports a refuting observation. sig is a canonical one-line
// description of what failed (it is what known findings are matched against);
// witness is written to a replay file.
func (r *Run) Violation(sig string, witness any) {
	r.mu.Lock()
	defer r.mu.Unlock()
	for _, k := range r.known {
		if k.re.MatchString(sig) {
			r.knownHits[k.ID]++
			return
		}
	}
	r.violations++
	r.sigCounts[sig]++
	if r.written >= 8 || r.sigCounts[sig] > 2 {
		return
	}
	r.written++
	dir := filepath.Join(r.Root, "replays", r.ID)
	_ = os.MkdirAll(dir, 0o755)
	p := filepath.Join(dir, fmt.Sprintf("%s-%s-seed%d-%d.json", r.Part, r.Tier, r.Seed, r.written))
	b, err := json.MarshalIndent(map[string]any{
		"property": r.ID, "part": r.Part, "tier": r.Tier, "seed": r.Seed,
		"what": sig, "witness": witness,
	}, "", " ")
	if err != nil {
		b = []byte(fmt.Sprintf(`{"property":%q,"what":%q,"witness_error":%q}`, r.ID, sig, err.Error()))
	}
	_ = os.WriteFile(p, b, 0o644)
	fmt.Printf("VIOLATION property=%s replay=%s\n", r.ID, p)
	fmt.Printf("  what: %s\n", sig)
}

func (r *Run) Violations() int {
	r.mu.Lock()
	defer r.mu.Unlock()
	return r.violations
}

// Finish writes the evidence part and prints verdict lines. It returns the
// exit status the process should use: 0 held, 1 violation, 2 inconclusive.
func (r *Run) Finish() int {
	r.mu.Lock()
	defer r.mu.Unlock()
	cov := map[string]any{
		"evaluations":         r.evaluations,
		"distinct_nontrivial": len(r.distinct),
		"rule":                r.rule,
		"samples":             r.samples,
	}
	if r.exhaustive {
		cov["exhaustive"] = true
	}
	names := make([]string, 0, len(r.counters))
	for k := range r.counters {
		names = append(names, k)
	}
	sort.Strings(names)
	obs := map[string]int64{}
	for _, k := range names {
		obs[k] = r.counters[k]
	}
	cov["observed"] = obs
	for k, v := range r.extra {
		cov[k] = v
	}
	kh := map[string]int{}
	for k, v := range r.knownHits {
		kh[k] = v
	}
	cov["known_finding_hits"] = kh
	ev := map[string]any{
		"property_id": r.ID,
		"tier":        r.Tier,
		"seed":        r.Seed,
		"level":       r.Level,
		"coverage":    cov,
		"assumptions": r.assumptions,
		"wall_s":      time.Since(r.start).Seconds(),
		"violations":  r.violations,
	}
	if r.inconclusive != "" {
		ev["inconclusive"] = r.inconclusive
	}
	dir := filepath.Join(r.Root, "evidence", ".parts")
	_ = os.MkdirAll(dir, 0o755)
	b, _ := json.MarshalIndent(ev, "", " ")
	_ = os.WriteFile(filepath.Join(dir, r.ID+"."+r.Part+".json"), b, 0o644)

	// every listed finding is reported on every run (it is a property of the tree, not of this
	// run's sample); the count says how often this run's workload reproduced it
	for _, k := range r.known {
		fmt.Printf("KNOWN-FINDING: property=%s %s (%s; reproduced %d times in this run)\n", r.ID, k.What, k.ID, r.knownHits[k.ID])
	}
	for sg, n := range r.sigCounts {
		fmt.Printf("VIOLATION-SIGNATURE x%d: %s\n", n, sg)
	}
	fmt.Printf("SUMMARY property=%s part=%s tier=%s seed=%d evaluations=%d distinct_nontrivial=%d violations=%d wall=%.1fs\n",
		r.ID, r.Part, r.Tier, r.Seed, r.evaluations, len(r.distinct), r.violations, time.Since(r.start).Seconds())
	for _, k := range names {
		fmt.Printf("  observed %-40s %d\n", k, r.counters[k])
	}
	switch {
	case r.violations > 0:
		return 1
	case r.inconclusive != "":
		fmt.Printf("INCONCLUSIVE property=%s reason=%s\n", r.ID, r.inconclusive)
		return 2
	}
	return 0
}

// Breadcrumb appends a line to the breadcrumb file of this run so a
// process-fatal event still leaves a replayable description of the last case.
func (r *Run) Breadcrumb(line string) {
	dir := filepath.Join(r.Root, ".out")
	_ = os.MkdirAll(dir, 0o755)
	p := filepath.Join(dir, r.ID+"."+r.Part+".breadcrumb")
	_ = os.WriteFile(p, []byte(line+"\n"), 0o644)
}

// Scratch returns a fresh scratch directory under <root>/.scratch.
func (r *Run) Scratch() (string, func()) {
	base := filepath.Join(r.Root, ".scratch")
	_ = os.MkdirAll(base, 0o755)
	d, err := os.MkdirTemp(base, r.ID+"-")
	if err != nil {
		panic(err)
	}
	return d, func() { _ = os.RemoveAll(d) }
}

// Parallel runs fn(i) for i in [0,n) on w workers.
func Parallel(n, w int, fn func(i int)) {
	if w < 1 {
		w = 1
	}
	var wg sync.WaitGroup
	ch := make(chan int, 64)
	for k := 0; k < w; k++ {
		wg.Add(1)
		go func() {
			defer wg.Done()
			for i := range ch {
				fn(i)
			}
		}()
	}
	for i := 0; i < n; i++ {
		ch <- i
	}
	close(ch)
	wg.Wait()
}
