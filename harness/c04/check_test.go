package c04

import (
	"bytes"
	"fmt"
	"math/big"
	"math/rand"
	"os"
	"runtime"
	"sort"
	"sync"
	"testing"

	"github.com/filecoin-project/go-f3/certs"
	"github.com/filecoin-project/go-f3/gpbft"
	"github.com/filecoin-project/go-f3/verifh/vfix"
	"github.com/filecoin-project/go-f3/verifh/vkit"
	"github.com/filecoin-project/go-f3/verifh/vsig"
	"github.com/ipfs/go-cid"
)

// ---------- reference power-table algebra (written from the property text) ----------

type ent struct {
	id    gpbft.ActorID
	power *big.Int
	key   string
}

type table map[gpbft.ActorID]ent

func toTable(es gpbft.PowerEntries) table {
	t := table{}
	for _, e := range es {
		t[e.ID] = ent{e.ID, new(big.Int).Set(e.Power.Int), string(e.PubKey)}
	}
	return t
}

func (t table) canonical() gpbft.PowerEntries {
	out := make(gpbft.PowerEntries, 0, len(t))
	for _, e := range t {
		out = append(out, gpbft.PowerEntry{ID: e.id, Power: gpbft.StoragePower{Int: new(big.Int).Set(e.power)}, PubKey: gpbft.PubKey(e.key)})
	}
	sort.Slice(out, func(i, j int) bool {
		c := out[i].Power.Int.Cmp(out[j].Power.Int)
		if c != 0 {
			return c > 0
		}
		return out[i].ID < out[j].ID
	})
	return out
}

// refDiff is the canonical delta between two tables: sorted by id, one entry per changed member.
func refDiff(a, b table) certs.PowerTableDiff {
	ids := map[gpbft.ActorID]bool{}
	for id := range a {
		ids[id] = true
	}
	for id := range b {
		ids[id] = true
	}
	var sorted []gpbft.ActorID
	for id := range ids {
		sorted = append(sorted, id)
	}
	sort.Slice(sorted, func(i, j int) bool { return sorted[i] < sorted[j] })
	var d certs.PowerTableDiff
	for _, id := range sorted {
		ea, ina := a[id]
		eb, inb := b[id]
		switch {
		case ina && inb:
			delta := new(big.Int).Sub(eb.power, ea.power)
			var key gpbft.PubKey
			if ea.key != eb.key {
				key = gpbft.PubKey(eb.key)
			}
			if delta.Sign() == 0 && len(key) == 0 {
				continue
			}
			d = append(d, certs.PowerTableDelta{ParticipantID: id, PowerDelta: gpbft.StoragePower{Int: delta}, SigningKey: key})
		case inb:
			d = append(d, certs.PowerTableDelta{ParticipantID: id, PowerDelta: gpbft.StoragePower{Int: new(big.Int).Set(eb.power)}, SigningKey: gpbft.PubKey(eb.key)})
		default:
			d = append(d, certs.PowerTableDelta{ParticipantID: id, PowerDelta: gpbft.StoragePower{Int: new(big.Int).Neg(ea.power)}})
		}
	}
	return d
}

// refApply applies a delta by the documented rules; ok=false when malformed.
func refApply(a table, d certs.PowerTableDiff) (table, bool) {
	out := table{}
	for k, v := range a {
		out[k] = ent{v.id, new(big.Int).Set(v.power), v.key}
	}
	var last gpbft.ActorID
	for i, x := range d {
		if i > 0 && x.ParticipantID <= last {
			return nil, false
		}
		last = x.ParticipantID
		if x.PowerDelta.Int == nil {
			return nil, false
		}
		if x.PowerDelta.Sign() == 0 && len(x.SigningKey) == 0 {
			return nil, false
		}
		e, ok := out[x.ParticipantID]
		if ok {
			if string(x.SigningKey) == e.key {
				return nil, false
			}
			e.power = new(big.Int).Add(e.power, x.PowerDelta.Int)
			if len(x.SigningKey) > 0 {
				if e.power.Sign() == 0 {
					return nil, false
				}
				e.key = string(x.SigningKey)
			}
		} else {
			if x.PowerDelta.Sign() <= 0 || len(x.SigningKey) == 0 {
				return nil, false
			}
			e = ent{x.ParticipantID, new(big.Int).Set(x.PowerDelta.Int), string(x.SigningKey)}
		}
		switch e.power.Sign() {
		case 0:
			delete(out, x.ParticipantID)
		case 1:
			out[x.ParticipantID] = e
		default:
			return nil, false
		}
	}
	return out, true
}

func entriesEqual(a, b gpbft.PowerEntries) bool {
	if len(a) != len(b) {
		return false
	}
	for i := range a {
		if a[i].ID != b[i].ID || a[i].Power.Int.Cmp(b[i].Power.Int) != 0 || !bytes.Equal(a[i].PubKey, b[i].PubKey) {
			return false
		}
	}
	return true
}

func diffEqual(a, b certs.PowerTableDiff) bool {
	if len(a) != len(b) {
		return false
	}
	for i := range a {
		if a[i].ParticipantID != b[i].ParticipantID || a[i].PowerDelta.Int.Cmp(b[i].PowerDelta.Int) != 0 || !bytes.Equal(a[i].SigningKey, b[i].SigningKey) {
			return false
		}
	}
	return true
}

func cloneEntries(es gpbft.PowerEntries) gpbft.PowerEntries {
	out := make(gpbft.PowerEntries, len(es))
	for i, e := range es {
		out[i] = gpbft.PowerEntry{ID: e.ID, Power: gpbft.StoragePower{Int: new(big.Int).Set(e.Power.Int)}, PubKey: append(gpbft.PubKey{}, e.PubKey...)}
	}
	return out
}

func scaled(es gpbft.PowerEntries) ([]int64, int64) {
	tot := new(big.Int)
	for _, e := range es {
		tot.Add(tot, e.Power.Int)
	}
	out := make([]int64, len(es))
	var sum int64
	for i, e := range es {
		x := new(big.Int).Mul(e.Power.Int, big.NewInt(0xffff))
		out[i] = x.Div(x, tot).Int64()
		sum += out[i]
	}
	return out, sum
}

// ---------- generator ----------

func randPower(rng *rand.Rand) *big.Int {
	switch rng.Intn(4) {
	case 0:
		return big.NewInt(1 + rng.Int63n(5))
	case 1:
		return big.NewInt(1 + rng.Int63n(1_000_000))
	case 2:
		return new(big.Int).Add(new(big.Int).Rand(rng, new(big.Int).Lsh(big.NewInt(1), uint(1+rng.Intn(200)))), big.NewInt(1))
	default:
		return big.NewInt(100)
	}
}

// pickID draws a participant id: mostly small ones (so that tables of a pair overlap), sometimes
// ids around the int32/int64 sign boundaries and the top of the uint64 range.
func pickID(rng *rand.Rand, maxN int) gpbft.ActorID {
	if rng.Intn(8) != 0 {
		return gpbft.ActorID(1 + rng.Intn(3*maxN))
	}
	k := uint64(rng.Intn(3))
	switch rng.Intn(6) {
	case 0:
		return 0
	case 1:
		return gpbft.ActorID(1<<31 - 1 + k)
	case 2:
		return gpbft.ActorID(1<<63 - 1 - k)
	case 3:
		return gpbft.ActorID(1<<63 + k)
	case 4:
		return gpbft.ActorID(^uint64(0) - k)
	default:
		return gpbft.ActorID(rng.Uint64())
	}
}

// keyIdx: a key index that stays distinct per id also for ids near 2^64
func keyIdx(id gpbft.ActorID) uint64 {
	if uint64(id) < 1<<59 {
		return uint64(id) * 16
	}
	return (uint64(id)>>5 | 1<<58) * 16
}

func randTable(rng *rand.Rand, maxN int, universe uint32, sig vsig.Scheme) table {
	n := 1 + rng.Intn(maxN)
	t := table{}
	for len(t) < n {
		id := pickID(rng, maxN)
		t[id] = ent{id, randPower(rng), string(sig.PubKey(universe, keyIdx(id)+uint64(rng.Intn(3))))}
	}
	return t
}

func evolve(rng *rand.Rand, a table, maxN int, universe uint32, sig vsig.Scheme) table {
	b := table{}
	for k, v := range a {
		b[k] = ent{v.id, new(big.Int).Set(v.power), v.key}
	}
	steps := rng.Intn(4)
	for s := 0; s < steps; s++ {
		switch rng.Intn(4) {
		case 0: // add
			id := pickID(rng, maxN)
			if _, ok := b[id]; !ok {
				b[id] = ent{id, randPower(rng), string(sig.PubKey(universe, keyIdx(id)+uint64(rng.Intn(3))))}
			}
		case 1: // remove (keep at least one)
			if len(b) > 1 {
				for id := range b {
					delete(b, id)
					break
				}
			}
		case 2: // re-key
			for id, e := range b {
				e.key = string(sig.PubKey(universe, keyIdx(id)+3+uint64(rng.Intn(8))))
				b[id] = e
				break
			}
		case 3: // re-weight
			for id, e := range b {
				e.power = randPower(rng)
				b[id] = e
				break
			}
		}
	}
	return b
}

type aggProv struct {
	inst    uint64
	chain   []gpbft.TipSet
	supp    gpbft.SupplementalData
	signers string
	keys    string
	nn      string
}

type history struct {
	sig      vsig.Scheme
	rng      *rand.Rand
	nn       gpbft.NetworkName
	first    uint64
	tables   []gpbft.PowerEntries // tables[i] = table in force for cert i; tables[len] = table after the last
	certs    []*certs.FinalityCertificate
	base     *gpbft.TipSet
	cidTable map[cid.Cid]gpbft.PowerEntries
	aggs     map[string][]aggProv
}

func snap(c *gpbft.ECChain) []gpbft.TipSet {
	if c.IsZero() {
		return nil
	}
	out := make([]gpbft.TipSet, len(c.TipSets))
	for i, ts := range c.TipSets {
		out[i] = *ts
		out[i].Key = append([]byte{}, ts.Key...)
	}
	return out
}

func (h *history) register(es gpbft.PowerEntries) cid.Cid {
	c, err := certs.MakePowerTableCID(es)
	if err != nil {
		panic(err)
	}
	if _, ok := h.cidTable[c]; !ok {
		h.cidTable[c] = cloneEntries(es)
	}
	return c
}

// sign builds signers+aggregate for cert c over table es with the given signer indices.
func (h *history) sign(c *certs.FinalityCertificate, es gpbft.PowerEntries, idxs []int, nn gpbft.NetworkName) {
	s := append([]int{}, idxs...)
	sort.Ints(s)
	p := gpbft.Payload{Instance: c.GPBFTInstance, Round: 0, Phase: gpbft.DECIDE_PHASE, SupplementalData: c.SupplementalData, Value: c.ECChain}
	msg := p.MarshalForSigning(nn)
	agg, err := h.sig.Aggregate(es.PublicKeys())
	if err != nil {
		panic(err)
	}
	sigs := make([][]byte, len(s))
	for i, ix := range s {
		sigs[i] = h.sig.RawSign(es[ix].PubKey, msg)
	}
	a, err := agg.Aggregate(s, sigs)
	if err != nil {
		panic(err)
	}
	c.Signers = vfix.Bitfield(s)
	c.Signature = a
	var ks bytes.Buffer
	for _, ix := range s {
		ks.Write(es[ix].PubKey)
	}
	h.aggs[string(a)] = append(h.aggs[string(a)], aggProv{c.GPBFTInstance, snap(c.ECChain), c.SupplementalData, fmt.Sprint(s), ks.String(), string(nn)})
}

func quorum(rng *rand.Rand, es gpbft.PowerEntries, minimal bool) []int {
	sc, T := scaled(es)
	perm := rng.Perm(len(es))
	if minimal {
		sort.Ints(perm) // largest first: minimal quorum, exactly at threshold
	}
	var idxs []int
	var sum int64
	for _, i := range perm {
		if sc[i] == 0 {
			continue
		}
		idxs = append(idxs, i)
		sum += sc[i]
		if 3*sum >= 2*T {
			if !minimal && rng.Intn(2) == 0 {
				continue // over-full quorums too
			}
			break
		}
	}
	return idxs
}

func genHistory(rng *rand.Rand, maxLen, maxN int, universe uint32, sig vsig.Scheme) *history {
	h := &history{sig: sig, rng: rng, nn: gpbft.NetworkName(fmt.Sprintf("net-%d", universe%3)), cidTable: map[cid.Cid]gpbft.PowerEntries{}, aggs: map[string][]aggProv{}}
	h.first = uint64(rng.Intn(50))
	if rng.Intn(10) == 0 {
		h.first = 0
	}
	cur := randTable(rng, maxN, universe, sig)
	for {
		sc, T := scaled(cur.canonical())
		_ = sc
		if T > 0 {
			break
		}
		cur = randTable(rng, maxN, universe, sig)
	}
	n := 1 + rng.Intn(maxLen)
	ptc := h.register(cur.canonical())
	h.base = &gpbft.TipSet{Epoch: int64(rng.Intn(1000)), Key: []byte(fmt.Sprintf("base-%d-kkkkkkkkkkkkkkkkkkkkkkkkkkkkkkkk", universe)), PowerTable: ptc}
	head := h.base
	for i := 0; i < n; i++ {
		es := cur.canonical()
		h.tables = append(h.tables, es)
		var next table
		for {
			next = evolve(rng, cur, maxN, universe, sig)
			if _, T := scaled(next.canonical()); T > 0 && len(next) > 0 {
				break
			}
		}
		nes := next.canonical()
		nc := h.register(nes)
		tips := []*gpbft.TipSet{head}
		e := head.Epoch
		for k := rng.Intn(5); k > 0; k-- {
			e += 1 + int64(rng.Intn(2))
			key := make([]byte, 34)
			rng.Read(key)
			tips = append(tips, &gpbft.TipSet{Epoch: e, Key: key, PowerTable: ptc})
		}
		chain, err := gpbft.NewChain(tips[0], tips[1:]...)
		if err != nil {
			panic(err)
		}
		c := &certs.FinalityCertificate{GPBFTInstance: h.first + uint64(i), ECChain: chain, SupplementalData: gpbft.SupplementalData{PowerTable: nc}, PowerTableDelta: refDiff(cur, next)}
		h.sign(c, es, quorum(rng, es, rng.Intn(3) == 0), h.nn)
		h.certs = append(h.certs, c)
		head = chain.Head()
		cur = next
	}
	h.tables = append(h.tables, cur.canonical())
	return h
}

// ---------- reference sequence validator ----------

type refResult struct {
	next  uint64
	chain []*gpbft.TipSet
	table gpbft.PowerEntries
	ok    bool
	why   string
}

func wellFormed(c *gpbft.ECChain) bool {
	if c.IsZero() {
		return true
	}
	if len(c.TipSets) > 128 {
		return false
	}
	last := int64(-1)
	for _, ts := range c.TipSets {
		if ts == nil || len(ts.Key) == 0 || len(ts.Key) > 760 || !ts.PowerTable.Defined() || ts.PowerTable.ByteLen() > 38 || ts.Epoch <= last {
			return false
		}
		last = ts.Epoch
	}
	return true
}

func tipEq(a, b *gpbft.TipSet) bool {
	return a.Epoch == b.Epoch && bytes.Equal(a.Key, b.Key) && a.PowerTable == b.PowerTable && a.Commitments == b.Commitments
}

func (h *history) refValidate(nn gpbft.NetworkName, prev gpbft.PowerEntries, next uint64, base *gpbft.TipSet, cs []*certs.FinalityCertificate) refResult {
	r := refResult{next: next, table: prev, ok: true}
	cur := toTable(prev)
	curEntries := prev
	for _, c := range cs {
		fail := func(why string) refResult { r.ok = false; r.why = why; return r }
		if c.GPBFTInstance != r.next {
			return fail("instance not consecutive")
		}
		if !wellFormed(c.ECChain) {
			return fail("malformed chain")
		}
		if c.ECChain.IsZero() {
			return fail("empty chain")
		}
		if base != nil && !tipEq(base, c.ECChain.TipSets[0]) {
			return fail("base not linked")
		}
		sc, T := scaled(curEntries)
		cnt, err := c.Signers.Count()
		if err != nil {
			return fail("signers undecodable")
		}
		all, err := c.Signers.All(cnt + 1)
		if err != nil {
			return fail("signers undecodable")
		}
		var sum int64
		idxs := []int{}
		for _, ix := range all {
			if ix >= uint64(len(sc)) || sc[ix] == 0 {
				return fail("signer out of range or zero power")
			}
			sum += sc[ix]
			idxs = append(idxs, int(ix))
		}
		if 3*sum < 2*T {
			return fail("below strong quorum")
		}
		okA := false
		var ks bytes.Buffer
		for _, ix := range idxs {
			ks.Write(curEntries[ix].PubKey)
		}
		for _, ap := range h.aggs[string(c.Signature)] {
			if ap.inst == c.GPBFTInstance && ap.nn == string(nn) && ap.signers == fmt.Sprint(idxs) && ap.keys == ks.String() && ap.supp == c.SupplementalData && len(ap.chain) == len(c.ECChain.TipSets) {
				same := true
				for i := range ap.chain {
					if !tipEq(&ap.chain[i], c.ECChain.TipSets[i]) {
						same = false
					}
				}
				// the aggregate must also have been made with the keys of the table in force
				okA = okA || same
			}
		}
		if !okA {
			return fail("aggregate does not verify over the exact payload")
		}
		nt, ok := refApply(cur, c.PowerTableDelta)
		if !ok {
			return fail("malformed delta")
		}
		if len(nt) == 0 {
			return fail("delta empties the table")
		}
		nes := nt.canonical()
		committed, known := h.cidTable[c.SupplementalData.PowerTable]
		if !known || !entriesEqual(committed, nes) {
			return fail("delta does not reproduce the committed table")
		}
		r.next++
		r.chain = append(r.chain, c.ECChain.TipSets[1:]...)
		cur, curEntries = nt, nes
		r.table = nes
		base = c.ECChain.TipSets[len(c.ECChain.TipSets)-1]
	}
	return r
}

func cloneCert(c *certs.FinalityCertificate) *certs.FinalityCertificate {
	n := *c
	n.ECChain = &gpbft.ECChain{}
	for _, ts := range c.ECChain.TipSets {
		t := *ts
		t.Key = append([]byte{}, ts.Key...)
		n.ECChain.TipSets = append(n.ECChain.TipSets, &t)
	}
	n.Signature = append([]byte{}, c.Signature...)
	n.PowerTableDelta = make(certs.PowerTableDiff, len(c.PowerTableDelta))
	for i, d := range c.PowerTableDelta {
		n.PowerTableDelta[i] = certs.PowerTableDelta{ParticipantID: d.ParticipantID, PowerDelta: gpbft.StoragePower{Int: new(big.Int).Set(d.PowerDelta.Int)}, SigningKey: append(gpbft.PubKey{}, d.SigningKey...)}
	}
	return &n
}

const numOps = 26

// corrupt applies operator op at position pos of a copy of the sequence.
func (h *history) corrupt(seq []*certs.FinalityCertificate, other *history, op, pos int) ([]*certs.FinalityCertificate, string) {
	rng := h.rng
	out := make([]*certs.FinalityCertificate, len(seq))
	for i, c := range seq {
		out[i] = cloneCert(c)
	}
	c := out[pos]
	es := h.tables[pos]
	resign := func() { h.sign(c, es, quorum(rng, es, false), h.nn) }
	if c.ECChain.IsZero() && (op == 4 || op == 5 || op == 7 || op == 8) {
		return nil, ""
	}
	switch op {
	case 0:
		c.GPBFTInstance++
		return out, "instance+1"
	case 1:
		c.GPBFTInstance++
		resign()
		return out, "instance+1 re-signed (gap)"
	case 2:
		if pos == 0 {
			return nil, ""
		}
		out[pos] = cloneCert(out[pos-1])
		return out, "duplicate of predecessor"
	case 3:
		if len(out) < 2 || pos == len(out)-1 {
			return nil, ""
		}
		out[pos], out[pos+1] = out[pos+1], out[pos]
		return out, "two certificates swapped"
	case 4:
		c.ECChain.TipSets[len(c.ECChain.TipSets)-1].Key = nil
		resign()
		return out, "chain with empty tipset key (re-signed)"
	case 5:
		if c.ECChain.Len() < 2 {
			return nil, ""
		}
		c.ECChain.TipSets[1].Epoch = c.ECChain.TipSets[0].Epoch
		resign()
		return out, "chain epochs not increasing (re-signed)"
	case 6:
		c.ECChain = &gpbft.ECChain{}
		resign()
		return out, "empty chain (re-signed)"
	case 7:
		c.ECChain.TipSets[0].Key = append([]byte("x"), c.ECChain.TipSets[0].Key...)
		resign()
		return out, "base unlinked from predecessor head (re-signed)"
	case 8:
		c.ECChain.TipSets[0].Epoch--
		if c.ECChain.TipSets[0].Epoch < 0 {
			return nil, ""
		}
		resign()
		return out, "base epoch differs from predecessor head (re-signed)"
	case 9:
		c.SupplementalData.Commitments[0] ^= 1
		return out, "supplemental data changed without re-signing"
	case 10:
		q := quorum(rng, es, true)
		if len(q) < 2 {
			return nil, ""
		}
		sc, _ := scaled(es)
		w := 0
		for i := range q {
			if sc[q[i]] <= sc[q[w]] {
				w = i
			}
		}
		q = append(append([]int{}, q[:w]...), q[w+1:]...)
		h.sign(c, es, q, h.nn)
		return out, "signer set one member below strong quorum (valid aggregate)"
	case 11:
		sc, _ := scaled(es)
		z := -1
		for i := range sc {
			if sc[i] == 0 {
				z = i
			}
		}
		if z < 0 {
			return nil, ""
		}
		q := append(quorum(rng, es, false), z)
		h.sign(c, es, q, h.nn)
		return out, "signer with zero scaled power included"
	case 12:
		q := quorum(rng, es, false)
		h.sign(c, es, q, h.nn)
		c.Signers = vfix.Bitfield(append(q, len(es)+rng.Intn(4)))
		return out, "out-of-range signer index"
	case 13:
		c.Signature[rng.Intn(len(c.Signature))] ^= 4
		return out, "signature bit flip"
	case 14:
		h.sign(c, es, quorum(rng, es, false), "another-network")
		return out, "signed for another network name"
	case 15:
		if len(c.PowerTableDelta) < 2 {
			return nil, ""
		}
		c.PowerTableDelta[0], c.PowerTableDelta[1] = c.PowerTableDelta[1], c.PowerTableDelta[0]
		return out, "delta unsorted"
	case 16:
		if len(c.PowerTableDelta) < 1 {
			return nil, ""
		}
		c.PowerTableDelta = append(c.PowerTableDelta, c.PowerTableDelta[len(c.PowerTableDelta)-1])
		return out, "delta with duplicate id"
	case 17:
		c.PowerTableDelta = append(certs.PowerTableDiff{{ParticipantID: 0, PowerDelta: gpbft.NewStoragePower(0)}}, c.PowerTableDelta...)
		return out, "delta with a zero entry"
	case 18:
		// valid-looking delta that does not hash to the committed CID
		id := es[rng.Intn(len(es))].ID
		nd := certs.PowerTableDiff{}
		done := false
		for _, d := range c.PowerTableDelta {
			if d.ParticipantID == id {
				return nil, ""
			}
			if !done && d.ParticipantID > id {
				nd = append(nd, certs.PowerTableDelta{ParticipantID: id, PowerDelta: gpbft.NewStoragePower(1)})
				done = true
			}
			nd = append(nd, d)
		}
		if !done {
			nd = append(nd, certs.PowerTableDelta{ParticipantID: id, PowerDelta: gpbft.NewStoragePower(1)})
		}
		c.PowerTableDelta = nd
		return out, "well-formed delta that does not reproduce the committed table"
	case 19:
		if len(c.PowerTableDelta) == 0 {
			return nil, ""
		}
		c.PowerTableDelta = c.PowerTableDelta[:len(c.PowerTableDelta)-1]
		return out, "delta entry dropped"
	case 20:
		if len(out) < 2 {
			return nil, ""
		}
		return out[:pos+1], "truncation (still valid prefix)"
	case 21:
		if other == nil || len(other.certs) == 0 {
			return nil, ""
		}
		oc := cloneCert(other.certs[rng.Intn(len(other.certs))])
		oc.GPBFTInstance = c.GPBFTInstance
		out[pos] = oc
		return out, "certificate spliced from another history"
	case 22:
		// same key on existing member
		id := es[0].ID
		for _, d := range c.PowerTableDelta {
			if d.ParticipantID == id {
				return nil, ""
			}
		}
		nd := append(certs.PowerTableDiff{}, c.PowerTableDelta...)
		nd = append(nd, certs.PowerTableDelta{ParticipantID: id, PowerDelta: gpbft.NewStoragePower(0), SigningKey: append(gpbft.PubKey{}, es[0].PubKey...)})
		sort.Slice(nd, func(i, j int) bool { return nd[i].ParticipantID < nd[j].ParticipantID })
		c.PowerTableDelta = nd
		return out, "delta re-stating an unchanged key"
	case 23:
		// new member without key
		nd := append(certs.PowerTableDiff{}, c.PowerTableDelta...)
		nd = append(nd, certs.PowerTableDelta{ParticipantID: 1 << 40, PowerDelta: gpbft.NewStoragePower(5)})
		c.PowerTableDelta = nd
		return out, "delta adding a member without key"
	case 24:
		// negative result
		id := es[len(es)-1].ID
		for _, d := range c.PowerTableDelta {
			if d.ParticipantID == id {
				return nil, ""
			}
		}
		nd := append(certs.PowerTableDiff{}, c.PowerTableDelta...)
		neg := new(big.Int).Neg(new(big.Int).Add(es[len(es)-1].Power.Int, big.NewInt(1)))
		nd = append(nd, certs.PowerTableDelta{ParticipantID: id, PowerDelta: gpbft.StoragePower{Int: neg}})
		sort.Slice(nd, func(i, j int) bool { return nd[i].ParticipantID < nd[j].ParticipantID })
		c.PowerTableDelta = nd
		return out, "delta driving a member negative"
	case 25:
		// re-sign by a different valid quorum: still valid
		h.sign(c, es, quorum(rng, es, rng.Intn(2) == 0), h.nn)
		return out, "re-signed by another strong quorum (valid twin)"
	}
	return nil, ""
}

func TestCheck(t *testing.T) {
	run := vkit.New("C04", "main", "exploration")
	run.SetRule("(A) certificate sequences: honestly generated chains (1..L certificates over evolving tables: add/remove/re-key/re-weight, dust and 2^200 powers, quorums incl. exactly-at-threshold) and single / paired corruptions (26 operators) at every position, validated by certs.ValidateFinalityCertificates with and without a caller base, compared with an independent reference (provenance-based aggregate check, own delta algebra, own quorum arithmetic) incl. the returned (next instance, chain, table) triple; (B) delta algebra: random table pairs and structurally near-valid deltas through MakePowerTableDiff/ApplyPowerTableDiffs vs the reference algebra with argument snapshots. distinct non-trivial = distinct (operator(s), position class, reference outcome, real outcome) for A and distinct (shape, outcome) for B")
	run.Assume("stand-in signatures (vsig) except the histories counted under histories_with_production_bls, which are signed/validated with go-f3's blssig; aggregate validity decided by provenance; power-table CIDs are mapped back to the tables they were computed from",
		"direction discipline: only 'real accepts what the reference rejects', 'real rejects an honest/reference-valid sequence', and 'wrong prefix triple' are violations")
	var mu sync.Mutex
	nA := run.N(6000, 150000)
	bodyA := func(i int) {
		rng := rand.New(rand.NewSource(run.SubSeed(int64(i))))
		maxLen, maxN := 12, 12
		if run.Thorough() && i%10 == 0 {
			maxLen, maxN = 40, 60
		}
		var sig vsig.Scheme = vsig.StandIn{}
		if i%40 == 39 && maxN <= 12 {
			// a fixed share of the histories is signed and validated with go-f3's production BLS code (blssig)
			sig = vsig.BLS()
			mu.Lock()
			run.Count("histories_with_production_bls", 1)
			mu.Unlock()
		}
		h := genHistory(rng, maxLen, maxN, uint32(i), sig)
		other := genHistory(rand.New(rand.NewSource(run.SubSeed(int64(i))+1)), 4, maxN, uint32(i)+1_000_000, sig)
		for k, v := range other.cidTable {
			h.cidTable[k] = v
		}
		for k, v := range other.aggs {
			h.aggs[k] = append(h.aggs[k], v...)
		}
		evalSeq := func(seq []*certs.FinalityCertificate, desc string, honest bool) {
			useBase := rng.Intn(2) == 0
			var base *gpbft.TipSet
			if useBase {
				base = h.base
				if rng.Intn(6) == 0 {
					base = &gpbft.TipSet{Epoch: h.base.Epoch, Key: []byte("other-base-key-aaaaaaaaaaaaaaaaaaaaaaaa"), PowerTable: h.base.PowerTable}
					honest = false
				}
			}
			first := h.first
			if rng.Intn(12) == 0 {
				first++
				honest = false
			}
			prev := cloneEntries(h.tables[0])
			prevSnap := cloneEntries(prev)
			ref := h.refValidate(h.nn, prev, first, base, seq)
			ni, chain, npt, err := certs.ValidateFinalityCertificates(h.sig, h.nn, prev, first, base, seq...)
			run.Eval(1)
			realOK := err == nil
			posClass := "n/a"
			run.Distinct(fmt.Sprintf("%s|base%v|ref%v|real%v|%s", desc, useBase, ref.ok, realOK, posClass))
			mu.Lock()
			run.Count(fmt.Sprintf("sequences_ref_%v_real_%v", ref.ok, realOK), 1)
			mu.Unlock()
			wit := map[string]any{"case": i, "what": desc, "certs": len(seq), "first": first, "with_base": useBase, "reference_ok": ref.ok, "reference_reason": ref.why, "real_error": fmt.Sprint(err),
				"real_next": ni, "ref_next": ref.next}
			if !entriesEqual(prev, prevSnap) {
				run.Violation("C04 ValidateFinalityCertificates modified the caller's power table", wit)
			}
			if realOK && !ref.ok {
				run.Violation("C04 certificate sequence accepted although the rules reject it: "+ref.why+" ("+desc+")", wit)
				return
			}
			if !realOK && ref.ok && honest {
				run.Violation("C04 honestly generated certificate sequence rejected", wit)
				return
			}
			if !realOK && ref.ok {
				mu.Lock()
				run.Count("real_rejects_what_reference_accepts(info)", 1)
				mu.Unlock()
				return
			}
			// triple describes exactly the valid prefix
			if ni != ref.next {
				run.Violation(fmt.Sprintf("C04 reported next instance %d differs from the valid prefix end %d (%s)", ni, ref.next, desc), wit)
			}
			var got []*gpbft.TipSet
			if chain != nil {
				got = chain.TipSets
			}
			same := len(got) == len(ref.chain)
			for x := 0; same && x < len(got); x++ {
				same = tipEq(got[x], ref.chain[x])
			}
			if !same {
				run.Violation("C04 reported chain differs from the chain finalized by the valid prefix ("+desc+")", wit)
			}
			if len(seq) > 0 && !(realOK && ref.next == first) {
				if !entriesEqual(npt, ref.table) {
					run.Violation("C04 reported power table differs from the table after the valid prefix ("+desc+")", wit)
				}
			}
		}
		evalSeq(h.certs, "honest", true)
		// prefixes
		if len(h.certs) > 1 {
			evalSeq(h.certs[:1+rng.Intn(len(h.certs)-1)], "honest-prefix", true)
		}
		for k := 0; k < 24; k++ {
			op := rng.Intn(numOps)
			pos := rng.Intn(len(h.certs))
			seq, d := h.corrupt(h.certs, other, op, pos)
			if seq == nil {
				continue
			}
			desc := fmt.Sprintf("op%02d %s", op, d)
			validTwin := op == 20 || op == 25
			if rng.Intn(4) == 0 && len(seq) > 0 {
				op2 := rng.Intn(numOps)
				pos2 := rng.Intn(len(seq))
				if pos2 < len(h.tables)-1 {
					if s2, d2 := h.corrupt(seq, other, op2, pos2); s2 != nil {
						seq = s2
						validTwin = false
						desc += fmt.Sprintf(" + op%02d %s", op2, d2)
					}
				}
			}
			evalSeq(seq, desc, validTwin)
		}
		if i < 2 {
			run.Sample(map[string]any{"case": i, "certs": len(h.certs), "first_instance": h.first, "table0_members": len(h.tables[0]), "network": string(h.nn)})
		}
	}
	nB := run.N(120000, 3000000)
	bodyB := func(i int) {
		rng := rand.New(rand.NewSource(run.SubSeed(int64(1_000_000 + i))))
		a := randTable(rng, 14, 5, vsig.StandIn{})
		var b table
		if rng.Intn(3) == 0 {
			b = randTable(rng, 14, 5, vsig.StandIn{})
		} else {
			b = evolve(rng, a, 14, 5, vsig.StandIn{})
			b = evolve(rng, b, 14, 5, vsig.StandIn{})
		}
		ae, be := a.canonical(), b.canonical()
		if rng.Intn(2) == 0 { // MakePowerTableDiff makes no assumption about order
			rng.Shuffle(len(ae), func(x, y int) { ae[x], ae[y] = ae[y], ae[x] })
		}
		aSnap, bSnap := cloneEntries(ae), cloneEntries(be)
		d := certs.MakePowerTableDiff(ae, be)
		run.Eval(1)
		wit := map[string]any{"case": 1_000_000 + i, "a_members": len(a), "b_members": len(b)}
		if !entriesEqual(ae, aSnap) || !entriesEqual(be, bSnap) {
			run.Violation("C04 MakePowerTableDiff modified its arguments", wit)
		}
		if !diffEqual(d, refDiff(a, b)) {
			run.Violation("C04 MakePowerTableDiff is not the canonical delta between the two tables", wit)
		}
		if len(b) > 0 {
			got, err := certs.ApplyPowerTableDiffs(ae, d)
			if err != nil {
				run.Violation("C04 applying the computed delta failed: "+err.Error(), wit)
			} else if !entriesEqual(got, b.canonical()) {
				run.Violation("C04 applying the computed delta to the first table does not yield the second in canonical order", wit)
			}
			if !entriesEqual(ae, aSnap) {
				run.Violation("C04 ApplyPowerTableDiffs modified the caller's table", wit)
			}
		}
		run.Distinct(fmt.Sprintf("pair|%d|%d|%d", len(a), len(b), len(d)))
		// near-valid deltas
		nd := make(certs.PowerTableDiff, len(d))
		for k := range d {
			nd[k] = certs.PowerTableDelta{ParticipantID: d[k].ParticipantID, PowerDelta: gpbft.StoragePower{Int: new(big.Int).Set(d[k].PowerDelta.Int)}, SigningKey: append(gpbft.PubKey{}, d[k].SigningKey...)}
		}
		mut := rng.Intn(9)
		switch mut {
		case 0:
			if len(nd) > 1 {
				x := rng.Intn(len(nd) - 1)
				nd[x], nd[x+1] = nd[x+1], nd[x]
			}
		case 1:
			if len(nd) > 0 {
				nd = append(nd, nd[rng.Intn(len(nd))])
			}
		case 2:
			nd = append(nd, certs.PowerTableDelta{ParticipantID: gpbft.ActorID(1 << 30), PowerDelta: gpbft.NewStoragePower(0)})
		case 3:
			if len(ae) > 0 {
				e := ae[rng.Intn(len(ae))]
				nd = append(nd, certs.PowerTableDelta{ParticipantID: e.ID, PowerDelta: gpbft.NewStoragePower(0), SigningKey: append(gpbft.PubKey{}, e.PubKey...)})
				sort.SliceStable(nd, func(x, y int) bool { return nd[x].ParticipantID < nd[y].ParticipantID })
			}
		case 4:
			nd = append(nd, certs.PowerTableDelta{ParticipantID: gpbft.ActorID(1<<30 + 1), PowerDelta: gpbft.NewStoragePower(int64(rng.Intn(3)) - 1), SigningKey: vsig.PubKey(5, 77)})
		case 5:
			nd = append(nd, certs.PowerTableDelta{ParticipantID: gpbft.ActorID(1<<30 + 2), PowerDelta: gpbft.NewStoragePower(3)})
		case 6:
			if len(ae) > 0 {
				e := ae[rng.Intn(len(ae))]
				neg := new(big.Int).Neg(new(big.Int).Add(e.Power.Int, big.NewInt(int64(rng.Intn(2)))))
				nd = append(nd, certs.PowerTableDelta{ParticipantID: e.ID, PowerDelta: gpbft.StoragePower{Int: neg}, SigningKey: func() gpbft.PubKey {
					if rng.Intn(2) == 0 {
						return vsig.PubKey(5, 78)
					}
					return nil
				}()})
				sort.SliceStable(nd, func(x, y int) bool { return nd[x].ParticipantID < nd[y].ParticipantID })
			}
		case 7:
			if len(nd) > 0 {
				x := rng.Intn(len(nd))
				nd[x].PowerDelta = gpbft.StoragePower{Int: new(big.Int).Add(nd[x].PowerDelta.Int, big.NewInt(int64(rng.Intn(5))-2))}
			}
		case 8: // unchanged (valid)
		}
		before := cloneEntries(ae)
		got, err := certs.ApplyPowerTableDiffs(ae, nd)
		refT, refOK := refApply(toTable(ae), nd)
		run.Eval(1)
		w2 := map[string]any{"case": 1_000_000 + i, "mutation": mut, "delta_len": len(nd), "reference_accepts": refOK, "real_error": fmt.Sprint(err)}
		if !entriesEqual(ae, before) {
			run.Violation("C04 ApplyPowerTableDiffs modified the caller's table", w2)
		}
		if err == nil {
			// every accepted delta is the unique canonical delta between its input and output
			canon := certs.MakePowerTableDiff(ae, got)
			if !diffEqual(canon, nd) {
				run.Violation(fmt.Sprintf("C04 accepted delta is not the canonical delta between its input and output (mutation %d)", mut), w2)
			}
			if !refOK {
				run.Violation(fmt.Sprintf("C04 malformed delta accepted (mutation %d)", mut), w2)
			} else if !entriesEqual(got, refT.canonical()) {
				run.Violation("C04 applied delta yields a different table than the reference algebra", w2)
			}
		} else if refOK {
			run.Violation(fmt.Sprintf("C04 well-formed delta rejected (mutation %d): %v", mut, err), w2)
		}
		run.Distinct(fmt.Sprintf("delta|%d|%v|%v", mut, refOK, err == nil))
		mu.Lock()
		run.Count(fmt.Sprintf("deltas_ref_%v_real_%v", refOK, err == nil), 1)
		mu.Unlock()
	}
	if run.Case >= 1_000_000 {
		bodyB(int(run.Case) - 1_000_000)
	} else if run.Case >= 0 {
		bodyA(int(run.Case))
	} else {
		vkit.Parallel(nA, runtime.GOMAXPROCS(0), bodyA)
		vkit.Parallel(nB, runtime.GOMAXPROCS(0), bodyB)
	}
	rc := run.Finish()
	if rc != 0 {
		t.Fail()
	}
	if rc == 2 {
		os.Exit(2)
	}
}
