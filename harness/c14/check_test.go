package c14

import (
	"bytes"
	"fmt"
	"os"
	"runtime"
	"runtime/debug"
	"sync"
	"sync/atomic"
	"testing"
	"time"

	"github.com/filecoin-project/go-f3/verifh/vkit"
)

// TestMain turns the test binary into the decoding child of sub-monitor (iv) when the
// VERIF_C14_CHILD environment variable carries a job specification.
func TestMain(m *testing.M) {
	if spec := os.Getenv(childEnv); spec != "" {
		os.Exit(childMain(spec))
	}
	os.Exit(m.Run())
}

// TestCheck is the "main" part: (i) signing-bytes sensitivity, (ii) chain key agreement,
// (iii) codec round trip / determinism / documented limits, (iv) decoder robustness in
// address-space-capped child processes.
func TestCheck(t *testing.T) {
	debug.SetGCPercent(400) // allocation-heavy workload, plenty of memory: fewer collections
	ballast := make([]byte, 256<<20)
	defer runtime.KeepAlive(ballast)
	run := vkit.New("C14", "main", "exploration")
	run.SetRule("(i) one evaluation = one single-field perturbation (field x kind x chain length x tipset index) of a random base payload for every chain length 1..128, or of a VRF input; non-trivial = the perturbed description differs from the base; distinct = field|kind|length|index. " +
		"(ii) one evaluation = one random chain (every length 1..128) with all prefix keys compared between Key/KeysForPrefixes/AllPrefixes/Prefix and a fresh deep copy; distinct = call order x content hash. " +
		"(iii) one evaluation = one generated value of one of the 17 codec types at a boundary shape; distinct = type|shape|hash(encoding). " +
		"(iv) one evaluation = one byte string decoded in a child process (truncation, header inflation, seeded mutation, zstd bomb); distinct = type x codec x hash(input), counted in the child.")
	run.Assume("network names are those the manifest validation admits (':' is generated inside names only while Manifest.Validate accepts it)",
		"collision search is by single-field perturbation plus byte moves across field boundaries of random bases; it does not search for hash collisions",
		"value generators cover the boundary shapes listed in DESIGN.md C14; CIDs are at most 100 bytes",
		"mutation is seeded and structure-aware but not coverage-guided; allocation is measured as runtime.MemStats.TotalAlloc growth across one decode call in a child with RLIMIT_AS=2GiB",
		"third-party decoders reached through go-f3 types (go-bitfield, go-state-types big.Int, cbor-gen CID, klauspost zstd) are part of the decode path under test")
	only := os.Getenv("VERIF_C14_ONLY") // development aid: run a single sub-monitor (result is then inconclusive by construction of the driver's evidence, do not register)
	want := func(name string, sub int64) bool {
		if run.Case >= 0 {
			return run.Case/caseMul == sub
		}
		return only == "" || only == name
	}
	t0 := time.Now()
	lap := func(what string) { // log only, never part of an oracle
		fmt.Printf("[c14] %s done after %.1fs\n", what, time.Since(t0).Seconds())
	}
	if want("sign", subSign) {
		runSign(run)
		lap("sign")
	}
	if want("keys", subKeys) {
		runKeys(run)
		lap("keys")
	}
	if want("codec", subCodec) {
		runCodec(run)
		lap("codec")
	}
	if want("robust", subRobust) {
		runRobust(run)
		lap("robust")
	}
	rc := run.Finish()
	if rc != 0 {
		t.Fail()
	}
	if rc == 2 {
		os.Exit(2)
	}
}

// TestCheckRace is the "zstdrace" part (built with -race): 16 goroutines share ONE ZSTD
// encoder/decoder instance per type, encode and decode their own values and shared frames and
// keep decoded values alive across later decodes (a pooled buffer handed back while still
// referenced shows up as a corrupted value or as a race report).
func TestCheckRace(t *testing.T) {
	debug.SetGCPercent(400)
	ballast := make([]byte, 128<<20)
	defer runtime.KeepAlive(ballast)
	run := vkit.New("C14", "zstdrace", "exploration")
	run.SetRule("one evaluation = one value encoded and decoded through a ZSTD instance shared by 16 goroutines, compared with its plain CBOR form, plus re-verification of values held across later decodes; distinct = type|hash(encoding)")
	run.Assume("the Go race detector reports only races that actually happen in the explored schedules")
	const G = 16
	iters := run.N(100, 2500)
	names := []string{"gpbft.GMessage", "gpbft.PartialGMessage", "certs.FinalityCertificate", "chainexchange.Message", "gpbft.ECChain"}
	// shared frames every goroutine decodes
	type shared struct {
		t    *typeDesc
		z, b []byte
	}
	var sh []shared
	r0 := newRng(run.SubSeed(1))
	for _, n := range names {
		td := typeByName(n)
		for _, s := range td.shapes {
			if s == "sig2MiB" {
				continue
			}
			v := td.gen(r0, s)
			b, err := td.enc(v)
			if err != nil {
				continue
			}
			z, err := td.zEnc(v)
			if err != nil {
				continue
			}
			sh = append(sh, shared{td, append([]byte(nil), z...), append([]byte(nil), b...)})
		}
	}
	var evals, held int64
	var wg sync.WaitGroup
	for g := 0; g < G; g++ {
		wg.Add(1)
		go func(g int) {
			defer wg.Done()
			r := newRng(run.SubSeed(int64(100 + g)))
			type keep struct {
				t *typeDesc
				v any
				b []byte
			}
			var ring [8]*keep
			for i := 0; i < iters; i++ {
				caseID := int64(g*1_000_000 + i)
				td := typeByName(names[r.Intn(len(names))])
				shape := td.shapes[r.Intn(len(td.shapes))]
				if shapeWeight(shape) >= 1 && r.Intn(24) != 0 {
					shape = td.smallShapes[r.Intn(len(td.smallShapes))]
				}
				if shape == "sig2MiB" {
					continue
				}
				v := td.gen(r, shape)
				b, err := td.enc(v)
				if err != nil {
					continue
				}
				b = append([]byte(nil), b...)
				z, err := td.zEnc(v)
				if err != nil {
					if len(b) <= zstdCap {
						run.Violation(fmt.Sprintf("C14 zstdrace: shared ZSTD.Encode failed for %s", td.name), map[string]any{"case": caseID, "cbor_len": len(b), "error": err.Error()})
					}
					continue
				}
				y := td.newv()
				if err := td.zDec(z, y); err != nil {
					run.Violation(fmt.Sprintf("C14 zstdrace: shared ZSTD.Decode(Encode(x)) failed under concurrency (%s)", td.name), map[string]any{"case": caseID, "goroutine": g, "shape": shape, "error": err.Error()})
					continue
				}
				if b2, err := td.enc(y); err != nil || !bytes.Equal(b, b2) || !td.eq(v, y) {
					run.Violation(fmt.Sprintf("C14 zstdrace: value corrupted by concurrent use of a shared ZSTD instance (%s)", td.name), map[string]any{"case": caseID, "goroutine": g, "shape": shape})
				}
				// a shared frame
				s := sh[r.Intn(len(sh))]
				for try := 0; len(s.b) > 8<<10 && try < 6; try++ { // boundary-size shared frames only now and then
					s = sh[r.Intn(len(sh))]
				}
				ys := s.t.newv()
				if err := s.t.zDec(s.z, ys); err != nil {
					run.Violation(fmt.Sprintf("C14 zstdrace: shared frame failed to decode under concurrency (%s)", s.t.name), map[string]any{"case": caseID, "error": err.Error()})
				} else if b3, err := s.t.enc(ys); err != nil || !bytes.Equal(b3, s.b) {
					run.Violation(fmt.Sprintf("C14 zstdrace: shared frame decoded to a different value under concurrency (%s)", s.t.name), map[string]any{"case": caseID})
				}
				// hold decoded values across later decodes and verify the one that falls out
				slot := i % len(ring)
				if k := ring[slot]; k != nil {
					if bk, err := k.t.enc(k.v); err != nil || !bytes.Equal(bk, k.b) {
						run.Violation(fmt.Sprintf("C14 zstdrace: a decoded %s changed after later decodes (pooled buffer still referenced)", k.t.name), map[string]any{"case": caseID})
					}
					atomic.AddInt64(&held, 1)
				}
				ring[slot] = &keep{td, y, b}
				atomic.AddInt64(&evals, 1)
				run.Distinct(fmt.Sprintf("race|%s|%x", td.name, fnvSum(b)))
			}
		}(g)
	}
	wg.Wait()
	run.Eval(evals)
	run.Count("zstdrace.goroutines", G)
	run.Count("zstdrace.values", evals)
	run.Count("zstdrace.held_values_reverified", held)
	run.Count("zstdrace.shared_frames", int64(len(sh)))
	if evals < int64(G*iters)*8/10 {
		run.Inconclusive("too-few-events")
	}
	rc := run.Finish()
	if rc != 0 {
		t.Fail()
	}
	if rc == 2 {
		os.Exit(2)
	}
}

func fnvSum(b []byte) uint64 {
	h := uint64(14695981039346656037)
	for _, c := range b {
		h ^= uint64(c)
		h *= 1099511628211
	}
	return h
}
