package c14

import (
	"crypto/sha256"
	"encoding/hex"
	"fmt"
	"runtime"
	"sync"

	"github.com/filecoin-project/go-f3/gpbft"
	"github.com/filecoin-project/go-f3/verifh/vkit"
)

func tsFromDesc(t *tsDesc) *gpbft.TipSet {
	return &gpbft.TipSet{Epoch: t.Epoch, Key: append([]byte(nil), t.Key...), PowerTable: t.PT, Commitments: t.Comm}
}

// freshChain rebuilds a deep copy (new tipset objects, new slice, empty key cache).
func freshChain(ds []tsDesc) *gpbft.ECChain {
	c := &gpbft.ECChain{TipSets: make([]*gpbft.TipSet, len(ds))}
	for i := range ds {
		c.TipSets[i] = tsFromDesc(&ds[i])
	}
	return c
}

func contentHashes(ds []tsDesc) [][32]byte {
	// out[i] = hash of the content of prefix i (tipsets 0..i), injective serialization
	out := make([][32]byte, len(ds))
	h := sha256.New()
	for i := range ds {
		d := payDesc{Chain: ds[i : i+1]}
		c := d.canon()
		h.Write(c[:])
		copy(out[i][:], h.Sum(nil))
	}
	return out
}

func chainShort(ds []tsDesc) any {
	if len(ds) > 6 {
		return map[string]any{"len": len(ds), "note": "regenerate from case id"}
	}
	d := payDesc{Chain: ds, PT: gpbft.MakeCid(nil)}
	return d.short()["chain"]
}

func lenClass(n int) string {
	switch {
	case n == 1:
		return "1"
	case n&(n-1) == 0:
		return "power-of-two"
	case n > 2 && (n-1)&(n-2) == 0:
		return "power-of-two-plus-one"
	default:
		return "non-power-of-two"
	}
}

func hx(k gpbft.ECChainKey) string { return hex.EncodeToString(k[:]) }

func runKeys(run *vkit.Run) {
	perLen := run.N(30, 600)
	type job struct{ L, k int }
	var jobs []job
	for k := 0; k < perLen; k++ {
		for L := 128; L >= 1; L-- {
			jobs = append(jobs, job{L, k})
		}
	}
	var mu sync.Mutex
	seen := map[gpbft.ECChainKey][32]byte{} // key -> content hash (distinct chains -> distinct keys)
	record := func(caseID int64, k gpbft.ECChainKey, content [32]byte, what string) {
		mu.Lock()
		defer mu.Unlock()
		if prev, ok := seen[k]; ok && prev != content {
			run.Violation("C14 keys: two different chains have the same key", map[string]any{"case": caseID, "key": hx(k), "what": what})
		}
		seen[k] = content
	}
	body := func(ji int) {
		j := jobs[ji]
		caseID := int64(subKeys)*caseMul + int64(j.k*128+j.L)
		if run.Case >= 0 && run.Case != caseID {
			return
		}
		r := newRng(run.SubSeed(caseID))
		L := j.L
		ds := genPayDesc(r, L, false).Chain
		// occasionally make neighbouring tipsets share content so that only position distinguishes them
		if L > 1 && r.Intn(8) == 0 {
			i := r.Intn(L - 1)
			ds[i+1] = ds[i]
			ds[i+1].Key = append([]byte(nil), ds[i].Key...)
		}
		content := contentHashes(ds)
		// expected[i]: key of a freshly rebuilt deep copy of prefix i, computed directly
		expected := make([]gpbft.ECChainKey, L)
		for i := 0; i < L; i++ {
			expected[i] = freshChain(ds[:i+1]).Key()
		}
		bad := func(variant string, i int, got gpbft.ECChainKey, order string) {
			run.Violation(fmt.Sprintf("C14 keys: %s disagrees with the key of a fresh copy of the same prefix (prefix length class %s, call order %s)", variant, lenClass(i+1), order),
				map[string]any{"case": caseID, "variant": variant, "len": L, "prefix": i, "got": hx(got), "want": hx(expected[i]), "order": order, "chain": chainShort(ds)})
		}
		c := freshChain(ds)
		order := []string{"key-first", "allprefixes-first", "batch-first", "prefix-first"}[r.Intn(4)]
		var all []*gpbft.ECChain
		var batch []gpbft.ECChainKey
		var prefixes []*gpbft.ECChain
		getPrefixes := func() {
			prefixes = make([]*gpbft.ECChain, L)
			for i := range prefixes {
				prefixes[i] = c.Prefix(i)
			}
		}
		switch order {
		case "key-first":
			if k := c.Key(); k != expected[L-1] {
				bad("Key()", L-1, k, order)
			}
			all, batch = c.AllPrefixes(), c.KeysForPrefixes()
			getPrefixes()
		case "allprefixes-first":
			all = c.AllPrefixes()
			getPrefixes()
			batch = c.KeysForPrefixes()
		case "batch-first":
			batch = c.KeysForPrefixes()
			getPrefixes()
			all = c.AllPrefixes()
		default:
			getPrefixes()
			for i := L - 1; i >= 0; i -= 1 + r.Intn(3) { // warm some prefix caches before AllPrefixes
				_ = prefixes[i].Key()
			}
			all, batch = c.AllPrefixes(), c.KeysForPrefixes()
		}
		if len(all) != L || len(batch) != L {
			run.Violation("C14 keys: AllPrefixes/KeysForPrefixes returned a wrong number of entries", map[string]any{"case": caseID, "len": L, "all": len(all), "batch": len(batch)})
			return
		}
		var cmp int64
		for i := 0; i < L; i++ {
			if batch[i] != expected[i] {
				bad("KeysForPrefixes()[i]", i, batch[i], order)
			}
			if k := all[i].Key(); k != expected[i] {
				bad("AllPrefixes()[i].Key()", i, k, order)
			}
			if all[i].Len() != i+1 || !eqChain(all[i], freshChain(ds[:i+1])) {
				run.Violation("C14 keys: AllPrefixes()[i] does not hold the first i+1 tipsets", map[string]any{"case": caseID, "len": L, "prefix": i})
			}
			if k := prefixes[i].Key(); k != expected[i] {
				bad("Prefix(i).Key()", i, k, order)
			}
			cmp += 3
		}
		if k := c.Key(); k != expected[L-1] {
			bad("Key() after batch calls", L-1, k, order)
		}
		cmp++
		// siblings: derive new chains from cached prefix objects and make sure neither the
		// derived chain reports a stale key nor its siblings / the parent change.
		sib := 0
		for t := 0; t < 3 && L > 1; t++ {
			i := r.Intn(L - 1)
			extra := genTsDesc(r, ds[i].Epoch+1)
			want := freshChain(append(append([]tsDesc(nil), ds[:i+1]...), extra)).Key()
			var derived *gpbft.ECChain
			var how string
			switch t {
			case 0:
				derived, how = all[i].Append(tsFromDesc(&extra)), "AllPrefixes()[i].Append"
			case 1:
				derived, how = prefixes[i].Append(tsFromDesc(&extra)), "Prefix(i).Append"
			default:
				derived, how = all[i].Extend(extra.Key), "AllPrefixes()[i].Extend"
				e2 := extra
				e2.Epoch, e2.PT, e2.Comm = ds[i].Epoch+1, ds[i].PT, [32]byte{}
				want = freshChain(append(append([]tsDesc(nil), ds[:i+1]...), e2)).Key()
			}
			if k := derived.Key(); k != want {
				run.Violation(fmt.Sprintf("C14 keys: chain derived by %s reports a key different from a fresh copy of the same content", how),
					map[string]any{"case": caseID, "len": L, "prefix": i, "got": hx(k), "want": hx(want), "how": how})
			}
			// parent and siblings untouched
			if !eqChain(c, freshChain(ds)) {
				run.Violation(fmt.Sprintf("C14 keys: %s on a prefix object modified the parent chain's tipsets", how), map[string]any{"case": caseID, "len": L, "prefix": i})
			}
			if k := all[i+1].Key(); k != expected[i+1] {
				bad("sibling AllPrefixes()[i+1].Key() after "+how, i+1, k, order)
			}
			if k := c.Prefix(i + 1).Key(); k != expected[i+1] {
				bad("sibling Prefix(i+1).Key() after "+how, i+1, k, order)
			}
			// AllPrefixes of the derived chain must not disturb the originals
			da := derived.AllPrefixes()
			if k := da[len(da)-1].Key(); k != want {
				run.Violation(fmt.Sprintf("C14 keys: AllPrefixes()[last].Key() of a chain derived by %s differs from a fresh copy of the same content", how),
					map[string]any{"case": caseID, "len": L, "prefix": i, "got": hx(k), "want": hx(want), "how": how})
			}
			if k := da[i].Key(); k != expected[i] {
				bad("derived.AllPrefixes()[i].Key()", i, k, order)
			}
			if k := all[i].Key(); k != expected[i] {
				bad("AllPrefixes()[i].Key() after sibling derivation", i, k, order)
			}
			sib += 6
			cmp += 6
		}
		// a second AllPrefixes call on the same chain gives independent, equal results
		all2 := c.AllPrefixes()
		for _, i := range []int{0, L / 2, L - 1} {
			if all2[i].Key() != expected[i] {
				bad("second AllPrefixes()[i].Key()", i, all2[i].Key(), order)
			}
			cmp++
		}
		// distinct chains -> distinct keys (full chain and three prefixes)
		for _, i := range []int{L - 1, 0, L / 2, max(0, L-2)} {
			record(caseID, expected[i], content[i], fmt.Sprintf("length %d prefix %d", L, i))
		}
		run.Eval(1)
		run.Count("keys.chains", 1)
		run.Count("keys.key_comparisons", cmp)
		run.Count("keys.sibling_checks", int64(sib))
		run.Count("keys.order_"+order, 1)
		run.Distinct("keys|" + order + "|" + hex.EncodeToString(content[L-1][:]))
		if j.k == 0 && L == 128 {
			run.Sample(map[string]any{"sub": "keys", "chain_len": L, "order": order, "key": hx(expected[L-1])})
		}
	}
	vkit.Parallel(len(jobs), runtime.GOMAXPROCS(0), body)
	mu.Lock()
	run.Count("keys.distinct_keys_recorded", int64(len(seen)))
	mu.Unlock()
	if run.Case < 0 && run.Counter("keys.chains") < int64(perLen)*128 {
		run.Inconclusive("too-few-events")
	}
}
