// Package c14 is the runtime monitor for property C14 (encodings): signed bytes bind every
// field, chain keys agree between the direct / batch / cached variants, codecs round-trip and
// are deterministic, decoders are robust against arbitrary input (child processes).
package c14

import (
	"bytes"
	"fmt"
	"math"
	"math/big"
	"math/rand"
	"sync"

	"github.com/filecoin-project/go-bitfield"
	"github.com/filecoin-project/go-f3/certexchange"
	"github.com/filecoin-project/go-f3/certs"
	"github.com/filecoin-project/go-f3/certstore"
	"github.com/filecoin-project/go-f3/chainexchange"
	"github.com/filecoin-project/go-f3/gpbft"
	"github.com/filecoin-project/go-f3/internal/encoding"
	fbig "github.com/filecoin-project/go-state-types/big"
	"github.com/ipfs/go-cid"
	"github.com/multiformats/go-multihash"
	cbg "github.com/whyrusleeping/cbor-gen"
)

// ---------------------------------------------------------------------------------------------
// random primitives

func newRng(seed int64) *rand.Rand { return rand.New(rand.NewSource(seed)) }

func randBytes(r *rand.Rand, n int) []byte {
	b := make([]byte, n)
	_, _ = r.Read(b)
	return b
}

func rand32(r *rand.Rand, kind int) (out [32]byte) {
	switch kind % 4 {
	case 0: // zero (what go-f3 emits today)
	case 1:
		for i := range out {
			out[i] = 0xff
		}
	default:
		_, _ = r.Read(out[:])
	}
	return out
}

// randCid returns defined CIDs of several shapes: the v1 dag-cbor blake2b-256 form go-f3 uses (38
// bytes), CIDv0, raw sha2-256 and identity-hash CIDs of small length.
func randCid(r *rand.Rand) cid.Cid {
	switch r.Intn(10) {
	case 0:
		mh, _ := multihash.Sum(randBytes(r, 8), multihash.SHA2_256, -1)
		return cid.NewCidV0(mh)
	case 1:
		mh, _ := multihash.Sum(randBytes(r, 8), multihash.SHA2_256, -1)
		return cid.NewCidV1(cid.Raw, mh)
	case 2:
		mh, _ := multihash.Sum(randBytes(r, r.Intn(40)), multihash.IDENTITY, -1)
		return cid.NewCidV1(cid.Raw, mh)
	default:
		return gpbft.MakeCid(randBytes(r, 12))
	}
}

func pickU64(r *rand.Rand) uint64 {
	switch r.Intn(8) {
	case 0:
		return 0
	case 1:
		return 1
	case 2:
		return math.MaxUint64
	case 3:
		return math.MaxUint64 - 1
	case 4:
		return 1 << 63
	case 5:
		// cbor header width boundaries
		return []uint64{23, 24, 255, 256, 65535, 65536, 1<<32 - 1, 1 << 32}[r.Intn(8)]
	default:
		return r.Uint64() >> uint(r.Intn(64))
	}
}

func pickI64(r *rand.Rand) int64 {
	switch r.Intn(8) {
	case 0:
		return 0
	case 1:
		return -1
	case 2:
		return math.MaxInt64
	case 3:
		return math.MinInt64
	case 4:
		return []int64{23, 24, -24, -25, 255, 256, -256, -257, 65535, 65536, 1<<32 - 1, 1 << 32}[r.Intn(12)]
	default:
		v := int64(r.Uint64() >> uint(1+r.Intn(63)))
		if r.Intn(2) == 0 {
			v = -v
		}
		return v
	}
}

func pickLen(r *rand.Rand, max int) int {
	switch r.Intn(6) {
	case 0:
		return 0
	case 1:
		return 1
	case 2:
		return max
	case 3:
		return max - 1
	default:
		return r.Intn(max + 1)
	}
}

// ---------------------------------------------------------------------------------------------
// value generators (shape = boundary shape name; everything else random)

func genTipSet(r *rand.Rand, keyLen int) *gpbft.TipSet {
	ts := &gpbft.TipSet{
		Epoch:       pickI64(r),
		PowerTable:  randCid(r),
		Commitments: rand32(r, r.Intn(4)),
	}
	if keyLen > 0 || r.Intn(2) == 0 {
		ts.Key = randBytes(r, keyLen) // keyLen 0: empty non-nil slice half of the time
	}
	return ts
}

func keyLenFor(r *rand.Rand, mode string) int {
	switch mode {
	case "k0":
		return 0
	case "k1":
		return 1
	case "k760":
		return gpbft.TipsetKeyMaxLen
	case "k759":
		return gpbft.TipsetKeyMaxLen - 1
	default:
		if r.Intn(4) == 0 {
			return pickLen(r, gpbft.TipsetKeyMaxLen)
		}
		return 1 + r.Intn(80)
	}
}

// genChain: n tipsets with strictly increasing non-negative epochs when valid==true (what
// ECChain.Validate wants) or arbitrary epochs otherwise.
func genChain(r *rand.Rand, n int, keyMode string, valid bool) *gpbft.ECChain {
	if n == 0 {
		switch r.Intn(3) {
		case 0:
			return nil
		case 1:
			return &gpbft.ECChain{}
		default:
			return &gpbft.ECChain{TipSets: []*gpbft.TipSet{}}
		}
	}
	c := &gpbft.ECChain{TipSets: make([]*gpbft.TipSet, n)}
	epoch := int64(r.Intn(1 << 20))
	for i := range c.TipSets {
		kl := keyLenFor(r, keyMode)
		if valid && kl == 0 {
			kl = 1
		}
		ts := genTipSet(r, kl)
		if valid {
			ts.Epoch = epoch
			epoch += 1 + int64(r.Intn(3))
		}
		c.TipSets[i] = ts
	}
	return c
}

var chainShapes = []string{"n0", "n1/k1", "n1/k760", "n2", "n3/k0", "n127", "n128", "n128/k760", "n127/k759", "rand"}

func genChainShape(r *rand.Rand, shape string) *gpbft.ECChain {
	switch shape {
	case "n0":
		return genChain(r, 0, "", false)
	case "n1/k1":
		return genChain(r, 1, "k1", false)
	case "n1/k760":
		return genChain(r, 1, "k760", false)
	case "n2":
		return genChain(r, 2, "", false)
	case "n3/k0":
		return genChain(r, 3, "k0", false)
	case "n127":
		return genChain(r, 127, "", true)
	case "n128":
		return genChain(r, 128, "", true)
	case "n128/k760":
		return genChain(r, 128, "k760", true)
	case "n127/k759":
		return genChain(r, 127, "k759", true)
	default:
		return genChain(r, 1+r.Intn(12), "", r.Intn(2) == 0)
	}
}

// randChainShape: mostly small shapes, a boundary-size one now and then.
func randChainShape(r *rand.Rand) string {
	if r.Intn(40) == 0 {
		return chainShapes[r.Intn(len(chainShapes))]
	}
	return []string{"n0", "n1/k1", "n2", "n3/k0", "rand"}[r.Intn(5)]
}

func genSupp(r *rand.Rand) gpbft.SupplementalData {
	return gpbft.SupplementalData{Commitments: rand32(r, r.Intn(4)), PowerTable: randCid(r)}
}

func genPayload(r *rand.Rand, chainShape string) gpbft.Payload {
	ph := gpbft.Phase(r.Intn(7))
	if r.Intn(16) == 0 {
		ph = gpbft.Phase([]uint8{7, 23, 24, 58, 255}[r.Intn(5)])
	}
	return gpbft.Payload{
		Instance:         pickU64(r),
		Round:            pickU64(r),
		Phase:            ph,
		SupplementalData: genSupp(r),
		Value:            genChainShape(r, chainShape),
	}
}

func genBitfield(r *rand.Rand) bitfield.BitField {
	switch r.Intn(6) {
	case 0:
		return bitfield.New()
	case 1:
		return bitfield.NewFromSet([]uint64{0})
	case 2:
		n := 1 + r.Intn(600)
		s := make([]uint64, n)
		for i := range s {
			s[i] = uint64(i)
		}
		return bitfield.NewFromSet(s)
	case 3:
		return bitfield.NewFromSet([]uint64{uint64(r.Intn(1 << 20)), 1 << 40, 1<<62 + uint64(r.Intn(100))})
	default:
		n := r.Intn(200)
		s := make([]uint64, n)
		for i := range s {
			s[i] = uint64(r.Intn(2000))
		}
		return bitfield.NewFromSet(s)
	}
}

func genSig(r *rand.Rand, max int) []byte {
	n := pickLen(r, max)
	if n == 0 && r.Intn(2) == 0 {
		return nil
	}
	return randBytes(r, n)
}

func genJustification(r *rand.Rand, chainShape string) *gpbft.Justification {
	return &gpbft.Justification{
		Vote:      genPayload(r, chainShape),
		Signers:   genBitfield(r),
		Signature: genSig(r, 96),
	}
}

var gmsgShapes = []string{
	"bottom/nojust", "bottom/emptyjust", "n1/just-n1", "n128/just-n128", "n128k760/just-n128k760", "rand/nojust", "rand/just", "sig96/ticket96",
}

func genGMessage(r *rand.Rand, shape string) *gpbft.GMessage {
	m := &gpbft.GMessage{Sender: gpbft.ActorID(pickU64(r)), Signature: genSig(r, 96), Ticket: genSig(r, 96)}
	switch shape {
	case "bottom/nojust":
		m.Vote = genPayload(r, "n0")
	case "bottom/emptyjust":
		m.Vote = genPayload(r, "n0")
		// "empty" justification: bottom value, no signers, no signature (CID must be defined to be encodable)
		m.Justification = &gpbft.Justification{Vote: gpbft.Payload{SupplementalData: gpbft.SupplementalData{PowerTable: randCid(r)}}, Signers: bitfield.New()}
	case "n1/just-n1":
		m.Vote = genPayload(r, "n1/k1")
		m.Justification = genJustification(r, "n1/k760")
	case "n128/just-n128":
		m.Vote = genPayload(r, "n128")
		m.Justification = genJustification(r, "n128")
	case "n128k760/just-n128k760":
		m.Vote = genPayload(r, "n128/k760")
		m.Justification = genJustification(r, "n128/k760")
	case "rand/nojust":
		m.Vote = genPayload(r, "rand")
	case "sig96/ticket96":
		m.Vote = genPayload(r, "rand")
		m.Signature = randBytes(r, 96)
		m.Ticket = randBytes(r, 96)
		m.Justification = genJustification(r, "rand")
		m.Justification.Signature = randBytes(r, 96)
	default:
		m.Vote = genPayload(r, "rand")
		m.Justification = genJustification(r, randChainShape(r))
	}
	return m
}

func genBig(r *rand.Rand, signed bool) fbig.Int {
	var v fbig.Int
	switch r.Intn(8) {
	case 0:
		return fbig.Int{} // nil *big.Int: encodes as zero
	case 1:
		v = fbig.Zero()
	case 2:
		v = fbig.NewInt(1)
	case 3:
		// largest encodable magnitude: 127 bytes + sign byte = BigIntMaxSerializedLen
		v = fbig.Int{Int: new(big.Int).SetBytes(bytes.Repeat([]byte{0xff}, 127))}
	case 4:
		v = fbig.NewIntUnsigned(math.MaxUint64)
	default:
		v = fbig.Int{Int: new(big.Int).SetBytes(randBytes(r, 1+r.Intn(40)))}
	}
	if signed && r.Intn(2) == 0 && v.Int != nil {
		v = fbig.Int{Int: new(big.Int).Neg(v.Int)}
	}
	return v
}

func genPowerEntry(r *rand.Rand) gpbft.PowerEntry {
	return gpbft.PowerEntry{ID: gpbft.ActorID(pickU64(r)), Power: genBig(r, false), PubKey: genSig(r, 48)}
}

var tableShapes = []string{"e0", "e1", "e2", "e8192", "rand"}

func tableLen(r *rand.Rand, shape string) int {
	switch shape {
	case "e0":
		return 0
	case "e1":
		return 1
	case "e2":
		return 2
	case "e8192":
		return 8192
	default:
		return r.Intn(60)
	}
}

func genPowerEntries(r *rand.Rand, shape string) gpbft.PowerEntries {
	n := tableLen(r, shape)
	if n == 0 && r.Intn(2) == 0 {
		return nil
	}
	pe := make(gpbft.PowerEntries, n)
	for i := range pe {
		pe[i] = genPowerEntry(r)
		if n > 1000 { // keep the 8192-entry table below the 1 MiB zstd input cap
			pe[i].PubKey = randBytes(r, 48)
			pe[i].Power = fbig.NewInt(int64(r.Intn(1 << 30)))
		}
	}
	return pe
}

func genDelta(r *rand.Rand) certs.PowerTableDelta {
	return certs.PowerTableDelta{ParticipantID: gpbft.ActorID(pickU64(r)), PowerDelta: genBig(r, true), SigningKey: genSig(r, 48)}
}

func genDiff(r *rand.Rand, shape string) certs.PowerTableDiff {
	n := tableLen(r, shape)
	if n == 0 && r.Intn(2) == 0 {
		return nil
	}
	d := make(certs.PowerTableDiff, n)
	for i := range d {
		d[i] = genDelta(r)
	}
	return d
}

var certShapes = []string{"n0/d0", "n1/d1", "n128/d0", "n128k760/d8192", "sig96", "sig2MiB", "rand"}

func genCert(r *rand.Rand, shape string) *certs.FinalityCertificate {
	fc := &certs.FinalityCertificate{
		GPBFTInstance:    pickU64(r),
		SupplementalData: genSupp(r),
		Signers:          genBitfield(r),
		Signature:        genSig(r, 96),
	}
	switch shape {
	case "n0/d0":
		fc.ECChain = genChainShape(r, "n0")
		fc.PowerTableDelta = genDiff(r, "e0")
	case "n1/d1":
		fc.ECChain = genChainShape(r, "n1/k1")
		fc.PowerTableDelta = genDiff(r, "e1")
	case "n128/d0":
		fc.ECChain = genChainShape(r, "n128")
	case "n128k760/d8192":
		fc.ECChain = genChainShape(r, "n128/k760")
		fc.PowerTableDelta = genDiff(r, "e8192")
	case "sig96":
		fc.ECChain = genChainShape(r, "rand")
		fc.Signature = randBytes(r, 96)
		fc.PowerTableDelta = genDiff(r, "rand")
	case "sig2MiB":
		fc.ECChain = genChainShape(r, "n1/k1")
		fc.Signature = randBytes(r, cbg.ByteArrayMaxLen)
	default:
		fc.ECChain = genChainShape(r, randChainShape(r))
		fc.PowerTableDelta = genDiff(r, "rand")
	}
	return fc
}

// ---------------------------------------------------------------------------------------------
// field-wise equality written from the type definitions (nil and empty slices are the same
// value on the wire, a nil big integer is zero, bottom chains are equal whatever their form).

func eqBytes(a, b []byte) bool { return bytes.Equal(a, b) }

func eqTipSet(a, b *gpbft.TipSet) bool {
	return a.Epoch == b.Epoch && eqBytes(a.Key, b.Key) && a.PowerTable == b.PowerTable && a.Commitments == b.Commitments
}

func eqChain(a, b *gpbft.ECChain) bool {
	la, lb := 0, 0
	if a != nil {
		la = len(a.TipSets)
	}
	if b != nil {
		lb = len(b.TipSets)
	}
	if la != lb {
		return false
	}
	for i := 0; i < la; i++ {
		if !eqTipSet(a.TipSets[i], b.TipSets[i]) {
			return false
		}
	}
	return true
}

func eqLegacy(a, b *gpbft.LegacyECChain) bool {
	if len(*a) != len(*b) {
		return false
	}
	for i := range *a {
		if !eqTipSet(&(*a)[i], &(*b)[i]) {
			return false
		}
	}
	return true
}

func eqSupp(a, b *gpbft.SupplementalData) bool {
	return a.Commitments == b.Commitments && a.PowerTable == b.PowerTable
}

func eqPayload(a, b *gpbft.Payload) bool {
	return a.Instance == b.Instance && a.Round == b.Round && a.Phase == b.Phase &&
		eqSupp(&a.SupplementalData, &b.SupplementalData) && eqChain(a.Value, b.Value)
}

func eqBitfield(a, b bitfield.BitField) bool {
	var ba, bb bytes.Buffer
	if a.MarshalCBOR(&ba) != nil || b.MarshalCBOR(&bb) != nil {
		return false
	}
	return bytes.Equal(ba.Bytes(), bb.Bytes())
}

func eqJust(a, b *gpbft.Justification) bool {
	if a == nil || b == nil {
		return a == b
	}
	return eqPayload(&a.Vote, &b.Vote) && eqBitfield(a.Signers, b.Signers) && eqBytes(a.Signature, b.Signature)
}

func eqGMessage(a, b *gpbft.GMessage) bool {
	if a == nil || b == nil {
		return a == b
	}
	return a.Sender == b.Sender && eqPayload(&a.Vote, &b.Vote) && eqBytes(a.Signature, b.Signature) &&
		eqBytes(a.Ticket, b.Ticket) && eqJust(a.Justification, b.Justification)
}

func eqBig(a, b fbig.Int) bool {
	za, zb := a.Int, b.Int
	if za == nil {
		za = new(big.Int)
	}
	if zb == nil {
		zb = new(big.Int)
	}
	return za.Cmp(zb) == 0
}

func eqEntry(a, b *gpbft.PowerEntry) bool {
	return a.ID == b.ID && eqBig(a.Power, b.Power) && eqBytes(a.PubKey, b.PubKey)
}

func eqEntries(a, b *gpbft.PowerEntries) bool {
	if len(*a) != len(*b) {
		return false
	}
	for i := range *a {
		if !eqEntry(&(*a)[i], &(*b)[i]) {
			return false
		}
	}
	return true
}

func eqDelta(a, b *certs.PowerTableDelta) bool {
	return a.ParticipantID == b.ParticipantID && eqBig(a.PowerDelta, b.PowerDelta) && eqBytes(a.SigningKey, b.SigningKey)
}

func eqDiff(a, b *certs.PowerTableDiff) bool {
	if len(*a) != len(*b) {
		return false
	}
	for i := range *a {
		if !eqDelta(&(*a)[i], &(*b)[i]) {
			return false
		}
	}
	return true
}

func eqCert(a, b *certs.FinalityCertificate) bool {
	return a.GPBFTInstance == b.GPBFTInstance && eqChain(a.ECChain, b.ECChain) && eqSupp(&a.SupplementalData, &b.SupplementalData) &&
		eqBitfield(a.Signers, b.Signers) && eqBytes(a.Signature, b.Signature) && eqDiff(&a.PowerTableDelta, &b.PowerTableDelta)
}

// ---------------------------------------------------------------------------------------------
// type registry

type cborT interface {
	cbg.CBORMarshaler
	cbg.CBORUnmarshaler
}

// typeDesc gives uniform (type-erased) access to one codec type.
type typeDesc struct {
	name   string
	shapes []string
	gen    func(r *rand.Rand, shape string) any // returns the pointer type
	newv   func() any
	enc    func(v any) ([]byte, error) // MarshalCBOR directly
	dec    func(b []byte, into any) error
	eq     func(a, b any) bool
	cEnc   func(v any) ([]byte, error) // through internal/encoding CBOR wrapper
	cDec   func(b []byte, into any) error
	zEnc   func(v any) ([]byte, error) // through internal/encoding ZSTD wrapper (one shared instance per type)
	zDec   func(b []byte, into any) error
	// robustness seeds use these shapes (moderate sizes so that every truncation is affordable)
	smallShapes []string
	// derived (optional): reads state the value derives and caches from its content (a chain's
	// key); it must depend on the content only, also after the value object was decoded into twice
	derived func(v any) string
}

func reg[T any, PT interface {
	*T
	cborT
}](name string, shapes, small []string, gen func(r *rand.Rand, shape string) *T, eq func(a, b *T) bool) *typeDesc {
	c := encoding.NewCBOR[PT]()
	var z *encoding.ZSTD[PT]
	var zonce sync.Once
	zz := func() *encoding.ZSTD[PT] { // one shared instance per type, created on first use
		zonce.Do(func() {
			var err error
			if z, err = encoding.NewZSTD[PT](); err != nil {
				panic(err)
			}
		})
		return z
	}
	return &typeDesc{
		name: name, shapes: shapes, smallShapes: small,
		gen:  func(r *rand.Rand, shape string) any { return PT(gen(r, shape)) },
		newv: func() any { return PT(new(T)) },
		enc: func(v any) ([]byte, error) {
			var b bytes.Buffer
			err := v.(PT).MarshalCBOR(&b)
			return b.Bytes(), err
		},
		dec:  func(b []byte, into any) error { return into.(PT).UnmarshalCBOR(bytes.NewReader(b)) },
		eq:   func(a, b any) bool { return eq((*T)(a.(PT)), (*T)(b.(PT))) },
		cEnc: func(v any) ([]byte, error) { return c.Encode(v.(PT)) },
		cDec: func(b []byte, into any) error { return c.Decode(b, into.(PT)) },
		zEnc: func(v any) ([]byte, error) { return zz().Encode(v.(PT)) },
		zDec: func(b []byte, into any) error { return zz().Decode(b, into.(PT)) },
	}
}

var (
	registry     []*typeDesc
	registryOnce sync.Once
)

func types() []*typeDesc {
	registryOnce.Do(func() { buildRegistry(); setDerived() })
	return registry
}

func setDerived() {
	for _, t := range registry {
		if t.name == "gpbft.ECChain" {
			t.derived = func(v any) string { k := v.(*gpbft.ECChain).Key(); return string(k[:]) }
		}
	}
}

func buildRegistry() {
	registry = []*typeDesc{
		reg("gpbft.TipSet", []string{"k0", "k1", "k759", "k760", "rand"}, []string{"k1", "rand"},
			func(r *rand.Rand, s string) *gpbft.TipSet { return genTipSet(r, keyLenFor(r, s)) }, eqTipSet),
		reg("gpbft.ECChain", chainShapes, []string{"n0", "n1/k1", "n2", "rand"},
			func(r *rand.Rand, s string) *gpbft.ECChain {
				c := genChainShape(r, s)
				if c == nil {
					c = &gpbft.ECChain{}
				}
				return c
			}, eqChain),
		reg("gpbft.LegacyECChain", append([]string{"n129", "n8192"}, chainShapes...), []string{"n0", "n1/k1", "n2", "rand"},
			func(r *rand.Rand, s string) *gpbft.LegacyECChain {
				var c *gpbft.ECChain
				switch s {
				case "n129":
					c = genChain(r, 129, "k1", false)
				case "n8192":
					c = genChain(r, 8192, "k1", false)
				default:
					c = genChainShape(r, s)
				}
				var l gpbft.LegacyECChain
				if c != nil && len(c.TipSets) > 0 {
					l = make(gpbft.LegacyECChain, len(c.TipSets))
					for i, ts := range c.TipSets {
						l[i] = *ts
					}
				} else if r.Intn(2) == 0 {
					l = gpbft.LegacyECChain{}
				}
				return &l
			}, eqLegacy),
		reg("gpbft.GMessage", gmsgShapes, []string{"bottom/nojust", "bottom/emptyjust", "n1/just-n1", "rand/just"}, genGMessage, eqGMessage),
		reg("gpbft.PartialGMessage", append([]string{"nilmsg"}, gmsgShapes...), []string{"nilmsg", "bottom/nojust", "n1/just-n1", "rand/just"},
			func(r *rand.Rand, s string) *gpbft.PartialGMessage {
				p := &gpbft.PartialGMessage{VoteValueKey: gpbft.ECChainKey(rand32(r, r.Intn(4)))}
				if s != "nilmsg" {
					p.GMessage = genGMessage(r, s)
				}
				return p
			},
			func(a, b *gpbft.PartialGMessage) bool {
				return a.VoteValueKey == b.VoteValueKey && eqGMessage(a.GMessage, b.GMessage)
			}),
		reg("gpbft.SupplementalData", []string{"rand"}, []string{"rand"},
			func(r *rand.Rand, s string) *gpbft.SupplementalData { v := genSupp(r); return &v }, eqSupp),
		reg("gpbft.Payload", chainShapes, []string{"n0", "n1/k1", "n2", "rand"},
			func(r *rand.Rand, s string) *gpbft.Payload { v := genPayload(r, s); return &v }, eqPayload),
		reg("gpbft.Justification", chainShapes, []string{"n0", "n1/k1", "rand"}, genJustification, eqJust),
		reg("gpbft.PowerEntry", []string{"rand"}, []string{"rand"},
			func(r *rand.Rand, s string) *gpbft.PowerEntry { v := genPowerEntry(r); return &v }, eqEntry),
		reg("gpbft.PowerEntries", tableShapes, []string{"e0", "e1", "e2", "rand"},
			func(r *rand.Rand, s string) *gpbft.PowerEntries { v := genPowerEntries(r, s); return &v }, eqEntries),
		reg("certs.PowerTableDelta", []string{"rand"}, []string{"rand"},
			func(r *rand.Rand, s string) *certs.PowerTableDelta { v := genDelta(r); return &v }, eqDelta),
		reg("certs.PowerTableDiff", tableShapes, []string{"e0", "e1", "e2", "rand"},
			func(r *rand.Rand, s string) *certs.PowerTableDiff { v := genDiff(r, s); return &v }, eqDiff),
		reg("certs.FinalityCertificate", certShapes, []string{"n0/d0", "n1/d1", "sig96", "rand"}, genCert, eqCert),
		reg("certexchange.Request", []string{"rand"}, []string{"rand"},
			func(r *rand.Rand, s string) *certexchange.Request {
				return &certexchange.Request{FirstInstance: pickU64(r), Limit: pickU64(r), IncludePowerTable: r.Intn(2) == 0}
			},
			func(a, b *certexchange.Request) bool { return *a == *b }),
		reg("certexchange.ResponseHeader", tableShapes, []string{"e0", "e1", "e2", "rand"},
			func(r *rand.Rand, s string) *certexchange.ResponseHeader {
				return &certexchange.ResponseHeader{PendingInstance: pickU64(r), PowerTable: genPowerEntries(r, s)}
			},
			func(a, b *certexchange.ResponseHeader) bool {
				return a.PendingInstance == b.PendingInstance && eqEntries(&a.PowerTable, &b.PowerTable)
			}),
		reg("chainexchange.Message", chainShapes, []string{"n0", "n1/k1", "n2", "rand"},
			func(r *rand.Rand, s string) *chainexchange.Message {
				return &chainexchange.Message{Instance: pickU64(r), Chain: genChainShape(r, s), Timestamp: pickI64(r)}
			},
			func(a, b *chainexchange.Message) bool {
				return a.Instance == b.Instance && a.Timestamp == b.Timestamp && eqChain(a.Chain, b.Chain)
			}),
		reg("certstore.SnapshotHeader", tableShapes, []string{"e0", "e1", "e2", "rand"},
			func(r *rand.Rand, s string) *certstore.SnapshotHeader {
				return &certstore.SnapshotHeader{Version: pickU64(r), FirstInstance: pickU64(r), LatestInstance: pickU64(r), InitialPowerTable: genPowerEntries(r, s)}
			},
			func(a, b *certstore.SnapshotHeader) bool {
				return a.Version == b.Version && a.FirstInstance == b.FirstInstance && a.LatestInstance == b.LatestInstance &&
					eqEntries(&a.InitialPowerTable, &b.InitialPowerTable)
			}),
	}
}

func typeByName(n string) *typeDesc {
	for _, t := range types() {
		if t.name == n {
			return t
		}
	}
	panic(fmt.Sprintf("unknown type %q", n))
}
