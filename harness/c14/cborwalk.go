package c14

import (
	"encoding/binary"
	"errors"
)

// cborItem is one data item header found in a (valid, definite-length) CBOR encoding.
type cborItem struct {
	off    int    // offset of the initial byte
	hlen   int    // header length (1, 2, 3, 5 or 9)
	maj    byte   // major type 0..7
	arg    uint64 // argument (length / count / value / tag)
	end    int    // offset one past the whole item (including nested content)
	depth  int
	parent int // index of the enclosing array/map/tag item, -1 at top level
}

var errWalk = errors.New("cbor walk: malformed")

// walkCBOR lists all item headers of the first top-level item in b (written from RFC 8949).
func walkCBOR(b []byte) ([]cborItem, error) {
	var items []cborItem
	var rec func(off, depth, parent int) (int, error)
	rec = func(off, depth, parent int) (int, error) {
		if off >= len(b) || depth > 64 {
			return 0, errWalk
		}
		ib := b[off]
		maj, ai := ib>>5, ib&0x1f
		var arg uint64
		hlen := 1
		switch {
		case ai < 24:
			arg = uint64(ai)
		case ai == 24:
			hlen = 2
		case ai == 25:
			hlen = 3
		case ai == 26:
			hlen = 5
		case ai == 27:
			hlen = 9
		default:
			return 0, errWalk // indefinite / reserved: never produced by the encoders under test
		}
		if off+hlen > len(b) {
			return 0, errWalk
		}
		switch hlen {
		case 2:
			arg = uint64(b[off+1])
		case 3:
			arg = uint64(binary.BigEndian.Uint16(b[off+1:]))
		case 5:
			arg = uint64(binary.BigEndian.Uint32(b[off+1:]))
		case 9:
			arg = binary.BigEndian.Uint64(b[off+1:])
		}
		idx := len(items)
		items = append(items, cborItem{off: off, hlen: hlen, maj: maj, arg: arg, depth: depth, parent: parent})
		pos := off + hlen
		switch maj {
		case 2, 3:
			if arg > uint64(len(b)-pos) {
				return 0, errWalk
			}
			pos += int(arg)
		case 4, 5:
			n := arg
			if maj == 5 {
				n *= 2
			}
			for i := uint64(0); i < n; i++ {
				e, err := rec(pos, depth+1, idx)
				if err != nil {
					return 0, err
				}
				pos = e
			}
		case 6:
			e, err := rec(pos, depth+1, idx)
			if err != nil {
				return 0, err
			}
			pos = e
		}
		items[idx].end = pos
		return pos, nil
	}
	if _, err := rec(0, 0, -1); err != nil {
		return nil, err
	}
	return items, nil
}

// cborHeader encodes a header; width 0 = minimal, else forced argument width 1/2/4/8 bytes.
func cborHeader(maj byte, arg uint64, width int) []byte {
	if width == 0 {
		switch {
		case arg < 24:
			return []byte{maj<<5 | byte(arg)}
		case arg <= 0xff:
			width = 1
		case arg <= 0xffff:
			width = 2
		case arg <= 0xffffffff:
			width = 4
		default:
			width = 8
		}
	}
	switch width {
	case 1:
		return []byte{maj<<5 | 24, byte(arg)}
	case 2:
		h := []byte{maj<<5 | 25, 0, 0}
		binary.BigEndian.PutUint16(h[1:], uint16(arg))
		return h
	case 4:
		h := []byte{maj<<5 | 26, 0, 0, 0, 0}
		binary.BigEndian.PutUint32(h[1:], uint32(arg))
		return h
	default:
		h := []byte{maj<<5 | 27, 0, 0, 0, 0, 0, 0, 0, 0}
		binary.BigEndian.PutUint64(h[1:], arg)
		return h
	}
}

// replaceHeader returns b with the header of item it replaced by h (content untouched).
func replaceHeader(b []byte, it cborItem, h []byte) []byte {
	out := make([]byte, 0, len(b)-it.hlen+len(h))
	out = append(out, b[:it.off]...)
	out = append(out, h...)
	out = append(out, b[it.off+it.hlen:]...)
	return out
}

// inflationArgs are the argument values a length/count/value header is inflated to.
func inflationArgs(arg uint64) []uint64 {
	return []uint64{
		arg + 1, arg + 2, arg * 2, 23, 24, 32, 33, 48, 49, 96, 97, 128, 129, 255, 256, 760, 761, 8192, 8193, 65535, 65536,
		1 << 20, 1<<20 + 1, 2 << 20, 2<<20 + 1, 1 << 24, 1<<31 - 1, 1 << 31, 1<<32 - 1, 1 << 32, 1 << 40, 1<<63 - 1, 1 << 63, 1<<64 - 1,
	}
}

// headerMutations enumerates, for every item header of enc, every single-header inflation:
// the length/count argument replaced by each inflation value (minimal and 8-byte forms), the
// major type replaced by each other major type, the additional-info field replaced by each
// of 24..31, and every argument byte replaced by 0xff / incremented. emit gets a short label
// and the mutated encoding; it returns false to stop.
func headerMutations(enc []byte, pick func(i, n int) bool, emit func(label string, b []byte) bool) {
	items, err := walkCBOR(enc)
	if err != nil {
		return
	}
	lab := func(i int, it cborItem, what string, v uint64) string {
		return "hdr#" + itoa(i) + "@" + itoa(it.off) + "/m" + itoa(int(it.maj)) + "/" + what + "=" + utoa(v)
	}
	for i, it := range items {
		if pick != nil && !pick(i, len(items)) {
			continue
		}
		for _, a := range inflationArgs(it.arg) {
			if a == it.arg {
				continue
			}
			if !emit(lab(i, it, "arg", a), replaceHeader(enc, it, cborHeader(it.maj, a, 0))) {
				return
			}
		}
		for _, a := range []uint64{it.arg, it.arg + 1, 1<<64 - 1} {
			if !emit(lab(i, it, "arg8", a), replaceHeader(enc, it, cborHeader(it.maj, a, 8))) {
				return
			}
		}
		for m := byte(0); m < 8; m++ {
			if m == it.maj {
				continue
			}
			mb := append([]byte(nil), enc...)
			mb[it.off] = m<<5 | (mb[it.off] & 0x1f)
			if !emit(lab(i, it, "maj", uint64(m)), mb) {
				return
			}
		}
		for ai := byte(24); ai < 32; ai++ {
			mb := append([]byte(nil), enc...)
			mb[it.off] = (mb[it.off] & 0xe0) | ai
			if !emit(lab(i, it, "ai", uint64(ai)), mb) {
				return
			}
		}
		for k := 1; k < it.hlen; k++ {
			mb := append([]byte(nil), enc...)
			mb[it.off+k] = 0xff
			if !emit(lab(i, it, "byte"+itoa(k)+"ff", 0xff), mb) {
				return
			}
			mb2 := append([]byte(nil), enc...)
			mb2[it.off+k]++
			if !emit(lab(i, it, "byte"+itoa(k)+"inc", uint64(mb2[it.off+k])), mb2) {
				return
			}
		}
	}
}

func itoa(i int) string { return utoa(uint64(i)) }

func utoa(v uint64) string {
	if v == 0 {
		return "0"
	}
	var b [20]byte
	p := len(b)
	for v > 0 {
		p--
		b[p] = byte('0' + v%10)
		v /= 10
	}
	return string(b[p:])
}
