package c14

import (
	"bytes"
	"crypto/sha256"
	"encoding/binary"
	"encoding/hex"
	"fmt"
	"math/rand"
	"runtime"
	"strings"
	"sync"

	"github.com/filecoin-project/go-f3/gpbft"
	"github.com/filecoin-project/go-f3/manifest"
	"github.com/filecoin-project/go-f3/verifh/vkit"
	"github.com/ipfs/go-cid"
	"github.com/multiformats/go-multihash"
)

// ---------------------------------------------------------------------------------------------
// descriptions (the harness's own, independent of gpbft types) and their injective canonical form

type tsDesc struct {
	Epoch int64
	Key   []byte
	PT    cid.Cid
	Comm  [32]byte
}

type payDesc struct {
	NN       string
	Instance uint64
	Round    uint64
	Phase    uint8
	Comm     [32]byte
	PT       cid.Cid
	Chain    []tsDesc
	// RawKey, when set, stands for "value identified by this key" (the partial-message path,
	// MarshalForSigningWithValueKey); Chain is ignored then.
	RawKey *[32]byte
}

func (d *payDesc) clone() *payDesc {
	c := *d
	c.Chain = make([]tsDesc, len(d.Chain))
	for i, t := range d.Chain {
		t.Key = append([]byte(nil), t.Key...)
		c.Chain[i] = t
	}
	return &c
}

func putLP(h *bytes.Buffer, b []byte) {
	var l [8]byte
	binary.BigEndian.PutUint64(l[:], uint64(len(b)))
	h.Write(l[:])
	h.Write(b)
}

func putU64(h *bytes.Buffer, v uint64) {
	var l [8]byte
	binary.BigEndian.PutUint64(l[:], v)
	h.Write(l[:])
}

// canon is an injective serialization (every variable-length part is length-prefixed).
func (d *payDesc) canon() [32]byte {
	var h bytes.Buffer
	putLP(&h, []byte(d.NN))
	putU64(&h, d.Instance)
	putU64(&h, d.Round)
	h.WriteByte(d.Phase)
	h.Write(d.Comm[:])
	putLP(&h, d.PT.Bytes())
	if d.RawKey != nil {
		h.WriteByte(1)
		h.Write(d.RawKey[:])
	} else {
		h.WriteByte(0)
		putU64(&h, uint64(len(d.Chain)))
		for i := range d.Chain {
			t := &d.Chain[i]
			putU64(&h, uint64(t.Epoch))
			putLP(&h, t.Key)
			putLP(&h, t.PT.Bytes())
			h.Write(t.Comm[:])
		}
	}
	return sha256.Sum256(h.Bytes())
}

func (d *payDesc) build() (*gpbft.Payload, gpbft.NetworkName) {
	p := &gpbft.Payload{
		Instance: d.Instance, Round: d.Round, Phase: gpbft.Phase(d.Phase),
		SupplementalData: gpbft.SupplementalData{Commitments: d.Comm, PowerTable: d.PT},
	}
	if len(d.Chain) > 0 {
		c := &gpbft.ECChain{TipSets: make([]*gpbft.TipSet, len(d.Chain))}
		for i := range d.Chain {
			t := &d.Chain[i]
			c.TipSets[i] = &gpbft.TipSet{Epoch: t.Epoch, Key: append([]byte(nil), t.Key...), PowerTable: t.PT, Commitments: t.Comm}
		}
		p.Value = c
	}
	return p, gpbft.NetworkName(d.NN)
}

func (d *payDesc) signingBytes() []byte {
	p, nn := d.build()
	if d.RawKey != nil {
		return p.MarshalForSigningWithValueKey(nn, gpbft.ECChainKey(*d.RawKey))
	}
	return p.MarshalForSigning(nn)
}

func (d *payDesc) short() map[string]any {
	m := map[string]any{
		"network": d.NN, "network_hex": hex.EncodeToString([]byte(d.NN)), "instance": d.Instance, "round": d.Round, "phase": d.Phase,
		"supp_commitments": hex.EncodeToString(d.Comm[:]), "supp_power_table": hex.EncodeToString(d.PT.Bytes()), "chain_len": len(d.Chain),
	}
	if d.RawKey != nil {
		m["value_key"] = hex.EncodeToString(d.RawKey[:])
	}
	if len(d.Chain) <= 4 {
		var ts []map[string]any
		for _, t := range d.Chain {
			ts = append(ts, map[string]any{"epoch": t.Epoch, "key": hex.EncodeToString(t.Key), "power_table": hex.EncodeToString(t.PT.Bytes()), "commitments": hex.EncodeToString(t.Comm[:])})
		}
		m["chain"] = ts
	}
	return m
}

// networkSepAllowed asks the real manifest validation whether a network name containing the
// separator byte ':' is admissible configuration. If it is not, separator-bearing names are not
// generated (they cannot occur), otherwise they are fair game.
func networkSepAllowed() bool {
	m := manifest.LocalDevnetManifest()
	m.NetworkName = "a:b"
	return m.Validate() == nil
}

func genNetworkName(r *rand.Rand, sepOK bool) string {
	names := []string{"filecoin", "calibrationnet", "testnetnet", "mainnet", "f3", "x"}
	nn := names[r.Intn(len(names))]
	switch r.Intn(4) {
	case 0:
		nn += fmt.Sprintf("-%X", r.Uint32())
	case 1:
		nn = string(randAlnum(r, 1+r.Intn(24)))
	}
	if sepOK && r.Intn(3) == 0 {
		k := r.Intn(len(nn) + 1)
		nn = nn[:k] + ":" + nn[k:]
	}
	return nn
}

func randAlnum(r *rand.Rand, n int) []byte {
	const al = "abcdefghijklmnopqrstuvwxyz0123456789-_/ABCDEFXYZ"
	b := make([]byte, n)
	for i := range b {
		b[i] = al[r.Intn(len(al))]
	}
	return b
}

func genTsDesc(r *rand.Rand, epoch int64) tsDesc {
	kl := 1 + r.Intn(76)
	if r.Intn(16) == 0 {
		kl = []int{1, 38, 39, 759, 760}[r.Intn(5)]
	}
	return tsDesc{Epoch: epoch, Key: randBytes(r, kl), PT: gpbft.MakeCid(randBytes(r, 12)), Comm: rand32(r, r.Intn(3)*2)}
}

func genPayDesc(r *rand.Rand, L int, sepOK bool) *payDesc {
	d := &payDesc{
		NN: genNetworkName(r, sepOK), Instance: pickU64(r), Round: pickU64(r) % 64, Phase: uint8(r.Intn(7)),
		Comm: rand32(r, r.Intn(3)*2), PT: gpbft.MakeCid(randBytes(r, 12)),
	}
	if r.Intn(4) == 0 {
		d.Round = pickU64(r)
	}
	epoch := int64(r.Intn(1 << 22))
	for i := 0; i < L; i++ {
		d.Chain = append(d.Chain, genTsDesc(r, epoch))
		epoch += 1 + int64(r.Intn(3))
	}
	return d
}

// otherCid returns a CID different from c in a way that depends on kind.
func otherCid(r *rand.Rand, c cid.Cid, kind string) cid.Cid {
	switch kind {
	case "bitflip":
		b := append([]byte(nil), c.Bytes()...)
		if len(b) == 0 {
			return gpbft.MakeCid([]byte{1})
		}
		// flip inside the digest so that the result stays a parseable CID
		k := len(b) - 1 - r.Intn(min(32, len(b)))
		b[k] ^= 1 << uint(r.Intn(8))
		if o, err := cid.Cast(b); err == nil {
			return o
		}
		b[k] ^= 0xff
		b[len(b)-1] ^= 1
		o, _ := cid.Cast(b)
		return o
	case "undef":
		return cid.Undef
	case "longer": // identity-hash CID carrying the old CID bytes plus one byte
		mh, _ := multihash.Sum(append(append([]byte(nil), c.Bytes()...), byte(r.Intn(256))), multihash.IDENTITY, -1)
		return cid.NewCidV1(cid.Raw, mh)
	case "shorter":
		mh, _ := multihash.Sum(randBytes(r, r.Intn(8)), multihash.IDENTITY, -1)
		return cid.NewCidV1(cid.Raw, mh)
	default: // same digest, other codec
		if p := c.Prefix(); c.Defined() && p.Version == 1 {
			return cid.NewCidV1(p.Codec^1, c.Hash())
		}
		return gpbft.MakeCid(randBytes(r, 9))
	}
}

type pert struct {
	field, kind string
	idx         int
	d           *payDesc
}

func flipBit(r *rand.Rand, b []byte) {
	k := r.Intn(len(b))
	b[k] ^= 1 << uint(r.Intn(8))
}

// perturbations enumerates one perturbation of each kind for each field of d.
func perturbations(r *rand.Rand, d *payDesc, tipsetSel func(i int) bool, emit func(p pert)) {
	mk := func(field, kind string, idx int, f func(c *payDesc) bool) {
		c := d.clone()
		if f(c) {
			emit(pert{field, kind, idx, c})
		}
	}
	u64 := func(field string, get func(c *payDesc) *uint64) {
		mk(field, "bitflip", -1, func(c *payDesc) bool { *get(c) ^= 1 << uint(r.Intn(64)); return true })
		mk(field, "+1", -1, func(c *payDesc) bool { *get(c)++; return true })
		mk(field, "-1", -1, func(c *payDesc) bool { *get(c)--; return true })
		mk(field, "byteswap", -1, func(c *payDesc) bool {
			v := *get(c)
			*get(c) = v<<56 | v>>56 | (v & 0x00ffffffffffff00)
			return true
		})
	}
	// network name
	mk("network", "bitflip", -1, func(c *payDesc) bool { b := []byte(c.NN); flipBit(r, b); c.NN = string(b); return true })
	mk("network", "append-byte", -1, func(c *payDesc) bool { c.NN += string(randAlnum(r, 1)); return true })
	mk("network", "drop-last-byte", -1, func(c *payDesc) bool { c.NN = c.NN[:len(c.NN)-1]; return true })
	mk("network", "drop-first-byte", -1, func(c *payDesc) bool { c.NN = c.NN[1:]; return true })
	mk("network", "append-phase-byte", -1, func(c *payDesc) bool { c.NN += string([]byte{c.Phase}); return true })
	mk("network", "append-zero-byte", -1, func(c *payDesc) bool { c.NN += "\x00"; return true })
	u64("instance", func(c *payDesc) *uint64 { return &c.Instance })
	u64("round", func(c *payDesc) *uint64 { return &c.Round })
	mk("instance|round", "swap-fields", -1, func(c *payDesc) bool { c.Instance, c.Round = c.Round, c.Instance; return true })
	mk("phase", "bitflip", -1, func(c *payDesc) bool { c.Phase ^= 1 << uint(r.Intn(8)); return true })
	mk("phase", "+1", -1, func(c *payDesc) bool { c.Phase++; return true })
	mk("phase", "-1", -1, func(c *payDesc) bool { c.Phase--; return true })
	// byte moved across the phase|round boundary (both fixed width: the values exchange a byte)
	mk("phase|round", "boundary-move", -1, func(c *payDesc) bool {
		hi := uint8(c.Round >> 56)
		c.Round = c.Round<<8 | uint64(c.Phase)
		c.Phase = hi
		return true
	})
	mk("round|instance", "boundary-move", -1, func(c *payDesc) bool {
		r0, i0 := c.Round, c.Instance
		c.Round = r0<<8 | i0>>56
		c.Instance = i0<<8 | r0>>56
		return true
	})
	mk("supp.commitments", "bitflip", -1, func(c *payDesc) bool { flipBit(r, c.Comm[:]); return true })
	mk("supp.commitments", "bitflip-first", -1, func(c *payDesc) bool { c.Comm[0] ^= 0x80; return true })
	mk("supp.commitments", "bitflip-last", -1, func(c *payDesc) bool { c.Comm[31] ^= 1; return true })
	mk("supp.commitments", "rotate", -1, func(c *payDesc) bool {
		x := c.Comm
		copy(c.Comm[:], x[1:])
		c.Comm[31] = x[0]
		return true
	})
	for _, k := range []string{"bitflip", "undef", "longer", "shorter", "codec"} {
		mk("supp.powertable", k, -1, func(c *payDesc) bool { c.PT = otherCid(r, c.PT, k); return true })
	}
	// chain length
	L := len(d.Chain)
	mk("chain.length", "drop-last", -1, func(c *payDesc) bool { c.Chain = c.Chain[:L-1]; return true })
	mk("chain.length", "drop-first", -1, func(c *payDesc) bool { c.Chain = c.Chain[1:]; return true })
	mk("chain.length", "append", -1, func(c *payDesc) bool {
		c.Chain = append(c.Chain, genTsDesc(r, c.Chain[L-1].Epoch+1))
		return true
	})
	mk("chain.length", "duplicate-last", -1, func(c *payDesc) bool { c.Chain = append(c.Chain, c.Chain[L-1]); return true })
	mk("chain.length", "bottom", -1, func(c *payDesc) bool { c.Chain = nil; return true })
	if L > 2 {
		mk("chain.length", "drop-middle", L/2, func(c *payDesc) bool { c.Chain = append(c.Chain[:L/2], c.Chain[L/2+1:]...); return true })
	}
	// every tipset
	for i := 0; i < L; i++ {
		i := i
		if tipsetSel != nil && !tipsetSel(i) {
			continue
		}
		mk("tipset.epoch", "+1", i, func(c *payDesc) bool { c.Chain[i].Epoch++; return true })
		mk("tipset.epoch", "-1", i, func(c *payDesc) bool { c.Chain[i].Epoch--; return true })
		mk("tipset.epoch", "bitflip", i, func(c *payDesc) bool { c.Chain[i].Epoch ^= 1 << uint(r.Intn(64)); return true })
		mk("tipset.key", "bitflip", i, func(c *payDesc) bool { flipBit(r, c.Chain[i].Key); return true })
		mk("tipset.key", "append-byte", i, func(c *payDesc) bool { c.Chain[i].Key = append(c.Chain[i].Key, byte(r.Intn(256))); return true })
		mk("tipset.key", "append-zero", i, func(c *payDesc) bool { c.Chain[i].Key = append(c.Chain[i].Key, 0); return true })
		mk("tipset.key", "drop-last-byte", i, func(c *payDesc) bool { k := c.Chain[i].Key; c.Chain[i].Key = k[:len(k)-1]; return true })
		mk("tipset.powertable", "bitflip", i, func(c *payDesc) bool { c.Chain[i].PT = otherCid(r, c.Chain[i].PT, "bitflip"); return true })
		mk("tipset.powertable", []string{"undef", "longer", "shorter", "codec"}[i%4], i, func(c *payDesc) bool {
			c.Chain[i].PT = otherCid(r, c.Chain[i].PT, []string{"undef", "longer", "shorter", "codec"}[i%4])
			return true
		})
		mk("tipset.commitments", "bitflip", i, func(c *payDesc) bool { flipBit(r, c.Chain[i].Comm[:]); return true })
		if i+1 < L {
			// byte moved across the boundary between two neighbouring tipset keys
			mk("tipset.key|next.key", "boundary-move", i, func(c *payDesc) bool {
				k := c.Chain[i].Key
				c.Chain[i+1].Key = append([]byte{k[len(k)-1]}, c.Chain[i+1].Key...)
				c.Chain[i].Key = k[:len(k)-1]
				return true
			})
			mk("tipset.order", "swap-adjacent", i, func(c *payDesc) bool { c.Chain[i], c.Chain[i+1] = c.Chain[i+1], c.Chain[i]; return true })
			mk("tipset.epoch|next.epoch", "swap-fields", i, func(c *payDesc) bool {
				c.Chain[i].Epoch, c.Chain[i+1].Epoch = c.Chain[i+1].Epoch, c.Chain[i].Epoch
				return true
			})
			mk("tipset.commitments|next", "swap-fields", i, func(c *payDesc) bool {
				c.Chain[i].Comm, c.Chain[i+1].Comm = c.Chain[i+1].Comm, c.Chain[i].Comm
				return c.Chain[i].Comm != c.Chain[i+1].Comm
			})
		}
		if L > 2 {
			j := r.Intn(L)
			if j != i {
				mk("tipset.order", "swap-far", i, func(c *payDesc) bool { c.Chain[i], c.Chain[j] = c.Chain[j], c.Chain[i]; return true })
			}
		}
		// field moved inside a tipset: commitments <-> key material
		mk("tipset.commitments|key", "boundary-move", i, func(c *payDesc) bool {
			k := c.Chain[i].Key
			b := k[len(k)-1]
			x := c.Chain[i].Comm
			copy(c.Chain[i].Comm[1:], x[:31])
			c.Chain[i].Comm[0] = b
			c.Chain[i].Key = append(k[:len(k)-1:len(k)-1], x[31])
			return true
		})
	}
}

// sepShiftPair crafts, when ':' may appear in network names, the pair of descriptions obtained by
// moving ONE byte across the network-name boundary of the signing format
//
//	"GPBFT" ":" network ":" phase round instance commitments valueKey powerTableCID
//
// i.e. A = (network+":" , p, R, I, C, K, cidA) and B = (network, ':', R', I', C', K', cidB) where
// p|R|I|C|K|cidA == R'|I'|C'|K'|cidB as byte strings (every later field shifted by one byte, the
// variable-length CID at the end absorbing it). A uses a genuine chain; B identifies its value by
// key (MarshalForSigningWithValueKey, the partial-message verification path).
func sepShiftPair(r *rand.Rand) (a, b *payDesc, ok bool) {
	// cidA = 01 55 L (L-1) d[L-1]  is CIDv1(raw, mh(code=L, len=L-1)); prefixed with 0x01 it reads
	// CIDv1(codec 0x01, mh(code=0x55, len=L, digest=(L-1)|d)).
	L := 8 + r.Intn(20)
	raw := append([]byte{0x01, 0x55, byte(L), byte(L - 1)}, randBytes(r, L-1)...)
	cidA, err := cid.Cast(raw)
	if err != nil {
		return nil, nil, false
	}
	cidB, err := cid.Cast(append([]byte{0x01}, raw...))
	if err != nil {
		return nil, nil, false
	}
	// a genuine chain whose key ends in 0x01 (1/256 of all chains)
	var base *payDesc
	var key gpbft.ECChainKey
	for try := 0; try < 20000; try++ {
		cand := genPayDesc(r, 1, false)
		p, _ := cand.build()
		if k := p.Value.Key(); k[31] == 0x01 {
			base, key = cand, k
			break
		}
	}
	if base == nil {
		return nil, nil, false
	}
	a = base
	a.NN = a.NN + ":"
	a.PT = cidA
	var tail bytes.Buffer
	tail.WriteByte(a.Phase)
	putU64(&tail, a.Round)
	putU64(&tail, a.Instance)
	tail.Write(a.Comm[:])
	tail.Write(key[:])
	t := tail.Bytes() // 81 bytes; cidA follows
	b = &payDesc{NN: strings.TrimSuffix(a.NN, ":"), Phase: ':', PT: cidB}
	b.Round = binary.BigEndian.Uint64(t[0:8])
	b.Instance = binary.BigEndian.Uint64(t[8:16])
	copy(b.Comm[:], t[16:48])
	var k [32]byte
	copy(k[:], t[48:80])
	b.RawKey = &k
	return a, b, t[80] == 0x01
}

// ---------------------------------------------------------------------------------------------
// VRF input

type vrfDesc struct {
	NN       string
	Beacon   []byte
	Instance uint64
	Round    uint64
}

func (d vrfDesc) canon() [32]byte {
	var h bytes.Buffer
	putLP(&h, []byte(d.NN))
	putLP(&h, d.Beacon)
	putU64(&h, d.Instance)
	putU64(&h, d.Round)
	return sha256.Sum256(h.Bytes())
}

type onePower struct{}

func (onePower) Get(gpbft.ActorID) (int64, gpbft.PubKey) { return 1, gpbft.PubKey("k") }

// vrfBytes obtains the VRF signing input from the real message builder.
func (d vrfDesc) vrfBytes() ([]byte, []byte, error) {
	beacon := d.Beacon
	if beacon == nil {
		beacon = []byte{}
	}
	mb := &gpbft.MessageBuilder{
		NetworkName:     gpbft.NetworkName(d.NN),
		PowerTable:      onePower{},
		Payload:         gpbft.Payload{Instance: d.Instance, Round: d.Round, Phase: gpbft.CONVERGE_PHASE},
		BeaconForTicket: beacon,
	}
	sb, err := mb.PrepareSigningInputs(7)
	if err != nil {
		return nil, nil, err
	}
	return sb.VRFToSign, sb.PayloadToSign, nil
}

func (d vrfDesc) short() map[string]any {
	return map[string]any{"network": d.NN, "network_hex": hex.EncodeToString([]byte(d.NN)), "beacon": hex.EncodeToString(d.Beacon), "instance": d.Instance, "round": d.Round}
}

type vpert struct {
	field, kind string
	d           vrfDesc
}

func vrfPerturbations(r *rand.Rand, d vrfDesc, sepOK bool, emit func(p vpert)) {
	cl := func() vrfDesc { c := d; c.Beacon = append([]byte(nil), d.Beacon...); return c }
	mk := func(field, kind string, f func(c *vrfDesc) bool) {
		c := cl()
		if f(&c) {
			emit(vpert{field, kind, c})
		}
	}
	mk("network", "bitflip", func(c *vrfDesc) bool { b := []byte(c.NN); flipBit(r, b); c.NN = string(b); return true })
	mk("network", "append-byte", func(c *vrfDesc) bool { c.NN += string(randAlnum(r, 1)); return true })
	mk("network", "drop-last-byte", func(c *vrfDesc) bool { c.NN = c.NN[:len(c.NN)-1]; return true })
	if len(d.Beacon) > 0 {
		mk("beacon", "bitflip", func(c *vrfDesc) bool { flipBit(r, c.Beacon); return true })
		mk("beacon", "drop-last-byte", func(c *vrfDesc) bool { c.Beacon = c.Beacon[:len(c.Beacon)-1]; return true })
		mk("beacon", "drop-first-byte", func(c *vrfDesc) bool { c.Beacon = c.Beacon[1:]; return true })
		// plain byte moves across the network|beacon boundary
		mk("network|beacon", "boundary-move-left", func(c *vrfDesc) bool {
			c.NN += string(c.Beacon[:1])
			c.Beacon = c.Beacon[1:]
			return true
		})
	}
	mk("beacon", "append-byte", func(c *vrfDesc) bool { c.Beacon = append(c.Beacon, byte(r.Intn(256))); return true })
	mk("beacon", "append-zero", func(c *vrfDesc) bool { c.Beacon = append(c.Beacon, 0); return true })
	mk("network|beacon", "boundary-move-right", func(c *vrfDesc) bool {
		c.Beacon = append([]byte{c.NN[len(c.NN)-1]}, c.Beacon...)
		c.NN = c.NN[:len(c.NN)-1]
		return true
	})
	// the boundary moved to the next separator byte on either side (only if ':' may be part of a name)
	if sepOK {
		if k := bytes.IndexByte(d.Beacon, ':'); k >= 0 {
			mk("network|beacon", "boundary-move-to-separator-in-beacon", func(c *vrfDesc) bool {
				c.NN = c.NN + ":" + string(c.Beacon[:k])
				c.Beacon = c.Beacon[k+1:]
				return true
			})
		}
		if k := strings.LastIndexByte(d.NN, ':'); k > 0 {
			mk("network|beacon", "boundary-move-to-separator-in-network", func(c *vrfDesc) bool {
				c.Beacon = append([]byte(c.NN[k+1:]+":"), c.Beacon...)
				c.NN = c.NN[:k]
				return true
			})
		}
	}
	for _, f := range []struct {
		n string
		p func(c *vrfDesc) *uint64
	}{{"instance", func(c *vrfDesc) *uint64 { return &c.Instance }}, {"round", func(c *vrfDesc) *uint64 { return &c.Round }}} {
		f := f
		mk(f.n, "bitflip", func(c *vrfDesc) bool { *f.p(c) ^= 1 << uint(r.Intn(64)); return true })
		mk(f.n, "+1", func(c *vrfDesc) bool { *f.p(c)++; return true })
		mk(f.n, "-1", func(c *vrfDesc) bool { *f.p(c)--; return true })
	}
	mk("instance|round", "swap-fields", func(c *vrfDesc) bool { c.Instance, c.Round = c.Round, c.Instance; return true })
	mk("instance|round", "boundary-move", func(c *vrfDesc) bool {
		i0, r0 := c.Instance, c.Round
		c.Instance = i0<<8 | r0>>56
		c.Round = r0<<8 | i0>>56
		return true
	})
	// beacon|instance: the last beacon byte handed to the instance's top byte
	if len(d.Beacon) > 0 {
		mk("beacon|instance", "boundary-move", func(c *vrfDesc) bool {
			b := c.Beacon[len(c.Beacon)-1]
			c.Beacon = c.Beacon[:len(c.Beacon)-1]
			c.Instance = c.Instance>>8 | uint64(b)<<56
			return true
		})
	}
}

// ---------------------------------------------------------------------------------------------
// the sub-monitor

const (
	subSign   = 1
	subKeys   = 2
	subCodec  = 3
	subRobust = 4
	caseMul   = 1_000_000_000
)

type collisionMap struct {
	byBytes map[string]entry
	byDesc  map[[32]byte]string
}

type entry struct {
	canon [32]byte
	label string
	short map[string]any
	vrf   *vrfDesc
}

func newCollisionMap() *collisionMap {
	return &collisionMap{byBytes: map[string]entry{}, byDesc: map[[32]byte]string{}}
}

// add returns (collision with, nondeterministic)
func (m *collisionMap) add(b []byte, canon [32]byte, label string, short func() map[string]any) (*entry, bool) {
	if prev, ok := m.byDesc[canon]; ok && prev != string(b) {
		return nil, true
	}
	m.byDesc[canon] = string(b)
	if e, ok := m.byBytes[string(b)]; ok {
		if e.canon != canon {
			return &e, false
		}
		return nil, false
	}
	m.byBytes[string(b)] = entry{canon: canon, label: label, short: short()}
	return nil, false
}

func (m *collisionMap) addVRF(b []byte, canon [32]byte, label string, d *vrfDesc) (*entry, bool) {
	if prev, ok := m.byDesc[canon]; ok && prev != string(b) {
		return nil, true
	}
	m.byDesc[canon] = string(b)
	if e, ok := m.byBytes[string(b)]; ok {
		if e.canon != canon {
			return &e, false
		}
		return nil, false
	}
	m.byBytes[string(b)] = entry{canon: canon, label: label, vrf: d}
	return nil, false
}

func runSign(run *vkit.Run) {
	sepOK := networkSepAllowed()
	if sepOK {
		run.Count("sign.separator_allowed_in_network_name_by_manifest", 1)
	}
	perLen := run.N(2, 40)
	type job struct{ L, k int }
	var jobs []job
	for k := 0; k < perLen; k++ {
		for L := 128; L >= 1; L-- {
			jobs = append(jobs, job{L, k})
		}
	}
	var gmu sync.Mutex
	global := newCollisionMap() // base payloads of all lengths
	body := func(ji int) {
		j := jobs[ji]
		caseID := int64(subSign)*caseMul + int64(j.k*128+j.L)
		if run.Case >= 0 && run.Case != caseID {
			return
		}
		r := newRng(run.SubSeed(caseID))
		base := genPayDesc(r, j.L, sepOK)
		cm := newCollisionMap()
		bb := base.signingBytes()
		bc := base.canon()
		cm.add(bb, bc, "base", base.short)
		gmu.Lock()
		if e, _ := global.add(bb, bc, fmt.Sprintf("base L=%d", j.L), base.short); e != nil {
			run.Violation("C14 sign: signing-bytes collision between two unrelated base payloads",
				map[string]any{"case": caseID, "chain_len": j.L, "other": e.label, "a": base.short(), "b": e.short, "bytes": hex.EncodeToString(bb)})
		}
		gmu.Unlock()
		// determinism: two independently built payload objects, and the same object twice
		p, nn := base.build()
		if b1, b2 := p.MarshalForSigning(nn), p.MarshalForSigning(nn); !bytes.Equal(b1, b2) || !bytes.Equal(b1, bb) {
			run.Violation("C14 sign: MarshalForSigning not deterministic for an unchanged payload",
				map[string]any{"case": caseID, "chain_len": j.L, "payload": base.short()})
		}
		if b3 := p.MarshalForSigningWithValueKey(nn, p.Value.Key()); !bytes.Equal(b3, bb) {
			run.Violation("C14 sign: MarshalForSigningWithValueKey(Value.Key()) differs from MarshalForSigning",
				map[string]any{"case": caseID, "chain_len": j.L, "payload": base.short()})
		}
		run.Count("sign.determinism_checks", 2)
		var n, ntriv int64
		// every tipset of the chain is perturbed for the first base payload of each length (and every
		// 8th one in thorough); the other bases perturb first, last and 24 random tipsets.
		var sel func(i int) bool
		if j.k%8 != 0 && j.L > 26 {
			pick := map[int]bool{0: true, j.L - 1: true}
			for len(pick) < 26 {
				pick[r.Intn(j.L)] = true
			}
			sel = func(i int) bool { return pick[i] }
		}
		perturbations(r, base, sel, func(pt pert) {
			if !sepOK && strings.Contains(pt.d.NN, ":") {
				run.Count("sign.perturbations_excluded_inadmissible_network_name", 1)
				return
			}
			n++
			c := pt.d.canon()
			if c == bc {
				return // perturbation did not change the description (e.g. swap of equal fields)
			}
			ntriv++
			b := pt.d.signingBytes()
			label := fmt.Sprintf("%s/%s@%d", pt.field, pt.kind, pt.idx)
			run.Distinct(fmt.Sprintf("sign|%s|%s|L=%d|i=%d", pt.field, pt.kind, j.L, pt.idx))
			e, nondet := cm.add(b, c, label, pt.d.short)
			if nondet {
				run.Violation(fmt.Sprintf("C14 sign: same payload description gave different signing bytes (field=%s kind=%s)", pt.field, pt.kind),
					map[string]any{"case": caseID, "chain_len": j.L, "payload": pt.d.short()})
			}
			if e != nil {
				run.Violation(fmt.Sprintf("C14 sign: payload signing-bytes collision field=%s kind=%s: two payload descriptions that differ (this perturbation vs %s) have equal MarshalForSigning bytes",
					pt.field, pt.kind, strings.SplitN(e.label, "@", 2)[0]),
					map[string]any{"case": caseID, "chain_len": j.L, "tipset": pt.idx, "a": pt.d.short(), "a_label": label, "b": e.short, "b_label": e.label, "bytes": hex.EncodeToString(b)})
			}
			if n%16 == 0 { // determinism on perturbed payloads too
				if b2 := pt.d.signingBytes(); !bytes.Equal(b, b2) {
					run.Violation(fmt.Sprintf("C14 sign: MarshalForSigning not deterministic (field=%s kind=%s)", pt.field, pt.kind),
						map[string]any{"case": caseID, "chain_len": j.L, "payload": pt.d.short()})
				}
				run.Count("sign.determinism_checks", 1)
			}
		})
		run.Eval(ntriv)
		run.Count("sign.payload_perturbations", ntriv)
		run.Count("sign.payload_perturbations_trivial_skipped", n-ntriv)
		run.Count("sign.base_payloads", 1)
		if j.k == 0 && j.L == 128 {
			run.Sample(map[string]any{"sub": "sign", "chain_len": j.L, "perturbations": ntriv, "base": base.short()})
		}
	}
	vkit.Parallel(len(jobs), runtime.GOMAXPROCS(0), body)

	// one-byte shift across the network-name boundary (crafted pair, see sepShiftPair)
	if sepOK {
		nshift := run.N(8, 200)
		for i := 0; i < nshift; i++ {
			caseID := int64(subSign)*caseMul + 500_000_000 + int64(i)
			if run.Case >= 0 && run.Case != caseID {
				continue
			}
			r := newRng(run.SubSeed(caseID))
			a, b, ok := sepShiftPair(r)
			if !ok {
				run.Count("sign.sepshift_not_constructible", 1)
				continue
			}
			run.Eval(1)
			run.Count("sign.sepshift_pairs", 1)
			run.Distinct(fmt.Sprintf("sign|network|following|sepshift|cidlen=%d", a.PT.ByteLen()))
			ba, bb := a.signingBytes(), b.signingBytes()
			if a.canon() != b.canon() && bytes.Equal(ba, bb) {
				run.Violation("C14 sign: payload signing-bytes collision field=network|following kind=boundary-move-across-separator: network N+\":\" with phase p and network N with phase 0x3a (all later fields shifted by one byte into the variable-length CID) give equal bytes",
					map[string]any{"case": caseID, "a": a.short(), "b": b.short(), "bytes": hex.EncodeToString(ba)})
			}
		}
	} else {
		run.Count("sign.sepshift_skipped_separator_not_admissible", 1)
	}

	// VRF inputs
	nv := run.N(3000, 120000)
	vbody := func(i int) {
		caseID := int64(subSign)*caseMul + 700_000_000 + int64(i)
		if run.Case >= 0 && run.Case != caseID {
			return
		}
		r := newRng(run.SubSeed(caseID))
		d := vrfDesc{NN: genNetworkName(r, sepOK), Instance: pickU64(r), Round: pickU64(r) % 32}
		switch r.Intn(6) {
		case 0:
			d.Beacon = randBytes(r, r.Intn(4))
		case 1:
			d.Beacon = randBytes(r, 1+r.Intn(96))
		default:
			d.Beacon = randBytes(r, 32) // drand randomness
		}
		if len(d.Beacon) > 0 && r.Intn(3) == 0 {
			d.Beacon[r.Intn(len(d.Beacon))] = ':'
		}
		cm := newCollisionMap()
		vb, pb, err := d.vrfBytes()
		if err != nil || vb == nil {
			run.Violation(fmt.Sprintf("C14 sign: PrepareSigningInputs returned no VRF input although a beacon was given (err=%v)", err), map[string]any{"case": caseID, "vrf": d.short()})
			return
		}
		vb2, pb2, _ := d.vrfBytes()
		if !bytes.Equal(vb, vb2) || !bytes.Equal(pb, pb2) {
			run.Violation("C14 sign: PrepareSigningInputs not deterministic", map[string]any{"case": caseID, "vrf": d.short()})
		}
		if bytes.Equal(vb, pb) {
			run.Violation("C14 sign: VRF input equals payload signing bytes (no domain separation)", map[string]any{"case": caseID, "vrf": d.short()})
		}
		bc := d.canon()
		d0 := d
		cm.addVRF(vb, bc, "base", &d0)
		var n int64
		vrfPerturbations(r, d, sepOK, func(p vpert) {
			if !sepOK && strings.Contains(p.d.NN, ":") {
				run.Count("sign.perturbations_excluded_inadmissible_network_name", 1)
				return
			}
			c := p.d.canon()
			if c == bc {
				return
			}
			n++
			b, _, err := p.d.vrfBytes()
			if err != nil {
				return
			}
			label := p.field + "/" + p.kind
			run.Distinct(fmt.Sprintf("vrf|%s|%s|nn=%d|beacon=%d", p.field, p.kind, len(d.NN), len(d.Beacon)))
			pd := p.d
			if e, nondet := cm.addVRF(b, c, label, &pd); nondet {
				run.Violation("C14 sign: same VRF description gave different bytes", map[string]any{"case": caseID, "vrf": p.d.short()})
			} else if e != nil {
				o := e.vrf
				field, kind := p.field, p.kind
				// classify: the two descriptions differ only in where the network name ends
				if pd.NN != o.NN && pd.Instance == o.Instance && pd.Round == o.Round && pd.NN+":"+string(pd.Beacon) == o.NN+":"+string(o.Beacon) {
					field, kind = "network|beacon", "boundary-move-across-separator"
				}
				run.Violation(fmt.Sprintf("C14 sign: VRF input collision field=%s kind=%s: two (network, beacon, instance, round) descriptions that differ give equal VRF input", field, kind),
					map[string]any{"case": caseID, "a": pd.short(), "a_label": label, "b": o.short(), "b_label": e.label, "bytes": hex.EncodeToString(b)})
			}
		})
		run.Eval(n)
		run.Count("sign.vrf_perturbations", n)
		run.Count("sign.vrf_bases", 1)
	}
	vkit.Parallel(nv, runtime.GOMAXPROCS(0), vbody)

	if run.Case < 0 {
		if run.Counter("sign.payload_perturbations") < 100000+int64(perLen)*20000 || run.Counter("sign.vrf_perturbations") < int64(nv)*10 {
			run.Inconclusive("too-few-events")
		}
	}
}
