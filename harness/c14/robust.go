package c14

import (
	"crypto/sha256"
	"encoding/binary"
	"encoding/hex"
	"encoding/json"
	"fmt"
	"hash/fnv"
	"math/rand"
	"os"
	"os/exec"
	"path/filepath"
	"runtime"
	"runtime/debug"
	"runtime/pprof"
	"sort"
	"strings"
	"sync"
	"syscall"
	"time"

	"github.com/filecoin-project/go-f3/verifh/vkit"
)

// Allocation bounds of the oracle (bytes of runtime.MemStats.TotalAlloc growth across ONE decode
// call). Documented per-field limits: byte strings <= 2 MiB (cbor-gen default, only
// FinalityCertificate.Signature uses it), arrays <= 8192 entries, zstd output <= 1 MiB.
// Calibration on the unchanged tree (quick+thorough, seeds 1,2,3,7,12345) is recorded in
// /verif/selfcheck/C14.md: max observed 2.00 MiB + O(len) for CBOR, 3.1 MiB for zstd.
const (
	allocBaseCBOR  = 8 << 20
	allocExtraZstd = 4 << 20
	allocPerByte   = 64
	childRlimitAS  = 2 << 30 // RLIMIT_AS of the decoding child
	maxExhaustive  = 6 << 10 // seeds up to this size get EVERY truncation / EVERY header mutated
	childEnv       = "VERIF_C14_CHILD"
)

func allocBound(codec string, n int) uint64 {
	b := uint64(allocBaseCBOR) + allocPerByte*uint64(n)
	if codec == "zstd" {
		b += allocExtraZstd
	}
	return b
}

type childSpec struct {
	Job        int    `json:"job"`
	Type       string `json:"type"`
	Family     string `json:"family"` // trunc | header | mutate | zbomb
	Seed       int64  `json:"seed"`
	Count      int    `json:"count"`
	From       int64  `json:"from"`
	Breadcrumb string `json:"breadcrumb"`
	Out        string `json:"out"`
	Rlimit     uint64 `json:"rlimit"`
	Heavy      int    `json:"heavy"`    // number of boundary-size seeds (sampled truncation / header mutation)
	BigCuts    int    `json:"big_cuts"` // sampled cut points per boundary-size seed
	BigItems   int    `json:"big_items"`
}

type childViolation struct {
	Kind     string `json:"kind"`
	Codec    string `json:"codec"`
	Label    string `json:"label"`
	Index    int64  `json:"index"`
	InputLen int    `json:"input_len"`
	InputHex string `json:"input_hex"`
	Detail   string `json:"detail"`
}

type childResult struct {
	Done         bool             `json:"done"`
	Evaluated    int64            `json:"evaluated"`
	Accepted     int64            `json:"accepted"`
	Rejected     int64            `json:"rejected"`
	Reencoded    int64            `json:"reencoded"`
	NotEncodable int64            `json:"not_encodable"`
	Distinct     int64            `json:"distinct"`
	MaxDelta     map[string]int64 `json:"max_delta"`
	MaxDeltaLen  map[string]int   `json:"max_delta_len"`
	MaxExcess    map[string]int64 `json:"max_excess_over_64len"` // max(delta - 64*len)
	PerCodec     map[string]int64 `json:"per_codec"`
	Violations   []childViolation `json:"violations"`
	Seeds        int              `json:"seeds"`
	RlimitSet    bool             `json:"rlimit_set"`
}

// ---------------------------------------------------------------------------------------------
// input generation (deterministic from the spec)

type seedEnc struct {
	shape string
	cbor  []byte
	zstd  []byte
	items []cborItem // headers of cbor (small seeds only)
}

func robustSeeds(t *typeDesc, r *rand.Rand, nHeavy int) []seedEnc {
	var out []seedEnc
	add := func(shape string) {
		v := t.gen(r, shape)
		b, err := t.enc(v)
		if err != nil {
			return
		}
		s := seedEnc{shape: shape, cbor: append([]byte(nil), b...)}
		if z, err := t.zEnc(v); err == nil {
			s.zstd = append([]byte(nil), z...)
		}
		if len(s.cbor) <= 32<<10 {
			s.items, _ = walkCBOR(s.cbor)
		}
		out = append(out, s)
	}
	for _, sh := range t.smallShapes {
		for k := 0; k < 3; k++ {
			add(sh)
		}
	}
	// one or two boundary-size values (sampled, not exhaustive)
	heavy := 0
	for _, sh := range t.shapes {
		if shapeWeight(sh) >= 1 && heavy < nHeavy && !strings.Contains(sh, "2MiB") {
			add(sh)
			heavy++
		}
	}
	return out
}

var interesting = []byte{0x00, 0x01, 0x17, 0x18, 0x19, 0x1a, 0x1b, 0x1f, 0x20, 0x3b, 0x40, 0x58, 0x59, 0x5a, 0x5b, 0x5f, 0x7f, 0x80, 0x84, 0x98, 0x99, 0x9a, 0x9b, 0x9f, 0xa0, 0xbb, 0xbf, 0xd8, 0x2a, 0xdb, 0xf4, 0xf5, 0xf6, 0xf7, 0xfb, 0xff}

var interestingArgs = []uint64{0, 1, 23, 24, 32, 33, 48, 49, 96, 97, 128, 129, 255, 256, 760, 761, 8192, 8193, 65535, 65536, 1 << 20, 2 << 20, 2<<20 + 1, 1 << 24, 1<<31 - 1, 1 << 31, 1 << 32, 1 << 48, 1<<63 - 1, 1 << 63, 1<<64 - 1}

// mutate applies 1..4 stacked mutations to a copy of b.
func mutate(r *rand.Rand, b []byte, items []cborItem, others []seedEnc) []byte {
	out := append([]byte(nil), b...)
	// structure-aware operations first (offsets are still valid)
	if len(items) > 0 && r.Intn(2) == 0 {
		it := items[r.Intn(len(items))]
		switch r.Intn(4) {
		case 0: // header with a random interesting argument, random width
			out = replaceHeader(out, it, cborHeader(it.maj, interestingArgs[r.Intn(len(interestingArgs))], []int{0, 0, 1, 2, 4, 8}[r.Intn(6)]))
		case 1: // other major type, same argument
			out = replaceHeader(out, it, cborHeader(byte(r.Intn(8)), it.arg, 0))
		case 2: // replace the whole item by an item of another valid encoding (type confusion)
			osd := others[r.Intn(len(others))]
			o := osd.cbor
			if oi := osd.items; len(oi) > 0 {
				x := oi[r.Intn(len(oi))]
				if x.end-x.off < 4096 {
					n := append([]byte(nil), out[:it.off]...)
					n = append(n, o[x.off:x.end]...)
					out = append(n, out[it.end:]...)
				}
			}
		default: // drop or duplicate an item
			if r.Intn(2) == 0 {
				out = append(append([]byte(nil), out[:it.off]...), out[it.end:]...)
			} else if it.end-it.off < 4096 {
				n := append([]byte(nil), out[:it.end]...)
				n = append(n, out[it.off:it.end]...)
				out = append(n, out[it.end:]...)
			}
		}
	}
	for k := r.Intn(4); k >= 0 && len(out) > 0; k-- {
		p := r.Intn(len(out))
		switch r.Intn(8) {
		case 0:
			out[p] ^= 1 << uint(r.Intn(8))
		case 1:
			out[p] = interesting[r.Intn(len(interesting))]
		case 2:
			out[p] = byte(r.Intn(256))
		case 3: // insert
			ins := randBytes(r, 1+r.Intn(8))
			if r.Intn(2) == 0 {
				for i := range ins {
					ins[i] = interesting[r.Intn(len(interesting))]
				}
			}
			out = append(out[:p:p], append(ins, out[p:]...)...)
		case 4: // delete
			q := min(len(out), p+1+r.Intn(8))
			out = append(out[:p:p], out[q:]...)
		case 5: // truncate
			out = out[:p]
		case 6: // overwrite a big-endian integer
			v := interestingArgs[r.Intn(len(interestingArgs))]
			var w [8]byte
			binary.BigEndian.PutUint64(w[:], v)
			n := []int{1, 2, 4, 8}[r.Intn(4)]
			copy(out[p:], w[8-n:])
		default: // copy a chunk over another place
			q := r.Intn(len(out))
			n := min(1+r.Intn(16), len(out)-p, len(out)-q)
			copy(out[p:p+n], append([]byte(nil), out[q:q+n]...))
		}
	}
	return out
}

// zstd frames written by hand from RFC 8878 (no encoder involved).
func zFrame(singleSegment bool, windowDesc byte, fcs *uint64, fcsBytes int, blocks [][]byte) []byte {
	out := []byte{0x28, 0xB5, 0x2F, 0xFD}
	var fhd byte
	switch fcsBytes {
	case 2:
		fhd |= 1 << 6
	case 4:
		fhd |= 2 << 6
	case 8:
		fhd |= 3 << 6
	}
	if singleSegment {
		fhd |= 1 << 5
	}
	out = append(out, fhd)
	if !singleSegment {
		out = append(out, windowDesc)
	}
	if fcs != nil {
		var w [8]byte
		binary.LittleEndian.PutUint64(w[:], *fcs)
		out = append(out, w[:fcsBytes]...)
	}
	for _, b := range blocks {
		out = append(out, b...)
	}
	return out
}

func zBlockHdr(last bool, typ, size int) []byte {
	v := uint32(size)<<3 | uint32(typ)<<1
	if last {
		v |= 1
	}
	return []byte{byte(v), byte(v >> 8), byte(v >> 16)}
}

func zRLE(last bool, size int, b byte) []byte { return append(zBlockHdr(last, 1, size), b) }
func zRaw(last bool, data []byte) []byte      { return append(zBlockHdr(last, 0, len(data)), data...) }

func rleBlocks(n, size int, b byte) [][]byte {
	out := make([][]byte, n)
	for i := range out {
		out[i] = zRLE(i == n-1, size, b)
	}
	return out
}

func u64p(v uint64) *uint64 { return &v }

// zbombs: frames expanding past the 1 MiB cap, frames with a lying content size, huge windows.
func zbombs(valid []byte, emit func(label string, b []byte) bool) {
	const blk = 128 << 10
	type fr struct {
		l string
		b []byte
	}
	var frames []fr
	add := func(l string, b []byte) { frames = append(frames, fr{l, b}) }
	for _, fill := range []byte{0x00, 0x80, 0x9f, 0xff} {
		f := fmt.Sprintf("/fill=%02x", fill)
		// window 1 MiB (descriptor 0x00 = 1 KiB ... exponent e -> 1<<(10+e)); 0x50 = 1 MiB
		add("window1MiB/rle=9x128KiB"+f, zFrame(false, 0x50, nil, 0, rleBlocks(9, blk, fill)))
		add("window1MiB/rle=16x128KiB"+f, zFrame(false, 0x50, nil, 0, rleBlocks(16, blk, fill)))
		add("window1MiB/rle=8192x128KiB(1GiB)"+f, zFrame(false, 0x50, nil, 0, rleBlocks(8192, blk, fill)))
		add("window1MiB/rle=65536x128KiB(8GiB)"+f, zFrame(false, 0x50, nil, 0, rleBlocks(65536, blk, fill)))
		add("window8MiB/rle=16x128KiB"+f, zFrame(false, 0x68, nil, 0, rleBlocks(16, blk, fill)))
		add("window2GiB/rle=16x128KiB"+f, zFrame(false, 0xA8, nil, 0, rleBlocks(16, blk, fill)))
		add("windowMax/rle=1x128KiB"+f, zFrame(false, 0xFF, nil, 0, rleBlocks(1, blk, fill)))
		add("window256KiB/rle=8x128KiB(exactly1MiB)"+f, zFrame(false, 0x40, nil, 0, rleBlocks(8, blk, fill)))
		add("window256KiB/rle=8x128KiB+1"+f, zFrame(false, 0x40, nil, 0, append(rleBlocks(8, blk, fill)[:7], zRLE(false, blk, fill), zRLE(true, 1, fill))))
		// lying content sizes
		add("fcs=100/actual=2MiB"+f, zFrame(true, 0, u64p(100), 8, rleBlocks(16, blk, fill)))
		add("fcs=1MiB/actual=2MiB"+f, zFrame(true, 0, u64p(1<<20), 8, rleBlocks(16, blk, fill)))
		add("fcs=1MiB/actual=1GiB"+f, zFrame(true, 0, u64p(1<<20), 8, rleBlocks(8192, blk, fill)))
		add("fcs=2^62/actual=16"+f, zFrame(true, 0, u64p(1<<62), 8, rleBlocks(1, 16, fill)))
		add("fcs=2^64-1/actual=16"+f, zFrame(true, 0, u64p(1<<64-1), 8, rleBlocks(1, 16, fill)))
		add("fcs=4GiB-1(4B)/actual=16"+f, zFrame(true, 0, u64p(1<<32-1), 4, rleBlocks(1, 16, fill)))
		add("fcs=1MiB+1/actual=1MiB+1"+f, zFrame(true, 0, u64p(1<<20+1), 8, append(rleBlocks(8, blk, fill)[:7], zRLE(false, blk, fill), zRLE(true, 1, fill))))
		add("fcs=0/actual=1MiB"+f, zFrame(true, 0, u64p(0), 8, rleBlocks(8, blk, fill)))
		add("fcs=16/actual=0"+f, zFrame(true, 0, u64p(16), 8, [][]byte{zRaw(true, nil)}))
		add("nofcs/window1KiB/rle=2MiB-in-one-block-header"+f, zFrame(false, 0x00, nil, 0, [][]byte{zRLE(true, 1<<21-1, fill)}))
		// many concatenated frames, each below the cap
		var cat []byte
		for i := 0; i < 64; i++ {
			cat = append(cat, zFrame(false, 0x50, nil, 0, rleBlocks(7, blk, fill))...)
		}
		add("64-frames-x-896KiB"+f, cat)
	}
	// skippable frame with a huge declared size, then nothing
	add("skippable/size=4GiB-1", []byte{0x50, 0x2A, 0x4D, 0x18, 0xff, 0xff, 0xff, 0xff})
	// the valid CBOR encoding carried in raw blocks: must be ACCEPTED (validates the frame writer)
	add("valid-cbor-in-raw-block", zFrame(true, 0, u64p(uint64(len(valid))), 8, [][]byte{zRaw(true, valid)}))
	add("valid-cbor-in-raw-block/fcs-too-small", zFrame(true, 0, u64p(uint64(len(valid))-1), 8, [][]byte{zRaw(true, valid)}))
	add("valid-cbor-in-raw-block/fcs-too-large", zFrame(true, 0, u64p(uint64(len(valid))+1), 8, [][]byte{zRaw(true, valid)}))
	// valid cbor followed by 1 MiB of padding in the same frame (exceeds cap only with padding)
	add("valid-cbor+1MiB-padding", zFrame(false, 0x50, nil, 0, append([][]byte{zRaw(false, valid)}, rleBlocks(8, blk, 0)...)))
	for _, f := range frames {
		if !emit(f.l, f.b) {
			return
		}
		// and every frame cut in the middle / at the last byte
		if len(f.b) > 8 {
			if !emit(f.l+"/cut-half", f.b[:len(f.b)/2]) || !emit(f.l+"/cut-last", f.b[:len(f.b)-1]) {
				return
			}
		}
	}
}

// forEachInput enumerates the inputs of one job.
func forEachInput(spec childSpec, t *typeDesc, yield func(codec, label string, in []byte) bool) int {
	r := newRng(spec.Seed)
	nHeavy := spec.Heavy
	if spec.Family == "mutate" {
		nHeavy = 0
	}
	seeds := robustSeeds(t, r, nHeavy)
	switch spec.Family {
	case "trunc":
		for si, s := range seeds {
			for _, cd := range []string{"cbor", "zstd"} {
				e := s.cbor
				if cd == "zstd" {
					e = s.zstd
				}
				if e == nil {
					continue
				}
				step := 1
				if len(e) > maxExhaustive {
					step = len(e)/max(spec.BigCuts, 1) + 1
				}
				for n := 0; n < len(e); n += step {
					cut := n
					if step > 1 && n > 0 {
						cut = n - r.Intn(step) // jitter so that sampled cuts are not aligned
					}
					if !yield(cd, fmt.Sprintf("seed%d(%s,%dB)/trunc=%d", si, s.shape, len(e), cut), e[:cut]) {
						return len(seeds)
					}
				}
				// one byte too many
				if !yield(cd, fmt.Sprintf("seed%d(%s,%dB)/trailing-byte", si, s.shape, len(e)), append(append([]byte(nil), e...), 0x00)) {
					return len(seeds)
				}
			}
			// zstd of truncated cbor (sampled)
			if s.zstd != nil && len(s.cbor) <= maxExhaustive {
				for n := 0; n < len(s.cbor); n += 5 {
					if !yield("zstd", fmt.Sprintf("seed%d(%s)/zstd(raw-block(trunc=%d))", si, s.shape, n), zFrame(true, 0, u64p(uint64(n)), 8, [][]byte{zRaw(true, s.cbor[:n])})) {
						return len(seeds)
					}
				}
			}
		}
	case "header":
		for si, s := range seeds {
			var pick func(i, n int) bool
			if len(s.cbor) > maxExhaustive {
				rr := newRng(spec.Seed + int64(si))
				pick = func(i, n int) bool { return i < 3 || rr.Intn(n) < spec.BigItems }
			}
			k := 0
			stop := false
			headerMutations(s.cbor, pick, func(label string, b []byte) bool {
				k++
				if !yield("cbor", fmt.Sprintf("seed%d(%s,%dB)/%s", si, s.shape, len(s.cbor), label), b) {
					stop = true
					return false
				}
				if k%4 == 0 && len(b) < 128<<10 { // through the zstd wrapper as well (raw-block frame)
					if !yield("zstd", fmt.Sprintf("seed%d(%s)/zstd(raw-block(%s))", si, s.shape, label), zFrame(true, 0, u64p(uint64(len(b))), 8, [][]byte{zRaw(true, b)})) {
						stop = true
						return false
					}
				}
				return true
			})
			if stop {
				return len(seeds)
			}
		}
	case "mutate":
		type ws struct {
			s     seedEnc
			items []cborItem
		}
		var pool []ws
		for _, s := range seeds {
			if len(s.cbor) > 32<<10 {
				continue
			}
			it, _ := walkCBOR(s.cbor)
			pool = append(pool, ws{s, it})
		}
		for i := 0; i < spec.Count; i++ {
			w := pool[r.Intn(len(pool))]
			switch {
			case i%4 != 3:
				if !yield("cbor", fmt.Sprintf("mut#%d(%s)", i, w.s.shape), mutate(r, w.s.cbor, w.items, seeds)) {
					return len(seeds)
				}
			case i%8 == 3 && w.s.zstd != nil: // mutate the compressed frame itself
				if !yield("zstd", fmt.Sprintf("mut#%d(%s)/frame", i, w.s.shape), mutate(r, w.s.zstd, nil, seeds)) {
					return len(seeds)
				}
			default: // mutated cbor inside a well-formed frame
				m := mutate(r, w.s.cbor, w.items, seeds)
				if !yield("zstd", fmt.Sprintf("mut#%d(%s)/zstd(raw-block)", i, w.s.shape), zFrame(true, 0, u64p(uint64(len(m))), 8, [][]byte{zRaw(true, m)})) {
					return len(seeds)
				}
			}
		}
	case "zbomb":
		zbombs(seeds[0].cbor, func(label string, b []byte) bool { return yield("zstd", label, b) })
		// real frames of the boundary-size values must be accepted, and amplify within bound
		for si, s := range seeds {
			if s.zstd != nil {
				if !yield("zstd", fmt.Sprintf("seed%d(%s,%dB->%dB)/valid-frame", si, s.shape, len(s.zstd), len(s.cbor)), s.zstd) {
					break
				}
			}
		}
	}
	return len(seeds)
}

// ---------------------------------------------------------------------------------------------
// child

func safeDecode(t *typeDesc, codec string, in []byte) (v any, err error, panicked any) {
	defer func() {
		if p := recover(); p != nil {
			panicked = p
		}
	}()
	v = t.newv()
	if codec == "zstd" {
		err = t.zDec(in, v)
	} else {
		err = t.cDec(in, v)
	}
	return v, err, nil
}

func childMain(specJSON string) int {
	var spec childSpec
	if err := json.Unmarshal([]byte(specJSON), &spec); err != nil {
		fmt.Println("child: bad spec", err)
		return 3
	}
	if pf := os.Getenv("VERIF_C14_CHILD_PROF"); pf != "" { // development aid
		if f, err := os.Create(pf); err == nil {
			_ = pprof.StartCPUProfile(f)
			defer pprof.StopCPUProfile()
		}
	}
	res := childResult{MaxDelta: map[string]int64{}, MaxDeltaLen: map[string]int{}, MaxExcess: map[string]int64{}, PerCodec: map[string]int64{}}
	t := typeByName(spec.Type)
	// warm up both codecs BEFORE the address-space cap (runtime/thread start-up is not under test)
	_, _, _ = safeDecode(t, "cbor", []byte{0x80})
	_, _, _ = safeDecode(t, "zstd", []byte{0x28, 0xB5, 0x2F, 0xFD, 0x20, 0x01, 0x09, 0x00, 0x00, 0x80})
	if spec.Rlimit > 0 {
		lim := syscall.Rlimit{Cur: spec.Rlimit, Max: spec.Rlimit}
		if err := syscall.Setrlimit(syscall.RLIMIT_AS, &lim); err == nil {
			res.RlimitSet = true
		}
	}
	// few collections: a GC empties the 1 MiB buffer pool of internal/encoding, and refilling it
	// dominates the run time (TotalAlloc, the measured quantity, does not depend on GC pacing)
	debug.SetGCPercent(400)
	ballast := make([]byte, 32<<20)
	defer runtime.KeepAlive(ballast)
	bf, err := os.OpenFile(spec.Breadcrumb, os.O_CREATE|os.O_WRONLY|os.O_TRUNC, 0o644)
	if err != nil {
		fmt.Println("child: breadcrumb", err)
		return 3
	}
	defer bf.Close()
	seen := map[uint64]struct{}{}
	var idx int64 = -1
	crumb := make([]byte, 0, 1<<16)
	var ms runtime.MemStats
	res.Seeds = forEachInput(spec, t, func(codec, label string, in []byte) bool {
		idx++
		if idx < spec.From {
			return true
		}
		// breadcrumb: magic, index, codec, label, input (length-prefixed), written before decoding
		crumb = crumb[:0]
		crumb = append(crumb, "C14B"...)
		crumb = binary.BigEndian.AppendUint64(crumb, uint64(idx))
		crumb = append(crumb, byte(len(codec)))
		crumb = append(crumb, codec...)
		crumb = binary.BigEndian.AppendUint16(crumb, uint16(len(label)))
		crumb = append(crumb, label...)
		crumb = binary.BigEndian.AppendUint32(crumb, uint32(len(in)))
		crumb = append(crumb, in...)
		if _, err := bf.WriteAt(crumb, 0); err != nil {
			fmt.Println("child: breadcrumb write", err)
			os.Exit(3)
		}
		runtime.ReadMemStats(&ms)
		before := ms.TotalAlloc
		v, err, panicked := safeDecode(t, codec, in)
		runtime.ReadMemStats(&ms)
		delta := int64(ms.TotalAlloc - before)
		res.Evaluated++
		res.PerCodec[codec]++
		h := fnv.New64a()
		h.Write([]byte(codec))
		h.Write(in)
		seen[h.Sum64()] = struct{}{}
		if delta > res.MaxDelta[codec] {
			res.MaxDelta[codec], res.MaxDeltaLen[codec] = delta, len(in)
		}
		if ex := delta - allocPerByte*int64(len(in)); ex > res.MaxExcess[codec] {
			res.MaxExcess[codec] = ex
		}
		viol := func(kind, detail string) {
			if len(res.Violations) < 6 {
				hx := in
				if len(hx) > 256<<10 {
					hx = hx[:256<<10]
				}
				res.Violations = append(res.Violations, childViolation{Kind: kind, Codec: codec, Label: label, Index: idx, InputLen: len(in), InputHex: hex.EncodeToString(hx), Detail: detail})
			}
		}
		if panicked != nil {
			viol("panic", fmt.Sprint(panicked))
			return true
		}
		if uint64(delta) > allocBound(codec, len(in)) {
			viol("alloc", fmt.Sprintf("TotalAlloc grew by %d bytes decoding %d input bytes (bound %d)", delta, len(in), allocBound(codec, len(in))))
		}
		if err != nil {
			res.Rejected++
			return true
		}
		res.Accepted++
		// accepted input: the decoded value must itself round-trip (decode(encode(x)) == x)
		func() {
			defer func() {
				if p := recover(); p != nil {
					viol("panic-reencode", fmt.Sprint(p))
				}
			}()
			e1, err := t.enc(v)
			if err != nil {
				res.NotEncodable++
				return
			}
			e1 = append([]byte(nil), e1...)
			x2 := t.newv()
			if err := t.dec(e1, x2); err != nil {
				viol("reencode", "value decoded from this input encodes to bytes its own decoder rejects: "+err.Error())
				return
			}
			if e2, err := t.enc(x2); err != nil || string(e2) != string(e1) {
				viol("reencode", "value decoded from this input does not round-trip (encode(decode(encode(x))) != encode(x))")
				return
			}
			res.Reencoded++
		}()
		return true
	})
	res.Distinct = int64(len(seen))
	res.Done = true
	b, _ := json.Marshal(res)
	if err := os.WriteFile(spec.Out, b, 0o644); err != nil {
		fmt.Println("child: out", err)
		return 3
	}
	return 0
}

// ---------------------------------------------------------------------------------------------
// parent

type crumbInfo struct {
	idx   int64
	codec string
	label string
	input []byte
	ok    bool
}

func readCrumb(path string) (c crumbInfo) {
	b, err := os.ReadFile(path)
	if err != nil || len(b) < 13 || string(b[:4]) != "C14B" {
		return
	}
	p := 4
	c.idx = int64(binary.BigEndian.Uint64(b[p:]))
	p += 8
	n := int(b[p])
	p++
	if p+n+2 > len(b) {
		return
	}
	c.codec = string(b[p : p+n])
	p += n
	n = int(binary.BigEndian.Uint16(b[p:]))
	p += 2
	if p+n+4 > len(b) {
		return
	}
	c.label = string(b[p : p+n])
	p += n
	n = int(binary.BigEndian.Uint32(b[p:]))
	p += 4
	if p+n > len(b) {
		return
	}
	c.input = b[p : p+n]
	c.ok = true
	return
}

func runRobust(run *vkit.Run) {
	scratch, cleanup := run.Scratch()
	defer cleanup()
	exe, err := os.Executable()
	if err != nil {
		run.Inconclusive("harness-error")
		return
	}
	var jobs []childSpec
	mutPerShard := 20000
	shards := run.N(2, 40)
	for _, t := range types() {
		for _, fam := range []string{"trunc", "header"} {
			jobs = append(jobs, childSpec{Type: t.name, Family: fam})
		}
		for s := 0; s < shards; s++ {
			jobs = append(jobs, childSpec{Type: t.name, Family: "mutate", Count: mutPerShard})
		}
	}
	for _, tn := range []string{"gpbft.GMessage", "gpbft.PartialGMessage", "certs.FinalityCertificate", "chainexchange.Message", "gpbft.ECChain"} {
		jobs = append(jobs, childSpec{Type: tn, Family: "zbomb"})
	}
	for i := range jobs {
		jobs[i].Job = i
		jobs[i].Seed = run.SubSeed(int64(subRobust)*caseMul + int64(i))
		jobs[i].Breadcrumb = filepath.Join(scratch, fmt.Sprintf("job%d.crumb", i))
		jobs[i].Out = filepath.Join(scratch, fmt.Sprintf("job%d.json", i))
		jobs[i].Rlimit = childRlimitAS
		jobs[i].Heavy, jobs[i].BigCuts, jobs[i].BigItems = run.N(1, 2), run.N(250, 1500), run.N(6, 24)
	}
	// heavy jobs first
	order := make([]int, len(jobs))
	for i := range order {
		order[i] = i
	}
	sort.SliceStable(order, func(a, b int) bool { return jobs[order[a]].Family != "mutate" && jobs[order[b]].Family == "mutate" })

	var mu sync.Mutex
	maxDelta := map[string]int64{}
	maxExcess := map[string]int64{}
	famSeen := map[string]int64{}
	perType := map[string]int64{}
	var rlimitSet, children int64
	body := func(oi int) {
		spec := jobs[order[oi]]
		caseID := int64(subRobust)*caseMul + int64(spec.Job)
		if run.Case >= 0 && run.Case != caseID {
			return
		}
		jobStart := time.Now()
		defer func() { // log only
			if d := time.Since(jobStart); d > 5*time.Second {
				fmt.Printf("[c14] robust job %d %s/%s took %.1fs\n", spec.Job, spec.Type, spec.Family, d.Seconds())
			}
		}()
		for attempt := 0; attempt < 4; attempt++ {
			_ = os.Remove(spec.Out)
			_ = os.Remove(spec.Breadcrumb)
			sj, _ := json.Marshal(spec)
			cmd := exec.Command(exe, "-test.run", "^TestCheck$", "-test.timeout", "0")
			cmd.Env = append(os.Environ(), childEnv+"="+string(sj), "GOMAXPROCS=1", "GORACE=", "GOTRACEBACK=single")
			var outb strings.Builder
			cmd.Stdout, cmd.Stderr = &outb, &outb
			done := make(chan error, 1)
			if err := cmd.Start(); err != nil {
				run.Inconclusive("harness-error")
				fmt.Println("cannot start child:", err)
				return
			}
			go func() { done <- cmd.Wait() }()
			var werr error
			timedOut := false
			select {
			case werr = <-done:
			case <-time.After(20 * time.Minute): // generous internal watchdog -> inconclusive, never a verdict
				_ = cmd.Process.Kill()
				werr = <-done
				timedOut = true
			}
			mu.Lock()
			children++
			mu.Unlock()
			var res childResult
			if b, err := os.ReadFile(spec.Out); err == nil {
				_ = json.Unmarshal(b, &res)
			}
			if timedOut {
				run.Inconclusive("watchdog")
				fmt.Printf("child for job %d (%s/%s) exceeded the internal watchdog\n", spec.Job, spec.Type, spec.Family)
				return
			}
			if werr == nil && res.Done {
				mu.Lock()
				for k, v := range res.MaxDelta {
					if v > maxDelta[k] {
						maxDelta[k] = v
					}
				}
				for k, v := range res.MaxExcess {
					if v > maxExcess[k] {
						maxExcess[k] = v
					}
				}
				famSeen[spec.Family] += res.Evaluated
				for k, v := range res.MaxDelta {
					tk := "robust.max_alloc_delta_bytes_" + k + "_" + spec.Type
					if v > perType[tk] {
						perType[tk] = v
					}
				}
				if res.RlimitSet {
					rlimitSet++
				}
				mu.Unlock()
				if spec.Type == "gpbft.GMessage" && (spec.Family == "trunc" || spec.Family == "zbomb") {
					run.Sample(map[string]any{"sub": "robust", "type": spec.Type, "family": spec.Family, "inputs": res.Evaluated, "accepted": res.Accepted,
						"rejected": res.Rejected, "distinct_inputs": res.Distinct, "max_alloc_delta": res.MaxDelta, "seeds": res.Seeds})
				}
				run.Eval(res.Evaluated)
				run.Count("robust.inputs", res.Evaluated)
				run.Count("robust.inputs_"+spec.Family, res.Evaluated)
				for k, v := range res.PerCodec {
					run.Count("robust.inputs_codec_"+k, v)
				}
				run.Count("robust.accepted", res.Accepted)
				run.Count("robust.rejected", res.Rejected)
				run.Count("robust.accepted_values_reencoded_ok", res.Reencoded)
				run.Count("robust.accepted_values_not_encodable", res.NotEncodable)
				for k := int64(0); k < res.Distinct; k++ {
					run.DistinctHash(uint64(run.SubSeed(caseID*7919+k)) ^ uint64(spec.Job)<<40)
				}
				for _, v := range res.Violations {
					sig := fmt.Sprintf("C14 robust: %s decoder (%s) %s on a %s-family input", spec.Type, v.Codec, map[string]string{
						"panic": "panicked", "alloc": "allocated beyond bound", "reencode": "accepted a value that does not round-trip", "panic-reencode": "produced a value whose encoding panics"}[v.Kind], spec.Family)
					run.Violation(sig, map[string]any{"case": caseID, "type": spec.Type, "family": spec.Family, "codec": v.Codec, "label": v.Label, "index": v.Index,
						"input_len": v.InputLen, "input_hex": v.InputHex, "detail": v.Detail})
				}
				if spec.Family == "zbomb" && res.Accepted < 1 {
					run.Violation(fmt.Sprintf("C14 robust: %s zstd decoder rejected every frame including the hand-written valid one (frame writer or decoder broken)", spec.Type), map[string]any{"case": caseID})
				}
				return
			}
			// child died (fatal error, out of memory under RLIMIT_AS, killed) or harness failure
			c := readCrumb(spec.Breadcrumb)
			tail := outb.String()
			if len(tail) > 1500 {
				tail = tail[:700] + "\n...\n" + tail[len(tail)-700:]
			}
			if !c.ok {
				run.Inconclusive("harness-error")
				fmt.Printf("child for job %d (%s/%s) failed before its first input: %v\n%s\n", spec.Job, spec.Type, spec.Family, werr, tail)
				return
			}
			first := strings.SplitN(strings.TrimSpace(tail), "\n", 2)[0]
			if len(first) > 160 {
				first = first[:160]
			}
			hx := c.input
			if len(hx) > 256<<10 {
				hx = hx[:256<<10]
			}
			run.Violation(fmt.Sprintf("C14 robust: %s decoder (%s) killed the process on a %s-family input (%s)", spec.Type, c.codec, spec.Family, deathClass(tail)),
				map[string]any{"case": caseID, "type": spec.Type, "family": spec.Family, "codec": c.codec, "label": c.label, "index": c.idx,
					"input_len": len(c.input), "input_hex": hex.EncodeToString(hx), "input_sha256": fmt.Sprintf("%x", sha256.Sum256(c.input)), "exit": fmt.Sprint(werr), "first_line": first, "child_output": tail})
			run.Count("robust.child_deaths", 1)
			spec.From = c.idx + 1 // resume after the killing input
		}
	}
	w := runtime.GOMAXPROCS(0)
	vkit.Parallel(len(order), w, body)
	for k, v := range maxDelta {
		run.Max("robust.max_alloc_delta_bytes_"+k, v)
	}
	for k, v := range maxExcess {
		run.Max("robust.max_alloc_minus_64len_bytes_"+k, v)
	}
	run.SetExtra("robust_max_alloc_delta_per_type", perType)
	run.Count("robust.children", children)
	run.Count("robust.children_with_rlimit_as", rlimitSet)
	run.SetExtra("robust_alloc_bound", map[string]any{"cbor": "8 MiB + 64*len(input)", "zstd": "12 MiB + 64*len(input)", "rlimit_as_bytes": childRlimitAS})
	if run.Case < 0 {
		if rlimitSet < children || famSeen["trunc"] < 20000 || famSeen["header"] < 20000 || famSeen["mutate"] < int64(len(types())*shards*mutPerShard)*9/10 || famSeen["zbomb"] < 100 {
			run.Inconclusive("too-few-events")
		}
	}
}

// deathClass gives a stable one-word reason from the child's last output.
func deathClass(out string) string {
	switch {
	case strings.Contains(out, "out of memory") || strings.Contains(out, "cannot allocate memory"):
		return "fatal error: out of memory under RLIMIT_AS"
	case strings.Contains(out, "stack overflow") || strings.Contains(out, "stack exceeds"):
		return "fatal error: stack overflow"
	case strings.Contains(out, "fatal error:"):
		return "fatal error"
	case strings.Contains(out, "panic:"):
		return "unrecovered panic"
	}
	return "killed"
}

func shortHex(h string) string {
	if len(h) > 64 {
		return h[:64] + fmt.Sprintf("..(%dB)", len(h)/2)
	}
	return h
}
