package c14

import (
	"bytes"
	"crypto/sha256"
	"encoding/hex"
	"fmt"
	"math/rand"
	"runtime"
	"strings"

	"github.com/filecoin-project/go-bitfield"
	"github.com/filecoin-project/go-f3/certexchange"
	"github.com/filecoin-project/go-f3/certstore"
	"github.com/filecoin-project/go-f3/chainexchange"
	"github.com/filecoin-project/go-f3/gpbft"
	"github.com/filecoin-project/go-f3/verifh/vkit"
)

const zstdCap = 1 << 20 // documented decode cap of internal/encoding (1 MiB, the GossipSub message limit)

func hexHead(b []byte) string {
	if len(b) > 96 {
		return hex.EncodeToString(b[:96]) + fmt.Sprintf("...(%d bytes)", len(b))
	}
	return hex.EncodeToString(b)
}

func shapeWeight(shape string) int { // 0 light, 1 medium, 2 heavy
	switch {
	case strings.Contains(shape, "8192") || strings.Contains(shape, "2MiB") || strings.Contains(shape, "k760") || strings.Contains(shape, "k759") && strings.Contains(shape, "n127"):
		return 2
	case strings.Contains(shape, "n127") || strings.Contains(shape, "n128") || strings.Contains(shape, "n129"):
		return 1
	}
	return 0
}

// checkValue runs all round-trip / determinism checks on one generated value; it returns the
// canonical encoding and a list of failed checks.
func checkValue(t *typeDesc, v any, r *rand.Rand, count func(string, int64)) (enc []byte, fails []string, skipped string) {
	fail := func(f string, a ...any) { fails = append(fails, fmt.Sprintf(f, a...)) }
	b1, err := t.enc(v)
	if err != nil {
		return nil, nil, "encode-error: " + err.Error()
	}
	b1 = append([]byte(nil), b1...)
	b2, err2 := t.enc(v)
	if err2 != nil || !bytes.Equal(b1, b2) {
		fail("encode twice gives different bytes (MarshalCBOR)")
	}
	cb, err := t.cEnc(v)
	if err != nil || !bytes.Equal(cb, b1) {
		fail("encoding.CBOR.Encode differs from MarshalCBOR (err=%v)", err)
	}
	// decode into a fresh target
	y := t.newv()
	if err := t.dec(b1, y); err != nil {
		fail("decode(encode(x)) returned error: %v", err)
		return b1, fails, ""
	}
	if !t.eq(v, y) {
		fail("decode(encode(x)) is not field-wise equal to x")
	}
	if b3, err := t.enc(y); err != nil || !bytes.Equal(b3, b1) {
		fail("encode(decode(b)) != b for canonical b (err=%v)", err)
	}
	// through the CBOR wrapper
	y2 := t.newv()
	if err := t.cDec(b1, y2); err != nil || !t.eq(v, y2) {
		fail("encoding.CBOR.Decode(encode(x)) != x (err=%v)", err)
	}
	// decode into a target that already holds another decoded value
	w := t.gen(r, t.smallShapes[r.Intn(len(t.smallShapes))])
	if wb, err := t.enc(w); err == nil {
		d := t.newv()
		if err := t.dec(wb, d); err == nil {
			if t.derived != nil {
				_ = t.derived(d) // populate whatever the object caches about its first content
			}
			if err := t.dec(b1, d); err != nil {
				fail("decode into a used target returned error: %v", err)
			} else if b4, err := t.enc(d); err != nil || !bytes.Equal(b4, b1) || !t.eq(v, d) {
				fail("decode(encode(x)) into a target that already held another value is not equal to x")
			} else if t.derived != nil && t.derived(d) != t.derived(y) {
				fail("value decoded into a target that already held (and had derived state read from) another value reports the derived state of the previous content (e.g. the old chain key)")
			}
			count("codec.used_target_decodes", 1)
		}
	}
	// zstd
	z1, zerr := t.zEnc(v)
	switch {
	case len(b1) > zstdCap:
		if zerr == nil {
			fail("encoding.ZSTD.Encode accepted a value whose CBOR form (%d bytes) exceeds the 1 MiB cap", len(b1))
		}
		count("codec.zstd_encode_rejected_oversize", 1)
	case zerr != nil:
		fail("encoding.ZSTD.Encode failed for a %d-byte value: %v", len(b1), zerr)
	default:
		z1 = append([]byte(nil), z1...)
		z2, err := t.zEnc(v)
		if err != nil || !bytes.Equal(z1, z2) {
			fail("encoding.ZSTD.Encode twice gives different bytes")
		}
		y3 := t.newv()
		if err := t.zDec(z1, y3); err != nil {
			fail("encoding.ZSTD.Decode(Encode(x)) returned error: %v (cbor %d bytes, frame %d bytes)", err, len(b1), len(z1))
		} else {
			if !t.eq(v, y3) {
				fail("encoding.ZSTD.Decode(Encode(x)) is not field-wise equal to x")
			}
			if b5, err := t.enc(y3); err != nil || !bytes.Equal(b5, b1) {
				fail("cbor(zstd round trip of x) != cbor(x)")
			}
			if z3, err := t.zEnc(y3); err != nil || !bytes.Equal(z3, z1) {
				fail("zstd encode(decode(z)) != z for canonical z")
			}
		}
		count("codec.zstd_roundtrips", 1)
	}
	return b1, fails, ""
}

// ---------------------------------------------------------------------------------------------
// documented per-field limits: at the limit decodes, one past the limit is rejected

type limitCase struct {
	typ, field string
	limit      int
	array      bool // array element count (else byte-string length)
	fixed      bool // exact length required (limit-1 is rejected as well)
	mk         func(r *rand.Rand) any
}

var marker = byte(0xA5)

func mbytes(n int) []byte { return bytes.Repeat([]byte{marker}, n) }

func m32() (o [32]byte) {
	copy(o[:], mbytes(32))
	return
}

func smallChainWithKey(r *rand.Rand, n int) *gpbft.ECChain {
	c := genChain(r, 2, "", true)
	c.TipSets[1].Key = mbytes(n)
	return c
}

func bigChain(r *rand.Rand) *gpbft.ECChain { return genChain(r, 8192, "k1", false) }

func smallMsg(r *rand.Rand) *gpbft.GMessage {
	m := genGMessage(r, "n1/just-n1")
	m.Signature, m.Ticket, m.Justification.Signature = randBytes(r, 90), randBytes(r, 80), randBytes(r, 70)
	return m
}

func limitCases() []limitCase {
	return []limitCase{
		{"gpbft.TipSet", "Key", 760, false, false, func(r *rand.Rand) any { t := genTipSet(r, 1); t.Key = mbytes(760); return t }},
		{"gpbft.TipSet", "Commitments", 32, false, true, func(r *rand.Rand) any { t := genTipSet(r, 5); t.Commitments = m32(); return t }},
		{"gpbft.ECChain", "TipSets[1].Key", 760, false, false, func(r *rand.Rand) any { return smallChainWithKey(r, 760) }},
		{"gpbft.ECChain", "TipSets", 8192, true, false, func(r *rand.Rand) any { return bigChain(r) }},
		{"gpbft.LegacyECChain", "elements", 8192, true, false, func(r *rand.Rand) any {
			c := bigChain(r)
			l := make(gpbft.LegacyECChain, len(c.TipSets))
			for i, ts := range c.TipSets {
				l[i] = *ts
			}
			return &l
		}},
		{"gpbft.SupplementalData", "Commitments", 32, false, true, func(r *rand.Rand) any { s := genSupp(r); s.Commitments = m32(); return &s }},
		{"gpbft.Payload", "Value.TipSets[1].Key", 760, false, false, func(r *rand.Rand) any { p := genPayload(r, "n1/k1"); p.Value = smallChainWithKey(r, 760); return &p }},
		{"gpbft.Payload", "SupplementalData.Commitments", 32, false, true, func(r *rand.Rand) any {
			p := genPayload(r, "n1/k1")
			p.SupplementalData.Commitments = m32()
			return &p
		}},
		{"gpbft.GMessage", "Signature", 96, false, false, func(r *rand.Rand) any { m := smallMsg(r); m.Signature = mbytes(96); return m }},
		{"gpbft.GMessage", "Ticket", 96, false, false, func(r *rand.Rand) any { m := smallMsg(r); m.Ticket = mbytes(96); return m }},
		{"gpbft.GMessage", "Justification.Signature", 96, false, false, func(r *rand.Rand) any { m := smallMsg(r); m.Justification.Signature = mbytes(96); return m }},
		{"gpbft.GMessage", "Vote.Value.TipSets[1].Key", 760, false, false, func(r *rand.Rand) any { m := smallMsg(r); m.Vote.Value = smallChainWithKey(r, 760); return m }},
		{"gpbft.Justification", "Signature", 96, false, false, func(r *rand.Rand) any { j := genJustification(r, "n1/k1"); j.Signature = mbytes(96); return j }},
		{"gpbft.PartialGMessage", "VoteValueKey", 32, false, true, func(r *rand.Rand) any {
			return &gpbft.PartialGMessage{GMessage: smallMsg(r), VoteValueKey: gpbft.ECChainKey(m32())}
		}},
		{"gpbft.PartialGMessage", "GMessage.Signature", 96, false, false, func(r *rand.Rand) any {
			m := smallMsg(r)
			m.Signature = mbytes(96)
			return &gpbft.PartialGMessage{GMessage: m, VoteValueKey: gpbft.ECChainKey(rand32(r, 2))}
		}},
		{"gpbft.PowerEntry", "PubKey", 48, false, false, func(r *rand.Rand) any { e := genPowerEntry(r); e.PubKey = mbytes(48); return &e }},
		{"gpbft.PowerEntries", "elements", 8192, true, false, func(r *rand.Rand) any { e := genPowerEntries(r, "e8192"); return &e }},
		{"gpbft.PowerEntries", "[1].PubKey", 48, false, false, func(r *rand.Rand) any {
			e := genPowerEntries(r, "e2")
			e[0].PubKey, e[1].PubKey = randBytes(r, 40), mbytes(48)
			return &e
		}},
		{"certs.PowerTableDelta", "SigningKey", 48, false, false, func(r *rand.Rand) any { d := genDelta(r); d.SigningKey = mbytes(48); return &d }},
		{"certs.PowerTableDiff", "elements", 8192, true, false, func(r *rand.Rand) any { d := genDiff(r, "e8192"); return &d }},
		{"certs.FinalityCertificate", "Signature", 2 << 20, false, false, func(r *rand.Rand) any { c := genCert(r, "n1/d1"); c.Signature = mbytes(2 << 20); return c }},
		{"certs.FinalityCertificate", "PowerTableDelta", 8192, true, false, func(r *rand.Rand) any {
			c := genCert(r, "n1/d1")
			c.Signers = bitfield.NewFromSet([]uint64{1})
			c.PowerTableDelta = genDiff(r, "e8192")
			return c
		}},
		{"certs.FinalityCertificate", "ECChain.TipSets", 8192, true, false, func(r *rand.Rand) any {
			c := genCert(r, "n1/d1")
			c.ECChain = bigChain(r)
			return c
		}},
		{"certs.FinalityCertificate", "ECChain.TipSets[1].Key", 760, false, false, func(r *rand.Rand) any {
			c := genCert(r, "n1/d1")
			c.ECChain = smallChainWithKey(r, 760)
			return c
		}},
		{"certs.FinalityCertificate", "SupplementalData.Commitments", 32, false, true, func(r *rand.Rand) any {
			c := genCert(r, "n1/d1")
			c.SupplementalData.Commitments = m32()
			return c
		}},
		{"certexchange.ResponseHeader", "PowerTable", 8192, true, false, func(r *rand.Rand) any {
			return &certexchange.ResponseHeader{PendingInstance: 1, PowerTable: genPowerEntries(r, "e8192")}
		}},
		{"chainexchange.Message", "Chain.TipSets", 8192, true, false, func(r *rand.Rand) any {
			return &chainexchange.Message{Instance: 3, Chain: bigChain(r), Timestamp: 7}
		}},
		{"chainexchange.Message", "Chain.TipSets[1].Key", 760, false, false, func(r *rand.Rand) any {
			return &chainexchange.Message{Instance: 3, Chain: smallChainWithKey(r, 760), Timestamp: 7}
		}},
		{"certstore.SnapshotHeader", "InitialPowerTable", 8192, true, false, func(r *rand.Rand) any {
			return &certstore.SnapshotHeader{Version: 1, InitialPowerTable: genPowerEntries(r, "e8192")}
		}},
	}
}

// resize crafts, from a valid encoding in which exactly one item has the limit length, the
// encoding of the same value with that item grown/shrunk by delta (bytes: marker bytes added or
// removed; arrays: last element duplicated or removed).
func resize(enc []byte, lc limitCase, delta int) ([]byte, error) {
	items, err := walkCBOR(enc)
	if err != nil {
		return nil, err
	}
	found := -1
	for i, it := range items {
		if lc.array {
			if it.maj == 4 && it.arg == uint64(lc.limit) {
				found = i
				break
			}
			continue
		}
		if it.maj == 2 && it.arg == uint64(lc.limit) {
			c := enc[it.off+it.hlen : it.end]
			if len(c) > 0 && c[0] == marker && bytes.Count(c, []byte{marker}) == len(c) {
				if found >= 0 {
					return nil, fmt.Errorf("ambiguous marker item")
				}
				found = i
			}
		}
	}
	if found < 0 {
		return nil, fmt.Errorf("limit item not found")
	}
	it := items[found]
	out := append([]byte(nil), enc[:it.off]...)
	out = append(out, cborHeader(it.maj, uint64(lc.limit+delta), 0)...)
	body := enc[it.off+it.hlen : it.end]
	if !lc.array {
		if delta > 0 {
			out = append(out, body...)
			out = append(out, mbytes(delta)...)
		} else {
			out = append(out, body[:len(body)+delta]...)
		}
	} else {
		// last child = last item whose parent is found
		last := -1
		for i := found + 1; i < len(items); i++ {
			if items[i].parent == found {
				last = i
			}
		}
		if last < 0 {
			return nil, fmt.Errorf("array has no children")
		}
		if delta > 0 {
			out = append(out, body...)
			for k := 0; k < delta; k++ {
				out = append(out, enc[items[last].off:items[last].end]...)
			}
		} else {
			out = append(out, enc[it.off+it.hlen:items[last].off]...)
		}
	}
	out = append(out, enc[it.end:]...)
	return out, nil
}

// ---------------------------------------------------------------------------------------------

func runCodec(run *vkit.Run) {
	type job struct {
		t     *typeDesc
		shape string
		rep   int
		lc    *limitCase
		capN  int // zstd cap probe: cbor size target
	}
	var jobs []job
	for _, t := range types() {
		for _, s := range t.shapes {
			n := []int{run.N(260, 8000), run.N(40, 1200), run.N(4, 60)}[shapeWeight(s)]
			for k := 0; k < n; k++ {
				jobs = append(jobs, job{t: t, shape: s, rep: k})
			}
		}
	}
	lcs := limitCases()
	for i := range lcs {
		for k := 0; k < run.N(2, 12); k++ {
			jobs = append(jobs, job{lc: &lcs[i], rep: k})
		}
	}
	for _, n := range []int{zstdCap - 1, zstdCap, zstdCap + 1} {
		for k := 0; k < run.N(2, 10); k++ {
			jobs = append(jobs, job{capN: n, rep: k})
		}
	}
	typeSeen := map[string]bool{}
	for _, t := range types() {
		typeSeen[t.name] = false
	}
	body := func(ji int) {
		j := jobs[ji]
		caseID := int64(subCodec)*caseMul + int64(ji)
		if run.Case >= 0 && run.Case != caseID {
			return
		}
		r := newRng(run.SubSeed(caseID))
		switch {
		case j.lc != nil:
			lc := j.lc
			t := typeByName(lc.typ)
			v := lc.mk(r)
			enc, err := t.enc(v)
			if err != nil {
				run.Violation(fmt.Sprintf("C14 codec: %s with %s at its documented limit %d cannot be encoded: %v", lc.typ, lc.field, lc.limit, err), map[string]any{"case": caseID})
				return
			}
			enc = append([]byte(nil), enc...)
			if err := t.dec(enc, t.newv()); err != nil {
				run.Violation(fmt.Sprintf("C14 codec: %s with %s at its documented limit %d is rejected by the decoder: %v", lc.typ, lc.field, lc.limit, err), map[string]any{"case": caseID})
			}
			deltas := []int{1, 2}
			if lc.fixed {
				deltas = []int{1, -1}
			}
			for _, d := range deltas {
				over, err := resize(enc, *lc, d)
				if err != nil {
					run.Count("codec.limit_craft_failed", 1)
					run.Inconclusive("harness-error")
					fmt.Printf("limit craft failed for %s.%s: %v\n", lc.typ, lc.field, err)
					return
				}
				y := t.newv()
				if err := t.dec(over, y); err == nil {
					run.Violation(fmt.Sprintf("C14 codec: %s decoder accepts %s of size %d (documented limit %d%s)", lc.typ, lc.field, lc.limit+d, lc.limit, map[bool]string{true: ", exact", false: ""}[lc.fixed]),
						map[string]any{"case": caseID, "input_head": hexHead(over), "input_len": len(over)})
				}
				run.Count("codec.over_limit_inputs_rejected_or_checked", 1)
			}
			run.Eval(1)
			run.Distinct(fmt.Sprintf("codec|limit|%s|%s|rep=%d", lc.typ, lc.field, j.rep))
			return
		case j.capN != 0:
			// a certificate whose CBOR form has exactly capN bytes
			t := typeByName("certs.FinalityCertificate")
			c := genCert(r, "n1/d1")
			c.Signature = randBytes(r, j.capN-200)
			b, _ := t.enc(c)
			c.Signature = randBytes(r, len(c.Signature)+(j.capN-len(b)))
			b, _ = t.enc(c)
			if len(b) != j.capN {
				run.Count("codec.cap_probe_size_miss", 1)
				return
			}
			_, fails, _ := checkValue(t, c, r, run.Count)
			for _, f := range fails {
				run.Violation(fmt.Sprintf("C14 codec: certs.FinalityCertificate with a CBOR form of exactly %d bytes (cap 1048576): %s", j.capN, f), map[string]any{"case": caseID})
			}
			run.Eval(1)
			run.Count("codec.zstd_cap_probes", 1)
			run.Distinct(fmt.Sprintf("codec|zstdcap|%d|rep=%d", j.capN, j.rep))
			return
		}
		t := j.t
		v := t.gen(r, j.shape)
		enc, fails, skipped := checkValue(t, v, r, run.Count)
		if skipped != "" {
			run.Count("codec.values_not_encodable", 1)
			return
		}
		run.Eval(1)
		run.Count("codec.values", 1)
		run.Count("codec.bytes_encoded", int64(len(enc)))
		run.Max("codec.max_encoding_len", int64(len(enc)))
		h := sha256.Sum256(enc)
		run.Distinct("codec|" + t.name + "|" + j.shape + "|" + hex.EncodeToString(h[:8]))
		for _, f := range fails {
			run.Violation(fmt.Sprintf("C14 codec: %s shape=%s: %s", t.name, j.shape, f),
				map[string]any{"case": caseID, "type": t.name, "shape": j.shape, "encoding_head": hexHead(enc), "encoding_len": len(enc)})
		}
		if j.rep == 0 && (j.shape == "n128/k760" && t.name == "gpbft.ECChain" || j.shape == "n128k760/d8192") {
			run.Sample(map[string]any{"sub": "codec", "type": t.name, "shape": j.shape, "cbor_len": len(enc)})
		}
	}
	vkit.Parallel(len(jobs), runtime.GOMAXPROCS(0), body)
	run.Count("codec.types", int64(len(types())))
	if run.Case < 0 && run.Counter("codec.values") < int64(len(jobs))*8/10 {
		run.Inconclusive("too-few-events")
	}
}
