package c14

import (
	"bytes"
	"testing"

	"github.com/filecoin-project/go-f3/gpbft"
	"github.com/filecoin-project/go-f3/manifest"
)

// Standalone reproductions (real API only) of the findings recorded in
// /verif/known_findings.d/C14.json. They never fail; they log whether the defect is present.
// Run: go test -tags verif -overlay /verif/.overlay.json -run 'TestRepro' -v ./c14

func TestReproVRFSeparator(t *testing.T) {
	m := manifest.LocalDevnetManifest()
	m.NetworkName = "a:"
	t.Logf("Manifest.Validate() for network name %q: %v", m.NetworkName, m.Validate())
	in := func(nn string, beacon []byte) []byte {
		mb := &gpbft.MessageBuilder{NetworkName: gpbft.NetworkName(nn), PowerTable: onePower{}, BeaconForTicket: beacon,
			Payload: gpbft.Payload{Instance: 5, Round: 1, Phase: gpbft.CONVERGE_PHASE}}
		sb, err := mb.PrepareSigningInputs(1)
		if err != nil {
			t.Fatal(err)
		}
		return sb.VRFToSign
	}
	a, b := in("a:", []byte("b")), in("a", []byte(":b"))
	t.Logf("VRF input (network \"a:\", beacon \"b\")  = %q", a)
	t.Logf("VRF input (network \"a\",  beacon \":b\") = %q", b)
	if bytes.Equal(a, b) {
		t.Log("REPRODUCED: two different (network, beacon) pairs share one VRF signing input")
	} else {
		t.Log("not reproduced")
	}
}

func TestReproPayloadSeparatorShift(t *testing.T) {
	r := newRng(1)
	a, b, ok := sepShiftPair(r)
	if !ok {
		t.Log("pair not constructible")
		return
	}
	pa, nna := a.build()
	pb, nnb := b.build()
	ba := pa.MarshalForSigning(nna)
	bb := pb.MarshalForSigningWithValueKey(nnb, gpbft.ECChainKey(*b.RawKey))
	t.Logf("A: network %q phase %d round %d instance %d cid %x", nna, pa.Phase, pa.Round, pa.Instance, a.PT.Bytes())
	t.Logf("B: network %q phase %d round %d instance %d cid %x", nnb, pb.Phase, pb.Round, pb.Instance, b.PT.Bytes())
	if bytes.Equal(ba, bb) {
		t.Logf("REPRODUCED: equal signing bytes %x", ba)
	} else {
		t.Log("not reproduced")
	}
}

func TestReproECChainUnmarshalEmpty(t *testing.T) {
	r := newRng(1)
	full := genChain(r, 3, "", true)
	var enc, empty bytes.Buffer
	_ = full.MarshalCBOR(&enc)
	_ = (&gpbft.ECChain{}).MarshalCBOR(&empty)
	var target gpbft.ECChain
	if err := target.UnmarshalCBOR(bytes.NewReader(enc.Bytes())); err != nil {
		t.Fatal(err)
	}
	k := target.Key()
	if err := target.UnmarshalCBOR(bytes.NewReader(empty.Bytes())); err != nil {
		t.Fatal(err)
	}
	t.Logf("after decoding the empty chain %x into a used target: len=%d key-is-old=%v", empty.Bytes(), target.Len(), target.Key() == k)
	if target.Len() != 0 {
		t.Log("REPRODUCED: ECChain.UnmarshalCBOR(empty) left the previous tipsets and cached key in place")
	} else {
		t.Log("not reproduced")
	}
}
