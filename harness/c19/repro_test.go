package c19

// Standalone minimal reproductions of the two defects the C19 monitors report on
// the pinned tree. They use only the public API of sim / certchain / FakeEC and
// none of the C19 harness machinery. Each test FAILS while the defect is present
// (they are not part of the registered check; run with -run TestRepro).

import (
	"bytes"
	"context"
	"os"
	"testing"
	"time"

	"github.com/filecoin-project/go-bitfield"
	"github.com/filecoin-project/go-f3/certchain"
	"github.com/filecoin-project/go-f3/gpbft"
	"github.com/filecoin-project/go-f3/internal/clock"
	"github.com/filecoin-project/go-f3/internal/consensus"
	"github.com/filecoin-project/go-f3/manifest"
	"github.com/filecoin-project/go-f3/sim"
	"github.com/filecoin-project/go-f3/sim/adversary"
	"github.com/filecoin-project/go-f3/sim/latency"
	"github.com/filecoin-project/go-f3/sim/signing"
)

// reproAdv reports, when instance 0 starts, a DECIDE "decision" through its own
// simulator host that is signed by its own key only (1 of 4 units of power).
type reproAdv struct {
	adversary.Absent
	id   gpbft.ActorID
	host adversary.Host
}

func (r *reproAdv) StartInstanceAt(instance uint64, _ time.Time) error {
	ctx := context.Background()
	committee, err := r.host.GetCommittee(ctx, instance)
	if err != nil {
		return err
	}
	value := reproBase.Extend([]byte("forged-tipset"))
	vote := gpbft.Payload{Instance: instance, Round: 0, Phase: gpbft.DECIDE_PHASE, Value: value}
	me := committee.PowerTable.Lookup[r.id]
	sig, err := r.host.Sign(ctx, committee.PowerTable.Entries[me].PubKey, vote.MarshalForSigning(r.host.NetworkName()))
	if err != nil {
		return err
	}
	agg, err := committee.AggregateVerifier.Aggregate([]int{me}, [][]byte{sig})
	if err != nil {
		return err
	}
	signers := bitfield.New()
	signers.Set(uint64(me))
	_, err = r.host.ReceiveDecision(ctx, &gpbft.Justification{Vote: vote, Signers: signers, Signature: agg})
	return err
}

func needRepro(t *testing.T) {
	if os.Getenv("C19_REPRO") == "" {
		t.Skip("set C19_REPRO=1 to run the standalone defect reproductions (they fail while the defects are present)")
	}
}

var reproBase, _ = gpbft.NewChain(&gpbft.TipSet{Epoch: 0, Key: []byte("genesis"), PowerTable: gpbft.MakeCid([]byte("pt"))})

// Defect #6: sim/ec.go validateDecision derives its strong-quorum threshold from
// zero, so a decision signed by 1/4 of the power is not reported by Run.
func TestReproSimDecisionThreshold(t *testing.T) {
	needRepro(t)
	sm, err := sim.NewSimulation(
		sim.WithBaseChain(reproBase),
		sim.WithLatencyModeler(func() (latency.Model, error) { return latency.None, nil }),
		sim.WithECEpochDuration(30*time.Second),
		sim.WitECStabilisationDelay(3*time.Second),
		sim.WithGpbftOptions(gpbft.WithDelta(200*time.Millisecond)),
		sim.AddHonestParticipants(3, sim.NewUniformECChainGenerator(7, 1, 3), sim.UniformStoragePower(gpbft.NewStoragePower(1))),
		sim.WithAdversary(func(id gpbft.ActorID, host adversary.Host) *adversary.Adversary {
			return &adversary.Adversary{Receiver: &reproAdv{id: id, host: host}, Power: gpbft.NewStoragePower(1), ID: id}
		}),
	)
	if err != nil {
		t.Fatal(err)
	}
	if err := sm.Run(1, 10); err == nil {
		t.Fatalf("sim.Run returned nil although participant 3 reported a decision signed by 1 of 4 units of power")
	} else {
		t.Logf("Run error (expected): %v", err)
	}
}

// Defect #7: certchain.GetCommittee(i) takes the head of certificate
// i-lookback+1 whereas a node (consensus_inputs.go) takes certificate i-lookback.
func TestReproCertchainLookback(t *testing.T) {
	needRepro(t)
	ctx, clk := clock.WithMockClock(context.Background())
	m := manifest.LocalDevnetManifest()
	m.InitialInstance = 0
	m.CommitteeLookback = 3
	sv := signing.NewFakeBackend()
	pt := gpbft.PowerEntries{
		{ID: 1, Power: gpbft.NewStoragePower(10), PubKey: sv.Allow(1)},
		{ID: 2, Power: gpbft.NewStoragePower(9), PubKey: sv.Allow(2)},
	}
	fec := consensus.NewFakeEC(consensus.WithClock(clk), consensus.WithSeed(5), consensus.WithBootstrapEpoch(m.BootstrapEpoch),
		consensus.WithECPeriod(m.EC.Period), consensus.WithInitialPowerTable(pt))
	clk.Add(200 * time.Hour)
	cc, err := certchain.New(certchain.WithSeed(9), certchain.WithSignVerifier(sv), certchain.WithManifest(m), certchain.WithEC(fec))
	if err != nil {
		t.Fatal(err)
	}
	crts, err := cc.Generate(ctx, 12)
	if err != nil {
		t.Fatal(err)
	}
	bad := 0
	for i := m.CommitteeLookback; i < 12; i++ {
		got, err := cc.GetCommittee(ctx, i)
		if err != nil {
			t.Fatal(err)
		}
		want, err := fec.GetTipset(ctx, crts[i-m.CommitteeLookback].ECChain.Head().Key) // head finalized look-back instances earlier
		if err != nil {
			t.Fatal(err)
		}
		next, _ := fec.GetTipset(ctx, crts[i-m.CommitteeLookback+1].ECChain.Head().Key)
		if !bytes.Equal(got.Beacon, want.Beacon()) {
			bad++
			t.Logf("instance %d: certchain beacon is not that of head(cert %d); equals head(cert %d): %v",
				i, i-m.CommitteeLookback, i-m.CommitteeLookback+1, bytes.Equal(got.Beacon, next.Beacon()))
		}
	}
	if bad > 0 {
		t.Fatalf("certchain.GetCommittee deviates from the look-back rule at %d instances", bad)
	}
}
