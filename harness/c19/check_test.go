package c19

import (
	"fmt"
	"math/rand"
	"os"
	"runtime"
	"testing"

	"github.com/filecoin-project/go-f3/verifh/vkit"
)

const (
	sigSimForged  = "C19 sim oracle: Simulation.Run returned nil although a forged decision was reported through the adversary's host: class="
	sigSimControl = "C19 sim oracle: run without forgery returned an error: class="
)

func workers() int {
	w := runtime.GOMAXPROCS(0)
	if w > 16 {
		w = 16
	}
	return w
}

func TestCheck(t *testing.T) {
	run := vkit.New("C19", "main", "exploration")
	run.SetRule("(i) sim oracle: case = (committee of 1-9 honest + 1 adversary, power profile uniform/skewed/designed(raw total 0xffff, a signer set exactly one scaled unit below 2/3)/dust-adversary(zero scaled power)/evolving per instance, sync or log-normal latency, 1-5 instances, target instance 0-3, forgery at the first delivery of the target instance or inside the final event of the run); per case one silent control run (records the deterministic delivery trace), then one real sim.Simulation run per forgery class with the harness adversary reporting the forged decision through Host.ReceiveDecision at the chosen delivery, two valid-report controls, and (>=2 honest) a disagreement run plus its control with a >2/3 adversary that delivers a valid DECIDE for another value to one victim only. distinct non-trivial = (class, committee size, profile, target instance, early/late) of runs in which the forgery was actually reported. " +
		"(ii) certchain rule: case = (look-back 2-12, initial instance 0/7, 30-80 instances, FakeEC with a per-epoch evolving power table incl. membership changes); certchain.Generate, certificates put one by one into a real certstore, production gpbftInputs.GetCommittee queried in three node states (store two behind = EC path, one behind, full) and compared (entries, beacon) with certchain.GetCommittee and with the committee re-derived from the property text; distinct non-trivial = (look-back, initial, node state, bootstrap window or not)")
	run.Assume("sim.FakeBackend signatures (the simulator's own all-keys signer) are what 'verifying aggregate' is judged with",
		"a strong quorum is judged by the protocol's scaled power (floor(0xffff*p/total), part >= ceil(2*total/3)); under-powered forgeries are additionally below 2/3 by exact raw power, valid-report controls at or above it, so no verdict depends on rounding",
		"FakeEC and certstore are trusted as the shared EC backend / store; the spec committee is re-derived from them and the generated certificates' heads",
		"disagreement is only reachable through messages: an adversary host can report decisions for its own (excluded) id only, and broadcasts are always sent under its own id, so the adversary must hold more than two thirds of the power")

	nSim := run.N(54, 900)
	nCC := run.N(60, 2000)
	total := nSim + nCC
	body := func(i int) {
		if run.Case >= 0 && int64(i) != run.Case {
			return
		}
		if i < nSim {
			simCase(run, i)
		} else {
			certchainCase(run, i, i-nSim)
		}
	}
	vkit.Parallel(total, workers(), body)

	if run.Case < 0 {
		if run.Counter("sim_forged_runs") < int64(nSim*6) {
			run.Inconclusive("too-few-events")
		}
		if run.Counter("sim_late_forgeries_in_final_event") < 1 || run.Counter("sim_disagreements_achieved") < 1 {
			run.Inconclusive("too-few-events")
		}
		if run.Counter("certchain_committees_compared") < int64(nCC*60) {
			run.Inconclusive("too-few-events")
		}
		if run.Counter("sim_watchdog_or_panic")*10 > run.Counter("sim_runs_total") {
			run.Inconclusive("harness-error")
		}
	}
	rc := run.Finish()
	if rc != 0 {
		t.Fail()
	}
	if rc == 2 {
		os.Exit(2)
	}
}

func simCase(run *vkit.Run, i int) {
	c := genSimCfg(run.SubSeed(int64(i)), i)
	rng := rand.New(rand.NewSource(run.SubSeed(int64(i)) ^ 0x19c19))
	run.Eval(1)
	run.Sample(map[string]any{"monitor": "sim", "cfg": c})
	timing := "early"
	if c.Late {
		timing = "late"
	}
	wit := func(class string, out simOutcome, extra map[string]any) map[string]any {
		w := map[string]any{"case": i, "monitor": "sim-oracle", "cfg": c, "class": class, "timing": timing,
			"run_error": fmt.Sprint(out.err), "forgery": out.detail}
		for k, v := range extra {
			w[k] = v
		}
		return w
	}
	bad := func(out simOutcome) bool {
		if out.watchdog || out.panicked != nil {
			run.Count("sim_watchdog_or_panic", 1)
			if run.Counter("sim_watchdog_or_panic") <= 3 {
				fmt.Printf("case %d: run aborted: watchdog=%v panic=%v cfg=%+v\n", i, out.watchdog, out.panicked, c)
			}
			return true
		}
		return false
	}

	// --- control: nobody forges; also yields the delivery trace
	ctl := runForger(c, "", -1, 400_000, 0)
	run.Count("sim_runs_total", 1)
	run.Eval(1)
	run.Count("sim_runs_control", 1)
	if bad(ctl) {
		return
	}
	if ctl.err != nil {
		run.Violation(sigSimControl+ctlSilent, wit(ctlSilent, ctl, nil))
		return
	}
	n := ctl.trace.calls
	at, ok := n-1, n > 0
	if !c.Late {
		at, ok = ctl.trace.firstIdx[c.Target]
	}
	if !ok {
		run.Count("sim_cases_without_forgery_point", 1)
		return
	}
	budget := 20*n + 10_000
	tbl := c.table(c.Target)

	type variant struct {
		class    string
		sameVote bool
	}
	var variants []variant
	for _, class := range append(append([]string(nil), forgedClasses...), ctlValidFull, ctlValidMin) {
		variants = append(variants, variant{class, false})
	}
	if c.Late {
		// the same forgeries for the very vote an honest participant already reported (the simulator
		// must judge every report, not every distinct vote)
		for _, class := range []string{clsOne, clsAllButEn, clsMaxBelow, clsOneUnit, clsZeroPower, clsAggFlip, clsAggSigners} {
			variants = append(variants, variant{class, true})
		}
	}
	// only reachable when the simulator's table of the target instance is not the configured one
	variants = append(variants, variant{clsStaleTable, false})
	for ci, vr := range variants {
		class := vr.class
		if _, applicable := tbl.signerSet(class); !applicable && class != clsStaleTable {
			run.Count("sim_class_not_applicable", 1)
			continue
		}
		out := runForger(c, class, at, budget, run.SubSeed(int64(i))+int64(ci)*7919, vr.sameVote)
		if vr.sameVote {
			class += "+same-vote-as-an-honest-decision"
		}
		run.Count("sim_runs_total", 1)
		run.Eval(1)
		run.Eval(1)
		if bad(out) {
			continue
		}
		if out.skipped != "" {
			run.Count("sim_skipped_"+out.skipped, 1)
			continue
		}
		if !out.forged {
			run.Count("sim_forgery_point_not_reached", 1)
			continue
		}
		same := at < len(out.trace.hashes) && out.trace.hashes[at] == ctl.trace.hashes[at]
		if !same {
			run.Count("sim_trace_diverged_from_control", 1)
		}
		inFinal := c.Late && same && out.trace.calls == n && honestDecided(out.sm, c.Instances-1)
		if class == ctlValidFull || class == ctlValidMin {
			run.Count("sim_runs_control", 1)
			run.Count("sim_valid_reports", 1)
			if out.err != nil {
				run.Violation(sigSimControl+class, wit(class, out, nil))
			}
			continue
		}
		run.Count("sim_forged_runs", 1)
		run.Count("sim_forged."+class, 1)
		if inFinal {
			run.Count("sim_late_forgeries_in_final_event", 1)
		}
		run.Distinct(fmt.Sprintf("sim|%s|%d|%s|%d|%s", class, c.Honest+1, c.Profile, c.Target, timing))
		if out.err != nil {
			run.Count("sim_forged_runs_errored", 1)
			continue
		}
		run.Count("sim_forged_runs_returned_nil", 1)
		run.Count("sim_returned_nil."+class, 1)
		run.Violation(sigSimForged+class, wit(class, out, map[string]any{"forged_in_final_event": inFinal}))
	}

	// --- disagreement between honest participants
	if c.Honest < 2 {
		return
	}
	d := c
	var advPower int64
	okCfg := false
	for attempt := 0; attempt < 4 && !okCfg; attempt++ {
		if attempt == 2 {
			// fall back to nearly uniform honest power so every honest participant keeps effective power
			d.Profile = c.Profile + "+flattened"
			d.Powers = make([]int64, c.Honest)
			d.Delta = make([]int64, c.Honest)
			for j := range d.Powers {
				d.Powers[j] = 100 + int64(j)
			}
		}
		var sum int64
		for j := 0; j < d.Honest; j++ {
			sum += d.power(d.Instances+1, j)
		}
		advPower = sum*22/10 + rng.Int63n(sum*6+1)
		d.AdvPower = advPower
		okCfg = true
		for k := uint64(0); k <= d.Instances+1 && okCfg; k++ {
			t := d.table(k)
			for x, id := range t.ids {
				if id == d.Honest {
					okCfg = okCfg && t.scaled[x] >= t.threshold()+1
				} else {
					okCfg = okCfg && t.scaled[x] > 0
				}
			}
		}
	}
	if !okCfg {
		run.Count("sim_disagreement_cfg_unavailable", 1)
		return
	}
	dctl := runDriver(d, false, 0, 0, advPower, 400_000)
	run.Count("sim_runs_total", 1)
	run.Eval(1)
	run.Count("sim_runs_control", 1)
	if bad(dctl) {
		return
	}
	if dctl.err != nil {
		run.Violation(sigSimControl+ctlDriver, wit(ctlDriver, dctl, nil))
		return
	}
	victim := rng.Intn(d.Honest)
	dis := runDriver(d, true, victim, rng.Intn(4), advPower, 400_000)
	run.Count("sim_runs_total", 1)
	run.Eval(1)
	if bad(dis) {
		return
	}
	vals := honestValues(dis.sm, d.Target)
	if !dis.forged || len(vals) < 2 {
		run.Count("sim_disagreement_not_achieved", 1)
		return
	}
	run.Count("sim_disagreements_achieved", 1)
	run.Count("sim_forged_runs", 1)
	run.Count("sim_forged."+clsDisagree, 1)
	run.Distinct(fmt.Sprintf("sim|%s|%d|%s|%d", clsDisagree, d.Honest+1, d.Profile, d.Target))
	if dis.err != nil {
		run.Count("sim_forged_runs_errored", 1)
		return
	}
	run.Count("sim_forged_runs_returned_nil", 1)
	run.Count("sim_returned_nil."+clsDisagree, 1)
	run.Violation(sigSimForged+clsDisagree, wit(clsDisagree, dis, map[string]any{"cfg": d, "honest_decisions": fmt.Sprint(vals)}))
}
