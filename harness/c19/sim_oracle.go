package c19

// Sub-monitor (i): soundness of the simulator's run oracle.
//
// A harness adversary (implements adversary.Receiver) is plugged into a real
// sim.Simulation with sim.WithAdversary. It only uses what the simulator hands
// to an adversary: its adversary.Host (GetCommittee, Sign for every key,
// NetworkName, ReceiveDecision, RequestSynchronousBroadcast) and the
// AllowMessage censoring hook. At a chosen AllowMessage call it reports a
// forged decision through Host.ReceiveDecision. The oracle is the property
// text: Simulation.Run must return a non-nil error for every forged run.

import (
	"context"
	"errors"
	"fmt"
	"hash/fnv"
	"math/rand"
	"sort"
	"time"

	"github.com/filecoin-project/go-bitfield"
	"github.com/filecoin-project/go-f3/gpbft"
	"github.com/filecoin-project/go-f3/sim"
	"github.com/filecoin-project/go-f3/sim/adversary"
	"github.com/filecoin-project/go-f3/sim/latency"
)

const scaledMax = 0xffff

// ---------------------------------------------------------------- configuration

type simCfg struct {
	Case      int     `json:"case"`
	Honest    int     `json:"honest"`
	Profile   string  `json:"profile"`
	Powers    []int64 `json:"honest_power"`
	Delta     []int64 `json:"honest_power_delta_per_instance"`
	AdvPower  int64   `json:"adversary_power"`
	Async     bool    `json:"async"`
	Instances uint64  `json:"instances"`
	Target    uint64  `json:"target_instance"`
	Late      bool    `json:"late"`
	Seed      int64   `json:"seed"`
	MaxRounds uint64  `json:"max_rounds"`
	// ZeroEC: no EC epoch duration / stabilisation delay, so participants begin the next instance
	// before the slowest one decided the previous (the simulator's early-start path)
	ZeroEC bool `json:"zero_ec_delays"`
}

func (c simCfg) power(instance uint64, id int) int64 {
	return c.Powers[id] + int64(instance)*c.Delta[id]
}

// refTable is the reference view of an instance's power table: entries ordered
// as gpbft orders them (power descending, then id ascending), raw and scaled
// power per the protocol's scaling rule (floor(0xffff*p/total)).
type refTable struct {
	ids    []int
	raw    []int64
	scaled []int64
	total  int64 // scaled total
	rawTot int64
}

func (t refTable) threshold() int64 { return (2*t.total + 2) / 3 } // ceil(2*total/3)

func mkRefTable(ids []int, raw []int64) refTable {
	ix := make([]int, len(ids))
	for i := range ix {
		ix[i] = i
	}
	sort.SliceStable(ix, func(a, b int) bool {
		if raw[ix[a]] != raw[ix[b]] {
			return raw[ix[a]] > raw[ix[b]]
		}
		return ids[ix[a]] < ids[ix[b]]
	})
	var t refTable
	for _, i := range ix {
		t.ids = append(t.ids, ids[i])
		t.raw = append(t.raw, raw[i])
		t.rawTot += raw[i]
	}
	for _, p := range t.raw {
		// floor(0xffff * p / total); p,total < 2^40 so no overflow
		s := scaledMax * p / t.rawTot
		t.scaled = append(t.scaled, s)
		t.total += s
	}
	return t
}

func (c simCfg) table(instance uint64) refTable {
	ids := make([]int, 0, c.Honest+1)
	raw := make([]int64, 0, c.Honest+1)
	for i := 0; i < c.Honest; i++ {
		ids = append(ids, i)
		raw = append(raw, c.power(instance, i))
	}
	ids = append(ids, c.Honest)
	raw = append(raw, c.AdvPower)
	return mkRefTable(ids, raw)
}

// honestCanProgress: the honest participants alone hold a strong quorum in
// every instance the run may touch (the forging adversary stays silent).
func (c simCfg) honestCanProgress() bool {
	for k := uint64(0); k <= c.Instances+1; k++ {
		t := c.table(k)
		var h int64
		for i, id := range t.ids {
			if id != c.Honest {
				if t.scaled[i] == 0 {
					return false // an honest participant without effective power cannot send messages
				}
				h += t.scaled[i]
			}
		}
		if h < t.threshold()+1 {
			return false
		}
	}
	return true
}

func splitSum(rng *rand.Rand, sum int64, parts int) []int64 {
	// random composition of sum into `parts` positive integers
	cuts := map[int64]bool{}
	for len(cuts) < parts-1 {
		cuts[1+rng.Int63n(sum-1)] = true
	}
	cs := make([]int64, 0, parts+1)
	cs = append(cs, 0)
	for c := range cuts {
		cs = append(cs, c)
	}
	cs = append(cs, sum)
	sort.Slice(cs, func(a, b int) bool { return cs[a] < cs[b] })
	out := make([]int64, parts)
	for i := range out {
		out[i] = cs[i+1] - cs[i]
	}
	return out
}

var simProfiles = []string{"uniform", "skewed", "designed", "dust-adversary", "evolving"}

func genSimCfg(seed int64, i int) simCfg {
	rng := rand.New(rand.NewSource(seed))
	for attempt := 0; ; attempt++ {
		c := simCfg{Case: i, Honest: 1 + i%9, Seed: rng.Int63(), MaxRounds: 10}
		c.Late = i%2 == 1
		c.Target = uint64((i / 2) % 4)
		c.Instances = c.Target + 1 + uint64(rng.Intn(2))
		c.Async = rng.Intn(3) == 0
		c.Profile = simProfiles[(i/9+rng.Intn(len(simProfiles)))%len(simProfiles)]
		if attempt > 50 {
			c.Profile = "skewed"
		}
		n := c.Honest
		c.Powers = make([]int64, n)
		c.Delta = make([]int64, n)
		switch c.Profile {
		case "uniform":
			p := int64(1 + rng.Intn(5))
			for j := range c.Powers {
				c.Powers[j] = p
			}
			c.AdvPower = p
			if n < 3 {
				// a silent adversary with a third or more of the power blocks progress
				for j := range c.Powers {
					c.Powers[j] = 4 * p
				}
			}
		case "skewed":
			var sum int64
			for j := range c.Powers {
				c.Powers[j] = 1 + rng.Int63n(1000)
				if rng.Intn(4) == 0 {
					c.Powers[j] *= 50
				}
				sum += c.Powers[j]
			}
			c.AdvPower = 1 + rng.Int63n(max64(1, sum/4))
		case "designed":
			// raw total exactly 0xffff: scaled power equals raw power, the strong
			// quorum threshold is 43690 and some signer set sums to 43689.
			if n < 2 {
				continue
			}
			// raw total R in {65535, 65534, 65533}: scaled power equals raw power for every member
			// (floor(65535*p/R) = p for p < R/2+...; checked by honestCanProgress via mkRefTable) and for
			// the two smaller totals 2R is not divisible by 3, so floor(2R/3) and ceil(2R/3) differ:
			// one group sums to exactly ceil(2R/3)-1
			R := int64(scaledMax) - int64(rng.Intn(3))
			below := (2*R+2)/3 - 1
			a := 1 + rng.Intn(n) // size of the just-below group among n+1 entries, leaves >=1 outside
			grpA := splitSum(rng, below, a)
			grpB := splitSum(rng, R-below, n+1-a)
			all := append(grpA, grpB...)
			rng.Shuffle(len(all), func(x, y int) { all[x], all[y] = all[y], all[x] })
			// the smallest entry is the adversary
			mi := 0
			for j, p := range all {
				if p < all[mi] {
					mi = j
				}
			}
			c.AdvPower = all[mi]
			all = append(all[:mi], all[mi+1:]...)
			copy(c.Powers, all)
		case "dust-adversary":
			for j := range c.Powers {
				c.Powers[j] = 1_000_000 + rng.Int63n(1_000_000)
			}
			c.AdvPower = 1 + rng.Int63n(10)
		case "evolving":
			var sum int64
			for j := range c.Powers {
				c.Powers[j] = 100 + rng.Int63n(900)
				c.Delta[j] = rng.Int63n(200)
				sum += c.Powers[j]
			}
			c.AdvPower = 1 + rng.Int63n(max64(1, sum/5))
			if rng.Intn(2) == 0 {
				c.ZeroEC, c.Async = true, true
			}
		}
		if c.honestCanProgress() {
			return c
		}
	}
}

func max64(a, b int64) int64 {
	if a > b {
		return a
	}
	return b
}

// ---------------------------------------------------------------- signer sets

func maskIdx(mask, n int) []int {
	var out []int
	for i := 0; i < n; i++ {
		if mask&(1<<i) != 0 {
			out = append(out, i)
		}
	}
	return out
}

func (t refTable) sums(idx []int) (scaled, raw int64) {
	for _, i := range idx {
		scaled += t.scaled[i]
		raw += t.raw[i]
	}
	return
}

// under: strictly below a strong quorum by the protocol's scaled-power rule AND
// by exact raw power (so the case is not a rounding ambiguity).
func (t refTable) under(idx []int) bool {
	s, r := t.sums(idx)
	return s < t.threshold() && 3*r < 2*t.rawTot
}

func (t refTable) quorum(idx []int) bool {
	s, r := t.sums(idx)
	return s >= t.threshold() && 3*r >= 2*t.rawTot
}

const (
	clsNone        = "signers-none"
	clsOne         = "signers-one"
	clsAllButEn    = "signers-all-but-enough"
	clsMaxBelow    = "signers-max-below-quorum"
	clsOneUnit     = "signers-one-unit-below"
	clsZeroPower   = "signers-zero-power"
	clsAggFlip     = "aggregate-bitflip"
	clsAggPayload  = "aggregate-over-other-payload"
	clsAggSigners  = "aggregate-by-other-signers"
	clsInstMissing = "instance-nonexistent"
	clsInstOther   = "instance-relabelled"
	clsStep        = "wrong-step"
	clsRound       = "wrong-round"
	clsEmpty       = "empty-value"
	clsBase        = "wrong-base"
	clsStaleTable  = "signers-below-quorum-of-the-instance-table-but-not-of-a-stale-one"
	clsDisagree    = "disagreement"
	ctlSilent      = "control-silent"
	ctlValidFull   = "control-valid-report-all-signers"
	ctlValidMin    = "control-valid-report-minimal-quorum"
	ctlDriver      = "control-driving-adversary"
)

// signerSet picks the signer indices (positions in the instance's power table)
// for a class; ok=false when the class is not applicable to this table.
func (t refTable) signerSet(class string) (idx []int, ok bool) {
	n := len(t.ids)
	all := maskIdx(1<<n-1, n)
	switch class {
	case clsNone:
		return nil, true
	case clsOne:
		best := -1
		for i := range t.ids {
			if t.scaled[i] > 0 && (best < 0 || t.scaled[i] <= t.scaled[best]) {
				best = i
			}
		}
		if best < 0 || !t.under([]int{best}) {
			return nil, false
		}
		return []int{best}, true
	case clsAllButEn:
		// entries are ordered by power descending: drop the most powerful until under
		for drop := 1; drop <= n; drop++ {
			if idx := all[drop:]; t.under(idx) {
				return idx, len(idx) > 0
			}
		}
		return nil, false
	case clsMaxBelow, clsOneUnit:
		bestMask, bestSum := -1, int64(-1)
		for m := 1; m < 1<<n; m++ {
			idx := maskIdx(m, n)
			if !t.under(idx) {
				continue
			}
			if s, _ := t.sums(idx); s > bestSum {
				bestMask, bestSum = m, s
			}
		}
		if bestMask < 0 {
			return nil, false
		}
		gap := t.threshold() - bestSum
		if (class == clsOneUnit) != (gap == 1) {
			return nil, false
		}
		return maskIdx(bestMask, n), true
	case clsZeroPower:
		for i := range t.ids {
			if t.scaled[i] == 0 {
				idx = append(idx, i)
			}
		}
		return idx, len(idx) > 0 && t.under(idx)
	case ctlValidMin:
		bestMask, bestSum := -1, int64(-1)
		for m := 1; m < 1<<n; m++ {
			idx := maskIdx(m, n)
			if !t.quorum(idx) {
				continue
			}
			if s, _ := t.sums(idx); bestMask < 0 || s < bestSum {
				bestMask, bestSum = m, s
			}
		}
		if bestMask < 0 {
			return nil, false
		}
		return maskIdx(bestMask, n), true
	default:
		return all, true
	}
}

var forgedClasses = []string{clsNone, clsOne, clsAllButEn, clsMaxBelow, clsOneUnit, clsZeroPower,
	clsAggFlip, clsAggPayload, clsAggSigners, clsInstMissing, clsInstOther, clsStep, clsRound, clsEmpty, clsBase}

// ---------------------------------------------------------------- the adversary

var errWatchdog = errors.New("c19: logical step budget exhausted")

type simHolder struct{ sm *sim.Simulation }

type traceInfo struct {
	calls    int
	hashes   []uint64
	firstIdx map[uint64]int
}

// forger is silent on the wire; it observes every delivery through AllowMessage
// (all of them are allowed) and, at call number spec.forgeAt, reports a forged
// decision through its simulator host.
type forger struct {
	adversary.Absent
	id     gpbft.ActorID
	host   adversary.Host
	holder *simHolder
	cfg    simCfg
	class  string // "" = trace only
	// sameVote: report the forged decision for the very vote (value) an honest participant has
	// already reported for the instance, so only signers/aggregate distinguish it from a valid one
	sameVote bool
	at       int
	rng      *rand.Rand
	budget   int

	tr      traceInfo
	forged  bool
	skipped string
	detail  map[string]any
}

func (f *forger) AllowMessage(from, to gpbft.ActorID, msg gpbft.GMessage) bool {
	idx := f.tr.calls
	f.tr.calls++
	h := fnv.New64a()
	var prev uint64
	if idx > 0 {
		prev = f.tr.hashes[idx-1]
	}
	fmt.Fprintf(h, "%x|%d>%d|%d.%d.%d|%s", prev, from, to, msg.Vote.Instance, msg.Vote.Round, msg.Vote.Phase, msg.Vote.Value.Key())
	f.tr.hashes = append(f.tr.hashes, h.Sum64())
	if _, ok := f.tr.firstIdx[msg.Vote.Instance]; !ok {
		f.tr.firstIdx[msg.Vote.Instance] = idx
	}
	if f.tr.calls > f.budget {
		panic(errWatchdog)
	}
	if f.class != "" && !f.forged && f.skipped == "" && idx == f.at {
		f.forge()
	}
	return true
}

// realTable reads the instance's power table as the simulator built it and
// cross-checks it against the reference table derived from the configuration.
func realTable(pt *gpbft.PowerTable) refTable {
	ids := make([]int, len(pt.Entries))
	raw := make([]int64, len(pt.Entries))
	for i, e := range pt.Entries {
		ids[i] = int(e.ID)
		raw[i] = e.Power.Int64()
	}
	return mkRefTable(ids, raw)
}

func (f *forger) sign(pt *gpbft.PowerTable, agg gpbft.Aggregate, signedPayload gpbft.Payload, idx []int) (bitfield.BitField, []byte) {
	ctx := context.Background()
	bf := bitfield.New()
	payload := signedPayload.MarshalForSigning(f.host.NetworkName())
	sigs := make([][]byte, 0, len(idx))
	sorted := append([]int(nil), idx...)
	sort.Ints(sorted)
	for _, i := range sorted {
		s, err := f.host.Sign(ctx, pt.Entries[i].PubKey, payload) // the simulator's signer signs for every key
		if err != nil {
			panic(fmt.Errorf("c19 harness: all-keys signer refused: %w", err))
		}
		sigs = append(sigs, s)
		bf.Set(uint64(i))
	}
	a, err := agg.Aggregate(sorted, sigs)
	if err != nil {
		panic(fmt.Errorf("c19 harness: aggregate: %w", err))
	}
	return bf, a
}

func (f *forger) forge() {
	ctx := context.Background()
	k := f.cfg.Target
	inst := f.holder.sm.GetInstance(k)
	if inst == nil {
		f.skipped = "target-instance-not-begun"
		return
	}
	committee, err := f.host.GetCommittee(ctx, k)
	if err != nil {
		f.skipped = "no-committee"
		return
	}
	pt := committee.PowerTable
	t := realTable(pt)
	want := f.cfg.table(k)
	var staleIdx []int
	if fmt.Sprint(t) != fmt.Sprint(want) {
		// The simulator runs instance k on a table that is not the configured table of k. "That
		// instance's power table" is the configured one: look for a signer set that is below a
		// strong quorum of it but passes on the simulator's table, and report a decision signed by
		// exactly that set; Run must still error.
		if f.class != clsStaleTable || len(t.ids) != len(want.ids) {
			f.skipped = "power-table-differs-from-configuration"
			return
		}
		pos := map[int]int{}
		for i, id := range want.ids {
			pos[id] = i
		}
		n := len(t.ids)
		for m := 1; m < 1<<n && staleIdx == nil; m++ {
			idx := maskIdx(m, n)
			var ref []int
			for _, i := range idx {
				ref = append(ref, pos[t.ids[i]])
			}
			if t.quorum(idx) && want.under(ref) {
				staleIdx = idx
			}
		}
		if staleIdx == nil {
			f.skipped = "power-table-differs-but-no-separating-signer-set"
			return
		}
	} else if f.class == clsStaleTable {
		f.skipped = "class-not-applicable"
		return
	}
	base := inst.BaseChain.Head()
	good, err := gpbft.NewChain(base, &gpbft.TipSet{Epoch: base.Epoch + 1, Key: []byte(fmt.Sprintf("forged-%d", k)), PowerTable: base.PowerTable})
	if err != nil {
		panic(err)
	}
	if f.sameVote {
		var v *gpbft.ECChain
		for _, id := range f.holder.sm.ListParticipantIDs() {
			if d := inst.GetDecision(id); d != nil {
				v = d
				break
			}
		}
		if v == nil {
			f.skipped = "same-vote-no-honest-decision-yet"
			return
		}
		good = v
	}
	vote := gpbft.Payload{Instance: k, Round: 0, Phase: gpbft.DECIDE_PHASE, Value: good, SupplementalData: *inst.SupplementalData}
	signedVote := vote
	idx, ok := t.signerSet(f.class)
	if f.class == clsStaleTable {
		idx, ok = staleIdx, true
	}
	if !ok {
		f.skipped = "class-not-applicable"
		return
	}
	det := map[string]any{"class": f.class, "reported_at_call": f.at, "instance": k}
	mutateSig := func(b []byte) []byte { return b }
	switch f.class {
	case clsAggFlip:
		mutateSig = func(b []byte) []byte {
			c := append([]byte(nil), b...)
			c[f.rng.Intn(len(c))] ^= 1 << uint(f.rng.Intn(8))
			return c
		}
	case clsAggPayload:
		other, _ := gpbft.NewChain(base, &gpbft.TipSet{Epoch: base.Epoch + 1, Key: []byte("signed-something-else"), PowerTable: base.PowerTable})
		signedVote.Value = other
	case clsAggSigners:
		// claim all signers, aggregate produced by all but one
	case clsInstMissing:
		vote.Instance = uint64(f.holder.instancesBegun()) + uint64(f.rng.Intn(3)) + uint64(f.rng.Intn(2))*1_000_000
		signedVote = vote
	case clsInstOther:
		begun := f.holder.instancesBegun()
		if begun < 2 {
			f.skipped = "class-not-applicable"
			return
		}
		j := uint64(f.rng.Intn(begun - 1))
		if j >= k {
			j++
		}
		vote.Instance = j // signatures stay those produced for instance k
	case clsStep:
		phases := []gpbft.Phase{gpbft.INITIAL_PHASE, gpbft.QUALITY_PHASE, gpbft.CONVERGE_PHASE, gpbft.PREPARE_PHASE, gpbft.COMMIT_PHASE, gpbft.TERMINATED_PHASE}
		vote.Phase = phases[f.rng.Intn(len(phases))]
		signedVote = vote
	case clsRound:
		rounds := []uint64{1, 2, 7, 1 << 40}
		vote.Round = rounds[f.rng.Intn(len(rounds))]
		signedVote = vote
	case clsEmpty:
		vote.Value = &gpbft.ECChain{}
		signedVote = vote
	case clsBase:
		var wb *gpbft.ECChain
		if k > 0 && f.rng.Intn(2) == 0 {
			// a chain on top of the previous instance's base: stale base
			pb := f.holder.sm.GetInstance(k - 1).BaseChain.Head()
			wb, _ = gpbft.NewChain(pb, &gpbft.TipSet{Epoch: pb.Epoch + 1, Key: []byte("sibling"), PowerTable: pb.PowerTable})
			if wb.HasBase(base) {
				wb = nil
			}
		}
		if wb == nil {
			wb, _ = gpbft.NewChain(&gpbft.TipSet{Epoch: base.Epoch, Key: []byte("not-the-base"), PowerTable: base.PowerTable},
				&gpbft.TipSet{Epoch: base.Epoch + 1, Key: []byte("child"), PowerTable: base.PowerTable})
		}
		vote.Value = wb
		signedVote = vote
	}
	signIdx := idx
	if f.class == clsAggSigners {
		if len(idx) < 2 {
			f.skipped = "class-not-applicable"
			return
		}
		drop := f.rng.Intn(len(idx))
		signIdx = append(append([]int(nil), idx[:drop]...), idx[drop+1:]...)
	}
	bf, sig := f.sign(pt, committee.AggregateVerifier, signedVote, signIdx)
	if f.class == clsAggSigners {
		bf = bitfield.New()
		for _, i := range idx {
			bf.Set(uint64(i))
		}
	}
	sig = mutateSig(sig)
	s, r := t.sums(idx)
	det["signers"] = idx
	det["signer_scaled_power"] = s
	det["scaled_total"] = t.total
	det["strong_quorum_threshold"] = t.threshold()
	det["signer_raw_power"] = r
	det["raw_total"] = t.rawTot
	det["vote"] = fmt.Sprintf("instance=%d round=%d phase=%s value=%s", vote.Instance, vote.Round, vote.Phase, vote.Value)
	det["expected_base"] = base.String()
	f.detail = det
	f.forged = true
	if _, err := f.host.ReceiveDecision(ctx, &gpbft.Justification{Vote: vote, Signers: bf, Signature: sig}); err != nil {
		det["receive_decision_error"] = err.Error()
	}
}

func (h *simHolder) instancesBegun() int {
	n := 0
	for h.sm.GetInstance(uint64(n)) != nil {
		n++
	}
	return n
}

// driver is the adversary of the disagreement class. It holds more than two
// thirds of the power, so a DECIDE message from it alone is a strong quorum. In
// every instance it broadcasts DECIDE(A) for the first honest proposal A it
// sees, justified by a COMMIT quorum produced with the all-keys signer. In the
// target instance (split mode) it additionally broadcasts DECIDE(B) for another
// valid value and uses AllowMessage so that only the victim sees B and never A.
type driver struct {
	adversary.Absent
	id     gpbft.ActorID
	host   adversary.Host
	holder *simHolder
	target uint64
	victim gpbft.ActorID
	split  bool
	bKind  int
	budget int

	calls  int
	seen   map[uint64]bool
	b      *gpbft.ECChain
	didB   bool
	detail map[string]any
}

func (d *driver) AllowMessage(from, to gpbft.ActorID, msg gpbft.GMessage) bool {
	d.calls++
	if d.calls > d.budget {
		panic(errWatchdog)
	}
	inst := msg.Vote.Instance
	if !d.seen[inst] && from != d.id && msg.Vote.Phase == gpbft.QUALITY_PHASE {
		d.seen[inst] = true
		d.drive(inst, msg.Vote.Value)
	}
	if d.split && inst == d.target && from == d.id && msg.Vote.Phase == gpbft.DECIDE_PHASE {
		if msg.Vote.Value.Eq(d.b) {
			return to == d.victim || to == d.id
		}
		return to != d.victim
	}
	return true
}

func (d *driver) decide(inst uint64, committee *gpbft.Committee, supp gpbft.SupplementalData, value *gpbft.ECChain) {
	ctx := context.Background()
	pt := committee.PowerTable
	commit := gpbft.Payload{Instance: inst, Round: 0, Phase: gpbft.COMMIT_PHASE, Value: value, SupplementalData: supp}
	payload := commit.MarshalForSigning(d.host.NetworkName())
	signers := bitfield.New()
	var mask []int
	var sigs [][]byte
	for i, e := range pt.Entries {
		if pt.ScaledPower[i] == 0 {
			continue
		}
		s, err := d.host.Sign(ctx, e.PubKey, payload)
		if err != nil {
			panic(err)
		}
		mask = append(mask, i)
		sigs = append(sigs, s)
		signers.Set(uint64(i))
	}
	agg, err := committee.AggregateVerifier.Aggregate(mask, sigs)
	if err != nil {
		panic(err)
	}
	mb := &gpbft.MessageBuilder{
		NetworkName:   d.host.NetworkName(),
		PowerTable:    pt,
		Payload:       gpbft.Payload{Instance: inst, Round: 0, Phase: gpbft.DECIDE_PHASE, Value: value, SupplementalData: supp},
		Justification: &gpbft.Justification{Vote: commit, Signers: signers, Signature: agg},
	}
	if err := d.host.RequestSynchronousBroadcast(mb); err != nil {
		panic(err)
	}
}

func (d *driver) drive(inst uint64, a *gpbft.ECChain) {
	eci := d.holder.sm.GetInstance(inst)
	committee, err := d.host.GetCommittee(context.Background(), inst)
	if eci == nil || err != nil {
		return
	}
	supp := *eci.SupplementalData
	if d.split && inst == d.target {
		base := a.Base()
		switch {
		case d.bKind == 0 && a.Len() > 1:
			d.b, _ = gpbft.NewChain(base) // the base alone
		case d.bKind == 1 && a.Len() > 2:
			d.b = a.Prefix(1)
		case d.bKind == 3 && a.Len() > 2:
			// same base and same head, another chain in between (a tipset skipped)
			d.b, _ = gpbft.NewChain(base, a.Head())
		case d.bKind == 3 && a.Len() == 2 && a.Head().Epoch > base.Epoch+1:
			d.b, _ = gpbft.NewChain(base, &gpbft.TipSet{Epoch: base.Epoch + 1, Key: []byte("inserted"), PowerTable: base.PowerTable}, a.Head())
		default:
			d.b, _ = gpbft.NewChain(base, &gpbft.TipSet{Epoch: base.Epoch + 1, Key: []byte("fork"), PowerTable: base.PowerTable})
		}
		if d.b == nil || d.b.Eq(a) {
			d.b, _ = gpbft.NewChain(base, &gpbft.TipSet{Epoch: base.Epoch + 1, Key: []byte("fork"), PowerTable: base.PowerTable})
		}
		d.decide(inst, committee, supp, d.b)
		d.didB = true
		d.detail = map[string]any{"instance": inst, "victim": d.victim, "value_for_others": a.String(), "value_for_victim": d.b.String()}
	}
	d.decide(inst, committee, supp, a)
}

// ---------------------------------------------------------------- running

type simOutcome struct {
	err      error
	panicked any
	watchdog bool
	trace    traceInfo
	forged   bool
	skipped  string
	detail   map[string]any
	sm       *sim.Simulation
}

func baseChain(seed int64) *gpbft.ECChain {
	c, err := gpbft.NewChain(&gpbft.TipSet{Epoch: 0, Key: []byte(fmt.Sprintf("genesis-%x", uint64(seed)&0xffff)), PowerTable: gpbft.MakeCid([]byte("genesis-pt"))})
	if err != nil {
		panic(err)
	}
	return c
}

func (c simCfg) options(gen adversary.Generator) []sim.Option {
	cfg := c
	spg := func(instance uint64, id gpbft.ActorID) gpbft.StoragePower {
		return gpbft.NewStoragePower(cfg.power(instance, int(id)))
	}
	lat := func() (latency.Model, error) { return latency.None, nil }
	if c.Async {
		lat = func() (latency.Model, error) { return latency.NewLogNormal(cfg.Seed^0x5bd1, 100*time.Millisecond), nil }
	}
	return []sim.Option{
		sim.WithBaseChain(baseChain(c.Seed)),
		sim.WithLatencyModeler(lat),
		sim.WithECEpochDuration(map[bool]time.Duration{false: 30 * time.Second, true: 0}[c.ZeroEC]),
		sim.WitECStabilisationDelay(map[bool]time.Duration{false: 3 * time.Second, true: 0}[c.ZeroEC]),
		sim.WithGlobalStabilizationTime(1_000_000 * time.Hour), // AllowMessage is consulted for every delivery
		sim.WithGpbftOptions(gpbft.WithDelta(200*time.Millisecond), gpbft.WithDeltaBackOffExponent(1.3),
			gpbft.WithRebroadcastBackoff(1.3, 0, time.Second, 5*time.Second),
			// the default validation cache pre-sizes two 25K-entry maps per participant and instance,
			// which dominates the cost of these short runs; the bound itself is far above what a run needs
			gpbft.WithMaxCachedMessagesPerInstance(2000)),
		sim.AddHonestParticipants(c.Honest, sim.NewUniformECChainGenerator(uint64(c.Seed)|1, 1, 4), spg),
		sim.WithAdversary(gen),
	}
}

// runForger runs the configuration with the silent forging adversary.
// class "" is the trace-only control.
func runForger(c simCfg, class string, at int, budget int, sub int64, sameVote ...bool) (out simOutcome) {
	holder := &simHolder{}
	var f *forger
	gen := func(id gpbft.ActorID, host adversary.Host) *adversary.Adversary {
		f = &forger{id: id, host: host, holder: holder, cfg: c, class: class, at: at, budget: budget, sameVote: len(sameVote) > 0 && sameVote[0],
			rng: rand.New(rand.NewSource(sub)), tr: traceInfo{firstIdx: map[uint64]int{}}}
		return &adversary.Adversary{Receiver: f, Power: gpbft.NewStoragePower(c.AdvPower), ID: id}
	}
	sm, err := sim.NewSimulation(c.options(gen)...)
	if err != nil {
		out.err = fmt.Errorf("c19 harness: NewSimulation: %w", err)
		out.panicked = out.err
		return
	}
	holder.sm = sm
	out.sm = sm
	func() {
		defer func() {
			if r := recover(); r != nil {
				if e, ok := r.(error); ok && errors.Is(e, errWatchdog) {
					out.watchdog = true
				} else {
					out.panicked = r
				}
			}
		}()
		out.err = sm.Run(c.Instances, c.MaxRounds)
	}()
	if f != nil {
		out.trace, out.forged, out.skipped, out.detail = f.tr, f.forged, f.skipped, f.detail
	}
	return
}

// runDriver runs the configuration's honest participants against the
// super-majority adversary; split=false is its control.
func runDriver(c simCfg, split bool, victim int, bKind int, advPower int64, budget int) (out simOutcome) {
	holder := &simHolder{}
	var d *driver
	gen := func(id gpbft.ActorID, host adversary.Host) *adversary.Adversary {
		d = &driver{id: id, host: host, holder: holder, target: c.Target, victim: gpbft.ActorID(victim), split: split,
			bKind: bKind, budget: budget, seen: map[uint64]bool{}}
		return &adversary.Adversary{Receiver: d, Power: gpbft.NewStoragePower(advPower), ID: id}
	}
	sm, err := sim.NewSimulation(c.options(gen)...)
	if err != nil {
		out.err = fmt.Errorf("c19 harness: NewSimulation: %w", err)
		out.panicked = out.err
		return
	}
	holder.sm = sm
	out.sm = sm
	func() {
		defer func() {
			if r := recover(); r != nil {
				if e, ok := r.(error); ok && errors.Is(e, errWatchdog) {
					out.watchdog = true
				} else {
					out.panicked = r
				}
			}
		}()
		out.err = sm.Run(c.Instances, c.MaxRounds)
	}()
	if d != nil {
		out.forged, out.detail = d.didB, d.detail
	}
	return
}

// honestDecided reports whether every honest participant has a recorded
// decision for the instance (used to tell that a late forgery fell into the
// final event of the run).
func honestDecided(sm *sim.Simulation, instance uint64) bool {
	eci := sm.GetInstance(instance)
	if eci == nil {
		return false
	}
	for _, id := range sm.ListParticipantIDs() {
		if eci.GetDecision(id) == nil {
			return false
		}
	}
	return true
}

// honestValues lists the distinct values honest participants decided in an instance.
func honestValues(sm *sim.Simulation, instance uint64) map[string][]gpbft.ActorID {
	out := map[string][]gpbft.ActorID{}
	eci := sm.GetInstance(instance)
	if eci == nil {
		return out
	}
	for _, id := range sm.ListParticipantIDs() {
		if v := eci.GetDecision(id); v != nil {
			out[v.String()] = append(out[v.String()], id)
		}
	}
	return out
}
