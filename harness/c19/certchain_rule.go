package c19

// Sub-monitor (ii): certchain derives committees by the node's look-back rule.
//
// Three derivations of "the committee of instance i" over one FakeEC backend and
// one list of generated certificates are compared:
//   C(i) certchain.CertChain.GetCommittee(i)              (subject)
//   N(i) production gpbftInputs.GetCommittee(i)            (the node; accessor f3.VerifNewInputs)
//        over a real certstore holding the generated certificates
//   S(i) re-derived from the property text: inside the window
//        [initial, initial+lookback) the initial table (EC table and beacon at
//        bootstrap epoch - finality); otherwise the EC table and beacon at the head
//        of the chain finalized by instance i-lookback.

import (
	"bytes"
	"context"
	"fmt"
	"math/rand"
	"strings"
	"sync"
	"time"

	f3 "github.com/filecoin-project/go-f3"
	"github.com/filecoin-project/go-f3/certchain"
	"github.com/filecoin-project/go-f3/certs"
	"github.com/filecoin-project/go-f3/certstore"
	"github.com/filecoin-project/go-f3/gpbft"
	"github.com/filecoin-project/go-f3/internal/clock"
	"github.com/filecoin-project/go-f3/internal/consensus"
	"github.com/filecoin-project/go-f3/manifest"
	"github.com/filecoin-project/go-f3/sim/signing"
	"github.com/filecoin-project/go-f3/verifh/vkit"
	"github.com/ipfs/go-datastore"
	ds_sync "github.com/ipfs/go-datastore/sync"
)

type ccCfg struct {
	Case      int    `json:"case"`
	Lookback  uint64 `json:"lookback"`
	Initial   uint64 `json:"initial_instance"`
	Length    uint64 `json:"instances"`
	Members   int    `json:"base_members"`
	Seed      int64  `json:"seed"`
	NullProb  string `json:"null_tipset_probability"`
	nullProbF float64
}

func genCCCfg(seed int64, j int) ccCfg {
	rng := rand.New(rand.NewSource(seed))
	c := ccCfg{Case: j, Lookback: uint64(2 + j%11), Seed: rng.Int63() >> 8, Members: 3 + rng.Intn(10)}
	if (j/11)%2 == 1 {
		c.Initial = 7
	}
	c.Length = uint64(30 + rng.Intn(51))
	c.nullProbF = []float64{0, 0.015, 0.1}[rng.Intn(3)]
	c.NullProb = fmt.Sprint(c.nullProbF)
	return c
}

// evolver is the per-epoch power table of the fake EC: powers change every
// epoch and membership changes every few epochs, so the tables at two
// different heads differ.
type evolver struct {
	sv      *signing.FakeBackend
	members int
	seed    int64
	mu      sync.Mutex
	cache   map[int64]gpbft.PowerEntries
}

func (e *evolver) at(epoch int64) gpbft.PowerEntries {
	e.mu.Lock()
	defer e.mu.Unlock()
	if pt, ok := e.cache[epoch]; ok {
		return pt
	}
	n := e.members + int((epoch/5)%3)
	skip := int((epoch / 7) % int64(e.members)) // one rotating member is absent
	entries := make([]gpbft.PowerEntry, 0, n)
	for j := 0; j < n; j++ {
		if j == skip {
			continue
		}
		id := gpbft.ActorID(1000 + j)
		x := uint64(epoch)*2654435761 + uint64(j)*40503 + uint64(e.seed)
		x ^= x >> 13
		entries = append(entries, gpbft.PowerEntry{ID: id, Power: gpbft.NewStoragePower(int64(1000 + x%5000)), PubKey: e.sv.Allow(int(id))})
	}
	pt := gpbft.NewPowerTable()
	if err := pt.Add(entries...); err != nil {
		panic(err)
	}
	e.cache[epoch] = pt.Entries
	return pt.Entries
}

type committee struct {
	entries gpbft.PowerEntries
	beacon  []byte
}

func (c committee) eq(o committee, entries, beacon bool) bool {
	return (!entries || c.entries.Equal(o.entries)) && (!beacon || bytes.Equal(c.beacon, o.beacon))
}

func diffFields(a, b committee) string {
	var f []string
	if !a.entries.Equal(b.entries) {
		f = append(f, "entries")
	}
	if !bytes.Equal(a.beacon, b.beacon) {
		f = append(f, "beacon")
	}
	return strings.Join(f, "+")
}

func certchainCase(run *vkit.Run, caseIx, j int) {
	c := genCCCfg(run.SubSeed(int64(caseIx)), j)
	run.Eval(1)
	run.Count("certchain_cases", 1)
	run.Sample(map[string]any{"monitor": "certchain", "cfg": c})
	wit := func(extra map[string]any) map[string]any {
		w := map[string]any{"case": caseIx, "monitor": "certchain-committee", "cfg": c}
		for k, v := range extra {
			w[k] = v
		}
		return w
	}

	ctx, clk := clock.WithMockClock(context.Background())
	m := manifest.LocalDevnetManifest()
	m.InitialInstance = c.Initial
	m.CommitteeLookback = c.Lookback
	if uint64(m.ChainExchange.MaxInstanceLookahead) > c.Lookback {
		m.ChainExchange.MaxInstanceLookahead = c.Lookback
	}
	sv := signing.NewFakeBackend()
	ev := &evolver{sv: sv, members: c.Members, seed: c.Seed, cache: map[int64]gpbft.PowerEntries{}}
	bootEpoch := m.BootstrapEpoch - m.EC.Finality
	fec := consensus.NewFakeEC(
		consensus.WithClock(clk),
		consensus.WithSeed(c.Seed),
		consensus.WithBootstrapEpoch(m.BootstrapEpoch),
		consensus.WithECPeriod(m.EC.Period),
		consensus.WithNullTipsetProbability(c.nullProbF),
		consensus.WithInitialPowerTable(ev.at(bootEpoch)),
		consensus.WithEvolvingPowerTable(func(epoch int64, _ gpbft.PowerEntries) gpbft.PowerEntries { return ev.at(epoch) }),
	)
	clk.Add(time.Duration(int64(c.Length+c.Lookback+4)*int64(gpbft.ChainMaxLen)+m.EC.Finality+10) * m.EC.Period)

	cc, err := certchain.New(certchain.WithSeed(c.Seed), certchain.WithSignVerifier(sv), certchain.WithManifest(m), certchain.WithEC(fec))
	if err != nil {
		panic(err)
	}
	crts, err := cc.Generate(ctx, c.Length)
	if err != nil {
		// A node derives the committee of instance+1 from certificate instance+1-lookback, which
		// exists for every look-back >= 2; a generator following the same rule cannot run dry.
		run.Count("certchain_generate_failed", 1)
		run.Violation(fmt.Sprintf("C19 certchain committee: Generate fails although a node with this manifest can derive every committee it needs: lookback=%d err=%s",
			c.Lookback, stripNumbers(err.Error())), wit(map[string]any{"error": err.Error()}))
		return
	}
	if uint64(len(crts)) != c.Length {
		panic("certchain returned a different number of certificates")
	}

	verify := func(obj *certchain.CertChain, crts []*certs.FinalityCertificate, gen string) {
		// ---- the spec, from the property text
		headOf := func(ix int64) (committee, bool) { // committee at the head finalized by certificate index ix
			if ix < 0 || ix >= int64(len(crts)) {
				return committee{}, false
			}
			head := crts[ix].ECChain.Head()
			ts, err := fec.GetTipset(ctx, head.Key)
			if err != nil || ts == nil {
				panic(fmt.Sprintf("FakeEC lost tipset of certificate %d: %v", ix, err))
			}
			pt, err := fec.GetPowerTable(ctx, head.Key)
			if err != nil {
				panic(err)
			}
			return committee{entries: pt, beacon: ts.Beacon()}, true
		}
		bootTs, err := fec.GetTipsetByEpoch(ctx, bootEpoch)
		if err != nil {
			panic(err)
		}
		bootPT, err := fec.GetPowerTable(ctx, bootTs.Key())
		if err != nil {
			panic(err)
		}
		initialCommittee := committee{entries: bootPT, beacon: bootTs.Beacon()}
		inWindow := func(i uint64) bool { return i < c.Initial+c.Lookback }
		spec := func(i uint64) (committee, bool) {
			if inWindow(i) {
				return initialCommittee, true
			}
			return headOf(int64(i - c.Lookback - c.Initial))
		}
		// which certificate head (relative to i-lookback) does a beacon belong to
		offsetOf := func(i uint64, got committee) string {
			if inWindow(i) {
				if bytes.Equal(got.beacon, initialCommittee.beacon) {
					return "+0"
				}
				return "?"
			}
			base := int64(i - c.Lookback - c.Initial)
			for _, d := range []int64{0, 1, -1, 2, -2, 3, -3} {
				if h, ok := headOf(base + d); ok && bytes.Equal(h.beacon, got.beacon) {
					return fmt.Sprintf("%+d", d)
				}
			}
			return "?"
		}

		// ---- the node
		cs, err := certstore.CreateStore(ctx, ds_sync.MutexWrap(datastore.NewMapDatastore()), m.InitialInstance, bootPT)
		if err != nil {
			panic(err)
		}
		node := f3.VerifNewInputs(m, cs, fec, sv, clk)

		certchainSide := func(i uint64) (committee, error) {
			cm, err := obj.GetCommittee(ctx, i)
			if err != nil {
				return committee{}, err
			}
			return committee{entries: cm.PowerTable.Entries, beacon: cm.Beacon}, nil
		}

		compare := func(i uint64, state string, ruleEntries bool) {
			last := c.Initial + c.Length - 1
			want, haveSpec := spec(i)
			if !haveSpec {
				return
			}
			ncm, nerr := node.GetCommittee(ctx, i)
			if nerr != nil {
				run.Violation(fmt.Sprintf("C19 certchain committee: node GetCommittee fails on generated certificates (state=%s): %s", state, stripNumbers(nerr.Error())),
					wit(map[string]any{"instance": i, "state": state, "error": nerr.Error()}))
				return
			}
			n := committee{entries: ncm.PowerTable.Entries, beacon: ncm.Beacon}
			cm, cerr := certchainSide(i)
			if cerr != nil {
				if i <= last {
					run.Violation(fmt.Sprintf("C19 certchain committee: certchain.GetCommittee fails for a generated instance: %s", stripNumbers(cerr.Error())),
						wit(map[string]any{"instance": i, "error": cerr.Error()}))
				}
				return
			}
			run.Count("certchain_committees_compared", 1)
			run.Eval(1)
			run.Count("certchain_compared_state_"+state, 1)
			win := "steady"
			if inWindow(i) {
				win = "bootstrap-window"
			}
			run.Distinct(fmt.Sprintf("cc|%d|%d|%s|%s", c.Lookback, c.Initial, state, win))
			// In the store-backed states the node takes the ENTRIES from its certstore, i.e. from the
			// deltas certchain wrote into the certificates; only its beacon is rule-derived there.
			certDev := !cm.eq(want, true, true)
			nodeDev := !n.eq(want, ruleEntries, true)
			differ := diffFields(cm, n)
			if differ == "" && !certDev && !nodeDev {
				return
			}
			side := "neither"
			switch {
			case certDev && nodeDev:
				side = "both"
			case certDev:
				side = "certchain"
			case nodeDev:
				side = "node"
			}
			w := wit(map[string]any{"instance": i, "node_state": state, "lookback": c.Lookback, "initial": c.Initial,
				"certchain_vs_node": differ, "certchain_vs_spec": diffFields(cm, want), "node_vs_spec": diffFields(n, want),
				"spec_certificate": int64(i) - int64(c.Lookback), "certchain_beacon": fmt.Sprintf("%x", cm.beacon), "node_beacon": fmt.Sprintf("%x", n.beacon), "spec_beacon": fmt.Sprintf("%x", want.beacon)})
			run.Count("certchain_committees_deviating", 1)
			if differ == "" {
				run.Violation(fmt.Sprintf("C19 certchain committee: certchain and node agree with each other but not with the look-back rule (%s); certchain takes head of certificate i-L%s; node takes head of certificate i-L%s",
					diffFields(cm, want), offsetOf(i, cm), offsetOf(i, n)), w)
				return
			}
			run.Violation(fmt.Sprintf("C19 certchain committee: certchain.GetCommittee differs from node GetCommittee in %s; deviating side=%s; certchain takes head of certificate i-L%s; node takes head of certificate i-L%s",
				differ, side, offsetOf(i, cm), offsetOf(i, n)), w)
		}

		for t := uint64(0); t <= c.Length; t++ {
			// store holds certificates initial .. initial+t-1
			next := c.Initial + t
			compare(next, "one-behind"+gen, false)
			compare(next+1, "two-behind-ec-path"+gen, true)
			if t == c.Length {
				break
			}
			if err := cs.Put(ctx, crts[t]); err != nil {
				run.Violation("C19 certchain committee: a real certstore rejects a generated certificate: "+stripNumbers(err.Error()),
					wit(map[string]any{"instance": next, "error": err.Error()}))
				return
			}
		}
		// full store: every generated instance plus the look-ahead the node can still serve
		for i := c.Initial; i <= c.Initial+c.Length-1+c.Lookback; i++ {
			compare(i, "full-store"+gen, i > c.Initial+c.Length)
		}
		// generated certificates must also validate as a chain against the initial table (sanity of the workload)
		if _, _, _, err := certs.ValidateFinalityCertificates(sv, m.NetworkName, bootPT, c.Initial, crts[0].ECChain.Base(), crts...); err != nil {
			run.Count("certchain_chain_validation_failed", 1)
		}
	}
	verify(cc, crts, "")
	if j%2 == 0 {
		// the same generator object produces a second, different chain: its committees must follow the
		// look-back rule over the NEW chain (nothing of the first one may be remembered)
		crts2, err := cc.Generate(ctx, c.Length)
		if err != nil {
			run.Violation("C19 certchain committee: a second Generate on the same generator fails: "+stripNumbers(err.Error()), wit(map[string]any{"error": err.Error()}))
			return
		}
		same := len(crts2) == len(crts)
		for k := 0; same && k < len(crts); k++ {
			same = crts2[k].ECChain.Eq(crts[k].ECChain)
		}
		if same {
			run.Count("certchain_regenerated_chain_identical", 1)
		} else {
			run.Count("certchain_regenerated_chains", 1)
		}
		verify(cc, crts2, "+regenerated")
	}
	if j%2 == 1 && len(crts) >= 4 {
		// a second object VALIDATES the generated chain: a prefix, then a forged certificate that must be
		// turned down, then the genuine continuation; afterwards its committees must still follow the
		// node rule over the accepted certificates only
		vc, err := certchain.New(certchain.WithSeed(c.Seed+1), certchain.WithSignVerifier(sv), certchain.WithManifest(m), certchain.WithEC(fec))
		if err != nil {
			panic(err)
		}
		k := 1 + int(uint64(c.Seed)%uint64(len(crts)-2))
		run.Count("certchain_validate_flows", 1)
		if err := vc.Validate(ctx, crts[:k]); err != nil {
			run.Violation("C19 certchain validate: Validate rejects a prefix of a chain Generate produced: "+stripNumbers(err.Error()), wit(map[string]any{"k": k, "error": err.Error()}))
			return
		}
		bad := *crts[k]
		bad.Signature = append([]byte(nil), bad.Signature...)
		if len(bad.Signature) > 0 {
			bad.Signature[len(bad.Signature)/2] ^= 0x5a
		}
		if err := vc.Validate(ctx, []*certs.FinalityCertificate{&bad}); err == nil {
			run.Violation("C19 certchain validate: Validate accepts a certificate with a tampered signature", wit(map[string]any{"k": k}))
			return
		}
		if err := vc.Validate(ctx, crts[k:]); err != nil {
			run.Violation("C19 certchain validate: Validate rejects the genuine continuation after having turned down a forged certificate: "+stripNumbers(err.Error()), wit(map[string]any{"k": k, "error": err.Error()}))
			return
		}
		verify(vc, crts, "+validated-after-rejection")
	}
}

func stripNumbers(s string) string {
	var b strings.Builder
	prevDigit := false
	for _, r := range s {
		if r >= '0' && r <= '9' {
			if !prevDigit {
				b.WriteByte('N')
			}
			prevDigit = true
			continue
		}
		prevDigit = false
		b.WriteRune(r)
	}
	if b.Len() > 160 {
		return b.String()[:160]
	}
	return b.String()
}
