package c15

// participant.go: the participant-side half of C15. A real gpbft.Participant is
// started over a host whose GetProposal returns over-long (up to 500 tipsets)
// and malformed chains; whatever it broadcasts as its QUALITY proposal must be
// well-formed, at most 128 tipsets long, start at the host's base and be a
// prefix of the host's chain.

import (
	"context"
	"fmt"
	"math/big"
	"math/rand"

	"github.com/filecoin-project/go-f3/gpbft"
	"github.com/filecoin-project/go-f3/verifh/vfix"
	"github.com/filecoin-project/go-f3/verifh/vkit"
	"github.com/ipfs/go-cid"
)

func participantPhase(run *vkit.Run) {
	n := run.N(300, 3000)
	if run.Case >= 0 {
		return
	}
	for i := 0; i < n; i++ {
		seed := run.SubSeed(int64(1_000_000_000 + i))
		rng := rand.New(rand.NewSource(seed))
		participantCase(run, i, rng)
	}
}

func participantCase(run *vkit.Run, i int, rng *rand.Rand) {
	members := 1 + rng.Intn(5)
	ids := make([]gpbft.ActorID, members)
	pw := make([]*big.Int, members)
	for k := range ids {
		ids[k] = gpbft.ActorID(100 + k)
		pw[k] = big.NewInt(int64(1 + rng.Intn(100)))
	}
	com, err := vfix.NewCommittee(7, ids, pw, []byte("c15-beacon"))
	if err != nil {
		panic(err)
	}
	length := pick(rng, 1, 2, 3, 100, 127, 128, 129, 130, 200, 200, 200, 256, 500, 1+rng.Intn(300))
	chain := &gpbft.ECChain{}
	epoch := int64(rng.Intn(1000))
	for k := 0; k < length; k++ {
		chain.TipSets = append(chain.TipSets, vfix.Tip(epoch, fmt.Sprint("p", i), com.CID))
		epoch += 1 + int64(rng.Intn(3))
	}
	// malformations
	mal, malPos := "none", -1
	if rng.Intn(2) == 0 {
		mal = pick(rng, "dup-base", "epoch-decrease", "epoch-equal", "empty-key", "undef-cid", "nil-tipset", "long-key", "zero-chain")
		malPos = rng.Intn(length)
		if rng.Intn(3) == 0 && length > 128 {
			malPos = 128 + rng.Intn(length-128) // beyond what the participant may keep
		}
		switch mal {
		case "dup-base":
			malPos = min(1, length-1)
			dup := *chain.TipSets[0]
			chain.TipSets = append([]*gpbft.TipSet{chain.TipSets[0], &dup}, chain.TipSets[1:]...)
			malPos = 1
		case "epoch-decrease":
			if malPos == 0 {
				malPos = length - 1
			}
			if malPos > 0 {
				chain.TipSets[malPos].Epoch = chain.TipSets[malPos-1].Epoch - 1
			}
		case "epoch-equal":
			if malPos == 0 {
				malPos = length - 1
			}
			if malPos > 0 {
				chain.TipSets[malPos].Epoch = chain.TipSets[malPos-1].Epoch
			}
		case "empty-key":
			chain.TipSets[malPos].Key = nil
		case "undef-cid":
			chain.TipSets[malPos].PowerTable = cid.Undef
		case "nil-tipset":
			chain.TipSets[malPos] = nil
		case "long-key":
			chain.TipSets[malPos].Key = make([]byte, 20*38+1)
		case "zero-chain":
			chain.TipSets = nil
		}
	}
	inst := uint64(rng.Intn(4))
	host := vfix.NewStaticHost()
	host.Committees[inst] = com
	host.Proposals[inst] = chain
	host.Supp[inst] = gpbft.SupplementalData{PowerTable: com.CID}
	part, err := gpbft.NewParticipant(host)
	if err != nil {
		panic(err)
	}
	ctx := context.Background()
	err1 := part.StartInstanceAt(inst, host.Now)
	var err2 error
	if err1 == nil {
		err2 = part.ReceiveAlarm(ctx)
	}
	run.Eval(1)
	run.Count("participant_cases", 1)
	run.Count("participant_input["+mal+"]", 1)
	if length > protocolMaxLen {
		run.Count("participant_inputs_longer_than_128", 1)
	}
	if err1 != nil || err2 != nil {
		run.Count("participant_begin_errors", 1)
	}
	for _, mb := range host.Sent {
		if mb.Payload.Phase != gpbft.QUALITY_PHASE {
			continue
		}
		run.Count("participant_quality_broadcasts", 1)
		v := mb.Payload.Value
		wit := map[string]any{"pcase": i, "input_len": length, "malformation": mal, "position": malPos, "proposed_len": v.Len()}
		if v.Len() > protocolMaxLen {
			run.Violation("C15 participant proposes more than 128 tipsets in QUALITY", wit)
			return
		}
		if why := wellFormed(v); why != "" {
			run.Violation("C15 participant proposes a malformed chain in QUALITY: "+why, wit)
			return
		}
		// prefix of the host's chain, starting at its base
		for k, ts := range v.TipSets {
			if k >= len(chain.TipSets) || chain.TipSets[k] == nil || !ts.Equal(chain.TipSets[k]) {
				run.Violation("C15 participant's QUALITY proposal is not a prefix of the chain its host returned", wit)
				return
			}
		}
		if length >= protocolMaxLen && mal == "none" && v.Len() == protocolMaxLen {
			run.Count("participant_truncations_to_128", 1)
		}
		run.Distinct(fmt.Sprintf("p/%d/%s/%d/%d", length, mal, malPos, v.Len()))
	}
}
